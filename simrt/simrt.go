// Package simrt is the run-time half of the threads world (DESIGN 3.4): the
// functions the go/ast rewriter (/verif/instr) inserts into the scratch copies
// of the packages under test, and the token scheduler that decides which
// goroutine runs.
//
// Without an installed, running scheduler every function is a passthrough
// (Lock locks, Unlock unlocks, Go returns its argument), so an instrumented
// package behaves exactly like the original.
//
// With a scheduler exactly one managed goroutine holds the run token. At every
// Yield the scheduler's Pick policy (a pure function of the plan) may hand the
// token to another goroutine. A goroutine that fails a TryLock yields ("spins")
// so the token holder never blocks while holding the token.
//
// The package depends on nothing but the standard library. Every function is
// //go:norace: under `-race` (C44) the scheduler's own bookkeeping must be
// invisible to the detector, and in pipe mode the token travels through raw
// read/write system calls, which carry no happens-before annotation, so only
// the synchronisation of the program under test orders its memory accesses.
package simrt

import (
	"fmt"
	"reflect"
	"runtime"
	"runtime/debug"
	"sync"
	"syscall"
	"unsafe"
)

// Instrumented is set to a non-empty string by the linker
// (-ldflags "-X verif/simrt.Instrumented=1") in worker binaries that were built
// with the overlay of rewritten sources. The plain harness binary leaves it empty.
var Instrumented string

// RaceBuild is set the same way in -race worker binaries.
var RaceBuild string

type Mode int

const (
	ModeChan Mode = iota // token over channels (C37, C46)
	ModePipe             // token over raw pipe syscalls (C44, invisible to -race)
)

// G is one managed goroutine.
type G struct {
	ID       int
	Tag      int // harness: id of the operation currently executing (-1 none)
	TagYield int // yields since Tag was last set
	Yields   int
	Site     string // last yield site
	Spinning bool   // currently failing a TryLock
	Done     bool
	Held     int    // locks acquired minus locks released by this goroutine (scheduled mode only)
	Panic    string // recovered panic of the body ("" none)

	body func(g *G)
	wake chan struct{}
	rfd  int
	wfd  int
}

// Stuck describes a goroutine that was alive when the run was aborted.
type Stuck struct {
	ID   int
	Tag  int
	Site string
	Spin bool
	Held int // locks the goroutine holds while it waits
}

// Sched is a token scheduler for one run.
type Sched struct {
	Mode       Mode
	MaxSteps   int64 // step budget (harness trouble / inconclusive when exceeded)
	SpinRounds int   // deadlock: SpinRounds * live consecutive failed TryLocks without progress

	// Pick is consulted at every non-spinning yield of g. It returns -1 to let g
	// continue, or k >= 0 to pre-empt g in favour of the k-th (mod count) other
	// live goroutine in cyclic id order after g. Must be a pure function of the
	// plan and of (g.ID, g.Tag, g.TagYield, g.Yields).
	Pick func(g *G) int
	// Observe is called (in quiet mode: nested simrt calls pass through) by the
	// token holder at every non-spinning yield, before the scheduling decision.
	Observe func(g *G, site string)

	gs      []*G
	cur     *G
	running bool
	quiet   int
	seq     int64
	streak  int
	live    int

	Switches  int // context switches of any kind
	Preempts  int // scheduler-forced switches at a non-blocking yield
	SpinFails int // failed TryLocks
	// ReaderBlockedByWriter counts read-lock attempts refused because a writer was pending
	ReaderBlockedByWriter int
	pendW                 []pendEntry // pending writers per mutex (no map: the runtime's map functions
	// carry their own race instrumentation, which //go:norace does not switch off)
	SchedHash uint64

	Aborted  bool
	Deadlock bool
	Budget   bool
	StuckGs  []Stuck

	extraFds []int
	mainWake chan struct{}
	mainR    int
	mainW    int
	wg       sync.WaitGroup
}

var cur *Sched

// ErrWouldBlock is the panic value raised by Lock in quiet mode when the lock
// is held; TryQuiet recovers it.
type wouldBlock struct{}

//go:norace
func New(mode Mode) *Sched {
	return &Sched{Mode: mode, MaxSteps: 200000, SpinRounds: 3, SchedHash: 1469598103934665603}
}

// Spawn registers a managed goroutine; only before Run.
//
//go:norace
func (s *Sched) Spawn(body func(g *G)) *G {
	g := &G{ID: len(s.gs), Tag: -1, body: body}
	s.gs = append(s.gs, g)
	return g
}

//go:norace
func (s *Sched) Gs() []*G { return s.gs }

// Tick advances and returns the global event sequence number (history stamps).
//
//go:norace
func (s *Sched) Tick() int64 { s.seq++; return s.seq }

//go:norace
func (s *Sched) Seq() int64 { return s.seq }

// SetTag marks the operation g is executing (Pick keys pre-emptions on it).
//
//go:norace
func (g *G) SetTag(tag int) { g.Tag = tag; g.TagYield = 0 }

// ---- token transport -----------------------------------------------------------------------------

//go:norace
func rawWrite(fd int) {
	var b [1]byte
	for {
		_, _, e := syscall.Syscall(syscall.SYS_WRITE, uintptr(fd), uintptr(unsafe.Pointer(&b[0])), 1)
		if e == syscall.EINTR || e == syscall.EAGAIN {
			continue
		}
		if e != 0 {
			panic("simrt: pipe write: " + e.Error())
		}
		return
	}
}

//go:norace
func rawRead(fd int) {
	var b [1]byte
	for {
		n, _, e := syscall.Syscall(syscall.SYS_READ, uintptr(fd), uintptr(unsafe.Pointer(&b[0])), 1)
		if e == syscall.EINTR || e == syscall.EAGAIN {
			continue
		}
		if e != 0 {
			panic("simrt: pipe read: " + e.Error())
		}
		if n == 1 {
			return
		}
		if n == 0 {
			panic("simrt: pipe closed")
		}
	}
}

//go:norace
func (s *Sched) wakeG(g *G) {
	if s.Mode == ModePipe {
		rawWrite(g.wfd)
	} else {
		g.wake <- struct{}{}
	}
}

//go:norace
func (s *Sched) parkG(g *G) {
	if s.Mode == ModePipe {
		rawRead(g.rfd)
	} else {
		<-g.wake
	}
}

//go:norace
func (s *Sched) wakeMain() {
	if s.Mode == ModePipe {
		rawWrite(s.mainW)
	} else {
		s.mainWake <- struct{}{}
	}
}

//go:norace
func (s *Sched) parkMain() {
	if s.Mode == ModePipe {
		rawRead(s.mainR)
	} else {
		<-s.mainWake
	}
}

// ---- run -----------------------------------------------------------------------------------------

// Run executes all spawned goroutines under the token discipline, starting with
// goroutine `first` (mod n), and returns when all have finished or the run was
// aborted (deadlock or step budget). It must be called from an unmanaged
// goroutine; only one Sched may run at a time in a process.
//
//go:norace
func (s *Sched) Run(first int) {
	if len(s.gs) == 0 {
		return
	}
	if cur != nil {
		panic("simrt: a scheduler is already running")
	}
	var fds []int
	if s.Mode == ModePipe {
		mk := func() (int, int) {
			var p [2]int
			if err := syscall.Pipe2(p[:], syscall.O_CLOEXEC); err != nil {
				panic("simrt: pipe: " + err.Error())
			}
			fds = append(fds, p[0], p[1])
			return p[0], p[1]
		}
		s.mainR, s.mainW = mk()
		for _, g := range s.gs {
			g.rfd, g.wfd = mk()
		}
	} else {
		s.mainWake = make(chan struct{}, 1)
		for _, g := range s.gs {
			g.wake = make(chan struct{}, 1)
		}
	}
	s.live = len(s.gs)
	cur = s
	s.wg.Add(len(s.gs))
	for _, g := range s.gs {
		go s.top(g)
	}
	s.cur = s.gs[((first%len(s.gs))+len(s.gs))%len(s.gs)]
	s.running = true
	s.wakeG(s.cur)
	s.parkMain()
	if s.Aborted {
		// unwind the parked goroutines one at a time (their deferred unlocks run
		// as plain calls; never two of them concurrently)
		for _, g := range s.gs {
			if !g.Done {
				s.cur = g
				s.wakeG(g)
				s.parkMain()
			}
		}
	}
	s.running = false
	// a real synchronisation edge worker-end -> main, so that the harness may read
	// what the workers recorded (created only after the run is over)
	s.wg.Wait()
	cur = nil
	for _, fd := range append(fds, s.extraFds...) {
		syscall.Close(fd)
	}
}

//go:norace
func (s *Sched) top(g *G) {
	defer s.wg.Done()
	defer s.exit(g)
	s.parkG(g)
	if s.Aborted {
		return
	}
	g.body(g)
}

// exit runs as a deferred call of the goroutine's top frame: on normal return,
// on runtime.Goexit (abort) and on a panic of the code under test.
//
//go:norace
func (s *Sched) exit(g *G) {
	if r := recover(); r != nil {
		if _, ok := r.(wouldBlock); ok {
			g.Panic = "simrt: quiet-mode lock would block outside TryQuiet"
		} else {
			g.Panic = fmt.Sprintf("%v\n%s", r, debug.Stack())
		}
	}
	g.Done = true
	g.Spinning = false
	s.live--
	s.streak = 0
	if s.Aborted {
		s.wakeMain()
		return
	}
	if s.live == 0 {
		s.wakeMain()
		return
	}
	nxt := s.nextLive(g, 0)
	s.Switches++
	s.mix(nxt.ID)
	s.cur = nxt
	s.wakeG(nxt)
}

// nextLive returns the k-th (mod count) live goroutine other than g in cyclic
// id order after g; g itself when it is the only live one.
//
//go:norace
func (s *Sched) nextLive(g *G, k int) *G {
	n := len(s.gs)
	cnt := 0
	for i := 1; i < n; i++ {
		if !s.gs[(g.ID+i)%n].Done {
			cnt++
		}
	}
	if cnt == 0 {
		return g
	}
	k = ((k % cnt) + cnt) % cnt
	for i := 1; i < n; i++ {
		o := s.gs[(g.ID+i)%n]
		if !o.Done {
			if k == 0 {
				return o
			}
			k--
		}
	}
	return g
}

//go:norace
func (s *Sched) mix(id int) {
	s.SchedHash ^= uint64(id + 1)
	s.SchedHash *= 1099511628211
}

//go:norace
func (s *Sched) abort(g *G, deadlock bool) {
	s.Aborted = true
	s.Deadlock = deadlock
	s.Budget = !deadlock
	for _, o := range s.gs {
		if !o.Done {
			s.StuckGs = append(s.StuckGs, Stuck{ID: o.ID, Tag: o.Tag, Site: o.Site, Spin: o.Spinning, Held: o.Held})
		}
	}
	runtime.Goexit() // -> exit(g) -> wakeMain
}

// yield is executed by the token holder.
//
//go:norace
func (s *Sched) yield(site string, spin bool) {
	g := s.cur
	s.seq++
	g.Site = site
	if spin {
		s.streak++
		s.SpinFails++
		g.Spinning = true
	} else {
		s.streak = 0
		g.Spinning = false
		g.Yields++
		g.TagYield++
		if s.Observe != nil {
			s.quiet++
			s.Observe(g, site)
			s.quiet--
		}
	}
	if s.seq > s.MaxSteps {
		s.abort(g, false)
	}
	var nxt *G
	if spin {
		if s.streak >= s.SpinRounds*s.live {
			s.abort(g, true)
		}
		nxt = s.nextLive(g, 0)
	} else {
		nxt = g
		if s.Pick != nil {
			if k := s.Pick(g); k >= 0 {
				nxt = s.nextLive(g, k)
				if nxt != g {
					s.Preempts++
				}
			}
		}
	}
	s.mix(nxt.ID)
	if nxt == g {
		return
	}
	s.Switches++
	s.cur = nxt
	s.wakeG(nxt)
	s.parkG(g)
	if s.Aborted {
		runtime.Goexit()
	}
}

// active reports whether the caller is (by the token discipline) the token
// holder of a running scheduler and not in quiet mode.
//
//go:norace
func active() *Sched {
	s := cur
	if s == nil || !s.running || s.quiet > 0 || s.Aborted {
		return nil
	}
	return s
}

// ---- functions inserted by the rewriter ----------------------------------------------------------

// Yield is a scheduling point.
//
//go:norace
func Yield(site string) {
	if s := active(); s != nil {
		s.yield(site, false)
	}
}

// YA yields and returns v: `atomic.AddInt32(p, 1)` becomes
// `atomic.AddInt32(simrt.YA(site, p), 1)` and `x.v.Store(b)` becomes
// `simrt.YA(site, &x.v).Store(b)`; the atomic operation stays a direct call.
//
//go:norace
func YA[T any](site string, v T) T {
	if s := active(); s != nil {
		s.yield(site, false)
	}
	return v
}

// Lock replaces x.Lock() (sync.Mutex and sync.RWMutex): a scheduling point, then
// TryLock with a yield loop. key identifies the mutex (its address). While a
// goroutine waits here it is a *pending writer*: like sync.RWMutex, simrt then
// grants no new read lock on that mutex (see RLock) until the writer got the lock.
//
//go:norace
func Lock(key any, lock func(), try func() bool, site string) {
	s := cur
	if s == nil || !s.running {
		lock()
		return
	}
	if s.Aborted {
		// unwinding after an abort: never block
		if !try() {
			runtime.Goexit()
		}
		return
	}
	if s.quiet > 0 {
		if !try() {
			panic(wouldBlock{})
		}
		return
	}
	s.yield(site, false)
	s.addPend(key, 1)
	for !try() {
		s.yield(site, true) // on abort the goroutine exits here; pendW is irrelevant then
	}
	s.addPend(key, -1)
	s.cur.Spinning = false
	s.cur.Held++
}

type pendEntry struct {
	key any
	n   int
}

//go:norace
func (s *Sched) pending(key any) int {
	for i := range s.pendW {
		if s.pendW[i].key == key {
			return s.pendW[i].n
		}
	}
	return 0
}

//go:norace
func (s *Sched) addPend(key any, d int) {
	for i := range s.pendW {
		if s.pendW[i].key == key {
			s.pendW[i].n += d
			return
		}
	}
	s.pendW = append(s.pendW, pendEntry{key, d})
}

// RLock replaces x.RLock(). Writer preference as in sync.RWMutex: while a writer
// is pending on the same mutex a new read lock is not granted, also not to a
// goroutine that already holds a read lock (a recursive read lock with a writer
// arriving in between deadlocks, in the real mutex and here).
//
//go:norace
func RLock(key any, rlock func(), try func() bool, site string) {
	s := cur
	if s == nil || !s.running {
		rlock()
		return
	}
	if s.Aborted {
		if !try() {
			runtime.Goexit()
		}
		return
	}
	if s.quiet > 0 {
		// the observer is not a participant: pending writers do not keep it out
		if !try() {
			panic(wouldBlock{})
		}
		return
	}
	s.yield(site, false)
	for s.pending(key) > 0 || !try() {
		if s.pending(key) > 0 {
			s.ReaderBlockedByWriter++
		}
		s.yield(site, true)
	}
	s.cur.Spinning = false
	s.cur.Held++
}

// Unlock replaces x.Unlock() / x.RUnlock() (also in defer statements).
//
//go:norace
func Unlock(unlock func(), site string) {
	if s := active(); s != nil {
		s.yield(site, false)
		s.cur.Held--
	}
	unlock()
}

// Try replaces x.TryLock() / x.TryRLock().
//
//go:norace
func Try(try func() bool, site string) bool {
	s := active()
	if s != nil {
		s.yield(site, false)
	}
	ok := try()
	if ok && s != nil {
		s.cur.Held++
	}
	return ok
}

// Block runs a blocking call (sync.WaitGroup.Wait) without holding the token
// while blocked: the call runs on a helper goroutine and the caller spins.
//
//go:norace
func Block(f func(), site string) {
	s := active()
	if s == nil {
		f()
		return
	}
	done := make(chan struct{})
	go func() { f(); close(done) }()
	s.yield(site, false)
	for {
		select {
		case <-done:
			s.cur.Spinning = false
			return
		default:
		}
		runtime.Gosched()
		select {
		case <-done:
			s.cur.Spinning = false
			return
		default:
		}
		s.yield(site, true)
	}
}

// Go replaces the function operand of a go statement: `go f(a)` becomes
// `go simrt.Go(f)(a)`. Function value and arguments are still evaluated by the
// parent; the child registers with the scheduler (in the parent, so that ids are
// deterministic) and waits for the token before it runs f.
//
//go:norace
func Go[F any](f F) F {
	s := active()
	if s == nil {
		return f
	}
	fv := reflect.ValueOf(f)
	ft := fv.Type()
	if ft.Kind() != reflect.Func {
		panic("simrt.Go: not a function")
	}
	g := &G{ID: len(s.gs), Tag: -1}
	if s.Mode == ModePipe {
		var p [2]int
		if err := syscall.Pipe2(p[:], syscall.O_CLOEXEC); err != nil {
			panic("simrt: pipe: " + err.Error())
		}
		g.rfd, g.wfd = p[0], p[1]
		s.extraFds = append(s.extraFds, p[0], p[1])
	} else {
		g.wake = make(chan struct{}, 1)
	}
	s.gs = append(s.gs, g)
	s.live++
	s.wg.Add(1)
	w := reflect.MakeFunc(ft, func(args []reflect.Value) []reflect.Value {
		defer s.wg.Done()
		defer s.exit(g)
		s.parkG(g)
		if s.Aborted {
			return zeroResults(ft)
		}
		if ft.IsVariadic() {
			fv.CallSlice(args)
		} else {
			fv.Call(args)
		}
		return zeroResults(ft)
	})
	return w.Interface().(F)
}

//go:norace
func zeroResults(ft reflect.Type) []reflect.Value {
	out := make([]reflect.Value, ft.NumOut())
	for i := range out {
		out[i] = reflect.Zero(ft.Out(i))
	}
	return out
}

// ---- harness helpers -----------------------------------------------------------------------------

// Quiet runs f with all simrt calls passing through (no scheduling points).
// A Lock that would block panics; use TryQuiet when that can happen.
//
//go:norace
func (s *Sched) Quiet(f func()) {
	s.quiet++
	defer func() { s.quiet-- }()
	f()
}

// TryQuiet runs f in quiet mode and reports false when some lock taken by f was
// held by a parked goroutine (f is abandoned by a panic that unwinds its frames,
// so deferred unlocks of the code under test run).
//
//go:norace
func (s *Sched) TryQuiet(f func()) (ok bool) {
	s.quiet++
	defer func() {
		s.quiet--
		if r := recover(); r != nil {
			if _, wb := r.(wouldBlock); wb {
				ok = false
				return
			}
			panic(r)
		}
	}()
	f()
	return true
}
