package sim

import (
	"bufio"
	"encoding/json"
	"fmt"
	"os"
	"os/exec"
	"path/filepath"
	"runtime/debug"
	"sort"
	"strconv"
	"strings"
	"sync"
	"sync/atomic"
	"testing"
	"time"
)

// VerifDir is the root of the verification tree (evidence, replays, known findings).
func VerifDir() string {
	if d := os.Getenv("VERIF_DIR"); d != "" {
		return d
	}
	return "/verif"
}

// ---- known findings ------------------------------------------------------------------------------

type Finding struct {
	Property string `json:"property"`
	Sig      string `json:"sig"`
	What     string `json:"what"`
}

type KnownFile struct {
	Findings []Finding `json:"findings"`
	Fixed    []string  `json:"fixed"`
}

var (
	knownOnce sync.Once
	known     KnownFile
)

func loadKnown() {
	knownOnce.Do(func() {
		// known_findings.json plus known_findings.d/*.json (one file per world);
		// committed files, never written at run time.
		files := []string{filepath.Join(VerifDir(), "known_findings.json")}
		more, _ := filepath.Glob(filepath.Join(VerifDir(), "known_findings.d", "*.json"))
		sort.Strings(more)
		files = append(files, more...)
		for _, fn := range files {
			b, err := os.ReadFile(fn)
			if err != nil {
				continue
			}
			var kf KnownFile
			if err := json.Unmarshal(b, &kf); err != nil {
				fmt.Fprintf(os.Stderr, "%s: %v\n", fn, err)
				os.Exit(2)
			}
			known.Findings = append(known.Findings, kf.Findings...)
			known.Fixed = append(known.Fixed, kf.Fixed...)
		}
	})
}

// IsKnown reports whether a violation signature is a listed known finding.
func IsKnown(prop, sig string) *Finding {
	loadKnown()
	for i := range known.Findings {
		f := &known.Findings[i]
		if f.Property == prop && f.Sig == sig {
			return f
		}
	}
	return nil
}

// ---- exec one plan (in-process) ------------------------------------------------------------------

func execPlan(c *Check, env *Env, p *Plan) (res *Result) {
	defer func() {
		if r := recover(); r != nil {
			res = &Result{Seed: p.Seed, Panic: fmt.Sprintf("%v\n%s", r, debug.Stack())}
		}
	}()
	res = c.Exec(env, p)
	if res == nil {
		res = &Result{Seed: p.Seed, Panic: "Exec returned nil"}
	}
	res.Seed = p.Seed
	return res
}

// ---- entry point ---------------------------------------------------------------------------------

// Main is called from the harness binary's single test function.
// args: check|worker|shrink|replay|gen|list|manifest|selftest ...
func Main(t *testing.T, args []string) int {
	if len(args) == 0 {
		fmt.Fprintln(os.Stderr, "usage: verif check <ID> [--tier quick|thorough] | replay <file> | list | manifest | selftest <ID>")
		return 2
	}
	switch args[0] {
	case "list":
		for _, c := range All() {
			fmt.Printf("%s\t%s\t%s\n", c.ID, c.World, c.Title)
		}
		return 0
	case "check":
		return cmdCheck(args[1:])
	case "worker":
		return cmdWorker(t, args[1:])
	case "shrink":
		return cmdShrink(t, args[1:])
	case "replay":
		return cmdReplay(t, args[1:])
	case "gen":
		return cmdGen(args[1:])
	case "manifest":
		return cmdManifest(args[1:])
	case "selftest":
		return cmdSelftest(args[1:])
	}
	fmt.Fprintf(os.Stderr, "unknown command %q\n", args[0])
	return 2
}

type flags map[string]string

func parseFlags(args []string) (pos []string, f flags) {
	f = flags{}
	for i := 0; i < len(args); i++ {
		a := args[i]
		if strings.HasPrefix(a, "--") {
			k := a[2:]
			if eq := strings.IndexByte(k, '='); eq >= 0 {
				f[k[:eq]] = k[eq+1:]
			} else if i+1 < len(args) && !strings.HasPrefix(args[i+1], "--") {
				f[k] = args[i+1]
				i++
			} else {
				f[k] = "1"
			}
		} else {
			pos = append(pos, a)
		}
	}
	return
}

func (f flags) int(k string, def int) int {
	if v, ok := f[k]; ok {
		n, err := strconv.Atoi(v)
		if err == nil {
			return n
		}
	}
	return def
}

func (f flags) u64(k string, def uint64) uint64 {
	if v, ok := f[k]; ok {
		n, err := strconv.ParseUint(v, 10, 64)
		if err == nil {
			return n
		}
	}
	return def
}

func (f flags) str(k, def string) string {
	if v, ok := f[k]; ok {
		return v
	}
	return def
}

func selfArgv() []string {
	exe, err := os.Executable()
	if err != nil {
		exe = os.Args[0]
	}
	return []string{exe}
}

// ---- worker --------------------------------------------------------------------------------------

// cmdWorker: worker <ID> --tier T --start S --count N --stride K ; results to fd 3.
func cmdWorker(t *testing.T, args []string) int {
	pos, f := parseFlags(args)
	if len(pos) < 1 {
		return 2
	}
	c := Lookup(pos[0])
	if c == nil {
		fmt.Fprintf(os.Stderr, "unknown check %s\n", pos[0])
		return 2
	}
	tier := f.str("tier", "quick")
	start := f.u64("start", 1)
	count := f.int("count", 1)
	stride := f.u64("stride", 1)
	deadline := time.Now().Add(time.Duration(f.int("wall", 3600)) * time.Second)
	out := os.NewFile(3, "results")
	if out == nil {
		out = os.Stdout
	}
	w := bufio.NewWriter(out)
	defer w.Flush()
	env := &Env{T: t}
	for i := 0; i < count; i++ {
		if time.Now().After(deadline) {
			break
		}
		seed := start + uint64(i)*stride
		p := c.Gen(seed, tier)
		p.Prop, p.Seed, p.Tier = c.ID, seed, tier
		res := execPlan(c, env, p)
		b, _ := json.Marshal(res)
		w.Write(b)
		w.WriteByte('\n')
		w.Flush()
		if res.Panic != "" {
			// process state is unreliable after a panic
			return 3
		}
	}
	return 0
}

// ---- gen -----------------------------------------------------------------------------------------

func cmdGen(args []string) int {
	pos, f := parseFlags(args)
	if len(pos) < 1 {
		return 2
	}
	c := Lookup(pos[0])
	if c == nil {
		return 2
	}
	seed := f.u64("seed", 1)
	p := c.Gen(seed, f.str("tier", "quick"))
	p.Prop, p.Seed, p.Tier = c.ID, seed, f.str("tier", "quick")
	b, _ := json.MarshalIndent(p, "", " ")
	fmt.Println(string(b))
	return 0
}

// ---- replay --------------------------------------------------------------------------------------

type ReplayFile struct {
	Property  string     `json:"property"`
	Seed      uint64     `json:"seed"`
	Violation *Violation `json:"violation"`
	LogHash   string     `json:"log_hash"`
	Minimised bool       `json:"minimised"`
	OrigSteps int        `json:"orig_steps"`
	Plan      *Plan      `json:"plan"`
	EventLog  []string   `json:"event_log,omitempty"`
}

func readReplay(path string) (*ReplayFile, error) {
	b, err := os.ReadFile(path)
	if err != nil {
		return nil, err
	}
	var rf ReplayFile
	if err := json.Unmarshal(b, &rf); err != nil {
		return nil, err
	}
	if rf.Plan == nil {
		return nil, fmt.Errorf("%s: no plan", path)
	}
	return &rf, nil
}

// cmdReplay: replay <file> [--quiet] [--json]. Exit 1 + VIOLATION line when the
// recorded violation reproduces with the same event-log hash, exit 0 when the
// plan now passes, exit 2 when it fails differently.
func cmdReplay(t *testing.T, args []string) int {
	pos, f := parseFlags(args)
	if len(pos) < 1 {
		return 2
	}
	rf, err := readReplay(pos[0])
	if err != nil {
		fmt.Fprintln(os.Stderr, err)
		return 2
	}
	c := Lookup(rf.Plan.Prop)
	if c == nil {
		fmt.Fprintf(os.Stderr, "unknown check %s\n", rf.Plan.Prop)
		return 2
	}
	if rf.Violation != nil && strings.HasSuffix(rf.Violation.Sig, hangSuffix) {
		hs := c.HangS
		if hs <= 0 {
			hs = 300
		}
		doneC := make(chan *Result, 1)
		go func() { doneC <- execPlan(c, &Env{T: t, KeepLog: true}, rf.Plan) }()
		select {
		case <-doneC:
			fmt.Printf("replay: plan finishes now (seed=%d)\n", rf.Plan.Seed)
			return 0
		case <-time.After(time.Duration(hs) * time.Second):
			fmt.Printf("VIOLATION property=%s replay=%s\n", c.ID, pos[0])
			fmt.Printf("  %s\n", rf.Violation.String())
			os.Stdout.Sync()
			os.Exit(1)
		}
	}
	res := execPlan(c, &Env{T: t, KeepLog: true}, rf.Plan)
	if f.str("log", "") != "" {
		for i, l := range res.Log {
			fmt.Printf("%4d %s\n", i+1, l)
		}
	}
	res.Log = nil
	if f.str("json", "") != "" {
		b, _ := json.Marshal(res)
		fmt.Println("RESULT " + string(b))
	}
	if res.Panic != "" && !c.PanicIsViolation {
		fmt.Fprintf(os.Stderr, "harness panic on replay: %s\n", res.Panic)
		return 2
	}
	if res.Panic != "" {
		res.Violations = append(res.Violations, panicViolation(c, res))
	}
	if len(res.Violations) == 0 {
		fmt.Printf("replay: plan passes (seed=%d steps=%d log=%s)\n", rf.Plan.Seed, len(rf.Plan.Steps), res.LogHash)
		return 0
	}
	want := ""
	if rf.Violation != nil {
		want = rf.Violation.Sig
	}
	for _, v := range res.Violations {
		if want == "" || v.Sig == want {
			fmt.Printf("VIOLATION property=%s replay=%s\n", v.Prop, pos[0])
			fmt.Printf("  %s\n", v.String())
			if rf.LogHash != "" && rf.LogHash != res.LogHash {
				fmt.Printf("  note: event-log hash differs from the recorded one (%s vs %s)\n", res.LogHash, rf.LogHash)
				return 2
			}
			return 1
		}
	}
	fmt.Printf("replay: different violation(s): %s (recorded %q)\n", res.Violations[0].String(), want)
	return 2
}

const hangSuffix = "/operation-never-returns"

func hangViolation(c *Check) *Violation {
	return &Violation{Prop: c.ID, Oracle: "watchdog", Sig: c.ID + hangSuffix, Detail: "the plan did not finish within the watchdog budget: an operation of the code under test never returned"}
}

func panicViolation(c *Check, res *Result) *Violation {
	first := res.Panic
	if i := strings.IndexByte(first, '\n'); i > 0 {
		first = first[:i]
	}
	return &Violation{Prop: c.ID, Oracle: "panic", Sig: c.ID + "/panic", Detail: first}
}

// ---- shrink --------------------------------------------------------------------------------------

// cmdShrink: shrink <planfile> --sig SIG --out FILE [--budget N]
func cmdShrink(t *testing.T, args []string) int {
	pos, f := parseFlags(args)
	if len(pos) < 1 {
		return 2
	}
	rf, err := readReplay(pos[0])
	if err != nil {
		fmt.Fprintln(os.Stderr, err)
		return 2
	}
	c := Lookup(rf.Plan.Prop)
	if c == nil {
		return 2
	}
	sig := f.str("sig", "")
	budget := f.int("budget", 400)
	wall := time.Now().Add(time.Duration(f.int("wall", 120)) * time.Second)
	env := &Env{T: t}
	execs := 0
	fails := func(p *Plan) (*Result, *Violation) {
		execs++
		res := execPlan(c, env, p)
		if res.Panic != "" && c.PanicIsViolation {
			res.Violations = append(res.Violations, panicViolation(c, res))
		}
		for _, v := range res.Violations {
			if v.Sig == sig {
				return res, v
			}
		}
		return res, nil
	}
	best := rf.Plan.Clone()
	bres, bv := fails(best)
	if bv == nil {
		fmt.Fprintf(os.Stderr, "shrink: original plan does not reproduce %q in-process\n", sig)
		return 2
	}
	orig := len(best.Steps)
	// ddmin over steps
	n := 2
	for len(best.Steps) >= 1 && execs < budget && time.Now().Before(wall) {
		L := len(best.Steps)
		if n > L {
			n = L
		}
		if n < 1 {
			break
		}
		chunk := (L + n - 1) / n
		reduced := false
		for i := 0; i < L && execs < budget && time.Now().Before(wall); i += chunk {
			j := i + chunk
			if j > L {
				j = L
			}
			cand := best.Clone()
			cand.Steps = append(append([]Step{}, best.Steps[:i]...), best.Steps[j:]...)
			if r, v := fails(cand); v != nil {
				best, bres, bv = cand, r, v
				reduced = true
				if n > 2 {
					n--
				}
				break
			}
		}
		if !reduced {
			if chunk <= 1 {
				break
			}
			n *= 2
		}
	}
	// argument simplification
	if c.Simplify != nil {
		progress := true
		for progress && execs < budget && time.Now().Before(wall) {
			progress = false
			for _, cand := range c.Simplify(best) {
				if execs >= budget || !time.Now().Before(wall) {
					break
				}
				if r, v := fails(cand); v != nil {
					best, bres, bv = cand, r, v
					progress = true
					break
				}
			}
		}
	}
	// final run with the event log kept
	env.KeepLog = true
	bres = execPlan(c, env, best)
	out := &ReplayFile{Property: c.ID, Seed: best.Seed, Violation: bv, LogHash: bres.LogHash, Minimised: true, OrigSteps: orig, Plan: best}
	if s, ok := bres.Sample.([]string); ok {
		out.EventLog = s
	}
	b, _ := json.MarshalIndent(out, "", " ")
	if err := os.WriteFile(f.str("out", pos[0]+".min"), b, 0o644); err != nil {
		fmt.Fprintln(os.Stderr, err)
		return 2
	}
	fmt.Printf("shrink: %d -> %d steps in %d executions\n", orig, len(best.Steps), execs)
	return 0
}

// ---- check ---------------------------------------------------------------------------------------

type agg struct {
	mu         sync.Mutex
	evals      int
	fps        map[string]struct{}
	faults     map[string]int
	probes     map[string]int
	steps      int
	simS       float64
	states     map[string]struct{}
	samples    []any
	logs       map[uint64]string
	violations map[string]*found // by sig
	knownSeen  map[string]int
	panics     []string
	inconcl    int
	hung       int
	crashes    map[string]int
	crashSeed  map[string]uint64
}

type found struct {
	v    *Violation
	seed uint64
	n    int
}

func cmdCheck(args []string) int {
	pos, f := parseFlags(args)
	if len(pos) < 1 {
		fmt.Fprintln(os.Stderr, "check <ID>")
		return 2
	}
	c := Lookup(pos[0])
	if c == nil {
		fmt.Fprintf(os.Stderr, "unknown check %s\n", pos[0])
		return 2
	}
	tier := f.str("tier", os.Getenv("VERIF_TIER"))
	if tier != "thorough" {
		tier = "quick"
	}
	b := c.Quick
	base := uint64(1000)
	if tier == "thorough" {
		b = c.Thorough
		base = 1000000
	}
	if s := os.Getenv("VERIF_SEED"); s != "" {
		if n, err := strconv.ParseInt(s, 10, 64); err == nil {
			base = uint64(n)
		}
	}
	base = f.u64("seed", base)
	runs := f.int("runs", b.Runs)
	workers := f.int("workers", b.Workers)
	if workers <= 0 {
		workers = 16
	}
	wallS := f.int("wall", b.WallS)
	if wallS <= 0 {
		wallS = 3600
	}
	perProc := c.RunsPerProc
	if perProc <= 0 {
		perProc = 40
	}
	hangS := c.HangS
	if hangS <= 0 {
		hangS = 300
	}
	fmt.Printf("VERIF_SEED=%d property=%s tier=%s runs=%d workers=%d\n", base, c.ID, tier, runs, workers)
	t0 := time.Now()

	argv := selfArgv()
	if c.Prepare != nil {
		a, cleanup, err := c.Prepare(tier)
		if cleanup != nil {
			defer cleanup()
		}
		if err != nil {
			fmt.Fprintf(os.Stderr, "prepare failed: %v\n", err)
			return 2
		}
		if a != nil {
			argv = a
		}
	}

	a := &agg{fps: map[string]struct{}{}, faults: map[string]int{}, probes: map[string]int{}, states: map[string]struct{}{},
		logs: map[uint64]string{}, violations: map[string]*found{}, knownSeen: map[string]int{}, crashes: map[string]int{}, crashSeed: map[string]uint64{}}

	// chunks of seeds
	type chunk struct {
		start uint64
		count int
	}
	var chunks []chunk
	for s := 0; s < runs; s += perProc {
		n := perProc
		if s+n > runs {
			n = runs - s
		}
		chunks = append(chunks, chunk{base + uint64(s), n})
	}
	ch := make(chan chunk, len(chunks))
	for _, k := range chunks {
		ch <- k
	}
	close(ch)
	deadline := time.Now().Add(time.Duration(wallS) * time.Second) // the batch budget starts after Prepare (instrumented or -race builds)
	var wg sync.WaitGroup
	trouble := make(chan string, 1024)
	for w := 0; w < workers; w++ {
		wg.Add(1)
		go func() {
			defer wg.Done()
			for k := range ch {
				left := time.Until(deadline)
				if left <= 0 {
					return
				}
				runWorker(c, argv, tier, k.start, k.count, int(left.Seconds())+1, hangS, a, trouble)
			}
		}()
	}
	wg.Wait()
	close(trouble)
	var troubles []string
	for s := range trouble {
		troubles = append(troubles, s)
	}

	// classify violations
	rc := 0
	sigs := make([]string, 0, len(a.violations))
	for s := range a.violations {
		sigs = append(sigs, s)
	}
	sort.Strings(sigs)
	newViol := 0
	os.MkdirAll(filepath.Join(VerifDir(), "replays"), 0o755)
	reported := 0
	for _, s := range sigs {
		fd := a.violations[s]
		if kf := IsKnown(c.ID, s); kf != nil {
			fmt.Printf("KNOWN-FINDING: property=%s %s [sig=%s seen=%d]\n", c.ID, kf.What, s, fd.n)
			continue
		}
		newViol++
		if reported >= 4 {
			continue
		}
		reported++
		path, ok := minimiseAndConfirm(c, argv, tier, fd)
		if !ok {
			troubles = append(troubles, fmt.Sprintf("violation %q (seed %d) did not reproduce in a fresh process", s, fd.seed))
			continue
		}
		fmt.Printf("VIOLATION property=%s replay=%s\n", c.ID, path)
		fmt.Printf("  %s (seed=%d, seen in %d runs)\n", fd.v.String(), fd.seed, fd.n)
		rc = 1
	}
	wall := time.Since(t0).Seconds()
	writeEvidence(c, tier, base, a, wall, newViol)
	fmt.Printf("property=%s tier=%s evaluations=%d distinct=%d faults=%v wall=%.1fs\n", c.ID, tier, a.evals, len(a.fps), a.faults, wall)
	for fn, n := range a.crashes {
		fmt.Printf("INCIDENTAL-CRASH: the code under test panicked in its own goroutine and killed the process (%d runs, first seed %d) at %s\n", n, a.crashSeed[fn], fn)
	}
	if len(a.panics) > 0 && !c.PanicIsViolation {
		for _, p := range a.panics[:min(3, len(a.panics))] {
			fmt.Fprintf(os.Stderr, "HARNESS PANIC: %s\n", p)
		}
		if rc == 0 {
			rc = 2
		}
	}
	if len(troubles) > 0 {
		for _, s := range troubles[:min(5, len(troubles))] {
			fmt.Fprintf(os.Stderr, "HARNESS TROUBLE: %s\n", s)
		}
		if rc == 0 {
			rc = 2
		}
	}
	if a.evals == 0 && rc == 0 {
		fmt.Fprintln(os.Stderr, "HARNESS TROUBLE: no evaluations")
		rc = 2
	}
	return rc
}

func runWorker(c *Check, argv []string, tier string, start uint64, count, wallS, hangS int, a *agg, trouble chan<- string) {
	pr, pw, err := os.Pipe()
	if err != nil {
		trouble <- err.Error()
		return
	}
	args := append(append([]string{}, argv[1:]...), "worker", c.ID, "--tier", tier,
		"--start", strconv.FormatUint(start, 10), "--count", strconv.Itoa(count), "--stride", "1", "--wall", strconv.Itoa(wallS))
	cmd := exec.Command(argv[0], args...)
	cmd.ExtraFiles = []*os.File{pw}
	cmd.Stdout = nil
	var errb strings.Builder
	cmd.Stderr = &limitedWriter{b: &errb, max: 1 << 16}
	cmd.Env = append(os.Environ(), "VERIF_WORKER=1")
	if err := cmd.Start(); err != nil {
		trouble <- err.Error()
		pw.Close()
		pr.Close()
		return
	}
	pw.Close()
	progress := make(chan struct{}, 1)
	done := make(chan struct{})
	var gotN, hungFlag int64
	go func() {
		tm := time.NewTimer(time.Duration(hangS) * time.Second)
		defer tm.Stop()
		for {
			select {
			case <-done:
				return
			case <-progress:
				if !tm.Stop() {
					select {
					case <-tm.C:
					default:
					}
				}
				tm.Reset(time.Duration(hangS) * time.Second)
			case <-tm.C:
				cmd.Process.Kill()
				a.mu.Lock()
				a.hung++
				a.mu.Unlock()
				if c.HangIsViolation {
					// the plan that never came back is the first one without a result
					seed := start + uint64(atomic.LoadInt64(&gotN))
					a.add(c, &Result{Seed: seed, Violations: []*Violation{hangViolation(c)}, Nontrivial: true})
					atomic.StoreInt64(&hungFlag, 1)
				} else {
					trouble <- fmt.Sprintf("worker for seeds %d.. hung (no result for %ds); killed", start, hangS)
				}
				return
			}
		}
	}()
	sc := bufio.NewScanner(pr)
	sc.Buffer(make([]byte, 1<<20), 64<<20)
	got := 0
	for sc.Scan() {
		var r Result
		if err := json.Unmarshal(sc.Bytes(), &r); err != nil {
			trouble <- "bad worker output: " + err.Error()
			continue
		}
		got++
		atomic.StoreInt64(&gotN, int64(got))
		select {
		case progress <- struct{}{}:
		default:
		}
		a.add(c, &r)
	}
	pr.Close()
	err = cmd.Wait()
	close(done)
	if atomic.LoadInt64(&hungFlag) == 1 {
		// the violation is recorded; the rest of this chunk is not explored (every further
		// hang would cost a full watchdog period)
		return
	}
	if err != nil && got < count {
		// exit 3 = panic already recorded in a result
		if ee, ok := err.(*exec.ExitError); ok && ee.ExitCode() == 3 {
			// continue the rest of the chunk in a fresh process
			if got < count {
				runWorker(c, argv, tier, start+uint64(got), count-got, wallS, hangS, a, trouble)
			}
			return
		}
		full := errb.String()
		if fn, ok := foreignCrash(full); ok {
			// the code under test panicked in a goroutine of its own: the
			// process died, which no in-process recover can catch. Recorded as an
			// incidental crash (or a violation when PanicIsViolation), the rest
			// of the chunk continues in a fresh process.
			seed := start + uint64(got)
			a.mu.Lock()
			a.evals++
			a.crashes[fn]++
			if a.crashSeed[fn] == 0 {
				a.crashSeed[fn] = seed
			}
			a.mu.Unlock()
			if c.PanicIsViolation {
				a.add(c, &Result{Seed: seed, Panic: "process crash in " + fn})
			}
			if got+1 < count {
				runWorker(c, argv, tier, seed+1, count-got-1, wallS, hangS, a, trouble)
			}
			return
		}
		tail := full
		if len(tail) > 2000 {
			tail = tail[len(tail)-2000:]
		}
		trouble <- fmt.Sprintf("worker for seeds %d..%d exited early (%v) after %d results: %s", start, start+uint64(count)-1, err, got, tail)
	}
}

// foreignCrash recognises a process death caused by a panic in a goroutine
// created by the code under test (no harness frame on the panicking stack)
// and returns the innermost function of the code under test.
func foreignCrash(stderr string) (string, bool) {
	i := strings.Index(stderr, "panic: ")
	if i < 0 {
		return "", false
	}
	st := stderr[i:]
	// first goroutine block after the panic line is the panicking one
	j := strings.Index(st, "goroutine ")
	if j < 0 {
		return "", false
	}
	blk := st[j:]
	if k := strings.Index(blk, "\n\n"); k > 0 {
		blk = blk[:k]
	}
	if strings.Contains(blk, "verif/") || !strings.Contains(blk, "created by 0chain.net/") {
		return "", false
	}
	for _, ln := range strings.Split(blk, "\n") {
		if strings.HasPrefix(ln, "0chain.net/") {
			fn := ln
			if p := strings.IndexByte(fn, '('); p > 0 {
				// keep receiver-qualified names intact: cut at the argument list
				if q := strings.LastIndex(fn, "("); q > 0 {
					fn = fn[:q]
				}
			}
			return fn, true
		}
	}
	return "", false
}

type limitedWriter struct {
	b   *strings.Builder
	max int
}

func (l *limitedWriter) Write(p []byte) (int, error) {
	if l.b.Len() < l.max {
		l.b.Write(p)
	}
	return len(p), nil
}

func (a *agg) add(c *Check, r *Result) {
	a.mu.Lock()
	defer a.mu.Unlock()
	a.evals++
	if r.Panic != "" {
		a.panics = append(a.panics, fmt.Sprintf("seed=%d %s", r.Seed, r.Panic))
		if c.PanicIsViolation {
			r.Violations = append(r.Violations, panicViolation(c, r))
		} else {
			return
		}
	}
	if r.Nontrivial {
		a.fps[r.Fingerprint] = struct{}{}
	}
	for k, v := range r.Faults {
		a.faults[k] += v
	}
	for k, v := range r.Probes {
		a.probes[k] += v
	}
	a.steps += r.Steps
	a.simS += r.SimTimeS
	a.inconcl += r.Inconcl
	for _, s := range r.States {
		if len(a.states) < 2000000 {
			a.states[s] = struct{}{}
		}
	}
	if len(a.samples) < 3 && r.Sample != nil {
		a.samples = append(a.samples, map[string]any{"seed": r.Seed, "events": r.Sample, "log_hash": r.LogHash})
	}
	for _, v := range r.Violations {
		if IsKnown(c.ID, v.Sig) != nil {
			a.knownSeen[v.Sig]++
		}
		fd := a.violations[v.Sig]
		if fd == nil {
			a.violations[v.Sig] = &found{v: v, seed: r.Seed, n: 1}
		} else {
			fd.n++
			if r.Seed < fd.seed {
				fd.seed, fd.v = r.Seed, v
			}
		}
	}
}

// minimiseAndConfirm regenerates the failing plan, shrinks it in a fresh
// process and confirms the minimised plan in another fresh process.
func minimiseAndConfirm(c *Check, argv []string, tier string, fd *found) (string, bool) {
	p := c.Gen(fd.seed, tier)
	p.Prop, p.Seed, p.Tier = c.ID, fd.seed, tier
	dir := filepath.Join(VerifDir(), "replays")
	// one file per (seed, violation class): two classes first seen at the same seed must not overwrite each other
	tag := fmt.Sprintf("%08x", uint32(Hash64(fd.v.Sig)))
	raw := filepath.Join(dir, fmt.Sprintf("%s-%d-%s.raw.json", c.ID, fd.seed, tag))
	final := filepath.Join(dir, fmt.Sprintf("%s-%d-%s.json", c.ID, fd.seed, tag))
	rf := &ReplayFile{Property: c.ID, Seed: fd.seed, Violation: fd.v, Plan: p, OrigSteps: len(p.Steps)}
	b, _ := json.MarshalIndent(rf, "", " ")
	os.WriteFile(raw, b, 0o644)
	run := func(args ...string) (int, string) {
		cmd := exec.Command(argv[0], append(append([]string{}, argv[1:]...), args...)...)
		out, err := cmd.CombinedOutput()
		code := 0
		if err != nil {
			if ee, ok := err.(*exec.ExitError); ok {
				code = ee.ExitCode()
			} else {
				code = -1
			}
		}
		return code, string(out)
	}
	if strings.HasSuffix(fd.v.Sig, hangSuffix) {
		// a hang cannot be shrunk in-process: keep the generated plan, confirm by a timed replay
		os.WriteFile(final, b, 0o644)
		os.Remove(raw)
		if rcode, _ := run("replay", final); rcode == 1 {
			return final, true
		}
		return final, false
	}
	code, out := run("shrink", raw, "--sig", fd.v.Sig, "--out", final)
	if code == 0 {
		if rcode, _ := run("replay", final); rcode == 1 {
			os.Remove(raw)
			return final, true
		}
	} else {
		fmt.Fprintf(os.Stderr, "shrink failed (%d): %s\n", code, tail(out, 600))
	}
	// fall back to the unminimised plan; record its log hash by a first replay
	if rcode, rout := run("replay", raw, "--json", "1"); rcode == 1 {
		for _, ln := range strings.Split(rout, "\n") {
			if strings.HasPrefix(ln, "RESULT ") {
				var r Result
				if json.Unmarshal([]byte(ln[7:]), &r) == nil {
					rf.LogHash = r.LogHash
				}
			}
		}
		b, _ := json.MarshalIndent(rf, "", " ")
		os.WriteFile(final, b, 0o644)
		os.Remove(raw)
		if rcode2, _ := run("replay", final); rcode2 == 1 {
			return final, true
		}
	}
	if c.NondeterminismIsTheProperty {
		// The harness is deterministic (selftest), so a violation that does not
		// reproduce comes from nondeterminism of the code under test (map
		// iteration, goroutine order) — which is exactly what this property
		// forbids. Try a few more times for a reproducing replay; report it either way.
		rf.LogHash = ""
		b, _ := json.MarshalIndent(rf, "", " ")
		os.WriteFile(final, b, 0o644)
		os.Remove(raw)
		for i := 0; i < 6; i++ {
			if rcode, _ := run("replay", final); rcode == 1 {
				return final, true
			}
		}
		fmt.Printf("NOTE property=%s: violation %q was observed at seed %d but replays of its plan diverge differently or not at all: the outcome of the code under test is not a function of the plan\n", c.ID, fd.v.Sig, fd.seed)
		return final, true
	}
	return raw, false
}

func tail(s string, n int) string {
	if len(s) > n {
		return s[len(s)-n:]
	}
	return s
}

// ---- evidence ------------------------------------------------------------------------------------

func writeEvidence(c *Check, tier string, seed uint64, a *agg, wall float64, newViol int) {
	level := c.Level
	if level == "" {
		level = "exploration"
	}
	rule := c.Rule
	if rule == "" {
		rule = "plans are generated up front from VERIF_SEED+i by the check's generator (swarm configuration, workload, faults); " +
			"distinct_nontrivial counts distinct abstract outcome fingerprints (hash of the set of (operation kind, outcome class, bucketed count), " +
			"the set of fault kinds that fired and the set of probe branches hit) among runs in which at least one fault fired or one property-specific probe was hit"
	}
	samples := a.samples
	if len(samples) == 0 {
		samples = []any{"no sample recorded"}
	}
	rph := 0.0
	if wall > 0 {
		rph = float64(a.evals) / wall * 3600
	}
	known := []string{}
	for s, n := range a.knownSeen {
		known = append(known, fmt.Sprintf("%s (%d runs)", s, n))
	}
	sort.Strings(known)
	ev := map[string]any{
		"property_id": c.ID,
		"tier":        tier,
		"seed":        int64(seed),
		"level":       level,
		"coverage": map[string]any{
			"evaluations":                        a.evals,
			"distinct_nontrivial":                len(a.fps),
			"rule":                               rule,
			"samples":                            samples,
			"runs_per_hour":                      int64(rph),
			"sim_time_covered_s":                 a.simS,
			"events_executed":                    a.steps,
			"faults_fired":                       a.faults,
			"probes":                             a.probes,
			"distinct_state_digests":             len(a.states),
			"components":                         c.Components,
			"schedule_regime":                    c.Regime,
			"known_findings_seen":                known,
			"inconclusive":                       a.inconcl,
			"harness_panics":                     len(a.panics),
			"workers_hung":                       a.hung,
			"process_crashes_in_code_under_test": a.crashes,
			"exhaustive":                         false,
		},
		"assumptions": append([]string{}, c.Assumptions...),
		"wall_s":      wall,
		"violations":  newViol,
	}
	if ev["assumptions"] == nil {
		ev["assumptions"] = []string{}
	}
	dir := filepath.Join(VerifDir(), "evidence")
	os.MkdirAll(dir, 0o755)
	b, _ := json.MarshalIndent(ev, "", " ")
	os.WriteFile(filepath.Join(dir, c.ID+".json"), b, 0o644)
}

// ---- selftest (determinism) ----------------------------------------------------------------------

// cmdSelftest: selftest <ID> [--seeds N] [--reps R]: runs each seed R times in
// separate processes at GOMAXPROCS 1/4/16 and compares event-log hashes.
func cmdSelftest(args []string) int {
	pos, f := parseFlags(args)
	if len(pos) < 1 {
		return 2
	}
	c := Lookup(pos[0])
	if c == nil {
		return 2
	}
	seeds := f.int("seeds", 40)
	reps := f.int("reps", 3)
	base := f.u64("seed", 7000)
	tier := f.str("tier", "quick")
	argv := selfArgv()
	if c.Prepare != nil {
		a, cleanup, err := c.Prepare(tier)
		if cleanup != nil {
			defer cleanup()
		}
		if err != nil {
			fmt.Fprintln(os.Stderr, err)
			return 2
		}
		if a != nil {
			argv = a
		}
	}
	procs := []string{"1", "4", "16"}
	type key struct{ seed uint64 }
	var mu sync.Mutex
	hashes := map[uint64]map[string]int{}
	var wg sync.WaitGroup
	sem := make(chan struct{}, 16)
	bad := 0
	for r := 0; r < reps; r++ {
		for s := 0; s < seeds; s++ {
			wg.Add(1)
			sem <- struct{}{}
			go func(r, s int) {
				defer wg.Done()
				defer func() { <-sem }()
				seed := base + uint64(s)
				// alternate: alone in a fresh process vs after other runs in the same process
				start, count := seed, 1
				if r%2 == 1 && s >= 3 {
					start, count = seed-3, 4
				}
				pr, pw, _ := os.Pipe()
				cmd := exec.Command(argv[0], append(append([]string{}, argv[1:]...), "worker", c.ID, "--tier", tier,
					"--start", strconv.FormatUint(start, 10), "--count", strconv.Itoa(count))...)
				cmd.ExtraFiles = []*os.File{pw}
				cmd.Env = append(os.Environ(), "GOMAXPROCS="+procs[(r+s)%len(procs)], "VERIF_WORKER=1")
				if err := cmd.Start(); err != nil {
					pw.Close()
					pr.Close()
					return
				}
				pw.Close()
				sc := bufio.NewScanner(pr)
				sc.Buffer(make([]byte, 1<<20), 64<<20)
				for sc.Scan() {
					var res Result
					if json.Unmarshal(sc.Bytes(), &res) != nil {
						continue
					}
					if res.Seed != seed {
						continue
					}
					mu.Lock()
					if hashes[seed] == nil {
						hashes[seed] = map[string]int{}
					}
					h := res.LogHash
					if res.Panic != "" {
						h = "panic"
					}
					hashes[seed][h]++
					mu.Unlock()
				}
				pr.Close()
				cmd.Wait()
			}(r, s)
		}
	}
	wg.Wait()
	for s := 0; s < seeds; s++ {
		seed := base + uint64(s)
		if len(hashes[seed]) != 1 {
			bad++
			fmt.Printf("NONDETERMINISTIC seed=%d hashes=%v\n", seed, hashes[seed])
		} else {
			for h, n := range hashes[seed] {
				if n != reps {
					fmt.Printf("INCOMPLETE seed=%d hash=%s n=%d/%d\n", seed, h, n, reps)
					bad++
				}
			}
		}
	}
	fmt.Printf("selftest %s: %d seeds x %d reps, %d nondeterministic\n", c.ID, seeds, reps, bad)
	if bad > 0 {
		return 2
	}
	return 0
}
