// Package sim is the simulator kernel: seeded PRNG streams, plans, results,
// the check registry, the multi-process driver, shrinking, replay, evidence.
package sim

import (
	"hash/fnv"
)

// RNG is a SplitMix64 generator. One VERIF_SEED seeds a root generator; named
// child streams are derived by hashing (root state, name) so that drawing from
// one stream never perturbs another.
type RNG struct{ s uint64 }

func NewRNG(seed uint64) *RNG { return &RNG{s: seed} }

func (r *RNG) Uint64() uint64 {
	r.s += 0x9e3779b97f4a7c15
	z := r.s
	z = (z ^ (z >> 30)) * 0xbf58476d1ce4e5b9
	z = (z ^ (z >> 27)) * 0x94d049bb133111eb
	return z ^ (z >> 31)
}

// Child derives an independent stream; it does not advance r.
func (r *RNG) Child(name string) *RNG {
	h := fnv.New64a()
	var b [8]byte
	s := r.s
	for i := 0; i < 8; i++ {
		b[i] = byte(s >> (8 * i))
	}
	h.Write(b[:])
	h.Write([]byte(name))
	c := &RNG{s: h.Sum64()}
	c.Uint64()
	return c
}

func (r *RNG) Intn(n int) int {
	if n <= 0 {
		return 0
	}
	return int(r.Uint64() % uint64(n))
}

func (r *RNG) Int63n(n int64) int64 {
	if n <= 0 {
		return 0
	}
	return int64(r.Uint64() % uint64(n))
}

// Range returns a value in [lo,hi].
func (r *RNG) Range(lo, hi int) int {
	if hi <= lo {
		return lo
	}
	return lo + r.Intn(hi-lo+1)
}

func (r *RNG) Float64() float64 { return float64(r.Uint64()>>11) / (1 << 53) }

func (r *RNG) Bool(p float64) bool { return r.Float64() < p }

// Pick returns an index drawn proportionally to weights.
func (r *RNG) Pick(weights []int) int {
	t := 0
	for _, w := range weights {
		if w > 0 {
			t += w
		}
	}
	if t == 0 {
		return 0
	}
	x := r.Intn(t)
	for i, w := range weights {
		if w <= 0 {
			continue
		}
		if x < w {
			return i
		}
		x -= w
	}
	return len(weights) - 1
}

func (r *RNG) Perm(n int) []int {
	p := make([]int, n)
	for i := range p {
		p[i] = i
	}
	for i := n - 1; i > 0; i-- {
		j := r.Intn(i + 1)
		p[i], p[j] = p[j], p[i]
	}
	return p
}

func (r *RNG) Shuffle(n int, swap func(i, j int)) {
	for i := n - 1; i > 0; i-- {
		j := r.Intn(i + 1)
		swap(i, j)
	}
}

// Read makes RNG an io.Reader (seeded key generation).
func (r *RNG) Read(p []byte) (int, error) {
	for i := 0; i < len(p); {
		v := r.Uint64()
		for k := 0; k < 8 && i < len(p); k++ {
			p[i] = byte(v)
			v >>= 8
			i++
		}
	}
	return len(p), nil
}

// Bytes returns n pseudo-random bytes.
func (r *RNG) Bytes(n int) []byte {
	b := make([]byte, n)
	r.Read(b)
	return b
}

// Hash64 is a convenience FNV-1a over strings (event-log hashing).
func Hash64(parts ...string) uint64 {
	h := fnv.New64a()
	for _, p := range parts {
		h.Write([]byte(p))
		h.Write([]byte{0})
	}
	return h.Sum64()
}
