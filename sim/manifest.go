package sim

import (
	"bufio"
	"encoding/json"
	"fmt"
	"os"
	"path/filepath"
	"sort"
)

// NotApplicable holds, per property id, the reason it is not claimed. Filled by
// the harness main package; every property that is neither registered nor
// listed here is reported as "check not built".
var NotApplicable = map[string]string{}

// HookCommits lists the /repo commits that add the build-tag guarded hooks.
var HookCommits = []string{}

const baselineOff = "for m in $(cat /w/out/gomods.txt); do MF=$(cd /repo/$m && . /w/out/goenv.sh && gomodflag); (cd /repo/$m && go test $MF -json -vet=off -count=1 -timeout 25m ./...); done"

func cmdManifest(args []string) int {
	_, f := parseFlags(args)
	dir := VerifDir()
	ids := []string{}
	fp, err := os.Open(filepath.Join(dir, "properties.jsonl"))
	if err != nil {
		fmt.Fprintln(os.Stderr, err)
		return 2
	}
	sc := bufio.NewScanner(fp)
	sc.Buffer(make([]byte, 1<<20), 16<<20)
	for sc.Scan() {
		var p struct {
			ID string `json:"id"`
		}
		if json.Unmarshal(sc.Bytes(), &p) == nil && p.ID != "" {
			ids = append(ids, p.ID)
		}
	}
	fp.Close()
	sort.Strings(ids)

	checks := []any{}
	engines := map[string][]string{}
	na := []any{}
	for _, id := range ids {
		c := Lookup(id)
		if c == nil {
			reason := NotApplicable[id]
			if reason == "" {
				reason = "not claimed: check not built yet in this tree (planned in DESIGN.md section 6); no verdict is given for this property"
			}
			na = append(na, map[string]string{"property_id": id, "reason": reason})
			continue
		}
		level := c.Level
		if level == "" {
			level = "exploration"
		}
		engines[c.World] = append(engines[c.World], id)
		checks = append(checks, map[string]any{
			"property_id":         id,
			"quick_cmd":           "./run.sh check " + id + " --tier quick",
			"thorough_cmd":        "./run.sh check " + id + " --tier thorough",
			"evidence_file":       "/verif/evidence/" + id + ".json",
			"replay_cmd_template": "./run.sh replay {path}",
			"engine":              c.World,
			"level_claimed": map[string]string{
				"category":   level,
				"text":       c.LevelText,
				"design_ref": c.DesignRef,
			},
			"level_note": c.LevelNote,
			"technique":  c.Technique,
		})
	}
	var eng []any
	names := make([]string, 0, len(engines))
	for n := range engines {
		names = append(names, n)
	}
	sort.Strings(names)
	for _, n := range names {
		eng = append(eng, map[string]any{
			"name":              n,
			"path":              "/verif/worlds/" + n,
			"serves_properties": engines[n],
			"kind_free_text":    "deterministic simulation world (seeded plans, fault injection, oracles) driving real 0chain code; see DESIGN.md section 3",
		})
	}
	m := map[string]any{
		"version":   1,
		"setup_cmd": "./run.sh setup",
		"hooks": map[string]any{
			"guard":            "verif",
			"enable":           "go build tag `verif` (checks build /repo/code/go/0chain.net through a replace directive with `-tags verif`)",
			"baseline_off_cmd": baselineOff,
			"source_commits":   HookCommits,
			"add_only":         true,
		},
		"engines":        eng,
		"checks":         checks,
		"not_applicable": na,
		"notes": "Technique family: deterministic simulation with fault injection. One VERIF_SEED decides every plan (workload, swarm configuration, faults, schedules). " +
			"Exit 0 = held on everything explored (KNOWN-FINDING lines for findings listed in known_findings.json), 1 = VIOLATION with minimised replay file, 2 = harness/build trouble.",
	}
	b, _ := json.MarshalIndent(m, "", " ")
	out := f.str("out", filepath.Join(dir, "MANIFEST.json"))
	if err := os.WriteFile(out, append(b, '\n'), 0o644); err != nil {
		fmt.Fprintln(os.Stderr, err)
		return 2
	}
	fmt.Printf("manifest: %d checks, %d not claimed\n", len(checks), len(na))
	return 0
}
