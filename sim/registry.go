package sim

import (
	"sort"
	"testing"
)

// Env is handed to Exec: the testing.T of the worker (needed for
// testing/synctest bubbles) and flags.
type Env struct {
	T       *testing.T
	KeepLog bool // keep full event log lines (replay -v)
}

type Budget struct {
	Runs    int // number of plans
	WallS   int // wall-clock cap for the batch in seconds (only limits how many plans run)
	Workers int // OS processes (0 = 16)
}

type Components struct {
	Real []string `json:"real"`
	Sim  []string `json:"sim"`
	Stub []string `json:"stub"`
}

// Check is one registered property check.
type Check struct {
	ID    string
	Title string
	World string
	// Gen builds the plan for a seed, up front, from the seed only.
	Gen func(seed uint64, tier string) *Plan
	// Exec executes a plan; pure function of (plan, code under test).
	Exec func(env *Env, p *Plan) *Result
	// Shrink hook: optional argument simplifications tried after step removal.
	Simplify func(p *Plan) []*Plan

	Quick, Thorough Budget
	RunsPerProc     int // runs per worker process before it is recycled (0 = 40)
	HangS           int // watchdog: seconds without a result before a worker is declared hung (0 = 300)

	// Prepare optionally builds a dedicated worker binary (instrumented or
	// -race builds). It returns the argv prefix to use instead of the driver's
	// own binary plus a cleanup function.
	Prepare func(tier string) (argv []string, cleanup func(), err error)

	Level       string // "exploration"
	LevelText   string
	LevelNote   string
	Technique   string
	DesignRef   string
	Regime      string // schedule regime
	Rule        string // evidence rule text
	Components  Components
	Assumptions []string
	// PanicIsViolation: a panic inside code under test counts as a violation of
	// this property (default: harness trouble, exit 2).
	PanicIsViolation bool
	// HangIsViolation: a plan that does not finish within HangS seconds counts
	// as a violation "<ID>/operation-never-returns" (default: harness trouble).
	HangIsViolation bool
	// NondeterminismIsTheProperty: a violation observed by a worker is reported even when the
	// replay of its plan does not reproduce it (C06: the divergence itself may be nondeterministic).
	NondeterminismIsTheProperty bool
}

var registry = map[string]*Check{}

func Register(c *Check) {
	if _, dup := registry[c.ID]; dup {
		panic("duplicate check " + c.ID)
	}
	registry[c.ID] = c
}

func Lookup(id string) *Check { return registry[id] }

func All() []*Check {
	ids := make([]string, 0, len(registry))
	for id := range registry {
		ids = append(ids, id)
	}
	sort.Strings(ids)
	out := make([]*Check, len(ids))
	for i, id := range ids {
		out[i] = registry[id]
	}
	return out
}
