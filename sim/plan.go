package sim

import (
	"encoding/json"
	"fmt"
	"hash/fnv"
	"sort"
	"strings"
)

// Step is one symbolic step of a plan: an operation, a fault, a clock advance or
// a checkpoint. Arguments are symbolic (actor indexes, offsets relative to
// world facts) and are resolved against the world at execution time, so that
// deleting a step during shrinking leaves the rest meaningful.
type Step struct {
	Op string   `json:"op"`
	A  int      `json:"a,omitempty"` // actor index
	I  []int64  `json:"i,omitempty"` // integer arguments
	S  []string `json:"s,omitempty"` // string arguments
}

func (s Step) Int(k int, def int64) int64 {
	if k < len(s.I) {
		return s.I[k]
	}
	return def
}

func (s Step) Str(k int, def string) string {
	if k < len(s.S) {
		return s.S[k]
	}
	return def
}

func (s Step) String() string {
	b, _ := json.Marshal(s)
	return string(b)
}

// Plan is plain data: Execute(plan) is a pure function of (plan, code under test).
type Plan struct {
	Prop  string           `json:"prop"`
	Seed  uint64           `json:"seed"`
	Tier  string           `json:"tier"`
	Cfg   map[string]int64 `json:"cfg,omitempty"` // swarm knobs
	Steps []Step           `json:"steps"`
}

func (p *Plan) CfgInt(k string, def int64) int64 {
	if v, ok := p.Cfg[k]; ok {
		return v
	}
	return def
}

func (p *Plan) Clone() *Plan {
	q := *p
	q.Cfg = make(map[string]int64, len(p.Cfg))
	for k, v := range p.Cfg {
		q.Cfg[k] = v
	}
	q.Steps = make([]Step, len(p.Steps))
	for i, s := range p.Steps {
		q.Steps[i] = Step{Op: s.Op, A: s.A, I: append([]int64(nil), s.I...), S: append([]string(nil), s.S...)}
	}
	return &q
}

// Violation is a property violation found by an oracle.
type Violation struct {
	Prop   string `json:"prop"`
	Oracle string `json:"oracle"`
	// Sig identifies the *class* of the violation: property, oracle and the
	// specific input / field / call site. Shrinking preserves Sig; the
	// known-findings file matches on it.
	Sig    string `json:"sig"`
	Detail string `json:"detail"`
	Step   int    `json:"step"`
}

func (v *Violation) String() string {
	return fmt.Sprintf("property=%s oracle=%s sig=%q step=%d: %s", v.Prop, v.Oracle, v.Sig, v.Step, v.Detail)
}

// Result is what one execution reports.
type Result struct {
	Seed        uint64         `json:"seed"`
	Violations  []*Violation   `json:"violations,omitempty"`
	Fingerprint string         `json:"fp"`         // abstract outcome fingerprint
	Nontrivial  bool           `json:"nontrivial"` // ≥1 fault fired or ≥1 property-specific probe hit
	Faults      map[string]int `json:"faults,omitempty"`
	Probes      map[string]int `json:"probes,omitempty"`
	Steps       int            `json:"steps"`
	SimTimeS    float64        `json:"sim_s"`
	LogHash     string         `json:"log"`              // hash of the event log (determinism)
	States      []string       `json:"states,omitempty"` // distinct state digests reached (hashes)
	Sample      any            `json:"sample,omitempty"`
	Panic       string         `json:"panic,omitempty"`
	Inconcl     int            `json:"inconclusive,omitempty"`
	Log         []string       `json:"full_log,omitempty"` // full event log (replay only)
}

// Trace collects the event log, faults, probes and outcome classes of one run.
type Trace struct {
	h        uint64
	n        int
	Faults   map[string]int
	Probes   map[string]int
	outcomes map[string]int
	states   map[string]struct{}
	Viol     []*Violation
	Keep     bool
	Lines    []string
	SimTime  float64
	sample   []string
}

func NewTrace() *Trace {
	return &Trace{h: 1469598103934665603, Faults: map[string]int{}, Probes: map[string]int{}, outcomes: map[string]int{}, states: map[string]struct{}{}}
}

// Event appends a line to the event log. Must never draw from a PRNG or read a clock.
func (t *Trace) Event(format string, a ...any) {
	s := fmt.Sprintf(format, a...)
	for i := 0; i < len(s); i++ {
		t.h ^= uint64(s[i])
		t.h *= 1099511628211
	}
	t.h ^= 0x0a
	t.h *= 1099511628211
	t.n++
	if t.Keep {
		t.Lines = append(t.Lines, s)
	}
	if len(t.sample) < 12 {
		t.sample = append(t.sample, s)
	}
}

func (t *Trace) N() int              { return t.n }
func (t *Trace) Fault(kind string)   { t.Faults[kind]++ }
func (t *Trace) Probe(name string)   { t.Probes[name]++ }
func (t *Trace) Outcome(cls string)  { t.outcomes[cls]++ }
func (t *Trace) State(digest string) { t.states[digest] = struct{}{} }
func (t *Trace) LogHash() string     { return fmt.Sprintf("%016x", t.h) }
func (t *Trace) Violate(v *Violation) {
	v.Step = t.n
	t.Viol = append(t.Viol, v)
	t.Event("VIOLATION %s", v.Sig)
}
func (t *Trace) Failed() bool { return len(t.Viol) > 0 }

// Result builds a Result from the trace. The fingerprint is the hash of the
// set of (outcome class, bucketed count) plus the set of fault kinds fired plus
// the set of probes hit.
func (t *Trace) Result(seed uint64) *Result {
	var parts []string
	for k, v := range t.outcomes {
		parts = append(parts, fmt.Sprintf("o:%s:%d", k, bucket(v)))
	}
	for k := range t.Faults {
		parts = append(parts, "f:"+k)
	}
	for k := range t.Probes {
		parts = append(parts, "p:"+k)
	}
	sort.Strings(parts)
	h := fnv.New64a()
	h.Write([]byte(strings.Join(parts, "|")))
	st := make([]string, 0, len(t.states))
	for s := range t.states {
		st = append(st, s)
	}
	sort.Strings(st)
	if len(st) > 64 {
		st = st[:64]
	}
	r := &Result{
		Seed:        seed,
		Violations:  t.Viol,
		Fingerprint: fmt.Sprintf("%016x", h.Sum64()),
		Nontrivial:  len(t.Faults) > 0 || len(t.Probes) > 0,
		Faults:      t.Faults,
		Probes:      t.Probes,
		Steps:       t.n,
		SimTimeS:    t.SimTime,
		LogHash:     t.LogHash(),
		States:      st,
		Sample:      t.sample,
	}
	if t.Keep {
		r.Log = t.Lines
	}
	return r
}

func bucket(n int) int {
	switch {
	case n <= 2:
		return n
	case n <= 5:
		return 3
	case n <= 20:
		return 4
	default:
		return 5
	}
}
