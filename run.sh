#!/bin/bash
# Entry point of every registered command.  Rebuilds the harness from /repo's
# current working tree (through the replace directive in go.mod) with the
# `verif` build tag, then dispatches.
#   ./run.sh setup | check <ID> --tier quick|thorough | replay <file> | selftest <ID> | manifest | list
set -u
cd "$(dirname "$0")"
export GOFLAGS=-mod=mod GOPROXY=off GOSUMDB=off GOTOOLCHAIN=local GOWORK=off
export VERIF_DIR="$(pwd)"
GO=/opt/veriftools/go1.26.8/bin/go
[ -x "$GO" ] || GO=go1.26.8
mkdir -p bin evidence replays
build() {
  (
    flock 9
    "$GO" test -c -tags verif -o bin/verif.test ./cmd/verif 2> bin/build.log
  ) 9> bin/.lock
  rc=$?
  if [ $rc -ne 0 ]; then
    echo "BUILD FAILED (harness or /repo does not compile with -tags verif):" >&2
    tail -40 bin/build.log >&2
    exit 2
  fi
}
cmd="${1:-}"
case "$cmd" in
  setup) build; echo "setup ok";;
  "") echo "usage: run.sh setup|check|replay|selftest|manifest|list" >&2; exit 2;;
  *) build; exec bin/verif.test "$@";;
esac
