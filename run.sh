#!/bin/bash
# Entry point of every registered command.  Rebuilds the harness from /repo's
# current working tree (through the replace directive in go.mod) with the
# `verif` build tag, then dispatches.
#   ./run.sh setup | check <ID> --tier quick|thorough | replay <file> | selftest <ID> | manifest | list
# Development knobs (not used by registered commands):
#   VERIF_REPO=/path/to/scratch/code/go/0chain.net  build against a scratch copy of the repository module
#   VERIF_MAIN=./cmd/dev_x VERIF_BIN=/tmp/x/verif.test  build another harness main package
set -u
cd "$(dirname "$0")"
export GOFLAGS=-mod=mod GOPROXY=off GOSUMDB=off GOTOOLCHAIN=local GOWORK=off
export VERIF_DIR="${VERIF_DIR:-$(pwd)}"
GO=/opt/veriftools/go1.26.8/bin/go
[ -x "$GO" ] || GO=go1.26.8
export VERIF_GO="$GO"
mkdir -p bin evidence replays
MAIN="${VERIF_MAIN:-./cmd/verif}"
BIN="${VERIF_BIN:-bin/verif.test}"
MODFLAG=""
if [ -n "${VERIF_REPO:-}" ]; then
  alt="$(dirname "$BIN")/go.alt.mod"
  sed "s#^replace 0chain.net => .*#replace 0chain.net => ${VERIF_REPO}#; s#=> ./simdisk/grocksdb#=> $(pwd)/simdisk/grocksdb#" go.mod > "$alt"
  cp go.sum "$(dirname "$BIN")/go.alt.sum"
  MODFLAG="-modfile=$alt"
fi
build() {
  (
    flock 9
    "$GO" test -c -tags verif $MODFLAG -o "$BIN" "$MAIN" 2> "$BIN.build.log"
  ) 9> bin/.lock
  rc=$?
  if [ $rc -ne 0 ]; then
    echo "BUILD FAILED (harness or repository does not compile with -tags verif):" >&2
    tail -40 "$BIN.build.log" >&2
    exit 2
  fi
}
cmd="${1:-}"
case "$cmd" in
  setup) build; echo "setup ok";;
  "") echo "usage: run.sh setup|check|replay|selftest|manifest|list" >&2; exit 2;;
  *) build; exec "$BIN" "$@";;
esac
