package main

import _ "verif/worlds/consensus"
