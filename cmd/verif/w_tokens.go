package main

import _ "verif/worlds/ledger/tokens"
