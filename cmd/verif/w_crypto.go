package main

import _ "verif/worlds/crypto"
