package main

import _ "verif/worlds/store"
