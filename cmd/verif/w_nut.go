package main

import _ "verif/worlds/nut"
