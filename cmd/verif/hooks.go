package main

import "verif/sim"

func init() {
	// /repo commits that add the build-tag guarded hooks (MANIFEST.hooks.source_commits)
	sim.HookCommits = []string{"bc37544"}
}
