package main

import _ "verif/worlds/threads"
