package main

import _ "verif/worlds/ledger/prune"
