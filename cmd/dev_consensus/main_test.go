// Development harness for the consensus world only (copy of cmd/verif/main_test.go
// plus the single world import), so that other worlds' half-written packages
// cannot break this build.
package main

import (
	"flag"
	"os"
	"runtime/pprof"
	"testing"

	"verif/sim"
	_ "verif/worlds/consensus"
)

var exitCode int

func TestMain(m *testing.M) {
	flag.Set("test.timeout", "0")
	flag.Parse()
	m.Run()
	os.Exit(exitCode)
}

func TestVerif(t *testing.T) {
	// development aid: VERIF_CPUPROFILE=<file> profiles this process (the test binary's own
	// -test.cpuprofile never gets written because of the os.Exit below)
	if fn := os.Getenv("VERIF_CPUPROFILE"); fn != "" {
		if f, err := os.Create(fn); err == nil {
			_ = pprof.StartCPUProfile(f)
			defer func() { pprof.StopCPUProfile(); f.Close() }()
		}
	}
	exitCode = sim.Main(t, flag.Args())
	pprof.StopCPUProfile()
	os.Stdout.Sync()
	os.Exit(exitCode) // skip the testing package's PASS/ok trailer
}
