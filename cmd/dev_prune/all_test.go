//go:build pruneall

// Optional: link every ledger workload as the full harness does (go test -c -tags "verif pruneall").
package main

import (
	_ "verif/worlds/ledger/gov"
	_ "verif/worlds/ledger/parts"
	_ "verif/worlds/ledger/staking"
	_ "verif/worlds/ledger/storage"
	_ "verif/worlds/ledger/tokens"
)
