// The verification harness is built as a test binary (go test -c) because
// testing/synctest bubbles (fake clock + quiescence detection) need a *testing.T.
package main

import (
	"flag"
	"os"
	"testing"

	"verif/sim"
	_ "verif/worlds/ledger"
	_ "verif/worlds/ledger/gen"
)

var exitCode int

func TestMain(m *testing.M) {
	flag.Set("test.timeout", "0")
	flag.Parse()
	m.Run()
	os.Exit(exitCode)
}

func TestVerif(t *testing.T) {
	exitCode = sim.Main(t, flag.Args())
	os.Stdout.Sync()
	os.Exit(exitCode) // skip the testing package's PASS/ok trailer
}
