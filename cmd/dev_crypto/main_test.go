// Development harness for the crypto world only (copy of cmd/verif/main_test.go
// plus the single world import), so that other worlds' half-written packages
// cannot break this build.
package main

import (
	"flag"
	"os"
	"testing"

	"verif/sim"
	_ "verif/worlds/crypto"
)

var exitCode int

func TestMain(m *testing.M) {
	flag.Set("test.timeout", "0")
	flag.Parse()
	m.Run()
	os.Exit(exitCode)
}

func TestVerif(t *testing.T) {
	exitCode = sim.Main(t, flag.Args())
	os.Stdout.Sync()
	os.Exit(exitCode) // skip the testing package's PASS/ok trailer
}
