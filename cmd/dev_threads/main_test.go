// Harness main for the threads world only (copy of cmd/verif/main_test.go plus
// the single world import). It is also the main package of the *instrumented*
// worker binaries that the threads checks build in Check.Prepare (overlay of
// rewritten sources, -race for C44), so that other worlds' packages neither slow
// down nor break that build.
package main

import (
	"flag"
	"os"
	"testing"

	"verif/sim"
	_ "verif/worlds/threads"
)

var exitCode int

func TestMain(m *testing.M) {
	flag.Set("test.timeout", "0")
	flag.Parse()
	m.Run()
	os.Exit(exitCode)
}

func TestVerif(t *testing.T) {
	exitCode = sim.Main(t, flag.Args())
	os.Stdout.Sync()
	os.Exit(exitCode) // skip the testing package's PASS/ok trailer
}
