// Package instr is the go/ast rewriter of the threads world (DESIGN 3.4).
//
// It copies the *current* non-test sources of the target packages of the
// repository module into a scratch directory, rewritten so that
//
//	x.Lock()            -> __simrt.Lock(&x, x.Lock, x.TryLock, site)  (RLock -> __simrt.RLock(&x, x.RLock, x.TryRLock, site))
//	x.Unlock()          -> __simrt.Unlock(x.Unlock, site)             (also RUnlock, also in defer)
//	x.TryLock()         -> __simrt.Try(x.TryLock, site)
//	atomic.F(p, b)      -> atomic.F(__simrt.YA(site, p), b)            (functions of sync/atomic)
//	x.v.Store(b)        -> __simrt.YA(site, &x.v).Store(b)             (methods of sync/atomic types)
//	wg.Wait()           -> __simrt.Block(wg.Wait, site)               (sync.WaitGroup)
//	go f(a)             -> go __simrt.Go(f)(a)
//
// and returns a `go build -overlay` map from the original paths to the copies.
// Which calls are mutex / atomic operations is decided by go/types (method
// selections resolving to sync.Mutex / sync.RWMutex, also when embedded or held
// through a pointer; objects of package sync/atomic), not by names, and every
// file of the package is walked, so code added by a later change is
// instrumented too. All edits keep every token on its original line, so
// positions in race reports and stack traces are positions in the original file.
//
// Anything the rewriter cannot handle is an error that names the construct and
// its position (the caller exits 2): a file that does not parse or type-check,
// a mutex method used as a value, a mutex handed out as sync.Locker or to
// sync.Cond, a lock call on an impure receiver expression, a go statement on a
// builtin or an uninstantiated generic function, cgo files. Channel operations,
// blocking selects and sync.Once.Do are left as they are and *listed* in the
// report (the token holder could block there; the checks publish the count).
package instr

import (
	"bytes"
	"encoding/json"
	"fmt"
	"go/ast"
	"go/importer"
	"go/parser"
	"go/token"
	"go/types"
	"io"
	"os"
	"os/exec"
	"path/filepath"
	"sort"
	"strings"
)

const SimrtImport = "verif/simrt"
const simrtName = "__simrt"

type Options struct {
	RepoMod  string   // directory of the repository module (…/code/go/0chain.net)
	ModPath  string   // its module path ("0chain.net")
	Packages []string // package directories relative to RepoMod
	GoBin    string   // go command
	WorkDir  string   // directory to run `go list` in (the harness module)
	Tags     string   // build tags
	ModFile  string   // optional -modfile
	Scratch  string   // existing scratch directory to write into
}

type Report struct {
	Overlay   map[string]string // original file -> rewritten copy
	Files     int
	Locks     int
	Unlocks   int
	Atomics   int
	Gos       int
	Blocks    int
	Unhandled []string // blocking-capable constructs left uninstrumented, "rel/file.go:line kind"
	Sites     []string
}

type listPkg struct {
	ImportPath     string
	Dir            string
	Export         string
	GoFiles        []string
	CgoFiles       []string
	IgnoredGoFiles []string
	Error          *struct{ Err string }
}

type edit struct {
	start, end int // byte offsets; start==end: insertion
	text       string
	order      int
}

// Instrument rewrites the target packages into opt.Scratch.
func Instrument(opt Options) (*Report, error) {
	if opt.ModPath == "" {
		opt.ModPath = "0chain.net"
	}
	args := []string{"list", "-e", "-export", "-deps", "-json=ImportPath,Dir,Export,GoFiles,CgoFiles,IgnoredGoFiles,Error"}
	if opt.Tags != "" {
		args = append(args, "-tags", opt.Tags)
	}
	if opt.ModFile != "" {
		args = append(args, "-modfile="+opt.ModFile)
	}
	var targets []string
	for _, p := range opt.Packages {
		targets = append(targets, opt.ModPath+"/"+p)
	}
	args = append(args, targets...)
	cmd := exec.Command(opt.GoBin, args...)
	cmd.Dir = opt.WorkDir
	var stderr bytes.Buffer
	cmd.Stderr = &stderr
	out, err := cmd.Output()
	if err != nil {
		return nil, fmt.Errorf("instr: go list failed: %v: %s", err, tail(stderr.String(), 1500))
	}
	pkgs := map[string]*listPkg{}
	dec := json.NewDecoder(bytes.NewReader(out))
	for {
		var lp listPkg
		if err := dec.Decode(&lp); err == io.EOF {
			break
		} else if err != nil {
			return nil, fmt.Errorf("instr: go list output: %v", err)
		}
		p := lp
		pkgs[lp.ImportPath] = &p
	}
	rep := &Report{Overlay: map[string]string{}}
	fset := token.NewFileSet()
	imp := importer.ForCompiler(fset, "gc", func(path string) (io.ReadCloser, error) {
		lp := pkgs[path]
		if lp == nil || lp.Export == "" {
			return nil, fmt.Errorf("no export data for %q", path)
		}
		return os.Open(lp.Export)
	})
	for i, ip := range targets {
		lp := pkgs[ip]
		if lp == nil {
			return nil, fmt.Errorf("instr: package %s not listed", ip)
		}
		if lp.Error != nil {
			return nil, fmt.Errorf("instr: package %s: %s", ip, lp.Error.Err)
		}
		if len(lp.CgoFiles) > 0 {
			return nil, fmt.Errorf("instr: package %s has cgo files %v: cannot be rewritten", ip, lp.CgoFiles)
		}
		want := filepath.Join(opt.RepoMod, opt.Packages[i])
		if filepath.Clean(lp.Dir) != filepath.Clean(want) {
			return nil, fmt.Errorf("instr: package %s resolves to %s, expected %s (replace directive and VERIF_REPO disagree)", ip, lp.Dir, want)
		}
		if err := instrumentPkg(fset, imp, opt, opt.Packages[i], lp, rep); err != nil {
			return nil, err
		}
	}
	sort.Strings(rep.Unhandled)
	b, _ := json.MarshalIndent(map[string]any{"Replace": rep.Overlay}, "", " ")
	if err := os.WriteFile(filepath.Join(opt.Scratch, "overlay.json"), b, 0o644); err != nil {
		return nil, err
	}
	return rep, nil
}

func tail(s string, n int) string {
	if len(s) > n {
		return s[len(s)-n:]
	}
	return s
}

type fileCtx struct {
	rel   string // rel/pkg/file.go
	src   []byte
	tf    *token.File
	edits []edit
	info  *types.Info
	rep   *Report
	errs  []string
	fset  *token.FileSet
}

func (fc *fileCtx) off(p token.Pos) int { return fc.tf.Offset(p) }
func (fc *fileCtx) line(p token.Pos) int {
	return fc.tf.Line(p)
}
func (fc *fileCtx) text(n ast.Node) string { return string(fc.src[fc.off(n.Pos()):fc.off(n.End())]) }
func (fc *fileCtx) errf(p token.Pos, format string, a ...any) {
	fc.errs = append(fc.errs, fmt.Sprintf("%s:%d: %s", fc.rel, fc.line(p), fmt.Sprintf(format, a...)))
}
func (fc *fileCtx) site(p token.Pos, kind string) string {
	s := fmt.Sprintf("%s:%d:%s", fc.rel, fc.line(p), kind)
	fc.rep.Sites = append(fc.rep.Sites, s)
	return s
}
func (fc *fileCtx) insert(p token.Pos, text string) {
	fc.edits = append(fc.edits, edit{fc.off(p), fc.off(p), text, len(fc.edits)})
}
func (fc *fileCtx) replace(n ast.Node, text string) {
	fc.edits = append(fc.edits, edit{fc.off(n.Pos()), fc.off(n.End()), text, len(fc.edits)})
}

func instrumentPkg(fset *token.FileSet, imp types.Importer, opt Options, relDir string, lp *listPkg, rep *Report) error {
	var files []*ast.File
	var ctxs []*fileCtx
	for _, name := range lp.GoFiles {
		path := filepath.Join(lp.Dir, name)
		src, err := os.ReadFile(path)
		if err != nil {
			return fmt.Errorf("instr: %v", err)
		}
		f, err := parser.ParseFile(fset, path, src, parser.ParseComments|parser.SkipObjectResolution)
		if err != nil {
			return fmt.Errorf("instr: %s does not parse: %v", filepath.Join(relDir, name), err)
		}
		files = append(files, f)
		ctxs = append(ctxs, &fileCtx{rel: filepath.ToSlash(filepath.Join(relDir, name)), src: src, tf: fset.File(f.Pos()), rep: rep, fset: fset})
	}
	info := &types.Info{
		Types:      map[ast.Expr]types.TypeAndValue{},
		Uses:       map[*ast.Ident]types.Object{},
		Selections: map[*ast.SelectorExpr]*types.Selection{},
		Instances:  map[*ast.Ident]types.Instance{},
	}
	var terrs []string
	conf := types.Config{Importer: imp, Sizes: types.SizesFor("gc", "amd64"), Error: func(err error) {
		if len(terrs) < 10 {
			terrs = append(terrs, err.Error())
		}
	}}
	if _, err := conf.Check(lp.ImportPath, fset, files, info); err != nil || len(terrs) > 0 {
		return fmt.Errorf("instr: package %s does not type-check: %s", lp.ImportPath, strings.Join(terrs, "; "))
	}
	outDir := filepath.Join(opt.Scratch, "src", relDir)
	if err := os.MkdirAll(outDir, 0o755); err != nil {
		return err
	}
	for i, f := range files {
		fc := ctxs[i]
		fc.info = info
		fc.walk(f)
		if len(fc.errs) > 0 {
			return fmt.Errorf("instr: cannot rewrite: %s", strings.Join(fc.errs, "; "))
		}
		out := fc.src
		if len(fc.edits) > 0 {
			fc.insert(f.Name.End(), "; import "+simrtName+" \""+SimrtImport+"\"")
			var err error
			out, err = fc.apply()
			if err != nil {
				return err
			}
			// the result must still parse
			if _, err := parser.ParseFile(token.NewFileSet(), fc.rel, out, 0); err != nil {
				return fmt.Errorf("instr: rewritten %s does not parse: %v", fc.rel, err)
			}
		}
		dst := filepath.Join(outDir, filepath.Base(fc.rel))
		if err := os.WriteFile(dst, out, 0o644); err != nil {
			return err
		}
		rep.Overlay[filepath.Join(lp.Dir, filepath.Base(fc.rel))] = dst
		rep.Files++
	}
	return nil
}

// apply performs the edits; a replaced range keeps its newlines so that line
// numbers do not move.
func (fc *fileCtx) apply() ([]byte, error) {
	es := fc.edits
	sort.SliceStable(es, func(i, j int) bool {
		if es[i].start != es[j].start {
			return es[i].start < es[j].start
		}
		// insertions before replacements at the same offset; insertions in emission order
		if (es[i].start == es[i].end) != (es[j].start == es[j].end) {
			return es[i].start == es[i].end
		}
		return es[i].order < es[j].order
	})
	var out bytes.Buffer
	pos := 0
	for _, e := range es {
		if e.start < pos {
			return nil, fmt.Errorf("instr: overlapping edits in %s at line %d", fc.rel, fc.tf.Line(fc.tf.Pos(e.start)))
		}
		out.Write(fc.src[pos:e.start])
		out.WriteString(e.text)
		if n := bytes.Count(fc.src[e.start:e.end], []byte("\n")); n > 0 {
			out.WriteString(strings.Repeat("\n", n))
		}
		pos = e.end
	}
	out.Write(fc.src[pos:])
	return out.Bytes(), nil
}

func pure(e ast.Expr) bool {
	switch x := e.(type) {
	case *ast.Ident, *ast.BasicLit:
		return true
	case *ast.SelectorExpr:
		return pure(x.X)
	case *ast.StarExpr:
		return pure(x.X)
	case *ast.ParenExpr:
		return pure(x.X)
	case *ast.IndexExpr:
		return pure(x.X) && pure(x.Index)
	case *ast.UnaryExpr:
		return x.Op == token.AND && pure(x.X)
	}
	return false
}

// syncMethod classifies a selector: ("Mutex"|"RWMutex"|"WaitGroup"|"Once"|"Cond"|"Locker"|…, method) for
// methods declared in package sync, ("atomic", name) for sync/atomic, else "".
func (fc *fileCtx) classify(fun ast.Expr) (recv, name string) {
	var obj types.Object
	switch x := fun.(type) {
	case *ast.SelectorExpr:
		if sel := fc.info.Selections[x]; sel != nil {
			if sel.Kind() != types.MethodVal && sel.Kind() != types.MethodExpr {
				return "", ""
			}
			obj = sel.Obj()
		} else {
			obj = fc.info.Uses[x.Sel] // qualified identifier
		}
	case *ast.Ident:
		obj = fc.info.Uses[x] // dot import
	case *ast.ParenExpr:
		return fc.classify(x.X)
	case *ast.IndexExpr:
		return fc.classify(x.X)
	case *ast.IndexListExpr:
		return fc.classify(x.X)
	}
	fn, ok := obj.(*types.Func)
	if !ok || fn.Pkg() == nil {
		return "", ""
	}
	switch fn.Pkg().Path() {
	case "sync/atomic":
		return "atomic", fn.Name()
	case "sync":
		sig, _ := fn.Type().(*types.Signature)
		if sig == nil || sig.Recv() == nil {
			return "syncfunc", fn.Name()
		}
		t := sig.Recv().Type()
		if p, ok := t.(*types.Pointer); ok {
			t = p.Elem()
		}
		if n, ok := t.(*types.Named); ok {
			return n.Obj().Name(), fn.Name()
		}
		// interface method (sync.Locker): receiver is the interface type itself
		return "Locker", fn.Name()
	}
	return "", ""
}

func (fc *fileCtx) walk(f *ast.File) {
	handledFun := map[ast.Expr]bool{} // call.Fun expressions already dealt with
	skipComm := map[ast.Node]bool{}
	var stack []ast.Node
	ast.Inspect(f, func(n ast.Node) bool {
		if n == nil {
			stack = stack[:len(stack)-1]
			return true
		}
		var parent ast.Node
		if len(stack) > 0 {
			parent = stack[len(stack)-1]
		}
		stack = append(stack, n)
		switch x := n.(type) {
		case *ast.GoStmt:
			fc.goStmt(x, handledFun)
		case *ast.CallExpr:
			if !handledFun[x.Fun] {
				fc.call(x, parent, handledFun)
			}
		case *ast.SelectorExpr:
			if !handledFun[x] {
				if recv, name := fc.classify(x); recv != "" {
					if _, isCall := parent.(*ast.CallExpr); !isCall || parent.(*ast.CallExpr).Fun != ast.Expr(x) {
						switch {
						case recv == "Mutex" || recv == "RWMutex" || recv == "Locker":
							fc.errf(x.Pos(), "sync.%s.%s used as a value (not called): cannot be instrumented", recv, name)
						case recv == "atomic":
							fc.errf(x.Pos(), "sync/atomic.%s used as a value (not called): cannot be instrumented", name)
						}
					}
				}
			}
		case *ast.Ident:
			if obj := fc.info.Uses[x]; obj != nil && obj.Pkg() != nil && obj.Pkg().Path() == "sync" {
				switch obj.Name() {
				case "Locker", "Cond", "NewCond":
					fc.errf(x.Pos(), "sync.%s: a mutex handed out as Locker/Cond cannot be instrumented", obj.Name())
				}
			}
		case *ast.SelectStmt:
			hasDefault := false
			for _, c := range x.Body.List {
				if cc, ok := c.(*ast.CommClause); ok && cc.Comm == nil {
					hasDefault = true
				}
			}
			for _, c := range x.Body.List {
				if cc, ok := c.(*ast.CommClause); ok && cc.Comm != nil {
					skipComm[cc.Comm] = true
					markComm(cc.Comm, skipComm)
				}
			}
			if !hasDefault {
				fc.unhandled(x.Pos(), "select")
			}
		case *ast.SendStmt:
			if !skipComm[x] {
				fc.unhandled(x.Pos(), "chan-send")
			}
		case *ast.UnaryExpr:
			if x.Op == token.ARROW && !skipComm[x] {
				fc.unhandled(x.Pos(), "chan-recv")
			}
		case *ast.RangeStmt:
			if tv, ok := fc.info.Types[x.X]; ok {
				if _, isChan := tv.Type.Underlying().(*types.Chan); isChan {
					fc.unhandled(x.Pos(), "chan-range")
				}
			}
		}
		return true
	})
}

func markComm(s ast.Stmt, skip map[ast.Node]bool) {
	ast.Inspect(s, func(n ast.Node) bool {
		switch x := n.(type) {
		case *ast.UnaryExpr:
			if x.Op == token.ARROW {
				skip[x] = true
			}
		case *ast.SendStmt:
			skip[x] = true
		case *ast.FuncLit:
			return false
		}
		return true
	})
}

func (fc *fileCtx) unhandled(p token.Pos, kind string) {
	fc.rep.Unhandled = append(fc.rep.Unhandled, fmt.Sprintf("%s:%d %s", fc.rel, fc.line(p), kind))
}

func (fc *fileCtx) goStmt(g *ast.GoStmt, handled map[ast.Expr]bool) {
	fun := g.Call.Fun
	handled[fun] = true
	if recv, name := fc.classify(fun); recv == "Mutex" || recv == "RWMutex" || recv == "Locker" {
		fc.errf(g.Pos(), "go statement on sync.%s.%s cannot be instrumented", recv, name)
		return
	}
	// builtins and uninstantiated generic functions cannot be passed as values
	base := fun
	for {
		if p, ok := base.(*ast.ParenExpr); ok {
			base = p.X
			continue
		}
		break
	}
	var id *ast.Ident
	switch b := base.(type) {
	case *ast.Ident:
		id = b
	case *ast.SelectorExpr:
		id = b.Sel
	}
	if id != nil {
		if _, ok := fc.info.Uses[id].(*types.Builtin); ok {
			fc.errf(g.Pos(), "go statement on builtin %s cannot be instrumented", id.Name)
			return
		}
		if _, ok := fc.info.Instances[id]; ok {
			fc.errf(g.Pos(), "go statement on implicitly instantiated generic function %s cannot be instrumented", id.Name)
			return
		}
	}
	if tv, ok := fc.info.Types[fun]; ok && tv.IsType() {
		fc.errf(g.Pos(), "go statement on a conversion cannot be instrumented")
		return
	}
	fc.insert(fun.Pos(), simrtName+".Go(")
	fc.insert(fun.End(), ")")
	fc.rep.Gos++
}

func (fc *fileCtx) call(c *ast.CallExpr, parent ast.Node, handled map[ast.Expr]bool) {
	recv, name := fc.classify(c.Fun)
	if recv == "" {
		return
	}
	handled[c.Fun] = true
	switch recv {
	case "atomic":
		// The call itself stays a direct call (a call through a function value would lose the
		// caller's frame in race reports); the scheduling point is the evaluation of the first
		// argument (package functions: the address) or of the receiver (methods of atomic types).
		site := "\"" + fc.site(c.Pos(), "A") + "\""
		sel, isSel := unparen(c.Fun).(*ast.SelectorExpr)
		if isSel && fc.info.Selections[sel] != nil {
			if fc.info.Selections[sel].Kind() != types.MethodVal {
				fc.errf(c.Pos(), "call of sync/atomic method %s through a method expression cannot be instrumented", name)
				return
			}
			tv, ok := fc.info.Types[sel.X]
			if !ok {
				fc.errf(c.Pos(), "receiver type of sync/atomic method %s unknown", name)
				return
			}
			if _, isPtr := tv.Type.Underlying().(*types.Pointer); isPtr {
				fc.insert(sel.X.Pos(), simrtName+".YA("+site+", ")
			} else {
				fc.insert(sel.X.Pos(), simrtName+".YA("+site+", &")
			}
			fc.insert(sel.X.End(), ")")
		} else {
			if len(c.Args) == 0 {
				fc.errf(c.Pos(), "sync/atomic.%s called without arguments: rewriter needs an update", name)
				return
			}
			if tv, ok := fc.info.Types[c.Args[0]]; ok {
				if _, tuple := tv.Type.(*types.Tuple); tuple {
					fc.errf(c.Pos(), "sync/atomic.%s called with a multi-value argument cannot be instrumented", name)
					return
				}
			}
			fc.insert(c.Args[0].Pos(), simrtName+".YA("+site+", ")
			fc.insert(c.Args[0].End(), ")")
		}
		fc.rep.Atomics++
	case "Mutex", "RWMutex":
		sel, ok := unparen(c.Fun).(*ast.SelectorExpr)
		if !ok {
			fc.errf(c.Pos(), "call of sync.%s.%s through a method expression cannot be instrumented", recv, name)
			return
		}
		if fc.info.Selections[sel] != nil && fc.info.Selections[sel].Kind() == types.MethodExpr {
			fc.errf(c.Pos(), "call of sync.%s.%s through a method expression cannot be instrumented", recv, name)
			return
		}
		if !pure(sel.X) {
			fc.errf(c.Pos(), "receiver of %s() is not a side-effect free expression (%s): cannot be instrumented", name, fc.text(sel.X))
			return
		}
		x := fc.text(sel.X)
		if strings.Contains(x, "\n") {
			fc.errf(c.Pos(), "receiver of %s() spans lines: cannot be instrumented", name)
			return
		}
		// identity of the mutex for the scheduler's pending-writer bookkeeping: its address
		key := "&" + x
		if tv, ok := fc.info.Types[sel.X]; ok {
			if _, isPtr := tv.Type.Underlying().(*types.Pointer); isPtr {
				key = x
			}
		}
		switch name {
		case "Lock":
			fc.replace(c, fmt.Sprintf("%s.Lock(%s, %s.Lock, %s.TryLock, %q)", simrtName, key, x, x, fc.site(c.Pos(), "L")))
			fc.rep.Locks++
		case "RLock":
			fc.replace(c, fmt.Sprintf("%s.RLock(%s, %s.RLock, %s.TryRLock, %q)", simrtName, key, x, x, fc.site(c.Pos(), "RL")))
			fc.rep.Locks++
		case "Unlock", "RUnlock":
			fc.replace(c, fmt.Sprintf("%s.Unlock(%s.%s, %q)", simrtName, x, name, fc.site(c.Pos(), map[string]string{"Unlock": "U", "RUnlock": "RU"}[name])))
			fc.rep.Unlocks++
		case "TryLock", "TryRLock":
			fc.replace(c, fmt.Sprintf("%s.Try(%s.%s, %q)", simrtName, x, name, fc.site(c.Pos(), "T")))
			fc.rep.Locks++
		case "RLocker":
			fc.errf(c.Pos(), "sync.RWMutex.RLocker hands the mutex out as sync.Locker: cannot be instrumented")
		default:
			fc.errf(c.Pos(), "unknown method sync.%s.%s: rewriter needs an update", recv, name)
		}
	case "Locker":
		fc.errf(c.Pos(), "call of sync.Locker.%s (interface; no TryLock): cannot be instrumented", name)
	case "WaitGroup":
		if name == "Wait" {
			sel, ok := unparen(c.Fun).(*ast.SelectorExpr)
			if !ok || !pure(sel.X) || strings.Contains(fc.text(sel.X), "\n") {
				fc.errf(c.Pos(), "sync.WaitGroup.Wait on an impure receiver cannot be instrumented")
				return
			}
			fc.replace(c, fmt.Sprintf("%s.Block(%s.Wait, %q)", simrtName, fc.text(sel.X), fc.site(c.Pos(), "W")))
			fc.rep.Blocks++
		}
	case "Once":
		if name == "Do" {
			fc.unhandled(c.Pos(), "sync.Once.Do")
		}
	case "Cond":
		fc.errf(c.Pos(), "sync.Cond.%s cannot be instrumented", name)
	}
	_ = parent
}

func unparen(e ast.Expr) ast.Expr {
	for {
		p, ok := e.(*ast.ParenExpr)
		if !ok {
			return e
		}
		e = p.X
	}
}
