package instr

import (
	"os"
	"os/exec"
	"path/filepath"
	"strings"
	"testing"
)

// A synthetic module with the constructs that the current target packages do
// not contain (embedded / pointer mutexes, go statements, atomic values,
// WaitGroup), rewritten, built with -overlay and run with and without a scheduler.

const synth = `package p

import (
	"sync"
	"sync/atomic"
)

type E struct {
	sync.Mutex
	n int
}

type P struct {
	mu *sync.RWMutex
	v  atomic.Value
	c  atomic.Int64
	m  map[int]*E
}

func NewP() *P { return &P{mu: &sync.RWMutex{}, m: map[int]*E{1: {}}} }

func (p *P) Inc(k int) int {
	p.mu.RLock()
	e := p.m[k]
	p.mu.RUnlock()
	e.Lock()
	defer e.Unlock()
	e.n++
	p.c.Add(1)
	p.v.Store(e.n)
	return e.n
}

func (p *P) Par(n int, f func(int, ...int)) int64 {
	var wg sync.WaitGroup
	var total int64
	for i := 0; i < n; i++ {
		wg.Add(1)
		go func(i int) {
			defer wg.Done()
			atomic.AddInt64(&total,
				int64(p.Inc(1)))
		}(i)
		go f(i, 1, 2)
	}
	wg.Wait()
	if (p.mu).TryLock() {
		p.mu.Unlock()
	}
	return atomic.LoadInt64(&total)
}
`

const synthMain = `package main

import (
	"fmt"
	"tmod/p"
	"verif/simrt"
)

func main() {
	x := p.NewP()
	// passthrough
	fmt.Println("plain", x.Par(3, func(int, ...int) {}))
	// under a scheduler
	s := simrt.New(simrt.ModeChan)
	k := 0
	s.Pick = func(g *simrt.G) int { k++; if k%3 == 0 { return k }; return -1 }
	var got int64
	s.Spawn(func(g *simrt.G) { got = x.Par(3, func(int, ...int) {}) })
	s.Spawn(func(g *simrt.G) { x.Inc(1) })
	s.Run(0)
	fmt.Println("sched", got > 0, s.Aborted, len(s.Gs()), s.Switches > 0)
}
`

func TestSynthetic(t *testing.T) {
	gobin := os.Getenv("VERIF_GO")
	if gobin == "" {
		gobin = "/opt/veriftools/go1.26.8/bin/go"
	}
	dir := t.TempDir()
	must := func(err error) {
		t.Helper()
		if err != nil {
			t.Fatal(err)
		}
	}
	must(os.MkdirAll(filepath.Join(dir, "p"), 0o755))
	must(os.MkdirAll(filepath.Join(dir, "cmd"), 0o755))
	must(os.MkdirAll(filepath.Join(dir, "scratch"), 0o755))
	verif, _ := filepath.Abs("..")
	must(os.WriteFile(filepath.Join(dir, "go.mod"), []byte("module tmod\n\ngo 1.26\n\nrequire verif v0.0.0\n\nreplace verif => "+verif+"\n"), 0o644))
	must(os.WriteFile(filepath.Join(dir, "p", "p.go"), []byte(synth), 0o644))
	must(os.WriteFile(filepath.Join(dir, "cmd", "main.go"), []byte(synthMain), 0o644))
	rep, err := Instrument(Options{RepoMod: dir, ModPath: "tmod", Packages: []string{"p"}, GoBin: gobin, WorkDir: dir, Scratch: filepath.Join(dir, "scratch")})
	must(err)
	if rep.Locks != 3 || rep.Unlocks != 3 || rep.Atomics != 4 || rep.Gos != 2 || rep.Blocks != 1 {
		t.Fatalf("unexpected counts %+v", rep)
	}
	out, _ := os.ReadFile(rep.Overlay[filepath.Join(dir, "p", "p.go")])
	if strings.Count(string(out), "\n") != strings.Count(synth, "\n") {
		t.Fatalf("line count changed")
	}
	cmd := exec.Command(gobin, "run", "-overlay", filepath.Join(dir, "scratch", "overlay.json"), "./cmd")
	cmd.Dir = dir
	b, err := cmd.CombinedOutput()
	if err != nil {
		t.Fatalf("%v\n%s\n---\n%s", err, b, out)
	}
	if !strings.Contains(string(b), "plain 6") || !strings.Contains(string(b), "sched true false 8 true") {
		t.Fatalf("unexpected output:\n%s\n---\n%s", b, out)
	}

	// constructs that must be refused
	for name, src := range map[string]string{
		"method value": "package p\nimport \"sync\"\nvar mu sync.Mutex\nfunc F() { f := mu.Lock; f() }\n",
		"locker":       "package p\nimport \"sync\"\nvar mu sync.Mutex\nfunc F() sync.Locker { return &mu }\n",
		"impure":       "package p\nimport \"sync\"\nvar mu sync.Mutex\nfunc g() *sync.Mutex { return &mu }\nfunc F() { g().Lock() }\n",
		"go builtin":   "package p\nfunc F(c chan int) { go close(c) }\n",
		"parse":        "package p\nfunc F( {\n",
	} {
		must(os.WriteFile(filepath.Join(dir, "p", "p.go"), []byte(src), 0o644))
		if _, err := Instrument(Options{RepoMod: dir, ModPath: "tmod", Packages: []string{"p"}, GoBin: gobin, WorkDir: dir, Scratch: filepath.Join(dir, "scratch")}); err == nil {
			t.Fatalf("%s: expected an error", name)
		} else {
			t.Logf("%s: %v", name, err)
		}
	}
}
