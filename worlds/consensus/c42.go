package consensus

import (
	"fmt"
	"sort"
	"strings"

	"0chain.net/chaincore/block"
	"0chain.net/chaincore/chain"
	"0chain.net/chaincore/node"

	"verif/sim"
)

func init() {
	sim.Register(&sim.Check{
		ID: "C42", Title: "Replicating sharders are chosen deterministically", World: "consensus",
		Gen: genC42, Exec: execC42,
		Quick:    sim.Budget{Runs: 1200, WallS: 25},
		Thorough: sim.Budget{Runs: 400000, WallS: 600},
		LevelText: "seeded search: 2-5 independent real chain.Chain instances learn one seeded sharder set over a simulated network (per-instance permutation, " +
			"verbatim duplicates, queries racing with late deliveries) and compute the replicators of seeded block hashes for seeded replicator counts (negative, 0, 1..n, >n); a clean batch is evidence, not proof",
		LevelNote: "order-essential (the tie-break of the scorer is Pool set index). Both ways a node id is installed are explored, one per run for all instances: node.SetID (scorer active) and the " +
			"production construction of magic-block pools (id string only: Node.idBytes stays nil, every score is 0, every sharder is in the top — reported as probe all_scores_zero, not a violation of this statement). " +
			"With fewer sharders than configured replicators the shipped code selects nobody; the statement is silent there, reported as probe nobody_stores_block",
		Technique: "deterministic simulation: multi-instance differential execution under seeded delivery orders + statement-level cardinality oracles",
		DesignRef: "6/C42", Regime: "single-threaded event loop",
		Components: sim.Components{
			Real: []string{"chaincore/node (Pool.AddNode, HashPoolScorer.ScoreHash, Node.IsInTop, IsInTopWithNodes)", "core/encryption (XORHashScorer)",
				"chaincore/chain (IsBlockSharder, IsBlockSharderFromHash, CanShardBlockWithReplicators, CanReplicateBlock, NumReplicators, magic-block lookup)"},
			Sim:  []string{"sharder identities with seeded keys", "simulated broadcast network (reorder, duplicate, delay)", "block hashes"},
			Stub: []string{"datastore.Store (never touched)"},
		},
		Assumptions: []string{
			"instances are compared only when they hold the same sharder set",
			"all instances of a run build their nodes the same way (with or without the byte form of the id)",
			"with several magic blocks the replicators of a round are those of the magic block Chain.GetMagicBlock(round) serves (view-change offset included); instances are compared on that magic block's sharder set only",
			"an instance uses one node object per sharder in all its magic blocks (as the node registry does in production)",
		},
	})
}

// cfg: mbs (1..3 magic blocks whose sharder sets differ), gap (distance of their starting rounds), inst, sharders, scheme, repl (NumReplicators), idbytes, minactive, inactive (bit mask)
// steps:
//   add    A=inst I=[sharder, magic block]
//   query  I=[hash#, round]     every instance computes the replicators of block hash #hash at that round (mostly start-2 .. start+6 of a later magic block)

func genC42(seed uint64, tier string) *sim.Plan {
	root := sim.NewRNG(seed)
	r, net, sw := root.Child("plan"), root.Child("net"), root.Child("swarm")
	maxS := 12
	if tier == "thorough" {
		maxS = 40
	}
	nInst := sw.Range(2, 5)
	nS := []int{1, 2, 3, 4, 6, sw.Range(2, maxS), sw.Range(2, maxS), sw.Range(2, maxS)}[sw.Intn(8)]
	var repl int
	switch sw.Pick([]int{2, 2, 8, 2, 1}) {
	case 0:
		repl = -sw.Range(1, 3)
	case 1:
		repl = 0
	case 2:
		repl = sw.Range(1, nS)
	case 3:
		repl = nS
	default:
		repl = nS + sw.Range(1, 3)
	}
	nMB := sw.Pick([]int{0, 3, 4, 2}) // 1..3 magic blocks; from the second on the sharder set changes (view change)
	gap := int64([]int{7, 20, 300}[sw.Intn(3)])
	p := &sim.Plan{Cfg: map[string]int64{
		"mbs": int64(nMB), "gap": gap,
		"inst": int64(nInst), "sharders": int64(nS), "scheme": int64(sw.Intn(2)), "repl": int64(repl),
		"idbytes": int64(sw.Pick([]int{1, 3})), "minactive": int64([]int{0, 25, 100}[sw.Intn(3)]), "inactive": int64(sw.Uint64() & sw.Uint64() & 0xffff),
	}}
	facts := c42facts(seed, nS, nMB)
	seqs := miSchedule(net, nInst, len(facts), sw.Bool(0.85), []float64{0, 0.15, 0.4}[sw.Intn(3)])
	nH := r.Range(1, 6)
	q := func() sim.Step {
		rn := int64(r.Range(1, 3000))
		if nMB > 1 && r.Bool(0.8) {
			// the rounds around a view change: start-2 .. start+6 (the offset window of GetMagicBlock lies inside)
			rn = c42start(r.Range(1, nMB-1), gap) + int64(r.Range(-2, 6))
		}
		return sim.Step{Op: "query", I: []int64{int64(r.Intn(nH)), rn}}
	}
	pMid := []float64{0, 0.1, 0.3}[sw.Intn(3)]
	for _, a := range miInterleave(net, seqs) {
		p.Steps = append(p.Steps, sim.Step{Op: "add", A: a[0], I: []int64{int64(facts[a[1]][1]), int64(facts[a[1]][0])}})
		if r.Bool(pMid) {
			p.Steps = append(p.Steps, q())
		}
	}
	for k := r.Range(3, 10); k > 0; k-- {
		p.Steps = append(p.Steps, q())
	}
	return p
}

// c42start is the starting round of magic block #j (0 for the first, beyond ViewChangeOffset for the others).
func c42start(j int, gap int64) int64 {
	if j == 0 {
		return 0
	}
	return chain.ViewChangeOffset + 2 + int64(j)*gap
}

// c42member says whether sharder k belongs to magic block j: every magic block leaves out about a quarter of
// the identities, another quarter each time, so consecutive sharder sets differ (added / removed / replaced).
func c42member(seed uint64, j, k, nS int) bool {
	if k == j%nS {
		return true // never empty
	}
	return sim.Hash64(fmt.Sprint(seed), "member", fmt.Sprint(j), fmt.Sprint(k))%4 != 0
}

// c42facts lists the (magic block, sharder) membership facts the network delivers.
func c42facts(seed uint64, nS, nMB int) [][2]int {
	var f [][2]int
	for j := 0; j < nMB; j++ {
		for k := 0; k < nS; k++ {
			if c42member(seed, j, k, nS) {
				f = append(f, [2]int{j, k})
			}
		}
	}
	return f
}

func execC42(env *sim.Env, p *sim.Plan) *sim.Result {
	miWorld()
	tr := sim.NewTrace()
	tr.Keep = env.KeepLog
	root := sim.NewRNG(p.Seed)
	nInst := max(int(p.CfgInt("inst", 2)), 1)
	nS := max(int(p.CfgInt("sharders", 3)), 1)
	nMB := max(int(p.CfgInt("mbs", 1)), 1)
	gap := max(p.CfgInt("gap", 20), 1)
	repl := int(p.CfgInt("repl", 1))
	withBytes := p.CfgInt("idbytes", 1) == 1
	inactive := uint64(p.CfgInt("inactive", 0))
	ids := miIdents(root.Child("keys"), "s", nS, miSchemes[int(p.CfgInt("scheme", 0))%2])

	viol := func(oracle, sig, detail string) {
		tr.Violate(&sim.Violation{Prop: "C42", Oracle: oracle, Sig: "C42/" + sig, Detail: detail})
	}
	type inst struct {
		c     *chain.Chain
		mbs   []*block.MagicBlock
		nodes map[int]*node.Node // one node object per sharder and instance, shared by the instance's magic blocks
	}
	insts := make([]*inst, nInst)
	for i := range insts {
		c := miChain(&chain.ConfigData{NumReplicators: repl, MinActiveReplicators: int(p.CfgInt("minactive", 0)), MinActiveSharders: 25, MinGenerators: 1, ThresholdByCount: 66})
		in := &inst{c: c, nodes: map[int]*node.Node{}}
		for j := 0; j < nMB; j++ {
			mb := block.NewMagicBlock()
			mb.Miners = node.NewPool(node.NodeTypeMiner)
			mb.Sharders = node.NewPool(node.NodeTypeSharder)
			mb.StartingRound = c42start(j, gap)
			mb.MagicBlockNumber = int64(j + 1)
			mb.Hash = miHash(p.Seed, "mb", j)
			c.SetMagicBlock(mb)
			in.mbs = append(in.mbs, mb)
		}
		insts[i] = in
	}
	arr := newArrivals(tr, nInst)
	byHashSet := map[string]string{}

	for _, st := range p.Steps {
		switch st.Op {
		case "add":
			i := st.A % nInst
			k := int(st.Int(0, 0)) % nS
			if k < 0 {
				k = -k
			}
			j := int(st.Int(1, 0)) % nMB
			if j < 0 {
				j = -j
			}
			in := insts[i]
			dup := arr.arrive(i, j*nS+k)
			nd := in.nodes[k]
			if nd == nil || nMB == 1 {
				nd = ids[k].newNode(node.NodeTypeSharder, withBytes)
				in.nodes[k] = nd
			}
			if inactive>>uint(k%16)&1 == 1 {
				nd.Status = node.NodeStatusInactive
			}
			if err := in.mbs[j].Sharders.AddNode(nd); err != nil {
				viol("add-node", "add/error", err.Error())
				continue
			}
			tr.Event("add i=%d mb=%d s=%d dup=%v size=%d", i, j, k, dup, in.mbs[j].Sharders.Size())
			tr.Outcome(fmt.Sprintf("add/dup=%v", dup))

		case "query":
			h := miHash(p.Seed, "blockhash", st.Int(0, 0))
			rn := st.Int(1, 1)
			if rn < 0 {
				rn = -rn
			}
			if arr.lagging() {
				tr.Probe("query_with_lagging_instance")
			}
			for i, in := range insts {
				// the magic block in force for the round, as every caller obtains it
				var inForce *block.MagicBlock
				if pn := guard(func() { inForce = in.c.GetMagicBlock(rn) }); pn != "" {
					viol("replicators", "repl/panic", pn)
					continue
				}
				jf := -1
				for j, mb := range in.mbs {
					if mb == inForce {
						jf = j
					}
				}
				if jf < 0 {
					viol("replicators", "repl/unknown-magic-block", fmt.Sprintf("inst %d round %d served by a magic block the simulator never stored", i, rn))
					continue
				}
				pool := inForce.Sharders
				n := pool.Size()
				if n == 0 {
					tr.Outcome("query/empty-pool")
					continue
				}
				have := make([]int, 0, n)
				for k := 0; k < nS; k++ {
					if arr.have[i][jf*nS+k] {
						have = append(have, k)
					}
				}
				setKey := fmt.Sprint(jf, ":", have)
				if raw := in.c.GetMagicBlockNoOffset(rn); raw != inForce {
					tr.Probe("round_in_view_change_offset_window")
					a, b := sortedCopy(raw.Sharders.Keys()), sortedCopy(pool.Keys())
					if len(a) > 0 && strings.Join(a, ",") != strings.Join(b, ",") {
						tr.Probe("offset_window_with_changed_sharder_set")
					}
				}
				b := block.NewBlock("", rn)
				b.Hash = h
				var set, viaHash, viaNodes []string
				idxOf := map[string]int{}
				for _, k := range have {
					idxOf[ids[k].id] = k
				}
				nodesDisagree := false
				pnc := guard(func() {
					for _, k := range have {
						nd := pool.GetNode(ids[k].id)
						if nd == nil {
							viol("pool", "pool/node-missing", fmt.Sprintf("inst %d lost sharder %d", i, k))
							return
						}
						is := in.c.IsBlockSharder(b, nd)
						if is {
							set = append(set, fmt.Sprint(k))
						}
						if in.c.IsBlockSharderFromHash(rn, h, nd) {
							viaHash = append(viaHash, fmt.Sprint(k))
						}
						can, nodes := in.c.CanShardBlockWithReplicators(rn, h, nd)
						if can != is {
							nodesDisagree = true
						}
						var l []string
						for _, x := range nodes {
							l = append(l, fmt.Sprint(idxOf[x.ID]))
						}
						sort.Strings(l)
						if viaNodes == nil {
							viaNodes = l
						} else if strings.Join(viaNodes, ",") != strings.Join(l, ",") {
							nodesDisagree = true
						}
					}
				})
				if pnc != "" {
					viol("replicators", "repl/panic", fmt.Sprintf("inst %d hash %s R=%d n=%d: %s", i, short(h), repl, n, pnc))
					continue
				}
				sset := append([]string(nil), set...)
				sort.Strings(sset)
				val := strings.Join(set, ",")
				if strings.Join(viaHash, ",") != val || nodesDisagree || strings.Join(viaNodes, ",") != strings.Join(sset, ",") {
					viol("api-consistency", "repl/apis-disagree", fmt.Sprintf("inst %d hash %s: IsBlockSharder {%s}, FromHash {%s}, WithReplicators {%s}", i, short(h), val, strings.Join(viaHash, ","), strings.Join(viaNodes, ",")))
				}
				switch {
				case repl <= 0:
					tr.Probe("replication_disabled")
					if len(set) != n {
						viol("disabled-everyone", "repl/disabled-not-everyone", fmt.Sprintf("inst %d NumReplicators=%d n=%d set {%s}", i, repl, n, val))
					}
				case repl <= n:
					if len(set) < repl {
						viol("enough-replicators", "repl/fewer-than-configured", fmt.Sprintf("inst %d NumReplicators=%d n=%d set {%s}", i, repl, n, val))
					}
					if len(set) > repl {
						tr.Probe("tie_at_cutoff_enlarges_set")
					}
					if repl == n {
						tr.Probe("replicators_equal_sharders")
					}
				default:
					tr.Probe("fewer_sharders_than_replicators")
					if len(set) == 0 {
						tr.Probe("nobody_stores_block")
					}
				}
				if !withBytes && repl > 0 && repl <= n && len(set) == n && n > 1 {
					tr.Probe("all_scores_zero")
				}
				crb := in.c.CanReplicateBlock(b)
				val = fmt.Sprintf("{%s} canrepl=%v", val, crb)
				key := h + "|" + setKey
				if prev, ok := byHashSet[key]; ok {
					if prev != val {
						viol("agreement", "repl/differs-across-instances", fmt.Sprintf("inst %d hash %s sharders{%s} R=%d: %s, another instance computed %s", i, short(h), setKey, repl, val, prev))
					}
				} else {
					byHashSet[key] = val
				}
				tr.Event("query i=%d h=%s rn=%d mb=%s R=%d -> %s", i, short(h), rn, setKey, repl, val)
				tr.Outcome(fmt.Sprintf("query/%s", map[bool]string{true: "all", false: "subset"}[len(set) == n]))
				tr.State("q:" + val)
			}
		}
	}
	miDumpTrace(tr)
	return tr.Result(p.Seed)
}
