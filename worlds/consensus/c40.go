package consensus

import (
	"context"
	"fmt"
	"sort"
	"strings"
	"testing"
	"testing/synctest"
	"time"

	"0chain.net/chaincore/block"
	"0chain.net/chaincore/chain"
	"0chain.net/chaincore/node"
	"0chain.net/chaincore/round"

	"verif/sim"
)

func init() {
	sim.Register(&sim.Check{
		ID: "C40", Title: "Magic-block lookup returns the block in force for a round", World: "consensus",
		Gen: genC40, Exec: execC40,
		Quick:    sim.Budget{Runs: 1200, WallS: 25},
		Thorough: sim.Budget{Runs: 300000, WallS: 600},
		LevelText: "seeded search: 1-4 independent real chain.Chain instances receive one seeded set of magic blocks over a simulated network (any order of starting rounds, verbatim duplicates, " +
			"lookups racing with late deliveries), interleaved with direct Prune calls at any stored round, the shipped PruneRoundStorage and, in part of the runs, the shipped PruneStorageWorker ticking on a synctest bubble clock; " +
			"after every mutation a battery of lookups around every starting round is compared with a reference; a clean batch is evidence, not proof",
		LevelNote: "history property; delivery order matters only through roundStartingStorage.putToSlice. The reference is written in in-force form (a magic block starting at S>0 serves rounds >= S+ViewChangeOffset, the one at 0 serves from 0, " +
			"the latest serves rounds nobody else does); it coincides with the shipped mbRoundOffset for starting rounds 0 and > ViewChangeOffset. Sets containing starting rounds 1..ViewChangeOffset (never produced by a view change) are explored report-only " +
			"(probe tiny_start_lookup_differs). 'Rounds at or after the pruned point' is read in lookup-key space: the pruned point P is the smallest starting round still stored, and the rounds whose answer must not move are those whose in-force " +
			"lookup key is >= P (q >= P+ViewChangeOffset, or q >= 0 when P = 0); Prune(r) itself removes r and everything older, as the upstream unit test pins down",
		Technique: "deterministic simulation: seeded put/get/prune histories on multiple instances + reference floor lookup; real prune worker on fake time",
		DesignRef: "6/C40", Regime: "single-threaded event loop (synctest bubble when the prune worker runs)",
		Components: sim.Components{
			Real: []string{"chaincore/round (roundStartingStorage Put, Get, GetLatest, Prune, FindRoundIndex, GetRounds, Count)",
				"chaincore/chain (Chain.SetMagicBlock, GetMagicBlock, GetMagicBlockNoOffset, GetLatestMagicBlock, mbRoundOffset, PruneRoundStorage, PruneStorageWorker)"},
			Sim:  []string{"magic-block facts with seeded starting rounds", "simulated broadcast network (reorder, duplicate, delay)", "bubble clock", "reference model"},
			Stub: []string{"datastore.Store (never touched)"},
		},
		Assumptions: []string{
			"one magic block per starting round (starting rounds of distinct facts are distinct by construction)",
			"lookups on an empty storage are not asked (the statement needs at least one stored magic block; the shipped code panics there)",
			"starting rounds are 0 or greater than ViewChangeOffset in the fatal configuration",
		},
	})
}

// cfg: inst, mbs, gap, tiny, target, worker, prunemax
// steps:
//   put    A=inst I=[k]            magic-block fact #k arrives (Chain.SetMagicBlock of a fresh object)
//   get    I=[kind, k, delta]      every instance looks up a round (kind 0: start(k)+delta, 1: delta (small absolute), 2: huge, 3: -1)
//   prune  A=inst I=[mode, k]      mode 0: MagicBlockStorage.Prune(start(k)) if it is not the latest stored; 1: Chain.PruneRoundStorage(target);
//                                  2: MagicBlockStorage.Prune(latest stored) (only with cfg prunemax)
//   tick   I=[secs]                the bubble clock advances (PruneStorageWorker of every instance may fire)

const c40Period = 5 * time.Minute // the period the shipped miner and sharder start the worker with

func genC40(seed uint64, tier string) *sim.Plan {
	root := sim.NewRNG(seed)
	r, net, sw := root.Child("plan"), root.Child("net"), root.Child("swarm")
	nInst := sw.Range(1, 4)
	nMB := sw.Range(1, 9)
	if tier == "thorough" {
		nMB = sw.Range(1, 24)
	}
	p := &sim.Plan{Cfg: map[string]int64{
		"inst": int64(nInst), "mbs": int64(nMB), "gap": int64([]int{1, 2, 5, 50, 500}[sw.Intn(5)]),
		"tiny": int64(sw.Pick([]int{5, 1})), "target": int64(sw.Pick([]int{1, 3, 3, 2, 1, 2})), // 0 = pruning disabled
		"worker": int64(sw.Pick([]int{3, 2})), "prunemax": int64(sw.Pick([]int{5, 1})),
	}}
	seqs := miSchedule(net, nInst, nMB, sw.Bool(0.9), []float64{0, 0.15, 0.4}[sw.Intn(3)])
	get := func() sim.Step {
		kind := r.Pick([]int{10, 3, 1, 1})
		return sim.Step{Op: "get", I: []int64{int64(kind), int64(r.Intn(nMB)), int64([]int{-1, 0, 1, 3, 4, 5, 6, r.Range(0, 9)}[r.Intn(8)])}}
	}
	pGet := []float64{0.1, 0.3, 0.6}[sw.Intn(3)]
	pPrune := []float64{0, 0.1, 0.25}[sw.Intn(3)]
	for _, a := range miInterleave(net, seqs) {
		p.Steps = append(p.Steps, sim.Step{Op: "put", A: a[0], I: []int64{int64(a[1])}})
		if r.Bool(pGet) {
			p.Steps = append(p.Steps, get())
		}
		if r.Bool(pPrune) {
			mode := r.Pick([]int{4, 3, 1})
			p.Steps = append(p.Steps, sim.Step{Op: "prune", A: r.Intn(nInst), I: []int64{int64(mode), int64(r.Intn(nMB))}})
			if r.Bool(0.7) {
				p.Steps = append(p.Steps, get())
			}
		}
		if r.Bool(0.08) {
			p.Steps = append(p.Steps, sim.Step{Op: "tick", I: []int64{int64(r.Range(1, 700))}})
		}
	}
	for k := r.Range(1, 5); k > 0; k-- {
		p.Steps = append(p.Steps, get())
	}
	return p
}

type c40inst struct {
	c            *chain.Chain
	model        map[int64]string // starting round -> magic block hash
	prunedLatest bool             // the latest entry was pruned at some point (roundStartingStorage keeps its max)
	dead         bool             // GetMagicBlock panicked while holding mbMutex.RLock: the instance can no longer be written
}

func (in *c40inst) starts() []int64 {
	s := make([]int64, 0, len(in.model))
	for k := range in.model {
		s = append(s, k)
	}
	sort.Slice(s, func(i, j int) bool { return s[i] < s[j] })
	return s
}

// c40ref is the reference lookup in in-force form.
func c40ref(starts []int64, q int64) (int64, bool) {
	if len(starts) == 0 {
		return 0, false
	}
	best, ok := int64(0), false
	for _, s := range starts {
		inForce := q >= s+chain.ViewChangeOffset
		if s == 0 {
			inForce = q >= 0
		}
		if inForce && (!ok || s > best) {
			best, ok = s, true
		}
	}
	if !ok {
		return starts[len(starts)-1], true // latest when none starts earlier
	}
	return best, true
}

// c40floor is the plain floor lookup of the storage (no offset).
func c40floor(starts []int64, e int64) (int64, int) {
	idx := -1
	for i, s := range starts {
		if s <= e {
			idx = i
		}
	}
	if idx < 0 {
		return 0, -1
	}
	return starts[idx], idx
}

func execC40(env *sim.Env, p *sim.Plan) *sim.Result {
	miWorld()
	tr := sim.NewTrace()
	tr.Keep = env.KeepLog
	if p.CfgInt("worker", 0) == 1 && env.T != nil {
		synctest.Test(env.T, func(t *testing.T) { runC40(tr, p, true) })
	} else {
		runC40(tr, p, false)
	}
	miDumpTrace(tr)
	return tr.Result(p.Seed)
}

func runC40(tr *sim.Trace, p *sim.Plan, worker bool) {
	nInst := max(int(p.CfgInt("inst", 1)), 1)
	nMB := max(int(p.CfgInt("mbs", 1)), 1)
	gap := max(p.CfgInt("gap", 5), 1)
	tiny := p.CfgInt("tiny", 0) == 1
	target := int(p.CfgInt("target", 0))
	pruneMax := p.CfgInt("prunemax", 0) == 1
	vco := int64(chain.ViewChangeOffset)

	start := func(k int) int64 {
		h := int64(sim.Hash64(fmt.Sprint(p.Seed), "mbstart", fmt.Sprint(k)) >> 8)
		if tiny && k < 2 {
			return int64(1 + 2*k + int(h%2)) // 1..4: never produced by a view change; report-only
		}
		return vco + 1 + int64(k)*gap + h%gap
	}
	mbHash := func(k int) string { return miHash(p.Seed, "mb", k) }
	hashName := map[string]string{}
	name := func(h string) string {
		if n, ok := hashName[h]; ok {
			return n
		}
		return "?" + short(h)
	}

	isKnown := func(sig string) bool { return sim.IsKnown("C40", "C40/"+sig) != nil }
	viol := func(oracle, sig, detail string) {
		tr.Violate(&sim.Violation{Prop: "C40", Oracle: oracle, Sig: "C40/" + sig, Detail: detail})
	}

	ctx, cancel := context.WithCancel(context.Background())
	insts := make([]*c40inst, nInst)
	for i := range insts {
		c := miChain(&chain.ConfigData{MinGenerators: 1, ThresholdByCount: 66})
		mb := block.NewMagicBlock()
		mb.Miners = node.NewPool(node.NodeTypeMiner)
		mb.Sharders = node.NewPool(node.NodeTypeSharder)
		mb.Hash = miHash(p.Seed, "mb-genesis")
		hashName[mb.Hash] = "G@0"
		c.SetMagicBlock(mb)
		insts[i] = &c40inst{c: c, model: map[int64]string{0: mb.Hash}}
		if worker {
			go c.PruneStorageWorker(ctx, c40Period, func(round.RoundStorage) int { return target }, c.MagicBlockStorage)
		}
	}
	for k := 0; k < nMB; k++ {
		hashName[mbHash(k)] = fmt.Sprintf("%d@%d", k, start(k))
	}
	if worker {
		synctest.Wait()
	}
	defer func() {
		cancel()
		if worker {
			synctest.Wait()
		}
	}()
	arr := newArrivals(tr, nInst)

	// battery of lookups around every starting round any fact may have
	var battery []int64
	{
		seen := map[int64]bool{}
		add := func(q int64) {
			if !seen[q] {
				seen[q] = true
				battery = append(battery, q)
			}
		}
		for q := int64(-1); q <= 9; q++ {
			add(q)
		}
		for k := 0; k < nMB; k++ {
			for _, d := range []int64{-1, 0, 1, vco - 1, vco, vco + 1} {
				add(start(k) + d)
			}
		}
		add(1 << 40)
		sort.Slice(battery, func(i, j int) bool { return battery[i] < battery[j] })
	}

	// real answer of an instance for round q (hash of the magic block, or panic text)
	ask := func(in *c40inst, q int64) (h string, pnc string) {
		pnc = guard(func() { h = in.c.GetMagicBlock(q).Hash })
		return
	}
	tinyStored := func(in *c40inst) bool {
		for s := range in.model {
			if s >= 1 && s <= vco {
				return true
			}
		}
		return false
	}

	// lookup oracle for one round on one instance
	checkGet := func(in *c40inst, i int, q int64, ctxs string) string {
		starts := in.starts()
		ws, ok := c40ref(starts, q)
		if !ok {
			tr.Outcome("get/empty-storage-skipped")
			return ""
		}
		want := in.model[ws]
		got, pnc := ask(in, q)
		suffix := ""
		if in.prunedLatest {
			suffix = "-after-pruning-latest-entry"
		}
		if pnc != "" {
			in.dead = true
			viol("lookup", "get/panic"+suffix, fmt.Sprintf("inst %d %s: GetMagicBlock(%d) panicked (%s); stored starts %v, reference answer %s", i, ctxs, q, pnc, starts, name(want)))
			return "panic"
		}
		if got != want {
			if tinyStored(in) {
				tr.Probe("tiny_start_lookup_differs")
			} else {
				viol("lookup", "get/wrong-magic-block"+suffix, fmt.Sprintf("inst %d %s: GetMagicBlock(%d) = %s, reference %s; stored starts %v", i, ctxs, q, name(got), name(want), starts))
			}
		}
		return got
	}

	// storage-level oracle (no offset): Get / GetLatest / GetRounds / Count / FindRoundIndex
	checkStorage := func(in *c40inst, i int, ctxs string) {
		st := in.c.MagicBlockStorage
		starts := in.starts()
		suffix := ""
		if in.prunedLatest {
			suffix = "-after-pruning-latest-entry"
		}
		if got := st.GetRounds(); fmt.Sprint(got) != fmt.Sprint(starts) {
			viol("storage", "storage/rounds"+suffix, fmt.Sprintf("inst %d %s: GetRounds %v, reference %v", i, ctxs, got, starts))
		}
		if st.Count() != len(starts) {
			viol("storage", "storage/count"+suffix, fmt.Sprintf("inst %d %s: Count %d, reference %d", i, ctxs, st.Count(), len(starts)))
		}
		if len(starts) == 0 {
			return
		}
		if l, _ := st.GetLatest().(*block.MagicBlock); l == nil || l.Hash != in.model[starts[len(starts)-1]] {
			got := "nil"
			if l != nil {
				got = name(l.Hash)
			}
			viol("storage", "storage/latest"+suffix, fmt.Sprintf("inst %d %s: GetLatest %s, reference %s", i, ctxs, got, name(in.model[starts[len(starts)-1]])))
		}
		for _, e := range battery {
			fs, idx := c40floor(starts, e)
			e0, _ := st.Get(e).(*block.MagicBlock)
			switch {
			case idx < 0 && e0 != nil:
				viol("storage", "storage/get"+suffix, fmt.Sprintf("inst %d %s: storage.Get(%d) = %s, reference none; starts %v", i, ctxs, e, name(e0.Hash), starts))
			case idx >= 0 && (e0 == nil || e0.Hash != in.model[fs]):
				got := "nil"
				if e0 != nil {
					got = name(e0.Hash)
				}
				viol("storage", "storage/get"+suffix, fmt.Sprintf("inst %d %s: storage.Get(%d) = %s, reference %s; starts %v", i, ctxs, e, got, name(in.model[fs]), starts))
			}
			if fi := st.FindRoundIndex(e); fi != idx {
				viol("storage", "storage/find-round-index"+suffix, fmt.Sprintf("inst %d %s: FindRoundIndex(%d) = %d, reference %d; starts %v", i, ctxs, e, fi, idx, starts))
			}
		}
	}

	fullCheck := func(in *c40inst, i int, ctxs string) string {
		var sb strings.Builder
		checkStorage(in, i, ctxs)
		for _, q := range battery {
			if in.dead {
				return "dead"
			}
			sb.WriteString(name(checkGet(in, i, q, ctxs)))
			sb.WriteByte(' ')
		}
		return sb.String()
	}
	snapshot := func(in *c40inst) map[int64]string {
		m := map[int64]string{}
		if len(in.model) == 0 {
			return m
		}
		for _, q := range battery {
			h, pnc := ask(in, q)
			if pnc != "" {
				in.dead = true
				return m
			}
			m[q] = h
		}
		return m
	}
	// prune-stability oracle on real answers only: rounds whose in-force key is at or after the pruned point keep their answer
	checkStable := func(in *c40inst, i int, before map[int64]string, ctxs string) {
		starts := in.starts()
		if len(starts) == 0 {
			return
		}
		pp := starts[0]
		for _, q := range battery {
			stable := q >= pp+vco
			if pp == 0 {
				stable = q >= 0
			}
			if !stable {
				continue
			}
			if q == pp+vco || q == pp {
				tr.Probe("lookup_exactly_at_prune_point")
			}
			b, ok := before[q]
			if !ok {
				continue
			}
			if in.dead {
				return
			}
			a, pnc := ask(in, q)
			if pnc != "" {
				in.dead = true
			}
			if pnc != "" || a != b {
				if tinyStored(in) {
					tr.Probe("tiny_start_lookup_differs")
					continue
				}
				viol("prune-stability", "prune/answer-changed-at-or-after-prune-point",
					fmt.Sprintf("inst %d %s: round %d answered %s before pruning and %s%s after; pruned point %d", i, ctxs, q, name(b), name(a), pnc, pp))
			}
		}
	}
	modelPruneTo := func(in *c40inst, keep int) bool {
		starts := in.starts()
		if keep <= 0 || len(starts) <= keep {
			return false
		}
		for _, s := range starts[:len(starts)-keep] {
			delete(in.model, s)
		}
		return true
	}

	for _, st := range p.Steps {
		switch st.Op {
		case "put":
			i := st.A % nInst
			in := insts[i]
			k := int(st.Int(0, 0))
			if k < 0 {
				k = -k
			}
			k %= nMB
			if in.dead {
				tr.Outcome("dead-instance-skipped")
				continue
			}
			dup := arr.arrive(i, k)
			mb := block.NewMagicBlock()
			mb.Miners = node.NewPool(node.NodeTypeMiner)
			mb.Sharders = node.NewPool(node.NodeTypeSharder)
			mb.StartingRound = start(k)
			mb.MagicBlockNumber = int64(k + 1)
			mb.Hash = mbHash(k)
			if s := in.starts(); len(s) > 0 && mb.StartingRound < s[len(s)-1] {
				tr.Probe("put_below_latest")
			}
			if mb.StartingRound <= vco {
				tr.Probe("tiny_start")
			}
			in.c.SetMagicBlock(mb)
			in.model[mb.StartingRound] = mb.Hash
			ans := fullCheck(in, i, fmt.Sprintf("after put #%d@%d", k, mb.StartingRound))
			tr.Event("put i=%d mb=%d@%d dup=%v starts=%v -> %s", i, k, mb.StartingRound, dup, in.starts(), ans)
			tr.Outcome(fmt.Sprintf("put/dup=%v", dup))
			tr.State("s:" + fmt.Sprint(in.starts()))

		case "get":
			kind, k, d := st.Int(0, 0), int(st.Int(1, 0)), st.Int(2, 0)
			if k < 0 {
				k = -k
			}
			k %= nMB
			var q int64
			switch kind {
			case 0:
				q = start(k) + d
				switch d {
				case vco:
					tr.Probe("lookup_at_start_plus_offset")
				case vco - 1:
					tr.Probe("lookup_one_before_start_plus_offset")
				}
			case 1:
				q = d
			case 2:
				q = 1<<50 + d
			default:
				q = -1
			}
			if arr.lagging() {
				tr.Probe("lookup_with_lagging_instance")
			}
			bySet := map[string]string{}
			for i, in := range insts {
				if len(in.model) == 0 || in.dead {
					continue
				}
				starts := in.starts()
				if ws, _ := c40ref(starts, q); ws == starts[len(starts)-1] {
					if _, idx := c40floor(starts, q); idx < 0 {
						tr.Probe("none_starts_earlier_latest_served")
					}
				}
				got := checkGet(in, i, q, "get")
				key := fmt.Sprint(starts)
				if prev, ok := bySet[key]; ok && prev != got && !in.prunedLatest {
					viol("agreement", "get/differs-across-instances", fmt.Sprintf("round %d: inst %d answers %s, another instance with the same stored starts %v answers %s", q, i, name(got), starts, name(prev)))
				} else if !ok {
					bySet[key] = got
				}
				tr.Event("get i=%d q=%d starts=%v -> %s", i, q, starts, name(got))
				tr.Outcome("get/kind" + fmt.Sprint(kind))
			}

		case "prune":
			i := st.A % nInst
			in := insts[i]
			mode, k := st.Int(0, 0), int(st.Int(1, 0))
			if k < 0 {
				k = -k
			}
			k %= nMB
			starts := in.starts()
			if len(starts) == 0 || in.dead {
				continue
			}
			before := snapshot(in)
			var what string
			switch {
			case mode == 1:
				pn := guard(func() {
					in.c.PruneRoundStorage(func(round.RoundStorage) int { return target }, in.c.MagicBlockStorage)
				})
				if pn != "" {
					viol("prune", "prune/panic", fmt.Sprintf("inst %d PruneRoundStorage(target %d) panicked: %s", i, target, pn))
				}
				if modelPruneTo(in, target) {
					tr.Probe("prune_round_storage_pruned")
					tr.Outcome("prune/round-storage/pruned")
				} else {
					tr.Outcome("prune/round-storage/nothing")
				}
				what = fmt.Sprintf("PruneRoundStorage(target=%d)", target)
			case mode == 2 && pruneMax:
				r := starts[len(starts)-1]
				err := in.c.MagicBlockStorage.Prune(r)
				if err != nil {
					viol("prune", "prune/error-on-stored-round", fmt.Sprintf("inst %d Prune(%d): %v", i, r, err))
				}
				in.model = map[int64]string{}
				in.prunedLatest = true
				tr.Probe("pruned_latest_entry")
				tr.Outcome("prune/latest")
				what = fmt.Sprintf("Prune(latest %d)", r)
			default:
				r := start(k)
				_, stored := in.model[r]
				if stored && r == starts[len(starts)-1] {
					// not "older": pruning the latest entry is explored only under cfg prunemax (mode 2)
					tr.Outcome("prune/skip-latest")
					continue
				}
				err := in.c.MagicBlockStorage.Prune(r)
				if stored {
					if err != nil {
						viol("prune", "prune/error-on-stored-round", fmt.Sprintf("inst %d Prune(%d): %v", i, r, err))
					}
					for _, s := range starts {
						if s <= r {
							delete(in.model, s)
						}
					}
					tr.Probe("prune_direct_hit")
					tr.Outcome("prune/direct/hit")
				} else {
					if err == nil {
						viol("prune", "prune/accepted-unknown-round", fmt.Sprintf("inst %d Prune(%d) of a round that is not stored returned nil", i, r))
					}
					tr.Probe("prune_direct_miss")
					tr.Outcome("prune/direct/miss")
				}
				what = fmt.Sprintf("Prune(%d) stored=%v", r, stored)
			}
			checkStable(in, i, before, "after "+what)
			ans := fullCheck(in, i, "after "+what)
			tr.Event("prune i=%d %s starts=%v -> %s", i, what, in.starts(), ans)
			tr.State("s:" + fmt.Sprint(in.starts()))

		case "tick":
			secs := st.Int(0, 1)
			if secs < 1 {
				secs = 1
			}
			tr.SimTime += float64(secs)
			if !worker {
				tr.Outcome("tick/no-worker")
				continue
			}
			befores := make([]map[int64]string, nInst)
			for i, in := range insts {
				if !in.dead {
					befores[i] = snapshot(in)
				}
			}
			t0 := time.Now()
			time.Sleep(time.Duration(secs) * time.Second)
			synctest.Wait()
			fired := time.Now().Sub(t0) > 0 && (time.Now().UnixNano()/int64(c40Period) != t0.UnixNano()/int64(c40Period))
			for i, in := range insts {
				if in.dead {
					continue
				}
				if fired && target != 0 && modelPruneTo(in, target) {
					tr.Probe("prune_worker_pruned")
				}
				checkStable(in, i, befores[i], "after worker tick")
				ans := fullCheck(in, i, "after worker tick")
				tr.Event("tick i=%d +%ds fired=%v starts=%v -> %s", i, secs, fired, in.starts(), ans)
			}
			tr.Outcome(fmt.Sprintf("tick/fired=%v", fired))
		}
	}
	_ = isKnown
}
