package consensus

import (
	"fmt"
	"sort"
	"strings"

	"0chain.net/chaincore/block"
	"0chain.net/chaincore/chain"
	"0chain.net/chaincore/node"
	"0chain.net/chaincore/round"

	"verif/sim"
)

func init() {
	sim.Register(&sim.Check{
		ID: "C35", Title: "Generator ranking and per-round notarized blocks are consistent", World: "consensus",
		Gen: genC35, Exec: execC35,
		Quick:    sim.Budget{Runs: 1200, WallS: 25},
		Thorough: sim.Budget{Runs: 400000, WallS: 600},
		LevelText: "seeded search: 2-5 independent real chain.Chain/node.Pool/round.Round instances learn one seeded miner set over a simulated network " +
			"(per-instance permutation, verbatim duplicates, queries racing with late deliveries) and compute ranks for seeded round seeds; " +
			"seeded histories of AddNotarizedBlock/UpdateNotarizedBlock per instance against a statement-level model; a clean batch is evidence, not proof",
		LevelNote: "order-essential for the rank half (Pool.computeNodePositions is the only order-sensitive step); the notarized-block half is a sequential-history property. " +
			"Weight is the shipped block.Weight() (2^-RoundRank): there is no ChainWeight field in this tree. Which of two same-rank blocks survives is not fixed by the statement and is not asserted. " +
			"Ranks are compared between instances only when they hold the same miner set (a lagging instance is counted as a fired delay, not as a disagreement)",
		Technique: "deterministic simulation: multi-instance differential execution under seeded delivery orders + reference model of the round's notarized-block list",
		DesignRef: "6/C35", Regime: "single-threaded event loop",
		Components: sim.Components{
			Real: []string{"chaincore/node (Pool.AddNode, computeNodePositions)", "chaincore/round (Round.SetRandomSeed, SetRandomSeedForNotarizedBlock, GetMinerRank, GetMinersByRank, AddNotarizedBlock, UpdateNotarizedBlock, GetNotarizedBlocks)",
				"chaincore/chain (Chain.SetRandomSeed, AddNotarizedBlockToRound, SetRoundRank, IsRoundGenerator, GetGenerators, GetGeneratorsNumOfRound, magic-block lookup)", "chaincore/block (Block.Weight)"},
			Sim:  []string{"miner identities with seeded keys", "simulated broadcast network (reorder, duplicate, delay)", "notarized-block facts with seeded ranks", "reference model"},
			Stub: []string{"datastore.Store (never touched)"},
		},
		Assumptions: []string{
			"block weight is what block.Weight() returns; 'heaviest first' = non-increasing Weight() along GetNotarizedBlocks()",
			"'keeps at most one per rank' is read together with 'no rank that was notarized disappears': the set of ranks present equals the set of ranks ever added",
			"every instance owns its node.Node objects (Pool writes SetIndex into them); the process-global node registry is written by AddNode but never read here",
		},
	})
}

// ---- plan ----------------------------------------------------------------------------------------
//
// cfg: inst, miners, scheme, mingen, genpct, nbranks, nbwild, hround
// steps:
//   add     A=inst I=[miner]            a miner fact arrives at an instance (Pool.AddNode of a fresh node object)
//   rank    I=[round, seed, how]        every instance computes the rank vector for (round, seed) — how: 0 Round.SetRandomSeed,
//                                       1 Chain.SetRandomSeed, 2 Chain.AddNotarizedBlockToRound (seed carried by a notarized block)
//   nb_add  A=inst I=[blk, fresh]       Round.AddNotarizedBlock of block fact #blk (fresh=1: a new object with the same hash)
//   nb_upd  A=inst I=[blk]              Round.UpdateNotarizedBlock with a new object carrying the hash of block fact #blk

func genC35(seed uint64, tier string) *sim.Plan {
	root := sim.NewRNG(seed)
	r, net, sw := root.Child("plan"), root.Child("net"), root.Child("swarm")
	maxM := 12
	if tier == "thorough" {
		maxM = 40
	}
	nInst := sw.Range(2, 5)
	nM := []int{1, 2, 3, 4, 5, 7, sw.Range(2, maxM), sw.Range(2, maxM)}[sw.Intn(8)]
	p := &sim.Plan{Cfg: map[string]int64{
		"inst": int64(nInst), "miners": int64(nM), "scheme": int64(sw.Intn(2)),
		"mingen": int64(sw.Range(1, 4)), "genpct": int64([]int{0, 20, 50, 100}[sw.Intn(4)]),
		"nbranks": int64(sw.Range(1, 6)), "nbwild": int64(sw.Pick([]int{3, 1})), "hround": int64(sw.Range(1, 1000)),
	}}
	// (a) miner facts over the network, rank queries racing with them
	seqs := miSchedule(net, nInst, nM, sw.Bool(0.85), []float64{0, 0.15, 0.4}[sw.Intn(3)])
	var seeds []int64
	pickSeed := func() int64 {
		var s int64
		switch r.Pick([]int{1, 2, 2, 6, 3}) {
		case 0:
			s = 0
		case 1:
			s = int64(r.Range(1, 5))
		case 2:
			s = -int64(r.Range(1, 1<<30))
		case 3:
			s = int64(r.Uint64() >> 1)
		default:
			if len(seeds) > 0 {
				s = seeds[r.Intn(len(seeds))]
			} else {
				s = int64(r.Uint64() >> 1)
			}
		}
		seeds = append(seeds, s)
		return s
	}
	rankStep := func() sim.Step {
		return sim.Step{Op: "rank", I: []int64{int64(r.Range(1, 2000)), pickSeed(), int64(r.Pick([]int{3, 3, 2}))}}
	}
	pMid := []float64{0, 0.1, 0.3}[sw.Intn(3)]
	for _, a := range miInterleave(net, seqs) {
		p.Steps = append(p.Steps, sim.Step{Op: "add", A: a[0], I: []int64{int64(a[1])}})
		if r.Bool(pMid) {
			p.Steps = append(p.Steps, rankStep())
		}
	}
	for k := r.Range(2, 6); k > 0; k-- {
		p.Steps = append(p.Steps, rankStep())
	}
	// (b) notarized-block histories
	nB := r.Range(2, 10)
	bseqs := miSchedule(net, nInst, nB, true, []float64{0.1, 0.3, 0.5}[sw.Intn(3)])
	pUpd := []float64{0.15, 0.35}[sw.Intn(2)]
	for _, a := range miInterleave(net, bseqs) {
		p.Steps = append(p.Steps, sim.Step{Op: "nb_add", A: a[0], I: []int64{int64(a[1]), int64(r.Intn(2))}})
		if r.Bool(pUpd) {
			p.Steps = append(p.Steps, sim.Step{Op: "nb_upd", A: r.Intn(nInst), I: []int64{int64(r.Intn(nB))}})
		}
	}
	return p
}

// ---- execution -----------------------------------------------------------------------------------

type c35inst struct {
	c     *chain.Chain
	pool  *node.Pool
	hr    *round.Round            // the round whose notarized-block history is driven
	added map[string]int          // model: hash -> rank of every block ever added
	objs  map[string]*block.Block // last object handed to the round per hash (for fresh=0 re-delivery)
}

func execC35(env *sim.Env, p *sim.Plan) *sim.Result {
	miWorld()
	tr := sim.NewTrace()
	tr.Keep = env.KeepLog
	root := sim.NewRNG(p.Seed)
	nInst := int(p.CfgInt("inst", 2))
	nM := int(p.CfgInt("miners", 3))
	if nInst < 1 {
		nInst = 1
	}
	if nM < 1 {
		nM = 1
	}
	scheme := miSchemes[int(p.CfgInt("scheme", 0))%2]
	ids := miIdents(root.Child("keys"), "m", nM, scheme)
	nbRanks := int(p.CfgInt("nbranks", 3))
	if nbRanks < 1 {
		nbRanks = 1
	}
	wild := p.CfgInt("nbwild", 0) == 1
	hround := p.CfgInt("hround", 7)

	viol := func(oracle, sig, detail string) bool {
		tr.Violate(&sim.Violation{Prop: "C35", Oracle: oracle, Sig: "C35/" + sig, Detail: detail})
		return sim.IsKnown("C35", "C35/"+sig) != nil
	}

	insts := make([]*c35inst, nInst)
	for i := range insts {
		c := miChain(&chain.ConfigData{MinGenerators: int(p.CfgInt("mingen", 1)), GeneratorsPercent: float64(p.CfgInt("genpct", 0)) / 100, ThresholdByCount: 66})
		mb := block.NewMagicBlock()
		mb.Miners = node.NewPool(node.NodeTypeMiner)
		mb.Sharders = node.NewPool(node.NodeTypeSharder)
		c.SetMagicBlock(mb)
		insts[i] = &c35inst{c: c, pool: mb.Miners, hr: round.NewRound(hround), added: map[string]int{}, objs: map[string]*block.Block{}}
	}
	arr := newArrivals(tr, nInst)
	nbArr := newArrivals(tr, nInst)
	bySeedSet := map[string]string{} // (seed, miner set) -> rank vector, across instances, rounds and seeding paths
	seedRound := map[int64]int64{}
	nq := 0

	// rank of block fact #blk in the history half: a function of (seed, blk) only
	blkRank := func(blk int) int {
		h := sim.Hash64(fmt.Sprint(p.Seed), "nbrank", fmt.Sprint(blk))
		if wild {
			switch h % 11 {
			case 0:
				return -1 // what GetMinerRank yields for an unknown set index
			case 1:
				return 1075 + int((h>>8)%3) // Weight() underflows to 0: equal weights, different ranks
			}
		}
		return int((h >> 16) % uint64(nbRanks))
	}
	newBlk := func(blk int) *block.Block {
		b := block.NewBlock("", hround)
		b.Hash = miHash(p.Seed, "nb", blk)
		b.RoundRank = blkRank(blk)
		b.MinerID = miHash(p.Seed, "nbminer", blk)
		return b
	}

	checkNB := func(in *c35inst, i int, what string) {
		list := in.hr.GetNotarizedBlocks()
		var sb strings.Builder
		seen := map[int]string{}
		for k, b := range list {
			fmt.Fprintf(&sb, "%s:%d ", short(b.Hash), b.RoundRank)
			rk, ok := in.added[b.Hash]
			if !ok {
				viol("nb-model", "nb/unknown-block-listed", fmt.Sprintf("inst %d lists block %s that was never added", i, short(b.Hash)))
				continue
			}
			if rk != b.RoundRank {
				viol("nb-model", "nb/rank-changed", fmt.Sprintf("inst %d block %s rank %d, added with %d", i, short(b.Hash), b.RoundRank, rk))
			}
			if o, dup := seen[b.RoundRank]; dup {
				viol("nb-one-per-rank", "nb/two-blocks-one-rank", fmt.Sprintf("inst %d after %s: rank %d held by %s and %s", i, what, b.RoundRank, short(o), short(b.Hash)))
			}
			seen[b.RoundRank] = b.Hash
			if k > 0 {
				pw, w := list[k-1].Weight(), b.Weight()
				if pw < w {
					viol("nb-order", "nb/not-heaviest-first", fmt.Sprintf("inst %d after %s: weight %g at %d before %g at %d", i, what, pw, k-1, w, k))
				}
				if pw == w && list[k-1].RoundRank != b.RoundRank {
					tr.Probe("weight_tie_distinct_ranks")
				}
			}
		}
		// no rank that was notarized disappears
		want := map[int]bool{}
		for _, rk := range in.added {
			want[rk] = true
		}
		for rk := range want {
			if _, ok := seen[rk]; !ok {
				viol("nb-model", "nb/rank-lost", fmt.Sprintf("inst %d after %s: no block of rank %d left", i, what, rk))
			}
		}
		if hb := in.hr.GetHeaviestNotarizedBlock(); len(list) > 0 && (hb == nil || hb.Weight() != list[0].Weight()) {
			viol("nb-order", "nb/heaviest-not-first", fmt.Sprintf("inst %d GetHeaviestNotarizedBlock disagrees with list head", i))
		}
		tr.Event("nb i=%d %s -> [%s]", i, what, strings.TrimSpace(sb.String()))
		tr.State("nb:" + sb.String())
	}

	for _, st := range p.Steps {
		switch st.Op {
		case "add":
			i := st.A % nInst
			k := int(st.Int(0, 0)) % nM
			if k < 0 {
				k = -k
			}
			in := insts[i]
			dup := arr.arrive(i, k)
			if err := in.pool.AddNode(ids[k].newNode(node.NodeTypeMiner, false)); err != nil {
				viol("add-node", "add/error", err.Error())
				continue
			}
			tr.Event("add i=%d m=%d dup=%v size=%d", i, k, dup, in.pool.Size())
			tr.Outcome(fmt.Sprintf("add/dup=%v", dup))

		case "rank":
			rn, seed, how := st.Int(0, 1), st.Int(1, 1), int(st.Int(2, 0))%3
			if rn < 1 {
				rn = 1
			}
			if arr.lagging() {
				tr.Probe("query_with_lagging_instance")
			}
			if seed == 0 {
				tr.Probe("seed_zero")
			} else if seed < 0 {
				tr.Probe("seed_negative")
			}
			if prn, ok := seedRound[seed]; ok && prn != rn {
				tr.Probe("same_seed_other_round")
			}
			seedRound[seed] = rn
			for i, in := range insts {
				n := in.pool.Size()
				if n == 0 {
					tr.Outcome("rank/empty-pool")
					continue
				}
				if n == 1 {
					tr.Probe("single_miner")
				}
				have := make([]int, 0, n)
				for k := range arr.have[i] {
					have = append(have, k)
				}
				sort.Ints(have)
				r := round.NewRound(rn)
				var nbk *block.Block
				var nbMiner int
				switch how {
				case 0:
					r.SetRandomSeed(seed, n)
				case 1:
					if ok := in.c.SetRandomSeed(r, seed); !ok {
						// the chain refuses seed 0; nothing to compare
						tr.Outcome("rank/seed-refused")
						tr.Event("rank i=%d rn=%d seed=%d how=1 refused", i, rn, seed)
						continue
					}
				default:
					nbMiner = have[int(uint64(seed)%uint64(len(have)))]
					nbk = block.NewBlock("", rn)
					nq++
					nbk.Hash = miHash(p.Seed, "rk", rn, seed, nq)
					nbk.MinerID = ids[nbMiner].id
					nbk.SetRoundRandomSeed(seed)
					if seed == 0 {
						// a round and a block both at seed 0: AddNotarizedBlockToRound sees no difference and does not compute ranks
						r.SetRandomSeed(seed, n)
					}
					nbk, _ = in.c.AddNotarizedBlockToRound(r, nbk)
				}
				if !r.IsRanksComputed() {
					viol("rank", "rank/not-computed", fmt.Sprintf("inst %d how=%d seed=%d: ranks not computed", i, how, seed))
					continue
				}
				vec := make([]int, len(have))
				cnt := make([]int, n)
				perm := true
				var gens []string
				for x, k := range have {
					nd := in.pool.GetNode(ids[k].id)
					if nd == nil {
						viol("pool", "pool/node-missing", fmt.Sprintf("inst %d lost miner %d", i, k))
						perm = false
						continue
					}
					vec[x] = r.GetMinerRank(nd)
					if vec[x] < 0 || vec[x] >= n {
						perm = false
					} else {
						cnt[vec[x]]++
					}
					if in.c.IsRoundGenerator(r, nd) {
						gens = append(gens, fmt.Sprint(k))
					}
				}
				for _, c := range cnt {
					if c != 1 {
						perm = false
					}
				}
				if len(have) != n {
					perm = false
				}
				if !perm {
					viol("rank-permutation", "rank/not-a-permutation", fmt.Sprintf("inst %d seed=%d n=%d ranks=%v", i, seed, n, vec))
				}
				if nbk != nil {
					want := -2
					for x, k := range have {
						if k == nbMiner {
							want = vec[x]
						}
					}
					if nbk.RoundRank != want {
						viol("rank", "rank/block-rank-differs-from-miner-rank", fmt.Sprintf("inst %d block rank %d, generator's rank %d", i, nbk.RoundRank, want))
					}
				}
				// GetGenerators: the chain's own ordering of the same pool; must agree across instances
				var gl []string
				idxOf := map[string]int{}
				for _, k := range have {
					idxOf[ids[k].id] = k
				}
				for _, g := range in.c.GetGenerators(r) {
					gl = append(gl, fmt.Sprint(idxOf[g.ID]))
				}
				if len(gl) > 0 && len(gens) > 0 && len(gens) < n {
					a, b := append([]string(nil), gl...), append([]string(nil), gens...)
					sort.Strings(a)
					sort.Strings(b)
					if strings.Join(a, ",") != strings.Join(b, ",") {
						// report-only: GetGenerators sorts by descending rank, IsRoundGenerator takes the lowest ranks
						tr.Probe("getgenerators_differs_from_isroundgenerator")
					}
				}
				val := fmt.Sprintf("%v|gen=%s|gl=%s", vec, strings.Join(gens, ","), strings.Join(gl, ","))
				key := fmt.Sprintf("%d|%s", seed, arr.setKey(i))
				if prev, ok := bySeedSet[key]; ok {
					if prev != val {
						viol("rank-agreement", "rank/differs-for-same-seed-and-miner-set",
							fmt.Sprintf("inst %d round %d seed %d how=%d miners{%s}: %s, another computation of the same (seed,set) gave %s", i, rn, seed, how, arr.setKey(i), val, prev))
					}
				} else {
					bySeedSet[key] = val
				}
				tr.Event("rank i=%d rn=%d seed=%d how=%d set={%s} -> %s", i, rn, seed, how, arr.setKey(i), val)
				tr.Outcome(fmt.Sprintf("rank/how%d", how))
				tr.State(fmt.Sprintf("r:%d:%v", n, vec))
			}

		case "nb_add":
			i := st.A % nInst
			in := insts[i]
			blk := int(st.Int(0, 0))
			if blk < 0 {
				blk = -blk
			}
			fresh := st.Int(1, 1) == 1
			dup := nbArr.arrive(i, blk)
			b := in.objs[miHash(p.Seed, "nb", blk)]
			if b == nil || fresh {
				b = newBlk(blk)
			}
			if dup && fresh {
				tr.Probe("same_hash_new_object")
			}
			if _, known := in.added[b.Hash]; !known {
				for h, rk := range in.added {
					if rk == b.RoundRank && h != b.Hash {
						tr.Probe("rank_tie_replaces_block")
						break
					}
				}
			}
			in.added[b.Hash] = b.RoundRank
			if in.objs[b.Hash] == nil {
				in.objs[b.Hash] = b
			}
			in.hr.AddNotarizedBlock(b)
			tr.Outcome(fmt.Sprintf("nb_add/dup=%v", dup))
			checkNB(in, i, fmt.Sprintf("add blk=%d rank=%d dup=%v", blk, b.RoundRank, dup))

		case "nb_upd":
			i := st.A % nInst
			in := insts[i]
			blk := int(st.Int(0, 0))
			if blk < 0 {
				blk = -blk
			}
			b := newBlk(blk) // the "given" block: a distinct object with the same hash (e.g. the copy with computed state)
			stored := false
			for _, x := range in.hr.GetNotarizedBlocks() {
				if x.Hash == b.Hash {
					stored = true
				}
			}
			in.hr.UpdateNotarizedBlock(b)
			if stored {
				tr.Probe("update_hits_stored_block")
				ok := false
				for _, x := range in.hr.GetNotarizedBlocks() {
					if x.Hash == b.Hash && x == b {
						ok = true
					}
				}
				if !ok {
					viol("nb-update", "nb/update-does-not-install-given-block",
						fmt.Sprintf("inst %d: after UpdateNotarizedBlock(b) the round still holds the previous object for %s", i, short(b.Hash)))
				}
				tr.Outcome(fmt.Sprintf("nb_upd/installed=%v", ok))
			} else {
				tr.Probe("update_of_absent_block")
				tr.Outcome("nb_upd/absent")
			}
			checkNB(in, i, fmt.Sprintf("upd blk=%d stored=%v", blk, stored))
		}
	}
	miDumpTrace(tr)
	return tr.Result(p.Seed)
}
