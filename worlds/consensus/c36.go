package consensus

import (
	"context"
	"fmt"
	"sort"
	"strings"
	"testing"
	"testing/synctest"
	"time"

	"0chain.net/chaincore/block"
	"0chain.net/chaincore/chain"
	"0chain.net/chaincore/node"
	"0chain.net/chaincore/round"
	"0chain.net/core/datastore"
	"github.com/linxGnu/grocksdb"

	"verif/sim"
)

func init() {
	sim.Register(&sim.Check{
		HangIsViolation: true, HangS: 90,
		ID: "C36", Title: "Finalization picks the common ancestor and extends a single chain", World: "consensus",
		Gen: genC36, Exec: execC36,
		Quick:    sim.Budget{Runs: 480, WallS: 25},
		Thorough: sim.Budget{Runs: 150000, WallS: 720},
		LevelText: "seeded search: seeded block trees (forks of any depth up to the tree height, sibling blocks, branches that die out) are delivered to 1-3 independent real chain.Chain instances " +
			"in seeded bounded-disorder orders (children before parents, duplicates, dropped blocks, blocks that arrive un-notarized, rounds whose object never appears); the shipped ComputeFinalizedBlock is called for seeded (lfb round, round) " +
			"pairs and compared with the deepest common ancestor computed on the simulator's own tree; the shipped finalizeRound -> FinalizedBlockWorker -> finalizeBlock path is driven through FinalizeRoundImpl with its real worker goroutines " +
			"on a synctest bubble clock and the sequence of latest finalized blocks is checked for descent; a clean batch is evidence, not proof",
		LevelNote: "order- and history-essential. A nil answer of ComputeFinalizedBlock ('not decidable yet') is accepted whenever the instance lacks a block or a round object the walk needs, and demanded non-nil only with complete local information; " +
			"every delivered block carries a computed (empty) state so that the shipped GetPreviousBlock can link it locally; block fetching from peers is not available (no fetch worker: the request times out on the bubble clock). " +
			"Most rounds hold blocks of distinct generators (the round keeps all of them); a share of rounds (cfg ptwin) holds two blocks of the SAME RoundRank with different hashes - equivocation, or a round restarted after a timeout whose new seed gives that rank to another miner - with both branches extended and notarized in the next round; there the round keeps one of the pair (C35), so the reference takes the round's own notarized list as the input set. The finalize path runs with a sim-provided BlockStateHandler/ViewChanger on a miner-type node.Self; " +
			"state is the real MPT over a per-instance PNodeDB on the simulated disk, with no transactions",
		Technique: "deterministic simulation: seeded delivery orders of seeded block trees into real chain instances; reference deepest-common-ancestor on the simulator's tree; real finalize workers on fake time",
		DesignRef: "6/C36", Regime: "single-threaded event loop inside a synctest bubble (one instance's worker goroutines run to quiescence per step)",
		Components: sim.Components{
			Real: []string{"chaincore/chain (ComputeFinalizedBlock, GetPreviousBlock, AddNotarizedBlockToRound, AddRoundBlock, addBlock, FinalizeRoundImpl, FinalizeRoundWorker, finalizeRound, FinalizedBlockWorker, finalizeBlockProcess, finalizeBlock, commonAncestor, SetLatestFinalizedBlock, SaveChanges)",
				"chaincore/round (Round notarized-block list, finalizing state)", "chaincore/block (state status, SaveChanges)", "0chain/common MPT + PNodeDB on the simulated disk"},
			Sim:  []string{"block tree", "simulated network (bounded disorder, duplicate, drop, un-notarized arrival)", "BlockStateHandler and ViewChanger (record only)", "bubble clock", "reference ancestor computation"},
			Stub: []string{"datastore.Store (never touched)", "block fetching from peers (times out)", "event DB (absent)"},
		},
		Assumptions: []string{
			"a block's parent lies exactly one round earlier (the trees are built that way; the lockstep walk of the shipped code relies on it)",
			"blocks of one round carry the same round random seed and distinct generators, except the deliberate same-rank pairs (equivocation / round restart with timeout count 1)",
			"the set of notarized blocks of a round is read from the round object itself (what it keeps is C35's subject); everything derived from it is computed on the simulator's tree",
			"'latest round that has any' is searched in (lfb round, given round], as the caller of ComputeFinalizedBlock does",
		},
	})
}

// ---- the simulator's own tree ----------------------------------------------------------------------

type c36blk struct {
	round  int64
	parent int
	miner  int
	hash   string
	// twin >= 0: this block competes with block #twin of the same round for the same RoundRank with another
	// hash. restart = false: equivocation (same generator, same round seed). restart = true: the round was
	// restarted after a timeout (timeout count 1, another round seed) and the generator is the miner that
	// holds under the new seed the rank the twin's generator held under the old one (resolved at execution
	// time from the real rank computation; falls back to equivocation when no such miner exists).
	twin    int
	restart bool
}

type c36tree struct {
	b      []c36blk // b[0] = genesis
	rounds int64
	seed   uint64
	// collide[r]: round r holds two blocks that may get the same RoundRank (a twin pair, or more blocks than
	// miners); the round then keeps only one of them (C35) and which one depends on the arrival order
	collide map[int64]bool
}

// rrsT is the round random seed of round r after toc timeouts (toc 0 = rrs).
func (t *c36tree) rrsT(r int64, toc int) int64 {
	if toc == 0 {
		return t.rrs(r)
	}
	return int64(sim.Hash64(fmt.Sprint(t.seed), "rrs", fmt.Sprint(r), fmt.Sprint(toc))>>2) + 1
}

func (t *c36tree) rrs(r int64) int64 {
	return int64(sim.Hash64(fmt.Sprint(t.seed), "rrs", fmt.Sprint(r))>>2) + 1
}

// c36build derives the tree from (seed, cfg) only; generator and executor call it alike.
func c36build(seed uint64, cfg map[string]int64) *c36tree {
	r := sim.NewRNG(seed).Child("plan").Child("tree")
	get := func(k string, d int64) int64 {
		if v, ok := cfg[k]; ok {
			return v
		}
		return d
	}
	rounds, width, miners := get("rounds", 6), int(get("width", 2)), int(get("miners", 3))
	pFork, pLong := float64(get("pfork", 30))/100, float64(get("plong", 20))/100
	pTwin := float64(get("ptwin", 0)) / 100
	if width > miners {
		width = miners
	}
	if width < 1 {
		width = 1
	}
	t := &c36tree{rounds: rounds, seed: seed}
	t.b = append(t.b, c36blk{round: 0, parent: -1, miner: 0, hash: miHash(seed, "blk", 0), twin: -1})
	cur := []int{0}
	extendAll := false
	for rn := int64(1); rn <= rounds; rn++ {
		var parents []int
		if extendAll {
			// the round after a same-rank pair: both branches are extended (and notarized)
			parents = append(parents, cur...)
			if w := max(width, 2); len(parents) > w {
				parents = parents[:w]
			}
		} else if len(cur) > 1 && r.Bool(pLong) {
			// every live branch is extended: forks get deeper
			parents = append(parents, cur...)
		} else {
			parents = append(parents, cur[r.Intn(len(cur))])
		}
		for len(parents) < width && r.Bool(pFork) {
			parents = append(parents, cur[r.Intn(len(cur))]) // a sibling or another branch
		}
		if len(parents) > width && !extendAll {
			parents = parents[:width]
		}
		extendAll = false
		mperm := r.Perm(max(miners, len(parents)))
		var next []int
		for j, pa := range parents {
			idx := len(t.b)
			t.b = append(t.b, c36blk{round: rn, parent: pa, miner: mperm[j] % miners, hash: miHash(seed, "blk", idx), twin: -1})
			next = append(next, idx)
		}
		if pTwin > 0 && rn < rounds && r.Bool(pTwin) {
			// a second block with the rank of next[0]: the twin pair goes first so that the next round extends both
			a := next[0]
			idx := len(t.b)
			t.b = append(t.b, c36blk{round: rn, parent: cur[r.Intn(len(cur))], miner: t.b[a].miner, hash: miHash(seed, "blk", idx), twin: a, restart: r.Bool(0.6)})
			next = append([]int{a, idx}, next[1:]...)
			extendAll = true
		}
		cur = next
	}
	t.collide = map[int64]bool{}
	seen := map[string]bool{}
	for _, b := range t.b[1:] {
		k := fmt.Sprint(b.round, "/", b.miner)
		if seen[k] || b.twin >= 0 {
			t.collide[b.round] = true
		}
		seen[k] = true
	}
	return t
}

func (t *c36tree) name(i int) string {
	if i < 0 {
		return "nil"
	}
	return fmt.Sprintf("b%d@%d", i, t.b[i].round)
}

// anc reports whether a is a proper ancestor of b.
func (t *c36tree) anc(a, b int) bool {
	for x := t.b[b].parent; x >= 0; x = t.b[x].parent {
		if x == a {
			return true
		}
	}
	return false
}

// dca is the deepest block that is a proper ancestor of every block of s (-1: none).
func (t *c36tree) dca(s []int) int {
	if len(s) == 0 {
		return -1
	}
	common := map[int]bool{}
	for x := t.b[s[0]].parent; x >= 0; x = t.b[x].parent {
		common[x] = true
	}
	for _, b := range s[1:] {
		mine := map[int]bool{}
		for x := t.b[b].parent; x >= 0; x = t.b[x].parent {
			if common[x] {
				mine[x] = true
			}
		}
		common = mine
	}
	best := -1
	for x := range common {
		if best < 0 || t.b[x].round > t.b[best].round {
			best = x
		}
	}
	return best
}

// ---- plan ----------------------------------------------------------------------------------------
//
// cfg: inst, rounds, width, miners, pfork, plong, ptwin (share of rounds with two blocks of one rank), scheme
// steps:
//   nb   A=inst I=[blk]          block #blk arrives notarized (Chain.AddNotarizedBlockToRound; the round object is created when absent)
//   blk  A=inst I=[blk]          block #blk arrives as a plain round block (Chain.AddRoundBlock): known, not notarized
//   cfb  A=inst I=[round, lsel]  ComputeFinalizedBlock(lfbr, round): lsel 0 = the instance's LFB round, 1 = 0, n>=2 = round-n
//   fin  A=inst I=[round]        FinalizeRoundImpl(round) and the real workers run to quiescence

func genC36(seed uint64, tier string) *sim.Plan {
	root := sim.NewRNG(seed)
	r, net, sw := root.Child("plan"), root.Child("net"), root.Child("swarm")
	maxR := 12
	if tier == "thorough" {
		maxR = 24
	}
	width := sw.Pick([]int{0, 3, 4, 2})
	p := &sim.Plan{Cfg: map[string]int64{
		"inst": int64(sw.Range(1, 3)), "rounds": int64(sw.Range(3, maxR)), "width": int64(width), "miners": int64(width + sw.Range(0, 2)),
		"pfork": int64([]int{0, 15, 35, 60}[sw.Intn(4)]), "plong": int64([]int{0, 20, 50, 90}[sw.Intn(4)]), "scheme": int64(sw.Intn(2)),
		"ptwin": int64([]int{0, 0, 10, 30}[sw.Intn(4)]),
	}}
	t := c36build(seed, p.Cfg)
	nInst := int(p.Cfg["inst"])
	nB := len(t.b) - 1
	jitter := []int{0, 1, 3, 8}[sw.Intn(4)]
	seqs := miScheduleJitter(net, nInst, nB, jitter, []float64{0, 0.1, 0.3}[sw.Intn(3)], []float64{0, 0, 0.05, 0.15}[sw.Intn(4)])
	pPlain := []float64{0, 0.05, 0.2}[sw.Intn(3)]
	pFin := []float64{0.3, 0.7, 1}[sw.Intn(3)]
	pCfb := []float64{0.2, 0.5}[sw.Intn(2)]
	cfb := func(i int, rn int64) sim.Step {
		return sim.Step{Op: "cfb", A: i, I: []int64{rn, int64(r.Pick([]int{5, 2, 1, 1, 1}))}}
	}
	for _, a := range miInterleave(net, seqs) {
		blk := a[1] + 1
		op := "nb"
		if r.Bool(pPlain) {
			op = "blk"
		}
		p.Steps = append(p.Steps, sim.Step{Op: op, A: a[0], I: []int64{int64(blk)}})
		rn := t.b[blk].round
		if r.Bool(pCfb) {
			p.Steps = append(p.Steps, cfb(a[0], rn-int64(r.Pick([]int{4, 2, 1}))))
		}
		if r.Bool(pFin) {
			p.Steps = append(p.Steps, sim.Step{Op: "fin", A: a[0], I: []int64{rn - int64(r.Pick([]int{5, 1}))}})
		}
	}
	for i := 0; i < nInst; i++ {
		for d := int64(2); d >= 0; d-- {
			p.Steps = append(p.Steps, cfb(i, t.rounds-d), sim.Step{Op: "fin", A: i, I: []int64{t.rounds - d}})
		}
	}
	return p
}

// ---- execution -----------------------------------------------------------------------------------

type c36vc struct{}

func (c36vc) ViewChange(context.Context, *block.Block) error { return nil }

type c36bsh struct{ seq []string }

func (*c36bsh) SaveMagicBlock() chain.MagicBlockSaveFunc { return nil }
func (*c36bsh) UpdatePendingBlock(context.Context, *block.Block, []datastore.Entity) {
}
func (h *c36bsh) UpdateFinalizedBlock(_ context.Context, b *block.Block) error {
	h.seq = append(h.seq, b.Hash)
	return nil
}

type c36inst struct {
	c        *chain.Chain
	bsh      *c36bsh
	known    map[int]bool           // delivered in any form
	notar    map[int64]map[int]bool // delivered notarized, per round
	roundObj map[int64]bool
	seqSeen  int  // finalized sequence already checked
	rolled   bool // the shipped rollback branch has moved this instance's LFB backwards before
	lastFin  int  // last block handed to UpdateFinalizedBlock (sim index)
}

func execC36(env *sim.Env, p *sim.Plan) *sim.Result {
	miWorld()
	tr := sim.NewTrace()
	tr.Keep = env.KeepLog
	if env.T == nil {
		panic("C36 needs the worker's testing.T (synctest bubble)")
	}
	synctest.Test(env.T, func(*testing.T) { runC36(tr, p) })
	miDumpTrace(tr)
	return tr.Result(p.Seed)
}

func runC36(tr *sim.Trace, p *sim.Plan) {
	t := c36build(p.Seed, p.Cfg)
	nInst := max(int(p.CfgInt("inst", 1)), 1)
	nMiners := max(int(p.CfgInt("miners", 3)), int(p.CfgInt("width", 1)), 1)
	ids := miIdents(sim.NewRNG(p.Seed).Child("keys"), "m", nMiners, miSchemes[int(p.CfgInt("scheme", 0))%2])
	idxOf := map[string]int{}
	for i, b := range t.b {
		idxOf[b.hash] = i
	}
	viol := func(oracle, sig, detail string) {
		tr.Violate(&sim.Violation{Prop: "C36", Oracle: oracle, Sig: "C36/" + sig, Detail: detail})
	}

	grocksdb.SimReset()
	ctx, cancel := context.WithCancel(context.Background())
	insts := make([]*c36inst, nInst)
	for i := range insts {
		chain.SetupStateDB(fmt.Sprintf("/sim/c36/%d/%d", p.Seed, i))
		c := miChain(&chain.ConfigData{MinGenerators: nMiners, ThresholdByCount: 66, BlockFinalizationTimeout: 30 * time.Second, RoundRange: 10000000})
		mb := block.NewMagicBlock()
		mb.Miners = node.NewPool(node.NodeTypeMiner)
		mb.Sharders = node.NewPool(node.NodeTypeSharder)
		for k := 0; k < nMiners; k++ {
			// every instance learns the miners in another order
			if err := mb.Miners.AddNode(ids[(k+i)%nMiners].newNode(node.NodeTypeMiner, false)); err != nil {
				panic(err)
			}
		}
		c.SetMagicBlock(mb)
		c.InitializeMinerPool(mb)
		gb := block.NewBlock(c.GetKey(), 0)
		gb.Hash = t.b[0].hash
		gb.MinerID = ids[0].id
		gb.CreateState(c.GetStateDB(), nil)
		gb.SetStateStatus(block.StateSuccessful)
		gb.SetBlockState(block.StateNotarized)
		gb.SetRoundRandomSeed(t.rrs(0))
		c.SetLatestFinalizedBlock(gb)
		c.SetLatestDeterministicBlock(gb)
		gr := round.NewRound(0)
		c.SetRandomSeed(gr, t.rrs(0))
		gr.AddNotarizedBlock(gb)
		gr.Block = gb
		gr.BlockHash = gb.Hash
		c.AddRound(gr)
		c.SetViewChanger(c36vc{})
		in := &c36inst{c: c, bsh: &c36bsh{}, known: map[int]bool{0: true}, notar: map[int64]map[int]bool{0: {0: true}}, roundObj: map[int64]bool{0: true}}
		go c.FinalizeRoundWorker(ctx)
		go c.FinalizedBlockWorker(ctx, in.bsh)
		insts[i] = in
	}
	// generator, round seed and timeout count of every block; restart twins are resolved with the real rank code
	minerOf := make([]int, len(t.b))
	seedOf := make([]int64, len(t.b))
	tocOf := make([]int, len(t.b))
	rankUnder := func(rn, seed int64, m int) int {
		tmp := round.NewRound(rn)
		tmp.SetRandomSeed(seed, nMiners)
		return tmp.GetMinerRank(insts[0].c.GetMiners(rn).GetNode(ids[m].id))
	}
	for x, b := range t.b {
		minerOf[x], seedOf[x] = b.miner%nMiners, t.rrs(b.round)
		if b.twin < 0 || !b.restart || nMiners < 2 {
			continue
		}
		target := rankUnder(b.round, t.rrs(b.round), minerOf[b.twin])
	search:
		for toc := 1; toc <= 6; toc++ {
			for m := 0; m < nMiners; m++ {
				if m != minerOf[b.twin] && rankUnder(b.round, t.rrsT(b.round, toc), m) == target {
					minerOf[x], seedOf[x], tocOf[x] = m, t.rrsT(b.round, toc), toc
					break search
				}
			}
		}
	}
	synctest.Wait()
	defer func() {
		time.Sleep(10 * time.Second) // let the LFB notification goroutines time out
		cancel()
		synctest.Wait()
	}()
	arr := newArrivals(tr, nInst)

	roundOf := func(in *c36inst, rn int64) round.RoundI {
		if r := in.c.GetRound(rn); r != nil {
			return r
		}
		nr := round.NewRound(rn)
		in.c.SetRandomSeed(nr, t.rrs(rn))
		in.roundObj[rn] = true
		return in.c.AddRound(nr)
	}
	lfbIdx := func(in *c36inst) int {
		if x, ok := idxOf[in.c.GetLatestFinalizedBlock().Hash]; ok {
			return x
		}
		return -1
	}

	// reference for ComputeFinalizedBlock(lfbr, rn) on what this instance has been given
	type ref struct {
		k        int64 // latest round in (lfbr, rn] with a notarized block, -1 none
		want     int   // deepest common ancestor, -1 none
		complete bool  // every round object and every block the walk needs is present locally
		set      []int
	}
	// the notarized blocks a round of the instance lists (the input of the computation under check)
	listed := func(in *c36inst, rn int64) []int {
		r := in.c.GetRound(rn)
		if r == nil {
			return nil
		}
		var l []int
		for _, nb := range r.GetNotarizedBlocks() {
			if x, ok := idxOf[nb.Hash]; ok {
				l = append(l, x)
			}
		}
		sort.Ints(l)
		return l
	}
	reference := func(in *c36inst, lfbr, rn int64) ref {
		out := ref{k: -1, want: -1, complete: true}
		for q := rn; q > lfbr && q >= 0; q-- {
			if q < rn && !in.roundObj[q] {
				out.complete = false
				continue
			}
			if l := listed(in, q); len(l) > 0 {
				out.k, out.set = q, l
				break
			}
		}
		if out.k < 0 {
			return out
		}
		out.want = t.dca(out.set)
		// "present locally": delivered, and not dropped again by the node itself (finalizeBlock deletes the dead
		// blocks of the round ten blocks behind a finalized block)
		has := func(x int) bool {
			if !in.known[x] {
				return false
			}
			b, _ := in.c.GetBlock(ctx, t.b[x].hash)
			return b != nil
		}
		for _, b := range out.set {
			for x := b; x >= 0 && x != out.want; x = t.b[x].parent {
				if !has(x) {
					out.complete = false
				}
			}
		}
		if out.want >= 0 && !has(out.want) {
			out.complete = false
		}
		return out
	}
	probeRef := func(rf ref, rn int64) {
		if rf.k >= 0 && rf.k < rn {
			tr.Probe("rounds_without_notarization_skipped")
		}
		if len(rf.set) > 1 {
			tr.Probe("several_notarized_blocks_in_latest_round")
			if rf.want >= 0 && rf.k-t.b[rf.want].round >= 3 {
				tr.Probe("fork_depth_gt1")
			}
		}
		for _, a := range rf.set {
			for _, b := range rf.set {
				pa, pb := t.b[a].parent, t.b[b].parent
				if pa >= 0 && pb >= 0 && pa != pb && (t.b[pa].twin == pb || t.b[pb].twin == pa) {
					tr.Probe("parents_same_rank_different_hash")
				}
			}
		}
		if !rf.complete {
			tr.Fault("missing_block_or_round")
		}
	}

	deliver := func(i int, blk int, notarized bool) {
		in := insts[i]
		bi := t.b[blk]
		dup := arr.arrive(i, blk)
		if !in.known[bi.parent] {
			tr.Probe("child_before_parent")
		}
		b := block.NewBlock(in.c.GetKey(), bi.round)
		b.Hash = bi.hash
		b.PrevHash = t.b[bi.parent].hash
		b.MinerID = ids[minerOf[blk]].id
		b.SetRoundRandomSeed(seedOf[blk])
		b.RoundTimeoutCount = tocOf[blk]
		if bi.twin >= 0 {
			tr.Probe(map[bool]string{true: "same_rank_block_after_round_restart", false: "same_rank_block_equivocation"}[tocOf[blk] > 0])
		}
		b.CreateState(in.c.GetStateDB(), nil)
		b.SetStateStatus(block.StateSuccessful)
		r := roundOf(in, bi.round)
		if notarized {
			in.c.AddNotarizedBlockToRound(r, b)
			if in.notar[bi.round] == nil {
				in.notar[bi.round] = map[int]bool{}
			}
			in.notar[bi.round][blk] = true
		} else {
			in.c.AddRoundBlock(r, b)
			tr.Fault("unnotarized_arrival")
		}
		in.known[blk] = true
		// the round must list exactly the notarized blocks it was given (distinct generators)
		var got []int
		for _, nb := range r.GetNotarizedBlocks() {
			got = append(got, idxOf[nb.Hash])
		}
		sort.Ints(got)
		var want []int
		for x := range in.notar[bi.round] {
			want = append(want, x)
		}
		sort.Ints(want)
		subset := true
		for _, x := range got {
			if !in.notar[bi.round][x] {
				subset = false
			}
		}
		if t.collide[bi.round] && subset && len(got) > 0 {
			// blocks competing for one rank: the round keeps one of them (C35); which one is order-dependent
			if len(got) < len(want) {
				tr.Probe("round_dropped_same_rank_block")
			}
		} else if fmt.Sprint(got) != fmt.Sprint(want) {
			viol("round-content", "deliver/round-notarized-set-differs", fmt.Sprintf("inst %d round %d lists %v, delivered notarized %v", i, bi.round, got, want))
		}
		tr.Event("%s i=%d %s parent=%s dup=%v", map[bool]string{true: "nb", false: "blk"}[notarized], i, t.name(blk), t.name(bi.parent), dup)
		tr.Outcome(fmt.Sprintf("deliver/notarized=%v/dup=%v", notarized, dup))
	}

	for _, st := range p.Steps {
		i := st.A % nInst
		if i < 0 {
			i = -i
		}
		in := insts[i]
		switch st.Op {
		case "nb", "blk":
			blk := int(st.Int(0, 1))
			if blk < 1 || blk >= len(t.b) {
				continue
			}
			deliver(i, blk, st.Op == "nb")

		case "cfb":
			rn := st.Int(0, 1)
			if rn < 1 || rn > t.rounds {
				tr.Outcome("cfb/round-out-of-range")
				continue
			}
			r := in.c.GetRound(rn)
			if r == nil {
				tr.Outcome("cfb/no-round-object")
				continue
			}
			lfb := in.c.GetLatestFinalizedBlock()
			lfbr := lfb.Round
			switch ls := st.Int(1, 0); {
			case ls == 1:
				lfbr = 0
			case ls >= 2:
				lfbr = max(rn-ls, 0)
			}
			if arr.lagging() {
				tr.Probe("instances_hold_different_blocks")
			}
			rf := reference(in, lfbr, rn)
			probeRef(rf, rn)
			var fb *block.Block
			// the caller of ComputeFinalizedBlock (finalizeRound) runs under a one-minute context; a parent the instance
			// does not hold is "fetched" from peers, which here means waiting for that context on the bubble clock
			cctx, ccancel := context.WithTimeout(ctx, time.Minute)
			pn := guard(func() { fb = in.c.ComputeFinalizedBlock(cctx, lfbr, r) })
			ccancel()
			if pn != "" {
				viol("cfb", "cfb/panic", fmt.Sprintf("inst %d ComputeFinalizedBlock(%d, round %d) panicked: %s", i, lfbr, rn, pn))
				continue
			}
			got := -1
			if fb != nil {
				x, ok := idxOf[fb.Hash]
				if !ok {
					viol("cfb", "cfb/unknown-block", fmt.Sprintf("inst %d returned block %s the simulator never made", i, short(fb.Hash)))
					continue
				}
				got = x
			}
			ctxs := fmt.Sprintf("inst %d ComputeFinalizedBlock(lfbr=%d, round=%d): latest notarized round %d holds %v", i, lfbr, rn, rf.k, rf.set)
			switch {
			case rf.k < 0:
				if got >= 0 {
					viol("cfb", "cfb/result-without-notarized-round", fmt.Sprintf("%s; returned %s", ctxs, t.name(got)))
				}
				tr.Outcome("cfb/no-notarized-round")
			case got >= 0 && got != rf.want:
				viol("cfb-ancestor", "cfb/not-deepest-common-ancestor", fmt.Sprintf("%s; returned %s, deepest common ancestor in an earlier round is %s", ctxs, t.name(got), t.name(rf.want)))
			case got < 0 && rf.complete && rf.want >= 0:
				viol("cfb-ancestor", "cfb/nil-with-complete-information", fmt.Sprintf("%s; returned nil, deepest common ancestor %s and every block down to it is present", ctxs, t.name(rf.want)))
			case got < 0:
				tr.Outcome("cfb/undecided-incomplete")
			default:
				if t.b[got].round >= rf.k {
					viol("cfb-ancestor", "cfb/not-in-earlier-round", fmt.Sprintf("%s; returned %s", ctxs, t.name(got)))
				}
				tr.Outcome(fmt.Sprintf("cfb/ancestor/depth%d", min(int(rf.k-t.b[got].round), 4)))
			}
			tr.Event("cfb i=%d rn=%d lfbr=%d k=%d set=%v complete=%v -> %s (ref %s)", i, rn, lfbr, rf.k, rf.set, rf.complete, t.name(got), t.name(rf.want))
			tr.State(fmt.Sprintf("cfb:%d:%d:%v:%d", rn-lfbr, rn-rf.k, len(rf.set), got-rf.want))

		case "fin":
			rn := st.Int(0, 1)
			if rn < 1 || rn > t.rounds {
				tr.Outcome("fin/round-out-of-range")
				continue
			}
			r := in.c.GetRound(rn)
			if r == nil || len(listed(in, rn)) == 0 {
				// FinalizeRoundImpl would go and ask the miners for a notarized block: no peers here
				tr.Outcome("fin/nothing-notarized")
				continue
			}
			prev := lfbIdx(in)
			rf := reference(in, t.b[prev].round, rn)
			probeRef(rf, rn)
			if pn := guard(func() {
				in.c.FinalizeRoundImpl(r)
				time.Sleep(150 * time.Second)
				synctest.Wait()
			}); pn != "" {
				viol("finalize", "fin/panic", fmt.Sprintf("inst %d FinalizeRoundImpl(%d) panicked: %s", i, rn, pn))
				continue
			}
			tr.SimTime += 150
			now := lfbIdx(in)
			// (1) the sequence of blocks handed to UpdateFinalizedBlock descends
			var newly []string
			for ; in.seqSeen < len(in.bsh.seq); in.seqSeen++ {
				x, ok := idxOf[in.bsh.seq[in.seqSeen]]
				if !ok {
					viol("finalize", "fin/unknown-block", "finalized a block the simulator never made")
					continue
				}
				newly = append(newly, t.name(x))
				if x != in.lastFin && !t.anc(in.lastFin, x) {
					sig := "fin/finalized-block-does-not-descend-from-previous"
					if in.rolled {
						sig += "-after-lfb-rollback"
					}
					viol("single-chain", sig, fmt.Sprintf("inst %d finalize round %d: %s finalized after %s, which is not its ancestor", i, rn, t.name(x), t.name(in.lastFin)))
				}
				in.lastFin = x
			}
			// (2) the latest finalized block only moves to a descendant
			if now != prev {
				switch {
				case now < 0:
					viol("finalize", "fin/unknown-block", "LFB is a block the simulator never made")
				case t.anc(prev, now):
					tr.Probe("lfb_advanced")
					tr.Outcome(fmt.Sprintf("fin/advanced%d", min(int(t.b[now].round-t.b[prev].round), 4)))
					// (3) never beyond the common ancestor of the latest notarized round
					if rf.want >= 0 && now != rf.want && !t.anc(now, rf.want) {
						viol("cfb-ancestor", "fin/lfb-beyond-common-ancestor", fmt.Sprintf("inst %d finalize round %d: LFB %s is not an ancestor of the common ancestor %s of %v", i, rn, t.name(now), t.name(rf.want), rf.set))
					}
				case t.anc(now, prev):
					in.rolled = true
					viol("single-chain", "fin/lfb-rolled-back-to-ancestor", fmt.Sprintf("inst %d finalize round %d (notarized %v, common ancestor %s): LFB moved from %s back to %s", i, rn, rf.set, t.name(rf.want), t.name(prev), t.name(now)))
				default:
					sig := "fin/lfb-switched-branch"
					if in.rolled {
						// the rollback leaves the rounds of the abandoned branch marked finalized, which lets
						// finalizeBlockProcess connect a later chain to them instead of to the LFB
						sig += "-after-lfb-rollback"
					}
					viol("single-chain", sig, fmt.Sprintf("inst %d finalize round %d: LFB moved from %s to %s, which does not descend from it", i, rn, t.name(prev), t.name(now)))
				}
			} else {
				tr.Outcome("fin/no-progress")
			}
			tr.Event("fin i=%d rn=%d set=%v ref=%s lfb %s -> %s finalized=[%s]", i, rn, rf.set, t.name(rf.want), t.name(prev), t.name(now), strings.Join(newly, " "))
			tr.State(fmt.Sprintf("lfb:%d", now))
			// cross-instance: report-only
			for j, o := range insts {
				if j == i {
					continue
				}
				if x := lfbIdx(o); x >= 0 && now >= 0 && x != now && !t.anc(x, now) && !t.anc(now, x) {
					tr.Probe("instances_finalized_conflicting_blocks")
				}
			}
		}
	}
}
