// Package consensus hosts the consensus world (DESIGN 3.2).
//
// This file is the shared part of the *multi-instance* half (C35, C36, C40,
// C42): N independent instances of the real objects (round.Round, node.Pool,
// chain.Chain with its MagicBlockStorage and block cache) live in one process,
// a simulated network hands every instance the same facts in a different
// seeded order, with duplicates and delays, and the oracles compare what the
// instances compute. Nothing here owns a miner identity (node.Self, the miner
// singleton); the single-node-under-test half lives in other files.
package consensus

import (
	"context"
	"encoding/hex"
	"fmt"
	"os"
	"sort"
	"strings"
	"sync"

	"0chain.net/chaincore/block"
	"0chain.net/chaincore/chain"
	"0chain.net/chaincore/client"
	"0chain.net/chaincore/node"
	"0chain.net/chaincore/round"
	"0chain.net/core/common"
	"0chain.net/core/config"
	"0chain.net/core/datastore"
	"0chain.net/core/encryption"
	"0chain.net/core/viper"

	"verif/sim"
	"verif/worlds/wkit"
)

// miStore is the datastore.Store seam (redis in production). The code under
// check here never reads or writes it; the entity packages only need *a* store
// to register their metadata (round.NewRound, block.NewBlock).
type miStore struct{}

func (miStore) Read(context.Context, datastore.Key, datastore.Entity) error {
	return common.NewError("entity_not_found", "simulated store is empty")
}
func (miStore) Write(context.Context, datastore.Entity) error      { return nil }
func (miStore) InsertIfNE(context.Context, datastore.Entity) error { return nil }
func (miStore) Delete(context.Context, datastore.Entity) error     { return nil }
func (miStore) Merge(context.Context, datastore.Entity) error      { return nil }
func (miStore) MultiRead(context.Context, datastore.EntityMetadata, []datastore.Key, []datastore.Entity) error {
	return nil
}
func (miStore) MultiWrite(context.Context, datastore.EntityMetadata, []datastore.Entity) error {
	return nil
}
func (miStore) MultiDelete(context.Context, datastore.EntityMetadata, []datastore.Entity) error {
	return nil
}
func (miStore) AddToCollection(context.Context, datastore.CollectionEntity) error { return nil }
func (miStore) MultiAddToCollection(context.Context, datastore.EntityMetadata, []datastore.Entity) error {
	return nil
}
func (miStore) DeleteFromCollection(context.Context, datastore.CollectionEntity) error { return nil }
func (miStore) MultiDeleteFromCollection(context.Context, datastore.EntityMetadata, []datastore.Entity) error {
	return nil
}
func (miStore) GetCollectionSize(context.Context, datastore.EntityMetadata, string) int64 { return 0 }
func (miStore) IterateCollection(context.Context, datastore.EntityMetadata, string, datastore.CollectionIteratorHandler) error {
	return nil
}

var miOnce sync.Once

// miLFBTicketAhead is the shipped default of server_chain.lfb_ticket.ahead
// (docker.local/config/0chain.yaml); finalizeRound uses it as its back-walk depth.
const miLFBTicketAhead = 5

// miWorld performs the one-time process-global setup the real entity code
// needs: quiet logging, default configuration, chain id, root context, entity
// metadata over the store seam, a neutral node.Self (miner type, no key: no
// check in this half signs anything as "self").
func miWorld() {
	miOnce.Do(func() {
		wkit.Quiet()
		config.SetupDefaultConfig()
		config.SetServerChainID(config.GetMainChainID())
		viper.Set("server_chain.lfb_ticket.ahead", miLFBTicketAhead)
		common.SetupRootContext(context.Background())
		st := miStore{}
		client.SetupEntity(st)
		block.SetupEntity(st)
		block.SetupBlockSummaryEntity(st)
		round.SetupEntity(st)
		node.Self = &node.SelfNode{}
		node.Self.Node = node.Provider()
		node.Self.Node.Type = node.NodeTypeMiner
	})
}

// miChain builds a fresh, isolated real chain.Chain (own rounds, own block
// cache, own MagicBlockStorage). Provider() installs an empty magic block at
// starting round 0; callers replace or extend it.
func miChain(cfg *chain.ConfigData) *chain.Chain {
	miWorld()
	c := chain.Provider().(*chain.Chain)
	c.ID = datastore.ToKey(config.GetServerChainID())
	c.ChainConfig = chain.NewConfigImpl(cfg)
	return c
}

// miIdent is a seeded node identity: key pair from the `keys` stream, id =
// hash(public key bytes) as the real client code derives it.
type miIdent struct {
	scheme string
	pk     string
	id     string
	idx    int
}

var miSchemes = []string{"bls0chain", "ed25519"}

// miIdents derives n identities from keys/<prefix>i. They are returned in
// generation order (not sorted by id): "fact #i" is identity i.
func miIdents(keys *sim.RNG, prefix string, n int, scheme string) []miIdent {
	out := make([]miIdent, n)
	for i := range out {
		ss := wkit.NewKeys(scheme, keys.Child(fmt.Sprintf("%s%d", prefix, i)))
		pk := ss.GetPublicKey()
		b, _ := hex.DecodeString(pk)
		out[i] = miIdent{scheme: scheme, pk: pk, id: encryption.Hash(b), idx: i}
	}
	return out
}

// newNode builds a *fresh* real node.Node for the identity. Every instance
// gets its own objects (node.Pool writes SetIndex into the node, and
// Pool.AddNode registers the node in the process-global node registry, which
// nothing in this half reads). withIDBytes selects how the id is installed:
// true = node.SetID (the path of node.NewNode: the byte form of the id used by
// the XOR scorer is populated), false = the way magic blocks are built by the
// miner smart contract and by JSON decoding (id string only).
func (m miIdent) newNode(typ node.NodeType, withIDBytes bool) *node.Node {
	n := node.Provider()
	n.Type = typ
	n.Host = fmt.Sprintf("n%d.sim", m.idx)
	n.N2NHost = n.Host
	n.Port = 7000 + m.idx
	n.Status = node.NodeStatusActive
	n.SetSignatureSchemeType(m.scheme)
	if err := n.SetPublicKey(m.pk); err != nil {
		panic(err)
	}
	if n.ID != m.id {
		panic("client id derivation changed")
	}
	if withIDBytes {
		if err := n.SetID(m.id); err != nil {
			panic(err)
		}
	}
	return n
}

// ---- simulated network ---------------------------------------------------------------------------

// miSchedule is what the simulated network does with nFacts facts broadcast to
// nInst instances: for each instance the sequence of fact indexes as they
// arrive (a permutation when reordering is on, plus verbatim duplicates).
// Delays are expressed by the caller, which interleaves the per-instance
// sequences with its query steps (a fact scheduled after a query has been
// "delayed" past it). Drawn from the `net` stream only.
func miSchedule(net *sim.RNG, nInst, nFacts int, reorder bool, pDup float64) [][]int {
	out := make([][]int, nInst)
	for i := 0; i < nInst; i++ {
		var seq []int
		if reorder && i > 0 {
			seq = net.Perm(nFacts)
		} else {
			// instance 0 always sees the canonical order: the reference arrival
			seq = make([]int, nFacts)
			for k := range seq {
				seq[k] = k
			}
		}
		if pDup > 0 {
			var withDup []int
			for k, f := range seq {
				withDup = append(withDup, f)
				if net.Bool(pDup) {
					// duplicate of something already delivered (verbatim replay)
					withDup = append(withDup, seq[net.Intn(k+1)])
				}
			}
			seq = withDup
		}
		out[i] = seq
	}
	return out
}

// miInterleave merges per-instance sequences into one global arrival order:
// at each point the `net` stream picks which instance's link delivers next.
// It returns (instance, fact) pairs.
func miInterleave(net *sim.RNG, seqs [][]int) [][2]int {
	pos := make([]int, len(seqs))
	left := 0
	for _, s := range seqs {
		left += len(s)
	}
	out := make([][2]int, 0, left)
	for left > 0 {
		w := make([]int, len(seqs))
		for i := range seqs {
			w[i] = len(seqs[i]) - pos[i]
		}
		i := net.Pick(w)
		out = append(out, [2]int{i, seqs[i][pos[i]]})
		pos[i]++
		left--
	}
	return out
}

// miArrivals tracks, per instance, which facts arrived, and counts the faults
// that actually fired: a reorder fires when a fact arrives at an instance
// before a lower-numbered fact that instance has not seen yet (i.e. not in the
// canonical order), a duplicate when the instance already had the fact.
type miArrivals struct {
	have []map[int]bool
	max  []int
	tr   *sim.Trace
}

func newArrivals(tr *sim.Trace, nInst int) *miArrivals {
	a := &miArrivals{tr: tr, have: make([]map[int]bool, nInst), max: make([]int, nInst)}
	for i := range a.have {
		a.have[i] = map[int]bool{}
		a.max[i] = -1
	}
	return a
}

// arrive records the arrival and reports whether it is a duplicate.
func (a *miArrivals) arrive(inst, fact int) (dup bool) {
	if a.have[inst][fact] {
		a.tr.Fault("duplicate")
		return true
	}
	if fact < a.max[inst] {
		a.tr.Fault("reorder")
	}
	if fact > a.max[inst] {
		a.max[inst] = fact
	}
	a.have[inst][fact] = true
	return false
}

// setKey is a canonical name of the fact set an instance holds.
func (a *miArrivals) setKey(inst int) string {
	ks := make([]int, 0, len(a.have[inst]))
	for k := range a.have[inst] {
		ks = append(ks, k)
	}
	sort.Ints(ks)
	var sb strings.Builder
	for _, k := range ks {
		fmt.Fprintf(&sb, "%d,", k)
	}
	return sb.String()
}

// lagging fires the delay fault once per query at which the instances do not
// all hold the same facts (some link is behind).
func (a *miArrivals) lagging() bool {
	k0 := a.setKey(0)
	for i := 1; i < len(a.have); i++ {
		if a.setKey(i) != k0 {
			a.tr.Fault("delay")
			return true
		}
	}
	return false
}

// ---- small helpers -------------------------------------------------------------------------------

func miHash(parts ...any) string { return encryption.Hash(fmt.Sprint(parts...)) }

func sortedCopy(s []string) []string {
	o := append([]string(nil), s...)
	sort.Strings(o)
	return o
}

func short(h string) string {
	if len(h) > 8 {
		return h[:8]
	}
	return h
}

func shorts(hs []string) string {
	o := make([]string, len(hs))
	for i, h := range hs {
		o[i] = short(h)
	}
	return strings.Join(o, ",")
}

// guard runs f and converts a panic of the code under test into an error
// string (the checks decide whether that is a violation).
func guard(f func()) (panicked string) {
	defer func() {
		if r := recover(); r != nil {
			panicked = fmt.Sprint(r)
		}
	}()
	f()
	return ""
}

// miScheduleJitter is the bounded-disorder variant of miSchedule for facts
// that have a causal order (blocks of a chain): fact f arrives at position
// f + U[0,jitter] (ties keep the canonical order), so children overtake
// parents only within a window; each fact is dropped for an instance with
// probability pDrop (never for instance 0 when keepFirst) and duplicated with
// probability pDup.
func miScheduleJitter(net *sim.RNG, nInst, nFacts, jitter int, pDup, pDrop float64) [][]int {
	out := make([][]int, nInst)
	for i := 0; i < nInst; i++ {
		type kf struct{ key, f int }
		var ks []kf
		for f := 0; f < nFacts; f++ {
			if pDrop > 0 && net.Bool(pDrop) {
				continue
			}
			k := f * 2
			if jitter > 0 {
				k += 2 * net.Intn(jitter+1)
				k++ // a jittered fact goes after the on-time fact with the same key
			}
			ks = append(ks, kf{k, f})
		}
		sort.SliceStable(ks, func(a, b int) bool { return ks[a].key < ks[b].key })
		var seq []int
		for n, e := range ks {
			seq = append(seq, e.f)
			if pDup > 0 && net.Bool(pDup) {
				seq = append(seq, ks[net.Intn(n+1)].f)
			}
		}
		out[i] = seq
	}
	return out
}

// miDumpTrace prints the kept event log to stderr when VERIF_TRACE is set
// (development aid for `replay`, which keeps the log but does not print it).
func miDumpTrace(tr *sim.Trace) {
	if tr.Keep && os.Getenv("VERIF_TRACE") != "" {
		for _, l := range tr.Lines {
			fmt.Fprintln(os.Stderr, l)
		}
	}
}
