package nut

import (
	"fmt"
	"sort"
	"strings"
	"testing/synctest"
	"time"

	"0chain.net/chaincore/block"
	"0chain.net/chaincore/node"
	"0chain.net/chaincore/round"
	"0chain.net/core/common"
	"0chain.net/core/datastore"
	"0chain.net/core/encryption"
	"0chain.net/miner"

	"verif/sim"
)

func init() {
	sim.Register(&sim.Check{
		ID: "C31", Title: "A block counts as notarized only with enough verified tickets", World: "nut",
		Gen: genC31, Exec: execC31, Simplify: simplifyC31,
		Quick:    sim.Budget{Runs: 400, WallS: 50},
		Thorough: sim.Budget{Runs: 40000, WallS: 840}, HangS: 120,
		LevelText: "seeded search: one real miner (node under test) receives verify-block, ticket, notarization and notarized-block messages from byzantine sim peers carrying forged, duplicated, " +
			"non-miner, wrong-hash and valid tickets in seeded orders; a clean batch is evidence, not proof",
		LevelNote: "real per run: the miner singleton with MessageWorker, BlockVerifyWorkers, NotarizationProcessWorker, RestartRoundEventWorker, LFB ticket worker; messages enter through the exported entity handlers behind the HTTP layer " +
			"(miner.VerifyBlockHandler, VerificationTicketReceiptHandler, NotarizationReceiptHandler, NotarizedBlockHandler: pre-filters, message channel, MessageWorker, Handle*Message, processVerifyBlock, " +
			"handleVerificationTicketMessage, notarizationProcess/MergeNotarization, handleNotarizedBlockMessage, VerifyTickets/VerifyNotarization, AddNotarizedBlock, ProgressOnNotarization -> StartNextRound) " +
			"or, when the plan says so, directly through mc.Handle*Message (skipping the pre-filters). Messages cross a real msgpack/JSON encode-decode. " +
			"Bypassed/sim: HTTP and node.ValidateSenderSignature (sim transport authenticates the sender), the VRF phase of the block's round (seed installed with SetRandomSeed), the NUT's own block verification " +
			"(StartVerification is not called, so the NUT contributes no ticket of its own), block fetching and state sync from peers (requestors answer nothing, so a notarization for an unknown block fails), finalisation workers. " +
			"Oracle (DESIGN A.7) re-verifies every ticket of every block the NUT calls notarized with the shipped signature scheme and the keys the sim dealt",
		Technique: "deterministic simulation: one real miner + byzantine sim peers, ticket forgery/duplication/foreign-signer injection, synctest bubble",
		DesignRef: "6/C31, A.7, 8", Regime: "single-threaded event loop inside a synctest bubble; synctest.Wait() + a fake-time gap after every injected message",
		Components: sim.Components{
			Real: []string{"miner (entity handlers, MessageWorker, BlockVerifyWorkers, processVerifyBlock, handleVerificationTicketMessage, NotarizationProcessWorker, MergeNotarization, handleNotarizedBlockMessage, AddNotarizedBlock, checkBlockNotarization, ProgressOnNotarization/StartNextRound)",
				"chaincore/chain (VerifyTickets, VerifyNotarization, UpdateBlockNotarization, reachedNotarization, AddNotarizedBlockToRound, addBlock, ComputeState on empty blocks)", "chaincore/block (Validate, AddVerificationTicket, MergeVerificationTickets, msgpack/JSON codecs)", "chaincore/round", "core/encryption (BLS0Chain, aggregate verification)"},
			Sim:  []string{"peers (block generators, verifiers, byzantine senders)", "transport incl. sender authentication", "clock"},
			Stub: []string{"HTTP layer", "block/state fetch requestors (answer nothing)", "redis (empty in-memory datastore.Store)", "RocksDB (simulated disk)"},
		},
		Assumptions: []string{
			"a byzantine miner may sign anything with its own key (its valid tickets count, as the statement says); it cannot sign for others",
			"the notarization threshold is the chain's own GetNotarizationThresholdCount(|miners|) (configuration, not logic under test)",
		},
	})
}

// ticket kinds
const (
	tkValid        = iota // signer = miner, valid signature on the block hash
	tkForged              // VerifierID = miner, signature is a bit-flipped valid one
	tkWrongHash           // VerifierID = miner, valid signature on another hash
	tkNonMiner            // VerifierID = sharder of the magic block, valid signature by its key
	tkUnknown             // VerifierID = unregistered node, valid signature by its key
	tkOtherSig            // VerifierID = miner i, signature = miner j's valid ticket signature
	tkEmpty               // VerifierID = miner, empty signature
	tkRetired             // VerifierID = registered node outside the magic block
	tkOutsideMiner        // VerifierID = miner-type node the NUT knows (registry) that is not in the round's magic block, valid signature by its key
	tkKinds
)

var tkNames = []string{"valid", "forged", "wronghash", "nonminer", "unknown", "othersig", "emptysig", "retired", "outsideminer"}

func genC31(seed uint64, tier string) *sim.Plan {
	r := sim.NewRNG(seed).Child("plan")
	sw := sim.NewRNG(seed).Child("swarm")
	n := sw.Range(4, 8)
	p := &sim.Plan{Cfg: map[string]int64{
		"miners":    int64(n),
		"sharders":  int64(sw.Range(1, 3)),
		"threshold": int64([]int{51, 60, 66, 67, 75, 100}[sw.Intn(6)]),
		"blocks":    int64(sw.Range(1, 3)),
		"seed_set":  int64(sw.Pick([]int{1, 4})),
		"rrs_mode":  int64(sw.Intn(3)), // 0 all blocks carry the round's seed, 1 all another seed, 2 mixed
	}}
	nb := int(p.Cfg["blocks"])
	byz := sw.Pick([]int{1, 2, 4}) // 0 honest, 1 light, 2 heavy
	tkt := func() []int64 {
		kind := tkValid
		if byz == 1 && r.Bool(0.2) || byz == 2 && r.Bool(0.6) {
			kind = 1 + r.Intn(tkKinds-1)
		}
		return []int64{int64(kind), int64(r.Intn(n - 1)), int64(r.Intn(4096))}
	}
	tkts := func(max int) []int64 {
		var out []int64
		k := r.Range(0, max)
		for i := 0; i < k; i++ {
			t := tkt()
			out = append(out, t...)
			if r.Bool(0.15) { // verbatim duplicate inside the same list
				out = append(out, t...)
			}
		}
		return out
	}
	steps := r.Range(3, 22)
	if tier == "thorough" {
		steps = r.Range(3, 40)
	}
	sent := map[int]bool{}
	for i := 0; i < steps; i++ {
		bi := r.Intn(nb)
		sender := int64(r.Intn(n - 1))
		via := int64(r.Pick([]int{4, 1}))
		var op string
		if !sent[bi] && r.Bool(0.6) {
			op = "block"
		} else {
			op = []string{"block", "ticket", "ticket", "ticket", "notar", "nblock"}[r.Pick([]int{2, 5, 5, 5, 3, 2})]
		}
		st := sim.Step{Op: op, A: bi, I: []int64{sender, via}}
		switch op {
		case "block":
			sent[bi] = true
			if byz > 0 && r.Bool(0.5) {
				st.I = append(st.I, tkts(n)...)
			}
		case "ticket":
			st.I = append(st.I, tkt()...)
			if byz == 2 && r.Bool(0.1) {
				st.S = []string{"roundlabel"}
			}
		case "notar", "nblock":
			if r.Bool(0.45) {
				// a well-formed notarization: k distinct valid tickets, k around the threshold, sometimes spoiled by one bad ticket
				thr := (n*int(p.Cfg["threshold"]) + 99) / 100
				k := []int{thr - 1, thr, thr, thr + 1, n - 1}[r.Intn(5)]
				var spoil []int64
				if byz > 0 && r.Bool(0.35) {
					spoil = tkt()
					if r.Bool(0.6) {
						// validly signed by a node the NUT knows that is no miner of this round's magic block,
						// on top of threshold-1 genuine tickets
						spoil = []int64{int64([]int{tkOutsideMiner, tkOutsideMiner, tkNonMiner, tkRetired}[r.Intn(4)]), int64(r.Intn(n - 1)), 0}
						if r.Bool(0.7) {
							k = thr - 1
						}
					}
				}
				k = min(max(k, 0), n-1)
				for _, m := range r.Perm(n - 1)[:k] {
					st.I = append(st.I, int64(tkValid), int64(m), 0)
				}
				if spoil != nil {
					at := 2 + 3*r.Intn(k+1)
					st.I = append(st.I[:at], append(spoil, st.I[at:]...)...)
				}
			} else {
				st.I = append(st.I, tkts(n+1)...)
			}
		}
		p.Steps = append(p.Steps, st)
		if r.Bool(0.12) {
			p.Steps = append(p.Steps, st) // duplicate delivery
		}
		if r.Bool(0.1) {
			p.Steps = append(p.Steps, sim.Step{Op: "wait", I: []int64{int64(r.Pick([]int{3, 2, 1})), int64(r.Range(1, 900))}})
		}
	}
	return p
}

func execC31(env *sim.Env, p *sim.Plan) *sim.Result {
	return InBubble(env.T, p.Seed, func() *sim.Result { return runC31(env, p) })
}

type c31 struct {
	w      *World
	tr     *sim.Trace
	blocks []*block.Block // pristine sim-side blocks (never handed to the NUT)
	thr    int
	// provenance of every (block, verifier, signature) triple the sim ever sent: the message kind that carried it; a triple sent
	// by several kinds of message is attributed to the kind whose tickets the node is least expected to trust
	// (block < notarized_block < notarization < ticket), so an attribution to a verified path is never an artefact of reuse
	prov    map[string]string
	tainted map[string]bool // blocks already reported (known finding): not re-reported
	wasNot  map[string]bool // blocks seen notarized at the previous evaluation (probes)
	seed1   int64
}

func provRank(k string) int {
	switch k {
	case "ticket":
		return 0
	case "notarization":
		return 1
	case "notarized_block":
		return 2
	case "block":
		return 3
	}
	return 4
}

func (c *c31) mkTicket(kind int, signer int, arg int64, b *block.Block) *block.VerificationTicket {
	w := c.w
	members := w.Miners[1:]
	m := members[signer%len(members)]
	sign := func(p *Peer, h string) string {
		s, err := p.SS.Sign(h)
		if err != nil {
			panic(err)
		}
		return s
	}
	switch kind {
	case tkValid:
		return &block.VerificationTicket{VerifierID: m.ID(), Signature: sign(m, b.Hash)}
	case tkForged:
		return &block.VerificationTicket{VerifierID: m.ID(), Signature: flipHexBit(sign(m, b.Hash), int(arg))}
	case tkWrongHash:
		return &block.VerificationTicket{VerifierID: m.ID(), Signature: sign(m, encryption.Hash(fmt.Sprintf("other-%d", arg)))}
	case tkNonMiner:
		s := w.Sharders[signer%len(w.Sharders)]
		if s == w.Self {
			s = w.Sharders[(signer+1)%len(w.Sharders)]
		}
		return &block.VerificationTicket{VerifierID: s.ID(), Signature: sign(s, b.Hash)}
	case tkUnknown:
		u := w.Unknown[signer%len(w.Unknown)]
		return &block.VerificationTicket{VerifierID: u.ID(), Signature: sign(u, b.Hash)}
	case tkOtherSig:
		o := members[(signer+1)%len(members)]
		return &block.VerificationTicket{VerifierID: m.ID(), Signature: sign(o, b.Hash)}
	case tkEmpty:
		return &block.VerificationTicket{VerifierID: m.ID(), Signature: ""}
	case tkOutsideMiner:
		u := w.OutsideMiners[signer%len(w.OutsideMiners)]
		return &block.VerificationTicket{VerifierID: u.ID(), Signature: sign(u, b.Hash)}
	default:
		u := w.Retired[signer%len(w.Retired)]
		return &block.VerificationTicket{VerifierID: u.ID(), Signature: sign(u, b.Hash)}
	}
}

// tickets decodes the (kind, signer, arg) triples of a step starting at index from.
func (c *c31) tickets(st sim.Step, from int, b *block.Block, carrier string) ([]*block.VerificationTicket, string) {
	var out []*block.VerificationTicket
	var desc []string
	seen := map[string]bool{}
	for i := from; i+2 < len(st.I); i += 3 {
		kind := int(st.I[i]) % tkKinds
		if kind < 0 {
			kind = -kind
		}
		t := c.mkTicket(kind, int(st.I[i+1]), st.I[i+2], b)
		out = append(out, t)
		desc = append(desc, fmt.Sprintf("%s:%s", tkNames[kind], short(t.VerifierID)))
		c.tr.Fault("ticket_" + tkNames[kind])
		key := t.VerifierID + "|" + t.Signature
		if seen[key] {
			c.tr.Fault("ticket_duplicated_in_message")
		}
		seen[key] = true
		pk := b.Hash + "|" + key
		if old, ok := c.prov[pk]; !ok || provRank(carrier) > provRank(old) {
			c.prov[pk] = carrier
		}
	}
	return out, strings.Join(desc, ",")
}

// validCount is the oracle of DESIGN A.7.
func (c *c31) validCount(b *block.Block) (valid int, bad []string, dups, total int) {
	miners := map[string]*Peer{}
	for _, m := range c.w.Miners {
		miners[m.ID()] = m
	}
	counted := map[string]bool{}
	for _, t := range b.GetVerificationTickets() {
		total++
		key := b.Hash + "|" + t.VerifierID + "|" + t.Signature
		m := miners[t.VerifierID]
		ok := false
		if m != nil {
			ss := encryption.GetSignatureScheme("bls0chain")
			if err := ss.SetPublicKey(m.Node.PublicKey); err == nil {
				ok, _ = ss.Verify(t.Signature, b.Hash)
			}
		}
		if ok && !counted[t.VerifierID] {
			counted[t.VerifierID] = true
			valid++
			continue
		}
		if ok {
			dups++ // a further copy of an already counted valid ticket
			continue
		}
		src := c.prov[key]
		if src == "" {
			src = "unknown-origin"
		}
		bad = append(bad, src)
	}
	return
}

func wire(e datastore.Entity, name string, msgpack bool) datastore.Entity {
	out := datastore.GetEntityMetadata(name).Instance()
	if msgpack {
		if err := datastore.FromMsgpack(datastore.ToMsgpack(e), out); err != nil {
			panic(err)
		}
	} else {
		if err := datastore.FromJSON(datastore.ToJSON(e), out); err != nil {
			panic(err)
		}
	}
	return out
}

func runC31(env *sim.Env, p *sim.Plan) *sim.Result {
	tr := sim.NewTrace()
	tr.Keep = env.KeepLog
	n := int(p.CfgInt("miners", 5))
	if n < 3 {
		n = 3
	}
	w := NewWorld(WorldCfg{Seed: p.Seed, Miners: n, Sharders: int(p.CfgInt("sharders", 2)), T: max(2, (2*n+2)/3), Threshold: int(p.CfgInt("threshold", 66))})
	defer w.Close()
	mc := w.MC
	c := &c31{w: w, tr: tr, prov: map[string]string{}, tainted: map[string]bool{}, wasNot: map[string]bool{}}
	c.thr = mc.GetNotarizationThresholdCount(w.MB.Miners.Size())

	go w.C.StartLFBTicketWorker(w.Ctx, w.GB)
	go mc.MessageWorker(w.Ctx)
	go mc.BlockVerifyWorkers(w.Ctx)
	go mc.NotarizationProcessWorker(w.Ctx)
	go mc.RestartRoundEventWorker(w.Ctx)
	mc.SetStarted()

	rs := sim.NewRNG(p.Seed).Child("world")
	c.seed1 = int64(rs.Uint64()>>1) + 1
	mr := mc.AddRound(mc.CreateRound(round.NewRound(1))).(*miner.Round)
	mc.SetCurrentRound(1)
	if p.CfgInt("seed_set", 1) == 1 {
		mc.SetRandomSeed(mr, c.seed1)
	}
	nb := int(p.CfgInt("blocks", 1))
	if nb < 1 {
		nb = 1
	}
	for i := 0; i < nb; i++ {
		gen := w.Miners[1+(i*2+int(rs.Intn(n-1)))%(n-1)]
		b := block.NewBlock(mc.GetKey(), 1)
		b.MinerID = gen.ID()
		b.PrevHash = w.GB.Hash
		b.CreationDate = w.GB.CreationDate + common.Timestamp(1+i)
		b.LatestFinalizedMagicBlockHash = w.GB.Hash
		b.LatestFinalizedMagicBlockRound = 0
		b.ClientStateHash = w.GB.ClientStateHash
		rrs := c.seed1
		if m := p.CfgInt("rrs_mode", 0); m == 1 || m == 2 && i%2 == 1 {
			rrs = c.seed1 ^ int64(0x5a5a+i)
		}
		b.SetRoundRandomSeed(rrs)
		b.HashBlock()
		sig, err := gen.SS.Sign(b.Hash)
		if err != nil {
			panic(err)
		}
		b.Signature = sig
		c.blocks = append(c.blocks, b)
	}
	synctest.Wait()
	tr.Event("boot n=%d thr=%d blocks=%d seed_set=%d", n, c.thr, nb, p.CfgInt("seed_set", 1))

	check := func(carrier string) {
		type seenB struct {
			b     *block.Block
			where string
		}
		var list []seenB
		for i := range c.blocks {
			if nb, err := mc.GetBlock(w.Ctx, c.blocks[i].Hash); err == nil && nb.IsBlockNotarized() {
				list = append(list, seenB{nb, "IsBlockNotarized"})
			}
		}
		for rn := int64(1); rn <= mc.GetCurrentRound()+1; rn++ {
			if r := mc.GetRound(rn); r != nil {
				for _, nb := range r.GetNotarizedBlocks() {
					list = append(list, seenB{nb, fmt.Sprintf("round %d notarized list", rn)})
				}
			}
		}
		for _, s := range list {
			if c.tainted[s.b.Hash] {
				continue
			}
			valid, bad, dups, total := c.validCount(s.b)
			if valid >= c.thr {
				if !c.wasNot[s.b.Hash] {
					c.wasNot[s.b.Hash] = true
					tr.Probe("legitimately_notarized_after_" + carrier)
					if len(bad) > 0 || dups > 0 {
						tr.Probe("legitimately_notarized_despite_bad_tickets_present")
					}
				}
				continue
			}
			c.tainted[s.b.Hash] = true
			sort.SliceStable(bad, func(i, j int) bool { return provRank(bad[i]) < provRank(bad[j]) })
			sig := "C31/notarized-below-threshold/after=" + carrier
			if len(bad) > 0 {
				// the carrier of the invalid tickets names the code path; individually verified carriers rank first
				sig = "C31/notarized-with-unverified-tickets/from=" + bad[0]
			} else if dups > 0 {
				sig = "C31/notarized-counting-duplicate-tickets"
			}
			tr.Violate(&sim.Violation{Prop: "C31", Oracle: "A.7 valid-ticket count", Sig: sig,
				Detail: fmt.Sprintf("block %s (%s) is notarized for the node with %d tickets of which %d are valid tickets of distinct miners, threshold %d; %d further copies of counted tickets; invalid tickets came by: %v (violation surfaced after a %s message)",
					short(s.b.Hash), s.where, total, valid, c.thr, dups, bad, carrier)})
		}
		var st []string
		for i := range c.blocks {
			if nb, err := mc.GetBlock(w.Ctx, c.blocks[i].Hash); err == nil {
				v, _, _, tot := c.validCount(nb)
				st = append(st, fmt.Sprintf("b%d:n=%v,t=%d,v=%d,s=%d", i, nb.IsBlockNotarized(), tot, v, nb.GetStateStatus()))
			} else {
				st = append(st, fmt.Sprintf("b%d:-", i))
			}
		}
		nl := 0
		if r := mc.GetRound(1); r != nil {
			nl = len(r.GetNotarizedBlocks())
		}
		line := fmt.Sprintf("state cur=%d r1list=%d phase=%d %s out=%v", mc.GetCurrentRound(), nl, mr.GetPhase(), strings.Join(st, " "), w.OutKinds())
		tr.Event("%s", line)
		tr.State(fmt.Sprintf("%d/%d/%s", mc.GetCurrentRound(), nl, strings.Join(st, " ")))
	}

	settle := func(d time.Duration) {
		synctest.Wait()
		time.Sleep(d)
		synctest.Wait()
		tr.SimTime += d.Seconds()
	}

	senderOf := func(i int64) *Peer {
		members := w.Miners[1:]
		return members[int(i%int64(len(members))+int64(len(members)))%len(members)]
	}
	for _, st := range p.Steps {
		if st.Op == "wait" {
			d := time.Duration(st.Int(1, 100)) * time.Millisecond
			if st.Int(0, 0) == 2 {
				d = time.Duration(st.Int(1, 100)) * 100 * time.Millisecond
			}
			settle(d)
			tr.Event("wait %v", d)
			tr.Outcome("wait")
			check("wait")
			continue
		}
		if len(c.blocks) == 0 {
			continue
		}
		sb := c.blocks[((st.A%len(c.blocks))+len(c.blocks))%len(c.blocks)]
		from := senderOf(st.Int(0, 0))
		via := st.Int(1, 0)
		ctx := node.WithSenderValidateFunc(node.WithNode(w.Ctx, from.Node), func() error { return nil })
		switch st.Op {
		case "block":
			out := sb.Clone()
			tk, desc := c.tickets(st, 2, sb, "block")
			out.VerificationTickets = tk
			e := wire(out, "block", true).(*block.Block)
			if len(tk) > 0 {
				tr.Fault("block_message_carries_tickets")
			}
			if _, err := mc.GetBlock(w.Ctx, sb.Hash); err == nil {
				tr.Fault("block_redelivered")
			}
			if via == 0 {
				if _, err := miner.VerifyBlockHandler(ctx, e); err != nil {
					panic(err)
				}
			} else {
				mc.HandleVerifyBlockMessage(w.Ctx, miner.NewBlockMessage(miner.MessageVerify, from.Node, nil, e))
			}
			tr.Event("block b%d from=%d via=%d tickets=[%s]", st.A, from.Idx, via, desc)
		case "ticket":
			tk, desc := c.tickets(st, 2, sb, "ticket")
			if len(tk) == 0 {
				continue
			}
			if _, err := mc.GetBlock(w.Ctx, sb.Hash); err != nil {
				tr.Fault("ticket_before_block") // reordering: the ticket overtakes the proposal
			}
			bvt := &block.BlockVerificationTicket{VerificationTicket: *tk[0], Round: sb.Round, BlockID: sb.Hash}
			if st.Str(0, "") == "roundlabel" {
				bvt.Round = sb.Round + 1
				tr.Fault("ticket_round_label")
			}
			e := wire(bvt, "block_verification_ticket", false).(*block.BlockVerificationTicket)
			if via == 0 || mc.GetMinerRound(e.Round) == nil {
				if _, err := miner.VerificationTicketReceiptHandler(ctx, e); err != nil {
					panic(err)
				}
				via = 0
			} else {
				msg := miner.NewBlockMessage(miner.MessageVerificationTicket, from.Node, nil, nil)
				msg.BlockVerificationTicket = e
				mc.HandleVerificationTicketMessage(w.Ctx, msg)
			}
			tr.Event("ticket b%d from=%d via=%d round=%d [%s]", st.A, from.Idx, via, e.Round, desc)
		case "notar":
			tk, desc := c.tickets(st, 2, sb, "notarization")
			not := &miner.Notarization{BlockID: sb.Hash, Round: sb.Round, VerificationTickets: tk, Block: sb} // Block is not transmitted (json:"-")
			e := wire(not, "block_notarization", true).(*miner.Notarization)
			if _, err := mc.GetBlock(w.Ctx, sb.Hash); err != nil {
				tr.Probe("notarization_for_unknown_block")
				tr.Fault("notarization_before_block")
			}
			if via == 0 {
				if _, err := miner.NotarizationReceiptHandler(ctx, e); err != nil {
					panic(err)
				}
			} else {
				msg := miner.NewBlockMessage(miner.MessageNotarization, from.Node, nil, nil)
				msg.Notarization = e
				mc.HandleNotarizationMessage(w.Ctx, msg)
			}
			tr.Event("notarization b%d from=%d via=%d tickets=[%s]", st.A, from.Idx, via, desc)
		case "nblock":
			out := sb.Clone()
			tk, desc := c.tickets(st, 2, sb, "notarized_block")
			out.VerificationTickets = tk
			e := wire(out, "block", true).(*block.Block)
			if via == 0 {
				if _, err := miner.NotarizedBlockHandler(ctx, e); err != nil {
					panic(err)
				}
			} else {
				mc.HandleNotarizedBlockMessage(w.Ctx, &miner.BlockMessage{Sender: from.Node, Type: miner.MessageNotarizedBlock, Block: e})
			}
			tr.Event("notarized_block b%d from=%d via=%d tickets=[%s]", st.A, from.Idx, via, desc)
		default:
			continue
		}
		tr.Outcome(st.Op)
		settle(20 * time.Millisecond)
		check(st.Op)
	}
	settle(40 * time.Second)
	check("final")
	return tr.Result(p.Seed)
}

// simplifyC31 proposes smaller plans: a ticket triple removed from a message,
// an invalid ticket kind turned into a valid one, the full handler path.
func simplifyC31(p *sim.Plan) []*sim.Plan {
	var out []*sim.Plan
	for si, st := range p.Steps {
		if st.Op == "wait" {
			continue
		}
		for i := 2; i+2 < len(st.I); i += 3 {
			q := p.Clone()
			q.Steps[si].I = append(append([]int64{}, st.I[:i]...), st.I[i+3:]...)
			if st.Op == "ticket" {
				continue
			}
			out = append(out, q)
		}
		if len(st.I) > 1 && st.I[1] != 0 {
			q := p.Clone()
			q.Steps[si].I[1] = 0
			out = append(out, q)
		}
	}
	for _, k := range []string{"blocks", "sharders"} {
		if p.CfgInt(k, 1) > 1 {
			q := p.Clone()
			q.Cfg[k] = p.CfgInt(k, 1) - 1
			out = append(out, q)
		}
	}
	return out
}
