package nut

import (
	"bytes"
	"context"
	"encoding/json"
	"fmt"
	"net/http/httptest"
	"runtime"
	"runtime/debug"
	"testing/synctest"
	"time"

	"0chain.net/chaincore/block"
	"0chain.net/chaincore/chain"
	"0chain.net/core/encryption"

	"verif/sim"
)

func init() {
	sim.Register(&sim.Check{
		ID: "C41", Title: "LFB tickets are authentic and never move backwards", World: "nut",
		Gen: genC41, Exec: execC41,
		Quick:    sim.Budget{Runs: 640, WallS: 50},
		Thorough: sim.Budget{Runs: 120000, WallS: 720}, HangS: 120,
		LevelText: "seeded search: the real LFB ticket worker of one node (miner or sharder identity) is fed seeded streams of received tickets (any round; signed by sharders, miners, former members, unknown nodes; " +
			"tampered fields and signatures; bursts) interleaved with local broadcasts and kicks; a clean batch is evidence, not proof",
		LevelNote: "real: chain.StartLFBTicketWorker (goroutine inside the bubble), chain.LFBTicketHandler fed with an in-memory *http.Request (JSON decoding, verifyLFBTicket, AddReceivedLFBTicket), BroadcastLFBTicket (sharder identity), " +
			"AddReceivedLFBTicket with a blank ticket (the miner's own bumpLFBTicket kick), GetLatestLFBTicket read only at quiescence (synctest.Wait()), the rebroadcast timer on the fake clock, sendLFBTicket into the captured LFBTicketSender. " +
			"Bypassed: the HTTP mux / N2NRateLimit / ToJSONResponse wrappers around the handler. Single tickets: handler on the NUT's chain, then synctest.Wait(). Bursts (k tickets queued when the worker wakes, plan order): " +
			"each ticket passes the shipped handler (decode + verifyLFBTicket) on a shadow chain.Chain with the same magic blocks and current round; the accepted ones are then pushed into the NUT's queue with the exported " +
			"AddReceivedLFBTicket (the call the handler makes) in one loop of buffered channel sends under GOMAXPROCS(1) with GC off, while the worker is parked, so the queue content at wake-up is the plan's, not the Go scheduler's. " +
			"The oracle verifies the adopted ticket itself with the shipped signature scheme against the sharder pool of the node's current magic block",
		Technique: "deterministic simulation: real ticket worker in a synctest bubble, byzantine ticket injection through the real handler, quiescence-only observation",
		DesignRef: "6/C41, 8", Regime: "single-threaded event loop inside a synctest bubble; synctest.Wait() after every input (after the last ticket of a burst)",
		Components: sim.Components{
			Real: []string{"chaincore/chain/protocol_lfb_ticket.go (StartLFBTicketWorker, LFBTicketHandler, verifyLFBTicket, BroadcastLFBTicket, AddReceivedLFBTicket, GetLatestLFBTicket, sendLFBTicket)", "chaincore/node registry and pools", "core/encryption (BLS0Chain)"},
			Sim:  []string{"ticket senders (sharders, miners, former members, unknown nodes)", "transport", "clock", "local finalisation events (blocks handed to BroadcastLFBTicket)"},
			Stub: []string{"HTTP server wrappers", "RocksDB (simulated disk)", "redis (empty in-memory datastore.Store)"},
		},
		Assumptions: []string{
			"'sharder of the current magic block' = member of GetCurrentMagicBlock().Sharders of the node; former members are modelled as nodes present in the node registry but absent from the magic block",
			"a ticket with an empty signature that the worker adopts is legitimate only if it is the node's own kick (AddReceivedLFBTicket called locally), never one that came through the handler",
		},
	})
}

var c41Signers = []string{"sharder", "miner", "retired", "unknown", "self", "oldmb"}
var c41Tampers = []string{"none", "badsig", "round_after_sign", "hash_after_sign", "id_swap", "emptysig", "malformed"}

func genC41(seed uint64, tier string) *sim.Plan {
	r := sim.NewRNG(seed).Child("plan")
	sw := sim.NewRNG(seed).Child("swarm")
	p := &sim.Plan{Cfg: map[string]int64{
		"miners":   int64(sw.Range(2, 5)),
		"sharders": int64(sw.Range(2, 5)),
		"self":     int64(sw.Intn(2)), // 0 miner, 1 sharder
	}}
	if sw.Bool(0.4) {
		// two magic blocks in the chain: an older one from round 0 with two more sharders, the current one from this round on
		p.Cfg["old_mb_start"] = int64(sw.Range(6, 120))
		p.Cfg["cur_round"] = int64(sw.Pick([]int{1, 1})) * (p.Cfg["old_mb_start"] + int64(sw.Range(5, 30)))
	}
	byz := sw.Pick([]int{1, 2, 3})
	one := func() []int64 {
		signer, tamper := 0, 0
		if byz == 1 && r.Bool(0.25) || byz == 2 && r.Bool(0.6) {
			if r.Bool(0.6) {
				signer = 1 + r.Intn(len(c41Signers)-1)
			}
			if r.Bool(0.5) {
				tamper = 1 + r.Intn(len(c41Tampers)-1)
			}
		}
		if p.Cfg["old_mb_start"] > 0 && r.Bool(0.25) {
			signer, tamper = 5, 0 // a sharder of the older magic block only
			if r.Bool(0.15) {
				tamper = 1 + r.Intn(len(c41Tampers)-1)
			}
		}
		delta := int64(r.Pick([]int{1, 1, 2, 6, 4, 2, 1, 1})) - 3 // -3 .. +4
		if r.Bool(0.05) {
			delta = int64(r.Range(5, 1000))
		}
		return []int64{int64(signer), int64(tamper), delta, int64(r.Intn(8)), int64(r.Intn(4096))}
	}
	n := r.Range(4, 30)
	if tier == "thorough" {
		n = r.Range(4, 60)
	}
	for i := 0; i < n; i++ {
		switch r.Pick([]int{10, 3, 2, 2, 2}) {
		case 0:
			p.Steps = append(p.Steps, sim.Step{Op: "recv", I: one()})
		case 1:
			st := sim.Step{Op: "burst"}
			k := r.Range(2, 6)
			for j := 0; j < k; j++ {
				st.I = append(st.I, one()...)
			}
			if r.Bool(0.5) {
				// genuine sharder tickets at both ends: a fresh round first, a stale or lower one last (or the reverse)
				hi := []int64{0, 0, int64(r.Range(1, 4)), int64(r.Intn(8)), int64(r.Intn(4096))}
				lo := []int64{0, 0, int64(r.Range(-3, 0)), int64(r.Intn(8)), int64(r.Intn(4096))}
				if r.Bool(0.25) {
					hi, lo = lo, hi
				}
				copy(st.I[:5], hi)
				copy(st.I[len(st.I)-5:], lo)
			}
			p.Steps = append(p.Steps, st)
		case 2:
			p.Steps = append(p.Steps, sim.Step{Op: "bcast", I: []int64{int64(r.Range(-2, 4))}})
		case 3:
			p.Steps = append(p.Steps, sim.Step{Op: "kick", I: []int64{int64(r.Range(-2, 4))}})
		case 4:
			p.Steps = append(p.Steps, sim.Step{Op: "wait", I: []int64{int64(r.Pick([]int{3, 1})), int64(r.Range(1, 40))}})
		}
		if r.Bool(0.1) && len(p.Steps) > 0 {
			p.Steps = append(p.Steps, p.Steps[r.Intn(len(p.Steps))]) // replay of an earlier input
		}
	}
	return p
}

func execC41(env *sim.Env, p *sim.Plan) *sim.Result {
	return InBubble(env.T, p.Seed, func() *sim.Result { return runC41(env, p) })
}

func runC41(env *sim.Env, p *sim.Plan) *sim.Result {
	tr := sim.NewTrace()
	tr.Keep = env.KeepLog
	selfType := "miner"
	if p.CfgInt("self", 0) == 1 {
		selfType = "sharder"
	}
	w := NewWorld(WorldCfg{Seed: p.Seed, Miners: max(2, int(p.CfgInt("miners", 3))), Sharders: max(2, int(p.CfgInt("sharders", 3))), T: 2, Threshold: 66, SelfType: selfType, NoDKG: true, OldMBStart: p.CfgInt("old_mb_start", 0)})
	defer w.Close()
	c := w.C
	if cr := p.CfgInt("cur_round", 0); cr > 0 && w.OldMB != nil {
		c.SetCurrentRound(cr) // the node works in the range of the current magic block
	}
	if w.OldMB != nil {
		tr.Fault("two_magic_blocks")
		if cur := c.GetCurrentMagicBlock(); cur != w.MB {
			panic("current magic block is not the newer one")
		}
	}
	go c.StartLFBTicketWorker(w.Ctx, w.GB)
	synctest.Wait()

	mbSharders := map[string]*Peer{}
	for _, s := range w.Sharders {
		mbSharders[s.ID()] = s
	}
	classOf := func(id string) string {
		if id == w.Self.ID() {
			return "self"
		}
		if _, ok := mbSharders[id]; ok {
			return "sharder"
		}
		for _, m := range w.Miners {
			if m.ID() == id {
				return "miner"
			}
		}
		for _, m := range w.Retired {
			if m.ID() == id {
				return "former-member"
			}
		}
		for _, m := range w.OldSharders {
			if m.ID() == id {
				return "old-mb-sharder"
			}
		}
		return "unknown"
	}
	kicks := map[int64]bool{}
	last := c.GetLatestLFBTicket(w.Ctx)
	if last == nil {
		panic("no initial ticket")
	}
	tr.Event("boot self=%s latest=%d own=%v", selfType, last.Round, last.IsOwn)

	observe := func(what string) {
		synctest.Wait()
		tk := c.GetLatestLFBTicket(w.Ctx)
		if tk == nil {
			panic("GetLatestLFBTicket returned nil")
		}
		if tk.Round < last.Round {
			tr.Violate(&sim.Violation{Prop: "C41", Oracle: "monotone", Sig: "C41/latest-ticket-round-decreased",
				Detail: fmt.Sprintf("reported latest ticket round went from %d to %d after %s", last.Round, tk.Round, what)})
		}
		changed := tk != last
		if changed {
			switch {
			case tk.IsOwn:
				tr.Probe("own_ticket_adopted")
				if tk.SharderID != w.Self.ID() {
					tr.Violate(&sim.Violation{Prop: "C41", Oracle: "authentic", Sig: "C41/own-ticket-foreign-id", Detail: "ticket flagged IsOwn names another node"})
				}
			case tk.Sign == "":
				if !kicks[tk.Round] {
					tr.Violate(&sim.Violation{Prop: "C41", Oracle: "authentic", Sig: "C41/adopted-unsigned-received-ticket",
						Detail: fmt.Sprintf("latest ticket (round %d) has no signature and is not a local kick", tk.Round)})
				} else {
					tr.Probe("kick_adopted")
				}
			default:
				cls := classOf(tk.SharderID)
				ok := false
				if s := mbSharders[tk.SharderID]; s != nil {
					ss := encryption.GetSignatureScheme("bls0chain")
					if err := ss.SetPublicKey(s.Node.PublicKey); err == nil {
						ok, _ = ss.Verify(tk.Sign, tk.Hash())
					}
					if !ok {
						cls = "sharder-bad-signature"
					}
				}
				if ok && mbShardersOfChain(c, tk.SharderID) {
					tr.Probe("valid_sharder_ticket_adopted")
				} else {
					tr.Violate(&sim.Violation{Prop: "C41", Oracle: "authentic", Sig: "C41/adopted-ticket-not-from-mb-sharder/signer=" + cls,
						Detail: fmt.Sprintf("after %s the node reports as latest a received ticket round=%d sharder_id=%s.. which is not validly signed by a sharder of its current magic block (signer class: %s)", what, tk.Round, short(tk.SharderID), cls)})
				}
			}
		}
		tr.Event("latest round=%d by=%s own=%v signed=%v changed=%v out=%v", tk.Round, classOf(tk.SharderID), tk.IsOwn, tk.Sign != "", changed, w.TakeOut())
		tr.State(fmt.Sprintf("%d/%s/%v", tk.Round, classOf(tk.SharderID), tk.IsOwn))
		last = tk
	}

	// Shadow chain for bursts (see the burst step): same magic blocks and current round as the NUT's chain, no workers.
	shadow := chain.Provider().(*chain.Chain)
	if w.OldMB != nil {
		shadow.SetMagicBlock(w.OldMB)
	}
	shadow.SetMagicBlock(w.MB)
	if cr := c.GetCurrentRound(); cr > 0 {
		shadow.SetCurrentRound(cr)
	}
	if shadow.GetCurrentMagicBlock() != c.GetCurrentMagicBlock() {
		panic("shadow chain disagrees on the current magic block")
	}
	doneCtx, doneCancel := context.WithCancel(w.Ctx)
	doneCancel()
	inBurst := false
	var pending []*chain.LFBTicket

	send := func(a []int64) string {
		signerK := c41Signers[int(a[0])%len(c41Signers)]
		tamper := c41Tampers[int(a[1])%len(c41Tampers)]
		rn := last.Round + a[2]
		if rn < 0 {
			rn = 0
		}
		var s *Peer
		switch signerK {
		case "sharder":
			s = w.Sharders[int(a[3])%len(w.Sharders)]
			if s == w.Self {
				s = w.Sharders[(int(a[3])+1)%len(w.Sharders)]
			}
		case "miner":
			s = w.Miners[int(a[3])%len(w.Miners)]
			if s == w.Self {
				s = w.Miners[(int(a[3])+1)%len(w.Miners)]
			}
			tr.Fault("ticket_signed_by_miner")
		case "retired":
			s = w.Retired[int(a[3])%len(w.Retired)]
			tr.Fault("ticket_signed_by_former_member")
		case "unknown":
			s = w.Unknown[int(a[3])%len(w.Unknown)]
			tr.Fault("ticket_signed_by_unknown_node")
		case "oldmb":
			if len(w.OldSharders) == 0 {
				s = w.Retired[int(a[3])%len(w.Retired)]
				tr.Fault("ticket_signed_by_former_member")
				break
			}
			s = w.OldSharders[int(a[3])%len(w.OldSharders)]
			tr.Fault("ticket_signed_by_old_mb_sharder")
			if rn < w.MB.StartingRound {
				tr.Fault("old_mb_sharder_ticket_for_round_in_old_mb_range")
			}
		default: // claims to be the NUT itself, signed by somebody else
			s = w.Sharders[int(a[3])%len(w.Sharders)]
			if s == w.Self {
				s = w.Miners[len(w.Miners)-1]
			}
			tr.Fault("ticket_claims_own_id")
		}
		tk := &chain.LFBTicket{Round: rn, SharderID: s.ID(), LFBHash: encryption.Hash(fmt.Sprintf("lfb-%d-%d", rn, a[4]%3))}
		if signerK == "self" {
			tk.SharderID = w.Self.ID()
		}
		sig, err := s.SS.Sign(tk.Hash())
		if err != nil {
			panic(err)
		}
		tk.Sign = sig
		body := []byte(nil)
		switch tamper {
		case "badsig":
			tk.Sign = flipHexBit(tk.Sign, int(a[4]))
			tr.Fault("tamper_signature")
		case "round_after_sign":
			tk.Round += 1 + a[4]%5
			tr.Fault("tamper_round")
		case "hash_after_sign":
			tk.LFBHash = encryption.Hash(fmt.Sprintf("other-%d", a[4]))
			tr.Fault("tamper_lfb_hash")
		case "id_swap":
			o := w.Sharders[(int(a[3])+1)%len(w.Sharders)]
			if o.ID() == tk.SharderID {
				o = w.Sharders[(int(a[3])+2)%len(w.Sharders)]
			}
			tk.SharderID = o.ID()
			tr.Fault("tamper_sharder_id")
		case "emptysig":
			tk.Sign = ""
			tr.Fault("tamper_empty_signature")
		case "malformed":
			body = []byte(`{"round": "x", "sharder_id": 7`)
			tr.Fault("malformed_json")
		}
		if body == nil {
			body, _ = json.Marshal(tk)
		}
		req := httptest.NewRequest("POST", "/v1/block/get/latest_finalized_ticket", bytes.NewReader(body))
		var herr error
		if !inBurst {
			_, herr = chain.LFBTicketHandler(w.Ctx, req)
		} else {
			// burst: the shipped handler (decode + verifyLFBTicket) runs against the shadow chain, which has the same magic
			// blocks and current round but no worker; what it accepts is queued for the gated enqueue below
			chain.SetServerChain(shadow)
			_, herr = chain.LFBTicketHandler(doneCtx, req)
			chain.SetServerChain(c)
			if herr == nil {
				var acc chain.LFBTicket
				if err := json.Unmarshal(body, &acc); err != nil {
					panic(err)
				}
				pending = append(pending, &acc)
			}
		}
		if tk.Round <= last.Round {
			tr.Fault("stale_round_ticket")
		}
		tr.Outcome(fmt.Sprintf("recv/%s/%s/%v", signerK, tamper, herr == nil))
		return fmt.Sprintf("%s/%s/r%+d/acc=%v", signerK, tamper, tk.Round-last.Round, herr == nil)
	}

	for _, st := range p.Steps {
		switch st.Op {
		case "recv":
			if len(st.I) < 5 {
				continue
			}
			d := send(st.I[:5])
			tr.Event("recv %s", d)
			observe("a received ticket " + d)
		case "burst":
			// k tickets are in the worker's queue when it wakes up, in the plan's order. How many tickets are queued when
			// the worker runs is otherwise up to the Go scheduler (the handler's BLS check is a cgo call during which the
			// worker gets a P), so a burst is made in two phases: (1) every ticket goes through the shipped handler on the
			// shadow chain, (2) the accepted ones are pushed into the real queue with the exported AddReceivedLFBTicket
			// (what the handler calls) in one tight loop of buffered channel sends while the worker, parked in its select,
			// cannot get a processor: GOMAXPROCS(1), no cgo, no allocation, GC off.
			var ds []string
			inBurst, pending = true, pending[:0]
			for i := 0; i+5 <= len(st.I); i += 5 {
				ds = append(ds, send(st.I[i:i+5]))
			}
			inBurst = false
			if len(ds) == 0 {
				continue
			}
			if len(pending) > 90 {
				pending = pending[:90] // queue capacity is 100
			}
			synctest.Wait() // the worker is parked in its select
			gc := debug.SetGCPercent(-1)
			procs := runtime.GOMAXPROCS(1)
			for _, tk := range pending {
				c.AddReceivedLFBTicket(w.Ctx, tk)
			}
			runtime.GOMAXPROCS(procs)
			debug.SetGCPercent(gc)
			if len(pending) > 1 {
				tr.Fault("several_tickets_queued_at_once")
				lo, hi := false, false
				for _, tk := range pending {
					lo = lo || tk.Round <= last.Round
					hi = hi || tk.Round > last.Round
				}
				if lo && hi && pending[len(pending)-1].Round <= last.Round {
					tr.Fault("queue_ends_with_stale_ticket_after_fresh_one")
				}
			}
			tr.Fault("burst")
			tr.Event("burst %v queued=%d", ds, len(pending))
			tr.Outcome("burst")
			observe(fmt.Sprintf("a burst of %d tickets", len(ds)))
		case "bcast":
			rn := last.Round + st.Int(0, 1)
			if rn < 0 {
				rn = 0
			}
			b := block.NewBlock(c.GetKey(), rn)
			b.Hash = encryption.Hash(fmt.Sprintf("local-lfb-%d", rn))
			c.BroadcastLFBTicket(w.Ctx, b)
			tr.Event("bcast round=%d", rn)
			tr.Outcome("bcast/" + selfType)
			observe("a local broadcast")
		case "kick":
			rn := last.Round + st.Int(0, 1)
			if rn < 0 {
				rn = 0
			}
			kicks[rn] = true
			c.AddReceivedLFBTicket(w.Ctx, &chain.LFBTicket{Round: rn})
			tr.Event("kick round=%d", rn)
			tr.Outcome("kick")
			observe("a local kick")
		case "wait":
			d := time.Duration(st.Int(1, 1)) * time.Second
			if st.Int(0, 0) == 1 {
				d = time.Duration(st.Int(1, 1)) * 10 * time.Millisecond
			}
			time.Sleep(d)
			tr.SimTime += d.Seconds()
			tr.Event("wait %v", d)
			tr.Outcome("wait")
			observe("a pause")
		}
	}
	return tr.Result(p.Seed)
}

func mbShardersOfChain(c *chain.Chain, id string) bool {
	mb := c.GetCurrentMagicBlock()
	return mb != nil && mb.Sharders != nil && mb.Sharders.HasNode(id)
}
