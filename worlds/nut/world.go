// Package nut is the consensus world W2 (DESIGN 3.2): ONE real node under test
// (NUT) per process — the process globals node.Self, the miner singleton and
// chain.ServerChain are re-initialised from the plan at the start of every run —
// surrounded by sim-owned peers built from the same real building blocks: real
// key pairs, real bls.DKG instances, so VRF shares, verification tickets, signed
// blocks and LFB tickets are produced by the shipped crypto and entity code.
// Peers behave honestly or byzantinely as the plan says.
//
// Every run executes inside a testing/synctest bubble: fake clock, and
// synctest.Wait() as quiescence detection after every injected message, so the
// NUT's own goroutines (message worker, block verify workers, notarization
// worker, LFB ticket worker ...) run to a standstill before the next decision.
package nut

import (
	"context"
	"encoding/hex"
	"fmt"
	"net/url"
	"runtime/debug"
	"sort"
	"strings"
	"sync"
	"sync/atomic"
	"testing"
	"testing/synctest"
	"time"

	"0chain.net/chaincore/block"
	"0chain.net/chaincore/chain"
	"0chain.net/chaincore/client"
	"0chain.net/chaincore/node"
	"0chain.net/chaincore/round"
	"0chain.net/chaincore/state"
	"0chain.net/chaincore/threshold/bls"
	"0chain.net/chaincore/transaction"
	"0chain.net/core/common"
	"0chain.net/core/config"
	"0chain.net/core/datastore"
	"0chain.net/core/encryption"
	"0chain.net/core/viper"
	"0chain.net/miner"
	"0chain.net/smartcontract/setupsc"
	"github.com/0chain/common/core/currency"

	"verif/sim"
	"verif/worlds/wkit"
)

// ---- in-memory datastore.Store (redis seam, DESIGN 1.5) ---------------------------------------------

type memStore struct{}

func (memStore) Read(context.Context, datastore.Key, datastore.Entity) error {
	return common.NewError("not_found", "sim store is empty")
}
func (memStore) Write(context.Context, datastore.Entity) error      { return nil }
func (memStore) InsertIfNE(context.Context, datastore.Entity) error { return nil }
func (memStore) Delete(context.Context, datastore.Entity) error     { return nil }
func (memStore) Merge(context.Context, datastore.Entity) error      { return nil }
func (memStore) MultiRead(context.Context, datastore.EntityMetadata, []datastore.Key, []datastore.Entity) error {
	return nil
}
func (memStore) MultiWrite(context.Context, datastore.EntityMetadata, []datastore.Entity) error {
	return nil
}
func (memStore) MultiDelete(context.Context, datastore.EntityMetadata, []datastore.Entity) error {
	return nil
}
func (memStore) AddToCollection(context.Context, datastore.CollectionEntity) error { return nil }
func (memStore) MultiAddToCollection(context.Context, datastore.EntityMetadata, []datastore.Entity) error {
	return nil
}
func (memStore) DeleteFromCollection(context.Context, datastore.CollectionEntity) error { return nil }
func (memStore) MultiDeleteFromCollection(context.Context, datastore.EntityMetadata, []datastore.Entity) error {
	return nil
}
func (memStore) GetCollectionSize(context.Context, datastore.EntityMetadata, string) int64 { return 0 }
func (memStore) IterateCollection(context.Context, datastore.EntityMetadata, string, datastore.CollectionIteratorHandler) error {
	return nil
}

// ---- process-level initialisation (outside any bubble, once) ----------------------------------------

var (
	procOnce sync.Once
	runCount int64
)

func procInit() {
	procOnce.Do(func() {
		wkit.Quiet()
		for _, sc := range []string{"faucet", "storage", "zcn", "multisig", "miner", "vesting"} {
			viper.Set("server_chain.smart_contract."+sc, true)
		}
		config.SetupDefaultConfig()
		config.SetupSmartContractConfig("/repo/docker.local")
		viper.Set("server_chain.client.signature_scheme", "bls0chain")
		viper.Set("server_chain.dkg", true)
		viper.Set("server_chain.view_change", false)
		viper.Set("server_chain.state.enabled", true)
		viper.Set("server_chain.block.min_generators", 1)
		viper.Set("server_chain.block.generators_percent", 0.2)
		viper.Set("server_chain.block.replicators", 0)
		viper.Set("server_chain.owner", encryption.Hash("verif-owner"))
		viper.Set("server_chain.messages.verification_tickets_to", "all_miners")
		viper.Set("server_chain.lfb_ticket.rebroadcast_timeout", "16s")
		config.SetServerChainID(config.GetMainChainID())
		config.Configuration().ChainID = config.GetMainChainID()
		common.SetupRootContext(context.Background())
		st := memStore{}
		chain.SetupEntity(st, "nut/boot")
		round.SetupEntity(st)
		round.SetupVRFShareEntity(st)
		block.SetupEntity(st)
		block.SetupBlockSummaryEntity(st)
		block.SetupStateChange(st)
		state.SetupPartialState(st)
		state.SetupStateNodes(st)
		client.SetupEntity(st)
		transaction.SetupEntity(st)
		miner.SetupNotarizationEntity()
		miner.SetupStartChainEntity()
		bls.SetupDKGEntity()
		setupsc.SetupSmartContracts()
		chain.SetupLFBTicketSender()
	})
}

// ---- peers ----------------------------------------------------------------------------------------

// Peer is a sim-owned agent: a real node entity, its real signature scheme
// (private key included) and, for miners, a real bls.DKG instance.
type Peer struct {
	Idx  int
	Node *node.Node
	SS   encryption.SignatureScheme
	DKG  *bls.DKG
	Kind string // miner | sharder | retired | unknown
}

func (p *Peer) ID() string { return p.Node.GetKey() }

func newPeer(kind string, typ node.NodeType, idx int, rng *sim.RNG) *Peer {
	ss := wkit.NewKeys("bls0chain", rng)
	n := node.Provider()
	n.Type = typ
	n.Host = fmt.Sprintf("%s%d.sim.invalid", kind, idx)
	n.N2NHost = n.Host
	n.Port = 7000 + idx
	n.Path = ""
	n.SetIndex = idx
	n.Status = node.NodeStatusActive
	if err := n.SetPublicKey(ss.GetPublicKey()); err != nil {
		panic(err)
	}
	n.SetSignatureSchemeType("bls0chain")
	n.Description = fmt.Sprintf("%s-%d", kind, idx)
	return &Peer{Idx: idx, Node: n, SS: ss, Kind: kind}
}

// ---- world ------------------------------------------------------------------------------------------

// Captured is one message the NUT handed to an exported sender variable.
type Captured struct {
	Kind string
	To   string
	Ent  datastore.Entity
}

type WorldCfg struct {
	Seed      uint64
	Miners    int // including the NUT (index 0)
	Sharders  int
	T         int    // DKG threshold (t-of-n)
	Threshold int    // notarization threshold_by_count (percent)
	SelfType  string // "miner" (default) | "sharder"
	NoDKG     bool   // skip DKG (C41)
	// OldMBStart > 0: the chain stores two magic blocks, an older one from round 0 whose sharders are
	// Sharders + OldSharders, and the current one from round OldMBStart whose sharders are Sharders only
	OldMBStart int64
	// OwnDKGFault: the DKG instance the NUT itself works with is inconsistent with the public polynomials of the magic
	// block: 1 = aggregated from a strict subset (>= T) of the secret shares dealt to it (what SetDKGSFromStore accepts
	// after a restart), 2 = one of the aggregated secret shares is the one dealt to another party. 0 = consistent.
	OwnDKGFault int
}

type World struct {
	Cfg      WorldCfg
	Ctx      context.Context
	Cancel   context.CancelFunc
	C        *chain.Chain
	MC       *miner.Chain
	MB       *block.MagicBlock
	GB       *block.Block
	Miners   []*Peer // [0] is the NUT when SelfType == miner
	Sharders []*Peer // [0] is the NUT when SelfType == sharder
	Retired  []*Peer // registered nodes that are not members of the magic block
	Unknown  []*Peer // never registered anywhere
	// miner-type nodes the NUT knows (node registry) that are in no magic block of this chain
	// (members of another / a later magic block, or removed by a view change)
	OutsideMiners []*Peer
	OldSharders   []*Peer           // sharders of the older magic block only (WorldCfg.OldMBStart)
	OldMB         *block.MagicBlock // nil unless OldMBStart > 0
	// NutDKG is the instance handed to mc.SetDKG. Miners[0].DKG always stays the consistent one (what the NUT's
	// key share should be); the two differ iff WorldCfg.OwnDKGFault != 0 took effect (OwnDKGBroken).
	NutDKG       *bls.DKG
	OwnDKGBroken bool
	Self         *Peer

	mu  sync.Mutex
	Out []Captured
}

func (w *World) capture(kind string) node.EntitySendHandler {
	return func(e datastore.Entity) node.SendHandler {
		return func(ctx context.Context, n *node.Node) bool {
			w.mu.Lock()
			w.Out = append(w.Out, Captured{Kind: kind, To: n.GetKey(), Ent: e})
			w.mu.Unlock()
			return true
		}
	}
}

// TakeOut returns and clears the captured outgoing messages, de-duplicated by
// (kind, entity) and sorted by kind (SendAll fans out from several goroutines;
// the order of the fan-out is not part of the observable outcome).
func (w *World) TakeOut() map[string]int {
	w.mu.Lock()
	defer w.mu.Unlock()
	m := map[string]int{}
	for _, c := range w.Out {
		m[c.Kind]++
	}
	w.Out = nil
	return m
}

// failRequestor stands in for every pull-style requestor (block fetch, state
// sync, LFB from sharders): the simulated network answers nothing.
// OutKinds returns and clears the captured outgoing messages as a sorted list of
// message kinds. Multiplicity is left out on purpose: the node may start the
// same follow-up twice from two of its own goroutines (e.g. two concurrent
// moveToNextRoundNotAhead both sending the VRF share), which is Go-scheduler
// dependent and not part of the outcome the checks look at.
func (w *World) OutKinds() []string {
	return sortedKeys(w.TakeOut())
}

func failRequestor(params *url.Values, handler datastore.JSONEntityReqResponderF) node.SendHandler {
	return func(ctx context.Context, n *node.Node) bool { return false }
}

func stack() string { return string(debug.Stack()) }

// NewWorld builds the NUT and its peers from cfg. Must be called inside the bubble.
func NewWorld(cfg WorldCfg) *World {
	w := &World{Cfg: cfg}
	n := atomic.AddInt64(&runCount, 1)
	w.Ctx, w.Cancel = context.WithCancel(context.Background())
	// The root context is a process global used by the miner for work it
	// spawns itself; it must belong to this run's bubble.
	common.SetupRootContext(w.Ctx)
	viper.Set("server_chain.block.consensus.threshold_by_count", cfg.Threshold)
	viper.Set("server_chain.block.consensus.threshold_by_stake", 0)
	chain.SetupStateDB(fmt.Sprintf("nut/%d/%d", cfg.Seed, n))
	// process-global mailbox of the (not running) node status monitor: UpdateMagicBlock posts to it
	chain.UpdateNodes = make(chan int64, 64)

	keys := sim.NewRNG(cfg.Seed).Child("keys")
	for i := 0; i < cfg.Miners; i++ {
		w.Miners = append(w.Miners, newPeer("miner", node.NodeTypeMiner, i, keys.Child(fmt.Sprintf("m%d", i))))
	}
	for i := 0; i < cfg.Sharders; i++ {
		w.Sharders = append(w.Sharders, newPeer("sharder", node.NodeTypeSharder, i, keys.Child(fmt.Sprintf("s%d", i))))
	}
	for i := 0; i < 2; i++ {
		w.Retired = append(w.Retired, newPeer("retired", node.NodeTypeSharder, 100+i, keys.Child(fmt.Sprintf("r%d", i))))
		w.Unknown = append(w.Unknown, newPeer("unknown", node.NodeTypeSharder, 200+i, keys.Child(fmt.Sprintf("u%d", i))))
	}
	for i := 0; i < 2; i++ {
		w.OutsideMiners = append(w.OutsideMiners, newPeer("outside-miner", node.NodeTypeMiner, 300+i, keys.Child(fmt.Sprintf("om%d", i))))
		if cfg.OldMBStart > 0 {
			w.OldSharders = append(w.OldSharders, newPeer("old-sharder", node.NodeTypeSharder, 400+i, keys.Child(fmt.Sprintf("os%d", i))))
		}
	}
	w.Self = w.Miners[0]
	if cfg.SelfType == "sharder" {
		w.Self = w.Sharders[0]
	}
	self := &node.SelfNode{Node: w.Self.Node}
	node.Self = self
	if err := node.Self.SetSignatureScheme(w.Self.SS); err != nil {
		panic(err)
	}

	// outgoing traffic of the NUT: exported sender variables
	miner.RoundVRFSender = w.capture("vrf_share")
	miner.VerifyBlockSender = w.capture("verify_block")
	miner.VerificationTicketSender = w.capture("ticket")
	miner.BlockNotarizationSender = w.capture("notarization")
	miner.MinerNotarizedBlockSender = w.capture("notarized_block")
	miner.NotarizedBlockSender = w.capture("notarized_block_s")
	miner.FinalizedBlockSender = w.capture("finalized_block_s")
	miner.NotarizedBlockForcePushSender = w.capture("notarized_block_force_s")
	chain.LFBTicketSender = w.capture("lfb_ticket")
	chain.MinerNotarizedBlockRequestor = failRequestor
	chain.BlockStateChangeRequestor = failRequestor
	chain.StateNodesRequestor = failRequestor
	chain.LatestFinalizedMagicBlockRequestor = failRequestor
	chain.FBRequestor = failRequestor
	miner.MinerLatestFinalizedBlockRequestor = failRequestor

	c := chain.NewChainFromConfig()
	c.SetupStateCache()
	chain.SetServerChain(c)
	miner.SetupMinerChain(c)
	mc := miner.GetMinerChain()
	w.C, w.MC = c, mc
	go c.StartLFMBWorker(w.Ctx)

	// magic block
	mb := block.NewMagicBlock()
	mb.Miners = node.NewPool(node.NodeTypeMiner)
	mb.Sharders = node.NewPool(node.NodeTypeSharder)
	for _, p := range w.Miners {
		if err := mb.Miners.AddNode(p.Node); err != nil {
			panic(err)
		}
	}
	for _, p := range w.Sharders {
		if err := mb.Sharders.AddNode(p.Node); err != nil {
			panic(err)
		}
	}
	for _, p := range w.OldSharders {
		if err := mb.Sharders.AddNode(p.Node); err != nil {
			panic(err)
		}
	}
	for _, p := range append(append([]*Peer{}, w.Retired...), w.OutsideMiners...) {
		// a known node (global registry) that is not part of the magic block
		if err := p.Node.SetPublicKey(p.Node.PublicKey); err != nil {
			panic(err)
		}
		node.RegisterNode(p.Node)
	}
	mb.N = cfg.Miners
	mb.T = cfg.T
	mb.K = cfg.Miners
	mb.MagicBlockNumber = 1
	mb.StartingRound = 0

	if !cfg.NoDKG {
		w.runDKG(mb, keys.Child("dkg"))
	}
	mb.Hash = mb.GetHash()
	w.MB = mb

	is := state.NewInitStates()
	is.States = []state.InitState{{ID: encryption.Hash("verif-genesis-wallet"), Tokens: currency.Coin(config.MaxTokenSupply)}}
	w.GB = mc.SetupGenesisBlock(encryption.Hash(fmt.Sprintf("genesis-%d", cfg.Seed)), mb, is)
	for _, p := range w.Sharders {
		p.Node.SetStatus(node.NodeStatusActive)
	}
	if !cfg.NoDKG && cfg.SelfType != "sharder" {
		if err := mc.SetDKG(w.NutDKG, mb.StartingRound); err != nil {
			panic(err)
		}
	}
	if cfg.OldMBStart > 0 {
		// the current magic block: same miners, the old-only sharders are gone
		mb2 := block.NewMagicBlock()
		mb2.Miners = node.NewPool(node.NodeTypeMiner)
		mb2.Sharders = node.NewPool(node.NodeTypeSharder)
		for _, p := range w.Miners {
			if err := mb2.Miners.AddNode(p.Node); err != nil {
				panic(err)
			}
		}
		for _, p := range w.Sharders {
			if err := mb2.Sharders.AddNode(p.Node); err != nil {
				panic(err)
			}
		}
		mb2.N, mb2.T, mb2.K = mb.N, mb.T, mb.K
		mb2.Mpks = mb.Mpks
		mb2.MagicBlockNumber = 2
		mb2.StartingRound = cfg.OldMBStart
		mb2.PreviousMagicBlockHash = mb.Hash
		mb2.Hash = mb2.GetHash()
		c.SetMagicBlock(mb2)
		w.OldMB, w.MB = mb, mb2
	}
	return w
}

// runDKG runs the real bls DKG between the miners: every party builds a
// polynomial (MakeDKG, seeded through bls.SetRandFunc), computes a share for
// every other party, every receiver validates it against the sender's public
// polynomial with the shipped ValidateShare and aggregates.
func (w *World) runDKG(mb *block.MagicBlock, rng *sim.RNG) {
	wkit.SeedBLS(rng)
	t, n := w.Cfg.T, w.Cfg.Miners
	for _, p := range w.Miners {
		p.DKG = bls.MakeDKG(t, n, p.ID())
		p.DKG.MagicBlockNumber = mb.MagicBlockNumber
		p.DKG.StartingRound = mb.StartingRound
	}
	mpks := map[bls.PartyID][]bls.PublicKey{}
	for _, p := range w.Miners {
		pub := p.DKG.GetMPKs()
		mpks[bls.ComputeIDdkg(p.ID())] = pub
		m := &block.MPK{ID: p.ID()}
		for i := range pub {
			m.Mpk = append(m.Mpk, pub[i].GetHexString())
		}
		mb.Mpks.Mpks[p.ID()] = m
	}
	for _, from := range w.Miners {
		for _, to := range w.Miners {
			sh, err := from.DKG.ComputeDKGKeyShare(bls.ComputeIDdkg(to.ID()))
			if err != nil {
				panic(err)
			}
			if !to.DKG.ValidateShare(mpks[bls.ComputeIDdkg(from.ID())], sh) {
				panic("dkg share does not validate")
			}
			if err := to.DKG.AddSecretShare(bls.ComputeIDdkg(from.ID()), sh.GetHexString(), false); err != nil {
				panic(err)
			}
		}
	}
	for _, p := range w.Miners {
		p.DKG.AggregateSecretKeyShares()
		if err := p.DKG.AggregatePublicKeyShares(mpks); err != nil {
			panic(err)
		}
	}
	w.NutDKG = w.Miners[0].DKG
	if w.Cfg.OwnDKGFault == 0 {
		return
	}
	// the NUT's own, inconsistent instance
	nut := w.Miners[0]
	bad := bls.MakeDKG(t, n, nut.ID())
	bad.MagicBlockNumber, bad.StartingRound = mb.MagicBlockNumber, mb.StartingRound
	fault := w.Cfg.OwnDKGFault
	if fault == 1 && t >= n {
		fault = 2 // no strict subset of size >= T exists
	}
	keep := n
	if fault == 1 {
		keep = t + rng.Intn(n-t) // T .. N-1 senders
	}
	order := rng.Perm(n)
	for k, fi := range order[:keep] {
		from := w.Miners[fi]
		to := bls.ComputeIDdkg(nut.ID())
		if fault == 2 && k == 0 {
			to = bls.ComputeIDdkg(w.Miners[1+rng.Intn(n-1)].ID()) // a share dealt to somebody else
		}
		sh, err := from.DKG.ComputeDKGKeyShare(to)
		if err != nil {
			panic(err)
		}
		if err := bad.AddSecretShare(bls.ComputeIDdkg(from.ID()), sh.GetHexString(), false); err != nil {
			panic(err)
		}
	}
	if !bad.HasAllSecretShares() {
		panic("inconsistent DKG instance would not be accepted by SetDKGSFromStore")
	}
	bad.AggregateSecretKeyShares()
	if err := bad.AggregatePublicKeyShares(mpks); err != nil {
		panic(err)
	}
	w.NutDKG = bad
	w.OwnDKGBroken = !bad.Si.IsEqual(&nut.DKG.Si)
}

// Close cancels everything the NUT started and lets pending fake timers fire.
func (w *World) Close() {
	w.Cancel()
	synctest.Wait()
	time.Sleep(10 * time.Minute) // fake: lets every pending timeout of the node expire
	synctest.Wait()
}

// InBubble runs f inside a fresh synctest bubble and converts panics of f into
// a result. The node's SetupRootContext parks one goroutine forever on a
// channel nobody closes; that goroutine is the only thing left in the bubble
// at the end and surfaces as synctest's "blocked goroutines remain" panic on
// the *calling* goroutine, which is recovered here (the parked goroutine is
// abandoned together with its bubble).
func InBubble(t *testing.T, seed uint64, f func() *sim.Result) (res *sim.Result) {
	procInit()
	defer func() {
		if r := recover(); r != nil {
			s := fmt.Sprint(r)
			if strings.Contains(s, "blocked goroutines remain") && res != nil {
				return
			}
			panic(r)
		}
	}()
	synctest.Test(t, func(t *testing.T) {
		defer func() {
			if r := recover(); r != nil {
				res = &sim.Result{Seed: seed, Panic: fmt.Sprintf("%v\n%s", r, stack())}
			}
		}()
		res = f()
	})
	return res
}

// ---- helpers shared by the checks ------------------------------------------------------------------

func short(s string) string {
	if len(s) > 8 {
		return s[:8]
	}
	return s
}

func sortedKeys[V any](m map[string]V) []string {
	ks := make([]string, 0, len(m))
	for k := range m {
		ks = append(ks, k)
	}
	sort.Strings(ks)
	return ks
}

func flipHexBit(s string, bit int) string {
	b, err := hex.DecodeString(s)
	if err != nil || len(b) == 0 {
		return s + "00"
	}
	bit %= len(b) * 8
	b[bit/8] ^= 1 << (bit % 8)
	return hex.EncodeToString(b)
}
