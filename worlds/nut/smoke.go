package nut

import (
	"fmt"

	"verif/sim"
)

func init() {
	sim.Register(&sim.Check{ID: "NUT0", Title: "smoke", World: "nut",
		Gen:  func(seed uint64, tier string) *sim.Plan { return &sim.Plan{} },
		Exec: execSmoke, Quick: sim.Budget{Runs: 4, WallS: 60}, Thorough: sim.Budget{Runs: 4, WallS: 60}})
}

func execSmoke(env *sim.Env, p *sim.Plan) *sim.Result {
	return InBubble(env.T, p.Seed, func() *sim.Result {
		tr := sim.NewTrace()
		w := NewWorld(WorldCfg{Seed: p.Seed, Miners: 4, Sharders: 2, T: 3, Threshold: 66})
		tr.Event("gb=%s miners=%d thr=%d", short(w.GB.Hash), w.MB.Miners.Size(), w.C.GetNotarizationThresholdCount(4))
		fmt.Println("boot ok", w.GB.Hash)
		w.Close()
		return tr.Result(p.Seed)
	})
}
