package nut

import (
	"fmt"
	"strconv"
	"testing/synctest"
	"time"

	"0chain.net/chaincore/block"
	"0chain.net/chaincore/node"
	"0chain.net/chaincore/round"
	"0chain.net/chaincore/threshold/bls"
	"0chain.net/core/datastore"
	"0chain.net/core/encryption"
	"0chain.net/miner"

	"verif/sim"
)

func init() {
	sim.Register(&sim.Check{
		ID: "C33", Title: "All miners derive the same round random seed", World: "nut",
		Gen: genC33, Exec: execC33,
		Quick:    sim.Budget{Runs: 480, WallS: 50},
		Thorough: sim.Budget{Runs: 60000, WallS: 840}, HangS: 90,
		LevelText: "seeded search: one real miner (node under test) receives seeded subsets and orders of valid and invalid VRF shares from sim-owned peers that hold real DKG key shares, " +
			"is restarted and fed other subsets; a clean batch is evidence, not proof",
		LevelNote: "real per run: bls DKG among all miners (MakeDKG, ComputeDKGKeyShare, ValidateShare, Aggregate*), miner.SetupMinerChain/SetDKG, and for incoming shares either the full path " +
			"miner.VRFShareHandler -> PushBlockMessageChannel -> MessageWorker -> HandleVRFShare -> AddVRFShare -> verifyVRFShare/verifyCachedVRFShares -> Round.AddVRFShare -> ThresholdNumBLSSigReceived -> " +
			"CalBlsGpSign -> computeRoundRandomSeed (plus the TryProposeBlock/StartVerification it triggers), or the exported mc.HandleVRFShare / mc.AddVRFShare directly (plan says which). " +
			"Bypassed: HTTP decoding and node.ValidateSenderSignature (the sim transport authenticates the sender and hands the handler the sender node), " +
			"the RoundWorker timeout loop and restartRound's network part (BumpLFBTicket, fetching the heaviest notarized block): a restart is the three calls restartRound itself makes at its end, " +
			"miner.Round.Restart + IncrementTimeoutCount + RedoVrfShare. The previous round's seed is installed with SetRandomSeed. In 30% of the plans the NUT's previous round gets its seed late (shares arriving before are cached by the node and verified by verifyCachedVRFShares afterwards). Besides shares, byzantine peers also send notarized-block messages " +
			"without a valid notarization for the round under test (miner.NotarizedBlockHandler -> handleNotarizedBlockMessage), the other received message that can write the round's seed. Oracle recomputes the seed from another share subset with the shipped recovery code on a peer's own DKG instance",
		Technique: "deterministic simulation: one real miner + sim peers with real DKG shares, byzantine share injection, round restarts, synctest bubble",
		DesignRef: "6/C33, 3.2", Regime: "single-threaded event loop inside a synctest bubble; synctest.Wait() after every injected message",
		Components: sim.Components{
			Real: []string{"chaincore/threshold/bls (DKG, Sign, VerifySignature, CalBlsGpSign/RecoverGroupSig)", "miner (VRFShareHandler, NotarizedBlockHandler/handleNotarizedBlockMessage, MessageWorker, HandleVRFShare, AddVRFShare, verifyCachedVRFShares, ThresholdNumBLSSigReceived, computeRoundRandomSeed, GetBlsMessageForRound, RedoVrfShare/addMyVRFShare, Round.Restart)",
				"chaincore/round (AddVRFShare cap, timeout counter, Restart)", "chaincore/chain (LFB ticket worker, LFMB worker, magic block storage, genesis)"},
			Sim:  []string{"peers' decision logic (which share, which tamper, when)", "transport incl. sender authentication", "clock", "round-timeout trigger"},
			Stub: []string{"HTTP layer", "block/state fetch requestors (answer nothing)", "redis (empty in-memory datastore.Store)", "RocksDB (simulated disk)"},
		},
		Assumptions: []string{
			"the transport authenticates the sender node (node.ValidateSenderSignature is modelled as passing for the node the plan names as sender)",
			"a round seed 'produced by shares' means: present only while the round holds >= t verified shares; a seed written by any other received message that proves nothing is reported (the statement quantifies over shares only; this input class is an extension, named in the violation signature)",
			"a share is valid iff it verifies, with the herumi pairing check run by the oracle, under the sender's own DKG public key share for the message of (round, the NUT's current timeout count, previous seed)",
		},
	})
}

var c33Kinds = []string{"valid", "badsig", "wrongtc", "relabel", "othersig", "wrongprev", "wronground", "garbage", "zero", "nonmember_sig", "nonmember_zero", "nonmember_replay"}

func genC33(seed uint64, tier string) *sim.Plan {
	r := sim.NewRNG(seed).Child("plan")
	sw := sim.NewRNG(seed).Child("swarm")
	n := sw.Range(3, 8)
	t := sw.Range(1, n)
	if sw.Bool(0.5) {
		t = sw.Range((n+1)/2, n)
	}
	prev := int64(sw.Uint64())
	switch sw.Intn(8) {
	case 0:
		prev = 1
	case 1:
		prev = -prev
	case 2:
		prev = int64(sw.Intn(16)) + 1
	}
	// round 1 (previous round = genesis, which holds a notarized block) is left out: a NUT that is generator would go on
	// into real block generation, which needs the redis transaction pool
	rn := int64(sw.Range(2, 40))
	if prev == 0 {
		prev = 7
	}
	p := &sim.Plan{Cfg: map[string]int64{"miners": int64(n), "t": int64(t), "sharders": int64(sw.Range(1, 3)), "round": rn, "prev": prev}}
	byz := sw.Pick([]int{2, 3, 3}) // 0: honest only, 1: light, 2: heavy
	if sw.Bool(0.3) {
		p.Cfg["late_prev"] = 1
	}
	ownFault := sw.Bool(0.3)
	if ownFault {
		p.Cfg["own_dkg_fault"] = int64(1 + sw.Intn(2))
	}
	epochs := r.Range(1, 4)
	if tier == "thorough" {
		epochs = r.Range(1, 6)
	}
	for e := 0; e < epochs; e++ {
		if r.Bool(0.6) {
			p.Steps = append(p.Steps, sim.Step{Op: "myshare"})
		}
		order := r.Perm(n - 1)
		cnt := r.Range(0, n-1+2)
		for i := 0; i < cnt; i++ {
			kind := 0
			switch byz {
			case 1:
				if r.Bool(0.25) {
					kind = 1 + r.Intn(len(c33Kinds)-1)
				}
			case 2:
				if r.Bool(0.55) {
					kind = 1 + r.Intn(len(c33Kinds)-1)
				}
			}
			a := r.Intn(n - 1)
			if i < len(order) {
				a = order[i]
			}
			tcoff := int64(0)
			if r.Bool(0.15) {
				tcoff = []int64{1, -1, 2}[r.Pick([]int{3, 2, 1})]
			}
			via := int64(r.Pick([]int{5, 2, 2}))
			p.Steps = append(p.Steps, sim.Step{Op: "share", A: a, I: []int64{int64(kind), tcoff, int64(r.Intn(4096)), via, int64(r.Intn(64))}})
			if r.Bool(0.08) {
				p.Steps = append(p.Steps, sim.Step{Op: "wait", I: []int64{int64(r.Range(1, 7000))}})
			}
			if r.Bool(0.12) { // duplicate delivery of the same step
				p.Steps = append(p.Steps, p.Steps[len(p.Steps)-1])
			}
		}
		if r.Bool(0.3) {
			p.Steps = append(p.Steps, sim.Step{Op: "myshare"})
		}
		if ownFault && r.Bool(0.8) {
			// the NUT's own share at a seeded position among the first t inputs of the epoch
			at := len(p.Steps) - cnt + r.Intn(min(cnt, t)+1)
			at = min(max(at, 0), len(p.Steps))
			p.Steps = append(p.Steps[:at], append([]sim.Step{{Op: "myshare"}}, p.Steps[at:]...)...)
		}
		if byz > 0 && r.Bool(0.12) {
			// somewhere in the epoch: a notarized-block message that proves nothing
			at := len(p.Steps) - r.Intn(min(len(p.Steps), cnt+1)+1)
			nb := sim.Step{Op: "nblock", A: r.Intn(n - 1), I: []int64{int64(r.Intn(1000)), int64(r.Intn(2))}}
			p.Steps = append(p.Steps[:at], append([]sim.Step{nb}, p.Steps[at:]...)...)
		}
		if e == 0 && p.Cfg["late_prev"] == 1 {
			at := r.Intn(len(p.Steps) + 1)
			p.Steps = append(p.Steps[:at], append([]sim.Step{{Op: "prevseed"}}, p.Steps[at:]...)...)
		}
		p.Steps = append(p.Steps, sim.Step{Op: "restart", I: []int64{int64(r.Intn(2))}})
	}
	return p
}

func execC33(env *sim.Env, p *sim.Plan) *sim.Result {
	return InBubble(env.T, p.Seed, func() *sim.Result { return runC33(env, p) })
}

type c33 struct {
	w    *World
	tr   *sim.Trace
	mr   *miner.Round
	rn   int64
	prev int64
	// delivered[(party id, share hex)] = tamper kind of the step that delivered it (for violation signatures)
	delivered map[string]string
	// round seeds that arrived inside (unverifiable) notarized-block messages
	injected         map[int64]bool
	reportedInjected bool
	// messages honest parties sign, by timeout count: GetBlsMessageForRound evaluated while the previous round's seed is known
	msgs        map[int]string
	cachedPhase bool // shares were delivered while the previous round had no seed
}

// blsMsg is the message an honest party at timeout count tc signs for the round:
// the shipped GetBlsMessageForRound evaluated on the party's own round object.
func (c *c33) blsMsg(tc int) string {
	if m, ok := c.msgs[tc]; ok {
		return m
	}
	pr := round.NewRound(c.rn)
	if tc > 0 {
		pr.SetTimeoutCount(tc)
	}
	m, err := c.w.MC.GetBlsMessageForRound(pr)
	if err != nil {
		panic(err)
	}
	c.msgs[tc] = m
	return m
}

func (c *c33) honestShare(p *Peer, tc int) string {
	return p.DKG.Sign(c.blsMsg(tc)).GetHexString()
}

// expectedSeed recovers the group signature from the shares of `members`
// (indexes into w.Miners) with the shipped recovery code running on a peer's
// DKG instance, then derives the seed the way every honest miner does.
func (c *c33) expectedSeed(members []int, tc int) (int64, string) {
	var sigs, ids []string
	for _, i := range members {
		sigs = append(sigs, c.honestShare(c.w.Miners[i], tc))
		ids = append(ids, miner.ComputeBlsID(c.w.Miners[i].ID()))
	}
	gs, err := c.w.Miners[len(c.w.Miners)-1].DKG.CalBlsGpSign(sigs, ids)
	if err != nil {
		panic(err)
	}
	rbo := encryption.Hash(gs.GetHexString())
	u, err := strconv.ParseUint(rbo[0:16], 16, 64)
	if err != nil {
		panic(err)
	}
	return int64(u), rbo
}

func runC33(env *sim.Env, p *sim.Plan) *sim.Result {
	tr := sim.NewTrace()
	tr.Keep = env.KeepLog
	n := int(p.CfgInt("miners", 4))
	t := int(p.CfgInt("t", 3))
	if t > n {
		t = n
	}
	if t < 1 {
		t = 1
	}
	w := NewWorld(WorldCfg{Seed: p.Seed, Miners: n, Sharders: int(p.CfgInt("sharders", 2)), T: t, Threshold: 66, OwnDKGFault: int(p.CfgInt("own_dkg_fault", 0))})
	defer w.Close()
	mc := w.MC
	c := &c33{w: w, tr: tr, rn: p.CfgInt("round", 5), prev: p.CfgInt("prev", 12345), delivered: map[string]string{}, injected: map[int64]bool{}, msgs: map[int]string{}}
	if c.prev == 0 {
		c.prev = 7
	}
	if c.rn < 2 {
		c.rn = 2
	}
	go w.C.StartLFBTicketWorker(w.Ctx, w.GB)
	go mc.MessageWorker(w.Ctx)
	mc.SetStarted()
	pr := mc.CreateRound(round.NewRound(c.rn - 1))
	mc.AddRound(pr)
	if !mc.SetRandomSeed(pr, c.prev) {
		panic("cannot set previous seed")
	}
	if p.CfgInt("late_prev", 0) == 1 {
		// the NUT lags: its previous round has no seed yet when the first shares arrive (they are cached);
		// honest peers know it already, so their messages are computed first
		for tc := 0; tc <= 24; tc++ {
			c.blsMsg(tc)
		}
		mc.DeleteRound(w.Ctx, pr)
		pr = mc.CreateRound(round.NewRound(c.rn - 1))
		mc.AddRound(pr)
		tr.Fault("previous_round_seed_late")
	}
	c.mr = mc.AddRound(mc.CreateRound(round.NewRound(c.rn))).(*miner.Round)
	mc.SetCurrentRound(c.rn)
	synctest.Wait()
	if w.OwnDKGBroken {
		tr.Fault("own_dkg_share_inconsistent")
	}
	tr.Event("boot n=%d t=%d round=%d prev=%x", n, t, c.rn, c.prev)
	if w.OwnDKGBroken {
		tr.Event("own dkg key share inconsistent (fault %d)", p.CfgInt("own_dkg_fault", 0))
	}

	viol := func(oracle, sig, detail string) {
		tr.Violate(&sim.Violation{Prop: "C33", Oracle: oracle, Sig: "C33/" + sig, Detail: detail})
	}

	// sim-side agreement of the shipped recovery code over subsets of several sizes (once per run)
	{
		rs := sim.NewRNG(p.Seed).Child("subsets")
		ref, _ := c.expectedSeed(rs.Perm(n)[:t], 0)
		for k := 0; k < 3; k++ {
			size := t + rs.Intn(n-t+1)
			got, _ := c.expectedSeed(rs.Perm(n)[:size], 0)
			if got != ref {
				viol("recover", "recover-subset-disagree", fmt.Sprintf("subset of size %d (t=%d) recovers seed %x, another subset %x", size, t, got, ref))
			}
		}
	}

	check := func() {
		tc := c.mr.GetTimeoutCount()
		msg := c.blsMsg(tc)
		shares := c.mr.GetVRFShares()
		valid := 0
		for _, k := range sortedKeys(shares) {
			sh := shares[k]
			party := sh.GetParty()
			var owner *Peer
			for _, m := range w.Miners {
				if party != nil && m.ID() == party.GetKey() {
					owner = m
				}
			}
			kind := c.delivered[k+"/"+sh.Share]
			if kind == "" {
				kind = "unknown-origin"
			}
			if owner == nil {
				viol("shares", "invalid-share-counted/"+kind, fmt.Sprintf("share of non-member %s is in GetVRFShares()", short(k)))
				continue
			}
			var sg bls.Sign
			// the owner's public key share as every other miner derives it from the public polynomials of the magic block
			// (an honest peer's DKG instance), not from anything the owner or the NUT holds privately
			pk := w.Miners[len(w.Miners)-1].DKG.GetPublicKeyByID(bls.ComputeIDdkg(owner.ID()))
			if err := sg.SetHexString(sh.Share); err != nil || !sg.Verify(&pk, msg) {
				viol("shares", "invalid-share-counted/"+kind, fmt.Sprintf("share %s.. of miner %d does not verify for round %d tc %d but is in GetVRFShares()", short(sh.Share), owner.Idx, c.rn, tc))
				continue
			}
			valid++
		}
		if len(shares) > t {
			tr.Probe("more_than_threshold_shares_held") // not forbidden by the statement: any >= t verified shares recover the same seed
		}
		if c.mr.HasRandomSeed() && c.injected[c.mr.GetRandomSeed()] {
			// the round's seed is the one a peer put into a notarized-block message that carries no valid notarization
			if !c.reportedInjected {
				c.reportedInjected = true
				viol("seed", "seed-taken-from-unverified-notarized-block", fmt.Sprintf("round %d has seed %x with %d verified shares (t=%d): it was copied from a notarized-block message whose notarization does not verify", c.rn, c.mr.GetRandomSeed(), valid, t))
			}
		} else if c.mr.HasRandomSeed() {
			tr.Probe("seed_complete")
			if valid < t {
				viol("seed", "seed-below-threshold", fmt.Sprintf("seed %x present with %d verified shares, t=%d", c.mr.GetRandomSeed(), valid, t))
			}
			// a different t-subset where one exists: prefer members whose shares the NUT does not hold
			var out, in []int
			for i, m := range w.Miners {
				if _, ok := shares[m.ID()]; ok {
					in = append(in, i)
				} else {
					out = append(out, i)
				}
			}
			sub := append(out, in...)[:t]
			want, rbo := c.expectedSeed(sub, tc)
			if got := c.mr.GetRandomSeed(); got != want {
				viol("seed", "seed-mismatch", fmt.Sprintf("NUT seed %x for round %d tc %d, another %d-subset of shares gives %x", got, c.rn, tc, t, want))
			} else if c.mr.GetVRFOutput() != rbo {
				viol("seed", "vrf-output-mismatch", "VRFOutput differs from the hash of the group signature")
			}
			if len(out) > 0 {
				tr.Probe("compared_with_disjoint_member")
			}
		}
		if c.cachedPhase && valid > 0 {
			c.cachedPhase = false
			tr.Probe("cached_shares_verified_after_previous_seed_arrived")
		}
		if !c.mr.HasRandomSeed() && valid >= t {
			tr.Probe("threshold_verified_shares_held_but_no_seed") // liveness only, outside the statement (see NOTES.md)
		}
		tr.Event("state tc=%d shares=%d valid=%d seed=%x phase=%d", tc, len(shares), valid, c.mr.GetRandomSeed(), c.mr.GetPhase())
		tr.State(fmt.Sprintf("%d/%d/%v/%d", tc, len(shares), c.mr.HasRandomSeed(), c.mr.GetPhase()))
	}

	nonMembers := append(append([]*Peer{}, w.Sharders...), w.Retired...)
	for _, st := range p.Steps {
		switch st.Op {
		case "wait":
			d := time.Duration(st.Int(0, 1)) * time.Millisecond
			time.Sleep(d)
			synctest.Wait()
			tr.SimTime += d.Seconds()
			tr.Event("wait %v", d)
			tr.Outcome("wait")
		case "prevseed":
			ok := false
			if ppr := mc.GetMinerRound(c.rn - 1); ppr != nil && !ppr.HasRandomSeed() {
				ok = mc.SetRandomSeed(ppr, c.prev)
			}
			tr.Event("prevseed set=%v", ok)
			tr.Outcome("prevseed")
		case "nblock":
			// a notarized-block message for the round under test whose block names an arbitrary round seed and carries
			// no (or forged) tickets; sender: any miner
			members := w.Miners[1:]
			sender := members[st.A%len(members)]
			b := block.NewBlock(mc.GetKey(), c.rn)
			b.MinerID = sender.ID()
			b.PrevHash = encryption.Hash(fmt.Sprintf("prev-%d", st.Int(0, 0)))
			b.CreationDate = w.GB.CreationDate + 5
			b.LatestFinalizedMagicBlockHash = w.GB.Hash
			b.ClientStateHash = w.GB.ClientStateHash
			x := int64(0x1234567) + st.Int(0, 0)
			b.SetRoundRandomSeed(x)
			b.HashBlock()
			sig, err := sender.SS.Sign(b.Hash)
			if err != nil {
				panic(err)
			}
			b.Signature = sig
			if st.Int(1, 0) == 1 {
				b.VerificationTickets = []*block.VerificationTicket{{VerifierID: sender.ID(), Signature: flipHexBit(sig, 3)}}
			}
			c.injected[x] = true
			e := datastore.GetEntityMetadata("block").Instance()
			if err := datastore.FromMsgpack(datastore.ToMsgpack(b), e); err != nil {
				panic(err)
			}
			ctx := node.WithSenderValidateFunc(node.WithNode(w.Ctx, sender.Node), func() error { return nil })
			if _, err := miner.NotarizedBlockHandler(ctx, e); err != nil {
				panic(err)
			}
			synctest.Wait()
			time.Sleep(1100 * time.Millisecond)
			synctest.Wait()
			tr.Fault("notarized_block_message_without_notarization")
			tr.Event("nblock from=%d rrs=%x tickets=%d", sender.Idx, x, len(b.VerificationTickets))
			tr.Outcome("nblock")
		case "myshare":
			ok := mc.RedoVrfShare(w.Ctx, c.mr)
			synctest.Wait()
			if vs := c.mr.VrfShare(); vs != nil {
				c.delivered[w.Self.ID()+"/"+vs.Share] = "own"
			}
			if ok && w.OwnDKGBroken {
				tr.Fault("own_vrf_share_from_inconsistent_key")
			}
			tr.Event("myshare redo=%v out=%v", ok, w.OutKinds())
			tr.Outcome("myshare")
		case "restart":
			if c.mr.GetPhase() >= round.Share {
				// Round.Restart would return with its mutex held (C37 territory); not reachable here
				tr.Outcome("restart/skipped")
				continue
			}
			hadSeed := c.mr.HasRandomSeed()
			c.reportedInjected = false
			err := c.mr.Restart()
			c.mr.IncrementTimeoutCount(c.prevSeed(), mc.GetMiners(c.rn))
			redo := false
			if st.Int(0, 0) == 1 {
				redo = mc.RedoVrfShare(w.Ctx, c.mr)
				if vs := c.mr.VrfShare(); vs != nil {
					c.delivered[w.Self.ID()+"/"+vs.Share] = "own"
				}
			}
			synctest.Wait()
			tr.Fault("round_restart")
			if hadSeed {
				tr.Probe("restart_after_completion")
			}
			tr.Event("restart err=%v redo=%v out=%v", err, redo, w.OutKinds())
			tr.Outcome("restart")
		case "share":
			kind := c33Kinds[int(st.Int(0, 0))%len(c33Kinds)]
			tc := c.mr.GetTimeoutCount()
			off := int(st.Int(1, 0))
			if tc+off < 0 {
				off = 0
			}
			members := w.Miners[1:]
			sender := members[st.A%len(members)]
			other := members[(st.A+1+int(st.Int(4, 0))%max(len(members)-1, 1))%len(members)]
			vr := &round.VRFShare{Round: c.rn, RoundTimeoutCount: tc + off}
			switch kind {
			case "valid":
				vr.Share = c.honestShare(sender, tc+off)
				if off != 0 {
					kind = "valid_other_tc"
					tr.Fault("share_other_timeout_count")
				}
			case "badsig":
				vr.Share = flipHexBit(c.honestShare(sender, tc+off), int(st.Int(2, 0)))
				tr.Fault("share_bad_signature")
			case "wrongtc":
				// labelled with the NUT's timeout count, signed for another one
				d := off
				if d == 0 {
					d = 1
				}
				vr.RoundTimeoutCount = tc
				vr.Share = c.honestShare(sender, tc+abs(d))
				tr.Fault("share_wrong_timeout_count")
			case "relabel":
				// signed for the NUT's timeout count, labelled with a later one (cached, verified after a restart)
				vr.RoundTimeoutCount = tc + 1
				vr.Share = c.honestShare(sender, tc)
				tr.Fault("share_relabelled_timeout_count")
			case "othersig":
				if other == sender {
					tr.Outcome("share/skip")
					continue
				}
				vr.Share = c.honestShare(other, tc+off)
				tr.Fault("share_of_other_party")
			case "wrongprev":
				m := fmt.Sprintf("%v%v%v", c.rn, tc+off, strconv.FormatInt(c.prev+1+st.Int(2, 0), 16))
				vr.Share = sender.DKG.Sign(m).GetHexString()
				tr.Fault("share_wrong_previous_seed")
			case "wronground":
				m := fmt.Sprintf("%v%v%v", c.rn+1, tc+off, strconv.FormatInt(c.prev, 16))
				vr.Share = sender.DKG.Sign(m).GetHexString()
				tr.Fault("share_wrong_round")
			case "garbage":
				vr.Share = encryption.Hash(fmt.Sprintf("garbage-%d", st.Int(2, 0)))
				tr.Fault("share_garbage")
			case "zero":
				var z bls.Sign
				vr.Share = z.GetHexString()
				tr.Fault("share_zero_signature")
			case "nonmember_sig", "nonmember_zero", "nonmember_replay":
				sender = nonMembers[st.A%len(nonMembers)]
				switch kind {
				case "nonmember_sig":
					// a well-formed BLS signature on the right message under a key that is no DKG share
					var sk bls.Key
					if err := sk.SetLittleEndianMod([]byte(sender.ID())[:32]); err != nil {
						panic(err)
					}
					vr.Share = sk.Sign(c.blsMsg(tc + off)).GetHexString()
				case "nonmember_zero":
					var z bls.Sign
					vr.Share = z.GetHexString()
				default:
					vr.Share = c.honestShare(other, tc+off)
				}
				tr.Fault("share_from_non_member")
			}
			key := sender.ID() + "/" + vr.Share
			if _, dup := c.delivered[key]; dup {
				tr.Fault("duplicate_delivery")
			} else {
				if _, held := c.mr.GetVRFShares()[sender.ID()]; held {
					tr.Fault("second_share_same_sender")
				}
				c.delivered[key] = kind
			}
			via := st.Int(3, 0)
			if c.prevSeed() == 0 {
				c.cachedPhase = true
				tr.Fault("share_before_previous_seed")
			}
			c.deliver(sender.Node, vr, via)
			tr.Event("share from=%s/%d kind=%s label_tc=%d via=%d", sender.Kind, sender.Idx, kind, vr.RoundTimeoutCount, via)
			tr.Outcome("share/" + kind)
			if kind == "relabel" || kind == "valid_other_tc" && off > 0 {
				tr.Probe("share_cached_for_later_timeout")
			}
		default:
			continue
		}
		check()
	}
	tr.Event("out %v", w.OutKinds())
	return tr.Result(p.Seed)
}

func (c *c33) prevSeed() int64 {
	if pr := c.w.MC.GetMinerRound(c.rn - 1); pr != nil {
		return pr.GetRandomSeed()
	}
	return 0
}

// deliver injects a VRF share as coming from `from`.
// via 0: miner.VRFShareHandler (entity handler behind the HTTP layer) -> message channel -> MessageWorker -> HandleVRFShare
// via 1: mc.HandleVRFShare with a BlockMessage
// via 2: mc.AddVRFShare on the round
func (c *c33) deliver(from *node.Node, vr *round.VRFShare, via int64) {
	mc := c.w.MC
	switch via {
	case 0:
		ctx := node.WithSenderValidateFunc(node.WithNode(c.w.Ctx, from), func() error { return nil })
		if _, err := miner.VRFShareHandler(ctx, vr); err != nil {
			panic(err)
		}
	case 1:
		vr.SetParty(from)
		msg := miner.NewBlockMessage(miner.MessageVRFShare, from, nil, nil)
		msg.VRFShare = vr
		mc.HandleVRFShare(c.w.Ctx, msg)
	default:
		vr.SetParty(from)
		mc.AddVRFShare(c.w.Ctx, c.mr, vr)
	}
	synctest.Wait()
}

func abs(x int) int {
	if x < 0 {
		return -x
	}
	return x
}
