package store

// The SUT child process. blockdb / blockstore calls are executed in a child
// process of the worker (the same harness binary, started with
// VERIF_STORE_CHILD=1; the request loop runs from this package's init and
// never reaches the test main), so that
//   - every operation runs under a *simulated deadline*: a watchdog inside the
//     child measures the CPU time the process has burnt since the request
//     arrived (getrusage) and declares "hang" when an operation that normally
//     costs microseconds has consumed its budget of *user-mode* CPU without
//     returning (an endless loop burns user time 1:1; kernel time is not
//     counted at par because on an overloaded machine lock contention inside
//     the kernel inflates it, and wall time says nothing at all); a spinning
//     goroutine cannot be killed, the process can;
//   - a panic or a runaway allocation in the code under test cannot take the
//     worker down.
// A wall-clock fallback in the worker (stallWall) catches an operation that
// neither returns nor burns CPU (blocked).

import (
	"bufio"
	"encoding/json"
	"fmt"
	"io"
	"os"
	"os/exec"
	"os/signal"
	"sync"
	"sync/atomic"
	"syscall"
	"time"
)

const (
	childEnv      = "VERIF_STORE_CHILD"
	cpuBudgetRead = 500 * time.Millisecond   // point operations: open, read one record (normally < 1 ms)
	cpuBudgetBulk = 10000 * time.Millisecond // work proportional to the data: ReadAll (one zstd decoder per record), block build/write/read
	sysFactor     = 8                        // user+kernel CPU beyond sysFactor*budget also counts as a hang
	stallWall     = 90 * time.Second
)

func mustJSON(v any) []byte {
	b, err := json.Marshal(v)
	if err != nil {
		panic(err)
	}
	return b
}

// cpuNow returns the user-mode and kernel-mode CPU time of the process.
func cpuNow() (user, sys int64) {
	var ru syscall.Rusage
	if err := syscall.Getrusage(syscall.RUSAGE_SELF, &ru); err != nil {
		return 0, 0
	}
	return ru.Utime.Nano(), ru.Stime.Nano()
}

func budgetOf(op string) time.Duration {
	switch op {
	case "bswrite", "bsinit", "bsread", "dbput", "dbputfail", "dbsave", "dbcreate", "dbreadall":
		return cpuBudgetBulk
	}
	return cpuBudgetRead
}

// childMain serves requests from stdin until EOF.
func childMain() {
	// injected write errors (sut.go putFail) lower RLIMIT_FSIZE for one call:
	// the write must fail with EFBIG instead of the process being killed
	signal.Ignore(syscall.SIGXFSZ)
	in := bufio.NewReaderSize(os.Stdin, 1<<20)
	out := bufio.NewWriterSize(os.Stdout, 1<<20)
	var (
		outMu    sync.Mutex
		opActive atomic.Int64 // 0 idle, else budget in ns
		opUser   atomic.Int64 // user cpu at start, ns
		opSys    atomic.Int64 // kernel cpu at start, ns
	)
	send := func(r *response) {
		outMu.Lock()
		out.Write(mustJSON(r))
		out.WriteByte('\n')
		out.Flush()
		outMu.Unlock()
	}
	go func() { // watchdog
		for {
			time.Sleep(10 * time.Millisecond)
			b := opActive.Load()
			if b == 0 {
				continue
			}
			u, k := cpuNow()
			u -= opUser.Load()
			k -= opSys.Load()
			if (u > b || u+k > sysFactor*b) && opActive.Load() == b {
				send(&response{Hang: true, CPUms: u / 1e6, SysMs: k / 1e6})
				os.Exit(3)
			}
		}
	}()
	for {
		line, err := in.ReadBytes('\n')
		if len(line) > 0 {
			var q request
			if jerr := json.Unmarshal(line, &q); jerr != nil {
				send(&response{Err: "verif: bad request: " + jerr.Error()})
			} else {
				u, k := cpuNow()
				opUser.Store(u)
				opSys.Store(k)
				opActive.Store(int64(budgetOf(q.Op)))
				r := sut.handle(&q)
				opActive.Store(0)
				send(r)
			}
		}
		if err != nil {
			os.Exit(0)
		}
	}
}

// ---- worker side ---------------------------------------------------------------------------------

type sutProc struct {
	cmd *exec.Cmd
	in  io.WriteCloser
	out *bufio.Reader
	rsp chan *response
}

var (
	procMu sync.Mutex
	proc   *sutProc
)

func startProc() (*sutProc, error) {
	exe, err := os.Executable()
	if err != nil {
		return nil, err
	}
	cmd := exec.Command(exe)
	env := make([]string, 0, len(os.Environ())+2)
	for _, e := range os.Environ() {
		if len(e) >= 11 && e[:11] == "GOMAXPROCS=" {
			continue
		}
		env = append(env, e)
	}
	cmd.Env = append(env, childEnv+"=1", "GOMAXPROCS=2")
	cmd.Stderr = nil
	if os.Getenv("VERIF_STORE_DEBUG") != "" {
		cmd.Stderr = os.Stderr
	}
	cmd.SysProcAttr = &syscall.SysProcAttr{Pdeathsig: syscall.SIGKILL}
	in, err := cmd.StdinPipe()
	if err != nil {
		return nil, err
	}
	outp, err := cmd.StdoutPipe()
	if err != nil {
		return nil, err
	}
	if err := cmd.Start(); err != nil {
		return nil, err
	}
	p := &sutProc{cmd: cmd, in: in, out: bufio.NewReaderSize(outp, 1<<20), rsp: make(chan *response, 1)}
	go func() { // reader
		for {
			line, err := p.out.ReadBytes('\n')
			if len(line) > 1 {
				var r response
				if json.Unmarshal(line, &r) == nil {
					p.rsp <- &r
				} else {
					p.rsp <- &response{Dead: true, Err: "verif: unparsable answer"}
				}
			}
			if err != nil {
				p.rsp <- &response{Dead: true}
				close(p.rsp)
				return
			}
		}
	}()
	return p, nil
}

func (p *sutProc) kill() {
	p.in.Close()
	if p.cmd.Process != nil {
		p.cmd.Process.Kill()
	}
	go func() {
		for range p.rsp {
		}
	}()
	p.cmd.Wait()
}

// call sends one request to the SUT process (starting it when needed) and
// waits for the answer. Hang / Stall / Dead answers leave no SUT process
// behind; the next call starts a fresh one.
func call(q *request) *response {
	if os.Getenv("VERIF_STORE_DEBUG") != "" {
		t0 := time.Now()
		defer func() { fmt.Fprintf(os.Stderr, "call %-10s %v\n", q.Op, time.Since(t0)) }()
	}
	procMu.Lock()
	defer procMu.Unlock()
	if proc == nil {
		p, err := startProc()
		if err != nil {
			panic(fmt.Sprintf("store world: cannot start SUT process: %v", err))
		}
		proc = p
	}
	p := proc
	if _, err := p.in.Write(append(mustJSON(q), '\n')); err != nil {
		p.kill()
		proc = nil
		return &response{Dead: true, Err: "verif: write to SUT process failed"}
	}
	tm := time.NewTimer(stallWall)
	defer tm.Stop()
	select {
	case r, ok := <-p.rsp:
		if !ok || r == nil {
			r = &response{Dead: true}
		}
		if r.Hang || r.Dead {
			p.kill()
			proc = nil
		}
		return r
	case <-tm.C:
		p.kill()
		proc = nil
		return &response{Stall: true}
	}
}
