// Package store is the W3 "store world": the shipped sharder/blockdb and
// sharder/blockstore packages run on real files in a scratch directory; the
// simulator contributes seeded workloads, the crash-image manufacturer
// (image.go) and a simulated deadline for every operation (child.go).
package store

import (
	"bytes"
	"fmt"
	"os"
	"path/filepath"
	"sort"
	"strings"

	"verif/sim"
)

func init() {
	if os.Getenv(childEnv) == "1" {
		childMain() // never returns
	}
	sim.Register(&sim.Check{
		ID: "C26", Title: "Stored blocks and block databases read back exactly", World: "store",
		Gen: genC26, Exec: execC26, Simplify: simplifyC26,
		Quick:       sim.Budget{Runs: 256, WallS: 24},
		Thorough:    sim.Budget{Runs: 9000, WallS: 780},
		RunsPerProc: 9,
		HangS:       240,
		LevelText: "seeded search over block-DB and block-store workloads (record sets, key positions present/absent/before/between/beyond, compression, headers, " +
			"reopen by a fresh or by the writing object, blocks with seeded transactions/outputs/magic blocks), over process-crash points " +
			"(file images cut inside a seeded write(2) of a seeded operation) and over I/O errors partway through a seeded block-DB record write " +
			"(seeded number of bytes reaches the file, WriteData fails, the writer retries or not and carries on); a clean batch is evidence, not proof",
		LevelNote: "real files on the host file system, real blockdb/blockstore/block-entity code in a child process; crash images are manufactured from recorded file lengths and " +
			"the order of writes read off the code (append-only files: every prefix is a possible process-crash image), not by killing a process; power-loss images are explored report-only; " +
			"a hang is declared from user-mode CPU time consumed by the operation (0.5 s for point reads that cost microseconds, 10 s for bulk operations), not from wall time",
		Technique: "deterministic simulation: seeded plans, real code on real files, manufactured crash images, CPU-budget deadline per operation, model-based oracle (map of written records / projections of written blocks)",
		DesignRef: "3.3, 6/C26", Regime: "single-threaded event loop (one request at a time to the SUT process); the block store's asynchronous cache writer is awaited, not scheduled",
		Components: sim.Components{
			Real: []string{"sharder/blockdb (BlockDB Create/WriteData/Save/Open/Read/ReadAll, mapIndex, fixedKeyArrayIndex, zstd compression)",
				"sharder/blockstore (Init, BlockStore.Write/Read/ReadWithBlockSummary, zlib+msgpack files, LRU file cache)",
				"chaincore/block, chaincore/transaction, chaincore/node entities with real hashing (Block.HashBlock, Transaction.Sign, MagicBlock.GetHash)",
				"OS file system (tmpfs /dev/shm, or $VERIF_SCRATCH / $TMPDIR)"},
			Sim:  []string{"crash-image manufacturer (process-crash fatal, power-loss report-only)", "write-error injector (RLIMIT_FSIZE lowered in the SUT process for one WriteData: short write, then EFBIG)", "operation deadline (CPU budget watchdog in the SUT process)", "reference model of written records and blocks"},
			Stub: []string{},
		},
		Assumptions: []string{
			"process-crash model: completed write(2) calls survive, the in-flight one may be cut at any byte, files are written in the order the code issues the calls; crash images are built by copying prefixes, the process is not actually killed",
			"power loss (any unsynced suffix of any file lost) is report-only: the code never syncs and promises nothing",
			"each block-DB path is written once (Create, WriteData*, Save) as the package documents an immutable database; re-creating a DB over an existing path is not explored",
			"keys have exactly the DB's key length; lookups also use other lengths",
			"a key written twice may read back as either record written under it",
			"injected write error: one WriteData per fault fails like a full disk (the first bytes of the record reach the file, then EFBIG); Save and reads are not failed. A record counts as written when WriteData returned nil and Save succeeded; a key whose every write failed may be absent, unreadable or return bytes (counted, not reported) but its read must return; it is read only when the failure left the 4-byte length prefix intact, and ReadAll is not called on a DB whose data file holds a partial record (both are not repeatable on the shipped code, see NOTES.md)",
			"a point read / open that has consumed 0.5 s of user-mode CPU (or 4 s of user+kernel CPU) without returning is a hang (normal cost is microseconds to a few ms); bulk operations (ReadAll, block read/write) get 10 s; an operation that neither returns nor burns CPU for 90 s of wall time is reported as blocked",
		},
	})
}

// ---- plan ----------------------------------------------------------------------------------------

var keyLens = []int{1, 2, 4, 8, 16, 32, 64, 127}

func genC26(seed uint64, tier string) *sim.Plan {
	r := sim.NewRNG(seed).Child("plan")
	sw := sim.NewRNG(seed).Child("swarm")
	thorough := tier == "thorough"
	p := &sim.Plan{Cfg: map[string]int64{}}
	if sw.Pick([]int{62, 38}) == 0 {
		p.Cfg["mode"] = 0
		p.Cfg["keylen"] = int64(keyLens[sw.Pick([]int{6, 8, 14, 14, 12, 14, 24, 8})])
		p.Cfg["compress"] = int64(sw.Intn(2))
		p.Cfg["header"] = int64(sw.Pick([]int{40, 40, 20})) // none, small, large
		// injected write errors are drawn from a stream of their own, so the
		// fault-free part of every plan is what it was before they existed
		genDB(r, sim.NewRNG(seed).Child("plan/wfault"), p, thorough)
	} else {
		p.Cfg["mode"] = 1
		p.Cfg["cache"] = int64([]int{0, 0, 0, 1, 2, 3}[sw.Intn(6)])
		p.Cfg["scheme"] = int64(sw.Pick([]int{60, 40})) // bls0chain, ed25519
		genBS(r, p, thorough)
	}
	return p
}

// simplifyC26 proposes simpler plans to the shrinker: plainer configuration, smaller records.
func simplifyC26(p *sim.Plan) []*sim.Plan {
	var out []*sim.Plan
	for _, k := range []string{"header", "compress", "cache"} {
		if p.Cfg[k] != 0 {
			q := p.Clone()
			q.Cfg[k] = 0
			out = append(out, q)
		}
	}
	big := false
	q := p.Clone()
	for i, st := range q.Steps {
		switch st.Op {
		case "put", "dup", "putfail":
			if st.Int(1, 0) > 8 {
				q.Steps[i].I[1] = 8
				big = true
			}
		case "bswrite":
			if st.Int(1, 0) > 1 || st.Int(2, 0) > 64 {
				q.Steps[i].I[1] = min(st.Int(1, 0), 1)
				q.Steps[i].I[2] = 64
				big = true
			}
		}
	}
	if big {
		out = append(out, q)
	}
	return out
}

func step(op string, i ...int64) sim.Step { return sim.Step{Op: op, I: i} }

// genDB: r draws the fault-free workload, f the injected write errors
// ("putfail": the write of one record fails with an I/O error after a seeded
// number of its bytes reached the data file; cut mode and selector are
// resolved against the record's on-disk length at execution time), what
// follows them (a retry of the same record or not) and the extra reads of a
// generation that met one.
func genDB(r, f *sim.RNG, p *sim.Plan, thorough bool) {
	crashID := int64(0)
	crash := func() {
		crashID++
		p.Steps = append(p.Steps, step("crash", crashID, int64(r.Pick([]int{70, 30}))))
	}
	gets := func(n int) {
		for i := 0; i < n; i++ {
			kind := r.Pick([]int{44, 8, 16, 8, 12, 6, 6}) // present, before, between, beyond, random, shorter, longer
			p.Steps = append(p.Steps, step("get", int64(kind), int64(r.Intn(1<<20))))
		}
	}
	ngens := 1
	if r.Bool(0.25) {
		ngens = 2
	}
	for g := 0; g < ngens; g++ {
		p.Steps = append(p.Steps, step("newdb"))
		var n int
		switch r.Pick([]int{4, 10, 10, 44, 27, 5}) {
		case 0:
			n = 0
		case 1:
			n = 1
		case 2:
			n = 2
		case 3:
			n = r.Range(3, 8)
		case 4:
			n = r.Range(9, 40)
		default:
			n = r.Range(41, 120)
			if thorough {
				n = r.Range(41, 600)
			}
		}
		faultAt := map[int]int{}
		if f.Bool(0.4) {
			for k := 1 + f.Pick([]int{70, 30}); k > 0; k-- {
				faultAt[f.Intn(n+1)]++
			}
		}
		nfault := 0
		faults := func(at int) {
			for k := faultAt[at]; k > 0; k-- {
				var size int
				switch f.Pick([]int{4, 26, 40, 25, 5}) {
				case 0:
					size = 0
				case 1:
					size = f.Range(1, 16)
				case 2:
					size = f.Range(17, 300)
				case 3:
					size = f.Range(301, 5000)
				default:
					size = f.Range(5001, 70000)
				}
				a := []int64{int64(g*10000 + 5000 + nfault), int64(size), int64(f.Intn(1 << 30)), int64(f.Intn(3))}
				nfault++
				// cut: inside the length prefix, the prefix exactly, inside the payload, the last bytes missing
				p.Steps = append(p.Steps, step("putfail", a[0], a[1], a[2], a[3], int64(f.Pick([]int{20, 10, 50, 20})), int64(f.Intn(1<<20))))
				if f.Bool(0.6) { // room again: the caller writes the same record once more
					p.Steps = append(p.Steps, step("put", a...))
				}
			}
		}
		for i := 0; i < n; i++ {
			faults(i)
			var size int
			switch r.Pick([]int{5, 30, 40, 20, 5}) {
			case 0:
				size = 0
			case 1:
				size = r.Range(1, 16)
			case 2:
				size = r.Range(17, 300)
			case 3:
				size = r.Range(301, 5000)
			default:
				size = r.Range(5001, 70000)
			}
			op := "put"
			if r.Bool(0.05) {
				op = "dup"
			}
			p.Steps = append(p.Steps, step(op, int64(g*10000+i), int64(size), int64(r.Intn(1<<30)), int64(r.Intn(3))))
			if r.Bool(0.03) {
				crash()
			}
		}
		faults(n)
		if r.Bool(0.15) {
			crash()
		}
		p.Steps = append(p.Steps, step("save"))
		if r.Bool(0.45) {
			crash()
		}
		style := int64(r.Pick([]int{70, 30}))
		p.Steps = append(p.Steps, step("reopen", style))
		gets(r.Range(3, 12))
		if nfault > 0 {
			for k := f.Range(2, 5); k > 0; k-- {
				p.Steps = append(p.Steps, step("get", 0, int64(f.Intn(1<<20))))
			}
			for k := f.Range(0, 2); k > 0; k-- {
				p.Steps = append(p.Steps, step("get", 7, int64(f.Intn(1<<20))))
			}
		}
		if r.Bool(0.2) {
			p.Steps = append(p.Steps, step("readall"))
		}
		if r.Bool(0.3) {
			p.Steps = append(p.Steps, step("reopen", 1-style))
			gets(r.Range(2, 6))
		}
		if r.Bool(0.25) {
			crash()
		}
	}
}

func genBS(r *sim.RNG, p *sim.Plan, thorough bool) {
	crashID := int64(0)
	crash := func() {
		crashID++
		p.Steps = append(p.Steps, step("crash", crashID, int64(r.Pick([]int{70, 30}))))
	}
	reads := func(n int) {
		for i := 0; i < n; i++ {
			kind := r.Pick([]int{40, 15, 15, 6, 12, 12}) // by hash, by mb hash, absent, short, via summary, mb hash of a non-starting block
			p.Steps = append(p.Steps, step("bsread", int64(kind), int64(r.Intn(1<<20))))
		}
	}
	nb := r.Range(1, 5)
	if thorough {
		nb = r.Range(1, 9)
	}
	for i := 0; i < nb; i++ {
		var txns int
		switch r.Pick([]int{10, 45, 35, 10}) {
		case 0:
			txns = 0
		case 1:
			txns = r.Range(1, 6)
		case 2:
			txns = r.Range(7, 40)
		default:
			txns = r.Range(41, 90)
			if thorough {
				txns = r.Range(41, 400)
			}
		}
		outmax := []int64{64, 64, 64, 4096, 4096, 200000}[r.Intn(6)]
		mb := int64(r.Pick([]int{50, 32, 18}))
		p.Steps = append(p.Steps, step("bswrite", int64(r.Intn(1<<30)), int64(txns), outmax, mb,
			int64(r.Range(1, 5)), int64(r.Range(1, 3)), int64(r.Intn(7)), int64(1+r.Intn(1<<20))))
		if r.Bool(0.4) {
			crash()
		}
		if r.Bool(0.7) {
			reads(r.Range(1, 4))
		}
		if r.Bool(0.12) {
			p.Steps = append(p.Steps, step("bsrewrite", int64(r.Intn(1<<20))))
			if r.Bool(0.5) {
				crash()
			}
		}
		if r.Bool(0.15) {
			p.Steps = append(p.Steps, step("bsrestart"))
		}
	}
	reads(r.Range(2, 8))
	if r.Bool(0.3) {
		crash()
	}
}

// ---- world ---------------------------------------------------------------------------------------

type dbGen struct {
	idx     int
	name    string
	recs    map[string][][]byte // key -> payloads written under it, in order
	order   []string            // distinct keys, first-write order
	saved   bool
	saveOp  int
	writer  bool // the writing object is alive in the SUT process
	aborted bool
	// injected write errors
	failed  map[string]int64 // key -> bytes of the (last) failed write of it that reached the file
	failOrd []string         // keys with a failed write, first-failure order
	partial bool             // a failed write left bytes in the data file
}

type blk struct {
	spec    *blockSpec
	proj    *blockProj
	hash    string
	mbHash  string // key of the second copy ("" when the block is not the first of a magic block)
	otherMB string // hash of a carried magic block that must not be a key
	files   []string
	lastOp  int // last op that wrote it
	firstOp int
}

type world struct {
	tr   *sim.Trace
	p    *sim.Plan
	root string
	live string
	disk *sim.RNG

	ops         []*opRec
	lens        map[string]int64
	lastRewrite map[string]int

	// blockdb
	keylen   int
	compress bool
	header   int
	gens     []*dbGen
	cur      *dbGen
	rdGen    *dbGen // generation the SUT reader has open
	rdStyle  int
	wantGen  *dbGen // generation reads are meant to go to
	wantSty  int
	knownHng int

	// blockstore
	cache  int
	scheme string
	blocks []*blk

	done bool
	nimg int
}

func (w *world) viol(oracle, sig, detail string) {
	w.tr.Violate(&sim.Violation{Prop: "C26", Oracle: oracle, Sig: "C26/" + sig, Detail: scrub(detail, w.root)})
}

// outcome classifies an answer of the SUT process.
func outcome(r *response) string {
	switch {
	case r.Hang:
		return "hang"
	case r.Stall:
		return "blocked"
	case r.Dead:
		return "died"
	case r.Panic != "":
		return "panic"
	case r.NotFound:
		return "not-found"
	case r.Err != "":
		return "error"
	}
	return "ok"
}

func lost(r *response) bool { return r.Hang || r.Stall || r.Dead }

func scratchBase() string {
	ok := func(d string) bool {
		if d == "" {
			return false
		}
		a, err := filepath.Abs(d)
		if err != nil {
			return false
		}
		for _, bad := range []string{"/repo", "/verif"} {
			if a == bad || strings.HasPrefix(a, bad+"/") {
				return false
			}
		}
		st, err := os.Stat(a)
		return err == nil && st.IsDir()
	}
	if d := os.Getenv("VERIF_SCRATCH"); ok(d) {
		return d
	}
	if ok("/dev/shm") {
		if f, err := os.CreateTemp("/dev/shm", "verif-probe-"); err == nil {
			f.Close()
			os.Remove(f.Name())
			return "/dev/shm"
		}
	}
	return os.TempDir()
}

func execC26(env *sim.Env, p *sim.Plan) *sim.Result {
	tr := sim.NewTrace()
	tr.Keep = env.KeepLog
	root, err := os.MkdirTemp(scratchBase(), "verif-store-")
	if err != nil {
		panic(err)
	}
	defer os.RemoveAll(root) // also runs when the harness panics
	w := &world{tr: tr, p: p, root: root, live: filepath.Join(root, "live"), disk: sim.NewRNG(p.Seed).Child("disk"),
		lens: map[string]int64{}, lastRewrite: map[string]int{}}
	if err := os.MkdirAll(w.live, 0o755); err != nil {
		panic(err)
	}
	if r := call(&request{Op: "reset"}); lost(r) {
		panic("store world: SUT process does not answer a reset")
	}
	defer func() {
		// close the SUT's files before the directory goes away; a SUT that is
		// gone (hang) needs nothing
		procMu.Lock()
		alive := proc != nil
		procMu.Unlock()
		if alive {
			call(&request{Op: "reset"})
		}
	}()
	if p.CfgInt("mode", 0) == 0 {
		w.keylen = int(p.CfgInt("keylen", 8))
		w.compress = p.CfgInt("compress", 0) != 0
		w.header = int(p.CfgInt("header", 0))
		if w.compress {
			tr.Probe("compression_on")
		}
		if w.header > 0 {
			tr.Probe("db_header")
		}
		tr.Event("blockdb keylen=%d compress=%v header=%d", w.keylen, w.compress, w.header)
		for _, st := range p.Steps {
			if w.done {
				break
			}
			w.dbStep(st)
		}
	} else {
		w.cache = int(p.CfgInt("cache", 0))
		w.scheme = []string{"bls0chain", "ed25519"}[p.CfgInt("scheme", 0)%2]
		if w.cache > 0 {
			tr.Probe("cache_on")
		}
		tr.Event("blockstore cache=%d scheme=%s", w.cache, w.scheme)
		if !w.bsInit(w.live, w.cache) {
			return tr.Result(p.Seed)
		}
		for _, st := range p.Steps {
			if w.done {
				break
			}
			w.bsStep(st)
		}
	}
	return tr.Result(p.Seed)
}

// ---- file bookkeeping ----------------------------------------------------------------------------

func (w *world) snapshot() map[string]int64 {
	m := map[string]int64{}
	filepath.Walk(w.live, func(path string, info os.FileInfo, err error) error {
		if err != nil {
			return nil
		}
		rel, _ := filepath.Rel(w.live, path)
		if info.IsDir() {
			if rel == "cache" {
				return filepath.SkipDir
			}
			return nil
		}
		m[rel] = info.Size()
		return nil
	})
	return m
}

func (w *world) stateDigest() {
	keys := make([]string, 0, len(w.lens))
	for k, v := range w.lens {
		keys = append(keys, fmt.Sprintf("%s=%d", k, v))
	}
	sort.Strings(keys)
	w.tr.State(fmt.Sprintf("%016x", sim.Hash64(keys...)))
}

// record notes the file effects of the API call that just returned.
// order ranks the files in the order the operation writes them; rewritten
// lists files the operation truncates and writes again.
func (w *world) record(kind string, gen int, order func(rel string) int, rewritten []string) *opRec {
	now := w.snapshot()
	op := &opRec{kind: kind, gen: gen, after: now}
	idx := len(w.ops)
	seen := map[string]bool{}
	for _, rel := range rewritten {
		if _, ok := now[rel]; !ok {
			continue
		}
		before := int64(-1)
		if v, ok := w.lens[rel]; ok {
			before = v
		}
		op.files = append(op.files, fileDelta{rel: rel, before: before, after: now[rel], trunc: true})
		w.lastRewrite[rel] = idx
		seen[rel] = true
	}
	var rels []string
	for rel := range now {
		rels = append(rels, rel)
	}
	sort.Strings(rels)
	for _, rel := range rels {
		if seen[rel] {
			continue
		}
		before, had := w.lens[rel]
		if !had {
			before = -1
		}
		if before != now[rel] {
			op.files = append(op.files, fileDelta{rel: rel, before: before, after: now[rel]})
		}
	}
	if order != nil {
		sort.SliceStable(op.files, func(i, j int) bool { return order(op.files[i].rel) < order(op.files[j].rel) })
	}
	w.ops = append(w.ops, op)
	w.lens = now
	w.stateDigest()
	return op
}

// ---- blockdb -------------------------------------------------------------------------------------

func (w *world) key(idx int64) []byte {
	b := sim.NewRNG(w.p.Seed).Child(fmt.Sprintf("key/%d", idx)).Bytes(w.keylen)
	if w.keylen == 1 {
		b[0] = 0x10 + (b[0]%0x70)*2
		return b
	}
	b[0] = 0x10 + b[0]%0xE0
	b[w.keylen-1] &^= 1
	return b
}

func (w *world) payload(seed int64, size int, kind int64) []byte {
	r := sim.NewRNG(w.p.Seed).Child(fmt.Sprintf("rec/%d", seed))
	b := r.Bytes(size)
	switch kind {
	case 1: // compressible
		for i := range b {
			b[i] = "abcd"[b[i]&3]
		}
	case 2: // looks like a length prefix / another record
		for i := range b {
			if i%7 != 0 {
				b[i] = 0
			}
		}
	}
	return b
}

func (w *world) hdrData() []byte {
	switch w.header {
	case 1:
		return sim.NewRNG(w.p.Seed).Child("hdr").Bytes(24)
	case 2:
		return w.payload(-1, 3000, 1)
	}
	return nil
}

func styleName(s int) string {
	if s == 1 {
		return "same-object"
	}
	return "fresh-open"
}

func (w *world) klTag() string {
	if w.keylen == 127 {
		return "/keylen=max"
	}
	return ""
}

func (w *world) file(g *dbGen) string { return filepath.Join(w.live, g.name) }

// sutLost: the SUT process is gone, and with it the writer objects and the reader.
func (w *world) sutLost() {
	w.rdGen = nil
	for _, g := range w.gens {
		g.writer = false
	}
	if w.cur != nil {
		w.cur.aborted = true
		w.cur = nil
	}
}

func (w *world) dbStep(st sim.Step) {
	tr := w.tr
	switch st.Op {
	case "newdb":
		w.ensureWriter()
	case "put", "dup":
		if !w.ensureWriter() {
			return
		}
		g := w.cur
		key := w.key(st.Int(0, 0))
		if st.Op == "dup" && len(g.order) > 0 {
			key = []byte(g.order[int(st.Int(0, 0))%len(g.order)])
			tr.Probe("duplicate_key_write")
		}
		size := int(st.Int(1, 0))
		data := w.payload(st.Int(2, 0), size, st.Int(3, 0))
		if size == 0 {
			tr.Probe("empty_record")
		}
		if size > 4096 {
			tr.Probe("record_over_4k")
		}
		r := call(&request{Op: "dbput", File: w.file(g), Key: key, Data: data})
		o := outcome(r)
		tr.Event("put db%d key#%d size=%d %s", g.idx, st.Int(0, 0), size, o)
		tr.Outcome("put/" + o)
		if o != "ok" {
			w.viol("write", "blockdb/write/"+o, fmt.Sprintf("WriteData of a %d-byte record failed: %s%s", size, r.Err, r.Panic))
			if lost(r) {
				w.sutLost()
				w.done = true
			}
			return
		}
		if _, ok := g.recs[string(key)]; !ok {
			g.order = append(g.order, string(key))
			if _, failed := g.failed[string(key)]; failed {
				tr.Probe("failed_write_retried")
			}
		}
		if g.partial {
			tr.Probe("write_after_partial_write")
		}
		g.recs[string(key)] = append(g.recs[string(key)], data)
		w.record("put", g.idx, nil, nil)
	case "putfail":
		w.dbPutFail(st)
	case "save":
		g := w.cur
		if g == nil {
			tr.Outcome("save/skip")
			return
		}
		r := call(&request{Op: "dbsave", File: w.file(g)})
		o := outcome(r)
		tr.Event("save db%d keys=%d %s", g.idx, len(g.order), o)
		tr.Outcome("save/" + o)
		if o != "ok" {
			w.viol("save", "blockdb/save/"+o, "Save failed: "+r.Err+r.Panic)
			if lost(r) {
				w.sutLost()
				w.done = true
			}
			return
		}
		switch len(g.order) {
		case 0:
			tr.Probe("empty_db")
		case 1:
			tr.Probe("single_record_db")
		}
		g.saved = true
		g.saveOp = len(w.ops)
		w.cur = nil
		w.record("save", g.idx, nil, nil)
		w.wantGen, w.wantSty = g, 0
	case "reopen":
		g := w.lastSaved()
		if g == nil {
			tr.Outcome("reopen/skip")
			return
		}
		w.wantGen, w.wantSty = g, int(st.Int(0, 0))%2
		w.rdGen = nil
		w.ensureReader()
	case "get":
		w.dbGet(st)
	case "readall":
		w.dbReadAll()
	case "crash":
		w.crashStep(st)
	}
}

// dbPutFail: the write of one record fails partway with an I/O error (the
// SUT process lowers its file size limit for the call). The record is not
// acknowledged: it enters the model only through a later successful write.
func (w *world) dbPutFail(st sim.Step) {
	tr := w.tr
	if !w.ensureWriter() {
		return
	}
	g := w.cur
	key := w.key(st.Int(0, 0))
	if _, ok := g.recs[string(key)]; ok {
		// never an overwrite of an acknowledged record: which of the two a read
		// then owes is not stated by the property
		tr.Outcome("putfail/skip-written")
		return
	}
	size := int(st.Int(1, 0))
	data := w.payload(st.Int(2, 0), size, st.Int(3, 0))
	r := call(&request{Op: "dbputfail", File: w.file(g), Dir: filepath.Join(w.root, "wfprobe"), KeyLen: w.keylen, Compress: w.compress,
		Key: key, Data: data, CutMode: int(st.Int(4, 0)), CutSel: st.Int(5, 0)})
	o := outcome(r)
	if strings.HasPrefix(r.Err, "verif:") {
		panic("store world: write-error injection failed: " + scrub(r.Err, w.root))
	}
	tr.Event("putfail db%d key#%d size=%d cut=%d/%d grew=%d %s", g.idx, st.Int(0, 0), size, r.Cut, r.Total, r.Grew, o)
	tr.Outcome("putfail/" + o)
	switch {
	case lost(r) || o == "panic":
		w.viol("write-error", "blockdb/write-error/"+o, fmt.Sprintf("WriteData of a %d-byte record under an I/O error after %d of %d bytes did not return an error: %s %s", size, r.Cut, r.Total, o, r.Panic))
		if lost(r) {
			w.sutLost()
			w.done = true
		}
		return
	case o == "ok":
		if r.Grew != r.Total {
			// acknowledged although the record is not in the file in full
			w.viol("write-error", "blockdb/write-error/acknowledged", fmt.Sprintf("WriteData returned nil although only %d of the record's %d bytes reached the file", r.Grew, r.Total))
			w.record("putfail", g.idx, nil, nil)
			return
		}
		// the limit did not bite (the record is shorter than sized): an ordinary acknowledged write
		tr.Probe("write_error_not_fired")
		g.order = append(g.order, string(key))
		g.recs[string(key)] = append(g.recs[string(key)], data)
		w.record("put", g.idx, nil, nil)
		return
	}
	if r.Grew != r.Cut {
		panic(fmt.Sprintf("store world: injected write error let %d bytes through, %d meant", r.Grew, r.Cut))
	}
	switch {
	case r.Cut == 0:
		tr.Fault("write_error_nothing_written")
	case r.Cut < 4:
		tr.Fault("write_error_inside_length_prefix")
	case r.Cut == 4:
		tr.Fault("write_error_after_length_prefix")
	default:
		tr.Fault("write_error_inside_payload")
	}
	if g.failed == nil {
		g.failed = map[string]int64{}
	}
	if _, ok := g.failed[string(key)]; !ok {
		g.failOrd = append(g.failOrd, string(key))
	}
	g.failed[string(key)] = r.Cut
	if r.Cut > 0 {
		g.partial = true
	}
	w.record("putfail", g.idx, nil, nil)
}

// ensureWriter creates the next block DB when none is being written.
func (w *world) ensureWriter() bool {
	if w.cur != nil {
		return true
	}
	tr := w.tr
	g := &dbGen{idx: len(w.gens), name: fmt.Sprintf("db%d", len(w.gens)), recs: map[string][][]byte{}, writer: true}
	r := call(&request{Op: "dbcreate", File: filepath.Join(w.live, g.name), KeyLen: w.keylen, Compress: w.compress, Header: w.header > 0, HdrData: w.hdrData()})
	tr.Event("create db%d %s", g.idx, outcome(r))
	if o := outcome(r); o != "ok" {
		w.viol("create", "blockdb/create/"+o, "Create of a new block DB failed: "+r.Err+r.Panic)
		if lost(r) {
			w.sutLost()
			w.done = true
		}
		return false
	}
	w.gens = append(w.gens, g)
	w.cur = g
	w.record("create", g.idx, nil, nil)
	return true
}

func (w *world) lastSaved() *dbGen {
	for i := len(w.gens) - 1; i >= 0; i-- {
		if w.gens[i].saved {
			return w.gens[i]
		}
	}
	return nil
}

// ensureReader opens the wanted generation in the SUT process. After
// Save+Open every key must be readable, so a failing Open is a violation.
func (w *world) ensureReader() bool {
	if w.wantGen == nil {
		if g := w.lastSaved(); g != nil {
			w.wantGen, w.wantSty = g, 0
		} else {
			return false
		}
	}
	g, sty := w.wantGen, w.wantSty
	if sty == 1 && !g.writer {
		sty = 0
	}
	if w.rdGen == g && w.rdStyle == sty {
		return true
	}
	r := call(&request{Op: "dbopen", File: w.file(g), KeyLen: w.keylen, Compress: w.compress, Header: w.header > 0, Style: sty})
	o := outcome(r)
	w.tr.Event("open db%d %s %s", g.idx, styleName(sty), o)
	w.tr.Outcome("open/" + styleName(sty) + "/" + o)
	if sty == 1 {
		w.tr.Probe("same_object_reopen")
	}
	if o != "ok" {
		w.viol("open-after-save", "blockdb/"+styleName(sty)+"/open/"+o+w.klTag(),
			fmt.Sprintf("Open of a saved DB (%d keys, key length %d) failed: %s%s", len(g.order), w.keylen, r.Err, r.Panic))
		if lost(r) {
			w.sutLost()
		}
		w.wantGen = nil
		w.rdGen = nil
		if isUnknown("blockdb/" + styleName(sty) + "/open/" + o + w.klTag()) {
			w.done = true
		}
		return false
	}
	if w.header > 0 && !bytes.Equal(r.Hdr, w.hdrData()) {
		w.viol("header", "blockdb/"+styleName(sty)+"/open/header-mismatch", fmt.Sprintf("DB header read back as %d bytes, %d written", len(r.Hdr), len(w.hdrData())))
	}
	w.rdGen, w.rdStyle = g, sty
	return true
}

// isUnknown reports whether a signature (without the property prefix) is not a listed known finding.
func isUnknown(sig string) bool { return sim.IsKnown("C26", "C26/"+sig) == nil }

var getKinds = []string{"present", "absent-before", "absent-between", "absent-beyond", "absent-random", "absent-shorter", "absent-longer", "failed-write"}

func (w *world) dbGet(st sim.Step) {
	tr := w.tr
	kind := int(st.Int(0, 0)) % len(getKinds)
	sel := int(st.Int(1, 0))
	if w.wantGen == nil && w.lastSaved() == nil {
		tr.Outcome("get/skip")
		return
	}
	g := w.wantGen
	if g == nil {
		g = w.lastSaved()
	}
	if kind != 0 && w.knownHng > 0 && (w.wantSty == 0 || !g.writer) {
		// The known absent-key hang (DB reopened by a fresh object) costs a CPU
		// budget and a SUT process each time; after the first one in a run the
		// remaining absent-key lookups through a fresh object are skipped (they
		// all run once the finding is fixed). Lookups through the writing object
		// are not affected.
		tr.Probe("absent_lookup_skipped_after_known_hang")
		tr.Outcome("get/skip-known")
		return
	}
	if kind == 7 {
		w.dbGetFailed(g, sel)
		return
	}
	if !w.ensureReader() {
		tr.Outcome("get/skip")
		return
	}
	sty := styleName(w.rdStyle)
	if kind == 0 && g.partial {
		tr.Probe("read_present_after_partial_write")
	}
	sorted := append([]string{}, g.order...)
	sort.Strings(sorted)
	if kind == 0 && len(sorted) == 0 {
		kind = 4
	}
	if kind == 2 && len(sorted) < 2 {
		kind = 4
	}
	if kind == 5 && w.keylen == 1 {
		kind = 6
	}
	var key []byte
	rk := sim.NewRNG(w.p.Seed).Child(fmt.Sprintf("get/%d", sel))
	switch kind {
	case 0:
		key = []byte(g.order[sel%len(g.order)])
	case 1:
		key = bytes.Repeat([]byte{0x01}, w.keylen)
		tr.Probe("key_before")
	case 2:
		key = []byte(sorted[sel%(len(sorted)-1)])
		key = append([]byte{}, key...)
		key[len(key)-1] |= 1
		tr.Probe("key_between")
	case 3:
		key = bytes.Repeat([]byte{0xFF}, w.keylen)
		tr.Probe("key_beyond")
	case 4:
		key = rk.Bytes(w.keylen)
		key[len(key)-1] |= 1
		if w.keylen == 1 {
			key[0] = 0x11 + (key[0]%0x6F)*2
		}
	case 5:
		key = rk.Bytes(w.keylen - 1)
		tr.Probe("key_other_length")
	case 6:
		key = rk.Bytes(w.keylen + 1)
		tr.Probe("key_other_length")
	}
	if kind != 0 {
		tr.Probe("absent_key_lookup")
		if _, ok := g.recs[string(key)]; ok {
			panic("store world: generated an absent key that is present")
		}
	}
	r := call(&request{Op: "dbread", Key: key})
	o := outcome(r)
	cls := "present-key"
	if kind != 0 {
		cls = "absent-key"
	}
	pre := "blockdb/" + sty + "/read/" + cls + "/"
	res := o
	switch {
	case lost(r) || o == "panic":
		w.viol("read-deadline", pre+o+w.klTag(), fmt.Sprintf("Read of a key that is %s (%s, %d keys stored, key length %d) did not return: %s (user cpu %d ms, kernel %d ms) %s",
			strings.TrimSuffix(cls, "-key"), getKinds[kind], len(sorted), w.keylen, o, r.CPUms, r.SysMs, r.Panic))
	case kind == 0:
		switch {
		case o != "ok":
			w.viol("read-present", pre+o+w.klTag(), fmt.Sprintf("Read of a written key failed: %s", r.Err))
		case !bytes.Equal(r.Key, key) || !isVersion(g.recs[string(key)], r.Data):
			res = w.wrongRecord(g, key, r, pre)
		default:
			vs := g.recs[string(key)]
			if len(vs) > 1 && !bytes.Equal(vs[len(vs)-1], r.Data) {
				tr.Probe("duplicate_key_read_older_record")
			}
			res = "exact"
		}
	default:
		switch o {
		case "not-found":
		case "ok":
			w.viol("read-absent", pre+"returned-record", fmt.Sprintf("Read of a never-written key (%s) returned a record of %d bytes", getKinds[kind], len(r.Data)))
			res = "returned-record"
		default:
			w.viol("read-absent", pre+"error-not-notfound", fmt.Sprintf("Read of a never-written key (%s) failed with %q instead of not-found", getKinds[kind], r.Err))
		}
	}
	tr.Event("get db%d %s %s -> %s", g.idx, sty, getKinds[kind], res)
	tr.Outcome("get/" + getKinds[kind] + "/" + res)
	if lost(r) {
		known := !isUnknown(pre + o + w.klTag())
		w.sutLost()
		if known {
			w.knownHng++
		} else {
			w.done = true // a new hang: report at once
		}
	}
}

// dbGetFailed reads a key whose only writes failed. The write was never
// acknowledged, so the record may be absent or unreadable; the read must
// still return. A read that "succeeds" with bytes that are no record is
// counted (probe), not reported: the property promises nothing for such a
// key. Only failures that left the length prefix (and, in a compressed DB,
// the zstd frame header: at most 18 bytes) intact are read: past a cut prefix
// or frame header the shipped Read takes bytes of the next record for a length
// resp. a content size, and then allocates gigabytes, fails, or panics in
// make / in gozstd depending on those bytes - the cost is not repeatable
// (NOTES.md, replay_failed_write_key_read_panic.json). VERIF_STORE_READ_FAILED_ALL=1
// lifts the restriction for investigation.
func (w *world) dbGetFailed(g *dbGen, sel int) {
	tr := w.tr
	minCut := int64(4)
	if w.compress {
		minCut = 4 + 18
	}
	if os.Getenv("VERIF_STORE_READ_FAILED_ALL") != "" {
		minCut = 0
	}
	var cand []string
	for _, k := range g.failOrd {
		if _, acked := g.recs[k]; !acked && g.failed[k] >= minCut {
			cand = append(cand, k)
		}
	}
	if len(cand) == 0 || !w.ensureReader() {
		tr.Outcome("get/failed-write/skip")
		return
	}
	sty := styleName(w.rdStyle)
	key := []byte(cand[sel%len(cand)])
	r := call(&request{Op: "dbread", Key: key})
	o := outcome(r)
	res := o
	pre := "blockdb/" + sty + "/read/failed-write-key/"
	switch {
	case lost(r) || o == "panic":
		w.viol("read-deadline", pre+o+w.klTag(), fmt.Sprintf("Read of a key whose write had failed with an I/O error did not return: %s (user cpu %d ms, kernel %d ms) %s", o, r.CPUms, r.SysMs, r.Panic))
	case o == "ok":
		res = "garbage"
		tr.Probe("failed_write_key_read_returns_bytes")
	}
	tr.Event("get db%d %s failed-write -> %s", g.idx, sty, res)
	tr.Outcome("get/failed-write/" + res)
	if lost(r) {
		w.sutLost()
		w.done = true
	}
}

func isVersion(vs [][]byte, d []byte) bool {
	for _, v := range vs {
		if bytes.Equal(v, d) {
			return true
		}
	}
	return false
}

// wrongRecord reports a successful read that did not return a record written under the key.
func (w *world) wrongRecord(g *dbGen, key []byte, r *response, pre string) string {
	if vs, ok := g.recs[string(r.Key)]; ok && !bytes.Equal(r.Key, key) && isVersion(vs, r.Data) {
		w.viol("read-exact", pre+"other-record", fmt.Sprintf("Read returned the record of another key (%d bytes)", len(r.Data)))
		return "other-record"
	}
	w.viol("read-exact", pre+"corrupt", fmt.Sprintf("Read returned %d bytes that are not the record written under the key (%d bytes written)", len(r.Data), len(lastOf(g.recs[string(key)]))))
	return "corrupt"
}

func lastOf(vs [][]byte) []byte {
	if len(vs) == 0 {
		return nil
	}
	return vs[len(vs)-1]
}

func (w *world) dbReadAll() {
	tr := w.tr
	g := w.wantGen
	if g == nil {
		g = w.lastSaved()
	}
	if g == nil {
		tr.Outcome("readall/skip")
		return
	}
	if g.partial && os.Getenv("VERIF_STORE_READ_FAILED_ALL") == "" {
		// ReadAll parses the data file front to back and so runs into the bytes
		// of the failed write; what it does there is not repeatable (see NOTES.md)
		tr.Probe("readall_skipped_after_partial_write")
		tr.Outcome("readall/skip-partial-write")
		return
	}
	w.rdGen = nil // ReadAll reads from the current file position: use a freshly opened DB
	if !w.ensureReader() {
		return
	}
	sty := styleName(w.rdStyle)
	r := call(&request{Op: "dbreadall"})
	o := outcome(r)
	res := o
	pre := "blockdb/" + sty + "/readall/"
	switch {
	case lost(r) || o == "panic":
		w.viol("read-deadline", pre+o+w.klTag(), "ReadAll did not return: "+o+" "+r.Panic)
	case o == "ok":
		bad := 0
		for _, x := range r.Recs {
			if !isVersion(g.recs[string(x.Key)], x.Data) {
				bad++
			}
		}
		if bad > 0 {
			w.viol("read-exact", pre+"foreign-record", fmt.Sprintf("ReadAll returned %d record(s) that were never written under their key", bad))
			res = "foreign"
		} else {
			res = fmt.Sprintf("ok(%d of %d)", len(r.Recs), len(g.order))
		}
	}
	tr.Event("readall db%d %s -> %s", g.idx, sty, res)
	tr.Outcome("readall/" + o)
	w.rdGen = nil
	if lost(r) {
		w.sutLost()
		w.done = true
	}
}

// ---- blockstore ----------------------------------------------------------------------------------

func (w *world) bsInit(dir string, cache int) bool {
	r := call(&request{Op: "bsinit", Dir: dir, Cache: cache, Scheme: w.scheme})
	if o := outcome(r); o != "ok" {
		w.viol("init", "blockstore/init/"+o, "blockstore.Init failed: "+r.Err+r.Panic)
		w.done = true
		return false
	}
	return true
}

func hashOfRel(rel string) string {
	s := strings.TrimPrefix(rel, filepath.Join("data", "blocks")+string(os.PathSeparator))
	s = strings.TrimSuffix(s, ".dat.zlib")
	return strings.ReplaceAll(s, string(os.PathSeparator), "")
}

func (w *world) bsWrite(b *blk, first bool) bool {
	tr := w.tr
	r := call(&request{Op: "bswrite", Dir: w.live, Cache: w.cache, Spec: b.spec})
	o := outcome(r)
	if o != "ok" || r.Block == nil {
		tr.Event("bswrite txns=%d mb=%d %s", b.spec.Txns, b.spec.MB, o)
		w.viol("write", "blockstore/write/"+o, "BlockStore.Write failed: "+r.Err+r.Panic)
		if lost(r) {
			w.done = true
		}
		return false
	}
	if first {
		b.proj = r.Block
		b.hash = r.Block.Hash
		if r.Block.MB != nil {
			if b.spec.MB == 1 {
				b.mbHash = r.Block.MB.Hash
				tr.Probe("magic_block_copy_under_mb_hash")
			} else {
				b.otherMB = r.Block.MB.Hash
				tr.Probe("magic_block_not_starting_here")
			}
		}
	} else if g, d := diffProj(b.proj, r.Block); g != "" && r.Block.Hash != b.proj.Hash {
		panic("store world: block builder is not deterministic: " + g + " " + d)
	}
	rank := func(rel string) int {
		switch hashOfRel(rel) {
		case b.hash:
			return 0
		case b.mbHash:
			return 1
		}
		return 2
	}
	op := w.record("bswrite", len(w.blocks), rank, b.files)
	if first {
		b.firstOp = len(w.ops) - 1
		for _, f := range op.files {
			b.files = append(b.files, f.rel)
		}
		want := 1
		if b.mbHash != "" {
			want = 2
		}
		if len(op.files) != want {
			tr.Probe("unexpected_file_count")
		}
	}
	b.lastOp = len(w.ops) - 1
	var sz int64
	for _, f := range op.files {
		sz = max(sz, f.after)
	}
	if sz > 65536 {
		tr.Probe("block_file_over_64k")
	}
	if b.spec.Txns == 0 {
		tr.Probe("empty_block")
	}
	tr.Event("bswrite txns=%d mb=%d files=%d hash=%s ok", b.spec.Txns, b.spec.MB, len(op.files), short(b.hash))
	tr.Outcome("bswrite/ok")
	return true
}

func short(h string) string {
	if len(h) > 12 {
		return h[:12]
	}
	return h
}

func (w *world) bsStep(st sim.Step) {
	tr := w.tr
	switch st.Op {
	case "bswrite":
		sp := &blockSpec{Seed: w.p.Seed ^ uint64(st.Int(0, 0))<<20, Round: st.Int(7, 1), Txns: int(st.Int(1, 0)), OutMax: int(st.Int(2, 64)),
			MB: int(st.Int(3, 0)) % 3, Miners: int(st.Int(4, 1)), Shards: int(st.Int(5, 1)), Tickets: int(st.Int(6, 0)), Scheme: w.scheme}
		for _, o := range w.blocks {
			if *o.spec == *sp {
				tr.Outcome("bswrite/skip-same")
				return
			}
		}
		b := &blk{spec: sp}
		if w.bsWrite(b, true) {
			w.blocks = append(w.blocks, b)
		}
	case "bsrewrite":
		if len(w.blocks) == 0 {
			tr.Outcome("bsrewrite/skip")
			return
		}
		tr.Probe("rewrite_block")
		w.bsWrite(w.blocks[int(st.Int(0, 0))%len(w.blocks)], false)
	case "bsrestart":
		tr.Event("bsrestart")
		w.bsInit(w.live, w.cache)
	case "bsread":
		w.bsRead(st)
	case "crash":
		w.crashStep(st)
	}
}

var bsKinds = []string{"by-hash", "by-mb-hash", "absent-hash", "short-hash", "by-summary", "mb-hash-not-starting"}

func (w *world) bsRead(st sim.Step) {
	tr := w.tr
	kind := int(st.Int(0, 0)) % len(bsKinds)
	sel := int(st.Int(1, 0))
	var cand []*blk
	for _, b := range w.blocks {
		switch kind {
		case 0, 4:
			cand = append(cand, b)
		case 1:
			if b.mbHash != "" {
				cand = append(cand, b)
			}
		case 5:
			if b.otherMB != "" {
				cand = append(cand, b)
			}
		}
	}
	if (kind == 0 || kind == 1 || kind == 4 || kind == 5) && len(cand) == 0 {
		kind = 2
	}
	rk := sim.NewRNG(w.p.Seed).Child(fmt.Sprintf("bsread/%d", sel))
	var (
		hash string
		want *blk
	)
	switch kind {
	case 0, 4:
		want = cand[sel%len(cand)]
		hash = want.hash
	case 1:
		want = cand[sel%len(cand)]
		hash = want.mbHash
	case 5:
		hash = cand[sel%len(cand)].otherMB
		for _, b := range w.blocks { // the same magic block may start at another stored block
			if b.mbHash == hash {
				want = b
			}
		}
		tr.Probe("absent_hash_lookup")
	case 2:
		hash = hexOf(rk, 32)
		tr.Probe("absent_hash_lookup")
	case 3:
		hash = hexOf(rk, 2)[:1+sel%4]
		tr.Probe("short_hash_lookup")
	}
	r := call(&request{Op: "bsread", Dir: w.live, Cache: w.cache, Hash: hash, Summary: kind == 4})
	res := w.judgeBlock("blockstore/read/", bsKinds[kind], want, r, true)
	tr.Event("bsread %s -> %s", bsKinds[kind], res)
	tr.Outcome("bsread/" + bsKinds[kind] + "/" + res)
	if lost(r) {
		w.done = true
	}
}

// judgeBlock applies the oracle to one block read. want == nil: the hash was
// never a key, the read must fail. strict: the block's write completed and
// nothing touched its file since, so the read must return it; otherwise (the
// crash hit the block's own write) an error is acceptable too.
func (w *world) judgeBlock(pre, kind string, want *blk, r *response, strict bool) string {
	o := outcome(r)
	switch {
	case lost(r) || o == "panic":
		w.viol("read-deadline", pre+kind+"/"+o, fmt.Sprintf("block read did not return: %s (user cpu %d ms, kernel %d ms) %s", o, r.CPUms, r.SysMs, r.Panic))
		return o
	case want == nil:
		if o == "ok" {
			w.viol("read-absent", pre+kind+"/returned-block", "read of a hash that was never stored returned a block")
			return "returned-block"
		}
		return "not-found"
	case o != "ok":
		if strict {
			w.viol("read-present", pre+kind+"/"+o, "read of a stored block failed: "+r.Err)
		}
		return "error"
	}
	if g, d := diffProj(want.proj, r.Block); g != "" {
		w.viol("read-exact", pre+kind+"/mismatch/"+g, "stored block read back differently: "+d)
		return "mismatch-" + g
	}
	return "exact"
}
