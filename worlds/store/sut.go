package store

// The system under test: the shipped sharder/blockdb and sharder/blockstore
// packages on real files. Everything in this file runs inside the SUT child
// process (see child.go); the worker only sees requests and responses.

import (
	"encoding/hex"
	"errors"
	"fmt"
	"io"
	"os"
	"path/filepath"
	"sort"
	"strings"
	"sync"
	"syscall"
	"time"

	"0chain.net/chaincore/block"
	"0chain.net/chaincore/client"
	"0chain.net/chaincore/node"
	"0chain.net/chaincore/threshold/bls"
	"0chain.net/chaincore/transaction"
	"0chain.net/core/common"
	"0chain.net/core/config"
	"0chain.net/core/datastore"
	"0chain.net/core/encryption"
	"0chain.net/core/memorystore"
	"0chain.net/core/viper"
	"0chain.net/sharder/blockdb"
	"0chain.net/sharder/blockstore"
	"github.com/0chain/common/core/currency"

	"verif/sim"
	"verif/worlds/wkit"
)

// ---- protocol ------------------------------------------------------------------------------------

type request struct {
	Op string `json:"op"`
	// blockdb
	File     string `json:"file,omitempty"` // path without extension
	KeyLen   int    `json:"keylen,omitempty"`
	Compress bool   `json:"compress,omitempty"`
	Header   bool   `json:"header,omitempty"`
	HdrData  []byte `json:"hdr,omitempty"`
	Key      []byte `json:"key,omitempty"`
	Data     []byte `json:"data,omitempty"`
	Style    int    `json:"style,omitempty"`   // dbopen: 0 fresh object, 1 the object that wrote the db
	CutMode  int    `json:"cutmode,omitempty"` // dbputfail: where the record write is cut (resolveCut)
	CutSel   int64  `json:"cutsel,omitempty"`
	// blockstore
	Dir     string     `json:"dir,omitempty"`
	Cache   int        `json:"cache,omitempty"`
	Scheme  string     `json:"scheme,omitempty"`
	Spec    *blockSpec `json:"spec,omitempty"`
	Hash    string     `json:"hash,omitempty"`
	Summary bool       `json:"summary,omitempty"`
}

type recOut struct {
	Key  []byte `json:"k"`
	Data []byte `json:"d"`
}

type response struct {
	Err      string     `json:"err,omitempty"`
	NotFound bool       `json:"nf,omitempty"`
	Panic    string     `json:"panic,omitempty"`
	Hang     bool       `json:"hang,omitempty"`   // the operation burnt the CPU budget without returning
	Stall    bool       `json:"stall,omitempty"`  // no answer within the wall-clock fallback, without burning CPU
	Dead     bool       `json:"dead,omitempty"`   // the SUT process died without answering
	CPUms    int64      `json:"cpu_ms,omitempty"` // user-mode CPU of the operation when it was declared hung
	SysMs    int64      `json:"sys_ms,omitempty"` // kernel-mode CPU
	Key      []byte     `json:"key,omitempty"`
	Data     []byte     `json:"data,omitempty"`
	Hdr      []byte     `json:"hdr,omitempty"`
	Recs     []recOut   `json:"recs,omitempty"`
	Cut      int64      `json:"cut,omitempty"`   // dbputfail: bytes of the record allowed to reach the file
	Total    int64      `json:"total,omitempty"` // dbputfail: bytes a complete write of the record appends
	Grew     int64      `json:"grew,omitempty"`  // dbputfail: bytes the data file actually grew by
	Block    *blockProj `json:"block,omitempty"`
}

// ---- blockdb records -----------------------------------------------------------------------------

// rec is the record type stored in the block DB. Its encoding carries the
// key, so a read that lands on another record's bytes is recognisable.
type rec struct {
	key  []byte
	data []byte
}

func (r *rec) GetKey() blockdb.Key { return blockdb.Key(r.key) }

func (r *rec) Encode(w io.Writer) error {
	b := make([]byte, 0, 2+len(r.key)+len(r.data))
	b = append(b, 0xA7, byte(len(r.key)))
	b = append(b, r.key...)
	b = append(b, r.data...)
	_, err := w.Write(b)
	return err
}

func (r *rec) Decode(rd io.Reader) error {
	b, err := io.ReadAll(rd)
	if err != nil {
		return err
	}
	if len(b) < 2 || b[0] != 0xA7 || len(b) < 2+int(b[1]) {
		return errors.New("verif: stored bytes are not a record")
	}
	kl := int(b[1])
	r.key = append([]byte{}, b[2:2+kl]...)
	r.data = append([]byte{}, b[2+kl:]...)
	return nil
}

type recProvider struct{}

func (recProvider) NewRecord() blockdb.Record { return &rec{} }

// hdr is the DB header. The DB stores the header as "the rest of the index
// file", without a length, so like any real codec (msgpack in the shipped
// tests) the encoding delimits itself: a cut header fails to decode.
type hdr struct{ data []byte }

func (h *hdr) Encode(w io.Writer) error {
	b := []byte{0xB3, byte(len(h.data)), byte(len(h.data) >> 8), byte(len(h.data) >> 16)}
	b = append(b, h.data...)
	b = append(b, 0x3B)
	_, err := w.Write(b)
	return err
}

func (h *hdr) Decode(rd io.Reader) error {
	b, err := io.ReadAll(rd)
	if err != nil {
		return err
	}
	if len(b) < 5 || b[0] != 0xB3 {
		return errors.New("verif: stored bytes are not a header")
	}
	n := int(b[1]) | int(b[2])<<8 | int(b[3])<<16
	if len(b) != 5+n || b[4+n] != 0x3B {
		return errors.New("verif: stored header is cut or has trailing bytes")
	}
	h.data = append([]byte{}, b[4:4+n]...)
	return nil
}

// ---- SUT state -----------------------------------------------------------------------------------

type sutState struct {
	dbs    map[string]*blockdb.BlockDB // by file: objects that wrote a db
	reader *blockdb.BlockDB
}

var (
	sut       = &sutState{dbs: map[string]*blockdb.BlockDB{}}
	setupOnce sync.Once
)

func sutSetup() {
	setupOnce.Do(func() {
		wkit.Quiet()
		config.SetServerChainID(config.GetMainChainID())
		block.SetupEntity(memorystore.GetStorageProvider())
		block.SetupBlockSummaryEntity(memorystore.GetStorageProvider())
	})
}

func errStr(err error) string {
	if err == nil {
		return ""
	}
	s := err.Error()
	if s == "" {
		s = "error"
	}
	return s
}

// handle executes one request against the real code.
func (s *sutState) handle(q *request) (rsp *response) {
	rsp = &response{}
	defer func() {
		if r := recover(); r != nil {
			rsp = &response{Panic: fmt.Sprint(r)}
		}
	}()
	switch q.Op {
	case "ping":
	case "reset":
		for k, db := range s.dbs {
			db.Close()
			delete(s.dbs, k)
		}
		if s.reader != nil {
			s.reader.Close()
			s.reader = nil
		}
	case "dbcreate":
		db, err := blockdb.NewBlockDB(q.File, int8(q.KeyLen), q.Compress)
		if err != nil {
			rsp.Err = errStr(err)
			return
		}
		if q.Header {
			db.SetDBHeader(&hdr{data: q.HdrData})
		}
		if err := db.Create(); err != nil {
			rsp.Err = errStr(err)
			return
		}
		s.dbs[q.File] = db
	case "dbput":
		db := s.dbs[q.File]
		if db == nil {
			rsp.Err = "verif: no such db"
			return
		}
		rsp.Err = errStr(db.WriteData(&rec{key: q.Key, data: q.Data}))
	case "dbputfail":
		db := s.dbs[q.File]
		if db == nil {
			rsp.Err = "verif: no such db"
			return
		}
		s.putFail(db, q, rsp)
	case "dbsave":
		db := s.dbs[q.File]
		if db == nil {
			rsp.Err = "verif: no such db"
			return
		}
		rsp.Err = errStr(db.Save())
	case "dbopen":
		if s.reader != nil {
			s.reader.Close()
			s.reader = nil
		}
		var db *blockdb.BlockDB
		if q.Style == 1 && s.dbs[q.File] != nil {
			db = s.dbs[q.File]
		} else {
			db, _ = blockdb.NewBlockDB(q.File, int8(q.KeyLen), q.Compress)
		}
		var h *hdr
		if q.Header {
			h = &hdr{}
			db.SetDBHeader(h)
		}
		if err := db.Open(); err != nil {
			rsp.Err = errStr(err)
			return
		}
		s.reader = db
		if h != nil {
			rsp.Hdr = append([]byte{}, h.data...)
		}
	case "dbread":
		if s.reader == nil {
			rsp.Err = "verif: no reader"
			return
		}
		var r rec
		err := s.reader.Read(blockdb.Key(q.Key), &r)
		if err != nil {
			rsp.Err = errStr(err)
			rsp.NotFound = errors.Is(err, blockdb.ErrKeyNotFound)
			return
		}
		rsp.Key, rsp.Data = r.key, r.data
	case "dbreadall":
		if s.reader == nil {
			rsp.Err = "verif: no reader"
			return
		}
		recs, err := s.reader.ReadAll(recProvider{})
		if err != nil {
			rsp.Err = errStr(err)
			return
		}
		for _, x := range recs {
			r := x.(*rec)
			rsp.Recs = append(rsp.Recs, recOut{Key: r.key, Data: r.data})
		}
	case "dbclose":
		if s.reader != nil {
			s.reader.Close()
			s.reader = nil
		}
	case "bsinit":
		sutSetup()
		if q.Scheme != "" {
			client.SetClientSignatureScheme(q.Scheme)
		}
		var v *viper.Viper
		if q.Cache > 0 {
			v = viper.New()
			v.Set("cache.path", filepath.Join(q.Dir, "cache"))
			v.Set("cache.total_blocks", q.Cache)
		}
		blockstore.Init(q.Dir, v)
	case "bswrite":
		sutSetup()
		b := buildBlock(q.Spec)
		rsp.Block = project(b)
		err := blockstore.GetStore().Write(b)
		rsp.Err = errStr(err)
		if q.Cache > 0 {
			settleCache(filepath.Join(q.Dir, "cache"), b)
		}
	case "bsread":
		sutSetup()
		var (
			b   *block.Block
			err error
		)
		if q.Summary {
			bs := datastore.GetEntityMetadata("block_summary").Instance().(*block.BlockSummary)
			bs.Hash = q.Hash
			b, err = blockstore.GetStore().ReadWithBlockSummary(bs)
		} else {
			b, err = blockstore.GetStore().Read(q.Hash)
		}
		if err != nil {
			rsp.Err = errStr(err)
			rsp.NotFound = errors.Is(err, os.ErrNotExist)
			return
		}
		if b == nil {
			rsp.Err = "verif: nil block without error"
			return
		}
		rsp.Block = project(b)
		if q.Cache > 0 {
			settleCache(filepath.Join(q.Dir, "cache"), b)
		}
	default:
		rsp.Err = "verif: unknown op " + q.Op
	}
	return
}

// ---- injected write error ------------------------------------------------------------------------

// resolveCut turns the plan's symbolic choice into the number of bytes of the
// record (length prefix + payload, total bytes) that reach the data file
// before the write fails: always in [0, total-1].
func resolveCut(mode int, sel, total int64) int64 {
	if sel < 0 {
		sel = -sel
	}
	var cut int64
	switch mode % 4 {
	case 0: // inside the 4-byte length prefix (0: nothing reaches the file)
		cut = sel % 4
	case 1: // the length prefix exactly
		cut = 4
	case 2: // anywhere inside the payload
		cut = 4
		if total > 5 {
			cut = 4 + 1 + sel%(total-5)
		}
	default: // the last bytes are missing
		cut = total - 1 - sel%3
	}
	return max(0, min(cut, total-1))
}

// recordLen asks the code under test how many bytes a complete write of the
// record appends to a data file: the record is written to a throw-away DB of
// the same configuration in dir.
func recordLen(dir string, q *request) (n int64, err error) {
	if err = os.MkdirAll(dir, 0o755); err != nil {
		return 0, err
	}
	defer os.RemoveAll(dir)
	file := filepath.Join(dir, "probe")
	db, err := blockdb.NewBlockDB(file, int8(q.KeyLen), q.Compress)
	if err != nil {
		return 0, err
	}
	if err = db.Create(); err != nil {
		return 0, err
	}
	defer db.Close()
	if err = db.WriteData(&rec{key: q.Key, data: q.Data}); err != nil {
		return 0, err
	}
	st, err := os.Stat(file + "." + blockdb.FileExtData)
	if err != nil {
		return 0, err
	}
	return st.Size(), nil
}

// putFail writes one record while the file size limit of the process
// (RLIMIT_FSIZE; SIGXFSZ is ignored, see childMain) stands Cut bytes beyond
// the current end of the data file: write(2) stores what fits and then fails
// with EFBIG, exactly like a file system that runs full inside the record.
// The limit is lifted before the answer is sent. Nothing else in this process
// writes to a regular file meanwhile (answers go to a pipe).
func (s *sutState) putFail(db *blockdb.BlockDB, q *request, rsp *response) {
	total, err := recordLen(q.Dir, q)
	if err != nil {
		rsp.Err = "verif: cannot size the record: " + err.Error()
		return
	}
	data := q.File + "." + blockdb.FileExtData
	st, err := os.Stat(data)
	if err != nil {
		rsp.Err = "verif: " + err.Error()
		return
	}
	cut := resolveCut(q.CutMode, q.CutSel, total)
	var old syscall.Rlimit
	if err := syscall.Getrlimit(syscall.RLIMIT_FSIZE, &old); err != nil {
		rsp.Err = "verif: getrlimit: " + err.Error()
		return
	}
	lim := old
	lim.Cur = uint64(st.Size() + cut)
	if err := syscall.Setrlimit(syscall.RLIMIT_FSIZE, &lim); err != nil {
		rsp.Err = "verif: setrlimit: " + err.Error()
		return
	}
	lifted := false
	lift := func() {
		if !lifted {
			lifted = true
			if err := syscall.Setrlimit(syscall.RLIMIT_FSIZE, &old); err != nil {
				panic("verif: cannot lift the file size limit: " + err.Error())
			}
		}
	}
	defer lift() // also when the code under test panics
	werr := db.WriteData(&rec{key: q.Key, data: q.Data})
	lift()
	rsp.Cut, rsp.Total = cut, total
	if st2, err := os.Stat(data); err == nil {
		rsp.Grew = st2.Size() - st.Size()
	}
	rsp.Err = errStr(werr)
}

// settleCache waits (bounded) until the asynchronous cache writer of the block
// store has produced a stable, non-empty file for the block. The outcome of a
// later read does not depend on it (cache miss falls back to the disk file);
// waiting only makes the path taken repeatable.
func settleCache(dir string, b *block.Block) {
	names := []string{b.Hash}
	deadline := time.Now().Add(300 * time.Millisecond)
	for _, nm := range names {
		last := int64(-1)
		for time.Now().Before(deadline) {
			st, err := os.Stat(filepath.Join(dir, nm))
			if err == nil && st.Size() > 0 && st.Size() == last {
				break
			}
			if err == nil {
				last = st.Size()
			}
			time.Sleep(500 * time.Microsecond)
		}
	}
	time.Sleep(time.Millisecond)
}

// ---- blocks --------------------------------------------------------------------------------------

// blockSpec describes a block symbolically; buildBlock derives every byte of
// the block from it.
type blockSpec struct {
	Seed    uint64 `json:"seed"`
	Round   int64  `json:"round"`
	Txns    int    `json:"txns"`
	OutMax  int    `json:"outmax"` // upper bound of transaction output sizes
	MB      int    `json:"mb"`     // 0 none, 1 magic block starting at this round, 2 magic block starting elsewhere
	Miners  int    `json:"miners"`
	Shards  int    `json:"sharders"`
	Tickets int    `json:"tickets"`
	Scheme  string `json:"scheme"`
}

func hexOf(r *sim.RNG, n int) string { return hex.EncodeToString(r.Bytes(n)) }

func buildBlock(sp *blockSpec) *block.Block {
	r := sim.NewRNG(sp.Seed).Child("block")
	keys := sim.NewRNG(sp.Seed).Child("keys")
	chainID := config.GetServerChainID()
	b := block.NewBlock(chainID, sp.Round)
	b.CreationDate = common.Timestamp(1_600_000_000 + r.Int63n(200_000_000))
	b.MinerID = hexOf(r, 32)
	b.PrevHash = hexOf(r, 32)
	b.RoundRandomSeed = int64(r.Uint64() >> 1)
	if r.Bool(0.2) {
		b.RoundRandomSeed = -b.RoundRandomSeed
	}
	b.RoundTimeoutCount = r.Intn(4)
	b.ClientStateHash = r.Bytes(32)
	b.LatestFinalizedMagicBlockHash = hexOf(r, 32)
	b.LatestFinalizedMagicBlockRound = r.Int63n(sp.Round + 1)
	b.StateChangesCount = r.Intn(1000)
	b.RunningTxnCount = r.Int63n(1 << 40)

	// clients
	nc := 1 + r.Intn(4)
	type cl struct {
		ss encryption.SignatureScheme
		id string
	}
	cls := make([]cl, nc)
	for i := range cls {
		ss := wkit.NewKeys(sp.Scheme, keys.Child(fmt.Sprintf("c%d", i)))
		pkb, _ := hex.DecodeString(ss.GetPublicKey())
		cls[i] = cl{ss: ss, id: encryption.Hash(pkb)}
	}
	big := r.Intn(max(sp.Txns, 1))
	for i := 0; i < sp.Txns; i++ {
		c := cls[r.Intn(nc)]
		t := &transaction.Transaction{}
		t.Version = "1.0"
		t.ClientID = c.id
		if r.Bool(0.5) {
			t.PublicKey = c.ss.GetPublicKey()
		}
		t.ChainID = chainID
		t.CreationDate = b.CreationDate - common.Timestamp(r.Intn(30))
		t.Nonce = 1 + r.Int63n(1000)
		t.Fee = currency.Coin(r.Int63n(1 << 30))
		t.Value = currency.Coin(r.Uint64() >> uint(1+r.Intn(60)))
		switch r.Intn(3) {
		case 0:
			t.TransactionType = transaction.TxnTypeSend
			t.ToClientID = cls[r.Intn(nc)].id
		case 1:
			t.TransactionType = transaction.TxnTypeData
			t.TransactionData = string(printable(r, r.Intn(200)))
		default:
			t.TransactionType = transaction.TxnTypeSmartContract
			t.ToClientID = hexOf(r, 32)
			t.TransactionData = fmt.Sprintf(`{"name":"fn_%d","input":{"v":"%s","n":%d}}`, r.Intn(50), hexOf(r, r.Intn(40)), r.Intn(1000))
		}
		if _, err := t.Sign(c.ss); err != nil {
			panic(err)
		}
		switch r.Intn(4) {
		case 0: // no output
		case 1:
			t.TransactionOutput = string(printable(r, 1+r.Intn(64)))
		default:
			// one transaction of the block may carry an output up to OutMax, the others stay small
			lim := min(max(sp.OutMax, 1), 4096)
			if i == big {
				lim = max(sp.OutMax, 1)
			}
			n := 1 + r.Intn(lim)
			if r.Bool(0.5) {
				t.TransactionOutput = fmt.Sprintf(`{"out":"%s"}`, hexOf(r, n/2))
			} else {
				t.TransactionOutput = string(binaryish(r, n))
			}
		}
		t.OutputHash = t.ComputeOutputHash()
		t.Status = 1 + r.Intn(2)
		b.Txns = append(b.Txns, t)
	}
	for i := 0; i < sp.Tickets; i++ {
		vt := &block.VerificationTicket{VerifierID: hexOf(r, 32), Signature: hexOf(r, 64)}
		if i%2 == 0 {
			b.PrevBlockVerificationTickets = append(b.PrevBlockVerificationTickets, vt)
		} else {
			b.VerificationTickets = append(b.VerificationTickets, vt)
		}
	}
	if sp.MB != 0 {
		mb := block.NewMagicBlock()
		mb.PreviousMagicBlockHash = hexOf(r, 32)
		mb.MagicBlockNumber = 1 + r.Int63n(100)
		mb.StartingRound = sp.Round
		if sp.MB == 2 {
			mb.StartingRound = sp.Round + 1 + r.Int63n(100)
		}
		mb.Miners = node.NewPool(node.NodeTypeMiner)
		mb.Sharders = node.NewPool(node.NodeTypeSharder)
		add := func(p *node.Pool, typ node.NodeType, i int) string {
			ss := wkit.NewKeys(sp.Scheme, keys.Child(fmt.Sprintf("n%d/%d", typ, i)))
			n := node.Provider()
			n.Type = typ
			n.SetSignatureSchemeType(sp.Scheme)
			if err := n.SetPublicKey(ss.GetPublicKey()); err != nil {
				panic(err)
			}
			n.Host = fmt.Sprintf("h%d.example", r.Intn(1000))
			n.N2NHost = fmt.Sprintf("n%d.example", r.Intn(1000))
			n.Port = 1000 + r.Intn(60000)
			n.Path = "p" + hexOf(r, 2)
			n.Description = string(printable(r, r.Intn(20)))
			n.Status = r.Intn(2)
			n.InPrevMB = r.Bool(0.5)
			n.Info.BuildTag = hexOf(r, 4)
			n.Info.StateMissingNodes = r.Int63n(100)
			n.Info.MinersMedianNetworkTime = time.Duration(r.Int63n(1e9))
			n.Info.AvgBlockTxns = r.Intn(100)
			// AddNode keeps the pool's derived data (node order, SetIndex) consistent
			if err := p.AddNode(n); err != nil {
				panic(err)
			}
			return n.ID
		}
		var mids []string
		for i := 0; i < max(sp.Miners, 1); i++ {
			mids = append(mids, add(mb.Miners, node.NodeTypeMiner, i))
		}
		for i := 0; i < max(sp.Shards, 1); i++ {
			add(mb.Sharders, node.NodeTypeSharder, i)
		}
		for _, id := range mids {
			mpk := &block.MPK{ID: id}
			for k := 0; k < 1+r.Intn(3); k++ {
				mpk.Mpk = append(mpk.Mpk, hexOf(r, 64))
			}
			mb.Mpks.Mpks[id] = mpk
			sos := block.NewShareOrSigns()
			sos.ID = id
			for _, o := range mids {
				if r.Bool(0.7) {
					ks := &bls.DKGKeyShare{Message: hexOf(r, 16), Share: hexOf(r, 32), Sign: hexOf(r, 32)}
					ks.ID = o
					sos.ShareOrSigns[o] = ks
				}
			}
			mb.ShareOrSigns.Shares[id] = sos
		}
		mb.N = len(mids)
		mb.T = 1 + r.Intn(mb.N)
		mb.K = mb.T + r.Intn(mb.N-mb.T+1)
		mb.Hash = mb.GetHash()
		b.MagicBlock = mb
	}
	b.HashBlock()
	miner := wkit.NewKeys(sp.Scheme, keys.Child("miner"))
	sig, err := miner.Sign(b.Hash)
	if err != nil {
		panic(err)
	}
	b.Signature = sig
	return b
}

func printable(r *sim.RNG, n int) []byte {
	const abc = "abcdefghijklmnopqrstuvwxyz0123456789 _-{}\":,"
	b := make([]byte, n)
	for i := range b {
		b[i] = abc[r.Intn(len(abc))]
	}
	return b
}

// binaryish: valid UTF-8 is not required of a Go string; outputs are opaque.
func binaryish(r *sim.RNG, n int) []byte {
	b := r.Bytes(n)
	if r.Bool(0.5) { // compressible
		for i := range b {
			b[i] = "0a"[b[i]&1]
		}
	}
	return b
}

// ---- projection of a block onto what the property speaks about ------------------------------------

type ticketProj struct{ ID, Sig string }

type txnProj struct {
	Hash, Version, ClientID, PublicKey, ToClientID, ChainID, Data, Signature string
	Value, Fee                                                               uint64
	CreationDate, Nonce                                                      int64
	Type, Status                                                             int
}

type outProj struct {
	Output     []byte // opaque bytes (JSON would mangle invalid UTF-8 in a string)
	OutputHash string
}

type nodeProj struct {
	ID, PublicKey, Version, N2NHost, Host, Path, Description, BuildTag string
	CreationDate                                                       int64
	Port, Type, SetIndex, Status, AvgBlockTxns                         int
	InPrevMB                                                           bool
	StateMissingNodes, MedianNetworkTime                               int64
}

type mpkProj struct {
	Key, ID string
	Mpk     []string
}

type shareProj struct{ Key, ID, Message, Share, Sign string }

type sosProj struct {
	Key, ID string
	Shares  []shareProj
}

type mbProj struct {
	Hash, Recomputed, PrevHash      string
	Number, StartingRound           int64
	T, K, N                         int
	MinersType, ShardersType        int
	MinersNil, ShardersNil, MpksNil bool
	SosNil                          bool
	Miners, Sharders                []nodeProj
	Mpks                            []mpkProj
	ShareOrSigns                    []sosProj
}

type headerProj struct {
	Version, LFMBHash, PrevHash, MinerID, StateHash, Signature, ChainID string
	CreationDate, LFMBRound, Round, RoundRandomSeed, RunningTxnCount    int64
	RoundTimeoutCount, StateChangesCount                                int
	PrevTickets, Tickets                                                []ticketProj
}

type blockProj struct {
	Hash       string
	Recomputed string // hash recomputed from the decoded content by the shipped ComputeHash
	Header     headerProj
	Txns       []txnProj
	Outputs    []outProj
	MB         *mbProj
}

func safe(f func() string) (s string) {
	defer func() {
		if r := recover(); r != nil {
			s = "panic: " + fmt.Sprint(r)
		}
	}()
	return f()
}

func tickets(v []*block.VerificationTicket) []ticketProj {
	out := []ticketProj{}
	for _, t := range v {
		if t == nil {
			out = append(out, ticketProj{ID: "<nil>"})
			continue
		}
		out = append(out, ticketProj{t.VerifierID, t.Signature})
	}
	return out
}

func poolProj(p *node.Pool) []nodeProj {
	out := []nodeProj{}
	if p == nil {
		return out
	}
	keys := make([]string, 0, len(p.NodesMap))
	for k := range p.NodesMap {
		keys = append(keys, k)
	}
	sort.Strings(keys)
	for _, k := range keys {
		n := p.NodesMap[k]
		if n == nil {
			out = append(out, nodeProj{ID: "<nil>:" + k})
			continue
		}
		out = append(out, nodeProj{
			ID: n.ID, PublicKey: n.PublicKey, Version: n.Version, N2NHost: n.N2NHost, Host: n.Host, Path: n.Path,
			Description: n.Description, BuildTag: n.Info.BuildTag, CreationDate: int64(n.CreationDate),
			Port: n.Port, Type: int(n.Type), SetIndex: n.SetIndex, Status: n.Status, AvgBlockTxns: n.Info.AvgBlockTxns,
			InPrevMB: n.InPrevMB, StateMissingNodes: n.Info.StateMissingNodes, MedianNetworkTime: int64(n.Info.MinersMedianNetworkTime),
		})
		if k != n.ID {
			out[len(out)-1].ID = n.ID + " under key " + k
		}
	}
	return out
}

func project(b *block.Block) *blockProj {
	p := &blockProj{Hash: b.Hash, Txns: []txnProj{}, Outputs: []outProj{}}
	p.Recomputed = safe(b.ComputeHash)
	p.Header = headerProj{
		Version: b.Version, LFMBHash: b.LatestFinalizedMagicBlockHash, PrevHash: b.PrevHash, MinerID: b.MinerID,
		StateHash: hex.EncodeToString(b.ClientStateHash), Signature: b.Signature, ChainID: b.ChainID,
		CreationDate: int64(b.CreationDate), LFMBRound: b.LatestFinalizedMagicBlockRound, Round: b.Round,
		RoundRandomSeed: b.RoundRandomSeed, RunningTxnCount: b.RunningTxnCount,
		RoundTimeoutCount: b.RoundTimeoutCount, StateChangesCount: b.StateChangesCount,
		PrevTickets: tickets(b.PrevBlockVerificationTickets), Tickets: tickets(b.VerificationTickets),
	}
	for _, t := range b.Txns {
		if t == nil {
			p.Txns = append(p.Txns, txnProj{Hash: "<nil>"})
			p.Outputs = append(p.Outputs, outProj{})
			continue
		}
		p.Txns = append(p.Txns, txnProj{
			Hash: t.Hash, Version: t.Version, ClientID: t.ClientID, PublicKey: t.PublicKey, ToClientID: t.ToClientID,
			ChainID: t.ChainID, Data: t.TransactionData, Signature: t.Signature, Value: uint64(t.Value), Fee: uint64(t.Fee),
			CreationDate: int64(t.CreationDate), Nonce: t.Nonce, Type: t.TransactionType, Status: t.Status,
		})
		p.Outputs = append(p.Outputs, outProj{[]byte(t.TransactionOutput), t.OutputHash})
	}
	if mb := b.MagicBlock; mb != nil {
		m := &mbProj{
			Hash: mb.Hash, PrevHash: mb.PreviousMagicBlockHash, Number: mb.MagicBlockNumber, StartingRound: mb.StartingRound,
			T: mb.T, K: mb.K, N: mb.N, MinersNil: mb.Miners == nil, ShardersNil: mb.Sharders == nil, MpksNil: mb.Mpks == nil,
			SosNil: mb.ShareOrSigns == nil, Miners: poolProj(mb.Miners), Sharders: poolProj(mb.Sharders),
			Mpks: []mpkProj{}, ShareOrSigns: []sosProj{},
		}
		m.Recomputed = safe(mb.GetHash)
		if mb.Miners != nil {
			m.MinersType = int(mb.Miners.Type)
		}
		if mb.Sharders != nil {
			m.ShardersType = int(mb.Sharders.Type)
		}
		if mb.Mpks != nil {
			keys := make([]string, 0, len(mb.Mpks.Mpks))
			for k := range mb.Mpks.Mpks {
				keys = append(keys, k)
			}
			sort.Strings(keys)
			for _, k := range keys {
				v := mb.Mpks.Mpks[k]
				if v == nil {
					m.Mpks = append(m.Mpks, mpkProj{Key: k, ID: "<nil>"})
					continue
				}
				m.Mpks = append(m.Mpks, mpkProj{Key: k, ID: v.ID, Mpk: append([]string{}, v.Mpk...)})
			}
		}
		if mb.ShareOrSigns != nil {
			keys := make([]string, 0, len(mb.ShareOrSigns.Shares))
			for k := range mb.ShareOrSigns.Shares {
				keys = append(keys, k)
			}
			sort.Strings(keys)
			for _, k := range keys {
				v := mb.ShareOrSigns.Shares[k]
				if v == nil {
					m.ShareOrSigns = append(m.ShareOrSigns, sosProj{Key: k, ID: "<nil>"})
					continue
				}
				sp := sosProj{Key: k, ID: v.ID, Shares: []shareProj{}}
				ks := make([]string, 0, len(v.ShareOrSigns))
				for kk := range v.ShareOrSigns {
					ks = append(ks, kk)
				}
				sort.Strings(ks)
				for _, kk := range ks {
					s := v.ShareOrSigns[kk]
					if s == nil {
						sp.Shares = append(sp.Shares, shareProj{Key: kk, ID: "<nil>"})
						continue
					}
					sp.Shares = append(sp.Shares, shareProj{Key: kk, ID: s.ID, Message: s.Message, Share: s.Share, Sign: s.Sign})
				}
				m.ShareOrSigns = append(m.ShareOrSigns, sp)
			}
		}
		p.MB = m
	}
	return p
}

// diffProj names the first group of the statement ("hash, header,
// transactions, outputs, magic block") in which two projections differ.
func diffProj(want, got *blockProj) (group, detail string) {
	j := func(v any) string { return string(mustJSON(v)) }
	switch {
	case want.Hash != got.Hash:
		return "hash", fmt.Sprintf("hash %q, stored %q", got.Hash, want.Hash)
	case got.Recomputed != want.Hash:
		return "hash", fmt.Sprintf("hash recomputed from the decoded block %q, stored %q", got.Recomputed, want.Hash)
	case j(want.Header) != j(got.Header):
		return "header", firstDiff(j(want.Header), j(got.Header))
	case j(want.Txns) != j(got.Txns):
		return "transactions", firstDiff(j(want.Txns), j(got.Txns))
	case j(want.Outputs) != j(got.Outputs):
		return "outputs", firstDiff(j(want.Outputs), j(got.Outputs))
	case j(want.MB) != j(got.MB):
		return "magic_block", firstDiff(j(want.MB), j(got.MB))
	}
	return "", ""
}

func firstDiff(a, b string) string {
	i := 0
	for i < len(a) && i < len(b) && a[i] == b[i] {
		i++
	}
	lo := max(i-60, 0)
	cut := func(s string) string {
		hi := min(i+60, len(s))
		if lo > len(s) {
			return ""
		}
		return s[lo:hi]
	}
	return fmt.Sprintf("first difference at byte %d: stored …%s… read …%s…", i, cut(a), cut(b))
}

func scrub(s, root string) string {
	if root == "" {
		return s
	}
	return strings.ReplaceAll(s, root, "$SCRATCH")
}
