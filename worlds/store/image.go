package store

// Crash-image manufacturer. After every API call of the workload the world
// records the byte length of every file (world.record). A crash point is
// (operation k, file j of that operation in write order, byte offset inside
// the bytes operation k appended to file j). The image holds
//   - every file as it was after operation k-1,
//   - the files operation k wrote before file j, complete,
//   - file j cut at the offset (absent when it is new and the offset is "before creation"),
//   - the files operation k writes after file j as they were before k.
// All files of both packages are written front to back by a single writer
// (blockdb: O_CREATE, append record by record, index+header at Save; blockstore:
// os.Create, then the zlib stream through a 64 KiB bufio.Writer), so under
// process-crash semantics exactly the prefixes are reachable and the live file
// is the source of every prefix. A file that a later operation truncated and
// rewrote (block stored again) makes the operations before that rewrite
// ineligible as crash points.
//
// Power loss: additionally any suffix of any file, or a whole file, is lost.
// Nothing is promised there (no fsync anywhere); anomalies are counted as
// probes, never reported as violations.

import (
	"fmt"
	"io"
	"os"
	"path/filepath"
	"sort"
	"strings"

	"verif/sim"
)

type fileDelta struct {
	rel    string
	before int64 // -1: the file did not exist
	after  int64
	trunc  bool // the operation truncates the existing file and writes it again
}

type opRec struct {
	kind  string
	gen   int
	files []fileDelta // in write order
	after map[string]int64
}

type image struct {
	dir      string
	k        int
	op       *opRec
	lens     map[string]int64
	inflight string // rel of the file cut, "" when the cut is on an operation boundary
	desc     string
}

func fileClass(rel string) string {
	switch {
	case strings.HasSuffix(rel, ".dat.zlib"):
		return "block"
	case strings.HasSuffix(rel, ".idx"):
		return "index"
	case strings.HasSuffix(rel, ".dat"):
		return "data"
	}
	return "other"
}

// boundary offsets inside the bytes an operation appends to a file, read off the code.
func boundaries(kind, class string, n int64) []int64 {
	var b []int64
	switch {
	case class == "data" || class == "index":
		if n >= 4 {
			b = append(b, 4) // length prefix / key count
		}
	case class == "block":
		for x := int64(65536); x < n; x += 65536 {
			b = append(b, x)
		}
	}
	return b
}

func (w *world) makeImage(id int64, power bool) *image {
	tr := w.tr
	if len(w.ops) == 0 {
		return nil
	}
	r := w.disk.Child(fmt.Sprintf("crash/%d", id))
	// eligible operations
	var elig []int
	for k := range w.ops {
		ok := true
		for rel := range w.ops[k].after {
			if lr, has := w.lastRewrite[rel]; has && lr > k {
				ok = false
				break
			}
		}
		if ok && len(w.ops[k].files) > 0 {
			elig = append(elig, k)
		}
	}
	if len(elig) == 0 {
		return nil
	}
	k := elig[len(elig)-1]
	if !r.Bool(0.55) {
		k = elig[r.Intn(len(elig))]
	}
	op := w.ops[k]
	lens := map[string]int64{}
	if k > 0 {
		for rel, n := range w.ops[k-1].after {
			lens[rel] = n
		}
	}
	j := r.Intn(len(op.files))
	fd := op.files[j]
	for i := 0; i < j; i++ {
		lens[op.files[i].rel] = op.files[i].after
	}
	for i := j + 1; i < len(op.files); i++ {
		// a file the operation rewrites later: its old complete content is gone
		// from the live directory; the new complete content encodes the same
		// block and stands in for it
		if op.files[i].trunc {
			lens[op.files[i].rel] = op.files[i].after
		}
	}
	start := fd.before
	if fd.trunc || start < 0 {
		start = 0
	}
	n := fd.after - start
	cls := fileClass(fd.rel)
	img := &image{k: k, op: op, lens: lens, inflight: fd.rel}
	choice := r.Pick([]int{12, 40, 18, 15, 15})
	var cut int64
	how := ""
	switch choice {
	case 0: // before the first byte
		cut = 0
		how = "start"
	case 1:
		// a fraction of the file, so that the draw does not depend on n (see desc below)
		cut = int64(r.Float64() * float64(n))
		how = "byte"
	case 2:
		bs := boundaries(op.kind, cls, n)
		if len(bs) == 0 {
			cut = int64(r.Float64() * float64(n))
			how = "byte"
		} else {
			cut = bs[r.Intn(len(bs))]
			how = "write-boundary"
		}
	case 3:
		cut = max(n-1-r.Int63n(4), 0)
		how = "tail"
	default:
		cut = n
		how = "complete"
	}
	switch {
	case cut == n && n > 0:
		lens[fd.rel] = fd.after
		if j+1 < len(op.files) {
			tr.Fault("crash_between_files")
		} else {
			tr.Fault("crash_before_close")
		}
		img.inflight = ""
	case cut == 0 && fd.before < 0 && r.Bool(0.5):
		delete(lens, fd.rel)
		tr.Fault("crash_file_not_created")
		how = "not-created"
	case cut == 0 && (fd.before < 0 || fd.trunc):
		lens[fd.rel] = 0
		tr.Fault("crash_empty_file")
		how = "empty"
	case cut == 0:
		lens[fd.rel] = start
		tr.Fault("crash_before_write")
		img.inflight = ""
	default:
		lens[fd.rel] = start + cut
		tr.Fault("crash_truncate_" + cls)
	}
	if cls == "block" {
		// the bytes of a block file depend on Go's map iteration order inside the
		// msgpack encoder (magic-block maps): lengths stay out of the event log
		img.desc = fmt.Sprintf("op#%d %s file=%s#%d %s", k, op.kind, cls, j, how)
	} else {
		img.desc = fmt.Sprintf("op#%d %s file=%s %s cut=%d/%d", k, op.kind, cls, how, cut, n)
	}
	if power {
		tr.Fault("power_loss")
		rels := make([]string, 0, len(lens))
		for rel := range lens {
			rels = append(rels, rel)
		}
		sort.Strings(rels)
		for _, rel := range rels {
			switch r.Pick([]int{50, 40, 10}) {
			case 1:
				if lens[rel] > 0 {
					lens[rel] = r.Int63n(lens[rel])
					tr.Fault("power_loss_truncate_" + fileClass(rel))
				}
			case 2:
				delete(lens, rel)
				tr.Fault("power_loss_file_gone")
			}
		}
		img.desc += " +power-loss"
	}
	w.nimg++
	img.dir = filepath.Join(w.root, fmt.Sprintf("img%d", w.nimg))
	rels := make([]string, 0, len(lens))
	for rel := range lens {
		rels = append(rels, rel)
	}
	sort.Strings(rels)
	for _, rel := range rels {
		if err := copyPrefix(filepath.Join(w.live, rel), filepath.Join(img.dir, rel), lens[rel]); err != nil {
			panic("store world: cannot build crash image: " + scrub(err.Error(), w.root))
		}
	}
	os.MkdirAll(img.dir, 0o755)
	return img
}

func copyPrefix(src, dst string, n int64) error {
	if err := os.MkdirAll(filepath.Dir(dst), 0o755); err != nil {
		return err
	}
	in, err := os.Open(src)
	if err != nil {
		return err
	}
	defer in.Close()
	out, err := os.Create(dst)
	if err != nil {
		return err
	}
	defer out.Close()
	m, err := io.CopyN(out, in, n)
	if err != nil && !(err == io.EOF && m == n) {
		return fmt.Errorf("short source file: %d of %d bytes: %v", m, n, err)
	}
	return nil
}

func (w *world) crashStep(st sim.Step) {
	tr := w.tr
	power := st.Int(1, 0) != 0
	img := w.makeImage(st.Int(0, 0), power)
	if img == nil {
		tr.Outcome("crash/skip")
		return
	}
	tr.Event("crash %s", img.desc)
	if w.p.CfgInt("mode", 0) == 0 {
		w.dbCheckImage(img, power, st.Int(0, 0))
	} else {
		w.bsCheckImage(img, power, st.Int(0, 0))
	}
	os.RemoveAll(img.dir)
}

// dbCheckImage restarts on the image: every generation is opened by a fresh
// object and written keys are read back.
func (w *world) dbCheckImage(img *image, power bool, id int64) {
	tr := w.tr
	r := w.disk.Child(fmt.Sprintf("crashread/%d", id))
	mode := "crash"
	if power {
		mode = "powerloss"
	}
	w.rdGen = nil // the SUT reader will point into the image
	for _, g := range w.gens {
		if len(g.order) == 0 && !g.saved {
			continue
		}
		// strict: the generation was saved by an operation before the crashed one
		strict := !power && g.saved && g.saveOp < img.k
		rsp := call(&request{Op: "dbopen", File: filepath.Join(img.dir, g.name), KeyLen: w.keylen, Compress: w.compress, Header: w.header > 0, Style: 0})
		o := outcome(rsp)
		pre := "blockdb/" + mode + "-image/"
		tr.Event("%s open db%d strict=%v -> %s", mode, g.idx, strict, o)
		tr.Outcome(mode + "/open/" + o)
		bad := func(oracle, sig, detail string) {
			if power {
				tr.Probe("power_loss_anomaly/" + sig)
				return
			}
			w.viol(oracle, pre+sig, detail+" ["+img.desc+"]")
		}
		if lost(rsp) || o == "panic" {
			bad("read-deadline", "open/"+o+w.klTag(), "Open on a crash image did not return: "+o+" "+rsp.Panic)
			if lost(rsp) {
				w.sutLost()
				if !power {
					w.done = true
				}
				return
			}
			continue
		}
		if o != "ok" {
			if strict {
				bad("crash-durability", "open/"+o+w.klTag(), "a DB saved before the crashed operation does not open: "+rsp.Err)
			}
			continue
		}
		tr.Probe(mode + "_image_opens")
		if w.header > 0 && !strictEqual(rsp.Hdr, w.hdrData()) {
			bad("header", "open/header-mismatch", "header read from the image differs from the one written")
		}
		n := len(g.order)
		idxs := r.Perm(n)
		if len(idxs) > 10 {
			idxs = idxs[:10]
		}
		sort.Ints(idxs)
		for _, i := range idxs {
			key := []byte(g.order[i])
			rr := call(&request{Op: "dbread", Key: key})
			ro := outcome(rr)
			res := ro
			switch {
			case lost(rr) || ro == "panic":
				bad("read-deadline", "read/"+ro+w.klTag(), "Read on a crash image did not return: "+ro+" "+rr.Panic)
			case ro == "ok":
				if string(rr.Key) == string(key) && isVersion(g.recs[string(key)], rr.Data) {
					res = "exact"
					tr.Probe(mode + "_read_exact")
				} else {
					res = "wrong"
					bad("read-exact", "read/wrong-record", fmt.Sprintf("Read on a crash image returned %d bytes that were not written under the key", len(rr.Data)))
				}
			default:
				res = "error"
				tr.Probe(mode + "_read_error")
				if strict {
					bad("crash-durability", "read/"+ro, "a record of a DB saved before the crashed operation does not read back: "+rr.Err)
				}
			}
			tr.Event("%s read db%d #%d -> %s", mode, g.idx, i, res)
			tr.Outcome(mode + "/read/" + res)
			if lost(rr) {
				w.sutLost()
				if !power {
					w.done = true
				}
				return
			}
		}
	}
	call(&request{Op: "dbclose"})
}

func strictEqual(a, b []byte) bool { return string(a) == string(b) }

// bsCheckImage restarts the block store on the image and reads every block
// written so far.
func (w *world) bsCheckImage(img *image, power bool, id int64) {
	tr := w.tr
	mode := "crash"
	if power {
		mode = "powerloss"
	}
	if !w.bsInit(img.dir, 0) {
		return
	}
	defer w.bsInit(w.live, w.cache)
	for bi, b := range w.blocks {
		if b.firstOp > img.k {
			continue // written after the crash point
		}
		// the crashed operation wrote (or rewrote) this block
		touched := false
		for _, f := range img.op.files {
			for _, bf := range b.files {
				if f.rel == bf {
					touched = true
				}
			}
		}
		strict := !power && !touched
		for pass, hash := range []string{b.hash, b.mbHash} {
			if hash == "" {
				continue
			}
			r := call(&request{Op: "bsread", Dir: img.dir, Hash: hash})
			var res string
			if power {
				res = w.judgePower(b, r)
			} else {
				nv := len(tr.Viol)
				res = w.judgeBlock("blockstore/crash-image/", []string{"by-hash", "by-mb-hash"}[pass], b, r, strict)
				for _, v := range tr.Viol[nv:] {
					v.Detail += " [" + img.desc + "]"
				}
			}
			if res == "exact" {
				tr.Probe(mode + "_read_exact")
			} else if res == "error" {
				tr.Probe(mode + "_read_error")
			}
			tr.Event("%s bsread block#%d key=%d strict=%v -> %s", mode, bi, pass, strict, res)
			tr.Outcome(mode + "/bsread/" + res)
			if lost(r) {
				if !power {
					w.done = true
				}
				return
			}
		}
	}
}

// judgePower: report-only classification of a read after power loss.
func (w *world) judgePower(b *blk, r *response) string {
	o := outcome(r)
	switch {
	case lost(r) || o == "panic":
		w.tr.Probe("power_loss_anomaly/blockstore/" + o)
		return o
	case o != "ok":
		return "error"
	}
	if g, _ := diffProj(b.proj, r.Block); g != "" {
		w.tr.Probe("power_loss_anomaly/blockstore/mismatch-" + g)
		return "mismatch-" + g
	}
	return "exact"
}
