// Package threads is the threads world (DESIGN 3.4): seeded interleavings of
// real goroutines over go/ast-instrumented copies of the real packages
// core/util/orderbuffer, chaincore/round and chaincore/block. It serves C46
// (porcupine linearizability of the ordered block buffer), C37 (round
// transitions monotone, never deadlock) and C44 (data races, -race build).
package threads

import (
	"bytes"
	"encoding/json"
	"fmt"
	"os"
	"os/exec"
	"path/filepath"
	"regexp"
	"strings"
	"sync"

	"verif/instr"
	"verif/sim"
	"verif/simrt"
)

// Target packages, relative to the repository module.
var targetPkgs = []string{"core/util/orderbuffer", "chaincore/round", "chaincore/block"}

const workerMain = "./cmd/dev_threads"

func repoMod() string {
	if d := os.Getenv("VERIF_REPO"); d != "" {
		return filepath.Clean(d)
	}
	return "/repo/code/go/0chain.net"
}

// srcDir is the root of the harness module (where go.mod of module verif lives):
// run.sh changes into it before it starts the harness.
func srcDir() string {
	isSrc := func(d string) bool {
		b, err := os.ReadFile(filepath.Join(d, "go.mod"))
		return err == nil && strings.HasPrefix(string(b), "module verif\n")
	}
	if d := os.Getenv("VERIF_SRC"); d != "" && isSrc(d) {
		return d
	}
	if d, err := os.Getwd(); err == nil && isSrc(d) {
		return d
	}
	if d := sim.VerifDir(); isSrc(d) {
		return d
	}
	return "/verif"
}

func goBin() string {
	if g := os.Getenv("VERIF_GO"); g != "" {
		return g
	}
	return "/opt/veriftools/go1.26.8/bin/go"
}

func goEnv() []string {
	env := os.Environ()
	return append(env, "GOFLAGS=-mod=mod", "GOPROXY=off", "GOSUMDB=off", "GOTOOLCHAIN=local", "GOWORK=off")
}

// instrReport is what Prepare hands to the workers through a file named by
// VERIF_THREADS_INSTR (counts published as probes, list of uninstrumented
// blocking constructs).
type instrReport struct {
	Files     int      `json:"files"`
	Locks     int      `json:"locks"`
	Unlocks   int      `json:"unlocks"`
	Atomics   int      `json:"atomics"`
	Gos       int      `json:"gos"`
	Unhandled []string `json:"unhandled"`
	RepoMod   string   `json:"repo_mod"`
}

// prepare instruments the current sources, builds the worker binary (with
// -race when race is set) in a fresh temporary directory and returns its argv.
func prepare(race bool) (argv []string, cleanup func(), err error) {
	tmp, err := os.MkdirTemp("", "verif-threads-")
	if err != nil {
		return nil, nil, err
	}
	cleanup = func() { os.RemoveAll(tmp) }
	if os.Getenv("VERIF_THREADS_KEEP") != "" { // development knob: keep the scratch directory
		fmt.Fprintln(os.Stderr, "threads: keeping", tmp)
		cleanup = func() {}
	}
	fail := func(format string, a ...any) ([]string, func(), error) {
		cleanup()
		return nil, nil, fmt.Errorf(format, a...)
	}
	vdir := srcDir()
	modfile := ""
	if alt := os.Getenv("VERIF_REPO"); alt != "" {
		b, err := os.ReadFile(filepath.Join(vdir, "go.mod"))
		if err != nil {
			return fail("%v", err)
		}
		s := regexp.MustCompile(`(?m)^replace 0chain\.net => .*$`).ReplaceAllString(string(b), "replace 0chain.net => "+repoMod())
		s = strings.ReplaceAll(s, "=> ./simdisk/grocksdb", "=> "+filepath.Join(vdir, "simdisk/grocksdb"))
		modfile = filepath.Join(tmp, "go.alt.mod")
		if err := os.WriteFile(modfile, []byte(s), 0o644); err != nil {
			return fail("%v", err)
		}
		sum, _ := os.ReadFile(filepath.Join(vdir, "go.sum"))
		os.WriteFile(filepath.Join(tmp, "go.alt.sum"), sum, 0o644)
	}
	rep, err := instr.Instrument(instr.Options{RepoMod: repoMod(), ModPath: "0chain.net", Packages: targetPkgs,
		GoBin: goBin(), WorkDir: vdir, Tags: "verif", ModFile: modfile, Scratch: tmp})
	if err != nil {
		return fail("%v", err)
	}
	ir := instrReport{Files: rep.Files, Locks: rep.Locks, Unlocks: rep.Unlocks, Atomics: rep.Atomics, Gos: rep.Gos, Unhandled: rep.Unhandled, RepoMod: repoMod()}
	irb, _ := json.Marshal(ir)
	irPath := filepath.Join(tmp, "instr.json")
	os.WriteFile(irPath, irb, 0o644)

	bin := filepath.Join(tmp, "worker.test")
	ld := "-X verif/simrt.Instrumented=1"
	args := []string{"test", "-c", "-tags", "verif", "-overlay", filepath.Join(tmp, "overlay.json")}
	if race {
		args = append(args, "-race")
		ld += " -X verif/simrt.RaceBuild=1"
	}
	if modfile != "" {
		args = append(args, "-modfile="+modfile)
	}
	// no inlining of the packages under test: every access keeps the frame (file:line) of the
	// function it belongs to in race reports, also when the caller is the harness
	for _, t := range targetPkgs {
		args = append(args, "-gcflags=0chain.net/"+t+"=-l")
	}
	args = append(args, "-ldflags", ld, "-o", bin, workerMain)
	cmd := exec.Command(goBin(), args...)
	cmd.Dir = vdir
	cmd.Env = goEnv()
	var out bytes.Buffer
	cmd.Stdout, cmd.Stderr = &out, &out
	if err := cmd.Run(); err != nil {
		return fail("instrumented build failed (%v):\n%s", err, tailStr(out.String(), 3000))
	}
	os.Setenv("VERIF_THREADS_INSTR", irPath)
	os.Setenv("VERIF_THREADS_TMP", tmp)
	if race {
		// halt_on_error=0: keep running after a report; the two suppress_* switches make the
		// detector report a race every time it happens (not once per process), so that every
		// run of a worker process, and every candidate of the shrinker, sees its own reports.
		os.Setenv("GORACE", "halt_on_error=0 exitcode=0 history_size=4 suppress_equal_stacks=0 suppress_equal_addresses=0 atexit_sleep_ms=0 log_path="+filepath.Join(tmp, "race"))
	}
	return []string{bin}, cleanup, nil
}

func tailStr(s string, n int) string {
	if len(s) > n {
		return s[len(s)-n:]
	}
	return s
}

func prepareFn(race bool) func(tier string) ([]string, func(), error) {
	return func(string) ([]string, func(), error) { return prepare(race) }
}

// reexec: `./run.sh replay <file>` is dispatched by the plain harness binary,
// whose copies of the target packages are not instrumented. Exec then builds
// the instrumented worker itself, runs the plan there and returns its result.
// Returns nil when the current process is the right binary.
func reexec(p *sim.Plan, race bool) *sim.Result {
	if simrt.Instrumented != "" && (!race || simrt.RaceBuild != "") {
		return nil
	}
	if os.Getenv("VERIF_THREADS_REEXEC") != "" {
		panic("threads: worker binary is not instrumented (linker flag lost?)")
	}
	argv, cleanup, err := prepare(race)
	if err != nil {
		panic("threads: cannot build the instrumented worker: " + err.Error())
	}
	defer cleanup()
	tmp := os.Getenv("VERIF_THREADS_TMP")
	pf := filepath.Join(tmp, "plan.json")
	b, _ := json.Marshal(&sim.ReplayFile{Property: p.Prop, Seed: p.Seed, Plan: p})
	if err := os.WriteFile(pf, b, 0o644); err != nil {
		panic(err)
	}
	cmd := exec.Command(argv[0], append(append([]string{}, argv[1:]...), "replay", pf, "--json", "1")...)
	cmd.Env = append(os.Environ(), "VERIF_THREADS_REEXEC=1")
	var stderr bytes.Buffer
	cmd.Stderr = &stderr
	out, _ := cmd.Output()
	for _, ln := range strings.Split(string(out), "\n") {
		if strings.HasPrefix(ln, "RESULT ") {
			var r sim.Result
			if err := json.Unmarshal([]byte(ln[7:]), &r); err != nil {
				panic("threads: bad result from instrumented worker: " + err.Error())
			}
			return &r
		}
	}
	panic("threads: instrumented worker gave no result: " + tailStr(string(out)+stderr.String(), 2000))
}

var (
	irOnce sync.Once
	irData instrReport
)

// instrInfo returns the rewriter's report (worker side).
func instrInfo() *instrReport {
	irOnce.Do(func() {
		if p := os.Getenv("VERIF_THREADS_INSTR"); p != "" {
			if b, err := os.ReadFile(p); err == nil {
				json.Unmarshal(b, &irData)
			}
		}
	})
	return &irData
}
