package threads

import (
	"fmt"
	"sort"

	"verif/sim"
	"verif/simrt"
)

// Plan conventions shared by the three checks.
//
//	operation step : Op = kind, A = goroutine, I[0] = operation id (unique, assigned by Gen), I[1..] = arguments
//	pre-emption    : Op = "pre", I = [operation id, k, target]: at the k-th scheduling point inside that
//	                 operation the running goroutine is pre-empted in favour of the target-th other live goroutine
//
// The schedule is a pure function of the plan: between pre-emption points a
// goroutine keeps the token until it finishes or fails a TryLock, then the next
// live goroutine in cyclic order runs. Pre-emptions are keyed by (operation id,
// scheduling point inside the operation), so deleting other steps while
// shrinking does not move them.

type opRec struct {
	G    int
	ID   int
	Kind string
	In   []int64
	Out  string
	Call int64
	Ret  int64
	Done bool
	Held int // locks still held by the goroutine when the operation returned
}

type runner struct {
	s    *simrt.Sched
	n    int
	pre  map[[2]int]int
	ops  [][]sim.Step
	recs [][]opRec
	// afterOp runs on the goroutine right after an operation returned (token held)
	afterOp func(g *simrt.G, rec *opRec)
}

func newRunner(p *sim.Plan, mode simrt.Mode, n int) *runner {
	r := &runner{s: simrt.New(mode), n: n, pre: map[[2]int]int{}, ops: make([][]sim.Step, n), recs: make([][]opRec, n)}
	for _, st := range p.Steps {
		if st.Op == "pre" {
			r.pre[[2]int{int(st.Int(0, -1)), int(st.Int(1, 0))}] = int(st.Int(2, 0))
			continue
		}
		a := ((st.A % n) + n) % n
		r.ops[a] = append(r.ops[a], st)
	}
	r.s.Pick = r.pick
	return r
}

//go:norace
func (r *runner) pick(g *simrt.G) int {
	if g.Tag < 0 {
		return -1
	}
	if t, ok := r.pre[[2]int{g.Tag, g.TagYield}]; ok {
		return t
	}
	return -1
}

// run executes the plan: goroutine i performs r.ops[i] in order through do.
func (r *runner) run(first int, do func(g *simrt.G, st sim.Step) string) {
	for i := 0; i < r.n; i++ {
		i := i
		r.recs[i] = make([]opRec, 0, len(r.ops[i]))
		r.s.Spawn(func(g *simrt.G) {
			for _, st := range r.ops[i] {
				r.recs[i] = append(r.recs[i], opRec{G: i, ID: int(st.Int(0, -1)), Kind: st.Op, In: st.I})
				rec := &r.recs[i][len(r.recs[i])-1]
				g.SetTag(rec.ID)
				rec.Call = r.s.Tick()
				out := do(g, st)
				rec.Out = out
				rec.Ret = r.s.Tick()
				rec.Held = g.Held
				rec.Done = true
				g.SetTag(-1)
				if r.afterOp != nil {
					r.afterOp(g, rec)
				}
			}
		})
	}
	r.s.Run(first)
}

// history returns all operation records ordered by invocation stamp.
func (r *runner) history() []*opRec {
	var h []*opRec
	for i := range r.recs {
		for j := range r.recs[i] {
			h = append(h, &r.recs[i][j])
		}
	}
	sort.Slice(h, func(a, b int) bool { return h[a].Call < h[b].Call })
	return h
}

// finish publishes scheduler counters into the trace and re-raises panics of
// the code under test that were caught on managed goroutines.
func (r *runner) finish(tr *sim.Trace) {
	for i := 0; i < r.s.Preempts; i++ {
		tr.Fault("preempt")
	}
	if r.s.SpinFails > 0 {
		tr.Probe("lock_contended")
	}
	if r.s.ReaderBlockedByWriter > 0 {
		tr.Probe("reader_blocked_by_pending_writer")
	}
	tr.State(fmt.Sprintf("%016x", r.s.SchedHash))
	tr.Event("sched switches=%d preempts=%d spins=%d hash=%016x", r.s.Switches, r.s.Preempts, r.s.SpinFails, r.s.SchedHash)
	if r.s.Budget {
		panic(fmt.Sprintf("threads: step budget exhausted (%d steps): harness trouble", r.s.Seq()))
	}
}

// genPre emits pre-emption steps for one operation: each of its first maxY
// scheduling points is a pre-emption point with probability prob.
func genPre(rs *sim.RNG, steps []sim.Step, opID, maxY int, prob float64, ngo int) []sim.Step {
	for y := 1; y <= maxY; y++ {
		if rs.Bool(prob) {
			steps = append(steps, sim.Step{Op: "pre", I: []int64{int64(opID), int64(y), int64(rs.Intn(ngo))}})
		}
	}
	return steps
}

var preProbs = []float64{0, 0.03, 0.1, 0.25, 0.5}

func publishInstr(tr *sim.Trace) {
	ir := instrInfo()
	if len(ir.Unhandled) > 0 {
		tr.Probe("instr_uninstrumented_blocking_constructs")
	}
}
