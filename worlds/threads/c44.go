package threads

import (
	"fmt"
	"os"
	"path/filepath"
	"regexp"
	"sort"
	"strconv"
	"strings"

	"0chain.net/chaincore/block"
	"0chain.net/chaincore/node"
	"0chain.net/chaincore/round"

	"verif/sim"
	"verif/simrt"
	"verif/worlds/wkit"
)

func init() {
	sim.Register(&sim.Check{
		ID: "C44", Title: "Shared protocol structures are free of data races", World: "threads",
		Gen: genC44, Exec: execC44, Prepare: prepareFn(true),
		Quick:    sim.Budget{Runs: 800, WallS: 150},
		Thorough: sim.Budget{Runs: 400000, WallS: 780},
		// WallS only caps the batch: on an idle machine the quick batch takes 10-25 s plus 4 s (plain) / 15 s (-race) for the
		// instrumented build; the driver starts the clock before Prepare, so the cap leaves room for a slow build under load
		RunsPerProc: 100,
		LevelText: "seeded search over concurrent workloads and interleavings of the exported Round and Block operations under the Go race detector (-race build of the instrumented copy); " +
			"every report is a violation whose signature is the pair of racing functions (file:line of both accesses in the detail); a clean batch is evidence, not proof",
		LevelNote: "sub-targets Round (notarized/proposed-block access, phase, finalizing state, shares, seed) and Block (ticket merging, state status, block state, clone). " +
			"miner.ValidateTransactions (shared cancel/roundMismatch flags) needs a full chain and is NOT exercised here. The detector only sees accesses the explored runs execute. " +
			"Races found on the pinned tree are listed in known_findings.d/threads.json.",
		Technique: "deterministic simulation: token scheduler over go/ast-instrumented real code with the token passed through raw pipe system calls (no happens-before edge visible to the detector), " +
			"plan-carried pre-emption points, oracle = Go race detector",
		DesignRef: "3.4, 6/C44, 11", Regime: "token scheduler over go/ast-instrumented real code (-race, raw-pipe token)",
		Components: sim.Components{
			Real: []string{"chaincore/round (Round)", "chaincore/block (Block, VerificationTicket)", "Go race detector runtime"},
			Sim:  []string{"operation goroutines", "token scheduler (verif/simrt, //go:norace, raw-pipe token)"},
			Stub: []string{"miner pool of bare node objects", "miner.ValidateTransactions not exercised"},
		},
		Assumptions: []string{
			"the race detector has no false positives; happens-before edges come only from the program under test (go statements of the harness order set-up before the workers; a WaitGroup orders the workers' end before the harness reads results)",
			"GORACE suppress_equal_stacks=0 suppress_equal_addresses=0 so that every run reports its own races",
			"a racing access that happens in the harness while it reads data an operation returned (the slice of GetNotarizedBlocks) is attributed to that operation",
		},
	})
}

var c44Kinds = []string{
	// round: notarized / proposed block access
	"r.notarize", "r.getnotarized", "r.heaviest", "r.bestnotarized", "r.update", "r.propose", "r.getproposed", "r.bestproposed",
	// round: phase, finalizing state, seed, shares, timeout
	"r.setphase", "r.getphase", "r.finalize", "r.isfinalized", "r.setfinalizing", "r.condreset", "r.setseed", "r.getseed",
	"r.share", "r.getshares", "r.settimeout", "r.gettimeout", "r.setvrf", "r.getvrf", "r.blockhash", "r.clone", "r.minerrank",
	// block: tickets
	"b.addticket", "b.merge", "b.settickets", "b.gettickets", "b.ticketsize", "b.unknown", "b.setprev", "b.getprev",
	// block: status
	"b.setstatus", "b.getstatus", "b.iscomputed", "b.setblockstate", "b.getblockstate", "b.setnotarized", "b.isnotarized",
	"b.setfinalised", "b.isfinalised", "b.setverif", "b.getverif", "b.addext", "b.getext", "b.clone", "b.setseed", "b.getseed",
}

func genC44(seed uint64, tier string) *sim.Plan {
	root := sim.NewRNG(seed)
	r := root.Child("plan")
	rs := root.Child("sched")
	sw := root.Child("swarm")
	ngo := sw.Range(2, 4)
	nops := sw.Range(4, 30)
	prob := preProbs[sw.Intn(len(preProbs))]
	p := &sim.Plan{Cfg: map[string]int64{"goroutines": int64(ngo), "first": int64(sw.Intn(ngo))}}
	// swarm: each run draws a small active subset of operation kinds, so that pairs meet often
	w := make([]int, len(c44Kinds))
	active := sw.Range(3, 10)
	for i := 0; i < active; i++ {
		w[sw.Intn(len(w))] += sw.Range(1, 4)
	}
	for i := 0; i < nops; i++ {
		kind := c44Kinds[r.Pick(w)]
		p.Steps = append(p.Steps, sim.Step{Op: kind, A: r.Intn(ngo), I: []int64{int64(i), int64(r.Intn(4)), int64(r.Intn(64))}})
		maxY := 4
		if kind == "r.notarize" {
			maxY = 14
		}
		p.Steps = genPre(rs, p.Steps, i, maxY, prob, ngo)
	}
	return p
}

// si / sb format without fmt: fmt's sync.Pool carries race-detector annotations
// (Put releases, Get acquires) and would add happens-before edges between the
// worker goroutines that the program under test does not have.
func si(v int64) string { return strconv.FormatInt(v, 10) }
func sb(v bool) string  { return strconv.FormatBool(v) }

// readers of data handed out by an operation: a racing access inside these
// functions is attributed to the operation named in the signature

//go:noinline
func touchNotarizedBlocks(bs []*block.Block) int {
	n := 0
	for _, b := range bs {
		if b != nil {
			n += b.RoundRank
		}
	}
	return n
}

//go:noinline
func touchProposedBlocks(bs []*block.Block) int {
	n := 0
	for _, b := range bs {
		if b != nil {
			n += b.RoundRank
		}
	}
	return n
}

// Callers of leaf functions whose only access is a sync/atomic package function:
// the race runtime shows the assembly stub and then the *caller* of the leaf
// function (the stub's ABI wrapper pushes no frame), so the harness frame stands
// for the leaf function.

//go:noinline
func callSetRoundRandomSeed(b *block.Block, x int64) { b.SetRoundRandomSeed(x) }

//go:noinline
func callGetRoundRandomSeed(b *block.Block) int64 { return b.GetRoundRandomSeed() }

//go:noinline
func callGetRandomSeed(r *round.Round) int64 { return r.GetRandomSeed() }

//go:noinline
func callHasRandomSeed(r *round.Round) bool { return r.HasRandomSeed() }

var touchOps = map[string]string{
	"touchNotarizedBlocks":   "chaincore/round.(*Round).GetNotarizedBlocks[result]",
	"touchProposedBlocks":    "chaincore/round.(*Round).GetProposedBlocks[result]",
	"callSetRoundRandomSeed": "chaincore/block.(*UnverifiedBlockBody).SetRoundRandomSeed",
	"callGetRoundRandomSeed": "chaincore/block.(*UnverifiedBlockBody).GetRoundRandomSeed",
	"callGetRandomSeed":      "chaincore/round.(*Round).GetRandomSeed",
	"callHasRandomSeed":      "chaincore/round.(*Round).HasRandomSeed",
}

func execC44(env *sim.Env, p *sim.Plan) *sim.Result {
	if res := reexec(p, true); res != nil {
		return res
	}
	wkit.Quiet()
	tr := sim.NewTrace()
	tr.Keep = env.KeepLog
	publishInstr(tr)
	ngo := int(p.CfgInt("goroutines", 2))
	if ngo < 1 {
		ngo = 1
	}
	miners := make([]*node.Node, 4)
	for i := range miners {
		n := &node.Node{}
		n.ID = fmt.Sprintf("miner-%d", i)
		n.Type = node.NodeTypeMiner
		n.SetIndex = i
		miners[i] = n
	}
	rd := round.Provider().(*round.Round)
	rd.Number = 7
	blocks := make([]*block.Block, 4)
	for i := range blocks {
		b := &block.Block{}
		b.Round = 7
		b.Hash = fmt.Sprintf("hash-%d", i)
		b.RoundRank = i % 3
		b.MinerID = miners[i].ID
		blocks[i] = b
	}
	blocks[3].Hash = blocks[1].Hash
	tickets := make([]*block.VerificationTicket, 6)
	for i := range tickets {
		tickets[i] = &block.VerificationTicket{VerifierID: fmt.Sprintf("verifier-%d", i), Signature: "sig"}
	}
	subset := func(mask int64) []*block.VerificationTicket {
		var out []*block.VerificationTicket
		for i := range tickets {
			if mask&(1<<i) != 0 {
				out = append(out, tickets[i])
			}
		}
		return out
	}

	logOff := raceLogSize()
	rn := newRunner(p, simrt.ModePipe, ngo)
	rn.run(int(p.CfgInt("first", 0)), func(g *simrt.G, st sim.Step) string {
		b := blocks[int(st.Int(1, 0))%len(blocks)]
		x := st.Int(2, 0)
		switch st.Op {
		case "r.notarize":
			rd.AddNotarizedBlock(b)
		case "r.getnotarized":
			return si(int64(touchNotarizedBlocks(rd.GetNotarizedBlocks())))
		case "r.heaviest":
			return sb(rd.GetHeaviestNotarizedBlock() != nil)
		case "r.bestnotarized":
			return sb(rd.GetBestRankedNotarizedBlock() != nil)
		case "r.update":
			rd.UpdateNotarizedBlock(b)
		case "r.propose":
			rd.AddProposedBlock(b)
		case "r.getproposed":
			return si(int64(touchProposedBlocks(rd.GetProposedBlocks())))
		case "r.bestproposed":
			return sb(rd.GetBestRankedProposedBlock() != nil)
		case "r.setphase":
			rd.SetPhase(round.Phase(x % 5))
		case "r.getphase":
			return si(int64(rd.GetPhase()))
		case "r.finalize":
			rd.Finalize(b)
		case "r.isfinalized":
			return sb(rd.IsFinalized()) + sb(rd.IsFinalizing())
		case "r.setfinalizing":
			return sb(rd.SetFinalizing())
		case "r.condreset":
			rd.ResetFinalizingStateIfNotFinalized()
		case "r.setseed":
			if x%2 == 0 {
				rd.SetRandomSeed(x+1, len(miners))
			} else {
				rd.SetRandomSeedForNotarizedBlock(x+1, len(miners))
			}
		case "r.getseed":
			return si(callGetRandomSeed(rd)) + sb(callHasRandomSeed(rd)) + sb(rd.IsRanksComputed())
		case "r.share":
			sh := &round.VRFShare{Round: 7, Share: "share-" + si(x)}
			sh.SetParty(miners[int(x)%len(miners)])
			return sb(rd.AddVRFShare(sh, 3))
		case "r.getshares":
			return si(int64(len(rd.GetVRFShares())))
		case "r.settimeout":
			return sb(rd.SetTimeoutCount(int(x % 5)))
		case "r.gettimeout":
			return si(int64(rd.GetTimeoutCount()))
		case "r.setvrf":
			rd.SetVRFOutput("vrf-" + si(x))
		case "r.getvrf":
			return rd.GetVRFOutput()
		case "r.blockhash":
			return rd.GetBlockHash()
		case "r.clone":
			if rd.GetHeaviestNotarizedBlock() != nil { // Round.Clone dereferences r.Block
				rd.Clone()
			}
		case "r.minerrank":
			if rd.IsRanksComputed() {
				return si(int64(rd.GetMinerRank(miners[int(x)%len(miners)])))
			}
		case "b.addticket":
			return sb(b.AddVerificationTicket(tickets[int(x)%len(tickets)]))
		case "b.merge":
			b.MergeVerificationTickets(subset(x))
		case "b.settickets":
			b.SetVerificationTickets(subset(x))
		case "b.gettickets":
			return si(int64(len(b.GetVerificationTickets())))
		case "b.ticketsize":
			return si(int64(b.VerificationTicketsSize()))
		case "b.unknown":
			return si(int64(len(b.UnknownTickets(subset(x)))))
		case "b.setprev":
			b.SetPrevBlockVerificationTickets(subset(x))
		case "b.getprev":
			return si(int64(len(b.GetPrevBlockVerificationTickets()))) + "/" + si(int64(b.PrevBlockVerificationTicketsSize()))
		case "b.setstatus":
			b.SetStateStatus(int8(x % 5))
		case "b.getstatus":
			return si(int64(b.GetStateStatus()))
		case "b.iscomputed":
			return sb(b.IsStateComputed())
		case "b.setblockstate":
			b.SetBlockState(int8(x % 4))
		case "b.getblockstate":
			return si(int64(b.GetBlockState()))
		case "b.setnotarized":
			b.SetBlockNotarized()
		case "b.isnotarized":
			return sb(b.IsBlockNotarized())
		case "b.setfinalised":
			b.SetBlockFinalised()
		case "b.isfinalised":
			return sb(b.IsBlockFinalised())
		case "b.setverif":
			b.SetVerificationStatus(int(x % 4))
		case "b.getverif":
			return si(int64(b.GetVerificationStatus()))
		case "b.addext":
			b.AddUniqueBlockExtension(blocks[int(x)%len(blocks)])
		case "b.getext":
			return si(int64(len(b.GetUniqueBlockExtensions())))
		case "b.clone":
			return sb(b.Clone() != nil)
		case "b.setseed":
			callSetRoundRandomSeed(b, x)
		case "b.getseed":
			return si(callGetRoundRandomSeed(b))
		}
		return ""
	})

	hist := rn.history()
	for _, h := range hist {
		tr.Event("g%d %s %v -> %s [%d,%d] done=%v", h.G, h.Kind, h.In[1:], h.Out, h.Call, h.Ret, h.Done)
		tr.Outcome(h.Kind)
	}
	reports, bad := readRaceReports(logOff)
	if bad != "" {
		panic("threads: C44: " + bad)
	}
	sigs := map[string]string{}
	for _, rp := range reports {
		if _, ok := sigs[rp.sig]; !ok {
			sigs[rp.sig] = rp.detail
		}
	}
	keys := make([]string, 0, len(sigs))
	for k := range sigs {
		keys = append(keys, k)
	}
	sort.Strings(keys)
	for _, k := range keys {
		tr.Probe("race_reported")
		tr.Violate(&sim.Violation{Prop: "C44", Oracle: "race-detector", Sig: "C44/race/" + k, Detail: sigs[k]})
	}
	for _, g := range rn.s.Gs() {
		if g.Panic != "" {
			tr.Violate(&sim.Violation{Prop: "C44", Oracle: "panic", Sig: "C44/panic/" + tagKind(rn, g), Detail: firstLine(g.Panic)})
		}
	}
	if rn.s.Deadlock {
		tr.Probe("deadlock_ended_run")
	}
	rn.finish(tr)
	return tr.Result(p.Seed)
}

// ---- race report parsing -------------------------------------------------------------------------

type raceReport struct {
	sig    string
	detail string
}

func raceLogPath() string {
	for _, f := range strings.Fields(os.Getenv("GORACE")) {
		if strings.HasPrefix(f, "log_path=") {
			return fmt.Sprintf("%s.%d", f[len("log_path="):], os.Getpid())
		}
	}
	return ""
}

func raceLogSize() int64 {
	if p := raceLogPath(); p != "" {
		if st, err := os.Stat(p); err == nil {
			return st.Size()
		}
	}
	return 0
}

var (
	accessRe = regexp.MustCompile(`^(Read|Write|Previous read|Previous write|Atomic read|Atomic write|Previous atomic read|Previous atomic write) at 0x[0-9a-f]+ by `)
	frameRe  = regexp.MustCompile(`^\s+(\S.*):(\d+)( \+0x[0-9a-f]+)?$`)
)

// readRaceReports parses the detector's reports written since offset off.
// The second result is non-empty when a report cannot be attributed to the code
// under test (a race inside the harness itself): harness trouble.
func readRaceReports(off int64) ([]raceReport, string) {
	path := raceLogPath()
	if path == "" {
		return nil, "GORACE log_path is not set in the worker's environment"
	}
	b, err := os.ReadFile(path)
	if err != nil {
		if os.IsNotExist(err) {
			return nil, ""
		}
		return nil, err.Error()
	}
	if int64(len(b)) < off {
		off = 0
	}
	text := string(b[off:])
	var out []raceReport
	for _, blk := range strings.Split(text, "==================") {
		if !strings.Contains(blk, "WARNING: DATA RACE") {
			continue
		}
		lines := strings.Split(blk, "\n")
		var locs []string
		var first []string
		for i := 0; i < len(lines); i++ {
			if !accessRe.MatchString(lines[i]) {
				continue
			}
			// frames: function line, then file line, until a blank line
			loc, where, top := "", "", ""
			j := i + 1
			for ; j+1 < len(lines) && strings.TrimSpace(lines[j]) != ""; j += 2 {
				fn := strings.TrimSpace(lines[j])
				m := frameRe.FindStringSubmatch(lines[j+1])
				if m == nil {
					break
				}
				if top == "" {
					top = fn + " " + filepath.Base(m[1]) + ":" + m[2]
				}
				if l, w := mapLocation(fn, m[1], m[2]); l != "" {
					loc, where = l, w
					break
				}
			}
			if loc == "" {
				loc = "unattributed"
			}
			locs = append(locs, loc)
			first = append(first, strings.SplitN(lines[i], " at ", 2)[0]+" "+where+" (top frame "+top+")")
			i = j
		}
		if len(locs) < 2 {
			// the previous access's stack could not be restored by the detector
			for len(locs) < 2 {
				locs = append(locs, "unattributed")
				first = append(first, "stack not available")
			}
		}
		if locs[0] == "unattributed" && locs[1] == "unattributed" {
			return nil, "race report with no frame in the code under test (race inside the harness?):\n" + tailStr(blk, 1500)
		}
		l := []string{locs[0], locs[1]}
		sort.Strings(l)
		out = append(out, raceReport{sig: l[0] + "|" + l[1], detail: first[0] + " vs " + first[1]})
	}
	return out, ""
}

// mapLocation maps a frame of the code under test to (signature element, position):
// the signature element is "<package path relative to the repository module>.<function>"
// (stable while unrelated lines of the file move: the repository receives fix
// commits while this check is in use), the position is "<relative file>:<line>"
// of the original source (the rewriter keeps line numbers) and goes into the
// violation's detail. Harness reader / caller functions map to the operation
// they stand for; ("", "") for frames outside the code under test.
func mapLocation(fn, file, line string) (string, string) {
	file = filepath.ToSlash(file)
	fname := strings.TrimSuffix(strings.TrimSpace(fn), "()")
	fname = strings.TrimPrefix(fname, "0chain.net/")
	if i := strings.Index(file, "/src/"); i >= 0 && strings.Contains(file, "verif-threads-") {
		return fname, file[i+len("/src/"):] + ":" + line // scratch copy
	}
	for _, root := range []string{instrInfo().RepoMod, repoMod()} {
		root = filepath.ToSlash(root)
		if root != "" && strings.HasPrefix(file, root+"/") {
			rel := file[len(root)+1:]
			for _, t := range targetPkgs {
				if strings.HasPrefix(rel, t+"/") {
					return fname, rel + ":" + line
				}
			}
			return "", ""
		}
	}
	for name, op := range touchOps {
		if strings.Contains(fn, "threads."+name+"(") {
			return op, "harness " + name
		}
	}
	if strings.Contains(fn, "verif/worlds/threads.execC44.func") {
		// data built by the harness inside an operation and handed to the code under test
		// (a ticket slice that MergeVerificationTickets stores as it is)
		return "harness-built-argument", "harness"
	}
	return "", ""
}
