package threads

import (
	"fmt"
	"strings"
	"time"

	"0chain.net/core/util/orderbuffer"
	"github.com/anishathalye/porcupine"

	"verif/sim"
	"verif/simrt"
)

func init() {
	sim.Register(&sim.Check{
		ID: "C46", Title: "The ordered block buffer yields blocks lowest round first", World: "threads",
		Gen: genC46, Exec: execC46, Prepare: prepareFn(false),
		Quick:    sim.Budget{Runs: 3000, WallS: 150},
		Thorough: sim.Budget{Runs: 1500000, WallS: 780},
		// WallS only caps the batch: on an idle machine the quick batch takes 10-25 s plus 4 s (plain) / 15 s (-race) for the
		// instrumented build; the driver starts the clock before Prepare, so the cap leaves room for a slow build under load
		RunsPerProc: 200,
		LevelText: "seeded search over concurrent histories (<= 4 clients, <= 40 operations) and interleavings of the real OrderBuffer; every history is checked for " +
			"linearizability against the sorted-multiset model of DESIGN A.8 with porcupine; a clean batch is evidence, not proof",
		LevelNote: "interleavings are explored only at the scheduling points the rewriter inserts (mutex and atomic operations); plain memory accesses between them execute atomically, " +
			"so a defect that needs a pre-emption between two unsynchronised accesses is visible to C44 (race detector), not here. Payloads stand for blocks: one payload has one round.",
		Technique: "deterministic simulation: token scheduler over go/ast-instrumented real code, plan-carried pre-emption points, porcupine linearizability oracle",
		DesignRef: "3.4, 6/C46, A.8", Regime: "token scheduler over go/ast-instrumented real code",
		Components: sim.Components{
			Real: []string{"core/util/orderbuffer (instrumented scratch copy of the current sources, sync.Mutex operations turned into scheduling points)"},
			Sim:  []string{"client goroutines", "token scheduler (verif/simrt)", "reference model (sorted multiset, capacity, drop-highest, ignore exact repeat)"},
			Stub: []string{},
		},
		Assumptions: []string{
			"a payload (block) has exactly one round; an exact repeat is the same (round, payload) pair",
			"porcupine Unknown (timeout) is counted as inconclusive, never reported",
			"scheduling points exist only at sync.Mutex / sync.RWMutex / sync/atomic operations of the instrumented packages",
		},
	})
}

// ---- plan ----------------------------------------------------------------------------------------

func genC46(seed uint64, tier string) *sim.Plan {
	root := sim.NewRNG(seed)
	r := root.Child("plan")
	rs := root.Child("sched")
	sw := root.Child("swarm")
	ncl := sw.Range(2, 4)
	capv := []int{1, 2, 2, 3, 3, 4, 6, 100}[sw.Intn(8)]
	nops := sw.Range(6, 40)
	rounds := sw.Range(2, 8)
	prob := preProbs[sw.Intn(len(preProbs))]
	wAdd, wFirst, wPop := sw.Range(3, 8), sw.Range(0, 3), sw.Range(1, 5)
	pRepeat := []float64{0, 0.1, 0.3}[sw.Intn(3)]
	p := &sim.Plan{Cfg: map[string]int64{"clients": int64(ncl), "cap": int64(capv), "first": int64(sw.Intn(ncl))}}
	type pl struct{ round, payload int64 }
	var issued []pl
	nextPayload := int64(1)
	for i := 0; i < nops; i++ {
		a := r.Intn(ncl)
		var st sim.Step
		switch r.Pick([]int{wAdd, wFirst, wPop}) {
		case 0:
			if len(issued) > 0 && r.Bool(pRepeat) {
				// deliberate exact repeat; half of the time of the most recent addition
				k := len(issued) - 1
				if r.Bool(0.5) {
					k = r.Intn(len(issued))
				}
				st = sim.Step{Op: "add", A: a, I: []int64{int64(i), issued[k].round, issued[k].payload, 1}}
			} else {
				it := pl{int64(r.Intn(rounds)), nextPayload}
				nextPayload++
				issued = append(issued, it)
				st = sim.Step{Op: "add", A: a, I: []int64{int64(i), it.round, it.payload, 0}}
			}
		case 1:
			st = sim.Step{Op: "first", A: a, I: []int64{int64(i)}}
		default:
			st = sim.Step{Op: "pop", A: a, I: []int64{int64(i)}}
		}
		p.Steps = append(p.Steps, st)
		p.Steps = genPre(rs, p.Steps, i, 2, prob, ncl)
	}
	return p
}

// ---- reference model (DESIGN A.8, from the property statement) -----------------------------------

type obItem struct{ r, p int64 }

type obIn struct {
	op   string
	r, p int64
}

type obOut struct {
	ok   bool
	r, p int64
}

func encItems(it []obItem) string {
	var b strings.Builder
	for _, x := range it {
		fmt.Fprintf(&b, "%d:%d,", x.r, x.p)
	}
	return b.String()
}

func decItems(s string) []obItem {
	var it []obItem
	for _, f := range strings.Split(s, ",") {
		if f == "" {
			continue
		}
		var x obItem
		fmt.Sscanf(f, "%d:%d", &x.r, &x.p)
		it = append(it, x)
	}
	return it
}

// modelAdd: lowest round first, stable for equal rounds; an exact repeat of the
// entry already held right before the insertion point is ignored; when full the
// highest-round tail is dropped.
func modelAdd(it []obItem, capv int, r, p int64) []obItem {
	idx := 0
	for idx < len(it) && it[idx].r <= r {
		idx++
	}
	if idx > 0 && it[idx-1] == (obItem{r, p}) {
		return it
	}
	out := make([]obItem, 0, len(it)+1)
	out = append(out, it[:idx]...)
	out = append(out, obItem{r, p})
	out = append(out, it[idx:]...)
	if len(out) > capv {
		out = out[:capv]
	}
	return out
}

func obModel(capv int) porcupine.Model {
	return porcupine.Model{
		Init: func() interface{} { return "" },
		Step: func(state, input, output interface{}) (bool, interface{}) {
			it := decItems(state.(string))
			in := input.(obIn)
			out := output.(obOut)
			switch in.op {
			case "add":
				return out.ok, encItems(modelAdd(it, capv, in.r, in.p))
			case "first":
				if len(it) == 0 {
					return !out.ok, state
				}
				return out.ok && out.r == it[0].r && out.p == it[0].p, state
			default: // pop
				if len(it) == 0 {
					return !out.ok, state
				}
				return out.ok && out.r == it[0].r && out.p == it[0].p, encItems(it[1:])
			}
		},
		Equal: func(a, b interface{}) bool { return a.(string) == b.(string) },
	}
}

// ---- execution -----------------------------------------------------------------------------------

func execC46(env *sim.Env, p *sim.Plan) *sim.Result {
	if res := reexec(p, false); res != nil {
		return res
	}
	tr := sim.NewTrace()
	tr.Keep = env.KeepLog
	publishInstr(tr)
	ncl := int(p.CfgInt("clients", 2))
	if ncl < 1 {
		ncl = 1
	}
	capv := int(p.CfgInt("cap", 3))
	if capv < 1 {
		capv = 1
	}
	ob := orderbuffer.New(capv)
	rn := newRunner(p, simrt.ModeChan, ncl)
	viol := func(oracle, sig, detail string) {
		for _, v := range tr.Viol {
			if v.Sig == "C46/"+sig {
				return
			}
		}
		tr.Violate(&sim.Violation{Prop: "C46", Oracle: oracle, Sig: "C46/" + sig, Detail: detail})
	}
	// invariant sampled whenever the buffer's mutex is free: never more than
	// capacity, sorted by round
	sample := func() {
		rn.s.TryQuiet(func() {
			ob.First() // takes and releases the mutex: it is free here, nobody else runs
			n := len(ob.Buffer)
			if n > capv {
				viol("capacity", "capacity-exceeded", fmt.Sprintf("buffer holds %d entries, capacity %d", n, capv))
			}
			if n == capv {
				tr.Probe("buffer_full")
			}
			for i := 1; i < n; i++ {
				if ob.Buffer[i-1].Round > ob.Buffer[i].Round {
					viol("order", "not-sorted", fmt.Sprintf("entry %d has round %d before round %d", i-1, ob.Buffer[i-1].Round, ob.Buffer[i].Round))
					break
				}
			}
		})
	}
	rn.s.Observe = func(g *simrt.G, site string) { sample() }
	rn.afterOp = func(g *simrt.G, rec *opRec) { rn.s.Quiet(sample) }
	fmtOut := func(it orderbuffer.Item, ok bool) string {
		if !ok {
			return "none"
		}
		pv, _ := it.Data.(int64)
		return fmt.Sprintf("%d:%d", it.Round, pv)
	}
	rn.run(int(p.CfgInt("first", 0)), func(g *simrt.G, st sim.Step) string {
		switch st.Op {
		case "add":
			if st.Int(3, 0) == 1 {
				tr.Probe("exact_repeat_issued")
			}
			return fmt.Sprintf("%v", ob.Add(st.Int(1, 0), st.Int(2, 0)))
		case "first":
			return fmtOut(ob.First())
		case "pop":
			return fmtOut(ob.Pop())
		}
		return "?"
	})
	hist := rn.history()
	// drain sequentially after the run: the final contents become part of the history
	stamp := rn.s.Seq()
	if !rn.s.Aborted {
		for i := 0; i <= capv+1; i++ {
			it, ok := ob.Pop()
			stamp += 2
			hist = append(hist, &opRec{G: ncl, ID: -1, Kind: "pop", Out: fmtOut(it, ok), Call: stamp - 1, Ret: stamp, Done: true})
			if !ok {
				break
			}
		}
	}
	var ops []porcupine.Operation
	maxRet := int64(0)
	for _, h := range hist {
		if h.Ret > maxRet {
			maxRet = h.Ret
		}
	}
	overlap := false
	var lastRet int64
	for _, h := range hist {
		tr.Event("c%d %s %v -> %s [%d,%d] done=%v", h.G, h.Kind, h.In, h.Out, h.Call, h.Ret, h.Done)
		tr.Outcome(h.Kind + "/" + classOut(h.Out))
		if !h.Done {
			continue // never returned: reported below as a deadlock
		}
		if h.Call < lastRet {
			overlap = true
		}
		if h.Ret > lastRet {
			lastRet = h.Ret
		}
		in := obIn{op: h.Kind}
		out := obOut{}
		if h.Kind == "add" {
			in.r, in.p = h.In[1], h.In[2]
			out.ok = h.Out == "true"
		} else if h.Out != "none" {
			out.ok = true
			fmt.Sscanf(h.Out, "%d:%d", &out.r, &out.p)
		} else {
			if h.Kind == "pop" && h.ID >= 0 {
				tr.Probe("pop_empty")
			}
		}
		ops = append(ops, porcupine.Operation{ClientId: h.G, Input: in, Output: out, Call: h.Call, Return: h.Ret})
	}
	if overlap {
		tr.Probe("overlapping_operations")
	}
	for _, g := range rn.s.Gs() {
		if g.Panic != "" {
			viol("panic", "panic/"+tagKind(rn, g), firstLine(g.Panic))
		}
	}
	if rn.s.Deadlock {
		viol("deadlock", "operation-never-returns", fmt.Sprintf("all live goroutines spin on a lock: %+v", rn.s.StuckGs))
	}
	inconcl := 0
	if !rn.s.Aborted {
		switch porcupine.CheckOperationsTimeout(obModel(capv), ops, 20*time.Second) {
		case porcupine.Ok:
			tr.Event("linearizable ops=%d", len(ops))
		case porcupine.Illegal:
			viol("porcupine", "not-linearizable", fmt.Sprintf("history of %d operations (capacity %d) has no linearization in the sorted-multiset model: %s", len(ops), capv, histString(hist)))
		default:
			inconcl++
			tr.Probe("porcupine_unknown")
		}
	}
	rn.finish(tr)
	res := tr.Result(p.Seed)
	res.Inconcl = inconcl
	return res
}

func classOut(o string) string {
	switch {
	case o == "none" || o == "true" || o == "false" || o == "":
		return o
	}
	return "item"
}

func tagKind(rn *runner, g *simrt.G) string {
	if g.ID < len(rn.recs) {
		for _, rec := range rn.recs[g.ID] {
			if !rec.Done {
				return rec.Kind
			}
		}
	}
	return "unknown"
}

func firstLine(s string) string {
	if i := strings.IndexByte(s, '\n'); i > 0 {
		return s[:i]
	}
	return s
}

func histString(h []*opRec) string {
	var b strings.Builder
	for i, x := range h {
		if i > 0 {
			b.WriteString("; ")
		}
		if x.Kind == "add" {
			fmt.Fprintf(&b, "c%d add(%d,%d)[%d,%d]", x.G, x.In[1], x.In[2], x.Call, x.Ret)
		} else {
			fmt.Fprintf(&b, "c%d %s->%s[%d,%d]", x.G, x.Kind, x.Out, x.Call, x.Ret)
		}
		if b.Len() > 1500 {
			b.WriteString(" …")
			break
		}
	}
	return b.String()
}
