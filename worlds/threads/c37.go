package threads

import (
	"fmt"
	"sort"
	"strings"

	"0chain.net/chaincore/block"
	"0chain.net/chaincore/node"
	"0chain.net/chaincore/round"
	"0chain.net/core/viper"

	"verif/sim"
	"verif/simrt"
	"verif/worlds/wkit"
)

func init() {
	sim.Register(&sim.Check{
		ID: "C37", Title: "Round state transitions are monotone and never deadlock", World: "threads",
		Gen: genC37, Exec: execC37, Prepare: prepareFn(false),
		Quick:    sim.Budget{Runs: 3000, WallS: 150},
		Thorough: sim.Budget{Runs: 1200000, WallS: 780},
		// WallS only caps the batch: on an idle machine the quick batch takes 10-25 s plus 4 s (plain) / 15 s (-race) for the
		// instrumented build; the driver starts the clock before Prepare, so the cap leaves room for a slow build under load
		RunsPerProc: 200,
		LevelText: "seeded search over sequences and interleavings of round operations (3-6 goroutines on one real round.Round); a monitor samples the round's phase, timeout count, " +
			"finalizing state and VRF shares at every scheduling point and attributes each change to the operation that made it; a logical deadlock detector turns " +
			"'operation never returns' into a violation; a clean batch is evidence, not proof",
		LevelNote: "interleavings are explored at the scheduling points the rewriter inserts (mutex and atomic operations of chaincore/round and chaincore/block); plain memory accesses between " +
			"them execute atomically (C44 covers those with the race detector). Findings on the pinned tree are listed in known_findings.d/threads.json.",
		Technique: "deterministic simulation: token scheduler over go/ast-instrumented real code, plan-carried pre-emption points, state monitor + step-counted deadlock detector",
		DesignRef: "3.4, 6/C37, 8", Regime: "token scheduler over go/ast-instrumented real code",
		Components: sim.Components{
			Real: []string{"chaincore/round (Round, timeoutCounter; instrumented scratch copy of the current sources)", "chaincore/block (Block as used by AddNotarizedBlock/Finalize; instrumented)", "chaincore/node (Pool, Self; as shipped)"},
			Sim:  []string{"operation goroutines", "token scheduler (verif/simrt)", "state monitor"},
			Stub: []string{"miner pool built from bare node objects (no keys, no registry)"},
		},
		Assumptions: []string{
			"ResetPhase and ResetFinalizingState are the 'explicit resets' of the statement; Restart is 'before sharing' when the phase it replaces is below Share",
			"deadlock = every live goroutine failed SpinRounds consecutive TryLocks with no lock release or other progress in between (logical criterion, no wall clock)",
			"server_chain.round_timeouts.timeout_cap is taken from the plan (0 = no cap, or a small cap as in docker.local/config/0chain.yaml)",
		},
	})
}

var phaseNames = []string{"ShareVRF", "Verify", "Notarize", "Share", "Complete"}

// ---- plan ----------------------------------------------------------------------------------------

var c37Kinds = []string{"setphase", "share", "notarize", "restart", "settimeout", "finalize", "condreset",
	"resetphase", "reset", "setfinalizing", "inctimeout", "vote", "getshares", "isfinalized", "gettimeout", "best",
	// block-list readers and writers (readers that nest read locks meet pending writers here)
	"heaviest", "getnotarized", "getproposed", "bestproposed", "propose", "update"}

func genC37(seed uint64, tier string) *sim.Plan {
	root := sim.NewRNG(seed)
	r := root.Child("plan")
	rs := root.Child("sched")
	sw := root.Child("swarm")
	ngo := sw.Range(3, 6)
	nops := sw.Range(6, 36)
	prob := preProbs[sw.Intn(len(preProbs))]
	p := &sim.Plan{Cfg: map[string]int64{
		"goroutines": int64(ngo), "threshold": int64(sw.Range(1, 4)), "miners": int64(sw.Range(3, 6)),
		"cap": int64([]int{0, 0, 1, 2, 5}[sw.Intn(5)]), "first": int64(sw.Intn(ngo)),
	}}
	// per-run weights (swarm): the listed operations dominate, the rest adds lock traffic
	w := make([]int, len(c37Kinds))
	for i := range w {
		switch {
		case i < 7:
			w[i] = sw.Range(1, 6)
		case i < 12:
			w[i] = sw.Range(0, 2)
		case i < 16:
			w[i] = sw.Range(0, 2)
		default:
			w[i] = sw.Range(0, 3)
		}
	}
	w[15] += sw.Range(0, 2) // best: GetBestRankedNotarizedBlock
	// restarts at or after Share leak the round's mutex on the pinned tree (known finding) and end the
	// run; 4 of 10 plans have no restart so that the other oracles keep their depth
	if sw.Intn(10) < 4 {
		w[3] = 0
	}
	id := 0
	add := func(kind string, a int, args ...int64) {
		p.Steps = append(p.Steps, sim.Step{Op: kind, A: a, I: append([]int64{int64(id)}, args...)})
		maxY := 6
		if kind == "notarize" {
			maxY = 14
		}
		p.Steps = genPre(rs, p.Steps, id, maxY, prob, ngo)
		id++
	}
	for i := 0; i < nops; i++ {
		kind := c37Kinds[r.Pick(w)]
		a := r.Intn(ngo)
		switch kind {
		case "setphase", "resetphase":
			add(kind, a, int64(r.Intn(5)))
		case "share", "vote":
			add(kind, a, int64(r.Intn(6)), int64(r.Intn(6)))
		case "notarize", "finalize", "propose", "update":
			add(kind, a, int64(r.Intn(4)))
		case "settimeout":
			add(kind, a, int64(r.Intn(7)))
		default:
			add(kind, a)
		}
	}
	// every goroutine ends with an operation that needs the round's mutex
	for a := 0; a < ngo; a++ {
		add("isfinalized", a)
	}
	return p
}

// ---- execution -----------------------------------------------------------------------------------

type c37Sample struct {
	phase    int
	tc       int
	tcOK     bool
	fin      int
	shares   int
	lockedOK bool
}

func execC37(env *sim.Env, p *sim.Plan) *sim.Result {
	if res := reexec(p, false); res != nil {
		return res
	}
	wkit.Quiet()
	tr := sim.NewTrace()
	tr.Keep = env.KeepLog
	publishInstr(tr)
	ngo := int(p.CfgInt("goroutines", 3))
	if ngo < 1 {
		ngo = 1
	}
	threshold := int(p.CfgInt("threshold", 2))
	nminers := int(p.CfgInt("miners", 4))
	if nminers < 1 {
		nminers = 1
	}
	viper.Set("server_chain.round_timeouts.timeout_cap", int(p.CfgInt("cap", 0)))

	// world: one round, a few blocks (two of them share a hash), a miner pool
	miners := make([]*node.Node, nminers)
	pool := node.NewPool(node.NodeTypeMiner)
	for i := range miners {
		n := &node.Node{}
		n.ID = fmt.Sprintf("miner-%d", i)
		n.Type = node.NodeTypeMiner
		n.SetIndex = i
		miners[i] = n
		pool.Nodes = append(pool.Nodes, n)
		pool.NodesMap[n.ID] = n
	}
	node.Self.Node = miners[0]
	rd := round.Provider().(*round.Round)
	rd.Number = 7
	blocks := make([]*block.Block, 4)
	for i := range blocks {
		b := &block.Block{}
		b.Round = 7
		b.Hash = fmt.Sprintf("hash-%d", i)
		b.RoundRank = i % 3
		b.MinerID = miners[i%nminers].ID
		blocks[i] = b
	}
	blocks[3].Hash = blocks[1].Hash // same block received twice as distinct objects: ticket-merge path

	rn := newRunner(p, simrt.ModeChan, ngo)
	seen := map[string]bool{}
	viol := func(oracle, sig, detail string) {
		if seen[sig] {
			return
		}
		seen[sig] = true
		tr.Violate(&sim.Violation{Prop: "C37", Oracle: oracle, Sig: "C37/" + sig, Detail: detail})
	}
	kindOf := map[int]string{}
	for _, st := range p.Steps {
		if st.Op != "pre" {
			kindOf[int(st.Int(0, -1))] = st.Op
		}
	}

	// ---- monitor ----
	var last c37Sample
	take := func() c37Sample {
		var s c37Sample
		s.phase = int(rd.GetPhase())
		s.tcOK = rn.s.TryQuiet(func() { s.tc = rd.GetTimeoutCount() })
		s.lockedOK = rn.s.TryQuiet(func() {
			s.fin = int(rd.FinalizeState())
			s.shares = len(rd.GetVRFShares())
		})
		return s
	}
	rn.s.Quiet(func() { last = take() })
	compare := func(g *simrt.G) {
		cur := take()
		kind := "harness"
		if g != nil && g.Tag >= 0 {
			kind = kindOf[g.Tag]
		}
		if cur.phase != last.phase {
			tr.Event("phase %s -> %s by %s", phaseNames[last.phase%5], phaseNames[cur.phase%5], kind)
			if cur.phase < last.phase {
				switch {
				case kind == "resetphase":
					tr.Probe("phase_reset_explicit")
				case kind == "restart" && last.phase < int(round.Share):
					tr.Probe("restart_before_share")
				case kind == "restart":
					viol("phase-monitor", "phase-decreased/restart-at-or-after-share",
						fmt.Sprintf("Restart moved the phase back from %s to %s", phaseNames[last.phase%5], phaseNames[cur.phase%5]))
				default:
					viol("phase-monitor", "phase-decreased/"+kind,
						fmt.Sprintf("phase moved back from %s to %s during %s (no reset, no restart)", phaseNames[last.phase%5], phaseNames[cur.phase%5], kind))
				}
			}
		}
		if cur.tcOK {
			if last.tcOK && cur.tc != last.tc {
				tr.Event("timeout %d -> %d by %s", last.tc, cur.tc, kind)
				if cur.tc < last.tc {
					viol("timeout-monitor", "timeout-decreased/"+kind, fmt.Sprintf("timeout count went from %d to %d during %s", last.tc, cur.tc, kind))
				}
			}
		} else {
			cur.tc, cur.tcOK = last.tc, last.tcOK
		}
		if cur.lockedOK {
			if last.lockedOK {
				if cur.fin != last.fin {
					tr.Event("finalizing %d -> %d by %s", last.fin, cur.fin, kind)
				}
				if last.fin == int(round.RoundStateFinalized) && cur.fin != last.fin {
					switch kind {
					case "reset":
						tr.Probe("unfinalized_by_explicit_reset")
					case "condreset":
						viol("finalize-monitor", "unfinalized-by-conditional-reset", "a finalized round became un-finalized through ResetFinalizingStateIfNotFinalized")
					default:
						viol("finalize-monitor", "unfinalized/"+kind, fmt.Sprintf("a finalized round became un-finalized during %s", kind))
					}
				}
				if cur.shares != last.shares {
					tr.Event("shares %d -> %d by %s", last.shares, cur.shares, kind)
				}
			}
			if cur.shares > threshold {
				viol("share-monitor", "shares-exceed-threshold", fmt.Sprintf("round holds %d VRF shares, threshold %d", cur.shares, threshold))
			}
			if cur.shares == threshold {
				tr.Probe("shares_at_threshold")
			}
		} else {
			cur.fin, cur.shares, cur.lockedOK = last.fin, last.shares, last.lockedOK
			tr.Probe("monitor_lock_busy")
		}
		last = cur
	}
	rn.s.Observe = func(g *simrt.G, site string) { compare(g) }
	var leakedBy string
	rn.afterOp = func(g *simrt.G, rec *opRec) {
		g.Tag = rec.ID
		rn.s.Quiet(func() { compare(g) })
		g.Tag = -1
		if rec.Held > 0 && leakedBy == "" {
			leakedBy = rec.Kind + "-" + rec.Out
			tr.Probe("operation_returned_holding_lock")
		}
	}

	// ---- operations ----
	hadShare := false
	rn.run(int(p.CfgInt("first", 0)), func(g *simrt.G, st sim.Step) string {
		switch st.Op {
		case "setphase":
			rd.SetPhase(round.Phase(st.Int(1, 0) % 5))
			return "ok"
		case "resetphase":
			rd.ResetPhase(round.Phase(st.Int(1, 0) % 5))
			return "ok"
		case "share":
			m := miners[int(st.Int(1, 0))%nminers]
			sh := &round.VRFShare{Round: 7, Share: fmt.Sprintf("share-%d", st.Int(2, 0))}
			sh.SetParty(m)
			if rd.AddVRFShare(sh, threshold) {
				hadShare = true
				return "added"
			}
			return "refused"
		case "notarize":
			rd.AddNotarizedBlock(blocks[int(st.Int(1, 0))%len(blocks)])
			return "ok"
		case "restart":
			rn.s.Quiet(func() {
				if rd.GetPhase() >= round.Share {
					tr.Probe("restart_at_or_after_share")
				} else if hadShare {
					tr.Probe("restart_after_vrf_share")
				}
			})
			if err := rd.Restart(); err != nil {
				return "rejected"
			}
			return "ok"
		case "settimeout":
			return fmt.Sprintf("%v", rd.SetTimeoutCount(int(st.Int(1, 0))))
		case "inctimeout":
			rd.IncrementTimeoutCount(1234, pool)
			return "ok"
		case "vote":
			rd.AddTimeoutVote(int(st.Int(2, 0)), miners[int(st.Int(1, 0))%nminers].ID)
			return "ok"
		case "finalize":
			rd.Finalize(blocks[int(st.Int(1, 0))%len(blocks)])
			return "ok"
		case "setfinalizing":
			return fmt.Sprintf("%v", rd.SetFinalizing())
		case "condreset":
			rd.ResetFinalizingStateIfNotFinalized()
			return "ok"
		case "reset":
			rd.ResetFinalizingState()
			return "ok"
		case "getshares":
			return fmt.Sprintf("%d", len(rd.GetVRFShares()))
		case "isfinalized":
			return fmt.Sprintf("%v", rd.IsFinalized())
		case "gettimeout":
			return fmt.Sprintf("%d", rd.GetTimeoutCount())
		case "best":
			if b := rd.GetBestRankedNotarizedBlock(); b != nil {
				return b.Hash
			}
			return "nil"
		case "heaviest":
			if b := rd.GetHeaviestNotarizedBlock(); b != nil {
				return b.Hash
			}
			return "nil"
		case "bestproposed":
			if b := rd.GetBestRankedProposedBlock(); b != nil {
				return b.Hash
			}
			return "nil"
		case "getnotarized":
			return fmt.Sprintf("%d", len(rd.GetNotarizedBlocks()))
		case "getproposed":
			return fmt.Sprintf("%d", len(rd.GetProposedBlocks()))
		case "propose":
			rd.AddProposedBlock(blocks[int(st.Int(1, 0))%len(blocks)])
			return "ok"
		case "update":
			rd.UpdateNotarizedBlock(blocks[int(st.Int(1, 0))%len(blocks)])
			return "ok"
		}
		return "?"
	})

	// ---- history-based oracles ----
	hist := rn.history()
	var lastRestartRet int64
	for _, h := range hist {
		if h.Kind == "restart" && h.Done && h.Out == "ok" && h.Ret > lastRestartRet {
			lastRestartRet = h.Ret
		}
	}
	perMiner := map[int64][]*opRec{}
	final := 0
	for _, h := range hist {
		tr.Event("g%d %s %v -> %s [%d,%d] done=%v held=%d", h.G, h.Kind, h.In[1:], h.Out, h.Call, h.Ret, h.Done, h.Held)
		out := h.Out
		if !h.Done {
			out = "never-returned"
		}
		tr.Outcome(h.Kind + "/" + classC37(out))
		if h.Kind == "share" && h.Done && h.Out == "added" {
			m := h.In[1] % int64(nminers)
			perMiner[m] = append(perMiner[m], h)
			if h.Call > lastRestartRet {
				final++
			}
		}
		if h.Kind == "restart" && h.Done && h.Out == "rejected" {
			tr.Probe("restart_rejected")
		}
		if h.Kind == "share" && h.Done && h.Out == "refused" {
			tr.Probe("share_refused")
		}
	}
	if final > threshold {
		viol("share-history", "shares-exceed-threshold", fmt.Sprintf("%d VRF shares were accepted after the last restart, threshold %d", final, threshold))
	}
	ms := make([]int64, 0, len(perMiner))
	for m := range perMiner {
		ms = append(ms, m)
	}
	sort.Slice(ms, func(i, j int) bool { return ms[i] < ms[j] })
	for _, m := range ms {
		adds := perMiner[m]
		for i := 0; i < len(adds); i++ {
			for j := i + 1; j < len(adds); j++ {
				lo := adds[i].Call
				if adds[j].Call < lo {
					lo = adds[j].Call
				}
				// both took effect in the same epoch unless a successful restart ended after the earlier one began
				between := false
				for _, h := range hist {
					if h.Kind == "restart" && h.Done && h.Out == "ok" && h.Ret > lo {
						between = true
					}
				}
				if !between {
					viol("share-history", "share-duplicate-miner", fmt.Sprintf("two VRF shares of miner %d were accepted without a restart in between", m))
				}
			}
		}
	}
	for _, g := range rn.s.Gs() {
		if g.Panic != "" {
			viol("panic", "panic/"+tagKind(rn, g), firstLine(g.Panic))
		}
	}
	if rn.s.Deadlock {
		cause := "lock-cycle"
		if leakedBy != "" {
			cause = "lock-leaked-by-" + leakedBy
		}
		stuck := ""
		for _, st := range rn.s.StuckGs {
			stuck += fmt.Sprintf(" g%d:%s@%s(holds %d)", st.ID, kindOf[st.Tag], st.Site, st.Held)
			if leakedBy == "" && st.Held > 0 && strings.HasSuffix(st.Site, ":RL") {
				// a goroutine that holds a lock waits for a read lock while a writer is pending:
				// sync.RWMutex admits no new reader then, not even one that already reads
				cause = "nested-read-lock-with-writer-pending"
			}
		}
		viol("deadlock-detector", "operation-never-returns/"+cause, "every live goroutine spins on a lock that is never released:"+stuck)
	} else if leakedBy != "" {
		tr.Probe("leak_without_waiter")
	}
	rn.finish(tr)
	return tr.Result(p.Seed)
}

func classC37(o string) string {
	switch o {
	case "ok", "rejected", "added", "refused", "true", "false", "nil", "never-returned":
		return o
	}
	return "value"
}
