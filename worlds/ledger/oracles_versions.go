package ledger

import (
	"fmt"
	"reflect"
	"sort"

	"0chain.net/core/util/entitywrapper"
	"github.com/0chain/common/core/util"

	"verif/sim"
)

// checkVersions is the schema-version half of C08: "entities stored under an
// older schema version still decode and migrate without losing any of their
// common fields". For a versioned entity (entitywrapper) seen for the first
// time in a run it takes every registered version, fills a fresh instance
// with non-zero values in every exported field, and requires
//   - migration: for every pair (old, new) where new.MigrateFrom(old)
//     succeeds, every exported field the two versions have in common (same
//     name and type, except Version) is equal afterwards, and the migrated
//     entity survives an encode/decode round trip;
//   - base round trip: GetBase() of the filled entity, committed to a fresh
//     entity of the same version, yields the same base again.
//
// Only fresh instances are touched, never the live value.
func (c *OracleC08) checkVersions(v util.MPTSerializable, tn string) {
	w := c.w
	we, ok := v.(entitywrapper.WrapperEntity)
	if !ok {
		return
	}
	fs, ok := entitywrapper.GetEntityVersionFuncs(we.TypeName())
	if !ok || len(fs) == 0 {
		return
	}
	vers := make([]string, 0, len(fs))
	for k := range fs {
		vers = append(vers, k)
	}
	sort.Strings(vers)
	w.Tr.Probe("versioned:" + we.TypeName())
	for _, ov := range vers {
		old := fs[ov]()
		fillNonZero(reflect.ValueOf(old), 0, 1)
		old.InitVersion()
		// base round trip on this version
		func() {
			defer func() { _ = recover() }()
			base := old.GetBase()
			if base == nil {
				return
			}
			fresh := fs[ov]()
			base.CommitChangesTo(fresh)
			base2 := fresh.GetBase()
			if f, diff := firstDiff(reflect.ValueOf(base), reflect.ValueOf(base2)); diff {
				w.Tr.Violate(&sim.Violation{Prop: "C08", Oracle: "versions", Sig: fmt.Sprintf("C08/base-commit-loses-field/%s/%s/%s", we.TypeName(), ov, f),
					Detail: fmt.Sprintf("%s %s: GetBase → CommitChangesTo(fresh) → GetBase loses field %s", we.TypeName(), ov, f)})
			} else {
				w.Tr.Probe("base_roundtrip_ok")
			}
		}()
		for _, nv := range vers {
			if nv <= ov {
				continue // only upgrades are a real path (Wrapper.Update migrates an older stored version forward)
			}
			func() {
				defer func() { _ = recover() }()
				src := fs[ov]()
				fillNonZero(reflect.ValueOf(src), 0, 1)
				src.InitVersion()
				dst := fs[nv]()
				if err := dst.MigrateFrom(src); err != nil {
					return // not the version dst migrates from
				}
				w.Tr.Probe("migration:" + we.TypeName() + ":" + ov + "->" + nv)
				ref := fs[ov]()
				fillNonZero(reflect.ValueOf(ref), 0, 1)
				if f, diff := commonFieldsDiffer(reflect.ValueOf(ref), reflect.ValueOf(dst)); diff {
					w.Tr.Violate(&sim.Violation{Prop: "C08", Oracle: "versions", Sig: fmt.Sprintf("C08/migration-loses-common-field/%s/%s-%s/%s", we.TypeName(), ov, nv, f),
						Detail: fmt.Sprintf("%s: migrating %s → %s loses common field %s", we.TypeName(), ov, nv, f)})
					return
				}
				// the migrated entity must survive encode/decode
				b, err := dst.MarshalMsg(nil)
				if err != nil {
					return
				}
				back := fs[nv]()
				if _, err := back.UnmarshalMsg(b); err != nil {
					w.Tr.Violate(&sim.Violation{Prop: "C08", Oracle: "versions", Sig: fmt.Sprintf("C08/migrated-entity-does-not-decode/%s/%s-%s", we.TypeName(), ov, nv), Detail: err.Error()})
					return
				}
				b2, _ := back.MarshalMsg(nil)
				if string(b) != string(b2) {
					w.Tr.Violate(&sim.Violation{Prop: "C08", Oracle: "versions", Sig: fmt.Sprintf("C08/migrated-entity-not-canonical/%s/%s-%s", we.TypeName(), ov, nv), Detail: "re-encoding differs"})
				}
			}()
		}
	}
}

// fillNonZero sets every exported field reachable from v to a non-zero value
// that depends on k (so that distinct fields get distinct values).
func fillNonZero(v reflect.Value, depth, k int) int {
	if depth > 5 || !v.IsValid() {
		return k
	}
	switch v.Kind() {
	case reflect.Ptr:
		if v.IsNil() {
			if !v.CanSet() {
				return k
			}
			v.Set(reflect.New(v.Type().Elem()))
		}
		return fillNonZero(v.Elem(), depth+1, k)
	case reflect.Struct:
		for i := 0; i < v.NumField(); i++ {
			f := v.Field(i)
			if !f.CanSet() {
				continue
			}
			if v.Type().Field(i).Name == "Version" {
				continue
			}
			k = fillNonZero(f, depth+1, k+1)
		}
	case reflect.Bool:
		if v.CanSet() {
			v.SetBool(true)
		}
	case reflect.Int, reflect.Int8, reflect.Int16, reflect.Int32, reflect.Int64:
		if v.CanSet() {
			v.SetInt(int64(3 + k%100))
		}
	case reflect.Uint, reflect.Uint8, reflect.Uint16, reflect.Uint32, reflect.Uint64:
		if v.CanSet() {
			v.SetUint(uint64(3 + k%100))
		}
	case reflect.Float32, reflect.Float64:
		if v.CanSet() {
			v.SetFloat(0.25 + float64(k%7))
		}
	case reflect.String:
		if v.CanSet() {
			v.SetString(fmt.Sprintf("s%d", k))
		}
	case reflect.Slice:
		if v.CanSet() && v.Type().Elem().Kind() != reflect.Interface {
			s := reflect.MakeSlice(v.Type(), 1, 1)
			k = fillNonZero(s.Index(0), depth+1, k+1)
			v.Set(s)
		}
	}
	return k
}

// commonFieldsDiffer compares the exported fields two struct values have in
// common (same name, same type), except Version.
func commonFieldsDiffer(a, b reflect.Value) (string, bool) {
	for a.Kind() == reflect.Ptr || a.Kind() == reflect.Interface {
		a = a.Elem()
	}
	for b.Kind() == reflect.Ptr || b.Kind() == reflect.Interface {
		b = b.Elem()
	}
	if a.Kind() != reflect.Struct || b.Kind() != reflect.Struct {
		return "", false
	}
	for i := 0; i < a.NumField(); i++ {
		fa := a.Type().Field(i)
		if fa.PkgPath != "" || fa.Name == "Version" {
			continue
		}
		fb, ok := b.Type().FieldByName(fa.Name)
		if !ok || fb.Type != fa.Type {
			continue
		}
		if !reflect.DeepEqual(a.Field(i).Interface(), b.FieldByName(fa.Name).Interface()) {
			return fa.Name, true
		}
	}
	return "", false
}

func firstDiff(a, b reflect.Value) (string, bool) {
	for a.Kind() == reflect.Ptr || a.Kind() == reflect.Interface {
		if a.IsNil() {
			return "", false
		}
		a = a.Elem()
	}
	for b.Kind() == reflect.Ptr || b.Kind() == reflect.Interface {
		if b.IsNil() {
			return "", false
		}
		b = b.Elem()
	}
	if a.Kind() != reflect.Struct || a.Type() != b.Type() {
		return "", false
	}
	for i := 0; i < a.NumField(); i++ {
		f := a.Type().Field(i)
		if f.PkgPath != "" || f.Name == "Version" {
			continue
		}
		if !reflect.DeepEqual(a.Field(i).Interface(), b.Field(i).Interface()) {
			return f.Name, true
		}
	}
	return "", false
}
