package ledger

import (
	"fmt"
	"github.com/linxGnu/grocksdb"
	"math"
	"os"
	"sort"
	"time"

	"0chain.net/chaincore/chain"
	cstate "0chain.net/chaincore/chain/state"
	"0chain.net/chaincore/smartcontract"
	"0chain.net/chaincore/state"
	"0chain.net/chaincore/transaction"
	"0chain.net/core/common"
	"0chain.net/core/config"
	"0chain.net/core/encryption"
	"github.com/0chain/common/core/currency"
	"github.com/0chain/common/core/statecache"
	"github.com/0chain/common/core/util"

	"verif/sim"
)

// Symbolic value kinds (resolved against the sender's balance at execution).
const (
	VZero = iota
	VOne
	VSmall
	VMedium
	VBalance
	VBalancePlus1
	VHalf
	VSupply
	VSupplyPlus1
	VMaxInt63
	VMaxInt63Plus1
	VMaxUint64
	vKinds
)

// Symbolic nonce kinds.
const (
	NExpected = iota
	NPlus1
	NMinus1
	NZero
	NNegative
	NFar
	nKinds
)

// Runner executes base workload steps against a world. Property-specific
// workloads register extra op handlers in Ops.
type Runner struct {
	W       *World
	BC      *BlockCtx
	Applied []*transaction.Transaction // applied transactions, for replays
	Ops     map[string]func(r *Runner, st sim.Step)
	Funcs   map[string][]string // contract address -> sorted function names
	Blocks  int
	SaveAll bool
	// Dead: the node under test panicked under an injected fault (fail-stop); the block under assembly is
	// discarded and the remaining steps are skipped
	Dead bool
	Plan *sim.Plan
	// Deferred operations run at the end of the block under assembly, before it is sealed.
	Deferred []func()
	// AllowPoke enables the "poke" op (C05: balances near 2^64 written directly into the block trie).
	AllowPoke bool
}

func NewRunner(w *World) *Runner {
	r := &Runner{W: w, Ops: map[string]func(r *Runner, st sim.Step){}, Funcs: map[string][]string{}}
	// function names from the real cost tables
	bs := w.NewBlock(w.Genesis, 0)
	sc := w.StateContextOn(bs)
	for _, a := range ContractAddrs() {
		c := smartcontract.GetSmartContract(a)
		if c == nil {
			continue
		}
		tbl, err := c.GetCostTable(sc)
		if err != nil {
			continue
		}
		var fs []string
		for f := range tbl {
			fs = append(fs, f)
		}
		sort.Strings(fs)
		r.Funcs[a] = fs
	}
	return r
}

// stateContextOn returns a scratch state context on a block under assembly.
func (w *World) StateContextOn(bc *BlockCtx) *cstate.StateContext {
	t := &transaction.Transaction{ClientID: w.OwnerID, CreationDate: w.Now}
	tc := statecache.NewTransactionCache(bc.Cache)
	mpt := chainCreateTxnMPT(bc.State, tc)
	return w.C.NewStateContext(bc.B, mpt, t, nil)
}

// Account resolves an actor index to an account id: clients first, then
// miners, sharders, owner, contract wallets, and finally an unknown account.
func (w *World) Account(i int) (string, *Client) {
	if i < 0 {
		i = -i
	}
	n := len(w.Clients)
	i = i % (n + len(w.Miners) + len(w.Sharders) + 2)
	switch {
	case i < n:
		return w.Clients[i].ID, w.Clients[i]
	case i < n+len(w.Miners):
		m := w.Miners[i-n]
		return m.ID, m.Client
	case i < n+len(w.Miners)+len(w.Sharders):
		s := w.Sharders[i-n-len(w.Miners)]
		return s.ID, s.Client
	case i == n+len(w.Miners)+len(w.Sharders):
		return w.OwnerID, nil
	default:
		return w.ChainOwn, nil
	}
}

// ResolveValue turns a symbolic value kind into an amount.
func (r *Runner) ResolveValue(kind int64, from string) int64 {
	bal, _, _ := Balance(r.BC.State, from)
	switch kind % vKinds {
	case VZero:
		return 0
	case VOne:
		return 1
	case VSmall:
		return 1000
	case VMedium:
		return 1e10
	case VBalance:
		return int64(bal)
	case VBalancePlus1:
		return int64(bal) + 1
	case VHalf:
		return int64(bal) / 2
	case VSupply:
		return int64(config.MaxTokenSupply)
	case VSupplyPlus1:
		return int64(config.MaxTokenSupply) + 1
	case VMaxInt63:
		return math.MaxInt64
	case VMaxInt63Plus1:
		return math.MinInt64 // 2^63 as uint64
	default:
		return -1 // 2^64-1 as uint64
	}
}

func (r *Runner) ResolveFee(kind int64, from string) int64 {
	if !r.W.Cfg.Fees {
		if kind%5 == 4 {
			return 1000
		}
		return 0
	}
	switch kind % 5 {
	case 0, 1:
		return 1e8 // comfortably above min fees
	case 2:
		return 0
	case 3:
		return 1e9
	default:
		return r.ResolveValue(VBalancePlus1, from)
	}
}

func (r *Runner) ResolveNonce(kind int64, from string) int64 {
	_, n, _ := Balance(r.BC.State, from)
	switch kind % nKinds {
	case NExpected:
		return n + 1
	case NPlus1:
		return n + 2
	case NMinus1:
		return n
	case NZero:
		return 0
	case NNegative:
		return -1
	default:
		return n + 1000
	}
}

func (r *Runner) EnsureBlock() {
	if r.BC == nil {
		r.BC = r.W.NewBlock(nil, r.Blocks)
	}
}

// Submit applies a transaction to the block under assembly.
func (r *Runner) Submit(t *transaction.Transaction) *Outcome {
	r.EnsureBlock()
	o := r.BC.Apply(t)
	if o.Err == nil {
		r.Applied = append(r.Applied, t)
	}
	fn := ""
	if t.SmartContractData != nil {
		fn = t.FunctionName
	}
	r.W.Tr.Event("txn type=%d fn=%s nonce=%d class=%s root=%x", t.TransactionType, fn, t.Nonce, o.Class, short(o.RootPost))
	r.W.Tr.Outcome(fmt.Sprintf("%d/%s/%s", t.TransactionType, fn, o.Class))
	return o
}

func short(b []byte) []byte {
	if len(b) > 6 {
		return b[:6]
	}
	return b
}

// EndBlock seals the current block.
func (r *Runner) EndBlock(save bool) {
	if r.Dead || r.BC == nil && len(r.Deferred) == 0 {
		return
	}
	// operations deferred to the end of the block (an honest generator appends its
	// built-in transactions, e.g. payFees, after all client transactions)
	if len(r.Deferred) > 0 {
		r.EnsureBlock()
		ds := r.Deferred
		r.Deferred = nil
		for _, f := range ds {
			f()
		}
	}
	b := r.BC.Finish()
	r.Blocks++
	r.W.Tr.Event("block round=%d txns=%d root=%x", b.Round, len(b.Txns), short(b.ClientStateHash))
	r.W.Tr.State(fmt.Sprintf("%x", b.ClientStateHash))
	if save || r.SaveAll {
		if err := r.W.Save(b); err != nil {
			r.W.Tr.Event("save error %v", err)
		}
	}
	r.BC = nil
}

// Step executes one base step; returns false when the op is unknown.
func (r *Runner) Step(st sim.Step) bool {
	w := r.W
	if r.Dead {
		return true
	}
	switch st.Op {
	case "send":
		r.EnsureBlock()
		from, _ := w.Account(st.A)
		to, _ := w.Account(int(st.Int(0, 0)))
		t := w.MakeTxn(TxnSpec{From: from, To: to, Type: transaction.TxnTypeSend,
			Value: r.ResolveValue(st.Int(1, VSmall), from), Fee: r.ResolveFee(st.Int(2, 0), from), Nonce: r.ResolveNonce(st.Int(3, 0), from)})
		r.Submit(t)
	case "call":
		r.EnsureBlock()
		from, _ := w.Account(st.A)
		addrs := ContractAddrs()
		addr := addrs[int(st.Int(0, 0))%len(addrs)]
		fs := r.Funcs[addr]
		fn := "unknown_function"
		if len(fs) > 0 {
			fn = fs[int(st.Int(1, 0))%len(fs)]
		}
		raw := []string{"{}", "", "{", `{"id":"x"}`, "null", "[]", `{"name":1}`}[int(st.Int(2, 0))%7]
		if raw == "null" && (fn == "update_miner_settings" || fn == "update_sharder_settings") && os.Getenv("VERIF_ALLOW_CRASH") == "" {
			// incidental finding (DESIGN section 8): a `null` payload makes these two functions
			// dereference nil inside the contract goroutine, which kills the whole process;
			// not generated by default so that runs are not wasted on it
			raw = "{}"
			w.Tr.Probe("skipped_null_payload_crash")
		}
		t := w.MakeTxn(TxnSpec{From: from, To: addr, Type: transaction.TxnTypeSmartContract, Name: fn, Raw: raw,
			Value: r.ResolveValue(st.Int(3, VZero), from), Fee: r.ResolveFee(st.Int(4, 0), from), Nonce: r.ResolveNonce(st.Int(5, 0), from)})
		r.Submit(t)
	case "pour":
		r.EnsureBlock()
		from, _ := w.Account(st.A)
		t := w.MakeTxn(TxnSpec{From: from, To: AddrFaucet, Type: transaction.TxnTypeSmartContract, Name: "pour", Raw: "{}",
			Value: r.ResolveValue(st.Int(0, VSmall), from), Fee: r.ResolveFee(st.Int(2, 2), from), Nonce: r.ResolveNonce(st.Int(1, 0), from)})
		r.Submit(t)
	case "data":
		r.EnsureBlock()
		from, _ := w.Account(st.A)
		t := w.MakeTxn(TxnSpec{From: from, To: "", Type: transaction.TxnTypeData, Raw: "hello",
			Fee: r.ResolveFee(st.Int(0, 0), from), Nonce: r.ResolveNonce(st.Int(1, 0), from)})
		r.Submit(t)
	case "replay":
		if len(r.Applied) == 0 {
			return true
		}
		r.EnsureBlock()
		old := r.Applied[int(st.Int(0, 0))%len(r.Applied)]
		cp := old.Clone()
		cp.Status = 0
		cp.TransactionOutput = ""
		cp.OutputHash = ""
		w.Tr.Fault("replay_applied_txn")
		r.Submit(cp)
	case "fresh":
		// a brand-new wallet (no leaf in state yet): kind 0 — its first transaction is a faucet
		// pour that pays the wallet itself; kind 1 — it is first funded by a send and then spends;
		// kind 2 — it only receives
		r.EnsureBlock()
		id := encryption.Hash(fmt.Sprintf("fresh-wallet-%d-%d", w.Seed, st.A%6))
		switch st.Int(0, 0) % 3 {
		case 0:
			t := w.MakeTxn(TxnSpec{From: id, To: AddrFaucet, Type: transaction.TxnTypeSmartContract, Name: "pour", Raw: "{}",
				Value: r.ResolveValue(st.Int(1, VSmall), id), Fee: 0, Nonce: r.ResolveNonce(NExpected, id)})
			r.Submit(t)
			w.Tr.Probe("fresh_wallet_first_txn_pays_it")
		case 1:
			from, _ := w.Account(int(st.Int(2, 0)))
			t := w.MakeTxn(TxnSpec{From: from, To: id, Type: transaction.TxnTypeSend, Value: 1e9, Fee: r.ResolveFee(0, from), Nonce: r.ResolveNonce(NExpected, from)})
			r.Submit(t)
			to, _ := w.Account(int(st.Int(2, 0)) + 1)
			t2 := w.MakeTxn(TxnSpec{From: id, To: to, Type: transaction.TxnTypeSend, Value: r.ResolveValue(st.Int(1, VSmall), id), Fee: 0, Nonce: r.ResolveNonce(NExpected, id)})
			r.Submit(t2)
		default:
			from, _ := w.Account(int(st.Int(2, 0)))
			t := w.MakeTxn(TxnSpec{From: from, To: id, Type: transaction.TxnTypeSend, Value: r.ResolveValue(st.Int(1, VSmall), from), Fee: r.ResolveFee(0, from), Nonce: r.ResolveNonce(NExpected, from)})
			r.Submit(t)
		}
	case "rdfault":
		// one-shot disk read error inside one send (C01): the block under assembly is sealed and
		// persisted, the head is served from the persistent node DB with empty caches (as after
		// finalisation and a restart), then the I[1]-th disk read of the next send fails once.
		// Skipped unless the whole head state is on the simulated disk (plan knob "save_all").
		r.EndBlock(true)
		head := w.Head
		sdb := w.C.GetStateDB()
		if head == nil || head.ClientState == nil || w.Disk == nil {
			return true
		}
		if _, err := Leaves(sdb, head.ClientStateHash); err != nil {
			w.Tr.Event("rdfault skipped: state of round %d is not complete on disk", head.Round)
			return true
		}
		head.ClientState.SetNodeDB(sdb)
		w.C.SetupStateCache()
		r.EnsureBlock()
		from, _ := w.Account(st.A)
		to, _ := w.Account(int(st.Int(0, 0)))
		t := w.MakeTxn(TxnSpec{From: from, To: to, Type: transaction.TxnTypeSend,
			Value: r.ResolveValue(VSmall, from), Fee: r.ResolveFee(0, from), Nonce: r.ResolveNonce(NExpected, from)})
		// I[2]: number of consecutive reads that fail (1 = one-shot; a longer burst also fails the
		// re-reads the node does to cross-check itself)
		nth, span, seen, fired := uint64(st.Int(1, 0)), uint64(st.Int(2, 1)), uint64(0), false
		w.Disk.SetFault(func(_ *grocksdb.Disk, op string, _ uint64) error {
			if op != "get" {
				return nil
			}
			if seen++; seen > nth && seen <= nth+span {
				fired = true
				return grocksdb.ErrInjected
			}
			return nil
		})
		func() {
			defer func() {
				if rec := recover(); rec != nil {
					// fail-stop under a disk error: the node dies, nothing of the block under assembly survives
					w.Tr.Event("rdfault: node panicked under the read error: %v", rec)
					w.Tr.Outcome("send-read-error/node-panicked")
					r.Dead, r.BC = true, nil
				}
			}()
			r.Submit(t)
		}()
		w.Disk.SetFault(nil)
		if fired {
			w.Tr.Fault("send_disk_read_error")
		} else {
			w.Tr.Probe("rdfault_not_fired")
		}
		w.Tr.Event("rdfault nth=%d fired=%v reads=%d", nth, fired, seen)
	case "poke":
		// boundary state outside what a conserving history can reach (C05 only):
		// an account of the block under assembly is given a balance within
		// I[1] units of 2^64-1, written straight into the block trie
		if !r.AllowPoke {
			return true
		}
		r.EnsureBlock()
		id, _ := w.Account(st.A)
		s, err := chain.GetStateById(r.BC.State, id)
		if err != nil || s == nil {
			s = &state.State{}
		}
		s.Balance = currency.Coin(math.MaxUint64 - uint64(st.Int(0, 10)))
		if _, err := r.BC.State.Insert(util.Path(id), s); err == nil {
			if _, err := w.Ix.Load(r.BC.State.GetNodeDB(), r.BC.State.GetRoot(), nil); err != nil {
				panic(err)
			}
			w.Poked = true
			w.Tr.Fault("balance_near_uint64_max")
			w.Tr.Event("poke account=%d below-max=%d", st.A, st.Int(0, 10))
		}
	case "block":
		r.EnsureBlock()
		r.EndBlock(st.Int(1, 0) != 0)
	case "clock":
		w.Advance(st.Int(0, 1))
	default:
		if h, ok := r.Ops[st.Op]; ok {
			h(r, st)
			return true
		}
		return false
	}
	return true
}

// GenBase appends n base steps to a plan.
func GenBase(r *sim.RNG, p *sim.Plan, n int, weights map[string]int) {
	ops := []string{"send", "call", "pour", "data", "replay", "block", "clock"}
	ws := make([]int, len(ops))
	for i, o := range ops {
		ws[i] = weights[o]
	}
	for i := 0; i < n; i++ {
		op := ops[r.Pick(ws)]
		st := sim.Step{Op: op, A: r.Intn(12)}
		vk := func() int64 { return int64(r.Pick([]int{2, 3, 8, 4, 3, 3, 3, 1, 1, 1, 1, 1})) }
		nk := func() int64 { return int64(r.Pick([]int{20, 2, 2, 1, 1, 1})) }
		fk := func() int64 { return int64(r.Pick([]int{6, 4, 2, 2, 1})) }
		switch op {
		case "send":
			st.I = []int64{int64(r.Intn(14)), vk(), fk(), nk()}
		case "call":
			st.I = []int64{int64(r.Intn(6)), int64(r.Intn(64)), int64(r.Intn(7)), vk(), fk(), nk()}
		case "pour":
			st.I = []int64{vk(), nk(), fk()}
		case "data":
			st.I = []int64{fk(), nk()}
		case "replay":
			st.I = []int64{int64(r.Intn(1000))}
		case "block":
			st.I = []int64{int64(r.Intn(8)), int64(r.Intn(2))}
		case "clock":
			st.I = []int64{int64(r.Pick([]int{5, 3, 2, 1})*0 + []int{1, 10, 3600, 86400 * 30}[r.Pick([]int{5, 3, 2, 1})])}
		}
		p.Steps = append(p.Steps, st)
	}
}

// Advance moves the simulated clock forward by d seconds; inside a bubble the
// wall clock (time.Now) follows.
func (w *World) Advance(d int64) {
	if d <= 0 {
		return
	}
	w.Now += common.Timestamp(d)
	w.Tr.SimTime += float64(d)
	if w.InBubble {
		if dt := time.Until(time.Unix(int64(w.Now), 0)); dt > 0 {
			time.Sleep(dt)
		}
	}
}
