package ledger

import (
	"verif/sim"
)

var w1Components = sim.Components{
	Real: []string{"chaincore/chain (Chain, UpdateState/updateState, SaveChanges, genesis)", "chaincore/block", "chaincore/chain/state (StateContext)",
		"chaincore/transaction", "all six smart contracts via setupsc + docker.local/config/sc.yaml", "0chain/common MPT, PNodeDB, state cache", "core/encryption"},
	Sim:  []string{"clients and providers (seeded keys)", "block assembler", "clock", "reference models / oracles", "simulated disk (grocksdb replacement)"},
	Stub: []string{"redis (datastore.Store seam, in-memory)", "RocksDB (simulated disk)", "event DB (disabled)", "network/HTTP"},
}

// baseExec runs a base-workload plan with the given observers.
func baseExec(prop string, mk func(w *World) []Observer) func(env *sim.Env, p *sim.Plan) *sim.Result {
	return func(env *sim.Env, p *sim.Plan) *sim.Result {
		tr := sim.NewTrace()
		tr.Keep = env.KeepLog
		w := NewWorld(p.Seed, CfgFromPlan(p), tr)
		defer w.Close()
		for _, o := range mk(w) {
			w.AddObserver(o)
		}
		r := NewRunner(w)
		for _, st := range p.Steps {
			r.Step(st)
			if tr.Failed() && !allKnown(tr) {
				break
			}
		}
		r.EndBlock(true)
		return tr.Result(p.Seed)
	}
}

func allKnown(tr *sim.Trace) bool {
	for _, v := range tr.Viol {
		if sim.IsKnown(v.Prop, v.Sig) == nil {
			return false
		}
	}
	return true
}

func baseGen(weights map[string]int, lo, hi int) func(seed uint64, tier string) *sim.Plan {
	return func(seed uint64, tier string) *sim.Plan {
		root := sim.NewRNG(seed)
		sw := root.Child("swarm")
		p := &sim.Plan{Cfg: map[string]int64{
			"clients":  int64(sw.Range(2, 6)),
			"miners":   int64(sw.Range(1, 4)),
			"sharders": int64(sw.Range(1, 3)),
			"fees":     int64(sw.Intn(4) / 1 % 2),
			"funding":  []int64{1e13, 1e10, 5, 1e17}[sw.Pick([]int{6, 2, 1, 1})],
			"ed25519":  int64(sw.Pick([]int{3, 1})),
		}}
		n := sw.Range(lo, hi)
		if tier == "thorough" {
			n = sw.Range(lo, hi*3)
		}
		GenBase(root.Child("plan"), p, n, weights)
		return p
	}
}

var coreWeights = map[string]int{"send": 10, "call": 10, "pour": 3, "data": 1, "replay": 2, "block": 4, "clock": 1}

func init() {
	sim.Register(&sim.Check{
		ID: "C01", Title: "Total token supply is conserved by every transaction", World: "ledger",
		Gen:  baseGen(coreWeights, 20, 120),
		Exec: baseExec("C01", func(w *World) []Observer { return []Observer{OracleC01{}} }),
		Quick: sim.Budget{Runs: 320, WallS: 90}, Thorough: sim.Budget{Runs: 20000, WallS: 1500},
		LevelText: "seeded search over transaction histories (every transaction type, every registered contract function with well-formed/boundary/malformed payloads, boundary values and fees, replays) on a real chain with all contracts; " +
			"conservation decided on a structural MPT diff per transaction and a full trie walk per block; a clean batch is evidence, not proof",
		LevelNote: "account leaves are the leaves not written through the contract StateContext API (hook H1); trusted: MPT node decoding, the oracle's big-integer sum",
		Technique: "deterministic simulation: seeded workload + fault (replay, rejection, chargeable failure) injection, MPT-diff conservation oracle",
		DesignRef: "6/C01", Regime: "single-threaded event loop (one transaction at a time through Chain.UpdateState)",
		Components: w1Components,
	})
	sim.Register(&sim.Check{
		ID: "C03", Title: "Each account's transactions apply once, in strict nonce order", World: "ledger",
		Gen:  baseGen(map[string]int{"send": 12, "call": 6, "pour": 2, "data": 1, "replay": 6, "block": 4, "clock": 0}, 20, 120),
		Exec: baseExec("C03", func(w *World) []Observer { return []Observer{NewOracleC03()} }),
		Quick: sim.Budget{Runs: 320, WallS: 90}, Thorough: sim.Budget{Runs: 20000, WallS: 1500},
		LevelText: "seeded search over submission histories with nonces drawn from {expected, ±1, 0, negative, far future}, duplicates and byte-identical replays of applied transactions; per-account reference counter compared with the nonce stored in the real trie",
		LevelNote: "ingestion path exercised: Chain.UpdateState directly (the generator's past/future classification is covered by C45)",
		Technique: "deterministic simulation: seeded histories with replay/duplicate faults against a per-account counter model",
		DesignRef: "6/C03", Regime: "single-threaded event loop", Components: w1Components,
	})
	sim.Register(&sim.Check{
		ID: "C05", Title: "Balances never overdraw or wrap", World: "ledger",
		Gen:  baseGen(map[string]int{"send": 14, "call": 8, "pour": 3, "data": 1, "replay": 1, "block": 3, "clock": 0}, 20, 120),
		Exec: baseExec("C05", func(w *World) []Observer { return []Observer{OracleC05{}} }),
		Quick: sim.Budget{Runs: 320, WallS: 90}, Thorough: sim.Budget{Runs: 20000, WallS: 1500},
		LevelText: "seeded search with boundary amounts (0, 1, balance, balance+1, supply, supply+1, 2^63-1, 2^63, 2^64-1) for values and fees; reference arithmetic in math/big; rejected transactions must leave the block state root bit-identical",
		LevelNote: "multi-transfer contract paths (vesting trigger, stake unlock, mint) are exercised by their own workloads (C11, C16, C18) with this oracle attached",
		Technique: "deterministic simulation: boundary-value workload, big-integer reference model, root comparison on rejection",
		DesignRef: "6/C05", Regime: "single-threaded event loop", Components: w1Components,
	})
}
