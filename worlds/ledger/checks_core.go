package ledger

import (
	"fmt"
	"os"
	"runtime"
	"runtime/debug"
	"testing"
	"testing/synctest"
	"time"

	"verif/sim"
)

var w1Components = sim.Components{
	Real: []string{"chaincore/chain (Chain, UpdateState/updateState, SaveChanges, genesis)", "chaincore/block", "chaincore/chain/state (StateContext)",
		"chaincore/transaction", "all six smart contracts via setupsc + docker.local/config/sc.yaml", "0chain/common MPT, PNodeDB, state cache", "core/encryption"},
	Sim:  []string{"clients and providers (seeded keys)", "block assembler", "clock", "reference models / oracles", "simulated disk (grocksdb replacement)"},
	Stub: []string{"redis (datastore.Store seam, in-memory)", "RocksDB (simulated disk)", "event DB (disabled)", "network/HTTP"},
}

// W1Components describes what runs real / simulated / stubbed in this world.
var W1Components = w1Components

// Scenario is a property check over the ledger world: base workload weights,
// optional property-specific plan generation, and a setup hook that installs
// observers (oracles) and extra step handlers (Runner.Ops).
type Scenario struct {
	Prop    string
	Weights map[string]int // weights of the base ops (send, call, pour, data, replay, block, clock)
	Lo, Hi  int            // number of base steps
	// GenExtra may add swarm knobs to p.Cfg and insert property-specific steps
	// (it receives the plan already holding the base steps and may reorder).
	GenExtra func(r *sim.RNG, p *sim.Plan, tier string)
	// Early runs before genesis (hooks that must see genesis inserts).
	Early func(w *World) []Observer
	// Setup runs after genesis: register Runner.Ops handlers, return observers.
	Setup func(w *World, r *Runner) []Observer
	// Finish runs after the last step (final checks over the recorded history).
	Finish func(w *World, r *Runner)
	// Bubble runs the scenario inside a testing/synctest bubble (fake wall clock).
	Bubble bool
	// Mixed: no GenExtra of its own; run over the base workload or one of the
	// registered workloads, chosen per seed (core oracles).
	Mixed bool
}

// Workload is a named property-specific workload (extra plan steps + step
// handlers) registered by a sub-package; the core oracles (C01-C05, C07, C08)
// run over every registered workload, chosen per seed.
type Workload struct {
	Name     string
	GenExtra func(r *sim.RNG, p *sim.Plan, tier string)
	Setup    func(w *World, r *Runner) // registers Runner.Ops handlers; no observers
}

var workloads = map[string]*Workload{}

func RegisterWorkload(wl *Workload) { workloads[wl.Name] = wl }

func workloadNames() []string {
	ns := SortedKeys(workloads)
	return append([]string{"base"}, ns...)
}

func (s Scenario) Gen(seed uint64, tier string) *sim.Plan {
	p := baseGen(s.Weights, s.Lo, s.Hi)(seed, tier)
	if s.GenExtra != nil {
		s.GenExtra(sim.NewRNG(seed).Child("extra"), p, tier)
	} else if s.Mixed {
		// core oracle: pick one of the registered workloads by seed
		ns := workloadNames()
		k := sim.NewRNG(seed).Child("workload").Intn(len(ns))
		p.Cfg["workload"] = int64(k)
		if k > 0 {
			workloads[ns[k]].GenExtra(sim.NewRNG(seed).Child("extra"), p, tier)
		}
	}
	return p
}

func (s Scenario) Exec(env *sim.Env, p *sim.Plan) *sim.Result {
	if !s.Bubble {
		return s.exec(env, p, false)
	}
	// fake clock: the whole run, including every goroutine and timer of the
	// chain, lives inside a testing/synctest bubble whose wall clock the world
	// steers (time.Now() inside contracts reads it).
	Boot()
	var res *sim.Result
	synctest.Test(env.T, func(t *testing.T) {
		defer func() {
			if r := recover(); r != nil {
				res = &sim.Result{Seed: p.Seed, Panic: fmt.Sprintf("%v\n%s", r, debug.Stack())}
			}
		}()
		res = s.exec(env, p, true)
		// let timer-bound helper goroutines of the chain (e.g. the LFB sync
		// notification, which gives up after a timeout) run out before the bubble ends
		time.Sleep(2 * time.Hour)
		synctest.Wait()
		if os.Getenv("VERIF_DEBUG_BUBBLE") != "" {
			buf := make([]byte, 1<<20)
			n := runtime.Stack(buf, true)
			os.Stderr.Write(buf[:n])
		}
	})
	return res
}

func (s Scenario) exec(env *sim.Env, p *sim.Plan, bubble bool) *sim.Result {
	tr := sim.NewTrace()
	tr.Keep = env.KeepLog
	if bubble {
		// bubble time starts at 2000-01-01; move it to the chain's genesis time
		time.Sleep(time.Until(time.Unix(genesisTime, 0)))
	}
	w := NewWorldWith(p.Seed, CfgFromPlan(p), tr, func(w *World) {
		if s.Early != nil {
			for _, o := range s.Early(w) {
				w.AddObserver(o)
			}
		}
	})
	defer w.Close()
	w.InBubble = bubble
	r := NewRunner(w)
	if p.CfgInt("save_all", 0) != 0 {
		r.SaveAll = true
	}
	r.Plan = p
	if s.Mixed {
		ns := workloadNames()
		if k := int(p.CfgInt("workload", 0)); k > 0 && k < len(ns) {
			workloads[ns[k]].Setup(w, r)
			tr.Probe("workload:" + ns[k])
		}
	}
	if s.Setup != nil {
		for _, o := range s.Setup(w, r) {
			w.AddObserver(o)
		}
	}
	for _, st := range p.Steps {
		r.Step(st)
		if tr.Failed() && !allKnown(tr) {
			break
		}
	}
	r.EndBlock(true)
	if s.Finish != nil && (!tr.Failed() || allKnown(tr)) {
		s.Finish(w, r)
	}
	return tr.Result(p.Seed)
}

// baseExec runs a base-workload plan with the given observers.
func baseExec(prop string, mk func(w *World) []Observer) func(env *sim.Env, p *sim.Plan) *sim.Result {
	return Scenario{Prop: prop, Early: mk, Mixed: true}.Exec
}

func allKnown(tr *sim.Trace) bool {
	for _, v := range tr.Viol {
		if sim.IsKnown(v.Prop, v.Sig) == nil {
			return false
		}
	}
	return true
}

func baseGen(weights map[string]int, lo, hi int) func(seed uint64, tier string) *sim.Plan {
	return func(seed uint64, tier string) *sim.Plan {
		root := sim.NewRNG(seed)
		sw := root.Child("swarm")
		p := &sim.Plan{Cfg: map[string]int64{
			"clients":  int64(sw.Range(2, 6)),
			"miners":   int64(sw.Range(1, 4)),
			"sharders": int64(sw.Range(1, 3)),
			"fees":     int64(sw.Intn(4) / 1 % 2),
			"funding":  []int64{1e13, 1e10, 5, 1e17}[sw.Pick([]int{6, 2, 1, 1})],
			"ed25519":  int64(sw.Pick([]int{3, 1})),
		}}
		n := sw.Range(lo, hi)
		if tier == "thorough" {
			n = sw.Range(lo, hi*3)
		}
		GenBase(root.Child("plan"), p, n, weights)
		return p
	}
}

func init() {
	sim.Register(&sim.Check{
		ID: "C02", Title: "A failing contract call only pays its fee and consumes its nonce", World: "ledger",
		Gen:   Scenario{Weights: map[string]int{"send": 3, "call": 20, "pour": 3, "data": 0, "replay": 1, "block": 3, "clock": 1}, Lo: 20, Hi: 120, Mixed: true}.Gen,
		Exec:  baseExec("C02", func(w *World) []Observer { return []Observer{OracleC02{}} }),
		Quick: sim.Budget{Runs: 320, WallS: 90}, Thorough: sim.Budget{Runs: 20000, WallS: 1500},
		LevelText: "seeded search over contract calls that fail (every registered function, malformed and boundary payloads, wrong callers, insufficient funds); for every chargeable-failed transaction the structural MPT diff must be exactly {sender -fee, nonce+1; miner-contract wallet +fee} and the event list one error event (+ the user events of fee/nonce)",
		LevelNote: "probe failed_after_state_write counts failures that happened after at least one contract-level insert/delete (the interesting case); contract-specific late-failure workloads (storage, staking, bridge) attach this oracle too",
		Technique: "deterministic simulation: failing-call workload, allowed-diff oracle on the real trie",
		DesignRef: "6/C02, A.2", Regime: "single-threaded event loop", Components: w1Components,
	})
	sim.Register(&sim.Check{
		ID: "C04", Title: "Transactions debit only what their sender authorised", World: "ledger",
		Gen:   Scenario{Weights: map[string]int{"send": 8, "call": 16, "pour": 3, "data": 1, "replay": 1, "block": 3, "clock": 1}, Lo: 20, Hi: 120, Mixed: true}.Gen,
		Exec:  baseExec("C04", func(w *World) []Observer { return []Observer{NewOracleC04()} }),
		Quick: sim.Budget{Runs: 320, WallS: 90}, Thorough: sim.Budget{Runs: 20000, WallS: 1500},
		LevelText: "seeded search over all transaction types and contract functions; on the MPT diff of each applied transaction the sender loses at most value+fee and any other debited account must be the called contract's wallet or covered by an authorisation the oracle verified itself",
		LevelNote: "StateContext.Validate() runs before the contract on the pinned tree, so the oracle does not rely on it; signed-transfer and free-storage authorisations are registered by the multisig / storage workloads after the oracle re-verifies the signatures",
		Technique: "deterministic simulation: seeded workload, debit-authorisation oracle on the real trie",
		DesignRef: "6/C04", Regime: "single-threaded event loop", Components: w1Components,
	})
	sim.Register(&sim.Check{
		ID: "C07", Title: "The state cache never disagrees with the state trie", World: "ledger",
		Gen:   Scenario{Weights: map[string]int{"send": 4, "call": 16, "pour": 4, "data": 0, "replay": 1, "block": 5, "clock": 1}, Lo: 20, Hi: 120, Mixed: true}.Gen,
		Exec:  baseExec("C07", func(w *World) []Observer { return []Observer{NewOracleC07(w)} }),
		Quick: sim.Budget{Runs: 240, WallS: 90}, Thorough: sim.Budget{Runs: 12000, WallS: 1500},
		LevelText: "through hook H1 every cache-served GetTrieNode is compared with an uncached read (second trie object, empty cache, same node DB and root); at every transaction end (success, chargeable failure, rejection) every touched key is read through the cache stack and compared with the trie, then the returned value is scribbled over in place and read again (aliasing)",
		LevelNote: "covers every type stored through StateContext because the check is by interface; trie-node entries of the same cache are content-addressed and not under test; the cache implementation itself lives in github.com/0chain/common (outside /repo), the Clone/CopyFrom methods of the entity types are in /repo",
		Technique: "deterministic simulation: failing/rejected transactions and cache warmth as faults, cached-vs-uncached read oracle via hook H1",
		DesignRef: "6/C07", Regime: "single-threaded event loop", Components: w1Components,
	})
	sim.Register(&sim.Check{
		ID: "C08", Title: "State entities serialize losslessly and canonically", World: "ledger",
		Gen:   Scenario{Weights: map[string]int{"send": 2, "call": 18, "pour": 3, "data": 0, "replay": 0, "block": 3, "clock": 1}, Lo: 20, Hi: 120, Mixed: true}.Gen,
		Exec:  baseExec("C08", func(w *World) []Observer { return []Observer{NewOracleC08(w)} }),
		Quick: sim.Budget{Runs: 240, WallS: 90}, Thorough: sim.Budget{Runs: 12000, WallS: 1500},
		LevelText: "at every InsertTrieNode (hook H1, including genesis) the value is encoded, decoded into a fresh value of the same type and re-encoded: bytes identical, two encodings of the same value identical",
		LevelNote: "input-class property hosted in the simulation: field-value coverage is whatever the histories and swarm extremes produce (probes type:<T> list the entity types reached)",
		Technique: "deterministic simulation: round-trip oracle on every stored value via hook H1",
		DesignRef: "6/C08", Regime: "single-threaded event loop", Components: w1Components,
	})
}

// withFresh inserts steps of brand-new wallets (no leaf in state yet) into a plan: a first
// transaction that pays the wallet itself, funded-then-spends, receive-only.
func withFresh(gen func(seed uint64, tier string) *sim.Plan) func(seed uint64, tier string) *sim.Plan {
	return func(seed uint64, tier string) *sim.Plan {
		p := gen(seed, tier)
		fr := sim.NewRNG(seed).Child("fresh")
		for k := fr.Range(0, 4); k > 0 && len(p.Steps) > 0; k-- {
			at := fr.Intn(len(p.Steps) + 1)
			st := sim.Step{Op: "fresh", A: fr.Intn(6), I: []int64{int64(fr.Intn(3)), int64(fr.Pick([]int{1, 3, 6, 2, 2, 1})), int64(fr.Intn(12))}}
			p.Steps = append(p.Steps[:at], append([]sim.Step{st}, p.Steps[at:]...)...)
		}
		return p
	}
}

// withReadFault inserts "rdfault" steps (one-shot disk read error inside a send, after the head was
// persisted and the caches emptied) into half of the plans; those plans persist every block.
func withReadFault(gen func(seed uint64, tier string) *sim.Plan) func(seed uint64, tier string) *sim.Plan {
	return func(seed uint64, tier string) *sim.Plan {
		p := gen(seed, tier)
		fr := sim.NewRNG(seed).Child("rdfault")
		if fr.Intn(2) != 0 || len(p.Steps) == 0 {
			return p
		}
		p.Cfg["save_all"] = 1
		for k := fr.Range(1, 4); k > 0; k-- {
			at := len(p.Steps)/4 + fr.Intn(len(p.Steps)-len(p.Steps)/4+1)
			st := sim.Step{Op: "rdfault", A: fr.Intn(12), I: []int64{int64(fr.Intn(14)), int64(fr.Intn(14)), int64(fr.Pick([]int{4, 2, 2, 1, 1}) + 1)}}
			p.Steps = append(p.Steps[:at], append([]sim.Step{st}, p.Steps[at:]...)...)
		}
		return p
	}
}

var coreWeights = map[string]int{"send": 10, "call": 10, "pour": 3, "data": 1, "replay": 2, "block": 4, "clock": 1}

func init() {
	sim.Register(&sim.Check{
		ID: "C01", Title: "Total token supply is conserved by every transaction", World: "ledger",
		Gen:   withReadFault(withFresh(Scenario{Weights: coreWeights, Lo: 20, Hi: 120, Mixed: true}.Gen)),
		Exec:  baseExec("C01", func(w *World) []Observer { return []Observer{OracleC01{}} }),
		Quick: sim.Budget{Runs: 320, WallS: 90}, Thorough: sim.Budget{Runs: 20000, WallS: 1500},
		LevelText: "seeded search over transaction histories (every transaction type, every registered contract function with well-formed/boundary/malformed payloads, boundary values and fees, replays) on a real chain with all contracts; " +
			"conservation decided on a structural MPT diff per transaction and a full trie walk per block; a clean batch is evidence, not proof",
		LevelNote: "account leaves are the leaves not written through the contract StateContext API (hook H1); trusted: MPT node decoding, the oracle's big-integer sum",
		Technique: "deterministic simulation: seeded workload + fault (replay, rejection, chargeable failure, one-shot disk read error inside a send after a restart-like cache reset) injection, MPT-diff conservation oracle",
		DesignRef: "6/C01", Regime: "single-threaded event loop (one transaction at a time through Chain.UpdateState)",
		Components: w1Components,
	})
	sim.Register(&sim.Check{
		ID: "C03", Title: "Each account's transactions apply once, in strict nonce order", World: "ledger",
		Gen:   withReadFault(Scenario{Weights: map[string]int{"send": 12, "call": 6, "pour": 2, "data": 1, "replay": 6, "block": 4, "clock": 0}, Lo: 20, Hi: 120, Mixed: true}.Gen),
		Exec:  baseExec("C03", func(w *World) []Observer { return []Observer{NewOracleC03()} }),
		Quick: sim.Budget{Runs: 320, WallS: 90}, Thorough: sim.Budget{Runs: 20000, WallS: 1500},
		LevelText: "seeded search over submission histories with nonces drawn from {expected, ±1, 0, negative, far future}, duplicates and byte-identical replays of applied transactions; per-account reference counter compared with the nonce stored in the real trie",
		LevelNote: "ingestion path exercised: Chain.UpdateState directly (the generator's past/future classification is covered by C45)",
		Technique: "deterministic simulation: seeded histories with replay/duplicate faults against a per-account counter model",
		DesignRef: "6/C03", Regime: "single-threaded event loop", Components: w1Components,
	})
	c05 := Scenario{Prop: "C05", Weights: map[string]int{"send": 14, "call": 8, "pour": 3, "data": 1, "replay": 1, "block": 3, "clock": 0}, Lo: 20, Hi: 120, Mixed: true,
		Early: func(w *World) []Observer { return []Observer{OracleC05{}} },
		Setup: func(w *World, r *Runner) []Observer { r.AllowPoke = true; return nil }}
	c05gen := func(seed uint64, tier string) *sim.Plan {
		p := c05.Gen(seed, tier)
		// boundary states a conserving history cannot reach: in a third of the runs some
		// account is put within a few units of 2^64-1 and then receives transfers
		pr := sim.NewRNG(seed).Child("poke")
		if pr.Intn(3) == 0 && len(p.Steps) > 2 {
			for k := pr.Range(1, 3); k > 0; k-- {
				acct := pr.Intn(6)
				at := pr.Intn(len(p.Steps))
				ins := []sim.Step{{Op: "poke", A: acct, I: []int64{int64(pr.Pick([]int{3, 3, 2, 1})*0 + []int{0, 10, 999, 1e9}[pr.Intn(4)])}}}
				for j := pr.Range(1, 4); j > 0; j-- {
					ins = append(ins, sim.Step{Op: "send", A: pr.Intn(6), I: []int64{int64(acct), int64([]int{VOne, VSmall, VMedium, VHalf}[pr.Intn(4)]), 2, 0}})
				}
				p.Steps = append(p.Steps[:at], append(ins, p.Steps[at:]...)...)
			}
		}
		return p
	}
	sim.Register(&sim.Check{
		ID: "C05", Title: "Balances never overdraw or wrap", World: "ledger",
		Gen:   c05gen,
		Exec:  c05.Exec,
		Quick: sim.Budget{Runs: 320, WallS: 90}, Thorough: sim.Budget{Runs: 20000, WallS: 1500},
		LevelText: "seeded search with boundary amounts (0, 1, balance, balance+1, supply, supply+1, 2^63-1, 2^63, 2^64-1) for values and fees; reference arithmetic in math/big; rejected transactions must leave the block state root bit-identical",
		LevelNote: "multi-transfer contract paths (vesting trigger, stake unlock, mint) are exercised by their own workloads (C11, C16, C18) with this oracle attached",
		Technique: "deterministic simulation: boundary-value workload, big-integer reference model, root comparison on rejection",
		DesignRef: "6/C05", Regime: "single-threaded event loop", Components: w1Components,
	})
}
