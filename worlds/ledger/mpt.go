package ledger

import (
	"bytes"
	"fmt"

	"0chain.net/chaincore/state"
	"github.com/0chain/common/core/util"
)

// LeafChange is one changed leaf: Old/New are the raw value bytes (nil = absent).
type LeafChange struct {
	Old []byte
	New []byte
}

// Leaves walks the trie rooted at root through ndb and returns path -> value
// bytes for every leaf. It fails when a node is missing.
func Leaves(ndb util.NodeDB, root util.Key) (map[string][]byte, error) {
	out := map[string][]byte{}
	if len(root) == 0 {
		return out, nil
	}
	if err := collect(ndb, root, nil, out); err != nil {
		return nil, err
	}
	return out, nil
}

func collect(ndb util.NodeDB, key util.Key, prefix []byte, out map[string][]byte) error {
	n, err := ndb.GetNode(key)
	if err != nil {
		return fmt.Errorf("node %x at path %s: %w", key, string(prefix), err)
	}
	switch nd := n.(type) {
	case *util.LeafNode:
		p := append(append([]byte{}, prefix...), nd.Path...)
		if nd.HasValue() {
			out[string(p)] = nd.GetValueBytes()
		}
	case *util.FullNode:
		if nd.HasValue() {
			out[string(prefix)] = nd.GetValueBytes()
		}
		for i := 0; i < 16; i++ {
			c := nd.Children[i]
			if c == nil {
				continue
			}
			p := append(append([]byte{}, prefix...), hexChar(i))
			if err := collect(ndb, c, p, out); err != nil {
				return err
			}
		}
	case *util.ExtensionNode:
		p := append(append([]byte{}, prefix...), nd.Path...)
		return collect(ndb, nd.NodeKey, p, out)
	default:
		return fmt.Errorf("unexpected node type %T", n)
	}
	return nil
}

func hexChar(i int) byte {
	if i < 10 {
		return byte('0' + i)
	}
	return byte('a' + i - 10)
}

// DiffLeaves returns the leaves that differ between two roots, descending only
// into subtrees whose hashes differ. Decided on the trie itself, not on what
// the implementation says it changed.
func DiffLeaves(ndb util.NodeDB, a, b util.Key) map[string]LeafChange {
	out := map[string]LeafChange{}
	if bytes.Equal(a, b) {
		return out
	}
	oldL, newL := map[string][]byte{}, map[string][]byte{}
	diffRec(ndb, a, b, nil, oldL, newL)
	for p, ov := range oldL {
		nv, ok := newL[p]
		if !ok {
			out[p] = LeafChange{Old: ov}
		} else if !bytes.Equal(ov, nv) {
			out[p] = LeafChange{Old: ov, New: nv}
		}
	}
	for p, nv := range newL {
		if _, ok := oldL[p]; !ok {
			out[p] = LeafChange{New: nv}
		}
	}
	return out
}

func diffRec(ndb util.NodeDB, a, b util.Key, prefix []byte, oldL, newL map[string][]byte) {
	if bytes.Equal(a, b) {
		return
	}
	var na, nb util.Node
	if len(a) > 0 {
		na, _ = ndb.GetNode(a)
	}
	if len(b) > 0 {
		nb, _ = ndb.GetNode(b)
	}
	fa, oka := na.(*util.FullNode)
	fb, okb := nb.(*util.FullNode)
	if oka && okb {
		if fa.HasValue() {
			oldL[string(prefix)] = fa.GetValueBytes()
		}
		if fb.HasValue() {
			newL[string(prefix)] = fb.GetValueBytes()
		}
		for i := 0; i < 16; i++ {
			p := append(append([]byte{}, prefix...), hexChar(i))
			diffRec(ndb, fa.Children[i], fb.Children[i], p, oldL, newL)
		}
		return
	}
	if na != nil {
		_ = collect(ndb, a, prefix, oldL)
	}
	if nb != nil {
		_ = collect(ndb, b, prefix, newL)
	}
}

// DecodeAccount decodes an account leaf.
func DecodeAccount(b []byte) (*state.State, error) {
	s := &state.State{}
	if _, err := s.UnmarshalMsg(b); err != nil {
		return nil, err
	}
	return s, nil
}

// LeafIndex memoises trie nodes by hash so that the leaf-level diff of a
// transaction can be computed after the fact: the block-level node DB drops
// replaced nodes when a transaction's changes are merged, so the pre-state
// side of the diff is served from this index (built before the transaction),
// the post-state side from the node DB.
type LeafIndex struct {
	memo map[string]*mnode
}

type leafKV struct {
	p string
	v []byte
}

type mnode struct {
	full     bool
	children [16]string
	own      []byte // value stored on a full node itself
	hasOwn   bool
	leaves   []leafKV // all leaves at or below this node (full paths)
}

func NewLeafIndex() *LeafIndex { return &LeafIndex{memo: map[string]*mnode{}} }

// Load indexes the subtree rooted at key (reading only nodes not seen before).
func (ix *LeafIndex) Load(ndb util.NodeDB, key util.Key, prefix []byte) (*mnode, error) {
	if len(key) == 0 {
		return &mnode{}, nil
	}
	mk := string(key) + "|" + string(prefix)
	if m, ok := ix.memo[mk]; ok {
		return m, nil
	}
	n, err := ndb.GetNode(key)
	if err != nil {
		return nil, fmt.Errorf("node %x at path %s: %w", key, string(prefix), err)
	}
	m := &mnode{}
	switch nd := n.(type) {
	case *util.LeafNode:
		if nd.HasValue() {
			p := append(append([]byte{}, prefix...), nd.Path...)
			m.leaves = []leafKV{{string(p), nd.GetValueBytes()}}
		}
	case *util.FullNode:
		m.full = true
		if nd.HasValue() {
			m.hasOwn, m.own = true, nd.GetValueBytes()
			m.leaves = append(m.leaves, leafKV{string(prefix), m.own})
		}
		for i := 0; i < 16; i++ {
			c := nd.Children[i]
			if c == nil {
				continue
			}
			m.children[i] = string(c)
			p := append(append([]byte{}, prefix...), hexChar(i))
			cm, err := ix.Load(ndb, c, p)
			if err != nil {
				return nil, err
			}
			m.leaves = append(m.leaves, cm.leaves...)
		}
	case *util.ExtensionNode:
		p := append(append([]byte{}, prefix...), nd.Path...)
		cm, err := ix.Load(ndb, nd.NodeKey, p)
		if err != nil {
			return nil, err
		}
		m.leaves = cm.leaves
	default:
		return nil, fmt.Errorf("unexpected node type %T", n)
	}
	ix.memo[mk] = m
	return m, nil
}

// Diff returns the changed leaves between an indexed old root and a new root.
func (ix *LeafIndex) Diff(ndb util.NodeDB, a, b util.Key) (map[string]LeafChange, error) {
	out := map[string]LeafChange{}
	if bytes.Equal(a, b) {
		return out, nil
	}
	oldL, newL := map[string][]byte{}, map[string][]byte{}
	if err := ix.diff(ndb, string(a), string(b), nil, oldL, newL); err != nil {
		return nil, err
	}
	for p, ov := range oldL {
		nv, ok := newL[p]
		if !ok {
			out[p] = LeafChange{Old: ov}
		} else if !bytes.Equal(ov, nv) {
			out[p] = LeafChange{Old: ov, New: nv}
		}
	}
	for p, nv := range newL {
		if _, ok := oldL[p]; !ok {
			out[p] = LeafChange{New: nv}
		}
	}
	return out, nil
}

func (ix *LeafIndex) diff(ndb util.NodeDB, a, b string, prefix []byte, oldL, newL map[string][]byte) error {
	if a == b {
		return nil
	}
	ma := &mnode{}
	if a != "" {
		var ok bool
		ma, ok = ix.memo[a+"|"+string(prefix)]
		if !ok {
			// not indexed: try the node DB (it may still hold it)
			var err error
			ma, err = ix.Load(ndb, util.Key(a), prefix)
			if err != nil {
				return fmt.Errorf("pre-state node not indexed: %w", err)
			}
		}
	}
	mb, err := ix.Load(ndb, util.Key(b), prefix)
	if err != nil {
		return err
	}
	if ma.full && mb.full {
		if ma.hasOwn {
			oldL[string(prefix)] = ma.own
		}
		if mb.hasOwn {
			newL[string(prefix)] = mb.own
		}
		for i := 0; i < 16; i++ {
			p := append(append([]byte{}, prefix...), hexChar(i))
			if err := ix.diff(ndb, ma.children[i], mb.children[i], p, oldL, newL); err != nil {
				return err
			}
		}
		return nil
	}
	for _, l := range ma.leaves {
		oldL[l.p] = l.v
	}
	for _, l := range mb.leaves {
		newL[l.p] = l.v
	}
	return nil
}
