package gov

import (
	"bytes"
	"encoding/json"
	"fmt"
	"strings"

	"0chain.net/chaincore/transaction"
	"0chain.net/core/encryption"
	"github.com/0chain/common/core/util"

	"verif/sim"
	"verif/worlds/ledger"
)

// ---- plan generation ------------------------------------------------------------------------------

var valuePools = map[int][]string{
	tInt:      {"0", "1", "2", "3", "4", "5", "7", "10", "100", "-1", "2147483648", "9223372036854775808", "1.5", "", "abc", "0x10", "+3", " 5"},
	tInt64:    {"0", "1", "2", "3", "10", "100", "125000000", "-1", "9223372036854775807", "9223372036854775808", "1.5", "", "abc"},
	tInt32:    {"0", "1", "10", "100", "2147483647", "2147483648", "-1", "abc", ""},
	tFloat:    {"0", "0.1", "0.5", "0.66", "1", "1.0", "1.5", "-0.1", "1e-9", "1e308", "NaN", "Inf", "-Inf", "abc", "", "0,5"},
	tCoinCast: {"0", "1", "100", "0.5", "-1", "1e30", "NaN", "abc", ""},
	tCoinZCN:  {"0", "0.0000000001", "0.01", "0.1", "1", "1.5", "100", "20000", "922337203", "922337204", "1e9", "-1", "0.00000000001", "abc", ""},
	tDuration: {"0s", "1s", "1001ms", "2m", "90m", "3h", "48h", "720h", "-1s", "1", "abc", "", "1d", "9999999h"},
	tBool:     {"true", "false", "1", "0", "T", "yes", ""},
	tKey:      {"@0", "@self", "@1", "@2", "@3", "@4", "@5", "@9", "abcd", "", "xyz", "abc"},
	tAnyStr:   {"@0", "@1", "@2", "@9", "", "xyz"},
	tCost:     {"0", "1", "100", "-1", "1.5", "abc", "2147483647", "99999999999999999999"},
	tCostNN:   {"0", "1", "100", "-1", "1.5", "abc", "2147483647", "99999999999999999999"},
	tString:   {"static", "dynamic", "", "foo", "bls0chain", "ed25519"},
	tStrings:  {"a,b", "", "x"},
	tUint:     {"0", "1", "100", "-1", "1.5", "abc", "18446744073709551615", "18446744073709551616"},
}

var junkKeys = []string{"", " ", "foo", "MAX_N", "Max_Stake", "view_change", "last_round", "minted", "cost", "cost.", "cost.unknown_fn", "cost.add_miner ",
	"owner", "fields", "server_chain.nothing", "min_n\u0000", "version", "prev_magic_block", "used", "id"}

// genSet appends one gov.set step. Step layout:
//
//	A    caller: 0 stored owner of the target, 1 chain owner, 2 sc.yaml owner, >=3 account (A-3)
//	I[0] target index, I[1] raw kind, I[2] fee kind, I[3] nonce kind
//	S    k1, v1, k2, v2, ... (literal; values "@n" resolve to account n)
func genSet(r *sim.RNG, forceTarget int) sim.Step {
	ti := forceTarget
	if ti < 0 {
		ti = r.Pick([]int{3, 3, 3, 2, 2, 2})
	}
	tg := targets[ti]
	st := sim.Step{Op: "gov.set"}
	switch r.Pick([]int{7, 1, 1, 3}) {
	case 0:
		st.A = 0
	case 1:
		st.A = 1
	case 2:
		st.A = 2
	default:
		st.A = 3 + r.Intn(12)
	}
	rawKind := int64(r.Pick([]int{14, 1, 1, 1, 1, 1, 1, 1}))
	st.I = []int64{int64(ti), rawKind, int64(r.Pick([]int{6, 4, 2, 2, 1})), int64(r.Pick([]int{24, 1, 1, 1, 1, 1}))}
	n := r.Pick([]int{1, 5, 4, 3, 2, 1})
	val := func(k string) string {
		kind, ok := tg.kind(k)
		if !ok {
			kind = r.Intn(len(valuePools))
		}
		pool := valuePools[kind]
		// bias towards the well-formed head of each pool
		if r.Bool(0.55) {
			return pool[r.Intn(min(len(pool), 7))]
		}
		return pool[r.Intn(len(pool))]
	}
	for i := 0; i < n; i++ {
		switch r.Pick([]int{12, 2, 4, 2}) {
		case 3:
			// several unknown keys in one request (what the contract says about them must not
			// depend on the order in which it happens to meet them)
			for _, j := range r.Perm(len(junkKeys))[:min(len(junkKeys), 2+r.Intn(3))] {
				st.S = append(st.S, junkKeys[j], val(junkKeys[j]))
			}
		case 0:
			k := tg.keys[r.Intn(len(tg.keys))]
			if tg.trim && r.Bool(0.1) {
				if r.Bool(0.4) {
					st.S = append(st.S, k, val(k)) // the same setting twice once the contract has trimmed the keys
				}
				k = " " + k + " "
			}
			st.S = append(st.S, k, val(k))
		case 1:
			k := junkKeys[r.Intn(len(junkKeys))]
			st.S = append(st.S, k, val(k))
		default:
			p := tg.pairs[r.Intn(len(tg.pairs))]
			st.S = append(st.S, p[0], val(p[0]), p[1], val(p[1]))
		}
	}
	if tg == tgZcn && r.Bool(0.6) {
		// the shipped bridge configuration has min_stake 0, which its own validation refuses:
		// accepted bridge updates need a positive min_stake in the same (or an earlier) update
		st.S = append(st.S, "min_stake", []string{"1", "0.1", "100"}[r.Intn(3)])
	}
	if len(st.S) >= 2 && r.Bool(0.08) {
		// duplicate key (the JSON decoder keeps the last one)
		st.S = append(st.S, st.S[0], val(st.S[0]))
	}
	if r.Bool(0.15) {
		// seeded order
		np := len(st.S) / 2
		perm := r.Perm(np)
		s2 := make([]string, 0, len(st.S))
		for _, j := range perm {
			s2 = append(s2, st.S[2*j], st.S[2*j+1])
		}
		st.S = s2
	}
	return st
}

func genC48(r *sim.RNG, p *sim.Plan, tier string) {
	n := r.Range(14, 40)
	if tier == "thorough" {
		n = r.Range(20, 90)
	}
	var extra []sim.Step
	for i := 0; i < n; i++ {
		switch r.Pick([]int{20, 2, 3, 1}) {
		case 0:
			extra = append(extra, genSet(r, -1))
		case 1:
			// storage: commit staged changes (anyone may call it)
			extra = append(extra, sim.Step{Op: "gov.commit", A: r.Intn(14), I: []int64{int64(r.Pick([]int{6, 4, 2, 2, 1})), int64(r.Pick([]int{24, 1, 1, 1}))}})
		case 2:
			extra = append(extra, genFork(r, []string{"demeter", "demeter", "electra", "x"}))
		default:
			extra = append(extra, sim.Step{Op: "block", I: []int64{0, int64(r.Intn(2))}})
		}
	}
	p.Steps = interleave(r, p.Steps, extra)
}

// interleave merges two step lists keeping each list's internal order.
func interleave(r *sim.RNG, a, b []sim.Step) []sim.Step {
	out := make([]sim.Step, 0, len(a)+len(b))
	i, j := 0, 0
	for i < len(a) || j < len(b) {
		if j >= len(b) || (i < len(a) && r.Intn(len(a)-i+len(b)-j) < len(a)-i) {
			out = append(out, a[i])
			i++
		} else {
			out = append(out, b[j])
			j++
		}
	}
	return out
}

// ---- step handlers --------------------------------------------------------------------------------

func jsonStr(s string) string {
	b, _ := json.Marshal(s)
	return string(b)
}

// fieldsJSON renders {"fields":{...}} keeping the given order (and duplicates).
func fieldsJSON(kv []string) string {
	var b strings.Builder
	b.WriteString(`{"fields":{`)
	for i := 0; i+1 < len(kv); i += 2 {
		if i > 0 {
			b.WriteByte(',')
		}
		b.WriteString(jsonStr(kv[i]))
		b.WriteByte(':')
		b.WriteString(jsonStr(kv[i+1]))
	}
	b.WriteString(`}}`)
	return b.String()
}

func plausibleID(s string) bool {
	if len(s) != 64 {
		return false
	}
	for _, c := range s {
		if !(c >= '0' && c <= '9' || c >= 'a' && c <= 'f') {
			return false
		}
	}
	return true
}

// storedOwner reads the configured owner of a target from the block under assembly.
func storedOwner(bc *ledger.BlockCtx, tg *target) string {
	raw := rawRecord(bc, tg.ownerRec)
	if raw == nil {
		return ""
	}
	rec, err := decodeGeneric(raw)
	if err != nil {
		return ""
	}
	s, _ := strAt(rec, tg.ownerPath)
	return s
}

func resolveCaller(w *ledger.World, r *ledger.Runner, tg *target, a int) (string, string) {
	switch {
	case a == 0:
		if o := storedOwner(r.BC, tg); plausibleID(o) {
			return o, "owner"
		}
		return w.OwnerID, "yaml-owner"
	case a == 1:
		return w.ChainOwn, "chain-owner"
	case a == 2:
		return w.OwnerID, "yaml-owner"
	default:
		id, _ := w.Account(a - 3)
		return id, "other"
	}
}

func resolveValues(w *ledger.World, kv []string, from string) []string {
	out := append([]string(nil), kv...)
	for i := 1; i < len(out); i += 2 {
		if out[i] == "@self" {
			// the sender names itself (e.g. as the new owner)
			out[i] = from
			continue
		}
		if strings.HasPrefix(out[i], "@") {
			n := 0
			fmt.Sscanf(out[i][1:], "%d", &n)
			id, _ := w.Account(n)
			out[i] = id
		}
	}
	return out
}

func opSet(r *ledger.Runner, st sim.Step) {
	w := r.W
	r.EnsureBlock()
	tg := targets[int(st.Int(0, 0))%len(targets)]
	from, cls := resolveCaller(w, r, tg, st.A)
	kv := resolveValues(w, st.S, from)
	if r.Plan.CfgInt("nan_coin", 0) == 0 {
		// NaN / Inf amounts make decimal.NewFromFloat panic inside the contract goroutine
		// (process crash, see NOTES.md); only generated when the plan asks for it
		for i := 0; i+1 < len(kv); i += 2 {
			k := kv[i]
			if tg.trim {
				k = strings.TrimSpace(k)
			}
			if kind, ok := tg.kind(k); ok && kind == tCoinZCN {
				lv := strings.ToLower(strings.TrimSpace(kv[i+1]))
				if strings.Contains(lv, "nan") || strings.Contains(lv, "inf") {
					kv[i+1] = "1"
				}
			}
		}
	}
	var raw string
	switch st.Int(1, 0) % 8 {
	case 0:
		raw = fieldsJSON(kv)
	case 1:
		raw = strings.TrimSuffix(fieldsJSON(kv), "}}")
	case 2:
		raw = "{}"
	case 3:
		raw = `{"fields":null}`
	case 4:
		raw = `{"fields":{"max_n":3}}`
	case 5:
		raw = "[]"
	case 6:
		raw = strings.TrimSuffix(fieldsJSON(kv), "}") + `,"extra":1}`
	default:
		raw = "null"
	}
	if st.Int(1, 0)%8 != 0 {
		w.Tr.Fault("malformed_settings_payload")
	}
	if cls != "owner" {
		w.Tr.Fault("wrong_caller")
	}
	staged := 0
	if tg == tgStorage {
		staged = len(stagedOf(rawRecord(r.BC, keyStorageStg))) // re-applied together with the new entries
	}
	if len(kv)/2+staged >= 2 && len(kv) >= 2 && (st.Int(1, 0)%8 == 0 || st.Int(1, 0)%8 == 6) {
		if orderDependent(r, from, tg.addr, tg.fn, raw, tg.name) {
			return // not submitted: its outcome is not a function of the plan
		}
	}
	t := w.MakeTxn(ledger.TxnSpec{From: from, To: tg.addr, Type: transaction.TxnTypeSmartContract, Name: tg.fn, Raw: raw,
		Fee: r.ResolveFee(st.Int(2, 0), from), Nonce: r.ResolveNonce(st.Int(3, 0), from)})
	o := r.Submit(t)
	w.Tr.Event("gov.set target=%s caller=%s entries=%d class=%s", tg.name, cls, len(kv)/2, o.Class)
	w.Tr.Outcome(fmt.Sprintf("set/%s/%s/%s", tg.name, cls, o.Class))
}

func opCommit(r *ledger.Runner, st sim.Step) {
	w := r.W
	r.EnsureBlock()
	from, _ := w.Account(st.A)
	if len(stagedOf(rawRecord(r.BC, keyStorageStg))) >= 2 {
		if orderDependent(r, from, ledger.AddrStorage, "commit_settings_changes", "{}", "storage-commit") {
			return
		}
	}
	t := w.MakeTxn(ledger.TxnSpec{From: from, To: ledger.AddrStorage, Type: transaction.TxnTypeSmartContract, Name: "commit_settings_changes", Raw: "{}",
		Fee: r.ResolveFee(st.Int(0, 0), from), Nonce: r.ResolveNonce(st.Int(1, 0), from)})
	o := r.Submit(t)
	w.Tr.Event("gov.commit class=%s", o.Class)
	w.Tr.Outcome("commit/" + o.Class)
}

// screenRuns is the number of scratch executions of the pre-screen. The Go
// runtime starts every map iteration at a random slot of the bucket, so for a
// map of a few entries the less likely of two iteration orders still has
// probability >= 1/8 (one slot out of eight; >= 1/16 for two buckets): a call
// whose result depends on the iteration order of its settings map shows two
// different results among n executions except with probability (15/16)^n,
// below 3e-6 for n = 200 (and (7/8)^200 < 3e-12 for the usual single bucket).
// The loop stops at the first difference.
const screenRuns = 200

// orderDependent executes a governance call up to screenRuns times in scratch
// contexts on the current state (nothing is kept) and compares acceptance and
// the resulting settings records. A call whose *result* differs between
// executions of the same input on the same state is reported (the settings in
// force would not be a function of the transaction) and is not submitted for
// real, which keeps the run itself a pure function of the plan. Differences in
// the error text only are counted as a probe (determinism of outputs is C06).
func orderDependent(r *ledger.Runner, from, addr, fn, raw, name string) bool {
	w := r.W
	results := map[string]int{}
	outs := map[string]bool{}
	withHooksOff(w, func() {
		for i := 0; i < screenRuns; i++ {
			sc := scratchCtx(w, r.BC, &transaction.Transaction{ClientID: from, CreationDate: w.Now})
			_, err := scratchExec(w, sc, from, addr, fn, raw)
			if err != nil {
				outs[err.Error()] = true
				results["refused"]++
				if len(results) > 1 {
					break
				}
				continue
			}
			sig := "accepted"
			for i := range records {
				b, gerr := sc.GetState().GetNodeValueRaw(util.Path(encryption.Hash(records[i].key)))
				if gerr != nil {
					b = nil
				}
				sig += fmt.Sprintf("/%x", sim.Hash64(string(b)))
			}
			results[sig]++
			if len(results) > 1 {
				break
			}
		}
	})
	if len(outs) > 1 {
		w.Tr.Probe("refusal_text_depends_on_map_order/" + name)
	}
	if len(results) <= 1 {
		return false
	}
	w.Tr.Fault("order_dependent_call_not_submitted")
	if r.Plan != nil && r.Plan.Prop == "C48" {
		w.Tr.Violate(&sim.Violation{Prop: "C48", Oracle: "order", Sig: fmt.Sprintf("C48/%s/result-depends-on-map-iteration-order", name),
			Detail: fmt.Sprintf("%s with input %s executed repeatedly on the same state is sometimes refused and sometimes accepted, or stores different settings", fn, raw)})
	} else {
		w.Tr.Event("order-dependent %s not submitted", fn)
	}
	return true
}

// ---- oracle ---------------------------------------------------------------------------------------

type oracle48 struct {
	checkedPaths bool
}

func (oc *oracle48) violate(w *ledger.World, oracle, sig, detail string) {
	w.Tr.Violate(&sim.Violation{Prop: "C48", Oracle: oracle, Sig: sig, Detail: detail})
}

// settingsDiff returns the changed settings paths (volatile paths excluded)
// between two raw versions of a record. ok=false when a side does not decode.
func settingsDiff(rc *record, old, new []byte) (paths []string, ok bool) {
	var fo, fn map[string]string
	if old != nil {
		v, err := decodeGeneric(old)
		if err != nil {
			return nil, false
		}
		fo = flatten(v)
	}
	if new != nil {
		v, err := decodeGeneric(new)
		if err != nil {
			return nil, false
		}
		fn = flatten(v)
	}
	seen := map[string]bool{}
	for p, v := range fo {
		if nv, ok := fn[p]; !ok || nv != v {
			seen[p] = true
		}
	}
	for p := range fn {
		if _, ok := fo[p]; !ok {
			seen[p] = true
		}
	}
	for _, p := range sortedKeys(seen) {
		if !rc.volatile(p) {
			paths = append(paths, p)
		}
	}
	return paths, true
}

type inputMap struct {
	Fields map[string]string `json:"fields"`
}

func (oc *oracle48) AfterTxn(w *ledger.World, bc *ledger.BlockCtx, o *ledger.Outcome) {
	t := o.Txn
	if !oc.checkedPaths {
		oc.checkedPaths = true
		oc.selfCheck(w, bc, o)
	}
	changes := o.Changes()
	type chg struct {
		rc       *record
		old, new []byte
		paths    []string
	}
	var changed []chg
	pre := map[string][]byte{} // record key -> bytes before the transaction
	for i := range records {
		rc := &records[i]
		cur := rawRecord(bc, rc.key)
		pre[rc.key] = cur
		c, ok := changes[ledger.PathOf(rc.key)]
		if !ok || bytes.Equal(c.Old, c.New) {
			continue
		}
		pre[rc.key] = c.Old
		paths, dok := settingsDiff(rc, c.Old, c.New)
		if !dok {
			oc.violate(w, "decode", "C48/stored-settings-record-does-not-decode/"+rc.name, fmt.Sprintf("record %s after %s", rc.name, t.FunctionName))
			continue
		}
		changed = append(changed, chg{rc, c.Old, c.New, paths})
	}
	fn := ""
	if t.TransactionType == transaction.TxnTypeSmartContract {
		fn = t.FunctionName
	}
	tg := (*target)(nil)
	if fn != "" {
		tg = targetFor(t.ToClientID, fn)
	}
	isCommit := t.ToClientID == ledger.AddrStorage && fn == "commit_settings_changes"

	// (B) rejected / chargeable: every settings record byte-identical
	if o.Class != ledger.Success {
		for _, c := range changed {
			oc.violate(w, "failed-unchanged", fmt.Sprintf("C48/%s-call-changed-settings/%s/%s", o.Class, c.rc.name, fnSig(fn)),
				fmt.Sprintf("a %s transaction (%s) changed settings record %s: %v", o.Class, fn, c.rc.name, c.paths))
		}
		if tg != nil {
			w.Tr.Probe("governance_call_" + o.Class)
			oc.outputStability(w, bc, o, tg, pre)
		}
		return
	}

	owner := ""
	if tg != nil {
		owner = ownerOf(pre[tg.ownerRec], tg.ownerPath)
	}
	isOwner := tg != nil && owner != "" && t.ClientID == owner

	// (A) who may change which settings record
	for _, c := range changed {
		if len(c.paths) == 0 {
			continue // only counters kept in the same record moved
		}
		switch {
		case tg != nil && isOwner && contains(tg.recs, c.rc.key):
			// checked below
		case isCommit && c.rc.key == keyStorageConf:
			// checked below (applies owner-staged values)
		case t.ToClientID == ledger.AddrMiner && fn == "payFees" && c.rc.key == keyMinerGN && onlyEpochDecline(c.old, c.new, c.paths, bc.B.Round):
			w.Tr.Probe("epoch_decline")
		case tg != nil && !isOwner:
			oc.violate(w, "owner-only", fmt.Sprintf("C48/%s/non-owner-changed-settings/%s", tg.name, c.rc.name),
				fmt.Sprintf("%s by %s (configured owner %s) changed %v", fn, short(t.ClientID), short(owner), c.paths))
		default:
			oc.violate(w, "owner-only", fmt.Sprintf("C48/settings-changed-outside-governance/%s/%s", c.rc.name, fnSig(fn)),
				fmt.Sprintf("transaction type %d function %q by %s changed settings %v of %s", t.TransactionType, fn, short(t.ClientID), c.paths, c.rc.name))
		}
	}

	if isCommit {
		oc.checkCommit(w, bc, o, pre, changed != nil)
		return
	}
	if tg == nil {
		return
	}
	if !isOwner {
		w.Tr.Probe("non_owner_call_succeeded_without_change")
		return
	}

	// (C) accepted change by the owner
	w.Tr.Probe("accepted/" + tg.name)
	var in inputMap
	if err := json.Unmarshal(t.InputData, &in); err != nil {
		oc.violate(w, "accepted-input", fmt.Sprintf("C48/%s/accepted-undecodable-input", tg.name), fmt.Sprintf("input %q: %v", string(t.InputData), err))
		return
	}
	explained := map[string]bool{}
	norm := func(k, v string) (string, string) {
		if tg.trim {
			return strings.TrimSpace(k), strings.TrimSpace(v)
		}
		return k, v
	}
	// the storage contract re-applies everything staged so far together with the new entries
	all := map[string]string{}
	if tg == tgStorage {
		for k, v := range stagedOf(pre[keyStorageStg]) {
			all[k] = v
		}
	}
	for k, v := range in.Fields {
		all[k] = v
	}
	for _, k0 := range sortedKeys(all) {
		k, v := norm(k0, all[k0])
		kind, known := tg.kind(k)
		if !known && strings.HasPrefix(k, "cost.") && (tg == tgMiner || tg == tgStorage) {
			// the cost table of these contracts is keyed by function name: an entry the table already holds is a setting
			if rec, err := decodeGeneric(pre[tg.recs[len(tg.recs)-1]]); err == nil {
				if _, ok := numAt(rec, tg.path(k)); ok {
					kind, known = tCost, true
				}
			}
		}
		if !known {
			oc.violate(w, "accepted-input", fmt.Sprintf("C48/%s/accepted-unknown-key/%s", tg.name, keyClass(k)),
				fmt.Sprintf("update with key %q = %q was accepted", k0, v))
			if strings.HasPrefix(k, "cost.") {
				explained[tg.path(k)] = true // reported once, above
			}
			continue
		}
		explained[tg.path(k)] = true
		if !tg.mutable(k) {
			oc.violate(w, "accepted-input", fmt.Sprintf("C48/%s/accepted-immutable-key/%s", tg.name, k), fmt.Sprintf("immutable setting %q = %q accepted", k, v))
		}
		if !parses(kind, v) {
			oc.violate(w, "accepted-input", fmt.Sprintf("C48/%s/accepted-unparsable-value/%s", tg.name, k), fmt.Sprintf("setting %q = %q accepted", k, v))
		}
	}
	if tg == tgGlobals {
		explained["Version"] = true
	}
	// only the named settings changed
	for _, c := range changed {
		if !contains(tg.recs, c.rc.key) || c.rc.key == keyStorageStg {
			continue
		}
		for _, p := range c.paths {
			if !explained[p] {
				oc.violate(w, "only-named", fmt.Sprintf("C48/%s/unnamed-setting-changed/%s", tg.name, p),
					fmt.Sprintf("%s changed %s, input names %v", fn, p, sortedKeys(all)))
			}
		}
	}
	// the stored result decodes and passes the contract's own validation
	for _, c := range changed {
		if contains(tg.recs, c.rc.key) {
			oc.checkStored(w, bc, tg, c.rc, owner)
		}
	}
	if tg == tgGlobals {
		oc.checkGlobals(w, bc, in.Fields, pre[keyGlobals])
	}
	if tg == tgStorage {
		oc.checkStaged(w, bc, in.Fields, pre[keyStorageStg])
	}
}

func (oc *oracle48) AfterBlock(w *ledger.World, bc *ledger.BlockCtx) {}

func fnSig(fn string) string {
	if fn == "" {
		return "-"
	}
	return fn
}

func keyClass(k string) string {
	if strings.HasPrefix(k, "cost.") {
		return "cost.*"
	}
	return "other"
}

func contains(xs []string, x string) bool {
	for _, y := range xs {
		if y == x {
			return true
		}
	}
	return false
}

func ownerOf(raw []byte, path string) string {
	if raw == nil {
		return ""
	}
	rec, err := decodeGeneric(raw)
	if err != nil {
		return ""
	}
	s, _ := strAt(rec, path)
	return s
}

func stagedOf(raw []byte) map[string]string {
	out := map[string]string{}
	if raw == nil {
		return out
	}
	rec, err := decodeGeneric(raw)
	if err != nil {
		return out
	}
	m, _ := rec.(map[string]any)
	f, _ := m["Fields"].(map[string]any)
	for k, v := range f {
		if s, ok := v.(string); ok {
			out[k] = s
		}
	}
	return out
}

// onlyEpochDecline: payFees may lower reward_rate by the configured decline at an epoch boundary.
func onlyEpochDecline(old, new []byte, paths []string, round int64) bool {
	if len(paths) != 1 || paths[0] != "RewardRate" {
		return false
	}
	ro, e1 := decodeGeneric(old)
	rn, e2 := decodeGeneric(new)
	if e1 != nil || e2 != nil {
		return false
	}
	epoch, _ := numAt(ro, "Epoch")
	rate, _ := numAt(ro, "RewardRate")
	decl, _ := numAt(ro, "RewardDeclineRate")
	nrate, _ := numAt(rn, "RewardRate")
	if epoch <= 0 || round%int64(epoch) != 0 {
		return false
	}
	return nrate == rate*(1.0-decl)
}

// selfCheck (once per run): every known setting resolves to a path of its record.
func (oc *oracle48) selfCheck(w *ledger.World, bc *ledger.BlockCtx, o *ledger.Outcome) {
	for _, tg := range targets {
		if tg == tgGlobals {
			continue
		}
		key := tg.recs[len(tg.recs)-1]
		raw := rawRecord(bc, key)
		if c, ok := o.Changes()[ledger.PathOf(key)]; ok && c.Old != nil {
			raw = c.Old
		}
		if raw == nil {
			panic("gov: settings record of " + tg.name + " is absent")
		}
		rec, err := decodeGeneric(raw)
		if err != nil {
			panic("gov: settings record of " + tg.name + " does not decode: " + err.Error())
		}
		fl := flatten(rec)
		for _, k := range tg.keys {
			p := tg.path(k)
			if _, ok := fl[p]; !ok {
				// cost entries absent from sc.yaml and empty strings are legitimately missing from the flattened record
				if strings.Contains(p, "Cost.") {
					continue
				}
				panic(fmt.Sprintf("gov: setting %s of %s does not resolve (path %s); have %v", k, tg.name, p, sortedKeys(fl)))
			}
		}
		if _, ok := strAt(rec, tg.ownerPath); !ok {
			panic("gov: owner path of " + tg.name + " does not resolve")
		}
	}
}

// checkStored: the stored record decodes with its own Go type and passes the
// contract's own validation.
func (oc *oracle48) checkStored(w *ledger.World, bc *ledger.BlockCtx, tg *target, rc *record, owner string) {
	raw := rawRecord(bc, rc.key)
	if raw == nil {
		oc.violate(w, "stored", fmt.Sprintf("C48/%s/settings-record-deleted", tg.name), "record "+rc.name+" absent after an accepted update")
		return
	}
	if v := w.Reg.NewValue(rc.key); v != nil {
		if rest, err := v.UnmarshalMsg(raw); err != nil || len(rest) != 0 {
			oc.violate(w, "stored", fmt.Sprintf("C48/%s/stored-settings-do-not-decode", tg.name), fmt.Sprintf("record %s: %v", rc.name, err))
			return
		}
	}
	rec, err := decodeGeneric(raw)
	if err != nil {
		oc.violate(w, "stored", fmt.Sprintf("C48/%s/stored-settings-do-not-decode", tg.name), err.Error())
		return
	}
	for p, v := range flatten(rec) {
		if v == "NaN" || v == "+Inf" || v == "-Inf" {
			w.Tr.Probe("non_finite_setting_stored/" + tg.name)
			_ = p
		}
	}
	if rc.key == keyStorageStg {
		return
	}
	// the owner after the update (owner_id itself may have changed)
	newOwner, _ := strAt(rec, tg.ownerPath)
	if msg := validateStored(w, bc, tg, rec, newOwner); msg != "" {
		oc.violate(w, "validation", fmt.Sprintf("C48/%s/accepted-settings-fail-validation", tg.name),
			fmt.Sprintf("stored %s settings after an accepted update fail the contract's validation: %s", tg.name, msg))
	} else {
		w.Tr.Probe("validated/" + tg.name)
	}
}

// validateStored runs the contract's own validation on the stored settings:
// through the contract's real Execute entry point in a scratch context where
// the update path validates (an empty update by the stored owner), by the
// invariants the contract declares for its configuration where no such path
// exists (vesting). Returns "" when valid.
func validateStored(w *ledger.World, bc *ledger.BlockCtx, tg *target, rec any, owner string) (msg string) {
	// the configuration invariants each contract declares, re-checked on the decoded record
	// (independent of the update path, which is the code under test)
	if m := declaredInvariants(tg, rec); m != "" {
		return m
	}
	withHooksOff(w, func() {
		switch tg {
		case tgMiner, tgFaucet, tgZcn:
			sc := scratchCtx(w, bc, &transaction.Transaction{ClientID: owner, CreationDate: w.Now})
			if _, err := scratchExec(w, sc, owner, tg.addr, tg.fn, `{"fields":{}}`); err != nil {
				msg = err.Error()
			}
		case tgStorage:
			// stage a no-op entry (a cost at its current value) and commit: commit validates the whole configuration
			sc := scratchCtx(w, bc, &transaction.Transaction{ClientID: owner, CreationDate: w.Now})
			cur, _ := numAt(rec, "Cost.update_settings")
			if _, err := scratchExec(w, sc, owner, tg.addr, "update_settings", fmt.Sprintf(`{"fields":{"cost.update_settings":"%d"}}`, int64(cur))); err != nil {
				msg = "staging a no-op entry failed: " + err.Error()
				return
			}
			if _, err := scratchExec(w, sc, owner, tg.addr, "commit_settings_changes", `{}`); err != nil {
				msg = err.Error()
			}
		case tgVesting:
			minD, _ := numAt(rec, "MinDuration")
			maxD, _ := numAt(rec, "MaxDuration")
			dst, _ := numAt(rec, "MaxDestinations")
			dl, _ := numAt(rec, "MaxDescriptionLength")
			own, _ := strAt(rec, "OwnerId")
			sec := func(ns float64) int64 { return int64(ns) / 1e9 }
			switch {
			case sec(minD) < 1:
				msg = "invalid min_duration (< 1s)"
			case sec(maxD) <= sec(minD):
				msg = "invalid max_duration: less or equal to min_duration"
			case dst < 1:
				msg = "invalid max_destinations (< 1)"
			case dl < 1:
				msg = "invalid max_description_length (< 1)"
			case own == "":
				msg = "owner_id is not set or empty"
			}
		}
	})
	return msg
}

// declaredInvariants re-checks the invariants a contract declares for its
// configuration (the conditions of its validate function / sc.yaml), read from
// the generic decode of the stored record. "" when they hold.
func declaredInvariants(tg *target, rec any) string {
	n := func(p string) float64 { v, _ := numAt(rec, p); return v }
	switch tg {
	case tgMiner:
		switch {
		case n("MinN") < 1:
			return "min_n is too small"
		case n("MaxN") < n("MinN"):
			return "max_n is less than min_n"
		case n("MinS") < 1:
			return "min_s is too small"
		case n("MaxS") < n("MinS"):
			return "max_s is less than min_s"
		case n("MaxDelegates") <= 0:
			return "max_delegates is too small"
		case n("NumSharderDelegatesRewarded") < 0, n("NumMinerDelegatesRewarded") < 0, n("NumShardersRewarded") < 0:
			return "a rewarded-count setting is negative"
		}
	case tgFaucet:
		c := "FaucetConfig."
		switch {
		case n(c+"PourAmount") < 1:
			return "pour amount is less than 1"
		case n(c+"PourAmount") > n(c+"MaxPourAmount"):
			return "max pour amount is less than pour amount"
		case n(c+"MaxPourAmount") > n(c+"PeriodicLimit"):
			return "periodic limit is less than max pour amount"
		case n(c+"PeriodicLimit") > n(c+"GlobalLimit"):
			return "global limit is less than periodic limit"
		case int64(n(c+"IndividualReset"))/1e9 < 1:
			return "individual reset is too short"
		case n(c+"GlobalReset") < n(c+"IndividualReset"):
			return "global reset is less than individual reset"
		}
	case tgZcn:
		c := "ZCNSConfig."
		own, _ := strAt(rec, c+"OwnerId")
		switch {
		case n(c+"MinStakeAmount") < 1, n(c+"MaxStakeAmount") < 1, n(c+"MinMintAmount") < 1, n(c+"MaxFee") < 1, n(c+"MinAuthorizers") < 1, n(c+"MinBurnAmount") < 1:
			return "an amount or count of the bridge configuration is less than 1"
		case n(c+"PercentAuthorizers") < 0:
			return "percent_authorizers is negative"
		case own == "":
			return "owner id is empty"
		case n(c+"MaxDelegates") <= 0, n(c+"HealthCheckPeriod") <= 0:
			return "max_delegates / health_check_period not positive"
		}
	}
	return ""
}

// checkCommit: commit_settings_changes (callable by anyone) may only apply
// what the owner staged, and the result must pass validation.
func (oc *oracle48) checkCommit(w *ledger.World, bc *ledger.BlockCtx, o *ledger.Outcome, pre map[string][]byte, any bool) {
	staged := stagedOf(pre[keyStorageStg])
	explained := map[string]bool{}
	for k := range staged {
		k = strings.TrimSpace(k)
		if _, ok := tgStorage.kind(k); ok || strings.HasPrefix(k, "cost.") {
			explained[tgStorage.path(k)] = true // unknown cost.* keys are reported when they are staged
		}
	}
	owner := ownerOf(pre[keyStorageConf], "OwnerId")
	if o.Txn.ClientID != owner {
		w.Tr.Probe("commit_by_non_owner")
	}
	c, ok := o.Changes()[ledger.PathOf(keyStorageConf)]
	if !ok {
		return
	}
	paths, dok := settingsDiff(recordByKey(keyStorageConf), c.Old, c.New)
	if !dok {
		return
	}
	for _, p := range paths {
		if !explained[p] {
			oc.violate(w, "only-named", "C48/storage/commit-changed-unstaged-setting/"+p, fmt.Sprintf("commit changed %s, staged %v", p, sortedKeys(staged)))
		}
	}
	if len(paths) > 0 {
		w.Tr.Probe("accepted/storage-commit")
		oc.checkStored(w, bc, tgStorage, recordByKey(keyStorageConf), owner)
	}
}

// checkGlobals: after an accepted update_globals every stored field parses
// as its declared type, only named mutable fields changed, version advanced by one.
func (oc *oracle48) checkGlobals(w *ledger.World, bc *ledger.BlockCtx, in map[string]string, preRaw []byte) {
	raw := rawRecord(bc, keyGlobals)
	rec, err := decodeGeneric(raw)
	if err != nil {
		return
	}
	m, _ := rec.(map[string]any)
	f, _ := m["Fields"].(map[string]any)
	for _, k := range sortedKeys(f) {
		kind, known := tgGlobals.kind(k)
		v, _ := f[k].(string)
		if !known {
			oc.violate(w, "stored", "C48/globals/stored-unknown-field", "stored global field "+k)
			continue
		}
		if _, named := in[k]; named && !parses(kind, v) {
			oc.violate(w, "stored", "C48/globals/stored-value-does-not-parse/"+k, fmt.Sprintf("%s = %q", k, v))
		}
		if nv, named := in[k]; named && nv != v {
			oc.violate(w, "stored", "C48/globals/stored-value-differs-from-input/"+k, fmt.Sprintf("%s: input %q stored %q", k, nv, v))
		}
	}
	if preRaw != nil {
		po, err := decodeGeneric(preRaw)
		if err == nil {
			ov, _ := numAt(po, "Version")
			nv, _ := numAt(rec, "Version")
			if nv != ov+1 {
				oc.violate(w, "stored", "C48/globals/version-not-advanced-by-one", fmt.Sprintf("version %v -> %v", ov, nv))
			}
		}
	}
}

// checkStaged: after an accepted storage update the staged map is the old one plus the input.
func (oc *oracle48) checkStaged(w *ledger.World, bc *ledger.BlockCtx, in map[string]string, preRaw []byte) {
	if len(in) == 0 {
		return
	}
	want := stagedOf(preRaw)
	for k, v := range in {
		want[k] = v
	}
	got := stagedOf(rawRecord(bc, keyStorageStg))
	if len(got) != len(want) {
		oc.violate(w, "stored", "C48/storage/staged-changes-differ-from-input", fmt.Sprintf("staged %v want %v", sortedKeys(got), sortedKeys(want)))
		return
	}
	for k, v := range want {
		if got[k] != v {
			oc.violate(w, "stored", "C48/storage/staged-changes-differ-from-input", fmt.Sprintf("staged[%q]=%q want %q", k, got[k], v))
			return
		}
	}
}

// outputStability re-executes a refused governance call a few times in scratch
// contexts: when several entries are invalid the error text may depend on Go's
// map iteration order. Reported as a probe only (determinism is C06's claim).
func (oc *oracle48) outputStability(w *ledger.World, bc *ledger.BlockCtx, o *ledger.Outcome, tg *target, pre map[string][]byte) {
	var in inputMap
	if json.Unmarshal(o.Txn.InputData, &in) != nil || len(in.Fields) < 2 || o.Class != ledger.Chargeable {
		return
	}
	outs := map[string]bool{o.Txn.TransactionOutput: true}
	withHooksOff(w, func() {
		for i := 0; i < 6; i++ {
			sc := scratchCtx(w, bc, &transaction.Transaction{ClientID: o.Txn.ClientID, CreationDate: w.Now})
			_, err := scratchExec(w, sc, o.Txn.ClientID, tg.addr, tg.fn, string(o.Txn.InputData))
			if err != nil {
				outs[err.Error()] = true
			}
		}
	})
	if len(outs) > 1 {
		w.Tr.Probe("refusal_output_depends_on_map_order/" + tg.name)
	}
}
