package gov

import (
	"context"
	"fmt"
	"math"
	"sort"

	"0chain.net/chaincore/block"
	cstate "0chain.net/chaincore/chain/state"
	"0chain.net/chaincore/node"
	"0chain.net/chaincore/threshold/bls"
	"0chain.net/chaincore/transaction"
	"0chain.net/core/encryption"
	"0chain.net/smartcontract/minersc"
	"github.com/0chain/common/core/util"

	"verif/sim"
	"verif/worlds/ledger"
)

// ---- plan generation ------------------------------------------------------------------------------

var phaseCfg = []string{"pr_start", "pr_contribute", "pr_share", "pr_publish", "pr_wait"}

func sumPhases(p *sim.Plan) int64 {
	var s int64
	for _, k := range phaseCfg {
		s += p.CfgInt(k, 2)
	}
	return s
}

// genVC generates a view-change history. sel biases it towards selections
// with more candidates than slots and tied stakes (C39).
func genVC(sel bool) func(r *sim.RNG, p *sim.Plan, tier string) {
	return func(r *sim.RNG, p *sim.Plan, tier string) {
		honest := r.Bool(0.35)
		if sel {
			honest = r.Bool(0.8)
		}
		miners := r.Range(3, 6)
		sharders := r.Range(1, 3)
		if sel {
			miners = r.Range(4, 7)
			sharders = r.Range(2, 4)
		}
		p.Cfg["view_change"] = 1
		p.Cfg["ed25519"] = 0 // the world's nodes hold bls0chain keys; the contract verifies their DKG acknowledgements with the chain's scheme
		p.Cfg["miners"] = int64(miners)
		p.Cfg["sharders"] = int64(sharders)
		p.Cfg["clients"] = int64(r.Range(2, 3))
		p.Cfg["funding"] = 1e13
		hi := 3
		if tier == "thorough" {
			hi = 5
		}
		for _, k := range phaseCfg {
			p.Cfg[k] = int64(r.Range(1, hi))
		}
		if honest {
			p.Cfg["honest"] = 1
			p.Steps = nil // no base steps: the liveness bound counts rounds
		} else if r.Bool(0.25) {
			p.Cfg["mute_mask"] = 1 << uint(r.Intn(miners))
		}
		// previous set smaller than the candidate set: the first k miners are the previous magic block,
		// the others newcomers with MORE stake, and more newcomers than slots
		prevK := 0
		if miners >= 4 && r.Bool(0.4) {
			prevK = r.Range(1, miners-2)
			p.Cfg["prev_subset"] = int64(prevK)
		}
		var steps []sim.Step
		// settings of the miner contract through the real update_settings
		minN := r.Range(1, miners)
		maxN := r.Range(minN, miners+1)
		maxS := r.Range(1, sharders)
		if sel {
			minN = r.Range(1, 3)
			maxN = r.Range(max(minN, 2), miners)
			maxS = r.Range(1, max(1, sharders-1))
		}
		if honest && !sel {
			minN = r.Range(1, miners)
			maxN = r.Range(max(minN, (miners+1)/2), miners+1)
		}
		if prevK > 0 {
			maxN = r.Range(1, miners-prevK)
			minN = r.Range(1, maxN)
		}
		pct := []string{"0.5", "0.66", "0.75", "1"}
		xp := []string{"0.3", "0.5", "0.7", "1"}
		steps = append(steps, sim.Step{Op: "gov.set", A: 0, I: []int64{0, 0, 2, 0}, S: []string{
			"min_n", fmt.Sprint(minN), "max_n", fmt.Sprint(maxN), "min_s", "1", "max_s", fmt.Sprint(maxS),
			"t_percent", pct[r.Intn(4)], "k_percent", pct[r.Intn(4)], "x_percent", xp[r.Intn(4)], "max_stake", "20000"}})
		// registrations
		for i := 0; i < miners; i++ {
			if !honest && r.Bool(0.08) {
				continue
			}
			v := int64(0)
			if !honest && r.Bool(0.1) {
				v = int64(1 + r.Intn(2))
			}
			steps = append(steps, sim.Step{Op: "vc.register", A: r.Intn(8), I: []int64{0, int64(i), v}})
		}
		for i := 0; i < sharders; i++ {
			if !honest && r.Bool(0.08) {
				continue
			}
			steps = append(steps, sim.Step{Op: "vc.register", A: r.Intn(8), I: []int64{1, int64(i), 0}})
		}
		// stakes (few distinct amounts: ties are the interesting case)
		ns := r.Range(0, 4)
		if sel {
			ns = r.Range(0, miners+sharders+2)
		}
		for i := 0; i < ns; i++ {
			steps = append(steps, sim.Step{Op: "vc.stake", A: r.Intn(3), I: []int64{int64(r.Intn(2)), int64(r.Intn(8)), int64([]int{1, 1, 2, 2, 3, 5}[r.Intn(6)])}})
		}
		if prevK > 0 {
			for i := prevK; i < miners; i++ {
				steps = append(steps, sim.Step{Op: "vc.stake", A: r.Intn(3), I: []int64{0, int64(i), int64([]int{2, 3, 3, 5}[r.Intn(4)])}})
			}
			if r.Bool(0.5) {
				steps = append(steps, sim.Step{Op: "vc.stake", A: r.Intn(3), I: []int64{0, int64(r.Intn(prevK)), 1}})
			}
		}
		cycles := 1
		if r.Bool(0.3) {
			cycles = 2
		}
		rounds := int(sumPhases(p))*cycles + int(p.CfgInt("pr_start", 2)) + 3
		if !honest {
			rounds += r.Range(0, int(sumPhases(p)))
		}
		var rs []sim.Step
		for i := 0; i < rounds; i++ {
			st := sim.Step{Op: "vc.round", I: []int64{0, int64(r.Intn(8)), int64(r.Intn(64)), int64(r.Intn(4) / 3)}}
			if !honest && r.Bool(0.3) {
				st.I[0] = int64(1 + r.Intn(fKinds-2)) // fSosUnknownID only through cfg crash_sos
			}
			rs = append(rs, st)
		}
		if !honest {
			// late registrations / stakes in the middle of the DKG
			for i := 0; i < r.Range(0, 3); i++ {
				rs = append(rs, sim.Step{Op: "vc.register", A: r.Intn(8), I: []int64{int64(r.Intn(2)), int64(r.Intn(8)), int64(r.Intn(3))}})
			}
			r.Shuffle(len(rs), func(i, j int) { rs[i], rs[j] = rs[j], rs[i] })
		}
		if honest {
			p.Steps = append(steps, rs...)
		} else {
			p.Steps = append(steps, interleave(r, rs, p.Steps)...) // base steps (random calls, plain blocks) between the rounds
		}
	}
}

// ---- oracle ---------------------------------------------------------------------------------------

type oracle38 struct {
	prop        string // "C38" or "C39": which property this run reports under
	known       bool
	phase       minersc.Phase
	restarts    int64
	entered     int64
	prevMB      *block.MagicBlock
	firstMB     int64
	mbs         int
	mbRounds    []int64 // rounds at which a magic block was created
	cycleStarts []int64 // rounds at which Wait -> Start was taken (a new cycle begins)
}

func (oc *oracle38) violate(w *ledger.World, oracle, sig, detail string) {
	if oc.prop != "C38" {
		return
	}
	w.Tr.Violate(&sim.Violation{Prop: "C38", Oracle: oracle, Sig: sig, Detail: detail})
}

// preReader decodes records as they were before the transaction.
type preReader struct {
	bc *ledger.BlockCtx
	ch map[string]ledger.LeafChange
}

func (p preReader) GetTrieNode(key string, v util.MPTSerializable) error {
	raw := rawRecord(p.bc, key)
	if c, ok := p.ch[ledger.PathOf(key)]; ok {
		raw = c.Old
	}
	if raw == nil {
		return util.ErrValueNotPresent
	}
	_, err := v.UnmarshalMsg(raw)
	return err
}

type postReader struct{ bc *ledger.BlockCtx }

func (p postReader) GetTrieNode(key string, v util.MPTSerializable) error {
	raw := rawRecord(p.bc, key)
	if raw == nil {
		return util.ErrValueNotPresent
	}
	_, err := v.UnmarshalMsg(raw)
	return err
}

// poolKeys lists the node ids of a pool. A pool decoded from the trie (msgp)
// only fills its Nodes slice, a pool built with AddNode fills both.
func poolKeys(p *node.Pool) []string {
	if p == nil {
		return nil
	}
	seen := map[string]bool{}
	for _, n := range p.CopyNodes() {
		seen[n.GetKey()] = true
	}
	for _, k := range p.Keys() {
		seen[k] = true
	}
	return sortedKeys(seen)
}

func nextPhase(p minersc.Phase) minersc.Phase {
	if p >= minersc.Wait {
		return minersc.Start
	}
	return p + 1
}

func changed(ch map[string]ledger.LeafChange, key string) bool {
	_, ok := ch[ledger.PathOf(key)]
	return ok
}

func (oc *oracle38) AfterTxn(w *ledger.World, bc *ledger.BlockCtx, o *ledger.Outcome) {
	t := o.Txn
	ch := o.Changes()
	isMiner := t.TransactionType == transaction.TxnTypeSmartContract && t.ToClientID == ledger.AddrMiner
	fn := ""
	if isMiner {
		fn = t.FunctionName
	}
	ok := o.Class == ledger.Success
	// the phase record moves only inside the generator's payFees
	if changed(ch, minersc.PhaseKey) && !(ok && fn == "payFees") {
		oc.violate(w, "phase", "C38/phase-record-changed-outside-payFees/"+fnSig(fn), fmt.Sprintf("%s (%s) changed the phase record", fn, o.Class))
	}
	for _, k := range []struct{ key, name, by string }{{minersc.MinersMPKKey, "mpks", "contributeMpk"}, {minersc.GroupShareOrSignsKey, "shares", "shareSignsOrShares"}} {
		if changed(ch, k.key) && !(ok && (fn == "payFees" || fn == k.by)) {
			oc.violate(w, "dkg", fmt.Sprintf("C38/%s-record-changed-by/%s", k.name, fnSig(fn)), fmt.Sprintf("%s (%s) changed the %s record", fn, o.Class, k.name))
		}
	}
	if !ok || !isMiner {
		return
	}
	pre := readVC(preReader{bc, ch})
	post := readVC(postReader{bc})
	switch fn {
	case "contributeMpk":
		oc.checkMpk(w, t, pre, post)
	case "shareSignsOrShares":
		oc.checkSos(w, t, pre, post)
	case "wait":
		if phaseOf(pre) != minersc.Wait {
			oc.violate(w, "dkg", "C38/wait-accepted-out-of-phase/"+phaseOf(pre).String(), "wait accepted in phase "+phaseOf(pre).String())
		}
		if pre.dmn.Waited[t.ClientID] {
			oc.violate(w, "dkg", "C38/wait-accepted-twice", "second wait of "+short(t.ClientID)+" accepted")
		}
		if _, in := pre.dmn.SimpleNodes[t.ClientID]; !in {
			w.Tr.Probe("wait_accepted_from_non_participant")
		} else {
			w.Tr.Probe("wait_accepted")
		}
	case "sharder_keep":
		if phaseOf(pre) != minersc.Contribute {
			oc.violate(w, "dkg", "C38/sharder_keep-accepted-out-of-phase/"+phaseOf(pre).String(), "")
		}
	case "payFees":
		oc.checkPhase(w, bc, pre, post, ch)
	}
}

func (oc *oracle38) checkMpk(w *ledger.World, t *transaction.Transaction, pre, post *vcView) {
	s := t.ClientID
	if phaseOf(pre) != minersc.Contribute {
		oc.violate(w, "dkg", "C38/contributeMpk-accepted/out-of-phase/"+phaseOf(pre).String(), "mpk of "+short(s)+" accepted in phase "+phaseOf(pre).String())
	}
	if _, in := pre.dmn.SimpleNodes[s]; !in {
		oc.violate(w, "dkg", "C38/contributeMpk-accepted/non-participating-sender", "sender "+short(s)+" is not in the DKG miners list")
	}
	if _, dup := pre.mpks.Mpks[s]; dup {
		oc.violate(w, "dkg", "C38/contributeMpk-accepted/second-from-same-miner", "miner "+short(s)+" already had an mpk")
	}
	// exactly one new entry, keyed by the sender
	var added []string
	for id, m := range post.mpks.Mpks {
		old, had := pre.mpks.Mpks[id]
		if !had {
			added = append(added, id)
		} else if fmt.Sprint(old.Mpk) != fmt.Sprint(m.Mpk) {
			oc.violate(w, "dkg", "C38/contributeMpk-accepted/overwrote-another-entry", "entry "+short(id)+" changed by a contribution of "+short(s))
		}
	}
	sort.Strings(added)
	if len(added) != 1 || added[0] != s {
		sig := "C38/contributeMpk-accepted/stored-under-foreign-id"
		if len(added) == 0 {
			sig = "C38/contributeMpk-accepted/nothing-stored"
		}
		ids := ""
		for _, a := range added {
			ids += short(a) + " "
		}
		oc.violate(w, "dkg", sig, fmt.Sprintf("contribution sent by %s stored under [%s]", short(s), ids))
		w.Tr.Probe("mpk_accepted")
		return
	}
	m := post.mpks.Mpks[s]
	if len(m.Mpk) != pre.dmn.T {
		oc.violate(w, "dkg", "C38/contributeMpk-accepted/wrong-size", fmt.Sprintf("mpk of size %d accepted, T = %d", len(m.Mpk), pre.dmn.T))
	}
	if _, err := bls.ConvertStringToMpk(m.Mpk); err != nil {
		oc.violate(w, "dkg", "C38/contributeMpk-accepted/invalid-content", fmt.Sprintf("mpk of %s holds an element that is not a public key: %v", short(s), err))
	}
	w.Tr.Probe("mpk_accepted")
}

func (oc *oracle38) checkSos(w *ledger.World, t *transaction.Transaction, pre, post *vcView) {
	s := t.ClientID
	if phaseOf(pre) != minersc.Publish {
		oc.violate(w, "dkg", "C38/shareSignsOrShares-accepted/out-of-phase/"+phaseOf(pre).String(), "shares of "+short(s)+" accepted in phase "+phaseOf(pre).String())
	}
	_, member := pre.dmn.SimpleNodes[s]
	_, hasMpk := pre.mpks.Mpks[s]
	if !member || !hasMpk {
		oc.violate(w, "dkg", "C38/shareSignsOrShares-accepted/non-participating-sender", fmt.Sprintf("sender %s: in DKG list %v, has mpk %v", short(s), member, hasMpk))
	}
	if _, dup := pre.gsos.Shares[s]; dup {
		oc.violate(w, "dkg", "C38/shareSignsOrShares-accepted/second-from-same-miner", "miner "+short(s)+" already published")
	}
	e, stored := post.gsos.Shares[s]
	if !stored || len(post.gsos.Shares) != len(pre.gsos.Shares)+1 {
		oc.violate(w, "dkg", "C38/shareSignsOrShares-accepted/not-stored-under-sender", "")
		return
	}
	w.Tr.Probe("sos_accepted")
	if !member || !hasMpk {
		return
	}
	// content: one valid entry per other participating miner, at least K-1 of them
	mine, err := bls.ConvertStringToMpk(pre.mpks.Mpks[s].Mpk)
	valid := 0
	for _, k := range sortedKeys(e.ShareOrSigns) {
		ks := e.ShareOrSigns[k]
		peer, isPeer := pre.dmn.SimpleNodes[k]
		if !isPeer || k == s || ks == nil {
			continue
		}
		if ks.Sign != "" {
			ss := encryption.NewBLS0ChainScheme()
			if ss.SetPublicKey(peer.PublicKey) == nil {
				if good, verr := ss.Verify(ks.Sign, ks.Message); good && verr == nil {
					valid++
					w.Tr.Probe("sos_entry_signed")
					continue
				}
			}
			oc.violate(w, "dkg", "C38/shareSignsOrShares-accepted/invalid-signature-entry", "entry for "+short(k))
			continue
		}
		var sij bls.Key
		if err == nil && sij.SetHexString(ks.Share) == nil && bls.ValidateShare(mine, sij, bls.ComputeIDdkg(k)) {
			valid++
			w.Tr.Probe("sos_entry_revealed_share")
			continue
		}
		oc.violate(w, "dkg", "C38/shareSignsOrShares-accepted/invalid-share-entry", "revealed share for "+short(k)+" does not match the sender's mpk")
	}
	if valid < pre.dmn.K-1 {
		oc.violate(w, "dkg", "C38/shareSignsOrShares-accepted/too-few-valid-entries", fmt.Sprintf("%d valid entries for other participating miners, K-1 = %d", valid, pre.dmn.K-1))
	}
}

func (oc *oracle38) checkPhase(w *ledger.World, bc *ledger.BlockCtx, pre, post *vcView, ch map[string]ledger.LeafChange) {
	if post.phase == nil {
		return
	}
	round := bc.B.Round
	to := post.phase.Phase
	if !oc.known {
		oc.known = true
		oc.phase, oc.restarts, oc.entered = to, post.phase.Restarts, round
		if to != minersc.Start {
			oc.violate(w, "phase", "C38/first-phase-not-start", "first recorded phase is "+to.String())
		}
		return
	}
	from := oc.phase
	moved := to != from || post.phase.Restarts != oc.restarts
	pr := minersc.PhaseRounds[from]
	elapsed := round - oc.entered
	w.Tr.Event("phase round=%d %s->%s restarts=%d elapsed=%d", round, from, to, post.phase.Restarts, elapsed)
	if !(to == from || to == nextPhase(from) || to == minersc.Start) {
		oc.violate(w, "phase", fmt.Sprintf("C38/illegal-phase-transition/%s-%s", from, to), fmt.Sprintf("round %d", round))
	}
	if moved && elapsed < pr {
		oc.violate(w, "phase", "C38/phase-left-early/"+from.String(), fmt.Sprintf("%s left after %d rounds, configured %d (to %s)", from, elapsed, pr, to))
	}
	if !moved && elapsed >= pr {
		oc.violate(w, "phase", "C38/phase-not-left-on-schedule/"+from.String(), fmt.Sprintf("%s still running after %d rounds, configured %d", from, elapsed, pr))
	}
	if !moved {
		return
	}
	advance := to == nextPhase(from) && !(from != minersc.Wait && to == minersc.Start)
	if advance {
		w.Tr.Probe("advance/" + from.String())
		switch from {
		case minersc.Contribute, minersc.Share:
			if len(post.mpks.Mpks) == 0 || len(post.mpks.Mpks) < post.dmn.K {
				oc.violate(w, "phase", "C38/advanced-without-condition/"+from.String(), fmt.Sprintf("%d mpks, K = %d", len(post.mpks.Mpks), post.dmn.K))
			}
		case minersc.Publish:
			if len(pre.gsos.Shares) < pre.dmn.K {
				oc.violate(w, "phase", "C38/advanced-without-condition/publish", fmt.Sprintf("%d share sets, K = %d", len(pre.gsos.Shares), pre.dmn.K))
			}
			if !changed(ch, minersc.MagicBlockKey) || post.mb == nil {
				oc.violate(w, "phase", "C38/wait-entered-without-magic-block", "")
			} else {
				oc.checkMagicBlock(w, round, post.mb)
			}
		}
	} else {
		w.Tr.Probe("restart/" + from.String())
		if len(post.mpks.Mpks) != 0 || len(post.gsos.Shares) != 0 || len(post.dmn.SimpleNodes) != 0 {
			oc.violate(w, "phase", "C38/restart-kept-dkg-data", fmt.Sprintf("after a restart: %d mpks, %d share sets, %d dkg miners", len(post.mpks.Mpks), len(post.gsos.Shares), len(post.dmn.SimpleNodes)))
		}
	}
	if from == minersc.Wait && to == minersc.Start {
		oc.restarts = post.phase.Restarts
		oc.cycleStarts = append(oc.cycleStarts, round)
	}
	oc.phase, oc.restarts, oc.entered = to, post.phase.Restarts, round
}

func (oc *oracle38) checkMagicBlock(w *ledger.World, round int64, mb *block.MagicBlock) {
	w.Tr.Probe("magic_block_created")
	oc.mbs++
	oc.mbRounds = append(oc.mbRounds, round)
	if oc.firstMB == 0 {
		oc.firstMB = round
	}
	prev := oc.prevMB
	if prev == nil {
		return
	}
	common := func(a, b []string) int {
		n := 0
		for _, x := range a {
			for _, y := range b {
				if x == y {
					n++
				}
			}
		}
		return n
	}
	if common(poolKeys(mb.Miners), poolKeys(prev.Miners)) < 1 {
		oc.violate(w, "magic-block", "C38/magic-block-shares-no-miner-with-previous", fmt.Sprintf("miners %d, previous %d", len(poolKeys(mb.Miners)), len(poolKeys(prev.Miners))))
	}
	if common(poolKeys(mb.Sharders), poolKeys(prev.Sharders)) < 1 {
		oc.violate(w, "magic-block", "C38/magic-block-shares-no-sharder-with-previous", fmt.Sprintf("sharders %d, previous %d", len(poolKeys(mb.Sharders)), len(poolKeys(prev.Sharders))))
	}
	if mb.StartingRound != round+minersc.PhaseRounds[minersc.Wait] {
		oc.violate(w, "magic-block", "C38/magic-block-starting-round", fmt.Sprintf("starting round %d, created at %d, wait %d", mb.StartingRound, round, minersc.PhaseRounds[minersc.Wait]))
	}
}

func (oc *oracle38) AfterBlock(w *ledger.World, bc *ledger.BlockCtx) {
	if bc.B.MagicBlock != nil {
		w.Tr.Probe("view_change_block")
		w.Tr.Event("view change at round %d: %d miners %d sharders", bc.B.Round, len(poolKeys(bc.B.MagicBlock.Miners)), len(poolKeys(bc.B.MagicBlock.Sharders)))
	}
}

// ---- C39: selection -------------------------------------------------------------------------------

type selection struct {
	kind   string // "miners" / "sharders"
	cands  map[string]uint64
	prev   map[string]bool
	limit  int
	xPct   float64
	result map[string]bool
}

// checkSelection is the reference of DESIGN appendix A.6. It returns the tie
// group at the cut-off and the number of slots left for it.
func checkSelection(s *selection, violate func(sig, detail string)) (ties []string, slots int) {
	n := min(s.limit, len(s.cands))
	if len(s.result) != n {
		violate("C39/"+s.kind+"/wrong-size", fmt.Sprintf("selected %d of %d candidates, limit %d", len(s.result), len(s.cands), s.limit))
		return nil, 0
	}
	for id := range s.result {
		if _, ok := s.cands[id]; !ok {
			violate("C39/"+s.kind+"/selected-non-candidate", short(id))
			return nil, 0
		}
	}
	var prevC []string
	for id := range s.cands {
		if s.prev[id] {
			prevC = append(prevC, id)
		}
	}
	x := min(len(prevC), int(math.Ceil(s.xPct*float64(n))))
	// the x previous-set members: the highest-stake ones among those selected
	var prevSel []string
	for _, id := range prevC {
		if s.result[id] {
			prevSel = append(prevSel, id)
		}
	}
	sort.Slice(prevSel, func(i, j int) bool {
		if s.cands[prevSel[i]] != s.cands[prevSel[j]] {
			return s.cands[prevSel[i]] > s.cands[prevSel[j]]
		}
		return prevSel[i] < prevSel[j]
	})
	if len(prevSel) < x {
		violate("C39/"+s.kind+"/too-few-previous-members", fmt.Sprintf("%d previous-set members selected, %d required", len(prevSel), x))
		return nil, 0
	}
	P := map[string]bool{}
	minP := uint64(math.MaxUint64)
	for _, id := range prevSel[:x] {
		P[id] = true
		if s.cands[id] < minP {
			minP = s.cands[id]
		}
	}
	for _, id := range prevC {
		if !P[id] && x > 0 && s.cands[id] > minP {
			violate("C39/"+s.kind+"/previous-member-with-higher-stake-left-out", fmt.Sprintf("%s stake %d > %d", short(id), s.cands[id], minP))
			return nil, 0
		}
	}
	// the rest by stake
	var rest []string
	for id := range s.cands {
		if !P[id] {
			rest = append(rest, id)
		}
	}
	y := n - x
	if y <= 0 || len(rest) <= y {
		return nil, 0
	}
	sort.Slice(rest, func(i, j int) bool {
		if s.cands[rest[i]] != s.cands[rest[j]] {
			return s.cands[rest[i]] > s.cands[rest[j]]
		}
		return rest[i] < rest[j]
	})
	c := s.cands[rest[y-1]]
	above := 0
	for _, id := range rest {
		st := s.cands[id]
		switch {
		case st > c:
			above++
			if !s.result[id] {
				violate("C39/"+s.kind+"/higher-stake-left-out", fmt.Sprintf("%s stake %d above the cut-off %d", short(id), st, c))
			}
		case st < c:
			if s.result[id] {
				violate("C39/"+s.kind+"/lower-stake-selected", fmt.Sprintf("%s stake %d below the cut-off %d", short(id), st, c))
			}
		default:
			ties = append(ties, id)
		}
	}
	sort.Strings(ties)
	return ties, y - above
}

// selectionsOf extracts the two selections (miners, sharders) made by the
// payFees that created a magic block: candidates from the state before,
// result from the magic block after.
func selectionsOf(w *ledger.World, pre *vcView, mb *block.MagicBlock, sharderStake func(id string) uint64) []*selection {
	if pre.gn == nil || mb == nil {
		return nil
	}
	lf := w.C.GetLatestFinalizedMagicBlock(context.Background())
	prevM, prevS := map[string]bool{}, map[string]bool{}
	if lf != nil && lf.MagicBlock != nil {
		for _, k := range poolKeys(lf.MagicBlock.Miners) {
			prevM[k] = true
		}
		for _, k := range poolKeys(lf.MagicBlock.Sharders) {
			prevS[k] = true
		}
	}
	var out []*selection
	ms := &selection{kind: "miners", cands: map[string]uint64{}, prev: prevM, limit: pre.gn.MaxN, xPct: pre.gn.XPercent, result: map[string]bool{}}
	for id, sn := range pre.dmn.SimpleNodes {
		if _, hasMpk := pre.mpks.Mpks[id]; hasMpk {
			if _, shared := pre.gsos.Shares[id]; !shared {
				continue // contributed but never published: dropped before the selection
			}
		}
		ms.cands[id] = uint64(sn.TotalStaked)
	}
	for _, k := range poolKeys(mb.Miners) {
		ms.result[k] = true
	}
	out = append(out, ms)
	if len(pre.keep) > 0 {
		ss := &selection{kind: "sharders", cands: map[string]uint64{}, prev: prevS, limit: pre.gn.MaxS, xPct: pre.gn.XPercent, result: map[string]bool{}}
		for _, id := range pre.keep {
			ss.cands[id] = sharderStake(id)
		}
		for _, k := range poolKeys(mb.Sharders) {
			ss.result[k] = true
		}
		out = append(out, ss)
	}
	return out
}

// oracle39 checks every selection of the run against A.6 (after the real
// payFees) and runs the seed sweep (before it, on scratch forks of the state).
type oracle39 struct {
	w *ledger.World
	r *ledger.Runner
}

func (oc *oracle39) violate(sig, detail string) {
	oc.w.Tr.Violate(&sim.Violation{Prop: "C39", Oracle: "selection", Sig: sig, Detail: detail})
}

func (oc *oracle39) AfterBlock(w *ledger.World, bc *ledger.BlockCtx) {}

func (oc *oracle39) AfterTxn(w *ledger.World, bc *ledger.BlockCtx, o *ledger.Outcome) {
	t := o.Txn
	if o.Class != ledger.Success || t.TransactionType != transaction.TxnTypeSmartContract || t.ToClientID != ledger.AddrMiner || t.FunctionName != "payFees" {
		return
	}
	ch := o.Changes()
	if !changed(ch, minersc.MagicBlockKey) {
		return
	}
	pr := preReader{bc, ch}
	pre := readVC(pr)
	post := readVC(postReader{bc})
	if post.mb == nil {
		return
	}
	stake := func(id string) uint64 {
		mn := minersc.NewMinerNode()
		mn.ID = id
		if pr.GetTrieNode(mn.GetKey(), mn) != nil {
			return 0
		}
		return uint64(mn.TotalStaked)
	}
	for _, s := range selectionsOf(w, pre, post.mb, stake) {
		w.Tr.Probe("selection/" + s.kind)
		if len(s.cands) > s.limit {
			w.Tr.Probe("selection_with_more_candidates_than_slots/" + s.kind)
		}
		ties, slots := checkSelection(s, oc.violate)
		if len(ties) > slots && slots >= 0 && len(ties) > 0 {
			w.Tr.Probe("tie_at_selection_cut_off/" + s.kind)
		}
		w.Tr.Event("selection %s cands=%d limit=%d result=%d ties=%d slots=%d", s.kind, len(s.cands), s.limit, len(s.result), len(ties), slots)
	}
}

// sweep runs before the generator's payFees: it executes the same payFees on
// scratch forks of the current state; when that creates a magic block and the
// cut-off stake is shared by more candidates than slots are left, the fork is
// repeated under S different round seeds of the latest finalized magic block
// (the only seed the selection uses), S chosen so that (slots/ties)^S < 1e-12.
func (oc *oracle39) sweep(from string, round int64) (abort bool) {
	w, r := oc.w, oc.r
	raw := fmt.Sprintf(`{"round":%d}`, round)
	lf := w.C.GetLatestFinalizedMagicBlock(context.Background())
	if lf == nil {
		return
	}
	run := func(seed int64, useSeed bool) (*vcView, bool) {
		txn := &transaction.Transaction{ClientID: from, CreationDate: w.Now}
		sc := scratchCtx(w, r.BC, txn)
		if useSeed {
			nb := block.NewBlock(w.C.GetKey(), lf.Round)
			nb.MagicBlock = lf.MagicBlock
			nb.Hash = lf.Hash
			nb.SetRoundRandomSeed(seed)
			sc = cstate.NewStateContext(r.BC.B, sc.GetState(), txn, w.C.GetMagicBlock, func() *block.Block { return nb },
				w.C.GetCurrentMagicBlock, w.C.GetSignatureScheme, w.C.GetLatestFinalizedBlock, nil)
		}
		savedMB := r.BC.B.MagicBlock
		_, err := scratchExec(w, sc, from, ledger.AddrMiner, "payFees", raw)
		r.BC.B.MagicBlock = savedMB // SetMagicBlock writes into the block object
		if err != nil {
			return nil, false
		}
		return readVC(sc), true
	}
	withHooksOff(w, func() {
		pre := readVC(scratchCtx(w, r.BC, &transaction.Transaction{ClientID: from, CreationDate: w.Now}))
		if phaseOf(pre) != minersc.Publish {
			return
		}
		first, ok := run(0, false)
		if !ok || first.mb == nil || (pre.mb != nil && pre.mb.Hash == first.mb.Hash) {
			return
		}
		stake := func(id string) uint64 {
			mn := minersc.NewMinerNode()
			mn.ID = id
			if scratchCtx(w, r.BC, &transaction.Transaction{ClientID: from}).GetTrieNode(mn.GetKey(), mn) != nil {
				return 0
			}
			return uint64(mn.TotalStaked)
		}
		// identical inputs, identical selection: the same payFees on further forks of the same state with
		// the same latest finalized magic block (same seed) must select the same sets. More repetitions when
		// the cut-off stake is tied (a dependence on map iteration order shows with probability >= 1/8 each).
		sels := selectionsOf(w, pre, first.mb, stake)
		reps := 3
		for _, s := range sels {
			if ties, slots := checkSelection(s, func(string, string) {}); len(ties) > slots && slots > 0 {
				reps = 64
			}
		}
		for i := 0; i < reps && !abort; i++ {
			v, ok := run(0, false)
			if !ok || v.mb == nil {
				continue
			}
			again := selectionsOf(w, pre, v.mb, stake)
			for si, s := range sels {
				if si < len(again) && fmt.Sprint(sortedKeys(again[si].result)) != fmt.Sprint(sortedKeys(s.result)) {
					oc.violate("C39/"+s.kind+"/same-inputs-different-selection",
						fmt.Sprintf("two executions of the same payFees on the same state (same seed, same previous set) selected different %s", s.kind))
					abort = true
				}
			}
		}
		w.Tr.Probe("repeat_execution_compared")
		if abort {
			return
		}
		for si, s := range sels {
			ties, slots := checkSelection(s, func(string, string) {})
			if len(ties) <= slots || slots <= 0 {
				continue
			}
			S := int(math.Ceil(math.Log(1e-12) / math.Log(float64(slots)/float64(len(ties)))))
			if S > 600 {
				w.Tr.Probe("seed_sweep_skipped_too_many_seeds")
				continue
			}
			w.Tr.Probe("seed_sweep/" + s.kind)
			count := map[string]int{}
			done := 0
			var again *vcView
			for k := 0; k < S; k++ {
				v, ok := run(int64(sim.Hash64(fmt.Sprintf("sweep-%d-%d", w.Seed, k))>>1), true)
				if !ok || v.mb == nil {
					continue
				}
				if k == 0 {
					again, _ = run(int64(sim.Hash64(fmt.Sprintf("sweep-%d-%d", w.Seed, k))>>1), true)
				}
				done++
				sel := selectionsOf(w, pre, v.mb, stake)
				if si >= len(sel) {
					continue
				}
				if k == 0 && again != nil && again.mb != nil {
					a2 := selectionsOf(w, pre, again.mb, stake)
					if si < len(a2) && fmt.Sprint(sortedKeys(a2[si].result)) != fmt.Sprint(sortedKeys(sel[si].result)) {
						oc.violate("C39/"+s.kind+"/different-result-for-identical-inputs", "two executions with the same seed selected different sets")
					}
				}
				for _, id := range ties {
					if sel[si].result[id] {
						count[id]++
					}
				}
			}
			if done < S {
				continue
			}
			for rank, id := range ties {
				if count[id] == S {
					oc.violate(fmt.Sprintf("C39/%s/tied-candidate-selected-under-every-seed", s.kind),
						fmt.Sprintf("candidate %s (rank %d by id among %d candidates tied at the cut-off stake %d, %d slots) was selected under all %d seeds", short(id), rank, len(ties), s.cands[id], slots, S))
				}
				if count[id] == 0 && math.Pow(1-float64(slots)/float64(len(ties)), float64(S)) < 1e-12 {
					oc.violate(fmt.Sprintf("C39/%s/tied-candidate-never-selected", s.kind),
						fmt.Sprintf("candidate %s (rank %d by id among %d tied, %d slots) was selected under none of %d seeds", short(id), rank, len(ties), slots, S))
				}
			}
		}
	})
	return abort
}

// installPrevSet (cfg prev_subset = k > 0) makes the chain's latest finalized
// magic block -- the "previous set" of the view change -- a magic block that
// holds only the first k miners of the current one (all sharders): the state
// between applying a larger magic block and finalizing it. The other miners
// are newcomers for the selection. Uses the chain's own exported setter.
func installPrevSet(w *ledger.World, r *ledger.Runner) *block.MagicBlock {
	k := int(r.Plan.CfgInt("prev_subset", 0))
	if k <= 0 || k >= len(w.Miners) {
		return nil
	}
	mk := func(src *ledger.Node, t node.NodeType) *node.Node {
		n := node.Provider()
		n.Type = t
		n.Host, n.N2NHost, n.Port, n.Description = src.N.Host, src.N.N2NHost, src.N.Port, src.N.Description
		n.SetSignatureSchemeType("bls0chain")
		if err := n.SetPublicKey(src.PK); err != nil {
			panic(err)
		}
		return n
	}
	mb := block.NewMagicBlock()
	mb.Miners = node.NewPool(node.NodeTypeMiner)
	mb.Sharders = node.NewPool(node.NodeTypeSharder)
	for _, m := range w.Miners[:k] {
		if err := mb.Miners.AddNode(mk(m, node.NodeTypeMiner)); err != nil {
			panic(err)
		}
	}
	for _, s := range w.Sharders {
		if err := mb.Sharders.AddNode(mk(s, node.NodeTypeSharder)); err != nil {
			panic(err)
		}
	}
	mb.T, mb.N, mb.K = (k*2)/3+1, k, k
	mb.MagicBlockNumber = 1
	mb.Hash = mb.GetHash()
	nb := block.NewBlock(w.C.GetKey(), 0)
	nb.MagicBlock = mb
	nb.Hash = encryption.Hash(fmt.Sprintf("previous-set-%d", w.Seed))
	nb.SetRoundRandomSeed(int64(sim.Hash64(fmt.Sprintf("prev-rrs-%d", w.Seed)) >> 1))
	w.C.SetLatestFinalizedMagicBlock(nb)
	w.Tr.Probe("previous_set_is_a_subset")
	return mb
}

// ---- scenarios ------------------------------------------------------------------------------------

func setupVC(prop string) func(w *ledger.World, r *ledger.Runner) []ledger.Observer {
	return func(w *ledger.World, r *ledger.Runner) []ledger.Observer {
		registerOps(r)
		for k := range agentReg {
			delete(agentReg, k)
		}
		for k := range selHooks {
			delete(selHooks, k)
		}
		agentReg[r] = newAgents(w, r)
		p := r.Plan
		for i, k := range phaseCfg {
			minersc.PhaseRounds[minersc.Phase(i)] = p.CfgInt(k, 2)
		}
		mb := w.C.GetCurrentMagicBlock()
		if pm := installPrevSet(w, r); pm != nil {
			mb = pm
		}
		oc := &oracle38{prop: prop, prevMB: mb}
		agentReg[r].oc = oc
		obs := []ledger.Observer{oc}
		if prop == "C39" {
			o39 := &oracle39{w: w, r: r}
			selHooks[r] = o39.sweep
			obs = append(obs, o39)
		}
		return obs
	}
}

func finishVC(prop string) func(w *ledger.World, r *ledger.Runner) {
	return func(w *ledger.World, r *ledger.Runner) {
		if prop != "C38" || r.Plan.CfgInt("honest", 0) == 0 {
			return
		}
		if agentReg[r] == nil || agentReg[r].oc == nil {
			return
		}
		oc := agentReg[r].oc
		a := agentReg[r]
		p := r.Plan
		bound := a.regDone + p.CfgInt("pr_start", 2) + sumPhases(p)
		executed := int64(r.Blocks)
		if executed < bound {
			return // the (shrunk) plan is shorter than one cycle
		}
		// preconditions of "fault-free, all honest" re-established from the plan and the state, so that a
		// shrunk plan (registrations or rounds deleted) cannot keep the signature for another reason
		rounds := 0
		for _, st := range p.Steps {
			switch st.Op {
			case "vc.round":
				if st.Int(0, 0) != 0 {
					return
				}
				rounds++
			case "vc.register", "vc.stake", "gov.set":
			default:
				return
			}
		}
		if int64(rounds) < bound {
			return
		}
		r.EnsureBlock()
		var v *vcView
		withHooksOff(w, func() { v = readVC(scratchCtx(w, r.BC, &transaction.Transaction{ClientID: w.OwnerID})) })
		for _, m := range w.Miners {
			if !hasID(v.miners, m.ID) {
				return
			}
		}
		for _, s := range w.Sharders {
			if !hasID(v.sharders, s.ID) {
				return
			}
		}
		if v.gn == nil || v.gn.MinN > len(w.Miners) || v.gn.MinS > len(w.Sharders) || v.gn.XPercent <= 0 {
			return
		}
		w.Tr.Probe("honest_run_long_enough")
		if oc.firstMB == 0 || oc.firstMB > bound {
			w.Tr.Violate(&sim.Violation{Prop: "C38", Oracle: "liveness", Sig: "C38/no-magic-block-within-one-cycle-all-honest/first-cycle",
				Detail: fmt.Sprintf("registrations complete at round %d, first magic block at round %d (0 = never), bound %d, %d rounds executed", a.regDone, oc.firstMB, bound, executed)})
			return
		}
		// later cycles: from the round the machine returned to Start
		full := sumPhases(p)
		for _, cs := range oc.cycleStarts {
			if cs+full > executed {
				continue
			}
			w.Tr.Probe("honest_second_cycle_long_enough")
			found := false
			for _, m := range oc.mbRounds {
				if m > cs && m <= cs+full {
					found = true
				}
			}
			if !found {
				w.Tr.Violate(&sim.Violation{Prop: "C38", Oracle: "liveness", Sig: "C38/no-magic-block-within-one-cycle-all-honest/after-a-view-change",
					Detail: fmt.Sprintf("the machine returned to Start at round %d; no magic block by round %d (%d rounds executed, magic blocks at %v)", cs, cs+full, executed, oc.mbRounds)})
				return
			}
		}
	}
}
