package gov

import (
	"verif/sim"
	"verif/worlds/ledger"
)

func registerOps(r *ledger.Runner) {
	r.Ops["gov.set"] = opSet
	r.Ops["gov.commit"] = opCommit
	r.Ops["gov.fork"] = opFork
}

var baseLight = map[string]int{"send": 2, "call": 6, "pour": 1, "data": 0, "replay": 1, "block": 4, "clock": 1}

func init() {
	sc48 := ledger.Scenario{
		Prop: "C48", Weights: baseLight, Lo: 4, Hi: 20,
		GenExtra: genC48,
		Setup: func(w *ledger.World, r *ledger.Runner) []ledger.Observer {
			registerOps(r)
			return []ledger.Observer{&oracle48{}}
		},
	}
	sim.Register(&sim.Check{
		ID: "C48", Title: "Governance settings change only by the owner and stay valid", World: "ledger",
		Gen: sc48.Gen, Exec: sc48.Exec,
		Quick: sim.Budget{Runs: 640, WallS: 80}, Thorough: sim.Budget{Runs: 40000, WallS: 1200},
		LevelText: "seeded search over real update transactions of the miner, storage, faucet, vesting and bridge contracts and the chain globals (update_settings, update_globals, update-settings, vestingsc-update-settings, update-global-config, commit_settings_changes) " +
			"by the stored owner, the chain owner, the sc.yaml owner after an ownership change and arbitrary accounts; setting maps with valid, unknown, immutable, unparsable, out-of-range and mutually inconsistent entries, several at once, in seeded orders, duplicates, malformed payloads; " +
			"oracle on the real trie after every transaction of the run (also the base workload's random calls): refused or failed => every settings record byte-identical; non-owner => no setting changes; accepted => input keys known/mutable/parsable, only named settings changed, stored record decodes and passes the contract's own validation",
		LevelNote: "the contract's own validation is invoked through the contract's real Execute in a scratch state context (empty update by the stored owner: miner, faucet, bridge; staged no-op + commit: storage); vesting has no validating path, its declared configuration invariants are re-checked; " +
			"the chain object's in-memory copy of the globals (Chain.updateConfig on finalisation) is not exercised; agreement between replicas is C06",
		Technique: "deterministic simulation: wrong-caller / malformed / invalid-entry faults against settings-record byte identity and validation oracles",
		DesignRef: "6/C48", Regime: "single-threaded event loop", Components: ledger.W1Components,
	})

	sc43 := ledger.Scenario{
		Prop: "C43", Weights: map[string]int{"send": 2, "call": 2, "pour": 1, "data": 0, "replay": 1, "block": 6, "clock": 1}, Lo: 4, Hi: 16,
		GenExtra: genC43,
		Setup: func(w *ledger.World, r *ledger.Runner) []ledger.Observer {
			registerOps(r)
			return []ledger.Observer{newOracle43(r.Plan)}
		},
	}
	sim.Register(&sim.Check{
		ID: "C43", Title: "Hard-fork behaviour switches exactly at the fork round", World: "ledger",
		Gen: sc43.Gen, Exec: sc43.Exec,
		Quick: sim.Budget{Runs: 640, WallS: 80}, Thorough: sim.Budget{Runs: 40000, WallS: 1200},
		LevelText: "forks recorded (or not) through the real miner-contract add_hardfork transaction by owner and non-owner callers at seeded rounds (relative to the current round: past, current, next, far; 0, negative, MaxInt64, MinInt64, unparsable), several names per transaction, re-recorded; " +
			"after every block (and right after every accepted add_hardfork) the real cstate.WithActivation runs in a scratch context on that block for every name of the plan plus the shipped names and a never-recorded one; reference: pre-fork strictly before the recorded round, post-fork from it on, pre-fork when unrecorded; " +
			"hard-fork records may only change through an accepted owner transaction and must store the requested round",
		LevelNote: "a fork recorded with a round not above the current one switches the rest of the current block (blocks are judged at their end); one chain instance (replica agreement is C06)",
		Technique: "deterministic simulation: seeded fork rounds and callers, reference switch model against the real WithActivation on the real trie",
		DesignRef: "6/C43", Regime: "single-threaded event loop", Components: ledger.W1Components,
	})

	ledger.RegisterWorkload(&ledger.Workload{
		Name: "gov",
		GenExtra: func(r *sim.RNG, p *sim.Plan, tier string) {
			genC48(r, p, tier)
		},
		Setup: func(w *ledger.World, r *ledger.Runner) { registerOps(r) },
	})
}
