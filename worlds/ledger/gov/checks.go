package gov

import (
	"0chain.net/smartcontract/minersc"

	"verif/sim"
	"verif/worlds/ledger"
)

func registerOps(r *ledger.Runner) {
	r.Ops["gov.set"] = opSet
	r.Ops["gov.commit"] = opCommit
	r.Ops["gov.fork"] = opFork
	r.Ops["vc.round"] = opRound
	r.Ops["vc.register"] = opRegister
	r.Ops["vc.stake"] = opStake
}

var baseLight = map[string]int{"send": 2, "call": 6, "pour": 1, "data": 0, "replay": 1, "block": 4, "clock": 1}

func init() {
	sc48 := ledger.Scenario{
		Prop: "C48", Weights: baseLight, Lo: 4, Hi: 20,
		GenExtra: genC48,
		Setup: func(w *ledger.World, r *ledger.Runner) []ledger.Observer {
			registerOps(r)
			return []ledger.Observer{&oracle48{}}
		},
	}
	sim.Register(&sim.Check{
		ID: "C48", Title: "Governance settings change only by the owner and stay valid", World: "ledger",
		Gen: sc48.Gen, Exec: sc48.Exec,
		Quick: sim.Budget{Runs: 640, WallS: 60}, Thorough: sim.Budget{Runs: 40000, WallS: 1200},
		LevelText: "seeded search over real update transactions of the miner, storage, faucet, vesting and bridge contracts and the chain globals (update_settings, update_globals, update-settings, vestingsc-update-settings, update-global-config, commit_settings_changes) " +
			"by the stored owner, the chain owner, the sc.yaml owner after an ownership change and arbitrary accounts; setting maps with valid, unknown, immutable, unparsable, out-of-range and mutually inconsistent entries, several at once, in seeded orders, duplicates, malformed payloads; " +
			"oracle on the real trie after every transaction of the run (also the base workload's random calls): refused or failed => every settings record byte-identical; non-owner => no setting changes; accepted => input keys known/mutable/parsable, only named settings changed, stored record decodes and passes the contract's own validation",
		LevelNote: "the contract's own validation is invoked through the contract's real Execute in a scratch state context (empty update by the stored owner: miner, faucet, bridge; staged no-op + commit: storage); vesting has no validating path, its declared configuration invariants are re-checked; " +
			"the chain object's in-memory copy of the globals (Chain.updateConfig on finalisation) is not exercised; agreement between replicas is C06",
		Technique: "deterministic simulation: wrong-caller / malformed / invalid-entry faults against settings-record byte identity and validation oracles",
		DesignRef: "6/C48", Regime: "single-threaded event loop", Components: ledger.W1Components,
	})

	sc43 := ledger.Scenario{
		Prop: "C43", Weights: map[string]int{"send": 2, "call": 2, "pour": 1, "data": 0, "replay": 1, "block": 6, "clock": 1}, Lo: 4, Hi: 16,
		GenExtra: genC43,
		Setup: func(w *ledger.World, r *ledger.Runner) []ledger.Observer {
			registerOps(r)
			return []ledger.Observer{newOracle43(r.Plan)}
		},
	}
	sim.Register(&sim.Check{
		ID: "C43", Title: "Hard-fork behaviour switches exactly at the fork round", World: "ledger",
		Gen: sc43.Gen, Exec: sc43.Exec,
		Quick: sim.Budget{Runs: 640, WallS: 60}, Thorough: sim.Budget{Runs: 40000, WallS: 1200},
		LevelText: "forks recorded (or not) through the real miner-contract add_hardfork transaction by owner and non-owner callers at seeded rounds (relative to the current round: past, current, next, far; 0, negative, MaxInt64, MinInt64, unparsable), several names per transaction, re-recorded; " +
			"after every block (and right after every accepted add_hardfork) the real cstate.WithActivation runs in a scratch context on that block for every name of the plan plus the shipped names and a never-recorded one; reference: pre-fork strictly before the recorded round, post-fork from it on, pre-fork when unrecorded; " +
			"hard-fork records may only change through an accepted owner transaction and must store the requested round",
		LevelNote: "a fork recorded with a round not above the current one switches the rest of the current block (blocks are judged at their end); one chain instance (replica agreement is C06)",
		Technique: "deterministic simulation: seeded fork rounds and callers, reference switch model against the real WithActivation on the real trie",
		DesignRef: "6/C43", Regime: "single-threaded event loop", Components: ledger.W1Components,
	})

	sc38 := ledger.Scenario{
		Prop: "C38", Weights: map[string]int{"send": 1, "call": 4, "pour": 0, "data": 0, "replay": 1, "block": 2, "clock": 1}, Lo: 0, Hi: 8,
		GenExtra: genVC(false), Setup: setupVC("C38"), Finish: finishVC("C38"),
	}
	sim.Register(&sim.Check{
		ID: "C38", Title: "The view-change phase machine follows its schedule", World: "ledger",
		Gen: sc38.Gen, Exec: sc38.Exec,
		Quick: sim.Budget{Runs: 480, WallS: 60}, Thorough: sim.Budget{Runs: 30000, WallS: 1200},
		LevelText: "view change enabled on the real chain; phase lengths shrunk through the contract's configuration (PhaseRounds), membership limits through the real update_settings; miner and sharder agents with the world's real keys register through add_miner / add_sharder, " +
			"run the real off-chain DKG (chaincore/threshold/bls: MakeDKG, ComputeDKGKeyShare, ValidateShare, signed acknowledgements) and submit contributeMpk / sharder_keep / shareSignsOrShares / wait, the generator closes each round with payFees; " +
			"faults: silent miners and sharders, duplicates, out-of-phase messages, wrong-size / garbage / foreign-id mpks, too few / null / badly signed / wrong-share entries, non-member senders, missing / foreign / wrong-round / doubled payFees; " +
			"oracle per transaction and block on the real trie: legal transitions only, never before the configured rounds, always on schedule when payFees runs, DKG messages accepted only in phase, once per participating miner, of the expected size and valid content, magic block overlaps the previous set, bounded liveness when all agents are honest",
		LevelNote: "add_miner / add_sharder only admit nodes of the current magic block, so the candidate set is the genesis set; the chain's latest finalized magic block is not advanced by the sim finaliser (second cycles run against the genesis set as previous set); a shareSignsOrShares whose payload names an unknown id crashes the contract goroutine on the pinned tree and is only generated with cfg crash_sos=1 (see NOTES.md)",
		Technique: "deterministic simulation: scripted DKG agents with message faults against a phase-machine reference model on the real trie",
		DesignRef: "6/C38", Regime: "single-threaded event loop", Components: ledger.W1Components,
	})
	sc39 := ledger.Scenario{
		Prop: "C39", Weights: map[string]int{"send": 1, "call": 1, "pour": 0, "data": 0, "replay": 0, "block": 1, "clock": 1}, Lo: 0, Hi: 4,
		GenExtra: genVC(true), Setup: setupVC("C39"),
	}
	sim.Register(&sim.Check{
		ID: "C39", Title: "View-change node selection is exact and stake-ordered", World: "ledger",
		Gen: sc39.Gen, Exec: sc39.Exec,
		Quick: sim.Budget{Runs: 480, WallS: 60}, Thorough: sim.Budget{Runs: 30000, WallS: 1200},
		LevelText: "every selection (miners: DKG list -> magic block; sharders: keep list -> magic block) of C38-style histories biased to more candidates than slots and tied stakes (stakes through the real addToDelegatePool); candidates read from the trie before the generator's payFees, result from the magic block after; " +
			"reference of DESIGN A.6 (size, required previous-set members by stake, everyone above the cut-off in, none below); id-independence among ties by a seed sweep on scratch forks of the state at the selection point (the same payFees re-executed through the contract's real Execute with S different round seeds of the latest finalized magic block, S such that (slots/ties)^S < 1e-12), same seed twice for identical results",
		LevelNote: "reduce is reached only through real transactions (hook H2 not needed); layouts are those reachable with the genesis set as candidates (limits lowered through update_settings)",
		Technique: "deterministic simulation: selection reference model + seed sweep on state forks",
		DesignRef: "6/C39, A.6", Regime: "single-threaded event loop", Components: ledger.W1Components,
	})

	ledger.RegisterWorkload(&ledger.Workload{
		Name: "gov",
		GenExtra: func(r *sim.RNG, p *sim.Plan, tier string) {
			genC48(r, p, tier)
		},
		Setup: func(w *ledger.World, r *ledger.Runner) { registerOps(r) },
	})
	// the view-change histories (registrations, stakes, DKG messages, payFees with block rewards) as a
	// workload of their own, so that the core oracles see minting, stake pools and the DKG records
	ledger.RegisterWorkload(&ledger.Workload{
		Name:     "govvc",
		GenExtra: genVC(false),
		Setup: func(w *ledger.World, r *ledger.Runner) {
			registerOps(r)
			for k := range agentReg {
				delete(agentReg, k) // one run at a time per process
			}
			agentReg[r] = newAgents(w, r)
			installPrevSet(w, r)
			for i, k := range phaseCfg {
				minersc.PhaseRounds[minersc.Phase(i)] = r.Plan.CfgInt(k, 2)
			}
		},
	})
}
