package gov

import (
	"encoding/json"
	"fmt"
	"sort"
	"strings"

	"0chain.net/chaincore/block"
	cstate "0chain.net/chaincore/chain/state"
	"0chain.net/chaincore/threshold/bls"
	"0chain.net/chaincore/transaction"
	"0chain.net/core/encryption"
	"0chain.net/smartcontract/minersc"
	"github.com/0chain/common/core/util"

	"verif/sim"
	"verif/worlds/ledger"
	"verif/worlds/wkit"
)

// ---- typed reads of the miner contract's view-change records (real types, real trie) --------------

type vcView struct {
	phase    *minersc.PhaseNode // nil when the record is absent
	dmn      *minersc.DKGMinerNodes
	mpks     *block.Mpks
	gsos     *block.GroupSharesOrSigns
	mb       *block.MagicBlock // nil when absent
	keep     minersc.NodeIDs
	miners   minersc.NodeIDs
	sharders minersc.NodeIDs
	gn       *minersc.GlobalNode
}

type getter interface {
	GetTrieNode(key string, v util.MPTSerializable) error
}

func readVC(sc getter) *vcView {
	v := &vcView{dmn: minersc.NewDKGMinerNodes(), mpks: block.NewMpks(), gsos: block.NewGroupSharesOrSigns()}
	pn := &minersc.PhaseNode{}
	if err := sc.GetTrieNode(minersc.PhaseKey, pn); err == nil {
		v.phase = pn
	}
	if err := sc.GetTrieNode(minersc.DKGMinersKey, v.dmn); err != nil {
		v.dmn = minersc.NewDKGMinerNodes()
	}
	if err := sc.GetTrieNode(minersc.MinersMPKKey, v.mpks); err != nil {
		v.mpks = block.NewMpks()
	}
	if err := sc.GetTrieNode(minersc.GroupShareOrSignsKey, v.gsos); err != nil {
		v.gsos = block.NewGroupSharesOrSigns()
	}
	mb := block.NewMagicBlock()
	if err := sc.GetTrieNode(minersc.MagicBlockKey, mb); err == nil {
		v.mb = mb
	}
	_ = sc.GetTrieNode(minersc.ShardersKeepKey, &v.keep)
	_ = sc.GetTrieNode(minersc.AllMinersKey, &v.miners)
	_ = sc.GetTrieNode(minersc.AllShardersKey, &v.sharders)
	gn := &minersc.GlobalNode{}
	if err := sc.GetTrieNode(minersc.GlobalNodeKey, gn); err == nil {
		v.gn = gn
	}
	return v
}

func phaseOf(v *vcView) minersc.Phase {
	if v.phase == nil {
		return minersc.Start
	}
	return v.phase.Phase
}

func hasID(ids minersc.NodeIDs, id string) bool {
	for _, x := range ids {
		if x == id {
			return true
		}
	}
	return false
}

// ---- agents ---------------------------------------------------------------------------------------

// vcAgents are the sim-owned miner / sharder agents: they read the phase from
// the chain every round and run the real off-chain DKG (chaincore/threshold/bls).
type vcAgents struct {
	w    *ledger.World
	r    *ledger.Runner
	dkg  map[string]*bls.DKG  // miner id -> DKG object of the current DKG attempt
	last map[string][2]string // miner id -> (function, raw input) of its last DKG transaction
	mute int64                // bit i: miner i never takes part in the DKG
	// registration bookkeeping for the liveness bound
	regDone int64 // round at which the last registration was accepted
	oc      *oracle38
}

func newAgents(w *ledger.World, r *ledger.Runner) *vcAgents {
	a := &vcAgents{w: w, r: r, dkg: map[string]*bls.DKG{}, last: map[string][2]string{}}
	if r.Plan != nil {
		a.mute = r.Plan.CfgInt("mute_mask", 0)
	}
	// the DKG polynomials are drawn from the run's own seeded stream
	wkit.SeedBLS(sim.NewRNG(w.Seed).Child("dkg"))
	return a
}

func (a *vcAgents) minerIdx(id string) int {
	for i, m := range a.w.Miners {
		if m.ID == id {
			return i
		}
	}
	return -1
}

func (a *vcAgents) submit(from, fn, raw string, fee int64) *ledger.Outcome {
	r := a.r
	t := a.w.MakeTxn(ledger.TxnSpec{From: from, To: ledger.AddrMiner, Type: transaction.TxnTypeSmartContract, Name: fn, Raw: raw,
		Fee: fee, Nonce: r.ResolveNonce(ledger.NExpected, from)})
	return r.Submit(t)
}

func nodeJSON(n *ledger.Node, delegate string, charge float64, delegates int) string {
	m := map[string]any{
		"simple_miner": map[string]any{
			"id": n.ID, "n2n_host": n.N.N2NHost, "host": n.N.Host, "port": n.N.Port, "public_key": n.PK,
			"short_name": n.N.Description, "build_tag": "sim",
		},
		"stake_pool": map[string]any{"settings": map[string]any{"delegate_wallet": delegate, "service_charge": charge, "num_delegates": delegates}},
	}
	b, _ := json.Marshal(m)
	return string(b)
}

func (a *vcAgents) mpkStrings(d *bls.DKG) []string {
	var out []string
	for _, pk := range d.GetMPKs() {
		out = append(out, pk.GetHexString())
	}
	return out
}

func mpkJSON(id string, mpk []string) string {
	b, _ := json.Marshal(map[string]any{"ID": id, "Mpk": mpk})
	return string(b)
}

// honestMpk makes miner id (re)start its DKG for the current attempt and returns its contribution.
func (a *vcAgents) honestMpk(id string, v *vcView) []string {
	d := bls.MakeDKG(v.dmn.T, v.dmn.N, id)
	a.dkg[id] = d
	return a.mpkStrings(d)
}

// buildSOS builds miner id's share-or-signs message from the real DKG objects:
// a signed acknowledgement from every responsive peer, the revealed share for
// the others.
func (a *vcAgents) buildSOS(id string, v *vcView, silent map[string]bool) *block.ShareOrSigns {
	sos := block.NewShareOrSigns()
	sos.ID = id
	d := a.dkg[id]
	if d == nil {
		return sos
	}
	var mpkMine []bls.PublicKey
	if m, ok := v.mpks.Mpks[id]; ok {
		mpkMine, _ = bls.ConvertStringToMpk(m.Mpk)
	}
	for _, k := range sortedKeys(v.mpks.Mpks) {
		if k == id {
			continue
		}
		pid := bls.ComputeIDdkg(k)
		share, err := d.ComputeDKGKeyShare(pid)
		if err != nil {
			continue
		}
		ki := a.minerIdx(k)
		responsive := ki >= 0 && !silent[k] && a.mute&(1<<uint(ki)) == 0 && mpkMine != nil
		if responsive && bls.ValidateShare(mpkMine, share, pid) {
			// peer k checks the share against our published polynomial and acknowledges it
			msg := encryption.Hash(share.GetHexString())
			sig, err := a.w.Miners[ki].Keys.Sign(msg)
			if err == nil {
				ks := &bls.DKGKeyShare{Message: msg, Sign: sig}
				ks.SetKey(pid.GetHexString())
				sos.ShareOrSigns[k] = ks
				continue
			}
		}
		if ks := d.GetDKGKeyShare(pid); ks != nil {
			sos.ShareOrSigns[k] = ks // reveal the share of an unresponsive peer
		}
	}
	return sos
}

// ---- the round step -------------------------------------------------------------------------------

// DKG fault kinds of a vc.round step (I[0]); I[1] selects the miner, I[2] a variant.
const (
	fNone = iota
	fSilentMiner
	fDuplicate
	fOutOfPhase
	fMpkWrongSize
	fMpkGarbage
	fMpkForeignID
	fSosTooFew
	fSosNullEntries
	fSosBadSignature
	fSosBadShare
	fSosForeignSignature
	fNonMember
	fNoPayFees
	fPayFeesWrongCaller
	fPayFeesWrongRound
	fPayFeesTwice
	fSilentSharders
	fSosUnknownID // crashes the process on the pinned tree; only generated when the plan asks (cfg crash_sos)
	fKinds
)

var faultNames = []string{"none", "silent_miner", "duplicate_dkg_txn", "out_of_phase_dkg_txn", "mpk_wrong_size", "mpk_garbage_element", "mpk_foreign_id",
	"sos_too_few", "sos_null_entries", "sos_bad_signature", "sos_bad_share", "sos_foreign_signature", "non_member_sender", "no_payfees",
	"payfees_wrong_caller", "payfees_wrong_round", "payfees_twice", "silent_sharders", "sos_unknown_id"}

func sosJSON(s *block.ShareOrSigns) string { return string(s.Encode()) }

func (a *vcAgents) scratch() *cstate.StateContext {
	return scratchCtx(a.w, a.r.BC, &transaction.Transaction{ClientID: a.w.OwnerID, CreationDate: a.w.Now})
}

func opRound(r *ledger.Runner, st sim.Step) {
	a := agentsOf(r)
	w := r.W
	r.EnsureBlock()
	var v *vcView
	withHooksOff(w, func() { v = readVC(a.scratch()) })
	fault := int(st.Int(0, 0)) % fKinds
	if fault == fSosUnknownID && r.Plan.CfgInt("crash_sos", 0) == 0 {
		fault = fNone
	}
	fm := int(st.Int(1, 0)) // faulty miner index
	variant := st.Int(2, 0)
	fired := false
	fmID := ""
	if len(w.Miners) > 0 {
		fmID = w.Miners[fm%len(w.Miners)].ID
	}
	silent := map[string]bool{}
	if fault == fSilentMiner {
		silent[fmID] = true
	}
	ph := phaseOf(v)
	fee := r.ResolveFee(2, w.OwnerID) // DKG transactions are exempt from fees on a real chain
	w.Tr.Event("vc.round round=%d phase=%s fault=%s", r.BC.B.Round, ph, faultNames[fault])

	// ---- what every agent does this round, by phase --------------------------------------------
	switch ph {
	case minersc.Contribute:
		for i, m := range w.Miners {
			if _, in := v.dmn.SimpleNodes[m.ID]; !in {
				continue
			}
			if _, done := v.mpks.Mpks[m.ID]; done {
				continue
			}
			if a.mute&(1<<uint(i)) != 0 || silent[m.ID] {
				if silent[m.ID] {
					fired = true
				}
				continue
			}
			mpk := a.honestMpk(m.ID, v)
			raw := mpkJSON(m.ID, mpk)
			if m.ID == fmID {
				switch fault {
				case fMpkWrongSize:
					switch variant % 3 {
					case 0:
						raw = mpkJSON(m.ID, mpk[:len(mpk)-1])
					case 1:
						raw = mpkJSON(m.ID, append(append([]string{}, mpk...), mpk[0]))
					default:
						raw = mpkJSON(m.ID, nil)
					}
					fired = true
				case fMpkGarbage:
					g := append([]string{}, mpk...)
					g[int(variant)%len(g)] = []string{"", "zz", "00", strings.Repeat("f", 128)}[int(variant/7)%4]
					raw = mpkJSON(m.ID, g)
					fired = true
				case fMpkForeignID:
					other := w.Miners[(fm+1+int(variant)%max(1, len(w.Miners)-1))%len(w.Miners)].ID
					raw = mpkJSON(other, mpk)
					fired = true
				}
			}
			a.last[m.ID] = [2]string{"contributeMpk", raw}
			a.submit(m.ID, "contributeMpk", raw, fee)
		}
		if fault != fSilentSharders {
			for _, s := range w.Sharders {
				if hasID(v.keep, s.ID) || !hasID(v.sharders, s.ID) {
					continue
				}
				a.submit(s.ID, "sharder_keep", nodeJSON(s, w.OwnerID, 0.1, 10), fee)
			}
		} else {
			fired = true
		}
	case minersc.Publish:
		for i, m := range w.Miners {
			if _, in := v.mpks.Mpks[m.ID]; !in {
				continue
			}
			if _, done := v.gsos.Shares[m.ID]; done {
				continue
			}
			if a.mute&(1<<uint(i)) != 0 || silent[m.ID] {
				if silent[m.ID] {
					fired = true
				}
				continue
			}
			sos := a.buildSOS(m.ID, v, silent)
			raw := sosJSON(sos)
			if m.ID == fmID && len(sos.ShareOrSigns) > 0 {
				ks := sortedKeys(sos.ShareOrSigns)
				pick := ks[int(variant)%len(ks)]
				switch fault {
				case fSosTooFew:
					for len(sos.ShareOrSigns) > max(0, v.dmn.K-2) {
						delete(sos.ShareOrSigns, sortedKeys(sos.ShareOrSigns)[0])
					}
					raw = sosJSON(sos)
					fired = true
				case fSosNullEntries:
					m := map[string]any{}
					for _, k := range ks {
						m[k] = nil
					}
					b, _ := json.Marshal(map[string]any{"id": sos.ID, "share_or_sign": m})
					raw = string(b)
					fired = true
				case fSosBadSignature:
					if e := sos.ShareOrSigns[pick]; e.Sign != "" {
						e.Message = encryption.Hash("other" + e.Message)
						raw = sosJSON(sos)
						fired = true
					}
				case fSosBadShare:
					// reveal a share that does not lie on our published polynomial
					d2 := bls.MakeDKG(v.dmn.T, v.dmn.N, m.ID)
					ppid := bls.ComputeIDdkg(pick)
					sh, err := d2.ComputeDKGKeyShare(ppid)
					if err == nil {
						e := &bls.DKGKeyShare{Share: sh.GetHexString()}
						e.SetKey(ppid.GetHexString())
						sos.ShareOrSigns[pick] = e
						raw = sosJSON(sos)
						fired = true
					}
				case fSosForeignSignature:
					// a valid signature of the peer, but over a message that has nothing to do with the share
					if pi := a.minerIdx(pick); pi >= 0 {
						msg := encryption.Hash("unrelated message")
						if sig, err := w.Miners[pi].Keys.Sign(msg); err == nil {
							e := &bls.DKGKeyShare{Message: msg, Sign: sig}
							sos.ShareOrSigns[pick] = e
							raw = sosJSON(sos)
							fired = true
						}
					}
				case fSosUnknownID:
					sos.ID = encryption.Hash("nobody")
					if e := sos.ShareOrSigns[pick]; e.Sign != "" {
						if ks2 := a.dkg[m.ID].GetDKGKeyShare(bls.ComputeIDdkg(pick)); ks2 != nil {
							sos.ShareOrSigns[pick] = ks2
						}
					}
					raw = sosJSON(sos)
					fired = true
				}
			}
			a.last[m.ID] = [2]string{"shareSignsOrShares", raw}
			a.submit(m.ID, "shareSignsOrShares", raw, fee)
		}
	case minersc.Wait:
		for i, m := range w.Miners {
			if _, in := v.dmn.SimpleNodes[m.ID]; !in {
				continue
			}
			if v.dmn.Waited[m.ID] {
				continue
			}
			if a.mute&(1<<uint(i)) != 0 || silent[m.ID] {
				if silent[m.ID] {
					fired = true
				}
				continue
			}
			a.last[m.ID] = [2]string{"wait", "{}"}
			a.submit(m.ID, "wait", "{}", fee)
		}
	}

	// ---- faults that are extra messages ---------------------------------------------------------
	switch fault {
	case fDuplicate:
		// a second message of the kind that belongs to the current phase (verbatim, or a different mpk),
		// else the miner's last DKG message whatever it was
		fnNow := map[minersc.Phase]string{minersc.Contribute: "contributeMpk", minersc.Publish: "shareSignsOrShares", minersc.Wait: "wait"}[ph]
		if l, ok := a.last[fmID]; ok {
			raw := l[1]
			if l[0] == fnNow && fnNow == "contributeMpk" && variant%2 == 1 && v.dmn.T > 0 {
				raw = mpkJSON(fmID, a.mpkStrings(bls.MakeDKG(v.dmn.T, max(v.dmn.T, v.dmn.N), fmID)))
			}
			a.submit(fmID, l[0], raw, fee)
			fired = true
		}
	case fOutOfPhase:
		fn := []string{"contributeMpk", "shareSignsOrShares", "wait", "sharder_keep"}[int(variant)%4]
		in := map[string]minersc.Phase{"contributeMpk": minersc.Contribute, "shareSignsOrShares": minersc.Publish, "wait": minersc.Wait, "sharder_keep": minersc.Contribute}
		if in[fn] != ph {
			raw := "{}"
			switch fn {
			case "contributeMpk":
				t := max(1, v.dmn.T)
				raw = mpkJSON(fmID, a.mpkStrings(bls.MakeDKG(t, max(t, v.dmn.N), fmID)))
			case "shareSignsOrShares":
				if l, ok := a.last[fmID]; ok && l[0] == fn {
					raw = l[1]
				} else {
					raw = `{"id":"` + fmID + `","share_or_sign":{}}`
				}
			case "sharder_keep":
				if len(w.Sharders) > 0 {
					raw = nodeJSON(w.Sharders[fm%len(w.Sharders)], w.OwnerID, 0.1, 10)
				}
			}
			a.submit(fmID, fn, raw, fee)
			fired = true
		}
	case fNonMember:
		if len(w.Clients) > 0 {
			c := w.Clients[fm%len(w.Clients)]
			switch variant % 3 {
			case 0:
				t := max(1, v.dmn.T)
				a.submit(c.ID, "contributeMpk", mpkJSON(c.ID, a.mpkStrings(bls.MakeDKG(t, max(t, v.dmn.N), c.ID))), fee)
			case 1:
				// replays the content a member published (or would publish)
				raw := `{"id":"` + c.ID + `","share_or_sign":{}}`
				for _, id := range sortedKeys(a.last) {
					if a.last[id][0] == "shareSignsOrShares" {
						raw = a.last[id][1]
						break
					}
				}
				a.submit(c.ID, "shareSignsOrShares", raw, fee)
			default:
				a.submit(c.ID, "wait", "{}", fee)
			}
			fired = true
		}
	}

	// ---- the generator closes the round with payFees ---------------------------------------------
	gen := r.BC.Miner
	pay := func(from string, round int64) *ledger.Outcome {
		if hook := selectionHook(r); hook != nil {
			if hook(from, round) {
				// the selection this payFees makes is not a function of its inputs (reported): not submitted,
				// so that the run stays a function of the plan
				w.Tr.Event("payFees not submitted")
				return nil
			}
		}
		return a.submit(from, "payFees", fmt.Sprintf(`{"round":%d}`, round), 0)
	}
	switch fault {
	case fNoPayFees:
		fired = true
	case fPayFeesWrongCaller:
		other := w.OwnerID
		if len(w.Miners) > 1 {
			other = w.Miners[(r.Blocks+1)%len(w.Miners)].ID
		}
		pay(other, r.BC.B.Round)
		fired = true
		if variant%2 == 0 {
			pay(gen.ID, r.BC.B.Round)
		}
	case fPayFeesWrongRound:
		pay(gen.ID, r.BC.B.Round+1-2*(variant%2))
		fired = true
		if variant%4 < 2 {
			pay(gen.ID, r.BC.B.Round)
		}
	case fPayFeesTwice:
		pay(gen.ID, r.BC.B.Round)
		pay(gen.ID, r.BC.B.Round)
		fired = true
	default:
		pay(gen.ID, r.BC.B.Round)
	}
	if fired && fault != fNone {
		w.Tr.Fault(faultNames[fault])
	}
	r.EndBlock(st.Int(3, 0) != 0)
}

// opRegister registers world miner / sharder #I[1] through the real add_miner / add_sharder.
//
//	I[0] 0 miner, 1 sharder; I[1] index; I[2] variant (0 honest; 1 sent by a stranger; 2 delegate wallet = own wallet)
func opRegister(r *ledger.Runner, st sim.Step) {
	a := agentsOf(r)
	w := r.W
	r.EnsureBlock()
	var n *ledger.Node
	fn := "add_miner"
	if st.Int(0, 0)%2 == 0 {
		n = w.Miners[int(st.Int(1, 0))%len(w.Miners)]
	} else {
		n = w.Sharders[int(st.Int(1, 0))%len(w.Sharders)]
		fn = "add_sharder"
	}
	from := n.ID
	delegate := w.OwnerID
	switch st.Int(2, 0) % 3 {
	case 1:
		from, _ = w.Account(st.A)
	case 2:
		delegate = n.ID
		w.Tr.Fault("register_with_own_wallet_as_delegate")
	}
	o := a.submit(from, fn, nodeJSON(n, delegate, 0.1, 10), r.ResolveFee(2, from))
	if o.Class == ledger.Success {
		a.regDone = r.BC.B.Round
	}
	w.Tr.Event("vc.register %s #%d class=%s", fn, st.Int(1, 0), o.Class)
}

// opStake locks a stake on miner / sharder #I[1] through the real addToDelegatePool.
//
//	A staker account; I[0] 0 miner / 1 sharder; I[1] index; I[2] amount in units of 1 ZCN
func opStake(r *ledger.Runner, st sim.Step) {
	a := agentsOf(r)
	w := r.W
	r.EnsureBlock()
	from, _ := w.Account(st.A)
	var id string
	pt := 1
	if st.Int(0, 0)%2 == 0 {
		id = w.Miners[int(st.Int(1, 0))%len(w.Miners)].ID
	} else {
		id = w.Sharders[int(st.Int(1, 0))%len(w.Sharders)].ID
		pt = 2
	}
	t := w.MakeTxn(ledger.TxnSpec{From: from, To: ledger.AddrMiner, Type: transaction.TxnTypeSmartContract, Name: "addToDelegatePool",
		Raw: fmt.Sprintf(`{"provider_type":%d,"provider_id":"%s"}`, pt, id), Value: st.Int(2, 1) * 1e10, Fee: r.ResolveFee(2, from), Nonce: r.ResolveNonce(ledger.NExpected, from)})
	o := r.Submit(t)
	_ = a
	w.Tr.Event("vc.stake type=%d #%d amount=%d class=%s", pt, st.Int(1, 0), st.Int(2, 1), o.Class)
}

// ---- per-run registry of agents (keyed by runner) ---------------------------------------------------

var agentReg = map[*ledger.Runner]*vcAgents{}
var selHooks = map[*ledger.Runner]func(from string, round int64) bool{}

func agentsOf(r *ledger.Runner) *vcAgents {
	a, ok := agentReg[r]
	if !ok {
		a = newAgents(r.W, r)
		agentReg[r] = a
	}
	return a
}

func selectionHook(r *ledger.Runner) func(from string, round int64) bool { return selHooks[r] }

var _ = sort.Strings
