package gov

import (
	"encoding/json"
	"fmt"
	"math"
	"sort"
	"strconv"
	"strings"

	cstate "0chain.net/chaincore/chain/state"
	"0chain.net/chaincore/transaction"

	"verif/sim"
	"verif/worlds/ledger"
)

// genFork builds a gov.fork step (real miner-contract add_hardfork transaction).
//
//	A    caller: 0 stored miner-contract owner, 1 chain owner, 2 sc.yaml owner, >=3 account (A-3)
//	S    fork names (one entry of the input map each)
//	I[0] fee kind, I[1] nonce kind, I[2] raw kind, then per name: round kind, offset
//
// Round kinds: 0 current block round + offset, 1 absolute offset, 2 MaxInt64, 3 negative,
// 4 unparsable text, 5 fractional, 6 MinInt64, 7 beyond int64.
func genFork(r *sim.RNG, names []string) sim.Step {
	st := sim.Step{Op: "gov.fork"}
	switch r.Pick([]int{8, 1, 1, 3}) {
	case 0:
		st.A = 0
	case 1:
		st.A = 1
	case 2:
		st.A = 2
	default:
		st.A = 3 + r.Intn(12)
	}
	st.I = []int64{int64(r.Pick([]int{6, 4, 2, 2, 1})), int64(r.Pick([]int{24, 1, 1, 1})), int64(r.Pick([]int{16, 1, 1, 1}))}
	n := 1 + r.Pick([]int{8, 3, 1})
	for i := 0; i < n; i++ {
		st.S = append(st.S, names[r.Intn(len(names))])
		st.I = append(st.I, int64(r.Pick([]int{20, 3, 1, 1, 1, 1, 1, 1})), int64(r.Range(-3, 14)))
	}
	return st
}

var forkNames = []string{"demeter", "electra", "apollo", "x", "", "fork with space", "hardfork:nested", "ünï", strings.Repeat("n", 70)}

func genC43(r *sim.RNG, p *sim.Plan, tier string) {
	n := r.Range(4, 12)
	blocks := r.Range(10, 40)
	if tier == "thorough" {
		n = r.Range(4, 30)
		blocks = r.Range(10, 120)
	}
	var extra []sim.Step
	for i := 0; i < n; i++ {
		extra = append(extra, genFork(r, forkNames))
	}
	for i := 0; i < blocks; i++ {
		extra = append(extra, sim.Step{Op: "block", I: []int64{0, int64(r.Intn(4) / 3)}})
	}
	r.Shuffle(len(extra), func(i, j int) { extra[i], extra[j] = extra[j], extra[i] })
	p.Steps = interleave(r, p.Steps, extra)
}

func forkRound(cur int64, kind, off int64) string {
	switch kind % 8 {
	case 0:
		return strconv.FormatInt(cur+off, 10)
	case 1:
		return strconv.FormatInt(off, 10)
	case 2:
		return strconv.FormatInt(math.MaxInt64, 10)
	case 3:
		return strconv.FormatInt(-1-absI(off), 10)
	case 4:
		return "soon"
	case 5:
		return strconv.FormatInt(cur+off, 10) + ".5"
	case 6:
		return strconv.FormatInt(math.MinInt64, 10)
	default:
		return "9223372036854775808"
	}
}

func absI(x int64) int64 {
	if x < 0 {
		return -x
	}
	return x
}

func opFork(r *ledger.Runner, st sim.Step) {
	w := r.W
	r.EnsureBlock()
	from, cls := resolveCaller(w, r, tgMiner, st.A)
	var kv []string
	for i, name := range st.S {
		kv = append(kv, name, forkRound(r.BC.B.Round, st.Int(3+2*i, 0), st.Int(4+2*i, 0)))
	}
	raw := fieldsJSON(kv)
	switch st.Int(2, 0) % 4 {
	case 1:
		raw = strings.TrimSuffix(raw, "}")
		w.Tr.Fault("malformed_fork_payload")
	case 2:
		raw = "{}"
	case 3:
		raw = `{"fields":{"demeter":7}}`
		w.Tr.Fault("malformed_fork_payload")
	}
	if cls != "owner" {
		w.Tr.Fault("wrong_caller")
	}
	t := w.MakeTxn(ledger.TxnSpec{From: from, To: ledger.AddrMiner, Type: transaction.TxnTypeSmartContract, Name: "add_hardfork", Raw: raw,
		Fee: r.ResolveFee(st.Int(0, 0), from), Nonce: r.ResolveNonce(st.Int(1, 0), from)})
	o := r.Submit(t)
	w.Tr.Event("gov.fork caller=%s names=%d class=%s round=%d", cls, len(st.S), o.Class, r.BC.B.Round)
	w.Tr.Outcome(fmt.Sprintf("fork/%s/%s", cls, o.Class))
}

// ---- oracle ---------------------------------------------------------------------------------------

// oracle43 keeps the reference model "fork name -> recorded round" fed only by
// accepted add_hardfork transactions of the configured owner, and after every
// block asks the real WithActivation which branch it runs for every name.
type oracle43 struct {
	model map[string]int64
	names map[string]bool
}

func newOracle43(p *sim.Plan) *oracle43 {
	oc := &oracle43{model: map[string]int64{}, names: map[string]bool{"demeter": true, "electra": true, "never-recorded": true}}
	if p != nil {
		for _, st := range p.Steps {
			if st.Op == "gov.fork" {
				for _, n := range st.S {
					oc.names[n] = true
				}
			}
		}
	}
	return oc
}

func (oc *oracle43) violate(w *ledger.World, oracle, sig, detail string) {
	w.Tr.Violate(&sim.Violation{Prop: "C43", Oracle: oracle, Sig: sig, Detail: detail})
}

func (oc *oracle43) AfterTxn(w *ledger.World, bc *ledger.BlockCtx, o *ledger.Outcome) {
	t := o.Txn
	isFork := t.TransactionType == transaction.TxnTypeSmartContract && t.ToClientID == ledger.AddrMiner && t.FunctionName == "add_hardfork"
	// any change of a hard-fork record must come from an accepted add_hardfork of the owner
	owner := ""
	if raw := rawRecord(bc, keyMinerGN); raw != nil {
		if c, ok := o.Changes()[ledger.PathOf(keyMinerGN)]; ok && c.Old != nil {
			raw = c.Old
		}
		owner = ownerOf(raw, "OwnerId")
	}
	_, recs := w.SplitChanges(o.Changes())
	var touched []string
	for _, k := range ledger.SortedKeys(recs) {
		if strings.HasPrefix(k, "hardfork:") {
			touched = append(touched, k)
		}
	}
	accepted := isFork && o.Class == ledger.Success && t.ClientID == owner
	if len(touched) > 0 && !accepted {
		who := "non-owner"
		if t.ClientID == owner {
			who = "owner"
		}
		oc.violate(w, "record", fmt.Sprintf("C43/fork-record-changed-by/%s/%s/%s", who, o.Class, fnSig(t.FunctionName)),
			fmt.Sprintf("hard-fork records %v changed by %s (%s) of %s, owner %s", touched, t.FunctionName, o.Class, short(t.ClientID), short(owner)))
		return
	}
	if !isFork {
		return
	}
	if o.Class != ledger.Success {
		w.Tr.Probe("fork_refused")
		return
	}
	if t.ClientID != owner {
		return // nothing changed (checked above)
	}
	var in inputMap
	if err := json.Unmarshal(t.InputData, &in); err != nil {
		oc.violate(w, "record", "C43/accepted-undecodable-input", err.Error())
		return
	}
	for _, name := range sortedKeys(in.Fields) {
		rd, err := strconv.ParseInt(in.Fields[name], 10, 64)
		if err != nil {
			oc.violate(w, "record", "C43/accepted-unparsable-round", fmt.Sprintf("fork %q round %q accepted", name, in.Fields[name]))
			continue
		}
		oc.model[name] = rd
		oc.names[name] = true
		w.Tr.Probe("fork_recorded")
		switch {
		case rd == bc.B.Round:
			w.Tr.Probe("fork_recorded_at_current_round")
		case rd < bc.B.Round:
			w.Tr.Probe("fork_recorded_in_the_past")
		}
	}
	// the stored records say what the owner asked for
	for _, name := range sortedKeys(in.Fields) {
		raw := rawRecord(bc, "hardfork:"+name)
		if raw == nil {
			oc.violate(w, "record", "C43/accepted-fork-not-stored", fmt.Sprintf("fork %q absent after an accepted add_hardfork", name))
			continue
		}
		rec, err := decodeGeneric(raw)
		if err != nil {
			oc.violate(w, "record", "C43/stored-fork-does-not-decode", err.Error())
			continue
		}
		got, _ := intAt(rec, "round")
		if got != oc.model[name] {
			oc.violate(w, "record", "C43/stored-round-differs", fmt.Sprintf("fork %q stored round %v, asked %d", name, got, oc.model[name]))
		}
	}
	oc.evaluate(w, bc, "txn")
}

func (oc *oracle43) AfterBlock(w *ledger.World, bc *ledger.BlockCtx) {
	oc.evaluate(w, bc, "block")
}

// evaluate invokes the real WithActivation for every known name on the block.
func (oc *oracle43) evaluate(w *ledger.World, bc *ledger.BlockCtx, when string) {
	names := make([]string, 0, len(oc.names))
	for n := range oc.names {
		names = append(names, n)
	}
	sort.Strings(names)
	round := bc.B.Round
	withHooksOff(w, func() {
		sc := scratchCtx(w, bc, &transaction.Transaction{ClientID: w.OwnerID, CreationDate: w.Now})
		for _, name := range names {
			branch := ""
			err := cstate.WithActivation(sc, name, func() error { branch = "pre"; return nil }, func() error { branch = "post"; return nil })
			if err != nil || branch == "" {
				oc.violate(w, "activation", "C43/activation-error", fmt.Sprintf("fork %q at round %d: branch %q err %v", name, round, branch, err))
				continue
			}
			rd, recorded := oc.model[name]
			want := "pre"
			if recorded && round >= rd {
				want = "post"
			}
			if when == "block" {
				w.Tr.Event("fork %q round=%d branch=%s", name, round, branch)
			}
			if recorded {
				switch {
				case round == rd:
					w.Tr.Probe("block_at_fork_round")
				case round == rd-1:
					w.Tr.Probe("block_one_before_fork_round")
				case round > rd:
					w.Tr.Probe("block_after_fork_round")
				default:
					w.Tr.Probe("block_before_fork_round")
				}
			}
			if branch == want {
				continue
			}
			switch {
			case !recorded:
				oc.violate(w, "activation", "C43/unrecorded-fork-runs-post-fork-rules", fmt.Sprintf("fork %q never recorded, round %d ran %s", name, round, branch))
			case branch == "post":
				oc.violate(w, "activation", "C43/post-fork-rules-before-fork-round", fmt.Sprintf("fork %q recorded at %d, block round %d ran the post-fork branch", name, rd, round))
			default:
				oc.violate(w, "activation", "C43/pre-fork-rules-at-or-after-fork-round", fmt.Sprintf("fork %q recorded at %d, block round %d ran the pre-fork branch", name, rd, round))
			}
		}
	})
}
