package gov

import (
	"encoding/hex"
	"math"
	"reflect"
	"sort"
	"strconv"
	"strings"
	"time"

	"0chain.net/core/config"
	"0chain.net/core/encryption"
	"0chain.net/smartcontract/faucetsc"
	"0chain.net/smartcontract/minersc"
	"0chain.net/smartcontract/storagesc"
	"0chain.net/smartcontract/vestingsc"
	"0chain.net/smartcontract/zcnsc"

	"verif/worlds/ledger"
)

// Setting value kinds (what "parses" means for a setting).
const (
	tInt = iota
	tInt64
	tInt32
	tDuration
	tFloat
	tBool
	tString
	tCoinZCN  // decimal ZCN amount, converted to coins (x 1e10)
	tKey      // hex string
	tCost     // integer
	tCostNN   // non-negative integer (faucet, vesting)
	tStrings  // comma separated
	tUint     // zcnsc min_lock
	tAnyStr   // zcnsc owner_id: taken verbatim
	tCoinCast // zcnsc max_fee: float converted with a plain cast
)

func fromConfigType(c config.ConfigType) int {
	switch c {
	case config.Int:
		return tInt
	case config.Int64:
		return tInt64
	case config.Int32:
		return tInt32
	case config.Duration:
		return tDuration
	case config.Float64:
		return tFloat
	case config.Boolean:
		return tBool
	case config.String:
		return tString
	case config.CurrencyCoin:
		return tCoinZCN
	case config.Key:
		return tKey
	case config.Cost:
		return tCost
	case config.Strings:
		return tStrings
	}
	return tString
}

// parses is the oracle's reading of "the value parses" for a setting kind:
// the standard library conversions named by the setting's declared type.
// Deliberately lenient (an accepted value is only flagged when even this
// reading rejects it).
func parses(kind int, v string) bool {
	switch kind {
	case tInt, tCost:
		_, err := strconv.Atoi(v)
		return err == nil
	case tCostNN:
		n, err := strconv.Atoi(v)
		return err == nil && n >= 0
	case tInt64:
		_, err := strconv.ParseInt(v, 10, 64)
		return err == nil
	case tInt32:
		_, err := strconv.ParseInt(v, 10, 32)
		return err == nil
	case tUint:
		_, err := strconv.ParseUint(v, 10, 64)
		return err == nil
	case tDuration:
		_, err := time.ParseDuration(v)
		return err == nil
	case tFloat, tCoinCast:
		_, err := strconv.ParseFloat(v, 64)
		return err == nil
	case tBool:
		_, err := strconv.ParseBool(v)
		return err == nil
	case tCoinZCN:
		f, err := strconv.ParseFloat(v, 64)
		return err == nil && !math.IsNaN(f) && !math.IsInf(f, 0) && f >= 0
	case tKey:
		_, err := hex.DecodeString(v)
		return err == nil
	}
	return true
}

// target describes one governance entry point.
type target struct {
	name string
	addr string
	fn   string
	// recs are the settings records this function may change.
	recs []string
	// ownerRec / ownerPath: where the configured owner is stored.
	ownerRec  string
	ownerPath string
	// kind reports whether a (normalised) input key is a known setting and its kind.
	kind func(k string) (int, bool)
	// mutable reports whether a known setting may be changed by a transaction.
	mutable func(k string) bool
	// path maps a known setting to its path in the generic decode of the record.
	path  func(k string) string
	trim  bool     // keys and values are trimmed before use (storage)
	keys  []string // known keys, sorted (for generation and the self-check)
	pairs [][2]string
}

// settings records
var (
	keyMinerGN     = minersc.GlobalNodeKey
	keyGlobals     = minersc.GLOBALS_KEY
	keyStorageConf = storagesc.ADDRESS + encryption.Hash("storagesc_config")
	keyStorageStg  = storagesc.ADDRESS + encryption.Hash("setting_changes")
	keyFaucet      = faucetsc.ADDRESS + encryption.Hash("faucetsc_config")
	keyVesting     = vestingsc.ADDRESS + encryption.Hash("vestingsc_config")
	keyZcn         = (&zcnsc.GlobalNode{ID: zcnsc.ADDRESS}).GetKey()
)

// record descriptors: which paths of a record are not settings (counters the
// contracts keep in the same record).
type record struct {
	key      string
	name     string
	volatile func(path string) bool
}

var records = []record{
	{keyMinerGN, "miner", func(p string) bool {
		return p == "LastRound" || p == "ViewChange" || strings.HasPrefix(p, "PrevMagicBlock")
	}},
	{keyGlobals, "globals", func(p string) bool { return false }},
	{keyStorageConf, "storage", func(p string) bool { return p == "Minted" }},
	{keyStorageStg, "storage-staged", func(p string) bool { return false }},
	{keyFaucet, "faucet", func(p string) bool {
		return p == "Used" || p == "StartTime" || strings.HasPrefix(p, "StartTime") || p == "ID"
	}},
	{keyVesting, "vesting", func(p string) bool { return false }},
	{keyZcn, "zcn", func(p string) bool { return p == "ID" }},
}

func recordByKey(k string) *record {
	for i := range records {
		if records[i].key == k {
			return &records[i]
		}
	}
	return nil
}

func dotted(prefix string, k string, special map[string]string) string {
	if s, ok := special[k]; ok {
		return prefix + s
	}
	if strings.HasPrefix(k, "cost.") {
		return prefix + "Cost." + strings.TrimPrefix(k, "cost.")
	}
	segs := strings.Split(k, ".")
	for i := range segs {
		segs[i] = camel(segs[i])
	}
	return prefix + strings.Join(segs, ".")
}

var (
	tgMiner, tgGlobals, tgStorage, tgFaucet, tgVesting, tgZcn *target
	targets                                                   []*target
)

func init() {
	// ---- miner contract settings ----
	{
		var ks []string
		for k := range minersc.Settings {
			ks = append(ks, k)
		}
		sort.Strings(ks)
		tgMiner = &target{name: "miner", addr: ledger.AddrMiner, fn: "update_settings", recs: []string{keyMinerGN},
			ownerRec: keyMinerGN, ownerPath: "OwnerId", keys: ks,
			kind: func(k string) (int, bool) {
				s, ok := minersc.Settings[k]
				if !ok {
					return 0, false
				}
				return fromConfigType(s.ConfigType), true
			},
			mutable: func(string) bool { return true },
			path: func(k string) string {
				return dotted("", k, map[string]string{"t_percent": "TPercent", "k_percent": "KPercent", "x_percent": "XPercent"})
			},
			pairs: [][2]string{{"min_n", "max_n"}, {"min_s", "max_s"}, {"min_stake", "max_stake"}},
		}
	}
	// ---- chain globals (stored by the miner contract) ----
	{
		var ks []string
		for k := range config.GlobalSettingInfo {
			ks = append(ks, k)
		}
		sort.Strings(ks)
		tgGlobals = &target{name: "globals", addr: ledger.AddrMiner, fn: "update_globals", recs: []string{keyGlobals},
			ownerRec: keyMinerGN, ownerPath: "OwnerId", keys: ks,
			kind: func(k string) (int, bool) {
				s, ok := config.GlobalSettingInfo[k]
				if !ok {
					return 0, false
				}
				return fromConfigType(s.SettingType), true
			},
			mutable: func(k string) bool { return config.GlobalSettingInfo[k].Mutable },
			path:    func(k string) string { return "Fields." + k },
			pairs:   [][2]string{{"server_chain.block.min_block_size", "server_chain.block.max_block_size"}},
		}
	}
	// ---- storage contract ----
	{
		kinds := map[string]int{}
		var ks []string
		rv := reflect.ValueOf(storagesc.Settings)
		for _, mk := range rv.MapKeys() {
			e := rv.MapIndex(mk)
			kinds[mk.String()] = fromConfigType(config.ConfigType(e.Field(1).Int()))
			ks = append(ks, mk.String())
		}
		sort.Strings(ks)
		tgStorage = &target{name: "storage", addr: ledger.AddrStorage, fn: "update_settings", recs: []string{keyStorageStg, keyStorageConf},
			ownerRec: keyStorageConf, ownerPath: "OwnerId", keys: ks, trim: true,
			kind:    func(k string) (int, bool) { t, ok := kinds[k]; return t, ok },
			mutable: func(string) bool { return true },
			path: func(k string) string {
				return dotted("", k, map[string]string{"readpool.min_lock": "ReadPool.MinLock", "writepool.min_lock": "WritePool.MinLock",
					"stakepool.kill_slash": "StakePool.KillSlash", "stakepool.min_lock_period": "StakePool.MinLockPeriod"})
			},
			pairs: [][2]string{{"min_stake", "max_stake"}, {"min_write_price", "max_write_price"},
				{"free_allocation_settings.read_price_range.min", "free_allocation_settings.read_price_range.max"},
				{"free_allocation_settings.write_price_range.min", "free_allocation_settings.write_price_range.max"}},
		}
	}
	// ---- faucet ----
	{
		kinds := map[string]int{"pour_amount": tCoinZCN, "max_pour_amount": tCoinZCN, "periodic_limit": tCoinZCN, "global_limit": tCoinZCN,
			"individual_reset": tDuration, "global_rest": tDuration, "owner_id": tKey,
			"cost.update-settings": tCostNN, "cost.pour": tCostNN, "cost.refill": tCostNN}
		tgFaucet = &target{name: "faucet", addr: ledger.AddrFaucet, fn: "update-settings", recs: []string{keyFaucet},
			ownerRec: keyFaucet, ownerPath: "FaucetConfig.OwnerId", keys: sortedKeys(kinds),
			kind: func(k string) (int, bool) {
				if strings.HasPrefix(k, "cost.") {
					k = strings.ToLower(k) // the contract compares cost function names case-insensitively
				}
				t, ok := kinds[k]
				return t, ok
			},
			mutable: func(string) bool { return true },
			path: func(k string) string {
				if strings.HasPrefix(k, "cost.") {
					k = strings.ToLower(k)
				}
				return dotted("FaucetConfig.", k, map[string]string{"global_rest": "GlobalReset"})
			},
			pairs: [][2]string{{"pour_amount", "max_pour_amount"}, {"max_pour_amount", "periodic_limit"}, {"periodic_limit", "global_limit"}, {"individual_reset", "global_rest"}},
		}
	}
	// ---- vesting ----
	{
		kinds := map[string]int{"min_lock": tCoinZCN, "min_duration": tDuration, "max_duration": tDuration, "max_destinations": tInt,
			"max_description_length": tInt, "owner_id": tKey,
			"cost.add": tCostNN, "cost.delete": tCostNN, "cost.stop": tCostNN, "cost.trigger": tCostNN, "cost.unlock": tCostNN, "cost.vestingsc-update-settings": tCostNN}
		tgVesting = &target{name: "vesting", addr: ledger.AddrVesting, fn: "vestingsc-update-settings", recs: []string{keyVesting},
			ownerRec: keyVesting, ownerPath: "OwnerId", keys: sortedKeys(kinds),
			kind: func(k string) (int, bool) {
				if strings.HasPrefix(k, "cost.") {
					k = strings.ToLower(k)
				}
				t, ok := kinds[k]
				return t, ok
			},
			mutable: func(string) bool { return true },
			path: func(k string) string {
				if strings.HasPrefix(k, "cost.") {
					k = strings.ToLower(k)
				}
				return dotted("", k, nil)
			},
			pairs: [][2]string{{"min_duration", "max_duration"}},
		}
	}
	// ---- bridge (zcnsc) ----
	{
		kinds := map[string]int{zcnsc.MinMintAmount: tCoinZCN, zcnsc.MinBurnAmount: tCoinZCN, zcnsc.MinStakeAmount: tCoinZCN, zcnsc.MinStakePerDelegate: tCoinZCN,
			zcnsc.MaxStakeAmount: tCoinZCN, zcnsc.PercentAuthorizers: tFloat, zcnsc.MinAuthorizers: tInt64, zcnsc.MinLockAmount: tUint,
			zcnsc.MaxFee: tCoinCast, zcnsc.OwnerID: tAnyStr, zcnsc.MaxDelegates: tInt, zcnsc.HealthCheckPeriod: tDuration}
		special := map[string]string{zcnsc.MinMintAmount: "MinMintAmount", zcnsc.MinBurnAmount: "MinBurnAmount", zcnsc.MinStakeAmount: "MinStakeAmount",
			zcnsc.MaxStakeAmount: "MaxStakeAmount", zcnsc.MinLockAmount: "MinLockAmount"}
		tgZcn = &target{name: "zcn", addr: ledger.AddrZCN, fn: zcnsc.UpdateGlobalConfigFunc, recs: []string{keyZcn},
			ownerRec: keyZcn, ownerPath: "ZCNSConfig.OwnerId", keys: sortedKeys(kinds),
			kind:    func(k string) (int, bool) { t, ok := kinds[k]; return t, ok },
			mutable: func(string) bool { return true },
			path:    func(k string) string { return dotted("ZCNSConfig.", k, special) },
			pairs:   [][2]string{{"min_stake", "max_stake"}},
		}
	}
	targets = []*target{tgMiner, tgGlobals, tgStorage, tgFaucet, tgVesting, tgZcn}
}

func targetFor(addr, fn string) *target {
	for _, t := range targets {
		if t.addr == addr && t.fn == fn {
			return t
		}
	}
	return nil
}
