// Package gov holds the governance / protocol-schedule scenarios of the ledger
// world W1: C48 (settings), C43 (hard forks), C38 (view-change phase machine)
// and C39 (view-change node selection), plus the "gov" workload the core
// oracles (C01-C05, C07, C08) run over.
//
// Every state change goes through a real transaction (Runner.Submit ->
// Chain.UpdateState). Oracles read the real trie: raw leaf bytes for
// byte-identity, a generic msgp decode for field-level diffs, the contracts'
// exported getters / Execute entry points in scratch state contexts for
// "the contract's own validation".
package gov

import (
	"fmt"
	"math"
	"sort"
	"strings"

	"0chain.net/chaincore/chain"
	cstate "0chain.net/chaincore/chain/state"
	"0chain.net/chaincore/smartcontract"
	"0chain.net/chaincore/transaction"
	"0chain.net/core/encryption"
	"github.com/0chain/common/core/statecache"
	"github.com/0chain/common/core/util"
	"github.com/tinylib/msgp/msgp"

	"verif/worlds/ledger"
)

// rawRecord returns the raw leaf bytes stored under a contract key in the
// block under assembly (nil when absent).
func rawRecord(bc *ledger.BlockCtx, key string) []byte {
	b, err := bc.State.GetNodeValueRaw(util.Path(encryption.Hash(key)))
	if err != nil {
		return nil
	}
	return b
}

// scratchCtx builds a throw-away real StateContext over the block under
// assembly: a transaction-level MPT and cache that are never merged/committed.
func scratchCtx(w *ledger.World, bc *ledger.BlockCtx, t *transaction.Transaction) *cstate.StateContext {
	tc := statecache.NewTransactionCache(bc.Cache)
	mpt := chain.CreateTxnMPT(bc.State, tc)
	return w.C.NewStateContext(bc.B, mpt, t, nil)
}

// scratchExec runs a contract function through the registered contract's real
// Execute entry point in the given scratch context. A panic inside the
// contract is returned as an error (the scratch call runs on our goroutine).
func scratchExec(w *ledger.World, sc cstate.StateContextI, from, to, fn, raw string) (out string, err error) {
	defer func() {
		if r := recover(); r != nil {
			err = fmt.Errorf("panic: %v", r)
		}
	}()
	t := w.MakeTxn(ledger.TxnSpec{From: from, To: to, Type: transaction.TxnTypeSmartContract, Name: fn, Raw: raw})
	return smartcontract.ExecuteSmartContract(t, sc)
}

// withHooksOff runs f with the H1 registry hooks disabled, so that the
// oracle's own scratch reads and writes are not part of the observed run.
func withHooksOff(w *ledger.World, f func()) {
	h := w.Reg.Hooks
	w.Reg.Hooks = nil
	defer func() { w.Reg.Hooks = h }()
	f()
}

// decodeGeneric decodes msgp bytes into generic Go values.
func decodeGeneric(b []byte) (any, error) {
	v, rest, err := msgp.ReadIntfBytes(b)
	if err != nil {
		return nil, err
	}
	if len(rest) != 0 {
		return nil, fmt.Errorf("%d trailing bytes", len(rest))
	}
	return v, nil
}

// flatten turns a decoded record into path -> printable value ("A.B.C").
// Empty maps / nil are not recorded (nil-vs-empty tolerance).
func flatten(v any) map[string]string {
	out := map[string]string{}
	flat("", v, out)
	return out
}

func flat(prefix string, v any, out map[string]string) {
	switch x := v.(type) {
	case map[string]any:
		for k, e := range x {
			p := k
			if prefix != "" {
				p = prefix + "." + k
			}
			flat(p, e, out)
		}
	case []any:
		for i, e := range x {
			flat(fmt.Sprintf("%s[%d]", prefix, i), e, out)
		}
	case nil:
	case float64:
		out[prefix] = fmtFloat(x)
	case float32:
		out[prefix] = fmtFloat(float64(x))
	default:
		out[prefix] = fmt.Sprintf("%v", x)
	}
}

func fmtFloat(f float64) string {
	if math.IsNaN(f) {
		return "NaN"
	}
	return fmt.Sprintf("%v", f)
}

// numAt reads a numeric leaf of a decoded record (path "A.B").
func numAt(rec any, path string) (float64, bool) {
	cur := rec
	for _, seg := range strings.Split(path, ".") {
		m, ok := cur.(map[string]any)
		if !ok {
			return 0, false
		}
		cur, ok = m[seg]
		if !ok {
			return 0, false
		}
	}
	switch x := cur.(type) {
	case int64:
		return float64(x), true
	case uint64:
		return float64(x), true
	case int:
		return float64(x), true
	case float64:
		return x, true
	case float32:
		return float64(x), true
	case int32:
		return float64(x), true
	case uint32:
		return float64(x), true
	case int8:
		return float64(x), true
	case uint8:
		return float64(x), true
	case int16:
		return float64(x), true
	case uint16:
		return float64(x), true
	}
	return 0, false
}

// intAt reads an integer leaf exactly.
func intAt(rec any, path string) (int64, bool) {
	cur := rec
	for _, seg := range strings.Split(path, ".") {
		m, ok := cur.(map[string]any)
		if !ok {
			return 0, false
		}
		cur, ok = m[seg]
		if !ok {
			return 0, false
		}
	}
	switch x := cur.(type) {
	case int64:
		return x, true
	case uint64:
		return int64(x), true
	case int:
		return int64(x), true
	case int32:
		return int64(x), true
	case uint32:
		return int64(x), true
	case int16:
		return int64(x), true
	case uint16:
		return int64(x), true
	case int8:
		return int64(x), true
	case uint8:
		return int64(x), true
	}
	return 0, false
}

func strAt(rec any, path string) (string, bool) {
	cur := rec
	for _, seg := range strings.Split(path, ".") {
		m, ok := cur.(map[string]any)
		if !ok {
			return "", false
		}
		cur, ok = m[seg]
		if !ok {
			return "", false
		}
	}
	s, ok := cur.(string)
	return s, ok
}

func sortedKeys[V any](m map[string]V) []string {
	ks := make([]string, 0, len(m))
	for k := range m {
		ks = append(ks, k)
	}
	sort.Strings(ks)
	return ks
}

// camel converts snake_case to CamelCase ("read_price_range" -> "ReadPriceRange").
func camel(s string) string {
	var b strings.Builder
	up := true
	for _, c := range s {
		if c == '_' {
			up = true
			continue
		}
		if up && c >= 'a' && c <= 'z' {
			c = c - 'a' + 'A'
		}
		up = false
		b.WriteRune(c)
	}
	return b.String()
}

func short(s string) string {
	if len(s) > 8 {
		return s[:8]
	}
	return s
}
