package ledger

import (
	"fmt"
	"math/big"
	"reflect"
	"strings"

	"0chain.net/core/config"
	"github.com/0chain/common/core/util"

	"verif/sim"
)

// OracleC09: contract pool liabilities never grow without backing.
//
// L(c) = tokens contract c records as owed = over all records under c's
// address: stake pools (Σ delegate Balance + Σ delegate Reward + provider
// Reward), read pools, challenge pools, vesting pools (Balance) and the write
// pool of every allocation. Records are decoded into the Go type hook H1
// registered for their key and read by field name through reflection, so the
// oracle does not depend on contract internals beyond those field names.
//
// Per transaction: ΔL(c) ≤ B(c) + A(c) where
//
//	B(c) = upper bound of the tokens the transaction moved into c's wallet
//	     = min( Σ_{a≠c} max(0,−Δa),  ΔW(c) + Σ_{a≠c} max(0,Δa) )
//	A(c) = what c is entitled to accrue from its pre-funded wallet in this
//	       transaction, an upper bound taken from configuration (appendix A.4).
//
// The oracle is one-sided: crediting less never alarms; slashing and payouts
// reduce L and are always allowed.
type OracleC09 struct {
	feesInBlock *big.Int
}

func NewOracleC09() *OracleC09 { return &OracleC09{feesInBlock: new(big.Int)} }

func (c *OracleC09) AfterBlock(w *World, bc *BlockCtx) { c.feesInBlock = new(big.Int) }

// liability sums the owed tokens recorded in one decoded record.
func liability(v reflect.Value, typ string, depth int) *big.Int {
	sum := new(big.Int)
	if depth > 6 || !v.IsValid() {
		return sum
	}
	// versioned entities (entitywrapper.Wrapper keeps the concrete version in an
	// unexported field): descend through the exported Entity() getter
	if pv := v; pv.Kind() == reflect.Ptr && !pv.IsNil() {
		if m := pv.MethodByName("Entity"); m.IsValid() && m.Type().NumIn() == 0 && m.Type().NumOut() == 1 {
			if out := m.Call(nil)[0]; out.IsValid() && !((out.Kind() == reflect.Interface || out.Kind() == reflect.Ptr) && out.IsNil()) {
				return liability(out, typ, depth+1)
			}
		}
	}
	for v.Kind() == reflect.Ptr || v.Kind() == reflect.Interface {
		if v.IsNil() {
			return sum
		}
		v = v.Elem()
	}
	if v.Kind() != reflect.Struct {
		return sum
	}
	t := v.Type()
	name := t.Name()
	u := func(f reflect.Value) *big.Int {
		for f.Kind() == reflect.Ptr {
			if f.IsNil() {
				return new(big.Int)
			}
			f = f.Elem()
		}
		switch f.Kind() {
		case reflect.Uint64, reflect.Uint, reflect.Uint32:
			return new(big.Int).SetUint64(f.Uint())
		case reflect.Int64, reflect.Int:
			return big.NewInt(f.Int())
		}
		return new(big.Int)
	}
	switch {
	case name == "StakePool":
		if p := v.FieldByName("Pools"); p.IsValid() && p.Kind() == reflect.Map {
			for _, k := range p.MapKeys() {
				dp := p.MapIndex(k)
				for dp.Kind() == reflect.Ptr {
					if dp.IsNil() {
						break
					}
					dp = dp.Elem()
				}
				if dp.Kind() == reflect.Struct {
					sum.Add(sum, u(dp.FieldByName("Balance")))
					sum.Add(sum, u(dp.FieldByName("Reward")))
				}
			}
		}
		sum.Add(sum, u(v.FieldByName("Reward")))
		return sum
	case name == "readPool" || name == "TokenPool":
		return u(v.FieldByName("Balance"))
	case name == "StorageAllocation" || name == "storageAllocationV2" || name == "storageAllocationV1" || strings.HasPrefix(name, "storageAllocation"):
		if f := v.FieldByName("WritePool"); f.IsValid() {
			sum.Add(sum, u(f))
			return sum
		}
	}
	// generic descent: embedded pools (stakePool{*stakepool.StakePool}, challengePool{*ZcnPool},
	// vestingPool{ZcnPool}, versioned entity wrappers)
	for i := 0; i < v.NumField(); i++ {
		f := v.Field(i)
		ft := t.Field(i)
		k := f.Kind()
		if k == reflect.Ptr || k == reflect.Struct || k == reflect.Interface {
			if ft.Anonymous || strings.Contains(ft.Name, "Pool") || ft.Name == "Entity" || ft.Name == "entity" {
				sum.Add(sum, liability(f, typ, depth+1))
			}
		}
	}
	return sum
}

func (c *OracleC09) recordLiability(w *World, key string, raw []byte) (*big.Int, bool) {
	if raw == nil {
		return new(big.Int), true
	}
	v := w.Reg.NewValue(key)
	if v == nil {
		return nil, false
	}
	if _, err := v.UnmarshalMsg(raw); err != nil {
		return nil, false
	}
	return liability(reflect.ValueOf(v), typeName(v), 0), true
}

func contractOfKey(key string) string {
	for _, a := range ContractAddrs() {
		if strings.Contains(key, a) {
			return a
		}
	}
	return ""
}

func (c *OracleC09) AfterTxn(w *World, bc *BlockCtx, o *Outcome) {
	if o.Class == Rejected {
		return
	}
	t := o.Txn
	if w.C.ChainConfig.IsFeeEnabled() {
		c.feesInBlock.Add(c.feesInBlock, new(big.Int).SetUint64(uint64(t.Fee)))
	}
	accts, recs := w.SplitChanges(o.Changes())
	dL := map[string]*big.Int{}
	for key, ch := range recs {
		ca := contractOfKey(key)
		if ca == "" {
			continue
		}
		lo, ok1 := c.recordLiability(w, key, ch.Old)
		ln, ok2 := c.recordLiability(w, key, ch.New)
		if !ok1 || !ok2 {
			w.Tr.Probe("c09_undecodable_record")
			continue
		}
		d := new(big.Int).Sub(ln, lo)
		if d.Sign() != 0 {
			if dL[ca] == nil {
				dL[ca] = new(big.Int)
			}
			dL[ca].Add(dL[ca], d)
			w.Tr.Probe("c09_liability_change")
		}
	}
	for ca, d := range dL {
		if d.Sign() <= 0 {
			continue
		}
		// bound of the inflow into ca's wallet
		dec, inc, dW := new(big.Int), new(big.Int), new(big.Int)
		for _, a := range accts {
			da := a.BalDelta()
			if a.ID == ca {
				dW = da
				continue
			}
			if da.Sign() < 0 {
				dec.Sub(dec, da)
			} else {
				inc.Add(inc, da)
			}
		}
		b2 := new(big.Int).Add(dW, inc)
		B := dec
		if b2.Cmp(B) < 0 {
			B = b2
		}
		if B.Sign() < 0 {
			B = new(big.Int)
		}
		A := c.entitlement(w, bc, ca, t.FunctionName)
		lim := new(big.Int).Add(B, A)
		if d.Cmp(lim) > 0 {
			w.Tr.Violate(&sim.Violation{Prop: "C09", Oracle: "liabilities", Sig: fmt.Sprintf("C09/liability-grew-without-backing/%s/%s", shortAddr(ca), t.FunctionName),
				Detail: fmt.Sprintf("contract %s: recorded liabilities +%s, inflow bound %s, entitlement %s", shortAddr(ca), d, B, A)})
		} else {
			w.Tr.Probe("c09_backed_growth")
		}
	}
}

func shortAddr(a string) string {
	switch a {
	case AddrMiner:
		return "minersc"
	case AddrStorage:
		return "storagesc"
	case AddrZCN:
		return "zcnsc"
	case AddrVesting:
		return "vestingsc"
	case AddrFaucet:
		return "faucetsc"
	case AddrMultisig:
		return "multisigsc"
	}
	return a
}

// entitlement is an upper bound, taken from configuration, of what a contract
// may credit from its pre-funded wallet in one transaction.
func (c *OracleC09) entitlement(w *World, bc *BlockCtx, ca, fn string) *big.Int {
	sc := config.SmartContractConfig
	coin := func(key string) *big.Int {
		f := sc.GetFloat64(key)
		if f <= 0 {
			return new(big.Int)
		}
		bf := new(big.Float).Mul(big.NewFloat(f), big.NewFloat(1e10))
		out, _ := bf.Int(nil)
		return out
	}
	switch {
	case ca == AddrMiner && (fn == "payFees" || fn == "pay_fees"):
		a := new(big.Int).Set(c.feesInBlock)
		return a.Add(a, coin("smart_contracts.minersc.block_reward"))
	case ca == AddrStorage && fn == "blobber_block_rewards":
		return coin("smart_contracts.storagesc.block_reward.block_reward")
	case ca == AddrZCN && fn == "mint":
		return coin("smart_contracts.zcnsc.max_fee")
	}
	return new(big.Int)
}

func init() {
	sc := Scenario{Prop: "C09", Weights: map[string]int{"send": 3, "call": 14, "pour": 3, "data": 0, "replay": 1, "block": 4, "clock": 2}, Lo: 20, Hi: 120, Mixed: true}
	sc.Early = func(w *World) []Observer { return []Observer{NewOracleC09()} }
	sim.Register(&sim.Check{
		ID: "C09", Title: "Contract pool liabilities never grow without backing", World: "ledger",
		Gen: sc.Gen, Exec: sc.Exec,
		Quick: sim.Budget{Runs: 320, WallS: 90}, Thorough: sim.Budget{Runs: 20000, WallS: 1500},
		LevelText: "seeded search over the base and every registered contract workload (storage, staking, bridge, vesting…); per transaction the growth of each contract's recorded liabilities (stake/read/challenge/vesting pools, write pools, unpaid rewards; decoded from the real trie diff by registered Go type and field name) is bounded by an upper bound of the inflow into its wallet plus a configuration-derived entitlement (block reward + block fees on fee payment, storage block reward, bridge max fee)",
		LevelNote: "one-sided oracle (crediting less never alarms); the inflow bound is min(Σ debits of other accounts, ΔW + Σ credits of other accounts), which is weaker than exact transfer tracking; entitlement constants are read from sc.yaml as configuration, not recomputed from contract logic; probes c09_liability_change / c09_backed_growth show how often liabilities really moved",
		Technique: "deterministic simulation: contract workloads with failure/replay faults, liability-vs-backing oracle on the MPT diff",
		DesignRef: "6/C09, A.4", Regime: "single-threaded event loop", Components: w1Components,
	})
}

var _ util.Key
