package ledger

import (
	"reflect"
	"sync"

	cstate "0chain.net/chaincore/chain/state"
	"0chain.net/chaincore/transaction"
	"0chain.net/core/datastore"
	"0chain.net/core/encryption"
	"github.com/0chain/common/core/util"
)

// Access is one contract-level trie access reported by hook H1.
type Access struct {
	Op  int
	Key string
	V   util.MPTSerializable
	Err error
	SC  *cstate.StateContext
}

// Registry is fed by hook H1: it learns key -> Go type, hence which MPT leaves
// are contract records (path = Hash(key)) and how to decode them.
type Registry struct {
	PathKey  map[string]string       // leaf path -> contract key
	KeyType  map[string]reflect.Type // contract key -> Go type of the stored value
	cur      *transaction.Transaction
	Accesses []Access // accesses of the transaction in flight
	Hooks    []func(a *Access)
	Inserts  int
	Reads    int
}

func NewRegistry() *Registry {
	return &Registry{PathKey: map[string]string{}, KeyType: map[string]reflect.Type{}}
}

func (r *Registry) BeginTxn(t *transaction.Transaction) { r.cur = t; r.Accesses = r.Accesses[:0] }
func (r *Registry) EndTxn()                             { r.cur = nil }

// PathOf returns the MPT path of a contract key.
func PathOf(key string) string { return string(util.Path(encryption.Hash(key))) }

func (w *World) installObserver() {
	r := w.Reg
	var mu sync.Mutex
	cstate.VerifObserver = func(sc *cstate.StateContext, op int, key datastore.Key, v util.MPTSerializable, err error) {
		mu.Lock()
		defer mu.Unlock()
		k := string(key)
		if _, ok := r.PathKey[PathOf(k)]; !ok {
			r.PathKey[PathOf(k)] = k
		}
		if v != nil && err == nil {
			t := reflect.TypeOf(v)
			if _, ok := r.KeyType[k]; !ok || op == cstate.VerifOpInsert {
				r.KeyType[k] = t
			}
		}
		switch op {
		case cstate.VerifOpInsert:
			r.Inserts++
		case cstate.VerifOpGetCached, cstate.VerifOpGetTrie:
			r.Reads++
		}
		a := Access{Op: op, Key: k, V: v, Err: err, SC: sc}
		r.Accesses = append(r.Accesses, a)
		for _, h := range r.Hooks {
			h(&a)
		}
	}
}

// IsContractPath reports whether a leaf path belongs to a contract record seen so far.
func (r *Registry) IsContractPath(p string) (string, bool) {
	k, ok := r.PathKey[p]
	return k, ok
}

// NewValue returns a fresh value of the registered type of key (nil when unknown).
func (r *Registry) NewValue(key string) util.MPTSerializable {
	t, ok := r.KeyType[key]
	if !ok {
		return nil
	}
	if t.Kind() == reflect.Ptr {
		v, _ := reflect.New(t.Elem()).Interface().(util.MPTSerializable)
		return v
	}
	return nil
}
