package ledger

import (
	"bytes"
	"encoding/json"
	"fmt"

	"0chain.net/chaincore/block"
	"0chain.net/chaincore/chain"
	"0chain.net/chaincore/transaction"
	"github.com/0chain/common/core/util"
	"github.com/linxGnu/grocksdb"
)

// Replica is a second real chain.Chain with its own persistent node DB on its
// own simulated disk and its own state cache, started from the same genesis.
// It executes blocks the way a verifier does: from the wire form of the
// block, through the shipped Block.ComputeState.
type Replica struct {
	W        *World
	Name     string
	C        *chain.Chain
	DiskPath string
	Disk     *grocksdb.Disk
	Genesis  *block.Block
	Blocks   map[string]*block.Block // replica's own copies by hash
}

// NewReplica creates a replica and runs the shipped genesis path on it.
func (w *World) NewReplica(name string) *Replica {
	rp := &Replica{W: w, Name: name, Blocks: map[string]*block.Block{}}
	rp.DiskPath = fmt.Sprintf("/simdisk/w1/%d-%s", w.Seed, name)
	grocksdb.SimRemove(rp.DiskPath + "/data/rocksdb/state")
	chain.SetupStateDB(rp.DiskPath)
	rp.Disk = grocksdb.SimDisk(rp.DiskPath + "/data/rocksdb/state")
	c := chain.NewChainFromConfig()
	c.SetupStateCache()
	rp.C = c
	go c.StartLFMBWorker(w.Ctx)
	rp.Genesis = w.genesisOn(c)
	rp.Blocks[rp.Genesis.Hash] = rp.Genesis
	w.replicas = append(w.replicas, rp)
	// genesis must be deterministic as well
	if !bytes.Equal(rp.Genesis.ClientStateHash, w.Genesis.ClientStateHash) {
		panic(fmt.Sprintf("genesis root differs on replica %s", name))
	}
	return rp
}

// WireCopy serialises a block as it travels between nodes and decodes it into
// a fresh entity (what a verifier starts from).
func WireCopy(b *block.Block) (*block.Block, error) {
	// JSON wire form, decoded with encoding/json directly: the datastore codec
	// would call ComputeProperties, which insists on a public key per transaction.
	buf, err := json.Marshal(b)
	if err != nil {
		return nil, err
	}
	nb := &block.Block{}
	if err := json.Unmarshal(buf, nb); err != nil {
		return nil, err
	}
	if len(nb.Txns) != len(b.Txns) {
		return nil, fmt.Errorf("wire copy lost transactions: %d of %d", len(nb.Txns), len(b.Txns))
	}
	// On the wire a transaction carries its public key and the receiver derives
	// the client id from it (Transaction.ComputeProperties). The sim's accounts
	// do not all have known keys, so the sender id is carried over directly; the
	// contract-call envelope is parsed exactly as ComputeProperties does.
	for i, t := range nb.Txns {
		t.ClientID = b.Txns[i].ClientID
		t.SmartContractData = &transaction.SmartContractData{}
		if t.TransactionType == transaction.TxnTypeSmartContract {
			if err := json.Unmarshal([]byte(t.TransactionData), t.SmartContractData); err != nil {
				// keep what the generator executed (malformed envelopes are part of the workload)
				t.SmartContractData = b.Txns[i].SmartContractData
			}
		}
	}
	nb.ChainID = b.ChainID
	return nb, nil
}

// ExecResult is what one execution of a block yields (C06 compares these).
type ExecResult struct {
	Err         string
	Root        string
	ChangeCount int
	Status      []int
	Outputs     []string
	OutHashes   []string
	Events      []string // canonical JSON of each event, in order
}

// Execute runs the block on the replica through the shipped ComputeState.
// coldCache drops the replica's shared state cache first.
func (rp *Replica) Execute(src *block.Block, coldCache bool) (*block.Block, *ExecResult) {
	res := &ExecResult{}
	nb, err := WireCopy(src)
	if err != nil {
		res.Err = "wire: " + err.Error()
		return nil, res
	}
	prev := rp.Blocks[src.PrevHash]
	if prev == nil {
		res.Err = "previous block unknown on replica"
		return nil, res
	}
	nb.SetPreviousBlock(prev)
	// node-local chain facts are not what is varied here: the replica has the same latest
	// finalized magic block as the primary (workloads may move the primary's, e.g. govvc)
	if lfmb := rp.W.C.GetLatestFinalizedMagicBlock(rp.W.Ctx); lfmb != nil {
		if cur := rp.C.GetLatestFinalizedMagicBlock(rp.W.Ctx); cur == nil || cur.Hash != lfmb.Hash || cur.MagicBlock != lfmb.MagicBlock {
			rp.C.SetLatestFinalizedMagicBlock(lfmb)
		}
	}
	if coldCache {
		rp.C.SetupStateCache()
	}
	err = nb.ComputeState(rp.W.Ctx, rp.C)
	if err != nil {
		res.Err = err.Error()
	}
	if nb.ClientState != nil {
		res.Root = util.ToHex(nb.ClientState.GetRoot())
		res.ChangeCount = nb.ClientState.GetChangeCount()
	}
	for _, t := range nb.Txns {
		res.Status = append(res.Status, t.Status)
		res.Outputs = append(res.Outputs, t.TransactionOutput)
		res.OutHashes = append(res.OutHashes, t.ComputeOutputHash())
	}
	for _, e := range nb.Events {
		res.Events = append(res.Events, CanonEvent(e.Type, e.Tag, e.Index, e.TxHash, e.Data))
	}
	if err == nil {
		rp.Blocks[nb.Hash] = nb
		rp.C.AddBlock(nb)
	}
	return nb, res
}

// Save persists the replica's copy of a block through the shipped SaveChanges.
func (rp *Replica) Save(b *block.Block) error { return rp.C.SaveChanges(rp.W.Ctx, b) }

// Restart drops every in-memory object of the replica and rebuilds it from its
// simulated disk only: a new PNodeDB over the same disk, a new chain, and the
// given block re-attached with its state recreated from the persisted root.
func (rp *Replica) Restart(head *block.Block) error {
	rp.Disk.Recover()
	chain.SetupStateDB(rp.DiskPath)
	c := chain.NewChainFromConfig()
	c.SetupStateCache()
	c.SetMagicBlock(rp.W.MB)
	go c.StartLFMBWorker(rp.W.Ctx)
	if err := c.UpdateMagicBlock(rp.W.MB); err != nil {
		return err
	}
	rp.C = c
	nb, err := WireCopy(head)
	if err != nil {
		return err
	}
	nb.MagicBlock = head.MagicBlock
	nb.CreateState(c.GetStateDB(), head.ClientStateHash)
	nb.SetStateStatus(block.StateSuccessful)
	// the root must be readable from disk
	if _, err := c.GetStateDB().GetNode(head.ClientStateHash); err != nil {
		return fmt.Errorf("root of block %d not on disk after restart: %w", head.Round, err)
	}
	rp.Blocks = map[string]*block.Block{nb.Hash: nb}
	c.AddBlock(nb)
	c.SetLatestFinalizedBlock(nb)
	gb := rp.Genesis
	c.SetLatestFinalizedMagicBlock(gb)
	return nil
}

// CanonEvent renders an event in a canonical, order-preserving textual form.
func CanonEvent(typ, tag any, index, txHash string, data any) string {
	b, err := json.Marshal(data)
	if err != nil {
		b = []byte(fmt.Sprintf("%#v", data))
	}
	return fmt.Sprintf("%v/%v/%s/%s/%s", typ, tag, index, txHash, string(b))
}

// GeneratorResult collects the same observables from the assembling side.
func GeneratorResult(bc *BlockCtx) *ExecResult {
	res := &ExecResult{Root: util.ToHex(bc.State.GetRoot()), ChangeCount: bc.State.GetChangeCount()}
	for _, o := range bc.Outs {
		if o.Class == Rejected {
			continue
		}
		res.Status = append(res.Status, o.Txn.Status)
		res.Outputs = append(res.Outputs, o.Txn.TransactionOutput)
		res.OutHashes = append(res.OutHashes, o.Txn.OutputHash)
		for _, e := range o.Events {
			res.Events = append(res.Events, CanonEvent(e.Type, e.Tag, e.Index, e.TxHash, e.Data))
		}
	}
	return res
}

var _ = transaction.TxnSuccess
