package ledger

import (
	"fmt"
	"math/big"

	"0chain.net/chaincore/chain"
	"0chain.net/chaincore/state"
	"0chain.net/chaincore/transaction"
	"0chain.net/core/config"
	"github.com/0chain/common/core/statecache"
	"github.com/0chain/common/core/util"

	"verif/sim"
)

func chainCreateTxnMPT(mpt util.MerklePatriciaTrieI, tc *statecache.TransactionCache) util.MerklePatriciaTrieI {
	return chain.CreateTxnMPT(mpt, tc)
}

// AccountDelta is the change of one account leaf in a transaction.
type AccountDelta struct {
	ID       string
	Old, New *state.State // nil = absent
}

func (d AccountDelta) BalDelta() *big.Int {
	var o, n uint64
	if d.Old != nil {
		o = uint64(d.Old.Balance)
	}
	if d.New != nil {
		n = uint64(d.New.Balance)
	}
	return new(big.Int).Sub(new(big.Int).SetUint64(n), new(big.Int).SetUint64(o))
}

// SplitChanges classifies the changed leaves of an outcome into account
// deltas and contract-record changes (DESIGN appendix A.3). A leaf that is
// neither a known contract record nor decodable as an account is harness
// trouble (panic), so classification gaps cannot hide tokens.
func (w *World) SplitChanges(ch map[string]LeafChange) (accts []AccountDelta, recs map[string]LeafChange) {
	recs = map[string]LeafChange{}
	for _, p := range SortedKeys(ch) {
		c := ch[p]
		if k, ok := w.Reg.IsContractPath(p); ok {
			recs[k] = c
			continue
		}
		d := AccountDelta{ID: p}
		var err error
		if c.Old != nil {
			if d.Old, err = DecodeAccount(c.Old); err != nil {
				panic(fmt.Sprintf("unclassified leaf at path %s (old): %v", p, err))
			}
		}
		if c.New != nil {
			if d.New, err = DecodeAccount(c.New); err != nil {
				panic(fmt.Sprintf("unclassified leaf at path %s (new): %v", p, err))
			}
		}
		accts = append(accts, d)
	}
	return
}

// SumAccounts walks the whole trie and sums every account balance.
func (w *World) SumAccounts(ndb util.NodeDB, root util.Key) (*big.Int, int, error) {
	ls, err := Leaves(ndb, root)
	if err != nil {
		return nil, 0, err
	}
	sum := new(big.Int)
	n := 0
	for p, v := range ls {
		if _, ok := w.Reg.IsContractPath(p); ok {
			continue
		}
		s, err := DecodeAccount(v)
		if err != nil {
			panic(fmt.Sprintf("unclassified leaf at path %s: %v", p, err))
		}
		sum.Add(sum, new(big.Int).SetUint64(uint64(s.Balance)))
		n++
	}
	return sum, n, nil
}

var supply = new(big.Int).SetUint64(uint64(config.MaxTokenSupply))
var two64 = new(big.Int).Lsh(big.NewInt(1), 64)

// ---- C01: conservation ----------------------------------------------------------------------------

type OracleC01 struct{}

func (OracleC01) AfterTxn(w *World, bc *BlockCtx, o *Outcome) {
	if o.Class == Rejected {
		return
	}
	accts, _ := w.SplitChanges(o.Changes())
	sum := new(big.Int)
	for _, a := range accts {
		sum.Add(sum, a.BalDelta())
	}
	if sum.Sign() != 0 {
		fn := o.Txn.FunctionName
		w.Tr.Violate(&sim.Violation{Prop: "C01", Oracle: "txn-sum", Sig: fmt.Sprintf("C01/txn-sum/type%d/%s/%s", o.Txn.TransactionType, fn, sgn(sum)),
			Detail: fmt.Sprintf("transaction %s changed the sum of account balances by %s", o.Txn.Hash, sum.String())})
	}
}

func (OracleC01) AfterBlock(w *World, bc *BlockCtx) {
	sum, n, err := w.SumAccounts(bc.State.GetNodeDB(), bc.State.GetRoot())
	if err != nil {
		w.Tr.Violate(&sim.Violation{Prop: "C01", Oracle: "walk", Sig: "C01/walk-failed", Detail: err.Error()})
		return
	}
	w.Tr.Event("supply accounts=%d sum=%s", n, sum.String())
	if sum.Cmp(supply) != 0 {
		w.Tr.Violate(&sim.Violation{Prop: "C01", Oracle: "block-sum", Sig: "C01/block-sum/" + sgn(new(big.Int).Sub(sum, supply)),
			Detail: fmt.Sprintf("sum of balances after block %d is %s, supply %s", bc.B.Round, sum, supply)})
	}
}

func sgn(b *big.Int) string {
	if b.Sign() > 0 {
		return "created"
	}
	return "destroyed"
}

// ---- C03: nonce order, exactly once ---------------------------------------------------------------

type OracleC03 struct {
	nonce   map[string]int64 // per fork head: keyed by account, for the single chain we build
	applied map[string]bool
}

func NewOracleC03() *OracleC03 {
	return &OracleC03{nonce: map[string]int64{}, applied: map[string]bool{}}
}

func (c *OracleC03) AfterTxn(w *World, bc *BlockCtx, o *Outcome) {
	t := o.Txn
	model, ok := c.nonce[t.ClientID]
	if !ok {
		// first sighting: the nonce the trie held before this transaction
		model = o.PreNonce
	}
	if o.Class == Rejected {
		c.nonce[t.ClientID] = model
		// a rejected transaction must leave the root untouched (C05 checks that); nothing to do
		return
	}
	if t.Nonce != model+1 {
		w.Tr.Violate(&sim.Violation{Prop: "C03", Oracle: "order", Sig: "C03/applied-with-wrong-nonce",
			Detail: fmt.Sprintf("txn nonce %d applied while account nonce was %d", t.Nonce, model)})
	}
	if c.applied[t.Hash] {
		w.Tr.Violate(&sim.Violation{Prop: "C03", Oracle: "once", Sig: "C03/applied-twice", Detail: "transaction " + t.Hash + " applied twice"})
	}
	c.applied[t.Hash] = true
	after := o.PostNonce
	if after != model+1 {
		w.Tr.Violate(&sim.Violation{Prop: "C03", Oracle: "increment", Sig: fmt.Sprintf("C03/nonce-not-incremented-by-one/%s", o.Class),
			Detail: fmt.Sprintf("account nonce %d -> %d after an applied transaction", model, after)})
	}
	c.nonce[t.ClientID] = after
}

func (c *OracleC03) AfterBlock(w *World, bc *BlockCtx) {}

// ---- C05: no overdraw / wrap ----------------------------------------------------------------------

type OracleC05 struct{}

func (OracleC05) AfterTxn(w *World, bc *BlockCtx, o *Outcome) {
	t := o.Txn
	if t.TransactionType == transaction.TxnTypeSend && o.Class != Rejected {
		// reference arithmetic in big integers: value + fee must have been covered
		bal := o.PreBal
		need := new(big.Int).SetUint64(uint64(t.Value))
		if w.C.ChainConfig.IsFeeEnabled() {
			need.Add(need, new(big.Int).SetUint64(uint64(t.Fee)))
		}
		if need.Cmp(new(big.Int).SetUint64(uint64(bal))) > 0 {
			w.Tr.Violate(&sim.Violation{Prop: "C05", Oracle: "overdraw", Sig: "C05/send-exceeding-balance-applied",
				Detail: fmt.Sprintf("send of value+fee %s applied with balance %d", need, uint64(bal))})
		}
	}
	if o.Class == Rejected {
		if string(o.RootPre) != string(o.RootPost) {
			w.Tr.Violate(&sim.Violation{Prop: "C05", Oracle: "rejected-root", Sig: fmt.Sprintf("C05/rejected-changed-root/type%d/%s", o.Txn.TransactionType, o.Txn.FunctionName),
				Detail: "a rejected transaction changed the block state root"})
		}
		return
	}
	accts, _ := w.SplitChanges(o.Changes())
	for _, a := range accts {
		// (not meaningful once the run has poked a balance near 2^64 into the trie itself)
		if !w.Poked && a.New != nil && new(big.Int).SetUint64(uint64(a.New.Balance)).Cmp(supply) > 0 {
			w.Tr.Violate(&sim.Violation{Prop: "C05", Oracle: "wrap", Sig: fmt.Sprintf("C05/balance-exceeds-supply/type%d/%s", o.Txn.TransactionType, o.Txn.FunctionName),
				Detail: fmt.Sprintf("account %s balance %d exceeds the total supply (wrapped)", a.ID, uint64(a.New.Balance))})
		}
	}
	// a sum of deltas that is non-zero as integers but zero modulo 2^64 is a wrap-around
	sum := new(big.Int)
	for _, a := range accts {
		sum.Add(sum, a.BalDelta())
	}
	if sum.Sign() != 0 && new(big.Int).Mod(sum, two64).Sign() == 0 {
		w.Tr.Violate(&sim.Violation{Prop: "C05", Oracle: "wrap", Sig: fmt.Sprintf("C05/sum-wrapped/type%d/%s", t.TransactionType, t.FunctionName),
			Detail: "balance deltas cancel only modulo 2^64: " + sum.String()})
	}
}

func (OracleC05) AfterBlock(w *World, bc *BlockCtx) {}
