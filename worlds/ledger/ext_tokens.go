package ledger

import "math/big"

// Extension points used by the token-contract workloads (verif/worlds/ledger/tokens).

// AuthoriseDebit tells the C04 oracle — when one is attached to this world —
// that the workload has itself verified an authorisation (e.g. re-verified a
// multisig threshold signature) for a debit of at most max from account id by
// the next transaction. It reports whether a C04 oracle was attached. The
// authorisation is dropped after the next transaction (OracleC04.AfterTxn).
func (w *World) AuthoriseDebit(id string, max *big.Int) bool {
	ok := false
	for _, o := range w.obs {
		if c, is := o.(*OracleC04); is {
			c.Auth[id] = new(big.Int).Set(max)
			ok = true
		}
	}
	return ok
}

// WorkloadName returns the name of the registered workload a mixed (core
// oracle) plan selected, "base" when none.
func WorkloadName(k int) string {
	ns := workloadNames()
	if k < 0 || k >= len(ns) {
		return "base"
	}
	return ns[k]
}
