package staking

import (
	"encoding/json"
	"fmt"
	"sort"

	"0chain.net/chaincore/transaction"
	"0chain.net/core/config"
	"0chain.net/smartcontract/minersc"
	"0chain.net/smartcontract/stakepool"
	"0chain.net/smartcontract/stakepool/spenum"
	"0chain.net/smartcontract/storagesc"
	"0chain.net/smartcontract/zcnsc"
	"github.com/0chain/common/core/currency"

	"verif/sim"
	"verif/worlds/ledger"
)

// ---- plan generation ------------------------------------------------------------------------------

// Mix is the weight of each staking step kind in the main phase of a plan.
type Mix struct {
	Reg, Lock, Unlock, Collect, PayFees, Kill, Shutdown, Settings, Check, Block, Clock, Replay, Junk, Alloc int
	// KilledGen: tenths of the plans that carry the "killed generator" episode (see genExtra)
	KilledGen int
}

var (
	mixWorkload = Mix{Reg: 2, Lock: 6, Unlock: 4, Collect: 3, PayFees: 5, Kill: 2, Shutdown: 2, Settings: 2, Check: 0, Block: 5, Clock: 2, Replay: 2, Junk: 2, Alloc: 1}
	mixC11      = Mix{Reg: 2, Lock: 8, Unlock: 7, Collect: 4, PayFees: 4, Kill: 2, Shutdown: 1, Settings: 1, Check: 2, Block: 5, Clock: 3, Replay: 2, Junk: 2, Alloc: 1}
	mixC10      = Mix{Reg: 2, Lock: 6, Unlock: 2, Collect: 2, PayFees: 7, Kill: 1, Shutdown: 1, Settings: 3, Check: 5, Block: 5, Clock: 1, Replay: 1, Junk: 1}
	mixC22      = Mix{Reg: 2, Lock: 5, Unlock: 2, Collect: 2, PayFees: 10, Kill: 2, Shutdown: 0, Settings: 4, Check: 0, Block: 6, Clock: 1, Replay: 2, Junk: 1, KilledGen: 6}
	mixC23      = Mix{Reg: 2, Lock: 5, Unlock: 3, Collect: 2, PayFees: 4, Kill: 6, Shutdown: 6, Settings: 2, Check: 3, Block: 5, Clock: 1, Replay: 2, Junk: 1, Alloc: 2}
)

// genExtra returns the plan generator of a mix. The plan it produces is:
// swarm knobs; a bootstrap prefix (register providers, stake them, seal a
// block); a main phase of symbolic staking steps with the base steps the
// scenario generated interleaved. Every step resolves its arguments against
// the world at execution time, so any subset of steps is executable.
func genExtra(mix Mix) func(r *sim.RNG, p *sim.Plan, tier string) {
	return func(r *sim.RNG, p *sim.Plan, tier string) {
		sw := r.Child("sw")
		// the "killed generator" episode draws from its own stream, so the rest of the plan of a
		// seed is what it was without it
		kg := r.Child("killedgen")
		kgOn := mix.KilledGen > 0 && kg.Intn(10) < mix.KilledGen
		p.Cfg["clients"] = int64(sw.Range(8, 14))
		p.Cfg["miners"] = int64(sw.Range(1, 4))
		if kgOn {
			p.Cfg["miners"] = int64(kg.Range(2, 4))
		}
		p.Cfg["sharders"] = int64(sw.Range(1, 4))
		// genesis pays all accounts out of the miner contract's allotment (1.5e18): keep 24 accounts below it
		p.Cfg["funding"] = []int64{1e13, 1e12, 5e16, 3e10}[sw.Pick([]int{6, 2, 2, 1})]
		p.Cfg["blobbers"] = int64(sw.Pick([]int{1, 3, 3, 2}))
		p.Cfg["validators"] = int64(sw.Pick([]int{2, 3, 2}))
		p.Cfg["authorizers"] = int64(sw.Pick([]int{3, 3, 1}))
		frate := []int{0, 8, 20, 35}[sw.Pick([]int{2, 3, 3, 1})]
		p.Cfg["frate"] = int64(frate)
		fault := func() int64 {
			if frate > 0 && sw.Intn(100) < frate {
				return int64(1 + sw.Intn(6))
			}
			return 0
		}

		base := p.Steps
		var steps []sim.Step
		// bootstrap: register providers of every kind, stake most of them
		type pk struct {
			kind int
			n    int
		}
		kinds := []pk{{1, int(p.Cfg["miners"])}, {2, int(p.Cfg["sharders"])}, {3, int(p.Cfg["blobbers"])}, {4, int(p.Cfg["validators"])}, {5, int(p.Cfg["authorizers"])}}
		nprov := 0
		for _, k := range kinds {
			for i := 0; i < k.n; i++ {
				if sw.Intn(10) == 0 && !(kgOn && k.kind == 1) {
					continue // leave some unregistered
				}
				steps = append(steps, sim.Step{Op: "st.reg", I: []int64{int64(k.kind), int64(i), int64(sw.Pick([]int{5, 2, 2, 2, 2, 1, 1})), int64(sw.Pick([]int{4, 2, 3, 2, 2, 1, 1, 1})), int64(sw.Intn(16)), int64(sw.Pick([]int{6, 4, 1})), 0}})
				if kgOn && k.kind == 1 {
					// every miner registered, with room for delegates (10 or 200)
					steps[len(steps)-1].I[3] = int64(4 + kg.Intn(2))
				}
				nprov++
			}
		}
		for i := 0; i < nprov; i++ {
			n := sw.Pick([]int{1, 4, 3, 2, 1})
			for j := 0; j < n; j++ {
				steps = append(steps, sim.Step{Op: "st.lock", A: sw.Intn(20), I: []int64{0, int64(i), int64(sw.Pick([]int{6, 4, 1, 0, 0, 0, 0, 0, 0, 0, 0, 0, 3, 3})), int64(sw.Pick([]int{6, 4, 1})), 0}})
			}
		}
		if kgOn {
			steps = append(steps, genKilledGenBootstrap(kg, int(p.Cfg["miners"]))...)
		}
		steps = append(steps, sim.Step{Op: "block", I: []int64{0, 1}})
		if sw.Intn(2) == 0 {
			// more than one rewarded sharder (the shipped setting is 1)
			steps = append(steps, sim.Step{Op: "st.settings", I: []int64{int64(14 + sw.Intn(2)), 0, 0}})
		}
		if sw.Intn(3) == 0 {
			// stakes that a kill slashes to exactly zero: kill_slash = 1, or a minimum stake of 0 and 1-unit stakes
			if k := sw.Intn(3); k == 0 {
				steps = append(steps, sim.Step{Op: "st.settings", I: []int64{2, 2, 0}})
			} else if k == 1 {
				// kill_slash = 0: the pool must still be marked dead (and keeps its stakes)
				steps = append(steps, sim.Step{Op: "st.settings", I: []int64{3, 2, 0}})
			} else {
				steps = append(steps, sim.Step{Op: "st.settings", I: []int64{13, 2, 0}})
				for j := 0; j < 3; j++ {
					steps = append(steps, sim.Step{Op: "st.lock", A: sw.Intn(20), I: []int64{int64(3 + sw.Intn(2)), int64(sw.Intn(8)), 11, 0, 0}})
				}
			}
		}
		if mix.Alloc > 0 && sw.Intn(3) == 0 {
			steps = append(steps, sim.Step{Op: "st.alloc", A: sw.Intn(20), I: []int64{0, int64(sw.Intn(3))}})
		}

		// main phase
		n := sw.Range(20, 60)
		if tier == "thorough" {
			n = sw.Range(30, 160)
		}
		ws := []int{mix.Reg, mix.Lock, mix.Unlock, mix.Collect, mix.PayFees, mix.Kill, mix.Shutdown, mix.Settings, mix.Check, mix.Block, mix.Clock, mix.Replay, mix.Junk, mix.Alloc}
		var main []sim.Step
		for i := 0; i < n; i++ {
			switch sw.Pick(ws) {
			case 0:
				main = append(main, sim.Step{Op: "st.reg", I: []int64{int64(1 + sw.Intn(5)), int64(sw.Intn(4)), int64(sw.Intn(7)), int64(sw.Intn(8)), int64(sw.Intn(16)), int64(sw.Pick([]int{6, 4, 1})), fault()}})
			case 1:
				main = append(main, sim.Step{Op: "st.lock", A: sw.Intn(20), I: []int64{int64(sw.Pick([]int{6, 1, 1, 1, 1, 1})), int64(sw.Intn(32)), int64(sw.Pick([]int{6, 4, 2, 2, 2, 2, 2, 2, 1, 1, 1, 1, 4, 4})), int64(sw.Pick([]int{6, 4, 1, 1})), fault()}})
			case 2:
				main = append(main, sim.Step{Op: "st.unlock", A: sw.Intn(20), I: []int64{int64(sw.Pick([]int{6, 1, 1, 1, 1, 1})), int64(sw.Intn(32)), int64(sw.Pick([]int{8, 2})), int64(sw.Intn(8)), int64(sw.Pick([]int{6, 4, 1})), fault(), int64(sw.Pick([]int{5, 1}))}})
			case 3:
				main = append(main, sim.Step{Op: "st.collect", A: sw.Intn(20), I: []int64{int64(sw.Pick([]int{6, 1, 1, 1, 1, 1})), int64(sw.Intn(32)), int64(sw.Pick([]int{6, 3, 2})), int64(sw.Intn(8)), int64(sw.Pick([]int{6, 4, 1})), fault()}})
			case 4:
				who, rk := int64(0), int64(0)
				if f := fault(); f != 0 {
					if f%2 == 0 {
						who = 1 + f%3
					} else {
						rk = 1 + f%3
					}
				}
				main = append(main, sim.Step{Op: "st.payfees", A: sw.Intn(20), I: []int64{who, rk, int64(sw.Pick([]int{12, 1}))}})
			case 5:
				caller := int64(0)
				if f := fault(); f != 0 {
					caller = 1 + f%3
				}
				main = append(main, sim.Step{Op: "st.kill", A: sw.Intn(20), I: []int64{int64(sw.Pick([]int{4, 1, 1, 3, 3})), int64(sw.Intn(32)), caller, int64(sw.Pick([]int{6, 4, 1})), fault()}})
			case 6:
				caller := int64(sw.Pick([]int{3, 3}))
				if f := fault(); f != 0 {
					caller = 2 + f%2
				}
				main = append(main, sim.Step{Op: "st.shutdown", A: sw.Intn(20), I: []int64{int64(sw.Pick([]int{2, 0, 0, 4, 4})), int64(sw.Intn(32)), caller, int64(sw.Pick([]int{6, 4, 1})), fault()}})
			case 7:
				main = append(main, sim.Step{Op: "st.settings", A: sw.Intn(20), I: []int64{int64(sw.Intn(64)), int64(sw.Intn(8)), fault()}})
			case 8:
				main = append(main, sim.Step{Op: "st.check", I: []int64{int64(sw.Uint64() >> 2), int64(sw.Range(4, 10))}})
			case 9:
				main = append(main, sim.Step{Op: "block", I: []int64{0, int64(sw.Intn(2))}})
			case 10:
				main = append(main, sim.Step{Op: "st.clock", I: []int64{int64(sw.Pick([]int{4, 3, 2, 2, 1}))}})
			case 11:
				main = append(main, sim.Step{Op: "replay", I: []int64{int64(sw.Intn(1000))}})
			case 12:
				main = append(main, sim.Step{Op: "st.junk", A: sw.Intn(20), I: []int64{int64(sw.Intn(64)), int64(sw.Intn(32)), int64(sw.Intn(8))}})
			case 13:
				main = append(main, sim.Step{Op: "st.alloc", A: sw.Intn(20), I: []int64{int64(sw.Intn(3)), int64(sw.Intn(3))}})
			}
		}
		// interleave the base steps of the scenario into the main phase
		for _, b := range base {
			pos := sw.Intn(len(main) + 1)
			main = append(main[:pos], append([]sim.Step{b}, main[pos:]...)...)
		}
		if kgOn {
			main = spread(kg, main, genKilledGenEpisode(kg, int(p.Cfg["miners"])))
		}
		steps = append(steps, main...)
		if mix.Check > 0 {
			steps = append(steps, sim.Step{Op: "st.check", I: []int64{int64(sw.Uint64() >> 2), int64(sw.Range(6, 12))}})
		}
		p.Steps = steps
	}
}

// The "killed generator" episode (C22): every miner is registered and staked above the pool
// minimum, most of them by several delegates of very different sizes (more delegate pools than
// num_miner_delegates_rewarded when that setting is lowered to 1 or 2); the contract owner kills
// one miner, later possibly a second one, and after each kill a series of fee blocks is generated
// by a killed miner (st.feeblock; every round has its own round seed, which is what the contract
// draws the substitute miner from) and by live ones.

func genKilledGenBootstrap(kg *sim.RNG, miners int) []sim.Step {
	var out []sim.Step
	a := kg.Intn(20)
	for i := 0; i < miners; i++ {
		// one stake well above the pool minimum (37 ZCN + 7 / 2 ZCN / 1.5 ZCN + 3) ...
		out = append(out, sim.Step{Op: "st.lock", A: a, I: []int64{1, int64(i), []int64{12, 1, 13}[kg.Intn(3)], int64(kg.Pick([]int{6, 4, 1})), 0}})
		a++
		// ... and small ones of other delegates: 1 unit, 1 ZCN, 1.5 ZCN + 3
		for j, n := 0, kg.Pick([]int{2, 2, 3, 3, 2}); j < n; j++ {
			out = append(out, sim.Step{Op: "st.lock", A: a, I: []int64{1, int64(i), []int64{11, 11, 0, 13}[kg.Intn(4)], int64(kg.Pick([]int{6, 4, 1})), 0}})
			a++
		}
	}
	if kg.Intn(3) != 0 {
		// num_miner_delegates_rewarded = 1 or 2 (the shipped setting is 10)
		out = append(out, sim.Step{Op: "st.settings", I: []int64{int64(16 + kg.Intn(2)), 0, 0}})
	}
	return out
}

func genKilledGenEpisode(kg *sim.RNG, miners int) []sim.Step {
	var out []sim.Step
	feeBlocks := func(n int) {
		for i := 0; i < n; i++ {
			// generator: mostly a killed miner, sometimes miner #k whatever its state
			out = append(out, sim.Step{Op: "st.feeblock", A: kg.Intn(20), I: []int64{int64(kg.Pick([]int{5, 1})), int64(kg.Intn(8)), int64(kg.Intn(4)), int64(kg.Pick([]int{4, 2, 0, 3, 1})), int64(kg.Intn(2))}})
		}
	}
	kill := func() {
		out = append(out, sim.Step{Op: "st.kill", A: kg.Intn(20), I: []int64{1, int64(kg.Intn(miners)), 0, int64(kg.Pick([]int{6, 4, 1})), 0}})
	}
	if kg.Intn(4) == 0 {
		feeBlocks(2) // nobody killed yet
	}
	kill()
	feeBlocks(kg.Range(4, 8))
	if miners > 2 && kg.Intn(2) == 0 {
		kill()
		feeBlocks(kg.Range(3, 6))
	}
	return out
}

// spread inserts the steps of ep into main at random positions, keeping the order of both.
func spread(kg *sim.RNG, main, ep []sim.Step) []sim.Step {
	pos := make([]int, len(ep))
	for i := range pos {
		pos[i] = kg.Intn(len(main) + 1)
	}
	sort.Ints(pos)
	out := make([]sim.Step, 0, len(main)+len(ep))
	j := 0
	for i := 0; i <= len(main); i++ {
		for j < len(ep) && pos[j] == i {
			out = append(out, ep[j])
			j++
		}
		if i < len(main) {
			out = append(out, main[i])
		}
	}
	return out
}

// ---- symbolic resolution --------------------------------------------------------------------------

const zcn = int64(1e10)

var chargeKinds = []float64{0.1, 0, 0.5, 0.3, 0.25, 0.51, -0.1}
var ndelKinds = []int{2, 1, 3, 5, 10, 200, 201, 0}

// Ops is the execution side of the workload: handlers registered in Runner.Ops.
type Ops struct {
	W *ledger.World
	M *Model
}

func cfgN(r *ledger.Runner, k string, def int64) int {
	if r.Plan == nil {
		return int(def)
	}
	return int(r.Plan.CfgInt(k, def))
}

// identity resolves "the i-th would-be provider of that kind" to an account.
func (x *Ops) identity(r *ledger.Runner, kind spenum.Provider, i int64) (id string, cl *ledger.Client) {
	w := x.W
	if i < 0 {
		i = -i
	}
	// disjoint client ranges per kind (at least one slot each, also when the bootstrap registers none)
	nb, nv, na := max(1, cfgN(r, "blobbers", 2)), max(1, cfgN(r, "validators", 1)), max(1, cfgN(r, "authorizers", 1))
	pick := func(off, n int) (string, *ledger.Client) {
		if n <= 0 {
			n = 1
		}
		c := w.Clients[(off+int(i)%n)%len(w.Clients)]
		return c.ID, c
	}
	switch kind {
	case spenum.Miner:
		m := w.Miners[int(i)%len(w.Miners)]
		return m.ID, m.Client
	case spenum.Sharder:
		s := w.Sharders[int(i)%len(w.Sharders)]
		return s.ID, s.Client
	case spenum.Blobber:
		return pick(0, nb)
	case spenum.Validator:
		return pick(nb, nv)
	default:
		return pick(nb+nv, na)
	}
}

func (x *Ops) node(kind spenum.Provider, i int64) *ledger.Node {
	if i < 0 {
		i = -i
	}
	if kind == spenum.Miner {
		return x.W.Miners[int(i)%len(x.W.Miners)]
	}
	return x.W.Sharders[int(i)%len(x.W.Sharders)]
}

// submit builds, signs and applies a contract call.
func (x *Ops) submit(r *ledger.Runner, from string, cl *ledger.Client, to, fn string, input any, value int64, feeKind int64) *ledger.Outcome {
	r.EnsureBlock()
	nonce := r.ResolveNonce(ledger.NExpected, from)
	t := x.W.MakeTxn(ledger.TxnSpec{From: from, To: to, Type: transaction.TxnTypeSmartContract, Name: fn, Input: input,
		Value: value, Fee: x.fee(r, feeKind, from, nonce), Nonce: nonce})
	x.W.SignTxn(t, cl)
	return r.Submit(t)
}

// fee: the world's symbolic fee plus a few odd units (a function of the sender's nonce), so that
// block fee totals do not stay multiples of every divisor the reward split uses.
func (x *Ops) fee(r *ledger.Runner, kind int64, from string, nonce int64) int64 {
	f := r.ResolveFee(kind, from)
	if f > 0 && f < 1e12 {
		f += (nonce * 7) % 11
	}
	return f
}

func (x *Ops) submitRaw(r *ledger.Runner, from string, cl *ledger.Client, to, fn, raw string, value int64, feeKind int64) *ledger.Outcome {
	r.EnsureBlock()
	t := x.W.MakeTxn(ledger.TxnSpec{From: from, To: to, Type: transaction.TxnTypeSmartContract, Name: fn, Raw: raw,
		Value: value, Fee: r.ResolveFee(feeKind, from), Nonce: r.ResolveNonce(ledger.NExpected, from)})
	x.W.SignTxn(t, cl)
	return r.Submit(t)
}

// wallet picks a delegate wallet different from the operational id.
func (x *Ops) wallet(idx int64, notID string) string {
	for k := 0; k < 4; k++ {
		id, _ := x.W.Account(int(idx) + k)
		if id != notID {
			return id
		}
	}
	return x.W.OwnerID
}

func lockFn(contract string) string {
	switch contract {
	case ledger.AddrMiner:
		return "addToDelegatePool"
	case ledger.AddrStorage:
		return "stake_pool_lock"
	}
	return zcnsc.AddToDelegatePoolFunc
}

func unlockFn(contract string) string {
	switch contract {
	case ledger.AddrMiner:
		return "deleteFromDelegatePool"
	case ledger.AddrStorage:
		return "stake_pool_unlock"
	}
	return zcnsc.DeleteFromDelegatePoolFunc
}

func collectFn(contract string) string {
	if contract == ledger.AddrZCN {
		return zcnsc.CollectRewardsFunc
	}
	return "collect_reward"
}

// target resolves "provider #k of kind" for lock/unlock/collect/kill steps and
// applies the addressing faults: 1 wrong provider type in the request, 2
// unknown provider id, 3 the right request sent to another contract.
func (x *Ops) target(r *ledger.Runner, kind, k, fault int64) (contract string, req spRequest, p *Prov) {
	p = x.M.Pick(spenum.Provider(kind), k)
	if p == nil {
		p = x.M.Pick(0, k)
	}
	if p == nil {
		// nothing registered: address the would-be identity (fails in the contract)
		kd := spenum.Provider(kind)
		if kd == 0 {
			kd = spenum.Provider(1 + k%5)
		}
		id, _ := x.identity(r, kd, k)
		return contractOf(kd), spRequest{ProviderType: kd, ProviderID: id}, nil
	}
	contract, req = p.Contract, spRequest{ProviderType: p.Kind, ProviderID: p.ID}
	switch fault {
	case 1:
		req.ProviderType = spenum.Provider(1 + (int64(p.Kind)+k)%5)
		x.W.Tr.Fault("wrong_provider_type")
	case 2:
		req.ProviderID = x.W.Clients[int(k)%len(x.W.Clients)].ID
		x.W.Tr.Fault("unknown_provider_id")
	case 3:
		cs := []string{ledger.AddrMiner, ledger.AddrStorage, ledger.AddrZCN}
		contract = cs[(int(k)+1)%3]
		if contract == p.Contract {
			contract = cs[(int(k)+2)%3]
		}
		x.W.Tr.Fault("wrong_contract")
	}
	return
}

// stakeBounds reads min / max stake of a contract from the state.
func (x *Ops) stakeBounds(r *ledger.Runner, contract string) (min, max currency.Coin) {
	c := readConf(x.W, r.BC)
	switch contract {
	case ledger.AddrMiner:
		return c.Miner.MinStake, c.Miner.MaxStake
	case ledger.AddrStorage:
		return c.StorageMinStake, c.StorageMaxStake
	}
	return c.ZcnMinStake, c.ZcnMaxStake
}

func (x *Ops) amount(r *ledger.Runner, kind int64, from, contract string, p *Prov) int64 {
	min, max := x.stakeBounds(r, contract)
	cur := currency.Coin(0)
	if p != nil {
		if sp, ok := x.M.Pool(r.BC, p); ok {
			if dp, has := sp.Pools[from]; has {
				cur = dp.Balance
			}
		}
	}
	bal, _, _ := ledger.Balance(r.BC.State, from)
	switch kind % 14 {
	case 0:
		return zcn
	case 1:
		return 2 * zcn
	case 2:
		return int64(min)
	case 3:
		return int64(min) - 1
	case 4:
		return int64(max)
	case 5:
		return int64(max) + 1
	case 6:
		return int64(max - cur)
	case 7:
		return int64(max-cur) + 1
	case 8:
		return int64(bal)
	case 9:
		return int64(bal) + 1
	case 10:
		return 0
	case 11:
		return 1
	case 12:
		return 37*zcn + 7
	default:
		return zcn + zcn/2 + 3
	}
}

// ---- handlers -------------------------------------------------------------------------------------

// Install registers the step handlers.
func (x *Ops) Install(r *ledger.Runner) {
	r.Ops["st.reg"] = x.opReg
	r.Ops["st.lock"] = x.opLock
	r.Ops["st.unlock"] = x.opUnlock
	r.Ops["st.collect"] = x.opCollect
	r.Ops["st.payfees"] = x.opPayFees
	r.Ops["st.feeblock"] = x.opFeeBlock
	r.Ops["st.kill"] = x.opKill
	r.Ops["st.shutdown"] = x.opShutdown
	r.Ops["st.settings"] = x.opSettings
	r.Ops["st.clock"] = x.opClock
	r.Ops["st.junk"] = x.opJunk
	r.Ops["st.alloc"] = x.opAlloc
	if _, ok := r.Ops["st.check"]; !ok {
		r.Ops["st.check"] = func(r *ledger.Runner, st sim.Step) {} // checkpoints only mean something to the C10 / C23 oracles
	}
}

// st.reg: I = [kind, idx, charge kind, delegates kind, wallet idx, fee kind, fault]
func (x *Ops) opReg(r *ledger.Runner, st sim.Step) {
	r.EnsureBlock()
	w := x.W
	kind := spenum.Provider(1 + (st.Int(0, 1)+4)%5)
	idx := st.Int(1, 0)
	id, cl := x.identity(r, kind, idx)
	set := stakepool.Settings{
		DelegateWallet:     x.wallet(st.Int(4, 0), id),
		ServiceChargeRatio: chargeKinds[int(st.Int(2, 0))%len(chargeKinds)],
		MaxNumDelegates:    ndelKinds[int(st.Int(3, 0))%len(ndelKinds)],
	}
	flt := st.Int(6, 0)
	if flt == 4 {
		set.DelegateWallet = id // operational wallet as delegate wallet: must be refused
		w.Tr.Fault("delegate_wallet_is_operational")
	}
	fee := st.Int(5, 0)
	switch kind {
	case spenum.Miner, spenum.Sharder:
		nd := x.node(kind, idx)
		mn := minersc.NewMinerNode()
		mn.ID, mn.PublicKey = nd.ID, nd.PK
		mn.N2NHost, mn.Host, mn.Port = nd.N.N2NHost, nd.N.Host, nd.N.Port
		mn.ShortName, mn.BuildTag = nd.N.Description, "sim"
		mn.Settings = set
		fn := "add_miner"
		if kind == spenum.Sharder {
			fn = "add_sharder"
		}
		from, fcl := nd.ID, nd.Client
		if flt == 5 {
			// somebody else registers the node (the contract does not care who sends)
			from, fcl = w.Account(st.A)
			w.Tr.Fault("registration_by_third_party")
		}
		x.submit(r, from, fcl, ledger.AddrMiner, fn, json.RawMessage(mn.Encode()), 0, fee)
	case spenum.Blobber:
		in := map[string]any{
			"url":                 fmt.Sprintf("http://b%d.sim:5051", idx),
			"terms":               map[string]any{"read_price": 0, "write_price": int64(1e8)},
			"capacity":            int64(40) << 30,
			"stake_pool_settings": set,
		}
		if flt == 6 {
			in["capacity"] = int64(1) // below min_blobber_capacity: fails after the config was read
		}
		x.submit(r, id, cl, ledger.AddrStorage, "add_blobber", in, 0, fee)
	case spenum.Validator:
		in := map[string]any{"url": fmt.Sprintf("http://v%d.sim:5061", idx), "stake_pool_settings": set}
		x.submit(r, id, cl, ledger.AddrStorage, "add_validator", in, 0, fee)
	default:
		in := zcnsc.AddAuthorizerPayload{PublicKey: cl.PK, URL: fmt.Sprintf("http://a%d.sim", idx), StakePoolSettings: set}
		from := w.OwnerID
		var fcl *ledger.Client
		if flt == 5 {
			from, fcl = id, cl // only the contract owner may add authorizers
			w.Tr.Fault("wrong_caller")
		}
		x.submit(r, from, fcl, ledger.AddrZCN, zcnsc.AddAuthorizerFunc, in, 0, fee)
	}
}

// st.lock: A = staker, I = [kind (0 any), k, amount kind, fee kind, fault]
func (x *Ops) opLock(r *ledger.Runner, st sim.Step) {
	r.EnsureBlock()
	from, cl := x.W.Account(st.A)
	contract, req, p := x.target(r, st.Int(0, 0), st.Int(1, 0), st.Int(4, 0))
	v := x.amount(r, st.Int(2, 0), from, contract, p)
	x.submit(r, from, cl, contract, lockFn(contract), req, v, st.Int(3, 0))
}

// delegate resolves "delegate #j of that provider" (who = 0) or the step's own actor (who = 1).
func (x *Ops) delegate(r *ledger.Runner, p *Prov, who, j int64, a int) (string, *ledger.Client) {
	if who == 0 && p != nil {
		if sp, ok := x.M.Pool(r.BC, p); ok && len(sp.Pools) > 0 {
			ids := sortedDelegates(sp)
			id := ids[int(j)%len(ids)]
			return id, x.clientOf(id)
		}
	}
	if who == 2 && p != nil {
		return p.Wallet, x.clientOf(p.Wallet)
	}
	return x.W.Account(a)
}

func (x *Ops) clientOf(id string) *ledger.Client {
	w := x.W
	for _, c := range w.Clients {
		if c.ID == id {
			return c
		}
	}
	for _, m := range w.Miners {
		if m.ID == id {
			return m.Client
		}
	}
	for _, s := range w.Sharders {
		if s.ID == id {
			return s.Client
		}
	}
	return nil
}

// st.unlock: A = actor, I = [kind, k, who (0 delegate #j, 1 actor A), j, fee kind, fault, wait (0: first
// let stakepool.min_lock_period + 1 s pass on the simulated clock, 1: unlock right away)]
func (x *Ops) opUnlock(r *ledger.Runner, st sim.Step) {
	r.EnsureBlock()
	if st.Int(6, 0) == 0 {
		x.W.Advance(int64(config.SmartContractConfig.GetDuration("stakepool.min_lock_period").Seconds()) + 1)
	} else {
		x.W.Tr.Fault("unlock_without_waiting_for_lock_period")
	}
	contract, req, p := x.target(r, st.Int(0, 0), st.Int(1, 0), st.Int(5, 0))
	from, cl := x.delegate(r, p, st.Int(2, 0), st.Int(3, 0), st.A)
	if st.Int(2, 0) == 1 {
		x.W.Tr.Fault("unlock_by_non_owner")
	}
	x.submit(r, from, cl, contract, unlockFn(contract), req, 0, st.Int(4, 0))
}

// st.collect: A = actor, I = [kind, k, who (0 delegate #j, 1 actor A, 2 delegate wallet), j, fee kind, fault]
func (x *Ops) opCollect(r *ledger.Runner, st sim.Step) {
	r.EnsureBlock()
	contract, req, p := x.target(r, st.Int(0, 0), st.Int(1, 0), st.Int(5, 0))
	from, cl := x.delegate(r, p, st.Int(2, 0), st.Int(3, 0), st.A)
	in := stakepool.CollectRewardRequest{ProviderId: req.ProviderID, ProviderType: req.ProviderType}
	x.submit(r, from, cl, contract, collectFn(contract), in, 0, st.Int(4, 0))
}

// st.payfees: A = actor, I = [who (0 generator, 1 another miner, 2 actor A, 3 a sharder), round kind (0 block round, 1 +1, 2 -1, 3 omitted), repeats]
func (x *Ops) opPayFees(r *ledger.Runner, st sim.Step) {
	r.EnsureBlock()
	w := x.W
	for rep := int64(0); rep <= st.Int(2, 0)%2; rep++ {
		from, cl := r.BC.Miner.ID, r.BC.Miner.Client
		switch st.Int(0, 0) % 4 {
		case 1:
			for i, m := range w.Miners {
				if m.ID == r.BC.Miner.ID {
					o := w.Miners[(i+1)%len(w.Miners)]
					from, cl = o.ID, o.Client
				}
			}
		case 2:
			from, cl = w.Account(st.A)
		case 3:
			s := w.Sharders[st.A%len(w.Sharders)]
			from, cl = s.ID, s.Client
		}
		if from != r.BC.Miner.ID {
			w.Tr.Fault("payfees_by_non_generator")
		}
		round := r.BC.B.Round
		raw := ""
		switch st.Int(1, 0) % 4 {
		case 1:
			round++
		case 2:
			round--
		case 3:
			raw = "{}"
		}
		if round != r.BC.B.Round || raw != "" {
			w.Tr.Fault("payfees_wrong_round")
		}
		if rep > 0 {
			w.Tr.Fault("payfees_repeated_in_round")
		}
		if raw == "" {
			raw = fmt.Sprintf(`{"round":%d}`, round)
		}
		x.submitRaw(r, from, cl, ledger.AddrMiner, "payFees", raw, 0, 2)
	}
}

// st.feeblock: A = first sender, I = [generator kind (0 killed miner #k, else / 1 registered miner #k),
// k, number of fee-paying transfers, fee kind, save]: a whole block of its own generated by the chosen
// miner: the block under assembly (if any) is sealed first, then transfers that pay fees, the
// generator's honest payFees, seal.
func (x *Ops) opFeeBlock(r *ledger.Runner, st sim.Step) {
	w := x.W
	if r.BC != nil {
		r.EndBlock(false)
	}
	var killed, all []*Prov
	for _, p := range x.M.Provs {
		if p.Kind == spenum.Miner {
			all = append(all, p)
			if p.Dead {
				killed = append(killed, p)
			}
		}
	}
	cand := all
	if st.Int(0, 0) == 0 && len(killed) > 0 {
		cand = killed
	}
	mi := int(st.Int(1, 0)) % len(w.Miners)
	if len(cand) > 0 {
		g := cand[int(st.Int(1, 0))%len(cand)]
		for i, m := range w.Miners {
			if m.ID == g.ID {
				mi = i
			}
		}
		if g.Dead {
			w.Tr.Probe("fee_block_generated_by_killed_miner")
		}
	}
	r.BC = w.NewBlock(nil, mi)
	for j := 0; j < int(st.Int(2, 0))%4; j++ {
		from, _ := w.Account(st.A + j)
		to, _ := w.Account(st.A + j + 1)
		nonce := r.ResolveNonce(ledger.NExpected, from)
		r.Submit(w.MakeTxn(ledger.TxnSpec{From: from, To: to, Type: transaction.TxnTypeSend, Value: 1000 + int64(j),
			Fee: x.fee(r, st.Int(3, 0), from, nonce), Nonce: nonce}))
	}
	x.submitRaw(r, r.BC.Miner.ID, r.BC.Miner.Client, ledger.AddrMiner, "payFees", fmt.Sprintf(`{"round":%d}`, r.BC.B.Round), 0, 2)
	r.EndBlock(st.Int(4, 0) != 0)
}

func killFn(kind spenum.Provider) (string, string) {
	switch kind {
	case spenum.Miner:
		return ledger.AddrMiner, "kill_miner"
	case spenum.Sharder:
		return ledger.AddrMiner, "kill_sharder"
	case spenum.Blobber:
		return ledger.AddrStorage, "kill_blobber"
	case spenum.Validator:
		return ledger.AddrStorage, "kill_validator"
	}
	return "", ""
}

func shutdownFn(kind spenum.Provider) (string, string) {
	switch kind {
	case spenum.Blobber:
		return ledger.AddrStorage, "shutdown_blobber"
	case spenum.Validator:
		return ledger.AddrStorage, "shutdown_validator"
	}
	return "", ""
}

// caller resolves the caller kinds of kill / shutdown: 0 contract owner, 1 the
// provider's delegate wallet, 2 the provider itself, 3 a stranger (actor A).
func (x *Ops) caller(kind int64, p *Prov, a int) (string, *ledger.Client) {
	switch kind % 4 {
	case 0:
		return x.W.OwnerID, nil
	case 1:
		if p != nil {
			return p.Wallet, x.clientOf(p.Wallet)
		}
	case 2:
		if p != nil {
			return p.ID, x.clientOf(p.ID)
		}
	}
	return x.W.Account(a)
}

// st.kill: A = actor, I = [kind, k, caller kind, fee kind, fault (1 function of another provider kind, 2 unknown id)]
func (x *Ops) opKill(r *ledger.Runner, st sim.Step) {
	x.killOrShutdown(r, st, false)
}

// st.shutdown: same arguments as st.kill
func (x *Ops) opShutdown(r *ledger.Runner, st sim.Step) {
	x.killOrShutdown(r, st, true)
}

func (x *Ops) killOrShutdown(r *ledger.Runner, st sim.Step, shutdown bool) {
	r.EnsureBlock()
	kind := spenum.Provider(st.Int(0, 0) % 6)
	if kind == spenum.Authorizer {
		kind = 0
	}
	if shutdown && (kind == spenum.Miner || kind == spenum.Sharder) {
		kind = spenum.Blobber // only the storage contract has shutdown functions
	}
	p := x.M.Pick(kind, st.Int(1, 0))
	if p == nil || p.Kind == spenum.Authorizer || (shutdown && p.Contract != ledger.AddrStorage) {
		p = x.M.Pick(spenum.Blobber, st.Int(1, 0))
	}
	if p == nil {
		p = x.M.Pick(spenum.Validator, st.Int(1, 0))
	}
	if p == nil && !shutdown {
		p = x.M.Pick(spenum.Miner, st.Int(1, 0))
	}
	var id string
	fk := spenum.Blobber
	if p != nil {
		id, fk = p.ID, p.Kind
	} else {
		id, _ = x.identity(r, fk, st.Int(1, 0))
	}
	switch st.Int(4, 0) {
	case 1:
		// the function of the sibling kind of the same contract. (Functions of the storage
		// contract called with the id of a miner or sharder are left out on purpose: reading
		// provider:<id> into a StorageNode / ValidationNode while the state cache holds the
		// MinerNode panics in the contract goroutine and kills the process, see NOTES.md.)
		fk = map[spenum.Provider]spenum.Provider{spenum.Miner: spenum.Sharder, spenum.Sharder: spenum.Miner, spenum.Blobber: spenum.Validator, spenum.Validator: spenum.Blobber}[fk]
		x.W.Tr.Fault("kill_function_of_other_kind")
	case 2:
		id = x.W.Clients[(int(st.Int(1, 0))+3)%len(x.W.Clients)].ID
		x.W.Tr.Fault("unknown_provider_id")
	}
	contract, fn := killFn(fk)
	if shutdown {
		contract, fn = shutdownFn(fk)
		if fn == "" {
			contract, fn = killFn(fk)
		}
	}
	from, cl := x.caller(st.Int(2, 0), p, st.A)
	x.submit(r, from, cl, contract, fn, map[string]string{"provider_id": id}, 0, st.Int(3, 0))
}

// settings the owner may change (one field per transaction: the contracts
// iterate over the field map).
var minerSettings = [][2]string{
	{"share_ratio", "0.16"}, {"share_ratio", "0.5"}, {"share_ratio", "0"}, {"share_ratio", "1"}, {"share_ratio", "0.333"},
	{"reward_rate", "1"}, {"reward_rate", "0.5"}, {"reward_rate", "0.25"}, {"reward_rate", "0"},
	{"block_reward", "0.068"}, {"block_reward", "0"}, {"block_reward", "0.0000000007"}, {"block_reward", "1.0000000001"},
	{"num_sharders_rewarded", "1"}, {"num_sharders_rewarded", "2"}, {"num_sharders_rewarded", "3"},
	{"num_miner_delegates_rewarded", "1"}, {"num_miner_delegates_rewarded", "2"}, {"num_miner_delegates_rewarded", "10"},
	{"num_sharder_delegates_rewarded", "1"}, {"num_sharder_delegates_rewarded", "2"}, {"num_sharder_delegates_rewarded", "5"},
	{"max_delegates", "2"}, {"max_delegates", "200"}, {"min_stake", "0"}, {"min_stake", "1.5"}, {"max_stake", "20000"}, {"max_stake", "3"},
	{"max_charge", "0.5"}, {"max_charge", "0.2"},
}

var storageSettings = [][2]string{
	{"stakepool.kill_slash", "0.5"}, {"stakepool.kill_slash", "0.25"}, {"stakepool.kill_slash", "1"}, {"stakepool.kill_slash", "0"}, {"stakepool.kill_slash", "0.1"},
	{"max_delegates", "2"}, {"max_delegates", "200"}, {"min_stake", "0.01"}, {"min_stake", "1.5"}, {"max_stake", "20000"}, {"max_stake", "3"},
	{"max_charge", "0.5"}, {"max_charge", "0.2"}, {"min_stake", "0"},
}

// st.settings: A = actor, I = [which, contract selector, fault (any non-zero: a non-owner sends it)]
func (x *Ops) opSettings(r *ledger.Runner, st sim.Step) {
	r.EnsureBlock()
	from, cl := x.W.OwnerID, (*ledger.Client)(nil)
	if st.Int(2, 0) != 0 {
		from, cl = x.W.Account(st.A)
		x.W.Tr.Fault("wrong_caller")
	}
	to, tbl := ledger.AddrMiner, minerSettings
	if st.Int(1, 0)%3 == 2 {
		to, tbl = ledger.AddrStorage, storageSettings
	}
	kv := tbl[int(st.Int(0, 0))%len(tbl)]
	o := x.submit(r, from, cl, to, "update_settings", config.StringMap{Fields: map[string]string{kv[0]: kv[1]}}, 0, 0)
	if to == ledger.AddrStorage && o.Class == ledger.Success {
		// the storage contract applies staged changes with the generator's built-in commit transaction
		x.submitRaw(r, r.BC.Miner.ID, r.BC.Miner.Client, ledger.AddrStorage, "commit_settings_changes", "{}", 0, 2)
	}
}

// st.clock: I = [kind]: +1 s, +61 s, min_lock_period + 1 s, +1 day, +30 days
func (x *Ops) opClock(r *ledger.Runner, st sim.Step) {
	mlp := int64(config.SmartContractConfig.GetDuration("stakepool.min_lock_period").Seconds())
	d := []int64{1, 61, mlp + 1, 86400, 30 * 86400}[int(st.Int(0, 0))%5]
	if d > 3600 {
		x.W.Tr.Fault("clock_jump")
	}
	x.W.Advance(d)
}

// st.junk: well-addressed staking calls with damaged payloads or values
// (chargeable failures at different depths of the contracts).
func (x *Ops) opJunk(r *ledger.Runner, st sim.Step) {
	r.EnsureBlock()
	from, cl := x.W.Account(st.A)
	p := x.M.Pick(0, st.Int(1, 0))
	id := from
	kind := spenum.Blobber
	if p != nil {
		id, kind = p.ID, p.Kind
	}
	c := contractOf(kind)
	raws := []string{
		fmt.Sprintf(`{"provider_type":%d,"provider_id":"%s"}`, kind, id),
		fmt.Sprintf(`{"provider_type":"%d","provider_id":"%s"}`, kind, id),
		fmt.Sprintf(`{"provider_type":%d}`, kind),
		fmt.Sprintf(`{"provider_id":"%s"}`, id),
		`{"provider_type":99,"provider_id":"zz"}`,
		`{`,
		`[]`,
		fmt.Sprintf(`{"provider_type":%d,"provider_id":"%s","extra":{"a":[1,2,3]}}`, kind, id),
	}
	raw := raws[int(st.Int(2, 0))%len(raws)]
	fns := []string{lockFn(c), unlockFn(c), collectFn(c)}
	if kf, fn := killFn(kind); fn != "" && kf == c {
		fns = append(fns, fn)
	}
	if sf, fn := shutdownFn(kind); fn != "" && sf == c {
		fns = append(fns, fn)
	}
	fn := fns[int(st.Int(0, 0))%len(fns)]
	var v int64
	if fn == lockFn(c) {
		v = []int64{zcn, 0, 1, zcn - 1}[int(st.Int(0, 0)/8)%4]
	}
	x.submitRaw(r, from, cl, c, fn, raw, v, st.Int(0, 0)%3)
}

// st.alloc: A = client, I = [size kind, value kind]: a storage allocation over all live registered
// blobbers (at least two), which puts offers (TotalOffers) on their stake pools. The staking
// workload needs it for one thing only: stake pools that must keep covering offers.
func (x *Ops) opAlloc(r *ledger.Runner, st sim.Step) {
	r.EnsureBlock()
	var ids []string
	for _, p := range x.M.Provs {
		if p.Kind == spenum.Blobber && !p.Dead {
			ids = append(ids, p.ID)
		}
	}
	if len(ids) < 2 {
		return
	}
	if len(ids) > 4 {
		ids = ids[:4]
	}
	from, cl := x.W.Account(st.A)
	in := map[string]any{
		"name": "sim", "data_shards": 1, "parity_shards": len(ids) - 1,
		"size":              []int64{1 << 30, 8 << 30, 1 << 20}[int(st.Int(0, 0))%3],
		"blobbers":          ids,
		"blobber_auth_tickets": make([]string, len(ids)),
		"read_price_range":  map[string]int64{"min": 0, "max": int64(1e10)},
		"write_price_range": map[string]int64{"min": 0, "max": int64(1e10)},
	}
	v := []int64{zcn, 5 * zcn, zcn / 10}[int(st.Int(1, 0))%3]
	x.submit(r, from, cl, ledger.AddrStorage, "new_allocation_request", in, v, 0)
}

var _ = storagesc.ADDRESS
