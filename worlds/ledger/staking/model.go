// Package staking is the staking / rewards workload and the oracles of
// C10, C11, C22 and C23 on top of the ledger world (W1).
//
// Everything the oracles decide on is read from the real trie: the structural
// MPT diff of each transaction (ledger.Outcome.Changes) and raw record bytes
// decoded either with the owning contract's own exported type
// (minersc.MinerNode, zcnsc.StakePool, stakepool.StakePool) or, for the
// unexported storagesc.stakePool, by walking the msgp map to its "StakePool"
// field. The harness-side model only remembers which providers were registered
// (observed from successful registration transactions) and what an oracle has
// to carry from one transaction to the next (who is dead, how much was locked).
package staking

import (
	"encoding/json"
	"fmt"
	"math/big"
	"sort"

	"0chain.net/chaincore/transaction"
	"0chain.net/core/encryption"
	"0chain.net/smartcontract/minersc"
	"0chain.net/smartcontract/provider"
	"0chain.net/smartcontract/stakepool"
	"0chain.net/smartcontract/stakepool/spenum"
	"0chain.net/smartcontract/zcnsc"
	"github.com/0chain/common/core/currency"
	"github.com/0chain/common/core/util"
	"github.com/tinylib/msgp/msgp"

	"verif/worlds/ledger"
)

// ---- msgp navigation ------------------------------------------------------------------------------

// subMsg returns the raw msgp bytes of a top-level map field.
func subMsg(raw []byte, field string) ([]byte, bool) {
	sz, b, err := msgp.ReadMapHeaderBytes(raw)
	if err != nil {
		return nil, false
	}
	for i := uint32(0); i < sz; i++ {
		var k []byte
		k, b, err = msgp.ReadMapKeyZC(b)
		if err != nil {
			return nil, false
		}
		rest, err := msgp.Skip(b)
		if err != nil {
			return nil, false
		}
		if string(k) == field {
			return b[:len(b)-len(rest)], true
		}
		b = rest
	}
	return nil, false
}

// topKeys lists the top-level map keys of a msgp value (nil when not a map).
func topKeys(raw []byte) []string {
	sz, b, err := msgp.ReadMapHeaderBytes(raw)
	if err != nil {
		return nil
	}
	var ks []string
	for i := uint32(0); i < sz; i++ {
		var k []byte
		k, b, err = msgp.ReadMapKeyZC(b)
		if err != nil {
			return ks
		}
		ks = append(ks, string(k))
		if b, err = msgp.Skip(b); err != nil {
			return ks
		}
	}
	return ks
}

func has(ks []string, k string) bool {
	for _, x := range ks {
		if x == k {
			return true
		}
	}
	return false
}

// Layouts of a record that carries a stake pool.
const (
	layRaw     = "raw"     // bare stakepool.StakePool (top-level Pools/Reward/Settings/…)
	layWrapped = "wrapped" // {"StakePool": {...}, …} (storagesc.stakePool, zcnsc.StakePool, minersc.MinerNode)
)

// poolFromAny finds a stake pool inside an arbitrary record, whatever its key.
func poolFromAny(raw []byte) (*stakepool.StakePool, string, bool) {
	ks := topKeys(raw)
	if ks == nil {
		return nil, "", false
	}
	if has(ks, "Pools") && has(ks, "Settings") {
		sp := stakepool.NewStakePool()
		if _, err := sp.UnmarshalMsg(raw); err != nil {
			return nil, "", false
		}
		return sp, layRaw, true
	}
	if has(ks, "StakePool") {
		sub, _ := subMsg(raw, "StakePool")
		sks := topKeys(sub)
		if has(sks, "Pools") && has(sks, "Settings") {
			sp := stakepool.NewStakePool()
			if _, err := sp.UnmarshalMsg(sub); err != nil {
				return nil, "", false
			}
			return sp, layWrapped, true
		}
	}
	return nil, "", false
}

// provFlags extracts the provider.Provider flags of a provider record
// (MinerNode, ValidationNode, StorageNode of any version).
func provFlags(raw []byte) (killed, shut bool, ok bool) {
	p, found := subMsg(raw, "Provider")
	if !found {
		if sn, f2 := subMsg(raw, "SimpleNode"); f2 {
			p, found = subMsg(sn, "Provider")
		}
	}
	if !found {
		return false, false, false
	}
	pr := &provider.Provider{}
	if _, err := pr.UnmarshalMsg(p); err != nil {
		return false, false, false
	}
	return pr.HasBeenKilled, pr.HasBeenShutDown, true
}

// ---- providers ------------------------------------------------------------------------------------

// Prov is a provider the harness saw being registered by a real transaction.
type Prov struct {
	Kind     spenum.Provider
	ID       string
	Contract string // address of the contract it registered with
	Wallet   string // delegate wallet given at registration
	Ord      int

	// oracle memory
	Dead      bool   // an authorised kill / shutdown was applied successfully
	DeadBy    string // function that did it
	Slashed   int    // number of transactions that reduced delegate balances
	GoneOK    bool   // records legitimately deleted (kill/shutdown of a provider without delegates)
	MarkedBad bool   // a C23 violation was already reported for this provider (keeps later noise down)
}

func (p *Prov) String() string { return fmt.Sprintf("%s#%d", p.Kind, p.Ord) }

// ProvKey is the key of the provider record.
func (p *Prov) ProvKey() string { return provider.GetKey(p.ID) }

// PoolKey is the key of the record that carries the provider's stake pool.
func (p *Prov) PoolKey() string { return poolKey(p.Kind, p.ID) }

func poolKey(kind spenum.Provider, id string) string {
	switch kind {
	case spenum.Miner, spenum.Sharder:
		return provider.GetKey(id) // the pool lives inside the MinerNode
	default:
		return stakepool.StakePoolKey(kind, id)
	}
}

func contractOf(kind spenum.Provider) string {
	switch kind {
	case spenum.Miner, spenum.Sharder:
		return ledger.AddrMiner
	case spenum.Blobber, spenum.Validator:
		return ledger.AddrStorage
	case spenum.Authorizer:
		return ledger.AddrZCN
	}
	return ""
}

// decodePoolAs decodes a stake-pool record the way the owning contract of a
// provider of the given kind reads it. A record the contract cannot read as a
// pool yields ok=false.
func decodePoolAs(kind spenum.Provider, raw []byte) (sp *stakepool.StakePool, ok bool) {
	if raw == nil {
		return nil, false
	}
	switch kind {
	case spenum.Miner, spenum.Sharder:
		mn := minersc.NewMinerNode()
		if _, err := mn.UnmarshalMsg(raw); err != nil || mn.StakePool == nil || mn.SimpleNode == nil {
			return nil, false
		}
		if mn.ProviderType != kind {
			return nil, false
		}
		return mn.StakePool, true
	case spenum.Authorizer:
		zp := zcnsc.NewStakePool()
		if _, err := zp.UnmarshalMsg(raw); err != nil {
			return nil, false
		}
		// the generated decoder silently skips unknown fields: a record in another
		// layout comes back as an empty pool, which is what the contract then sees
		return &zp.StakePool, true
	default:
		// storagesc.stakePool is unexported: {"StakePool": …, "TotalOffers": n}; its generated
		// decoder skips unknown fields too
		sp := stakepool.NewStakePool()
		if topKeys(raw) == nil {
			return nil, false
		}
		if sub, found := subMsg(raw, "StakePool"); found {
			if _, err := sp.UnmarshalMsg(sub); err != nil {
				return nil, false
			}
		}
		return sp, true
	}
}

// totalOffers reads storagesc.stakePool.TotalOffers.
func totalOffers(raw []byte) currency.Coin {
	sub, ok := subMsg(raw, "TotalOffers")
	if !ok {
		return 0
	}
	var c currency.Coin
	if _, err := c.UnmarshalMsg(sub); err != nil {
		return 0
	}
	return c
}

// Model is the harness-side memory shared by the workload and the oracles.
type Model struct {
	W     *ledger.World
	Provs []*Prov
	byKey map[string]*Prov // pool key -> provider
	byPK  map[string][]*Prov

	// C11 history model: (pool key | delegate) -> principal locked, as observed
	Principal map[string]*big.Int
	// counts for probes
	okCount map[string]int
	// Strays: stake-pool records a kill / shutdown wrote under a key that is not
	// the target's own (key -> function); remembered so that later operations on
	// them are attributed to that defect and not reported as something new
	Strays map[string]string
}

func NewModel(w *ledger.World) *Model {
	return &Model{W: w, byKey: map[string]*Prov{}, byPK: map[string][]*Prov{}, Principal: map[string]*big.Int{}, okCount: map[string]int{}, Strays: map[string]string{}}
}

func (m *Model) add(kind spenum.Provider, id, wallet string) *Prov {
	k := poolKey(kind, id)
	if p, ok := m.byKey[k]; ok && p.Kind == kind {
		return p
	}
	p := &Prov{Kind: kind, ID: id, Contract: contractOf(kind), Wallet: wallet, Ord: len(m.Provs)}
	m.Provs = append(m.Provs, p)
	m.byKey[k] = p
	m.byPK[p.ProvKey()] = append(m.byPK[p.ProvKey()], p)
	return p
}

// Find returns the registered provider of that kind and id.
func (m *Model) Find(kind spenum.Provider, id string) *Prov {
	if p, ok := m.byKey[poolKey(kind, id)]; ok && p.Kind == kind {
		return p
	}
	return nil
}

// Target resolves the provider a stake request sent to `contract` names. The
// bridge contract has a single provider kind and never looks at the
// provider_type of a request (it always reads authorizer:stakepool:<id>), so
// for it the kind is Authorizer whatever the request says.
func (m *Model) Target(contract string, kind spenum.Provider, id string) *Prov {
	if contract == ledger.AddrZCN {
		kind = spenum.Authorizer
	}
	p := m.Find(kind, id)
	if p == nil || p.Contract != contract {
		return nil
	}
	return p
}

// ByID returns every registered provider with that id (any kind).
func (m *Model) ByID(id string) []*Prov { return m.byPK[provider.GetKey(id)] }

// Pick resolves "provider #k (of kind, 0 = any)" against the registered providers.
func (m *Model) Pick(kind spenum.Provider, k int64) *Prov {
	var c []*Prov
	for _, p := range m.Provs {
		if kind == 0 || p.Kind == kind {
			c = append(c, p)
		}
	}
	if len(c) == 0 {
		return nil
	}
	if k < 0 {
		k = -k
	}
	return c[int(k%int64(len(c)))]
}

// rawAt reads the raw value bytes of a contract record from a trie.
func rawAt(st util.MerklePatriciaTrieI, key string) []byte {
	b, err := st.GetNodeValueRaw(util.Path(encryption.Hash(key)))
	if err != nil {
		return nil
	}
	return b
}

// Pool reads the provider's stake pool from the block under assembly, as its contract reads it.
func (m *Model) Pool(bc *ledger.BlockCtx, p *Prov) (*stakepool.StakePool, bool) {
	return decodePoolAs(p.Kind, rawAt(bc.State, p.PoolKey()))
}

func sortedDelegates(sp *stakepool.StakePool) []string {
	ids := make([]string, 0, len(sp.Pools))
	for id := range sp.Pools {
		ids = append(ids, id)
	}
	sort.Strings(ids)
	return ids
}

func coin(c currency.Coin) *big.Int { return new(big.Int).SetUint64(uint64(c)) }

// ---- request parsing (the oracles read the transaction, not the op handler) -----------------------

type spRequest struct {
	ProviderType spenum.Provider `json:"provider_type"`
	ProviderID   string          `json:"provider_id"`
}

func parseSPRequest(t *transaction.Transaction) (spRequest, bool) {
	var r spRequest
	if t.SmartContractData == nil {
		return r, false
	}
	if err := json.Unmarshal(t.SmartContractData.InputData, &r); err != nil {
		return r, false
	}
	return r, true
}

// collectTarget parses a collect request.
func collectTarget(v *txnView) (spenum.Provider, string) {
	var cr stakepool.CollectRewardRequest
	if v.T.SmartContractData == nil || json.Unmarshal(v.T.SmartContractData.InputData, &cr) != nil {
		return 0, ""
	}
	return cr.ProviderType, cr.ProviderId
}

// Function classes of the staking surface, by (contract, function name).
const (
	fnNone = iota
	fnLock
	fnUnlock
	fnCollect
	fnPayFees
	fnKill
	fnShutdown
	fnRegister
)

func classify(t *transaction.Transaction) int {
	if t.TransactionType != transaction.TxnTypeSmartContract || t.SmartContractData == nil {
		return fnNone
	}
	fn := t.SmartContractData.FunctionName
	switch t.ToClientID {
	case ledger.AddrMiner:
		switch fn {
		case "addToDelegatePool":
			return fnLock
		case "deleteFromDelegatePool":
			return fnUnlock
		case "collect_reward":
			return fnCollect
		case "payFees":
			return fnPayFees
		case "kill_miner", "kill_sharder":
			return fnKill
		case "add_miner", "add_sharder":
			return fnRegister
		}
	case ledger.AddrStorage:
		switch fn {
		case "stake_pool_lock":
			return fnLock
		case "stake_pool_unlock":
			return fnUnlock
		case "collect_reward":
			return fnCollect
		case "kill_blobber", "kill_validator":
			return fnKill
		case "shutdown_blobber", "shutdown_validator":
			return fnShutdown
		case "add_blobber", "add_validator":
			return fnRegister
		}
	case ledger.AddrZCN:
		switch fn {
		case "add-to-delegate-pool":
			return fnLock
		case "delete-from-delegate-pool":
			return fnUnlock
		case "collect-rewards":
			return fnCollect
		case "add-authorizer":
			return fnRegister
		}
	}
	return fnNone
}

// kindOfKillFn is the provider kind a kill / shutdown function is meant for.
func kindOfKillFn(fn string) spenum.Provider {
	switch fn {
	case "kill_miner":
		return spenum.Miner
	case "kill_sharder":
		return spenum.Sharder
	case "kill_blobber", "shutdown_blobber":
		return spenum.Blobber
	case "kill_validator", "shutdown_validator":
		return spenum.Validator
	}
	return 0
}
