package staking

import (
	"fmt"

	"0chain.net/chaincore/block"
	"0chain.net/chaincore/chain"
	"0chain.net/chaincore/transaction"
	"0chain.net/miner"

	"verif/worlds/ledger"
)

// onceChecker is the block-level "once per round" oracle of C22. The miner
// contract does not refuse a second payFees of the generator in the same round
// (it only compares the sender with the generator and the input round with the
// block round); the rule is enforced where blocks are verified:
// miner.Chain.ValidateTransactions rejects a block that carries the same
// built-in transaction twice (anchor miner/protocol_block.go). So for every
// block of the run that holds a signed fee payment the shipped
// ValidateTransactions is called on two derived blocks made of real, correctly
// signed transactions of that round only:
//
//	{one fee payment}            must be accepted (otherwise the probe is inconclusive)
//	{that one and a second one}  must be refused
//
// The second payment is another payFees the run really applied in that round
// when there is one with the same creation date, otherwise a payFees signed by
// the same generator with the next nonce.
type onceChecker struct {
	mc *miner.Chain
}

func newOnceChecker() *onceChecker { return &onceChecker{} }

func (c *onceChecker) chainFor(w *ledger.World) *miner.Chain {
	if c.mc == nil {
		c2 := chain.NewChainFromConfig()
		miner.SetupMinerChain(c2)
		c.mc = miner.GetMinerChain()
	}
	return c.mc
}

func (c *onceChecker) afterBlock(o *OracleC22, w *ledger.World, bc *ledger.BlockCtx) {
	var pf []*transaction.Transaction
	for _, t := range bc.B.Txns {
		if classify(t) == fnPayFees && t.Signature != "" && t.ClientID == bc.B.MinerID {
			pf = append(pf, t)
		}
	}
	if len(pf) == 0 {
		return
	}
	mc := c.chainFor(w)
	validate := func(txns ...*transaction.Transaction) error {
		nb := block.NewBlock(w.C.GetKey(), bc.B.Round)
		nb.MinerID = bc.B.MinerID
		nb.CreationDate = txns[0].CreationDate
		nb.Txns = txns
		nb.Hash = bc.B.Hash
		return mc.ValidateTransactions(w.Ctx, nb)
	}
	first := pf[0]
	if err := validate(first); err != nil {
		w.Tr.Probe("once_per_round_inconclusive")
		w.Tr.Event("once: single fee payment refused: %v", err)
		return
	}
	var second *transaction.Transaction
	for _, t := range pf[1:] {
		if t.CreationDate == first.CreationDate {
			second = t
			w.Tr.Probe("once_per_round_checked_with_applied_second_payment")
			break
		}
	}
	if second == nil {
		second = w.MakeTxn(ledger.TxnSpec{From: first.ClientID, To: ledger.AddrMiner, Type: transaction.TxnTypeSmartContract, Name: "payFees",
			Raw: fmt.Sprintf(`{"round":%d}`, bc.B.Round), Nonce: first.Nonce + 1, Time: first.CreationDate})
		w.SignTxn(second, bc.Miner.Client)
		second.OutputHash = second.ComputeOutputHash()
	}
	err := validate(first, second)
	w.Tr.Event("once: round=%d two fee payments refused=%v", bc.B.Round, err != nil)
	w.Tr.Probe("once_per_round_checked")
	if err == nil {
		o.viol(w, "once", "block/two-fee-payments-in-one-block-pass-validation", fmt.Sprintf("ValidateTransactions accepted a block of round %d with two payFees of the generator", bc.B.Round))
	}
}
