package staking

import (
	"verif/worlds/ledger"
)

// onceChecker is the block-level "once per round" oracle of C22 (see once_real.go).
type onceChecker struct {
	impl func(o *OracleC22, w *ledger.World, bc *ledger.BlockCtx)
}

func newOnceChecker() *onceChecker { return &onceChecker{} }

func (c *onceChecker) afterBlock(o *OracleC22, w *ledger.World, bc *ledger.BlockCtx) {
	if c.impl != nil {
		c.impl(o, w, bc)
	}
}
