package staking

import (
	"encoding/json"
	"fmt"
	"math/big"
	"sort"

	"0chain.net/smartcontract/minersc"
	"0chain.net/smartcontract/stakepool"
	"0chain.net/smartcontract/stakepool/spenum"
	"github.com/0chain/common/core/currency"

	"verif/sim"
	"verif/worlds/ledger"
)

// ---- analysis of a fee payment, shared by C22 and C10 ---------------------------------------------

type poolInc struct {
	P        *Prov
	Old, New *stakepool.StakePool
	Prov     *big.Int            // increment of the provider's own reward (service charge)
	Del      map[string]*big.Int // increments of the delegates' rewards (non-zero ones)
	Total    *big.Int
}

type feeAnalysis struct {
	GN          *minersc.GlobalNode // configuration before the payment
	Fees        *big.Int            // Σ fee of the block's transactions so far
	BlockReward *big.Int
	T           *big.Int // what the payment has to distribute
	Incs        []*poolInc
	M, S        *big.Int
	Bad         []string // structural complaints (stake changed, foreign pool touched)
}

func rewardIncs(d *poolDiff) (*poolInc, []string) {
	old, nw := d.asOwner()
	pi := &poolInc{P: d.P, Old: old, New: nw, Prov: new(big.Int), Del: map[string]*big.Int{}, Total: new(big.Int)}
	var bad []string
	if old == nil || nw == nil {
		return pi, []string{"stake pool of " + d.P.String() + " appeared or disappeared"}
	}
	pi.Prov.Sub(coin(nw.Reward), coin(old.Reward))
	pi.Total.Add(pi.Total, pi.Prov)
	for id, odp := range old.Pools {
		ndp, ok := nw.Pools[id]
		if !ok {
			bad = append(bad, "delegate pool removed at "+d.P.String())
			continue
		}
		if ndp.Balance != odp.Balance {
			bad = append(bad, "stake changed at "+d.P.String())
		}
		inc := new(big.Int).Sub(coin(ndp.Reward), coin(odp.Reward))
		if inc.Sign() != 0 {
			pi.Del[id] = inc
			pi.Total.Add(pi.Total, inc)
		}
	}
	for id := range nw.Pools {
		if _, ok := old.Pools[id]; !ok {
			bad = append(bad, "delegate pool created at "+d.P.String())
		}
	}
	return pi, bad
}

// exactProduct returns floor(c × f) with f taken as the exact value of the float64.
func exactProduct(c uint64, f float64) *big.Int {
	x := new(big.Float).SetPrec(256).SetUint64(c)
	x.Mul(x, new(big.Float).SetPrec(256).SetFloat64(f))
	i, _ := x.Int(nil)
	return i
}

func analyseFees(m *Model, bc *ledger.BlockCtx, v *txnView) *feeAnalysis {
	a := &feeAnalysis{Fees: new(big.Int), M: new(big.Int), S: new(big.Int)}
	// the configuration before the payment: the old side of the diff, or, when the payment
	// left the global node byte-identical (a second payment in the same round), the state
	raw := rawAt(bc.State, minersc.GlobalNodeKey)
	if ch, ok := v.Recs[minersc.GlobalNodeKey]; ok {
		raw = ch.Old
	}
	a.GN = &minersc.GlobalNode{}
	if raw == nil {
		return nil
	}
	if _, err := a.GN.UnmarshalMsg(raw); err != nil {
		return nil
	}
	// the payment itself is the last transaction of the block so far
	txns := bc.B.Txns
	for i, t := range txns {
		if i == len(txns)-1 && t == v.T {
			break
		}
		a.Fees.Add(a.Fees, coin(t.Fee))
	}
	a.BlockReward = exactProduct(uint64(a.GN.BlockReward), a.GN.RewardRate)
	a.T = new(big.Int).Add(a.Fees, a.BlockReward)
	for _, d := range v.Pools {
		if d.P == nil {
			a.Bad = append(a.Bad, "stake pool record under unregistered key "+keyClass(d.Key)+" changed")
			continue
		}
		pi, bad := rewardIncs(d)
		a.Bad = append(a.Bad, bad...)
		if pi.Total.Sign() == 0 {
			continue
		}
		a.Incs = append(a.Incs, pi)
		switch d.P.Kind {
		case spenum.Miner:
			a.M.Add(a.M, pi.Total)
		case spenum.Sharder:
			a.S.Add(a.S, pi.Total)
		default:
			a.Bad = append(a.Bad, "reward credited to "+d.P.String()+" by a fee payment")
		}
	}
	return a
}

// prePool returns the provider's stake pool before the transaction.
func prePool(m *Model, bc *ledger.BlockCtx, v *txnView, p *Prov) *stakepool.StakePool {
	if d := v.pool(p.PoolKey()); d != nil {
		old, _ := d.asOwner()
		return old
	}
	sp, _ := m.Pool(bc, p)
	return sp
}

func totalStake(sp *stakepool.StakePool) *big.Int {
	t := new(big.Int)
	for _, dp := range sp.Pools {
		t.Add(t, coin(dp.Balance))
	}
	return t
}

// eligible: alive and staked at least the pool's minimum (the statement: "a
// killed or under-staked provider receives nothing").
func eligible(sp *stakepool.StakePool) bool {
	return sp != nil && !sp.HasBeenKilled && totalStake(sp).Cmp(coin(sp.Settings.MinStake)) >= 0
}

func ratApprox(x *big.Int, f float64) *big.Float {
	r := new(big.Float).SetPrec(256).SetInt(x)
	return r.Mul(r, new(big.Float).SetPrec(256).SetFloat64(f))
}

func within(x *big.Int, want *big.Float, tol float64) bool {
	d := new(big.Float).SetPrec(256).Sub(new(big.Float).SetPrec(256).SetInt(x), want)
	d.Abs(d)
	return d.Cmp(big.NewFloat(tol)) <= 0
}

// ---- C22 ------------------------------------------------------------------------------------------

// OracleC22: block fees and rewards are split exactly between miner and sharders.
//
//	accepted only from the block's generator with the block's round (contract level); once per
//	round (block level: the shipped miner.Chain.ValidateTransactions must refuse a block that
//	carries two fee payments, see blockOnce)
//	Σ reward increments over miner and sharder pools == block fees + BlockReward×RewardRate (read
//	from the global node as stored before the payment) whenever every recipient is eligible; never more
//	miner side ≈ share_ratio of it (two roundings), sharder side the rest, divided among the rewarded
//	sharders with no unit lost (shares differ by at most the two remainder units)
type OracleC22 struct {
	M    *Model
	Vw   *Viewer
	Prop string
	once *onceChecker
}

func (o *OracleC22) viol(w *ledger.World, oracle, sig, detail string) {
	w.Tr.Violate(&sim.Violation{Prop: o.Prop, Oracle: oracle, Sig: o.Prop + "/" + sig, Detail: detail})
}

func (o *OracleC22) AfterTxn(w *ledger.World, bc *ledger.BlockCtx, out *ledger.Outcome) {
	v := o.Vw.Cur
	if v == nil || v.Class != fnPayFees || out.Class != ledger.Success {
		return
	}
	t := v.T
	var in minersc.PayFeesInput
	_ = json.Unmarshal(t.SmartContractData.InputData, &in)
	if o.Prop == "C22" {
		if t.ClientID != bc.B.MinerID {
			o.viol(w, "caller", "payfees/accepted-from-non-generator", fmt.Sprintf("sender %s, generator %s", t.ClientID, bc.B.MinerID))
		}
		if in.Round != bc.B.Round {
			o.viol(w, "caller", "payfees/accepted-with-wrong-round", fmt.Sprintf("input round %d, block round %d", in.Round, bc.B.Round))
		}
		want := map[string]*big.Int{}
		addTo(want, t.ClientID, new(big.Int).Neg(v.Fee))
		addTo(want, ledger.AddrMiner, v.Fee)
		if msg, ok := expectAccounts(v, want); !ok {
			o.viol(w, "tokens", "payfees/moved-tokens", msg)
		}
	}
	a := analyseFees(o.M, bc, v)
	if a == nil {
		o.viol(w, "config", "payfees/global-node-unreadable", "the miner contract's global node cannot be read")
		return
	}
	for _, b := range a.Bad {
		o.viol(w, "scope", "payfees/touched-more-than-rewards", b)
		break
	}
	n := 0
	for _, tx := range bc.B.Txns {
		if classify(tx) == fnPayFees {
			n++
		}
	}
	if n > 1 {
		w.Tr.Probe("second_payfees_in_round_accepted_by_contract")
	}
	if !w.C.ChainConfig.IsFeeEnabled() && a.Fees.Sign() > 0 {
		w.Tr.Probe("payfees_distributes_declared_fees_of_a_fee_free_chain")
	}
	gn := a.GN
	sum := new(big.Int).Add(a.M, a.S)
	if sum.Cmp(a.T) > 0 {
		o.viol(w, "total", "payfees/credited-more-than-fees-plus-reward", fmt.Sprintf("credited %v, fees %v + block reward %v", sum, a.Fees, a.BlockReward))
	}
	// recipients
	var miners, sharders []*poolInc
	for _, pi := range a.Incs {
		if pi.P.Kind == spenum.Miner {
			miners = append(miners, pi)
		} else if pi.P.Kind == spenum.Sharder {
			sharders = append(sharders, pi)
		}
	}
	for _, pi := range a.Incs {
		if !eligible(pi.Old) {
			o.viol(w, "recipient", "payfees/credited-killed-or-under-staked-"+pi.P.Kind.String(), fmt.Sprintf("%s got %v (dead=%v stake=%v min=%d)", pi.P, pi.Total, pi.Old.HasBeenKilled, totalStake(pi.Old), pi.Old.Settings.MinStake))
		}
	}
	if len(miners) > 1 {
		o.viol(w, "recipient", "payfees/several-miners-credited", fmt.Sprintf("%d miner pools credited", len(miners)))
	}
	gen := o.M.Find(spenum.Miner, bc.B.MinerID)
	genOK := false
	if gen != nil {
		genOK = eligible(prePool(o.M, bc, v, gen))
	}
	wantM := ratApprox(a.T, gn.ShareRatio)
	// how the ratio is applied is not spelled out by the statement: two roundings (fees and block
	// reward are split separately) plus the float64 resolution of the contract for very large fee totals
	tolF, _ := new(big.Float).Quo(new(big.Float).SetInt(a.T), new(big.Float).SetFloat64(1<<50)).Float64()
	tol := 2 + tolF
	minerSideKnown := false
	if genOK {
		minerSideKnown = true
		if len(miners) == 1 && miners[0].P != gen {
			o.viol(w, "recipient", "payfees/eligible-generator-passed-over", fmt.Sprintf("%s credited instead of generator %s", miners[0].P, gen))
		}
		if !within(a.M, wantM, tol) {
			o.viol(w, "split", "payfees/miner-side-differs-from-share-ratio", fmt.Sprintf("miner side %v, share ratio %v of %v", a.M, gn.ShareRatio, a.T))
		}
	} else {
		// The generator cannot be paid. One that is alive but under-staked forfeits the miner side
		// (the statement of C10: an under-staked provider receives nothing). One that was killed (or
		// never registered) does not make the miner side disappear: fees plus block reward are still
		// split between a miner side and a sharder side that add up exactly, so the miner side goes, in
		// full, to a miner that may receive it. Which live miner is the contract's choice (not
		// mirrored here); when every live registered miner is eligible the choice does not matter.
		genPool := (*stakepool.StakePool)(nil)
		if gen != nil {
			genPool = prePool(o.M, bc, v, gen)
		}
		liveM, underM := 0, 0
		for _, p := range o.M.Provs {
			if p.Kind != spenum.Miner {
				continue
			}
			sp := prePool(o.M, bc, v, p)
			if sp == nil || sp.HasBeenKilled {
				continue
			}
			liveM++
			if !eligible(sp) {
				underM++
			}
		}
		substitute := gen == nil || genPool == nil || genPool.HasBeenKilled
		switch {
		case substitute && liveM > 0 && underM == 0:
			minerSideKnown = true
			w.Tr.Probe("payfees_killed_generator_miner_side_checked")
			if a.M.Sign() == 0 && !within(a.M, wantM, tol) {
				o.viol(w, "split", "payfees/generator-killed/miner-side-credited-to-nobody", fmt.Sprintf("generator %s cannot be paid, %d live eligible miners, miner side (share ratio %v of %v) credited to nobody; sharder side %v", bc.B.MinerID[:8], liveM, gn.ShareRatio, a.T, a.S))
			} else if !within(a.M, wantM, tol) {
				o.viol(w, "split", "payfees/miner-side-differs-from-share-ratio", fmt.Sprintf("miner side %v, share ratio %v of %v", a.M, gn.ShareRatio, a.T))
			}
		case a.M.Sign() > 0:
			if !within(a.M, wantM, tol) {
				o.viol(w, "split", "payfees/miner-side-differs-from-share-ratio", fmt.Sprintf("miner side %v, share ratio %v of %v", a.M, gn.ShareRatio, a.T))
			}
			minerSideKnown = true
		case substitute:
			w.Tr.Probe("payfees_killed_generator_undecided")
		}
	}
	// sharders: n rewarded out of the live registered ones
	live, under := 0, 0
	for _, p := range o.M.Provs {
		if p.Kind != spenum.Sharder {
			continue
		}
		sp := prePool(o.M, bc, v, p)
		if sp == nil || sp.HasBeenKilled {
			continue
		}
		live++
		if !eligible(sp) {
			under++
		}
	}
	nRew := gn.NumShardersRewarded
	if live < nRew {
		nRew = live
	}
	if len(sharders) > nRew {
		o.viol(w, "sharders", "payfees/more-sharders-credited-than-configured", fmt.Sprintf("%d credited, %d to be rewarded", len(sharders), nRew))
	}
	// sharder side = the rest after the miner side: exactly T − M when the miner side was paid (the
	// total check below), otherwise (1−ratio)·T within the ratio tolerance
	wantS := new(big.Float).SetPrec(256).Sub(new(big.Float).SetPrec(256).SetInt(a.T), wantM)
	if nRew >= 1 && under == 0 {
		if !within(a.S, wantS, tol) {
			o.viol(w, "split", "payfees/sharder-side-lost-or-gained-units", fmt.Sprintf("sharder side %v, expected the rest of %v after share ratio %v", a.S, a.T, gn.ShareRatio))
		}
		// every rewarded sharder gets its share: with at least nRew units to share out nobody is left out
		min := new(big.Int)
		for i, pi := range sharders {
			if i == 0 || pi.Total.Cmp(min) < 0 {
				min = pi.Total
			}
		}
		if len(sharders) == nRew {
			for _, pi := range sharders {
				if new(big.Int).Sub(pi.Total, min).Cmp(big.NewInt(2)) > 0 {
					o.viol(w, "sharders", "payfees/sharder-shares-uneven", fmt.Sprintf("%s got %v, the smallest share is %v", pi.P, pi.Total, min))
				}
			}
		} else if a.S.Cmp(big.NewInt(int64(2*nRew))) > 0 {
			o.viol(w, "sharders", "payfees/rewarded-sharder-left-out", fmt.Sprintf("%d of %d sharders credited although %v units were shared out", len(sharders), nRew, a.S))
		}
		if minerSideKnown {
			// everybody eligible: nothing may be lost
			if sum.Cmp(a.T) != 0 {
				o.viol(w, "total", "payfees/total-differs-from-fees-plus-reward", fmt.Sprintf("credited %v = miner side %v + sharder side %v; block fees %v + block reward %v = %v", sum, a.M, a.S, a.Fees, a.BlockReward, a.T))
			} else {
				w.Tr.Probe("payfees_exact_total_checked")
				if a.Fees.Sign() > 0 {
					w.Tr.Probe("payfees_exact_total_checked_with_fees")
				}
			}
		}
	} else {
		w.Tr.Probe("payfees_with_ineligible_recipients")
	}
	if len(sharders) > 1 {
		w.Tr.Probe("payfees_several_sharders")
	}
}

func (o *OracleC22) AfterBlock(w *ledger.World, bc *ledger.BlockCtx) {
	if o.Prop == "C22" && o.once != nil {
		o.once.afterBlock(o, w, bc)
	}
}

// ---- C10 ------------------------------------------------------------------------------------------

// OracleC10: reward distribution splits the amount exactly.
//
//	(i)  in-run: for every pool a fee payment credits: provider increment ≈ service charge × pool
//	     amount (one unit per distribution call, two calls), the delegates share the rest in proportion
//	     to their stakes within len(pools)+1 units per call, at most N delegates are credited; the sum
//	     over all pools is the exactly known amount (fees + block reward) when every recipient is eligible
//	(ii) checkpoints: each stake pool reached by the history is cloned and the exported
//	     DistributeRewards / DistributeRewardsRandN are driven on the clone with seeded amount, seed, N
type OracleC10 struct {
	M  *Model
	Vw *Viewer
}

func (o *OracleC10) viol(w *ledger.World, oracle, sig, detail string) {
	w.Tr.Violate(&sim.Violation{Prop: "C10", Oracle: oracle, Sig: "C10/" + sig, Detail: detail})
}

func (o *OracleC10) AfterBlock(w *ledger.World, bc *ledger.BlockCtx) {}

func (o *OracleC10) AfterTxn(w *ledger.World, bc *ledger.BlockCtx, out *ledger.Outcome) {
	v := o.Vw.Cur
	if v == nil || v.Class != fnPayFees || out.Class != ledger.Success {
		return
	}
	a := analyseFees(o.M, bc, v)
	if a == nil {
		return
	}
	for _, pi := range a.Incs {
		n := a.GN.NumMinerDelegatesRewarded
		if pi.P.Kind == spenum.Sharder {
			n = a.GN.NumSharderDelegatesRewarded
		}
		o.split(w, "inrun/payFees", pi, pi.Total, n, 2)
	}
}

// split checks one pool's increments against the amount it was paid:
// calls = number of distribution calls that made up the amount (each rounds once).
func (o *OracleC10) split(w *ledger.World, where string, pi *poolInc, amount *big.Int, n int, calls int) {
	old := pi.Old
	if old == nil {
		return
	}
	if !eligible(old) {
		if pi.Total.Sign() != 0 {
			o.viol(w, "eligibility", where+"/killed-or-under-staked-provider-credited", fmt.Sprintf("%s credited %v (dead=%v stake=%v min=%d)", pi.P, pi.Total, old.HasBeenKilled, totalStake(old), old.Settings.MinStake))
		}
		return
	}
	if pi.Total.Cmp(amount) != 0 {
		o.viol(w, "sum", where+"/increments-do-not-add-up-to-amount", fmt.Sprintf("%s: provider %v + delegates = %v, amount %v", pi.P, pi.Prov, pi.Total, amount))
	}
	for id, inc := range pi.Del {
		if inc.Sign() < 0 {
			o.viol(w, "sum", where+"/negative-increment", fmt.Sprintf("%s delegate %s %v", pi.P, id, inc))
		}
	}
	if pi.Prov.Sign() < 0 {
		o.viol(w, "sum", where+"/negative-increment", fmt.Sprintf("%s provider %v", pi.P, pi.Prov))
	}
	if len(old.Pools) == 0 {
		return // everything goes to the provider; the sum check said so
	}
	if len(pi.Del) > n {
		o.viol(w, "randN", where+"/more-than-N-delegates-credited", fmt.Sprintf("%s: %d delegates credited, N = %d", pi.P, len(pi.Del), n))
	}
	if amount.BitLen() > 50 {
		return // beyond 2^50 units the contract's float64 arithmetic is not expected to hold "a few units"
	}
	if !within(pi.Prov, ratApprox(amount, old.Settings.ServiceChargeRatio), float64(calls)) {
		o.viol(w, "charge", where+"/service-charge-differs-from-ratio", fmt.Sprintf("%s: provider got %v of %v, service charge %v", pi.P, pi.Prov, amount, old.Settings.ServiceChargeRatio))
	}
	left := new(big.Int).Sub(amount, pi.Prov)
	base := new(big.Int)
	ids := make([]string, 0, len(pi.Del))
	for id := range pi.Del {
		ids = append(ids, id)
		base.Add(base, coin(old.Pools[id].Balance))
	}
	sort.Strings(ids)
	if base.Sign() == 0 {
		return
	}
	tol := float64(calls * (len(old.Pools) + 1))
	for _, id := range ids {
		want := new(big.Float).SetPrec(256).SetInt(new(big.Int).Mul(left, coin(old.Pools[id].Balance)))
		want.Quo(want, new(big.Float).SetPrec(256).SetInt(base))
		if !within(pi.Del[id], want, tol) {
			o.viol(w, "proportional", where+"/share-not-proportional-to-stake", fmt.Sprintf("%s: delegate %s with stake %d of %v got %v of %v (tolerance %v)", pi.P, id, old.Pools[id].Balance, base, pi.Del[id], left, tol))
		}
	}
	w.Tr.Probe("split_checked:" + where)
	if len(ids) > 1 {
		w.Tr.Probe("split_checked_multi_delegate:" + where)
	}
}

// Checkpoint (st.check: I = [seed, calls per pool]) drives the exported
// distribution functions on clones of every stake pool the history reached.
func (o *OracleC10) Checkpoint(r *ledger.Runner, st sim.Step) {
	driveRewards(o.M, r, st, func(w *ledger.World, where string, pi *poolInc, amount *big.Int, n int, err error, panicked string) {
		if panicked != "" {
			o.viol(w, "sum", where+"/exactness-assertion-panicked", fmt.Sprintf("%s amount %v: %.200s", pi.P, amount, panicked))
			return
		}
		if err != nil {
			w.Tr.Probe("direct_error:" + where)
			return
		}
		o.split(w, where, pi, amount, n, 1)
	})
}

// cloneSP copies a stake pool through its own codec.
func cloneSP(sp *stakepool.StakePool) *stakepool.StakePool {
	b, err := sp.MarshalMsg(nil)
	if err != nil {
		panic(err)
	}
	c := stakepool.NewStakePool()
	if _, err := c.UnmarshalMsg(b); err != nil {
		panic(err)
	}
	return c
}

func diffSP(p *Prov, old, nw *stakepool.StakePool) *poolInc {
	pi := &poolInc{P: p, Old: old, New: nw, Prov: new(big.Int).Sub(coin(nw.Reward), coin(old.Reward)), Del: map[string]*big.Int{}, Total: new(big.Int)}
	pi.Total.Add(pi.Total, pi.Prov)
	for id, odp := range old.Pools {
		if ndp, ok := nw.Pools[id]; ok {
			if inc := new(big.Int).Sub(coin(ndp.Reward), coin(odp.Reward)); inc.Sign() != 0 {
				pi.Del[id] = inc
				pi.Total.Add(pi.Total, inc)
			}
		}
	}
	return pi
}

// driveRewards: for every registered provider whose pool is readable, a few
// seeded (amount, seed, N) calls of both exported functions on a clone, in a
// scratch state context over the block under assembly.
func driveRewards(m *Model, r *ledger.Runner, st sim.Step, judge func(w *ledger.World, where string, pi *poolInc, amount *big.Int, n int, err error, panicked string)) {
	r.EnsureBlock()
	w := m.W
	rng := sim.NewRNG(uint64(st.Int(0, 1))).Child("direct")
	calls := int(st.Int(1, 6))
	for _, p := range m.Provs {
		sp, ok := m.Pool(r.BC, p)
		if !ok || sp == nil || rawAt(r.BC.State, p.PoolKey()) == nil {
			continue
		}
		np := len(sp.Pools)
		for c := 0; c < calls; c++ {
			var amt uint64
			switch rng.Intn(10) {
			case 0:
				amt = 1
			case 1:
				amt = uint64(np) + uint64(rng.Intn(3)) // around the number of pools: remainder handling
				if np > 0 {
					amt--
				}
			case 2:
				amt = uint64(rng.Intn(20))
			case 3:
				amt = 680000000 // the shipped block reward
			case 4:
				amt = uint64(rng.Int63n(1e6))
			case 5:
				amt = uint64(rng.Int63n(1e15))
			case 6:
				amt = uint64(1) << uint(rng.Range(30, 62))
			case 7:
				amt = uint64(rng.Int63n(1e18))
			default:
				amt = uint64(rng.Int63n(1e11))
			}
			seed := int64(rng.Uint64() >> 1)
			n := []int{1, 1, 2, 3, np, np + 1, 10}[rng.Intn(7)]
			if n == 0 {
				n = 1 // N = 0 is not driven (the statement speaks of a subset of N delegates)
			}
			useN := rng.Intn(2) == 0
			clone := cloneSP(sp)
			sctx := w.StateContextOn(r.BC)
			where := "direct/DistributeRewards"
			if useN {
				where = "direct/DistributeRewardsRandN"
			}
			var err error
			panicked := ""
			func() {
				defer func() {
					if rec := recover(); rec != nil {
						panicked = fmt.Sprint(rec)
					}
				}()
				hooks := w.Reg.Hooks
				w.Reg.Hooks = nil
				defer func() { w.Reg.Hooks = hooks }()
				if useN {
					err = clone.DistributeRewardsRandN(currency.Coin(amt), p.ID, p.Kind, seed, n, spenum.BlockRewardMiner, sctx)
				} else {
					err = clone.DistributeRewards(currency.Coin(amt), p.ID, p.Kind, spenum.BlockRewardBlobber, sctx)
				}
			}()
			pi := diffSP(p, sp, clone)
			if !useN {
				n = np
			}
			w.Tr.Event("direct %s %s amt=%d n=%d err=%v total=%v", where, p, amt, n, err != nil, pi.Total)
			w.Tr.Probe("direct_call:" + p.Kind.String())
			judge(w, where, pi, new(big.Int).SetUint64(amt), n, err, panicked)
		}
	}
}
