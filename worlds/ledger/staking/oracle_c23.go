package staking

import (
	"encoding/json"
	"fmt"
	"math/big"

	"0chain.net/smartcontract/stakepool"
	"0chain.net/smartcontract/stakepool/spenum"

	"verif/sim"
	"verif/worlds/ledger"
)

// OracleC23: killing or shutting down a provider disables exactly that provider.
//
//	authorised = contract owner (kill); contract owner or the provider's delegate wallet (shutdown)
//	unauthorised caller: nothing changes beyond fee and nonce
//	authorised, provider alive: only records of that provider change (its provider record, its stake
//	  pool record, the contract's membership indexes); the stake pool, read the way its contract reads
//	  it, is marked dead; every delegate stake is reduced by the configured fraction (storage:
//	  stakepool.kill_slash on kill, the contract halves it for shutdown; the miner contract configures
//	  no slash) within one unit of rounding; no stake-pool record appears or changes under any other key
//	authorised, provider already dead: no stake is reduced again
//	afterwards: no transaction and no direct reward distribution credits the dead provider
type OracleC23 struct {
	M  *Model
	Vw *Viewer
}

func (o *OracleC23) viol(w *ledger.World, oracle, sig, detail string) {
	w.Tr.Violate(&sim.Violation{Prop: "C23", Oracle: oracle, Sig: "C23/" + sig, Detail: detail})
}

// membershipIndex: records through which a contract lists its active
// providers; removing the killed provider from them is part of disabling it.
func membershipIndex(key string) bool {
	switch indexLabel(key) {
	case "index:challenge_ready_blobbers", "index:blobber_part_weights", "index:validators":
		return true
	}
	return false
}

func (o *OracleC23) AfterTxn(w *ledger.World, bc *ledger.BlockCtx, out *ledger.Outcome) {
	v := o.Vw.Cur
	if v == nil || out.Class == ledger.Rejected {
		return
	}
	if v.Class == fnKill || v.Class == fnShutdown {
		o.killed(w, bc, v)
	}
	// later rewards leave a dead provider unchanged
	for _, d := range v.Pools {
		if d.P == nil || !d.P.Dead {
			continue
		}
		old, nw := d.asOwner()
		if old == nil || nw == nil {
			continue
		}
		if nw.Reward > old.Reward {
			o.viol(w, "after", "reward-credited-to-dead-provider/after-"+d.P.DeadBy+"/"+fnName(v), fmt.Sprintf("provider reward of dead %s %d -> %d", d.P, old.Reward, nw.Reward))
		}
		for id, ndp := range nw.Pools {
			if odp, ok := old.Pools[id]; ok && ndp.Reward > odp.Reward {
				o.viol(w, "after", "reward-credited-to-dead-provider/after-"+d.P.DeadBy+"/"+fnName(v), fmt.Sprintf("delegate reward at dead %s %d -> %d", d.P, odp.Reward, ndp.Reward))
			}
		}
		if v.Class == fnPayFees {
			w.Tr.Probe("payfees_touching_dead_provider_record")
		}
	}
}

func (o *OracleC23) AfterBlock(w *ledger.World, bc *ledger.BlockCtx) {}

func (o *OracleC23) killed(w *ledger.World, bc *ledger.BlockCtx, v *txnView) {
	t := v.T
	var req struct {
		ID string `json:"provider_id"`
	}
	_ = json.Unmarshal(t.SmartContractData.InputData, &req)
	kind := kindOfKillFn(v.Fn)
	p := o.M.Find(kind, req.ID)
	if p != nil && p.GoneOK {
		p = nil // its records were deleted when it was killed: no such provider any more
	}
	cf := readConf(w, bc)
	owner := cf.Miner.OwnerId
	if t.ToClientID == ledger.AddrStorage {
		owner = cf.StorageOwner
	}
	// the delegate wallet of the pre-transaction stake pool
	wallet := ""
	var oldSP *stakepool.StakePool
	if p != nil {
		if d := v.pool(p.PoolKey()); d != nil {
			oldSP, _ = d.asOwner()
		} else {
			oldSP, _ = o.M.Pool(bc, p)
		}
		if oldSP != nil {
			wallet = oldSP.Settings.DelegateWallet
		}
	}
	if p == nil && v.Class == fnShutdown {
		// no provider of the function's kind has this id; when a provider of another kind has it, the
		// contract finds that one's stake pool (it does not check the kind) and takes its delegate wallet
		for _, q := range o.M.ByID(req.ID) {
			if q.GoneOK {
				continue
			}
			if sp := prePool(o.M, bc, v, q); sp != nil && sp.Settings.DelegateWallet == t.ClientID {
				wallet = t.ClientID
			}
		}
	}
	authorised := t.ClientID == owner || (v.Class == fnShutdown && wallet != "" && t.ClientID == wallet)
	if !authorised {
		want := map[string]*big.Int{}
		addTo(want, t.ClientID, new(big.Int).Neg(v.Fee))
		addTo(want, ledger.AddrMiner, v.Fee)
		msg, ok := expectAccounts(v, want)
		if !ok {
			o.viol(w, "unauthorised", v.Fn+"/unauthorised-caller-moved-tokens", msg)
		}
		state := "unauthorised-caller-changed-state/"
		if p != nil && p.Dead {
			state = "unauthorised-caller-changed-state-of-already-dead-provider/"
		}
		for _, k := range ledger.SortedKeys(v.Recs) {
			o.viol(w, "unauthorised", v.Fn+"/"+state+keyClass(k),
				fmt.Sprintf("%s sent by %s (not the owner%s) changed record %q%s", v.Fn, t.ClientID, map[bool]string{true: ", not the delegate wallet"}[v.Class == fnShutdown], k, offersNote(v.Recs[k])))
		}
		if v.O.Class == ledger.Success {
			w.Tr.Probe("unauthorised_" + v.Fn + "_returned_success")
		}
		w.Tr.Fault("wrong_caller")
		return
	}
	if p == nil {
		// no such provider of the kind this function is for: nothing of anybody may change
		what := "unregistered-target"
		for _, q := range o.M.ByID(req.ID) {
			if !q.GoneOK {
				what = "target-of-kind-" + q.Kind.String()
			}
		}
		detail := ""
		for _, k := range ledger.SortedKeys(v.Recs) {
			ch := v.Recs[k]
			detail += fmt.Sprintf(" %q (top-level fields before %v, after %v)", k, topKeys(ch.Old), topKeys(ch.New))
		}
		if len(v.Recs) > 0 {
			o.viol(w, "target", v.Fn+"/"+what+"/state-changed", fmt.Sprintf("%s for id %s, which is no %s, changed records:%s", v.Fn, req.ID, kind, detail))
		}
		return
	}
	// only records of THAT provider change
	for _, k := range ledger.SortedKeys(v.Recs) {
		if k == p.ProvKey() || k == p.PoolKey() || membershipIndex(k) {
			continue
		}
		ch := v.Recs[k]
		if d := v.pool(k); d != nil {
			verb := "changed"
			if ch.Old == nil {
				verb = "created"
			}
			o.viol(w, "scope", v.Fn+"/stake-pool-record-"+verb+"-under-foreign-key", fmt.Sprintf("%s of %s (sent by %s) %s the stake-pool record %q", v.Fn, p, t.ClientID, verb, k))
			continue
		}
		o.viol(w, "scope", v.Fn+"/foreign-record-changed/"+keyClass(k), fmt.Sprintf("%s of %s changed record %q", v.Fn, p, k))
	}
	if v.O.Class != ledger.Success {
		w.Tr.Probe("authorised_" + v.Fn + "_failed")
		return
	}
	// where things stand after the transaction
	rawProv := rawAt(bc.State, p.ProvKey())
	rawPool := rawAt(bc.State, p.PoolKey())
	newSP, poolOK := decodePoolAs(p.Kind, rawPool)
	f := 0.0
	if t.ToClientID == ledger.AddrStorage {
		f = cf.KillSlash
		if v.Class == fnShutdown {
			f = cf.KillSlash / 2
		}
	}
	if p.Dead {
		// repeated attempt: nothing may be slashed again
		if oldSP != nil && newSP != nil && poolOK {
			for id, odp := range oldSP.Pools {
				if ndp, ok := newSP.Pools[id]; ok && ndp.Balance != odp.Balance {
					o.viol(w, "once", v.Fn+"/slashed-again", fmt.Sprintf("stake of %s at already dead %s %d -> %d", id, p, odp.Balance, ndp.Balance))
				}
			}
		}
		w.Tr.Probe("repeated_" + v.Fn)
		return
	}
	// was the provider already dead in the state although the model says alive? (killed by a path the model missed)
	w.Tr.Probe("first_" + v.Fn + ":" + p.Kind.String())
	if rawProv == nil {
		// the contract deletes a killed provider without delegates together with its stake pool
		if oldSP != nil && len(oldSP.Pools) > 0 {
			o.viol(w, "dead", v.Fn+"/provider-with-delegates-deleted", fmt.Sprintf("%s had %d delegate pools", p, len(oldSP.Pools)))
		}
		if rawPool != nil && p.ProvKey() != p.PoolKey() {
			o.viol(w, "dead", v.Fn+"/stake-pool-left-behind", fmt.Sprintf("provider record of %s deleted, stake pool record still there", p))
		}
		p.GoneOK = true
		return
	}
	k, s, ok := provFlags(rawProv)
	if !ok || !(k || s) {
		o.viol(w, "dead", v.Fn+"/provider-not-marked", fmt.Sprintf("provider record of %s carries no killed / shut-down flag after a successful %s", p, v.Fn))
	}
	if !poolOK || newSP == nil || rawPool == nil {
		o.viol(w, "dead", v.Fn+"/stake-pool-unreadable", fmt.Sprintf("stake pool of %s cannot be read after %s", p, v.Fn))
		return
	}
	if !newSP.HasBeenKilled {
		o.viol(w, "dead", v.Fn+"/stake-pool-not-marked-dead", fmt.Sprintf("stake pool %q of %s is not marked dead after a successful %s by %s", p.PoolKey(), p, v.Fn, t.ClientID))
	}
	if oldSP != nil {
		for id, odp := range oldSP.Pools {
			ndp, ok := newSP.Pools[id]
			if !ok {
				o.viol(w, "slash", v.Fn+"/delegate-pool-removed", fmt.Sprintf("delegate pool of %s at %s gone", id, p))
				continue
			}
			if !slashOK(uint64(odp.Balance), uint64(ndp.Balance), f) {
				o.viol(w, "slash", v.Fn+"/slash-differs-from-configured-fraction", fmt.Sprintf("stake of %s at %s %d -> %d, configured fraction %v", id, p, odp.Balance, ndp.Balance, f))
			}
			if ndp.Reward != odp.Reward {
				o.viol(w, "slash", v.Fn+"/reward-changed", fmt.Sprintf("reward of %s at %s %d -> %d", id, p, odp.Reward, ndp.Reward))
			}
		}
		if f > 0 && len(oldSP.Pools) > 0 {
			w.Tr.Probe("slashed:" + p.Kind.String())
		}
	}
}

// Checkpoint (st.check): a direct reward distribution on the stake pool of a dead provider, the
// way any later reward payment would reach it, must leave it unchanged.
func (o *OracleC23) Checkpoint(r *ledger.Runner, st sim.Step) {
	driveRewards(o.M, r, st, func(w *ledger.World, where string, pi *poolInc, amount *big.Int, n int, err error, panicked string) {
		if !pi.P.Dead || pi.P.GoneOK {
			return
		}
		w.Tr.Probe("direct_reward_on_dead_pool:" + pi.P.Kind.String())
		if pi.Total.Sign() != 0 || panicked != "" {
			o.viol(w, "after", "reward-credited-to-dead-provider/after-"+pi.P.DeadBy+"/"+where, fmt.Sprintf("%s (dead by %s): a distribution of %v credited %v %s", pi.P, pi.P.DeadBy, amount, pi.Total, panicked))
		}
	})
}

func offersNote(ch ledger.LeafChange) string {
	if ch.Old == nil || ch.New == nil {
		return ""
	}
	if a, b := totalOffers(ch.Old), totalOffers(ch.New); a != b {
		return fmt.Sprintf(" (total_offers %d -> %d)", a, b)
	}
	return ""
}

// slashOK: new == old × (1 − f) within one unit of rounding.
func slashOK(old, nw uint64, f float64) bool {
	x := new(big.Float).SetPrec(200).SetUint64(old)
	r := new(big.Float).SetPrec(200).Sub(big.NewFloat(1), big.NewFloat(f))
	x.Mul(x, r)
	d := new(big.Float).SetPrec(200).Sub(x, new(big.Float).SetUint64(nw))
	d.Abs(d)
	return d.Cmp(big.NewFloat(1)) <= 0
}

// commit marks providers dead; called by the committer after all oracles ran.
func markDead(m *Model, w *ledger.World, bc *ledger.BlockCtx, v *txnView) {
	if v.O.Class != ledger.Success || (v.Class != fnKill && v.Class != fnShutdown) {
		return
	}
	var req struct {
		ID string `json:"provider_id"`
	}
	_ = json.Unmarshal(v.T.SmartContractData.InputData, &req)
	p := m.Find(kindOfKillFn(v.Fn), req.ID)
	for _, d := range v.Pools {
		if p == nil || (d.Key != p.PoolKey() && d.Key != p.ProvKey()) {
			if d.New != nil {
				m.Strays[d.Key] = v.Fn
			}
		}
	}
	// dead from now on: the provider record says so or is gone. A function of another provider kind
	// that reached this id (the contracts do not check the kind) counts as well.
	for _, q := range m.ByID(req.ID) {
		if q.Dead || (p != nil && q != p) && v.Recs[q.ProvKey()].New == nil && v.Recs[q.ProvKey()].Old == nil {
			continue
		}
		raw := rawAt(bc.State, q.ProvKey())
		k, s, ok := provFlags(raw)
		if (raw == nil && q == p) || (ok && (k || s)) {
			q.Dead, q.DeadBy = true, v.Fn
		}
	}
}

var _ = spenum.Miner
