package staking

import (
	"encoding/hex"
	"encoding/json"
	"fmt"
	"math/big"
	"regexp"
	"sort"
	"strings"

	"0chain.net/chaincore/transaction"
	"0chain.net/core/config"
	"0chain.net/core/encryption"
	"0chain.net/smartcontract/minersc"
	"0chain.net/smartcontract/stakepool"
	"0chain.net/smartcontract/stakepool/spenum"
	"0chain.net/smartcontract/storagesc"
	"0chain.net/smartcontract/zcnsc"
	"github.com/0chain/common/core/currency"

	"verif/worlds/ledger"
)

// ---- configuration as stored in the state ---------------------------------------------------------

// Conf is the configuration the oracles need, read from the trie of the block
// under assembly (falling back to sc.yaml for records the contracts create lazily).
type Conf struct {
	Miner           *minersc.GlobalNode
	StorageMinStake currency.Coin
	StorageMaxStake currency.Coin
	StorageMaxDel   int
	KillSlash       float64
	StorageOwner    string
	ZcnMinStake     currency.Coin
	ZcnMaxStake     currency.Coin
	ZcnMaxDel       int
}

func storageConfKey() string { return storagesc.ADDRESS + encryption.Hash("storagesc_config") }

func readConf(w *ledger.World, bc *ledger.BlockCtx) *Conf {
	c := &Conf{}
	gn := &minersc.GlobalNode{}
	if raw := rawAt(bc.State, minersc.GlobalNodeKey); raw != nil {
		if _, err := gn.UnmarshalMsg(raw); err != nil {
			panic(fmt.Sprintf("cannot decode the miner contract's global node: %v", err))
		}
	}
	c.Miner = gn
	scc := config.SmartContractConfig
	sc := &storagesc.Config{}
	if raw := rawAt(bc.State, storageConfKey()); raw != nil {
		if _, err := sc.UnmarshalMsg(raw); err != nil {
			panic(fmt.Sprintf("cannot decode the storage contract's config: %v", err))
		}
		c.StorageMinStake, c.StorageMaxStake, c.StorageMaxDel, c.StorageOwner = sc.MinStake, sc.MaxStake, sc.MaxDelegates, sc.OwnerId
		if sc.StakePool != nil {
			c.KillSlash = sc.StakePool.KillSlash
		}
	} else {
		const pfx = "smart_contracts.storagesc."
		c.StorageMinStake, _ = currency.ParseZCN(scc.GetFloat64(pfx + "min_stake"))
		c.StorageMaxStake, _ = currency.ParseZCN(scc.GetFloat64(pfx + "max_stake"))
		c.StorageMaxDel = scc.GetInt(pfx + "max_delegates")
		c.KillSlash = scc.GetFloat64(pfx + "stakepool.kill_slash")
		c.StorageOwner = scc.GetString(pfx + "owner_id")
	}
	sctx := w.StateContextOn(bc)
	if zg, err := zcnsc.GetGlobalNode(sctx); err == nil && zg.ZCNSConfig != nil {
		c.ZcnMinStake, c.ZcnMaxStake, c.ZcnMaxDel = zg.MinStakeAmount, zg.MaxStakeAmount, zg.MaxDelegates
	}
	return c
}

// ---- per-transaction view -------------------------------------------------------------------------

// poolDiff is one changed record that carries a stake pool (found by content, whatever its key).
type poolDiff struct {
	Key      string
	Old, New []byte
	OldSP    *stakepool.StakePool // generic decode (nil when absent / not a pool)
	NewSP    *stakepool.StakePool
	OldLay   string
	NewLay   string
	P        *Prov // registered provider whose pool record this key is (nil: foreign key)
}

// asOwner decodes old and new the way the owning contract reads the record.
func (d *poolDiff) asOwner() (old, nw *stakepool.StakePool) {
	if d.P == nil {
		return d.OldSP, d.NewSP
	}
	old, _ = decodePoolAs(d.P.Kind, d.Old)
	nw, _ = decodePoolAs(d.P.Kind, d.New)
	return
}

type txnView struct {
	O     *ledger.Outcome
	T     *transaction.Transaction
	Fn    string
	Class int
	Accts []ledger.AccountDelta
	Recs  map[string]ledger.LeafChange
	Pools []*poolDiff
	Req   spRequest
	ReqOK bool
	Fee   *big.Int // fee actually charged
}

func (v *txnView) pool(key string) *poolDiff {
	for _, d := range v.Pools {
		if d.Key == key {
			return d
		}
	}
	return nil
}

var hexID = regexp.MustCompile(`[0-9a-f]{64}`)

// The storage contract keeps its provider indexes (partitions) under hashed
// keys; indexLabel names the ones the staking surface touches.
var indexKeys = []struct{ prefix, label string }{
	{storagesc.ALL_CHALLENGE_READY_BLOBBERS_KEY, "index:challenge_ready_blobbers"},
	{storagesc.ALL_VALIDATORS_KEY, "index:validators"},
	{storagesc.BLOBBER_REWARD_KEY, "index:blobber_rewards"},
	{encryption.Hash("blobber_part_weight_partitions"), "index:blobber_part_weights"},
	{storagesc.AUTHORIZERS_COUNT_KEY, "index:authorizer_count"},
}

func indexLabel(k string) string {
	for _, ik := range indexKeys {
		if strings.HasPrefix(k, ik.prefix) {
			return ik.label
		}
	}
	return ""
}

// keyClass strips identifiers from a record key so that it can go into a signature.
func keyClass(k string) string {
	if l := indexLabel(k); l != "" {
		return l
	}
	s := hexID.ReplaceAllString(k, "<id>")
	if len(s) > 60 {
		s = s[:60]
	}
	return s
}

// Viewer is the first observer of every staking scenario: it classifies the
// transaction and decodes the changed stake pools once for all oracles.
type Viewer struct {
	M   *Model
	Cur *txnView
	Dbg bool
}

func (vw *Viewer) AfterTxn(w *ledger.World, bc *ledger.BlockCtx, o *ledger.Outcome) {
	t := o.Txn
	v := &txnView{O: o, T: t, Class: classify(t), Fee: new(big.Int)}
	if t.SmartContractData != nil {
		v.Fn = t.SmartContractData.FunctionName
	}
	if w.C.ChainConfig.IsFeeEnabled() {
		v.Fee.SetUint64(uint64(t.Fee))
	}
	v.Req, v.ReqOK = parseSPRequest(t)
	if o.Class != ledger.Rejected {
		v.Accts, v.Recs = w.SplitChanges(o.Changes())
		for _, k := range ledger.SortedKeys(v.Recs) {
			ch := v.Recs[k]
			d := &poolDiff{Key: k, Old: ch.Old, New: ch.New, P: vw.M.byKey[k]}
			okO, okN := false, false
			if ch.Old != nil {
				d.OldSP, d.OldLay, okO = poolFromAny(ch.Old)
			}
			if ch.New != nil {
				d.NewSP, d.NewLay, okN = poolFromAny(ch.New)
			}
			if okO || okN || d.P != nil {
				v.Pools = append(v.Pools, d)
			}
		}
	}
	vw.Cur = v
	if vw.Dbg && v.Class != fnNone {
		var ks []string
		for k := range v.Recs {
			ks = append(ks, keyClass(k))
		}
		sort.Strings(ks)
		w.Tr.Event("dbg %s class=%s recs=%s out=%.120s", v.Fn, o.Class, strings.Join(ks, ","), t.TransactionOutput)
	}
	// fault accounting: failures of staking calls are faults that fired
	if v.Class != fnNone {
		switch o.Class {
		case ledger.Chargeable:
			w.Tr.Fault("chargeable_failure")
		case ledger.Rejected:
			w.Tr.Fault("rejected")
		}
	}
}

func (vw *Viewer) AfterBlock(w *ledger.World, bc *ledger.BlockCtx) {}

// Committer is the last observer: it updates the model after all oracles saw
// the transaction against the pre-transaction model.
type Committer struct {
	M  *Model
	Vw *Viewer
}

func (c *Committer) AfterTxn(w *ledger.World, bc *ledger.BlockCtx, o *ledger.Outcome) {
	v := c.Vw.Cur
	if v == nil || o.Class != ledger.Success {
		return
	}
	m := c.M
	t := o.Txn
	markDead(m, w, bc, v)
	switch v.Class {
	case fnRegister:
		kind, id, wallet := registeredAs(t)
		if kind != 0 {
			if _, ok := decodePoolAs(kind, rawAt(bc.State, poolKey(kind, id))); ok && rawAt(bc.State, poolKey(kind, id)) != nil {
				if p := m.Find(kind, id); p == nil {
					m.add(kind, id, wallet)
					w.Tr.Probe("registered:" + kind.String())
				} else if p.GoneOK && len(v.Recs) > 0 {
					// a provider whose records were deleted when it was killed registered again
					p.Dead, p.GoneOK, p.DeadBy, p.Wallet = false, false, "", wallet
					w.Tr.Probe("re_registered_after_kill:" + kind.String())
				}
			}
		}
	case fnLock:
		if p := m.Target(t.ToClientID, v.Req.ProviderType, v.Req.ProviderID); p != nil {
			w.Tr.Probe("lock_ok:" + p.Kind.String())
		} else {
			w.Tr.Probe("lock_ok:unregistered-target")
		}
	case fnUnlock:
		if p := m.Target(t.ToClientID, v.Req.ProviderType, v.Req.ProviderID); p != nil {
			w.Tr.Probe("unlock_ok:" + p.Kind.String())
		} else {
			w.Tr.Probe("unlock_ok:unregistered-target")
		}
	case fnCollect:
		var cr stakepool.CollectRewardRequest
		_ = json.Unmarshal(t.SmartContractData.InputData, &cr)
		if p := m.Target(t.ToClientID, cr.ProviderType, cr.ProviderId); p != nil {
			w.Tr.Probe("collect_ok:" + p.Kind.String())
			for _, a := range v.Accts {
				if a.ID == t.ClientID && a.BalDelta().Cmp(new(big.Int).Neg(v.Fee)) > 0 {
					w.Tr.Probe("collect_paid:" + p.Kind.String())
				}
			}
		}
	case fnPayFees:
		w.Tr.Probe("payfees_ok")
	case fnKill, fnShutdown:
		w.Tr.Probe(v.Fn + "_ok")
	}
	// principal history (C11): follow every delegate balance the diff shows
	for _, d := range v.Pools {
		if d.P == nil {
			continue
		}
		old, nw := d.asOwner()
		seen := map[string]bool{}
		if nw != nil {
			for id, dp := range nw.Pools {
				seen[id] = true
				m.Principal[d.Key+"|"+id] = coin(dp.Balance)
			}
		}
		if old != nil {
			for id := range old.Pools {
				if !seen[id] {
					delete(m.Principal, d.Key+"|"+id)
				}
			}
		}
	}
}

func (c *Committer) AfterBlock(w *ledger.World, bc *ledger.BlockCtx) {}

// registeredAs extracts (kind, id, delegate wallet) from a registration transaction.
func registeredAs(t *transaction.Transaction) (spenum.Provider, string, string) {
	in := t.SmartContractData.InputData
	switch t.SmartContractData.FunctionName {
	case "add_miner", "add_sharder":
		mn := minersc.NewMinerNode()
		if err := json.Unmarshal(in, mn); err != nil {
			return 0, "", ""
		}
		k := spenum.Miner
		if t.SmartContractData.FunctionName == "add_sharder" {
			k = spenum.Sharder
		}
		return k, mn.ID, mn.Settings.DelegateWallet
	case "add_blobber", "add_validator":
		var x struct {
			S stakepool.Settings `json:"stake_pool_settings"`
		}
		if err := json.Unmarshal(in, &x); err != nil {
			return 0, "", ""
		}
		k := spenum.Blobber
		if t.SmartContractData.FunctionName == "add_validator" {
			k = spenum.Validator
		}
		return k, t.ClientID, x.S.DelegateWallet
	case zcnsc.AddAuthorizerFunc:
		var x zcnsc.AddAuthorizerPayload
		if err := json.Unmarshal(in, &x); err != nil {
			return 0, "", ""
		}
		b, err := hex.DecodeString(x.PublicKey)
		if err != nil {
			return 0, "", ""
		}
		return spenum.Authorizer, encryption.Hash(b), x.StakePoolSettings.DelegateWallet
	}
	return 0, "", ""
}
