package staking

import (
	"encoding/json"
	"fmt"
	"math/big"

	cstate "0chain.net/chaincore/chain/state"
	"0chain.net/chaincore/transaction"
	"0chain.net/core/common"
	"0chain.net/core/config"
	"0chain.net/smartcontract/stakepool"
	"0chain.net/smartcontract/stakepool/spenum"

	"verif/sim"
	"verif/worlds/ledger"
)

// Checkpoint (st.check): state-harvested direct driving of the exported unlock path. Pools slashed
// to zero only arise at blobbers / validators (only the storage contract slashes), whose contract
// overrides Empty; the generic stakepool.StakePool.Empty that miner, sharder and authorizer pools
// use never meets such a pool in a real history. So every stake pool the history reached is cloned
// as a generic stakepool.StakePool and the shipped stakepool.StakePoolUnlock is called for each of
// its delegates in a scratch state context, then once more. Same oracle as for the real
// transactions: the owner is paid exactly balance + reward (+ the provider's service charge when it
// is the delegate wallet), the pool is removed, a second unlock is refused.
func (o *OracleC11) Checkpoint(r *ledger.Runner, st sim.Step) {
	r.EnsureBlock()
	w := o.M.W
	for _, p := range o.M.Provs {
		sp, ok := o.M.Pool(r.BC, p)
		if !ok || sp == nil || rawAt(r.BC.State, p.PoolKey()) == nil {
			continue
		}
		for _, id := range sortedDelegates(sp) {
			clone := cloneSP(sp)
			dp := sp.Pools[id]
			sctx := w.StateContextOn(r.BC)
			in, _ := json.Marshal(spRequest{ProviderType: p.Kind, ProviderID: p.ID})
			// the unlock is dated after the lock period (the contract compares it with the transaction time)
			mlp := common.Timestamp(config.SmartContractConfig.GetDuration("stakepool.min_lock_period").Seconds())
			t := &transaction.Transaction{ClientID: id, ToClientID: p.Contract, CreationDate: w.Now + mlp + 1}
			get := func(spenum.Provider, string, cstate.StateContextI) (stakepool.AbstractStakePool, error) { return clone, nil }
			hooks := w.Reg.Hooks
			w.Reg.Hooks = nil
			_, err := stakepool.StakePoolUnlock(t, in, sctx, get)
			var err2 error
			if err == nil {
				_, err2 = stakepool.StakePoolUnlock(t, in, sctx, get)
			}
			w.Reg.Hooks = hooks
			zero := ""
			if dp.Balance == 0 {
				zero = "/zero-balance-pool"
				w.Tr.Probe("direct_unlock_of_zero_balance_pool:" + p.Kind.String())
			}
			w.Tr.Probe("direct_unlock:" + p.Kind.String())
			w.Tr.Event("direct unlock %s bal=%d rew=%d err=%v again=%v", p, dp.Balance, dp.Reward, err != nil, err2 != nil)
			if err != nil {
				continue // refusals (lock period) are not judged here
			}
			if _, still := clone.Pools[id]; still {
				o.viol(w, "direct", "direct/StakePoolUnlock/pool-not-removed"+zero, fmt.Sprintf("%s: delegate pool of %s (balance %d, reward %d) is still there after a successful unlock", p, id, dp.Balance, dp.Reward))
			}
			if err2 == nil {
				o.viol(w, "direct", "direct/StakePoolUnlock/second-unlock-accepted"+zero, fmt.Sprintf("%s: the pool of %s (balance %d) was unlocked twice", p, id, dp.Balance))
			}
			want := new(big.Int).Add(coin(dp.Balance), coin(dp.Reward))
			if id == sp.Settings.DelegateWallet {
				want.Add(want, coin(sp.Reward))
			}
			got := new(big.Int)
			for _, tr := range sctx.GetTransfers() {
				if tr.ToClientID == id {
					got.Add(got, coin(tr.Amount))
				}
			}
			if err2 == nil {
				continue // the second call's payments are in the same context
			}
			if got.Cmp(want) != 0 {
				o.viol(w, "direct", "direct/StakePoolUnlock/paid-differs-from-balance-plus-reward"+zero, fmt.Sprintf("%s: paid %v, balance %d + reward %d", p, got, dp.Balance, dp.Reward))
			}
		}
	}
}
