package staking

import (
	"fmt"
	"math/big"
	"strings"

	"0chain.net/smartcontract/stakepool"
	"0chain.net/smartcontract/stakepool/spenum"
	"github.com/0chain/common/core/currency"

	"verif/sim"
	"verif/worlds/ledger"
)

// OracleC11: staking and unstaking return exactly what was locked.
//
//	lock    (success): staker −v(−fee), contract wallet +v, that delegate pool +v, nothing else; within
//	        the configured min/max stake and the delegate limit
//	unlock  (success): the owner receives exactly pool balance + pool reward (+ the provider's own
//	        accrued service charge when the owner is also the provider's delegate wallet, which the
//	        same call collects), the pool is gone, nothing else changes
//	collect (success): the owner receives exactly the accrued reward, the stake stays
//	guard   (every applied transaction): a delegate pool changes only through its owner's own lock /
//	        unlock / collect, a reward payment (rewards only go up, stakes untouched) or a kill /
//	        shutdown slash (judged by C23)
//	history: the stake paid back equals the stake the history locked (minus slashes it observed)
type OracleC11 struct {
	M  *Model
	Vw *Viewer
}

const c11 = "C11"

func (o *OracleC11) viol(w *ledger.World, oracle, sig, detail string) {
	w.Tr.Violate(&sim.Violation{Prop: c11, Oracle: oracle, Sig: "C11/" + sig, Detail: detail})
}

// expectAccounts compares the account deltas of the diff with the expected ones (exactly).
func expectAccounts(v *txnView, want map[string]*big.Int) (string, bool) {
	got := map[string]*big.Int{}
	for _, a := range v.Accts {
		if d := a.BalDelta(); d.Sign() != 0 {
			got[a.ID] = d
		}
	}
	for id, d := range want {
		if d.Sign() == 0 {
			continue
		}
		g, ok := got[id]
		if !ok || g.Cmp(d) != 0 {
			return fmt.Sprintf("account %s changed by %v, expected %v", id, g, d), false
		}
	}
	for id, g := range got {
		if d, ok := want[id]; !ok || d.Sign() == 0 {
			return fmt.Sprintf("account %s changed by %v, expected no change", id, g), false
		}
	}
	return "", true
}

func addTo(m map[string]*big.Int, id string, d *big.Int) {
	if x, ok := m[id]; ok {
		x.Add(x, d)
	} else {
		m[id] = new(big.Int).Set(d)
	}
}

func sameDP(a, b *stakepool.DelegatePool) bool {
	return a.Balance == b.Balance && a.Reward == b.Reward && a.DelegateID == b.DelegateID && a.Status == b.Status
}

// othersUntouched: every delegate pool except `but` is identical, and the pool-level fields too.
func othersUntouched(old, nw *stakepool.StakePool, but string, allowSPReward bool) (string, bool) {
	for id, dp := range old.Pools {
		if id == but {
			continue
		}
		n, ok := nw.Pools[id]
		if !ok {
			return "delegate pool of " + id + " disappeared", false
		}
		if !sameDP(dp, n) {
			return "delegate pool of " + id + " changed", false
		}
	}
	for id := range nw.Pools {
		if id == but {
			continue
		}
		if _, ok := old.Pools[id]; !ok {
			return "delegate pool of " + id + " appeared", false
		}
	}
	if !allowSPReward && old.Reward != nw.Reward {
		return fmt.Sprintf("provider reward changed %d -> %d", old.Reward, nw.Reward), false
	}
	if old.Settings != nw.Settings {
		return "stake pool settings changed", false
	}
	if old.HasBeenKilled != nw.HasBeenKilled {
		return "dead flag changed", false
	}
	if old.Minter != nw.Minter {
		return "minter changed", false
	}
	return "", true
}

// collateralOK lists the records a stake operation may touch besides the
// stake pool itself: derived indexes of the same contract that carry no
// tokens. Everything else is "something else" in the sense of the statement.
func collateralOK(kind spenum.Provider, p *Prov, key string) bool {
	if p != nil && key == p.ProvKey() {
		// miners / sharders: the pool lives in the provider record (total_stake is refreshed there)
		return kind == spenum.Miner || kind == spenum.Sharder
	}
	if kind == spenum.Blobber {
		// storagesc refreshes the blobber's weight in the challenge-ready partitions
		l := indexLabel(key)
		return l == "index:challenge_ready_blobbers" || l == "index:blobber_part_weights"
	}
	return false
}

func (o *OracleC11) AfterTxn(w *ledger.World, bc *ledger.BlockCtx, out *ledger.Outcome) {
	v := o.Vw.Cur
	if v == nil || out.Class == ledger.Rejected {
		return
	}
	if out.Class == ledger.Success {
		switch v.Class {
		case fnLock:
			o.lock(w, bc, v)
		case fnUnlock:
			o.unlock(w, bc, v)
		case fnCollect:
			o.collect(w, bc, v)
		}
	}
	if out.Class == ledger.Chargeable && v.Class == fnUnlock {
		o.refused(w, bc, v)
	}
	o.guard(w, v)
}

func (o *OracleC11) AfterBlock(w *ledger.World, bc *ledger.BlockCtx) {}

// foreign names what a stake request addressed when it is not a provider registered with the
// called contract.
func (o *OracleC11) foreign(v *txnView, kind spenum.Provider, id string) string {
	for _, d := range v.Pools {
		if fn, ok := o.M.Strays[d.Key]; ok && d.P == nil {
			return "stray-stake-pool-copy-left-by-" + fn
		}
	}
	for _, q := range o.M.ByID(id) {
		if q.Kind == kind && q.Contract != v.T.ToClientID {
			return "provider-of-another-contract/" + q.Kind.String()
		}
	}
	if q := o.M.ByID(id); len(q) > 0 {
		return "provider-of-kind-" + q[0].Kind.String() + "-addressed-as-" + kind.String()
	}
	return "unregistered-provider"
}

func (o *OracleC11) lock(w *ledger.World, bc *ledger.BlockCtx, v *txnView) {
	t := v.T
	s := t.ClientID
	val := coin(t.Value)
	// accounts: staker −v −fee, called contract +v, fee wallet +fee, nothing else
	want := map[string]*big.Int{}
	addTo(want, s, new(big.Int).Neg(val))
	addTo(want, s, new(big.Int).Neg(v.Fee))
	addTo(want, t.ToClientID, val)
	addTo(want, ledger.AddrMiner, v.Fee)
	if msg, ok := expectAccounts(v, want); !ok {
		o.viol(w, "lock", "lock/"+v.Fn+"/account-deltas", msg)
	}
	p := o.M.Target(t.ToClientID, v.Req.ProviderType, v.Req.ProviderID)
	if !v.ReqOK || p == nil {
		// the contract accepted a stake for something that is not one of its registered providers
		what := o.foreign(v, v.Req.ProviderType, v.Req.ProviderID)
		o.viol(w, "lock", "lock/"+v.Fn+"/accepted-for-"+what,
			fmt.Sprintf("%s accepted a stake of %d for (%s, %s), which is not a provider registered with this contract", v.Fn, t.Value, v.Req.ProviderType, v.Req.ProviderID))
		return
	}
	d := v.pool(p.PoolKey())
	if d == nil {
		for _, x := range v.Pools {
			if x.NewSP != nil {
				if dp, ok := x.NewSP.Pools[s]; ok && dp.DelegateID == s {
					o.viol(w, "lock", "lock/"+v.Fn+"/pool-written-under-another-key", fmt.Sprintf("the stake of %d for %s went into record %q, the provider's stake pool record %q did not change (request provider_type %s)", t.Value, p, x.Key, p.PoolKey(), v.Req.ProviderType))
					return
				}
			}
		}
		o.viol(w, "lock", "lock/"+v.Fn+"/pool-not-credited", fmt.Sprintf("stake pool record %q of %s did not change", p.PoolKey(), p))
		return
	}
	old, nw := d.asOwner()
	if old == nil {
		old = stakepool.NewStakePool()
	}
	if nw == nil {
		o.viol(w, "lock", "lock/"+v.Fn+"/pool-unreadable-after-lock", fmt.Sprintf("the contract can no longer read %q as a stake pool", d.Key))
		return
	}
	var before currency.Coin
	odp, had := old.Pools[s]
	if had {
		before = odp.Balance
	}
	ndp, ok := nw.Pools[s]
	switch {
	case !ok:
		lay := ""
		if d.NewLay == layRaw && p.Kind != spenum.Miner && p.Kind != spenum.Sharder {
			lay = "/record-rewritten-in-a-layout-the-contract-does-not-read"
		}
		o.viol(w, "lock", "lock/"+v.Fn+"/pool-not-credited"+lay,
			fmt.Sprintf("after a successful lock of %d by %s the stake pool of %s, read the way %s reads it, holds no delegate pool of the staker (record layout now %q, before %q)", t.Value, s, p, v.Fn, d.NewLay, d.OldLay))
		o.elseUntouched(w, v, p, "lock")
		return
	case coin(ndp.Balance).Cmp(new(big.Int).Add(coin(before), val)) != 0:
		o.viol(w, "lock", "lock/"+v.Fn+"/pool-balance", fmt.Sprintf("delegate pool balance %d -> %d after locking %d", before, ndp.Balance, t.Value))
	case ndp.DelegateID != s:
		o.viol(w, "lock", "lock/"+v.Fn+"/pool-owner", fmt.Sprintf("delegate pool keyed by %s is owned by %s", s, ndp.DelegateID))
	case had && ndp.Reward != odp.Reward, !had && ndp.Reward != 0:
		o.viol(w, "lock", "lock/"+v.Fn+"/pool-reward-changed", "the lock changed the accrued reward")
	}
	if msg, ok := othersUntouched(old, nw, s, false); !ok {
		o.viol(w, "lock", "lock/"+v.Fn+"/something-else-changed-in-pool", msg)
	}
	o.elseUntouched(w, v, p, "lock")
	// bounds
	cf := readConf(w, bc)
	min, max, maxDel := cf.Miner.MinStake, cf.Miner.MaxStake, cf.Miner.MaxDelegates
	switch t.ToClientID {
	case ledger.AddrStorage:
		min, max, maxDel = cf.StorageMinStake, cf.StorageMaxStake, cf.StorageMaxDel
	case ledger.AddrZCN:
		min, max, maxDel = cf.ZcnMinStake, cf.ZcnMaxStake, cf.ZcnMaxDel
	}
	if t.Value == 0 || t.Value < min {
		o.viol(w, "bounds", "lock/"+v.Fn+"/below-min-stake", fmt.Sprintf("locked %d, configured min stake %d", t.Value, min))
	}
	if ok && ndp.Balance > max {
		o.viol(w, "bounds", "lock/"+v.Fn+"/above-max-stake", fmt.Sprintf("delegate pool holds %d, configured max stake %d", ndp.Balance, max))
	}
	if !had && len(nw.Pools) > old.Settings.MaxNumDelegates {
		o.viol(w, "bounds", "lock/"+v.Fn+"/delegate-limit-exceeded", fmt.Sprintf("%d delegate pools, the provider allows %d", len(nw.Pools), old.Settings.MaxNumDelegates))
	}
	_ = maxDel
	if v.T.Value == min {
		w.Tr.Probe("lock_at_min_stake")
	}
	if ok && ndp.Balance == max {
		w.Tr.Probe("lock_at_max_stake")
	}
	if !had && len(nw.Pools) == old.Settings.MaxNumDelegates {
		w.Tr.Probe("lock_reaches_delegate_limit")
	}
}

// elseUntouched: no other stake pool record, no unrelated record.
func (o *OracleC11) elseUntouched(w *ledger.World, v *txnView, p *Prov, op string) {
	for _, d := range v.Pools {
		if d.Key != p.PoolKey() {
			o.viol(w, op, op+"/"+v.Fn+"/other-stake-pool-record-changed/"+keyClass(d.Key), fmt.Sprintf("record %q changed", d.Key))
		}
	}
	for k := range v.Recs {
		if k == p.PoolKey() || v.pool(k) != nil || collateralOK(p.Kind, p, k) {
			continue
		}
		o.viol(w, op, op+"/"+v.Fn+"/unrelated-record-changed/"+keyClass(k), fmt.Sprintf("record %q changed", k))
	}
}

func (o *OracleC11) unlock(w *ledger.World, bc *ledger.BlockCtx, v *txnView) {
	t := v.T
	s := t.ClientID
	p := o.M.Target(t.ToClientID, v.Req.ProviderType, v.Req.ProviderID)
	if !v.ReqOK || p == nil {
		// an unlock that succeeds without a provider of this contract must at least move nothing
		want := map[string]*big.Int{}
		addTo(want, s, new(big.Int).Neg(v.Fee))
		addTo(want, ledger.AddrMiner, v.Fee)
		if msg, ok := expectAccounts(v, want); !ok || len(v.Recs) > 0 {
			o.viol(w, "unlock", "unlock/"+v.Fn+"/accepted-for-"+o.foreign(v, v.Req.ProviderType, v.Req.ProviderID),
				fmt.Sprintf("%s succeeded for (%s, %s), not a provider registered with this contract; %s; %d records changed", v.Fn, v.Req.ProviderType, v.Req.ProviderID, msg, len(v.Recs)))
		}
		return
	}
	d := v.pool(p.PoolKey())
	var old, nw *stakepool.StakePool
	if d != nil {
		old, nw = d.asOwner()
	} else {
		old, _ = o.M.Pool(bc, p)
		nw = old
	}
	if old == nil {
		o.viol(w, "unlock", "unlock/"+v.Fn+"/succeeded-without-stake-pool", "no readable stake pool before the unlock")
		return
	}
	odp, had := old.Pools[s]
	if !had {
		o.viol(w, "unlock", "unlock/"+v.Fn+"/succeeded-without-pool", fmt.Sprintf("%s has no delegate pool at %s", s, p))
		return
	}
	pay := new(big.Int).Add(coin(odp.Balance), coin(odp.Reward))
	extra := new(big.Int)
	if s == old.Settings.DelegateWallet {
		extra = coin(old.Reward)
	}
	pay.Add(pay, extra)
	want := map[string]*big.Int{}
	addTo(want, s, pay)
	addTo(want, s, new(big.Int).Neg(v.Fee))
	addTo(want, t.ToClientID, new(big.Int).Neg(pay))
	addTo(want, ledger.AddrMiner, v.Fee)
	if msg, ok := expectAccounts(v, want); !ok {
		o.viol(w, "unlock", "unlock/"+v.Fn+"/account-deltas", fmt.Sprintf("pool balance %d reward %d provider-reward-collected %v: %s", odp.Balance, odp.Reward, extra, msg))
	}
	if nw != nil {
		if _, still := nw.Pools[s]; still {
			o.viol(w, "unlock", "unlock/"+v.Fn+"/pool-not-removed", "the delegate pool is still there after a successful unlock")
		}
		if msg, ok := othersUntouched(old, nw, s, true); !ok {
			o.viol(w, "unlock", "unlock/"+v.Fn+"/something-else-changed-in-pool", msg)
		}
		if coin(nw.Reward).Cmp(new(big.Int).Sub(coin(old.Reward), extra)) != 0 {
			o.viol(w, "unlock", "unlock/"+v.Fn+"/provider-reward", fmt.Sprintf("provider reward %d -> %d, collected %v", old.Reward, nw.Reward, extra))
		}
	}
	o.elseUntouched(w, v, p, "unlock")
	// history: what comes back is what the history locked
	if pr, ok := o.M.Principal[p.PoolKey()+"|"+s]; ok && pr.Cmp(coin(odp.Balance)) != 0 {
		o.viol(w, "history", "unlock/"+v.Fn+"/principal-differs-from-history", fmt.Sprintf("pool balance %d, the history locked %v", odp.Balance, pr))
	}
	if odp.Reward > 0 {
		w.Tr.Probe("unlock_with_reward")
	}
}

func (o *OracleC11) collect(w *ledger.World, bc *ledger.BlockCtx, v *txnView) {
	t := v.T
	s := t.ClientID
	kind, id := collectTarget(v)
	p := o.M.Target(t.ToClientID, kind, id)
	if p == nil {
		want := map[string]*big.Int{}
		addTo(want, s, new(big.Int).Neg(v.Fee))
		addTo(want, ledger.AddrMiner, v.Fee)
		if msg, ok := expectAccounts(v, want); !ok || len(v.Recs) > 0 {
			o.viol(w, "collect", "collect/"+v.Fn+"/accepted-for-"+o.foreign(v, kind, id),
				fmt.Sprintf("%s succeeded for (%s, %s), not a provider registered with this contract; %s; %d records changed", v.Fn, kind, id, msg, len(v.Recs)))
		}
		return
	}
	d := v.pool(p.PoolKey())
	var old, nw *stakepool.StakePool
	if d != nil {
		old, nw = d.asOwner()
	} else {
		old, _ = o.M.Pool(bc, p)
		nw = old
	}
	if old == nil || nw == nil {
		o.viol(w, "collect", "collect/"+v.Fn+"/stake-pool-unreadable", "no readable stake pool around a successful collect")
		return
	}
	pay := new(big.Int)
	odp, had := old.Pools[s]
	if had {
		pay.Add(pay, coin(odp.Reward))
	}
	extra := new(big.Int)
	if s == old.Settings.DelegateWallet {
		extra = coin(old.Reward)
	}
	pay.Add(pay, extra)
	want := map[string]*big.Int{}
	addTo(want, s, pay)
	addTo(want, s, new(big.Int).Neg(v.Fee))
	addTo(want, t.ToClientID, new(big.Int).Neg(pay))
	addTo(want, ledger.AddrMiner, v.Fee)
	if msg, ok := expectAccounts(v, want); !ok {
		o.viol(w, "collect", "collect/"+v.Fn+"/account-deltas", msg)
	}
	if had {
		ndp, still := nw.Pools[s]
		if !still || ndp.Balance != odp.Balance || ndp.Reward != 0 || ndp.DelegateID != odp.DelegateID {
			o.viol(w, "collect", "collect/"+v.Fn+"/pool-after-collect", "the delegate pool must keep its stake and have no reward left")
		}
	}
	if msg, ok := othersUntouched(old, nw, s, true); !ok {
		o.viol(w, "collect", "collect/"+v.Fn+"/something-else-changed-in-pool", msg)
	}
	if coin(nw.Reward).Cmp(new(big.Int).Sub(coin(old.Reward), extra)) != 0 {
		o.viol(w, "collect", "collect/"+v.Fn+"/provider-reward", fmt.Sprintf("provider reward %d -> %d, collected %v", old.Reward, nw.Reward, extra))
	}
	o.elseUntouched(w, v, p, "collect")
}

// refused: the owner of an existing delegate pool was refused. The statement
// says unlocking pays back; the only refusals it leaves room for are the ones
// the contracts document (lock period, stake covering open offers).
func (o *OracleC11) refused(w *ledger.World, bc *ledger.BlockCtx, v *txnView) {
	p := o.M.Target(v.T.ToClientID, v.Req.ProviderType, v.Req.ProviderID)
	if !v.ReqOK || p == nil {
		return
	}
	if p.Contract != ledger.AddrZCN && v.Req.ProviderType != p.Kind {
		return
	}
	if _, known := map[spenum.Provider]bool{spenum.Miner: true, spenum.Sharder: true, spenum.Blobber: true, spenum.Validator: true, spenum.Authorizer: true}[v.Req.ProviderType]; !known {
		w.Tr.Probe("unlock_refused_malformed_provider_type")
		return // a request without a valid provider_type may be refused
	}
	sp, ok := o.M.Pool(bc, p)
	if !ok {
		return
	}
	if _, has := sp.Pools[v.T.ClientID]; !has {
		return
	}
	out := v.T.TransactionOutput
	if strings.Contains(out, "token can only be unstaked till") {
		w.Tr.Probe("unlock_refused_lock_period")
		return
	}
	if strings.Contains(out, "insufficent stake to cover offers") {
		w.Tr.Probe("unlock_refused_offers")
		return
	}
	o.viol(w, "unlock", "unlock/"+v.Fn+"/owner-refused", fmt.Sprintf("the owner of an existing delegate pool at %s was refused: %.160s", p, out))
}

// guard: on every applied transaction, a delegate pool of a registered
// provider changes only the ways the statement allows.
func (o *OracleC11) guard(w *ledger.World, v *txnView) {
	t := v.T
	for _, d := range v.Pools {
		if d.P == nil {
			continue
		}
		old, nw := d.asOwner()
		if old == nil {
			continue
		}
		if v.Class == fnKill || v.Class == fnShutdown {
			continue // slashing and deletion of the killed provider's records: C23
		}
		named := false
		switch v.Class {
		case fnLock, fnUnlock:
			named = v.ReqOK && o.M.Target(t.ToClientID, v.Req.ProviderType, v.Req.ProviderID) == d.P
			if !named && v.ReqOK && v.Req.ProviderType == d.P.Kind && v.Req.ProviderID == d.P.ID && v.O.Class == ledger.Success {
				continue // a stake call sent to another contract reached this pool: reported once, by lock / unlock
			}
		case fnCollect:
			k, id := collectTarget(v)
			named = o.M.Target(t.ToClientID, k, id) == d.P
			if !named && k == d.P.Kind && id == d.P.ID && v.O.Class == ledger.Success {
				continue
			}
		}
		for id, odp := range old.Pools {
			var ndp *stakepool.DelegatePool
			if nw != nil {
				ndp = nw.Pools[id]
			}
			mine := named && id == t.ClientID
			switch {
			case ndp == nil:
				if !(mine && v.Class == fnUnlock) {
					o.viol(w, "guard", "guard/delegate-pool-removed-by/"+fnName(v), fmt.Sprintf("delegate pool of %s at %s removed by %s sent by %s", id, d.P, v.Fn, t.ClientID))
				}
			case ndp.Balance < odp.Balance:
				o.viol(w, "guard", "guard/stake-reduced-by/"+fnName(v), fmt.Sprintf("stake of %s at %s %d -> %d by %s sent by %s", id, d.P, odp.Balance, ndp.Balance, v.Fn, t.ClientID))
			case ndp.Balance > odp.Balance:
				if !(mine && v.Class == fnLock) {
					o.viol(w, "guard", "guard/stake-increased-by/"+fnName(v), fmt.Sprintf("stake of %s at %s %d -> %d by %s sent by %s", id, d.P, odp.Balance, ndp.Balance, v.Fn, t.ClientID))
				}
			}
			if ndp != nil && ndp.Reward < odp.Reward && !(mine && v.Class == fnCollect) {
				o.viol(w, "guard", "guard/reward-reduced-by/"+fnName(v), fmt.Sprintf("reward of %s at %s %d -> %d by %s sent by %s", id, d.P, odp.Reward, ndp.Reward, v.Fn, t.ClientID))
			}
			if ndp != nil && ndp.Reward > odp.Reward && v.Class != fnPayFees {
				o.viol(w, "guard", "guard/reward-increased-by/"+fnName(v), fmt.Sprintf("reward of %s at %s %d -> %d by %s", id, d.P, odp.Reward, ndp.Reward, v.Fn))
			}
		}
		if nw != nil {
			for id := range nw.Pools {
				if _, was := old.Pools[id]; !was && !(named && id == t.ClientID && v.Class == fnLock) {
					o.viol(w, "guard", "guard/delegate-pool-created-by/"+fnName(v), fmt.Sprintf("delegate pool of %s at %s created by %s sent by %s", id, d.P, v.Fn, t.ClientID))
				}
			}
		}
	}
}

func fnName(v *txnView) string {
	if v.Fn == "" {
		return fmt.Sprintf("type%d", v.T.TransactionType)
	}
	return v.Fn
}
