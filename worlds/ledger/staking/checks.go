package staking

import (
	"os"
	"time"

	"0chain.net/core/config"

	"verif/sim"
	"verif/worlds/ledger"
)

// baseWeights: the little base traffic that accompanies the staking steps in
// the staking checks themselves (the core checks bring their own base mix).
// No random "call" steps here: the staking surface gets its malformed calls
// from st.junk, and `update_*_settings` with a null payload kills the process
// (ledger README, known crash).
var baseWeights = map[string]int{"send": 4, "call": 0, "pour": 1, "data": 1, "replay": 2, "block": 2, "clock": 1}

// setup wires model, step handlers and oracles into a world.
func setup(prop string, mk func(m *Model, vw *Viewer) []ledger.Observer) func(w *ledger.World, r *ledger.Runner) []ledger.Observer {
	return func(w *ledger.World, r *ledger.Runner) []ledger.Observer {
		m := NewModel(w)
		ops := &Ops{W: w, M: m}
		vw := &Viewer{M: m, Dbg: os.Getenv("VERIF_STAKING_DBG") != ""}
		obs := []ledger.Observer{vw}
		if mk != nil {
			for _, o := range mk(m, vw) {
				if ck, ok := o.(checkpointer); ok {
					r.Ops["st.check"] = func(r *ledger.Runner, st sim.Step) { ck.Checkpoint(r, st) }
				}
				obs = append(obs, o)
			}
		}
		ops.Install(r)
		obs = append(obs, &Committer{M: m, Vw: vw})
		return obs
	}
}

// checkpointer is implemented by oracles that act on st.check steps.
type checkpointer interface {
	Checkpoint(r *ledger.Runner, st sim.Step)
}

// withLockPeriod applies the plan's stakepool.min_lock_period knob for the run
// and restores the shipped value afterwards (the setting is process-global).
func withLockPeriod(exec func(env *sim.Env, p *sim.Plan) *sim.Result) func(env *sim.Env, p *sim.Plan) *sim.Result {
	return func(env *sim.Env, p *sim.Plan) *sim.Result {
		ledger.Boot()
		const k = "stakepool.min_lock_period"
		old := config.SmartContractConfig.Get(k)
		config.SmartContractConfig.Set(k, time.Duration(p.CfgInt("minlock", 0))*time.Second)
		defer config.SmartContractConfig.Set(k, old)
		return exec(env, p)
	}
}

func scenario(prop string, mix Mix, mk func(m *Model, vw *Viewer) []ledger.Observer) ledger.Scenario {
	return ledger.Scenario{
		Prop: prop, Weights: baseWeights, Lo: 0, Hi: 8,
		GenExtra: func(r *sim.RNG, p *sim.Plan, tier string) {
			genExtra(mix)(r, p, tier)
			p.Cfg["minlock"] = []int64{0, 0, 60, 3600}[r.Child("minlock").Intn(4)]
		},
		Setup: setup(prop, mk),
	}
}

const regime = "single-threaded event loop (one transaction at a time through Chain.UpdateState)"

func init() {
	c11 := scenario("C11", mixC11, func(m *Model, vw *Viewer) []ledger.Observer { return []ledger.Observer{&OracleC11{M: m, Vw: vw}} })
	sim.Register(&sim.Check{
		ID: "C11", Title: "Staking and unstaking return exactly what was locked", World: "ledger",
		Gen: c11.Gen, Exec: withLockPeriod(c11.Exec),
		Quick: sim.Budget{Runs: 400, WallS: 80}, Thorough: sim.Budget{Runs: 30000, WallS: 1200},
		LevelText: "seeded search over histories of lock / unlock / collect / fee payment / kill / shutdown by several wallets on miner, sharder, blobber, validator and authorizer stake pools registered through real transactions; " +
			"every applied transaction is judged on the structural MPT diff: lock = staker -v, contract wallet +v, that delegate pool +v (read the way the owning contract reads the record), nothing else, within min/max stake and the delegate limit; " +
			"unlock = owner receives exactly balance + reward, pool gone; any other change of any delegate pool by anybody is a violation",
		LevelNote: "StakePoolUnlock compares the lock period against the wall clock (time.Now), not the block time: outside a synctest bubble the period always looks elapsed, so lock-period refusals are only counted (probe), never judged; see C06",
		Technique: "deterministic simulation: symbolic staking histories with wrong callers, wrong provider types / contracts, bounds, replays, clock jumps; allowed-diff oracle on the real trie",
		DesignRef: "6/C11", Regime: regime, Components: ledger.W1Components,
	})
	c23 := scenario("C23", mixC23, func(m *Model, vw *Viewer) []ledger.Observer { return []ledger.Observer{&OracleC23{M: m, Vw: vw}} })
	sim.Register(&sim.Check{
		ID: "C23", Title: "Killing or shutting down a provider disables exactly that provider", World: "ledger",
		Gen: c23.Gen, Exec: withLockPeriod(c23.Exec),
		Quick: sim.Budget{Runs: 400, WallS: 80}, Thorough: sim.Budget{Runs: 30000, WallS: 1200},
		LevelText: "seeded search over kill_miner / kill_sharder / kill_blobber / kill_validator / shutdown_blobber / shutdown_validator sent by the contract owner, the delegate wallet, the provider itself and strangers, repeated, with functions of another provider kind and unknown ids, followed by fee payments and direct reward distributions; " +
			"judged on the MPT diff: only records of that provider change, its stake pool (as its contract reads it) is marked dead and slashed by the configured fraction once, no stake-pool record appears under another key, unauthorised callers change nothing beyond fee and nonce",
		LevelNote: "the storage contract's shutdown fraction is kill_slash/2 (hard-wired at the call site); the miner contract configures no slash; the bridge contract has no kill / shutdown function",
		Technique: "deterministic simulation: caller-identity and repetition faults, allowed-diff oracle on the real trie, direct driving of the exported reward functions on dead pools",
		DesignRef: "6/C23, 8", Regime: regime, Components: ledger.W1Components,
	})
	c22 := scenario("C22", mixC22, func(m *Model, vw *Viewer) []ledger.Observer {
		return []ledger.Observer{&OracleC22{M: m, Vw: vw, Prop: "C22", once: newOnceChecker()}}
	})
	c22gen := c22.Gen
	sim.Register(&sim.Check{
		ID: "C22", Title: "Block fees and rewards are split exactly between miner and sharders", World: "ledger",
		Gen: func(seed uint64, tier string) *sim.Plan {
			p := c22gen(seed, tier)
			p.Cfg["ed25519"] = 0 // the block-level once-per-round oracle verifies the generators' BLS signatures
			return p
		},
		Exec: withLockPeriod(c22.Exec),
		Quick: sim.Budget{Runs: 400, WallS: 80}, Thorough: sim.Budget{Runs: 30000, WallS: 1200},
		LevelText: "seeded search over payFees transactions from the generator, other miners, sharders and clients, with right / wrong / missing rounds, repeated within a round, after changes of share_ratio, reward_rate, block_reward and the numbers of rewarded sharders / delegates through update_settings, with killed and under-staked recipients; " +
			"sum of reward increments over all miner and sharder pools (MPT diff) == block fees + BlockReward*RewardRate exactly whenever every recipient is eligible, never more; sharder side split evenly with no unit lost; " +
			"once per round: the shipped miner.Chain.ValidateTransactions must refuse a block with two fee payments and accept one with a single payment",
		LevelNote: "the miner contract itself accepts a second payFees of the generator in the same round (probe second_payfees_in_round_accepted_by_contract); the once-per-round rule lives in block validation (anchor miner/protocol_block.go), which is what the block-level oracle drives",
		Technique: "deterministic simulation: caller / round / repetition faults and settings swarm, exact-sum oracle on the real trie, block-validation oracle on derived blocks",
		DesignRef: "6/C22, A.5", Regime: regime, Components: ledger.W1Components,
	})
	c10 := scenario("C10", mixC10, func(m *Model, vw *Viewer) []ledger.Observer {
		return []ledger.Observer{&OracleC10{M: m, Vw: vw}, &OracleC22{M: m, Vw: vw, Prop: "C10"}}
	})
	sim.Register(&sim.Check{
		ID: "C10", Title: "Reward distribution splits the amount exactly", World: "ledger",
		Gen: c10.Gen, Exec: withLockPeriod(c10.Exec),
		Quick: sim.Budget{Runs: 400, WallS: 80}, Thorough: sim.Budget{Runs: 30000, WallS: 1200},
		LevelText: "(i) in-run: every fee payment's increments per pool (service charge vs ratio, delegates proportional to stake within len(pools)+1 units per distribution call, at most N delegates) and their exact sum over all pools; " +
			"(ii) at checkpoints every stake pool reached by the history (miner, sharder, blobber, validator, authorizer; slashed, dead, under-staked, with 0..n delegates) is cloned and the exported DistributeRewards / DistributeRewardsRandN are called on the clone with seeded amount (1 .. 1e18), seed and N in a scratch state context: provider + delegate increments == amount, or nothing for a killed / under-staked pool, at most N delegates credited",
		LevelNote: "input-class property hosted in the simulation: pools come from real histories, not from a generator of arbitrary pools (zero-stake delegates only arise from slashing); proportionality is judged for amounts below 2^50 units (float64 arithmetic of the contract), the sum for all amounts; N = 0 is not driven",
		Technique: "deterministic simulation + state-harvested direct driving of the exported distribution functions",
		DesignRef: "6/C10, A.5", Regime: regime, Components: ledger.W1Components,
	})
	ledger.RegisterWorkload(&ledger.Workload{
		Name:     "staking",
		GenExtra: genExtra(mixWorkload),
		Setup: func(w *ledger.World, r *ledger.Runner) {
			for _, o := range setup("", nil)(w, r) {
				w.AddObserver(o)
			}
		},
	})
}
