package ledger

import (
	"context"
	"encoding/json"
	"fmt"
	"sort"

	"0chain.net/chaincore/block"
	"0chain.net/chaincore/chain"
	cstate "0chain.net/chaincore/chain/state"
	"0chain.net/chaincore/node"
	"0chain.net/chaincore/state"
	"0chain.net/chaincore/transaction"
	"0chain.net/core/common"
	"0chain.net/core/config"
	"0chain.net/core/datastore"
	"0chain.net/core/encryption"
	"0chain.net/core/viper"
	"0chain.net/smartcontract/dbs/event"
	"0chain.net/smartcontract/faucetsc"
	"0chain.net/smartcontract/minersc"
	"0chain.net/smartcontract/multisigsc"
	"0chain.net/smartcontract/storagesc"
	"0chain.net/smartcontract/vestingsc"
	"0chain.net/smartcontract/zcnsc"
	"github.com/0chain/common/core/currency"
	"github.com/0chain/common/core/statecache"
	"github.com/0chain/common/core/util"
	"github.com/linxGnu/grocksdb"

	"verif/sim"
	"verif/worlds/wkit"
)

// Contract addresses.
var (
	AddrMiner    = minersc.ADDRESS
	AddrStorage  = storagesc.ADDRESS
	AddrFaucet   = faucetsc.ADDRESS
	AddrZCN      = zcnsc.ADDRESS
	AddrVesting  = vestingsc.ADDRESS
	AddrMultisig = multisigsc.Address
)

// ContractAddrs lists all contract wallets.
func ContractAddrs() []string {
	return []string{AddrMiner, AddrStorage, AddrFaucet, AddrZCN, AddrVesting, AddrMultisig}
}

// Client is a sim-owned wallet.
type Client struct {
	Idx   int
	ID    string
	PK    string
	Keys  encryption.SignatureScheme
	Nonce int64 // reference model: last applied nonce
}

// Node is a sim-owned miner/sharder identity (registered in the magic block).
type Node struct {
	*Client
	N *node.Node
}

// Cfg are the swarm knobs of a world.
type Cfg struct {
	Clients   int
	Miners    int
	Sharders  int
	Fees      bool
	Scheme    string // client signature scheme
	Funding   int64  // genesis balance per client
	ColdCache bool   // execute with an empty shared state cache
	// ViewChange enables the miner contract's view-change machinery (read by the chain config at creation).
	ViewChange bool
	// Viper holds extra per-run configuration keys applied before the chain is created.
	// Plans carry them as Cfg entries "viper:<key>" with integer values.
	Viper map[string]any
}

func CfgFromPlan(p *sim.Plan) Cfg {
	c := Cfg{
		Clients:  int(p.CfgInt("clients", 4)),
		Miners:   int(p.CfgInt("miners", 3)),
		Sharders: int(p.CfgInt("sharders", 2)),
		Fees:     p.CfgInt("fees", 1) != 0,
		Funding:  p.CfgInt("funding", 1e13),
		Scheme:   "bls0chain",
	}
	if p.CfgInt("ed25519", 0) != 0 {
		c.Scheme = "ed25519"
	}
	c.ViewChange = p.CfgInt("view_change", 0) != 0
	for k, v := range p.Cfg {
		if len(k) > 6 && k[:6] == "viper:" {
			if c.Viper == nil {
				c.Viper = map[string]any{}
			}
			c.Viper[k[6:]] = v
		}
	}
	return c
}

// World is one run's universe.
type World struct {
	Seed uint64
	Cfg  Cfg
	Tr   *sim.Trace
	Ctx  context.Context
	stop context.CancelFunc

	C        *chain.Chain
	DiskPath string
	Disk     *grocksdb.Disk

	Clients  []*Client
	Miners   []*Node
	Sharders []*Node
	OwnerID  string // contracts' owner_id from sc.yaml
	ChainOwn string // chain owner

	Genesis *block.Block
	Head    *block.Block // latest assembled block
	Now     common.Timestamp

	Reg *Registry
	Ix  *LeafIndex

	// InBubble: the run executes inside a synctest bubble; the wall clock follows w.Now.
	InBubble bool
	// Poked: a balance near 2^64 was written straight into the trie (C05 boundary states).
	Poked bool

	MB         *block.MagicBlock
	initStates *state.InitStates
	replicas   []*Replica

	obs []Observer
}

// Observer is an oracle plug-in: called after every transaction and block.
type Observer interface {
	AfterTxn(w *World, bc *BlockCtx, o *Outcome)
	AfterBlock(w *World, bc *BlockCtx)
}

func (w *World) AddObserver(o Observer) { w.obs = append(w.obs, o) }

const genesisTime = 1700000000

// NewWorld builds chain + genesis for a run. Everything is derived from seed.
func NewWorld(seed uint64, cfg Cfg, tr *sim.Trace) *World {
	return NewWorldWith(seed, cfg, tr, nil)
}

// NewWorldWith is NewWorld with a hook that runs after the H1 observer is
// installed and before genesis (so oracles can see the genesis inserts).
func NewWorldWith(seed uint64, cfg Cfg, tr *sim.Trace, early func(w *World)) *World {
	Boot()
	w := &World{Seed: seed, Cfg: cfg, Tr: tr, Reg: NewRegistry(), Ix: NewLeafIndex()}
	w.Ctx, w.stop = context.WithCancel(context.Background())
	keys := sim.NewRNG(seed).Child("keys")

	// per-run configuration is re-applied, never inherited
	viper.Set("server_chain.client.signature_scheme", cfg.Scheme)
	viper.Set("server_chain.smart_contract.timeout", "60s")
	if cfg.Fees {
		viper.Set("server_chain.transaction.max_fee", 1)
	} else {
		viper.Set("server_chain.transaction.max_fee", 0)
	}
	viper.Set("server_chain.view_change", cfg.ViewChange)
	for k, v := range cfg.Viper {
		viper.Set(k, v)
	}
	Store.Reset()

	w.DiskPath = fmt.Sprintf("/simdisk/w1/%d", seed)
	grocksdb.SimRemove(w.DiskPath + "/data/rocksdb/state")
	chain.SetupStateDB(w.DiskPath)
	w.Disk = grocksdb.SimDisk(w.DiskPath + "/data/rocksdb/state")

	c := chain.NewChainFromConfig()
	c.SetupStateCache()
	chain.SetServerChain(c)
	w.C = c
	go c.StartLFMBWorker(w.Ctx)
	w.installObserver()
	if early != nil {
		early(w)
	}

	w.OwnerID = config.SmartContractConfig.GetString("smart_contracts.storagesc.owner_id")
	w.ChainOwn = c.OwnerID()

	// identities
	mb := block.NewMagicBlock()
	mb.Miners = node.NewPool(node.NodeTypeMiner)
	mb.Sharders = node.NewPool(node.NodeTypeSharder)
	mkNode := func(t node.NodeType, i int) *Node {
		ks := wkit.NewKeys("bls0chain", keys.Child(fmt.Sprintf("node/%d/%d", t, i)))
		n := node.Provider()
		n.Type = t
		n.Host = fmt.Sprintf("n%d-%d.sim", t, i)
		n.N2NHost = n.Host
		n.Port = 7000 + i
		n.SetSignatureSchemeType("bls0chain")
		if err := n.SetPublicKey(ks.GetPublicKey()); err != nil {
			panic(err)
		}
		n.SetIndex = i
		n.Description = fmt.Sprintf("sim-%d-%d", t, i)
		return &Node{Client: &Client{Idx: i, ID: n.ID, PK: ks.GetPublicKey(), Keys: ks}, N: n}
	}
	for i := 0; i < cfg.Miners; i++ {
		nd := mkNode(node.NodeTypeMiner, i)
		w.Miners = append(w.Miners, nd)
		if err := mb.Miners.AddNode(nd.N); err != nil {
			panic(err)
		}
	}
	for i := 0; i < cfg.Sharders; i++ {
		nd := mkNode(node.NodeTypeSharder, i)
		w.Sharders = append(w.Sharders, nd)
		if err := mb.Sharders.AddNode(nd.N); err != nil {
			panic(err)
		}
	}
	mb.T = (cfg.Miners*2)/3 + 1
	mb.N = cfg.Miners
	mb.K = cfg.Miners
	mb.StartingRound = 0
	mb.MagicBlockNumber = 1
	mb.Hash = mb.GetHash()

	node.Self = &node.SelfNode{}
	node.Self.Node = w.Miners[0].N
	node.Self.SetSignatureScheme(w.Miners[0].Keys)

	for i := 0; i < cfg.Clients; i++ {
		ks := wkit.NewKeys(cfg.Scheme, keys.Child(fmt.Sprintf("client/%d", i)))
		pkb, err := hexDecode(ks.GetPublicKey())
		if err != nil {
			panic(err)
		}
		w.Clients = append(w.Clients, &Client{Idx: i, ID: encryption.Hash(pkb), PK: ks.GetPublicKey(), Keys: ks, Nonce: 1})
	}

	// genesis balances: must sum to MaxTokenSupply
	var is state.InitStates
	var user []state.IDTokens
	var given currency.Coin
	add := func(id string, v currency.Coin) {
		user = append(user, state.IDTokens{ID: id, Tokens: v})
		given += v
	}
	for _, cl := range w.Clients {
		add(cl.ID, currency.Coin(cfg.Funding))
	}
	for _, m := range w.Miners {
		add(m.ID, currency.Coin(cfg.Funding))
	}
	for _, s := range w.Sharders {
		add(s.ID, currency.Coin(cfg.Funding))
	}
	add(w.OwnerID, currency.Coin(cfg.Funding))
	if w.ChainOwn != w.OwnerID {
		add(w.ChainOwn, currency.Coin(cfg.Funding))
	}
	per := currency.Coin(config.MaxTokenSupply / 8)
	addrs := ContractAddrs()
	var total currency.Coin
	for i, a := range addrs {
		t := per
		st := state.InitState{ID: a, Tokens: t}
		if i == 0 {
			// the miner contract wallet funds all the user accounts
			st.Tokens = currency.Coin(config.MaxTokenSupply) - per*currency.Coin(len(addrs)-1)
			st.State = user
		}
		total += st.Tokens
		is.States = append(is.States, st)
	}
	_ = total
	_ = given

	w.Now = genesisTime
	w.MB = mb
	w.initStates = &is
	gb := w.genesisOn(c)
	w.Genesis = gb
	w.Head = gb
	for _, cl := range w.Clients {
		cl.Nonce = 1 // mustInitialState sets Nonce 1
	}
	return w
}

// genesisOn runs the shipped genesis path on a chain instance (primary or replica).
func (w *World) genesisOn(c *chain.Chain) *block.Block {
	c.SetMagicBlock(w.MB)
	gr, gb := c.GenerateGenesisBlock(encryption.Hash(fmt.Sprintf("genesis-%d", w.Seed)), w.MB, w.initStates)
	c.AddGenesisBlock(gb)
	c.AddRound(gr)
	return gb
}

// Close stops the chain's goroutines and forgets the disks of this run.
func (w *World) Close() {
	w.stop()
	cstate.VerifObserver = nil
	grocksdb.SimRemove(w.DiskPath + "/data/rocksdb/state")
	for _, rp := range w.replicas {
		grocksdb.SimRemove(rp.DiskPath + "/data/rocksdb/state")
	}
}

// ---- transactions ---------------------------------------------------------------------------------

// TxnSpec is a resolved transaction request.
type TxnSpec struct {
	From  string
	To    string
	Value int64
	Fee   int64
	Nonce int64
	Type  int
	Name  string // contract function
	Input any    // JSON-marshalled unless RawInput set
	Raw   string // raw input JSON (may be malformed on purpose)
	Time  common.Timestamp
}

// MakeTxn builds a real transaction entity (hash computed with the shipped code).
func (w *World) MakeTxn(s TxnSpec) *transaction.Transaction {
	t := &transaction.Transaction{}
	t.Version = "1.0"
	t.ClientID = s.From
	t.ToClientID = s.To
	t.ChainID = w.C.GetKey()
	t.Value = currency.Coin(uint64(s.Value))
	t.Fee = currency.Coin(uint64(s.Fee))
	t.Nonce = s.Nonce
	t.TransactionType = s.Type
	t.CreationDate = s.Time
	if t.CreationDate == 0 {
		t.CreationDate = w.Now
	}
	if s.Type == transaction.TxnTypeSmartContract {
		var in json.RawMessage
		if s.Raw != "" {
			in = json.RawMessage(s.Raw)
		} else if s.Input != nil {
			b, err := json.Marshal(s.Input)
			if err != nil {
				panic(err)
			}
			in = b
		} else {
			in = json.RawMessage("{}")
		}
		d := transaction.SmartContractData{FunctionName: s.Name, InputData: in}
		b, err := json.Marshal(d)
		if err != nil {
			// malformed raw input: build the envelope by hand
			b = []byte(fmt.Sprintf(`{"name":%q,"input":%s}`, s.Name, string(in)))
		}
		t.TransactionData = string(b)
		t.SmartContractData = &transaction.SmartContractData{FunctionName: s.Name, InputData: in}
	} else {
		t.TransactionData = s.Raw
		t.SmartContractData = &transaction.SmartContractData{}
	}
	t.Hash = t.ComputeHash()
	t.EntityCollection = nil
	return t
}

// SignTxn signs with the client's keys when the world knows them.
func (w *World) SignTxn(t *transaction.Transaction, cl *Client) {
	if cl == nil || cl.Keys == nil {
		return
	}
	sig, err := cl.Keys.Sign(t.Hash)
	if err == nil {
		t.Signature = sig
		t.PublicKey = cl.PK
	}
}

// ---- blocks ---------------------------------------------------------------------------------------

// Outcome classes of UpdateState (DESIGN appendix A.1).
const (
	Success    = "success"
	Chargeable = "chargeable"
	Rejected   = "rejected"
)

type Outcome struct {
	Txn      *transaction.Transaction
	Class    string
	Err      error
	Events   []event.Event
	RootPre  util.Key
	RootPost util.Key
	// sender account as stored in the block trie before / after the transaction
	PreBal, PostBal     currency.Coin
	PreNonce, PostNonce int64
	Diff                map[string]LeafChange // path -> change (computed lazily)
	diffDone            bool
	bc                  *BlockCtx
}

// BlockCtx is a block under assembly.
type BlockCtx struct {
	W     *World
	B     *block.Block
	State util.MerklePatriciaTrieI
	Cache *statecache.BlockCache
	Outs  []*Outcome
	Miner *Node
}

// NewBlock starts a block on top of prev (default: head) generated by miner mi.
func (w *World) NewBlock(prev *block.Block, mi int) *BlockCtx {
	if prev == nil {
		prev = w.Head
	}
	m := w.Miners[mi%len(w.Miners)]
	b := block.NewBlock(w.C.GetKey(), prev.Round+1)
	b.MinerID = m.ID
	b.SetPreviousBlock(prev)
	b.CreationDate = w.Now
	if b.CreationDate < prev.CreationDate {
		b.CreationDate = prev.CreationDate
	}
	b.SetRoundRandomSeed(int64(sim.Hash64(fmt.Sprintf("rrs-%d-%d", w.Seed, b.Round)) >> 1))
	b.Txns = make([]*transaction.Transaction, 0, 16)
	// the hash is not final until the block is finished; give it a unique provisional one
	b.Hash = encryption.Hash(fmt.Sprintf("pending-%d-%d-%s", w.Seed, b.Round, prev.Hash))
	bs := block.CreateStateWithPreviousBlock(prev, w.C.GetStateDB(), b.Round)
	bc := &BlockCtx{W: w, B: b, State: bs, Miner: m}
	bc.Cache = statecache.NewBlockCache(w.C.GetStateCache(), statecache.Block{Round: b.Round, Hash: b.Hash, PrevHash: b.PrevHash})
	if _, err := w.Ix.Load(bs.GetNodeDB(), bs.GetRoot(), nil); err != nil {
		panic(fmt.Sprintf("cannot index the previous state: %v", err))
	}
	return bc
}

// Apply runs one transaction through the shipped Chain.UpdateState, classifies
// the outcome and calls the observers.
func (bc *BlockCtx) Apply(t *transaction.Transaction) *Outcome {
	w := bc.W
	o := &Outcome{Txn: t, bc: bc}
	o.RootPre = append(util.Key(nil), bc.State.GetRoot()...)
	o.PreBal, o.PreNonce, _ = Balance(bc.State, t.ClientID)
	w.Reg.BeginTxn(t)
	evs, err := w.C.UpdateState(w.Ctx, bc.B, bc.State, t, bc.Cache)
	w.Reg.EndTxn()
	o.Err = err
	o.Events = evs
	o.RootPost = append(util.Key(nil), bc.State.GetRoot()...)
	o.PostBal, o.PostNonce, _ = Balance(bc.State, t.ClientID)
	// index the post-state now: later merges drop replaced nodes from the block's node DB
	if d, derr := w.Ix.Diff(bc.State.GetNodeDB(), o.RootPre, o.RootPost); derr != nil {
		panic(fmt.Sprintf("cannot diff the transaction: %v", derr))
	} else {
		o.Diff, o.diffDone = d, true
	}
	switch {
	case err != nil:
		o.Class = Rejected
	case t.Status == transaction.TxnError:
		o.Class = Chargeable
	default:
		o.Class = Success
	}
	if err == nil {
		t.OutputHash = t.ComputeOutputHash()
		bc.B.Txns = append(bc.B.Txns, t)
	}
	bc.Outs = append(bc.Outs, o)
	for _, ob := range w.obs {
		ob.AfterTxn(w, bc, o)
	}
	return o
}

// Changes returns the leaf-level diff of the transaction (computed on demand).
func (o *Outcome) Changes() map[string]LeafChange {
	return o.Diff
}

// Finish seals the block (state hash, change count, hash, signature) and makes it the head.
func (bc *BlockCtx) Finish() *block.Block {
	w := bc.W
	b := bc.B
	b.RunningTxnCount = b.PrevBlock.RunningTxnCount + int64(len(b.Txns))
	b.SetClientState(bc.State)
	b.SetStateChangesCount(bc.State)
	b.HashBlock()
	sig, err := bc.Miner.Keys.Sign(b.Hash)
	if err == nil {
		b.Signature = sig
	}
	b.SetBlockState(block.StateGenerated)
	b.SetStateStatus(block.StateSuccessful)
	b.ComputeTxnMap()
	bc.Cache.SetBlockHash(b.Hash)
	bc.Cache.Commit()
	w.C.AddBlock(b)
	w.Head = b
	for _, ob := range w.obs {
		ob.AfterBlock(w, bc)
	}
	return b
}

// Save persists the block's state changes to the simulated disk through the
// shipped Chain.SaveChanges (what finalisation does).
func (w *World) Save(b *block.Block) error {
	return w.C.SaveChanges(w.Ctx, b)
}

// ---- helpers --------------------------------------------------------------------------------------

func hexDecode(s string) ([]byte, error) {
	out := make([]byte, len(s)/2)
	for i := 0; i+1 < len(s); i += 2 {
		var v byte
		for k := 0; k < 2; k++ {
			c := s[i+k]
			switch {
			case c >= '0' && c <= '9':
				v = v<<4 | (c - '0')
			case c >= 'a' && c <= 'f':
				v = v<<4 | (c - 'a' + 10)
			case c >= 'A' && c <= 'F':
				v = v<<4 | (c - 'A' + 10)
			default:
				return nil, fmt.Errorf("bad hex")
			}
		}
		out[i/2] = v
	}
	return out, nil
}

// Balance reads an account balance from a trie (0 when absent).
func Balance(mpt util.MerklePatriciaTrieI, id string) (currency.Coin, int64, bool) {
	s, err := chain.GetStateById(mpt, id)
	if err != nil {
		return 0, 0, false
	}
	return s.Balance, s.Nonce, true
}

// SortedKeys returns sorted map keys.
func SortedKeys[V any](m map[string]V) []string {
	ks := make([]string, 0, len(m))
	for k := range m {
		ks = append(ks, k)
	}
	sort.Strings(ks)
	return ks
}

var _ = datastore.EmptyKey
