package ledger

import (
	"bytes"
	"fmt"
	"math/big"
	"reflect"

	cstate "0chain.net/chaincore/chain/state"
	"0chain.net/chaincore/state"
	"0chain.net/core/encryption"
	"0chain.net/smartcontract/dbs/event"
	"github.com/0chain/common/core/statecache"
	"github.com/0chain/common/core/util"
	"github.com/tinylib/msgp/msgp"

	"verif/sim"
)

// ---- C02: a failing contract call only pays its fee and consumes its nonce -----------------------

type OracleC02 struct{}

func (OracleC02) AfterTxn(w *World, bc *BlockCtx, o *Outcome) {
	if o.Class != Chargeable {
		return
	}
	t := o.Txn
	fn := t.FunctionName
	inserts := 0
	for _, a := range w.Reg.Accesses {
		if a.Op == cstate.VerifOpInsert || a.Op == cstate.VerifOpDelete {
			inserts++
		}
	}
	if inserts > 0 {
		w.Tr.Probe("failed_after_state_write")
	}
	// none of the failed call's writes may survive anywhere a later transaction
	// can read them from: the trie (diff below) and the state cache stack
	seenKey := map[string]bool{}
	for _, a := range append([]Access(nil), w.Reg.Accesses...) {
		if (a.Op != cstate.VerifOpInsert && a.Op != cstate.VerifOpDelete) || seenKey[a.Key] {
			continue
		}
		seenKey[a.Key] = true
		if bad, why := cacheVsTrie(w, bc, a.Key); bad {
			w.Tr.Violate(&sim.Violation{Prop: "C02", Oracle: "cache", Sig: fmt.Sprintf("C02/failed-call-write-visible-through-state-cache/%s", fn),
				Detail: fmt.Sprintf("key %q written by chargeable-failed %s: %s", a.Key, fn, why)})
			break
		}
		w.Tr.Probe("failed_write_not_in_cache")
	}
	accts, recs := w.SplitChanges(o.Changes())
	for k := range recs {
		w.Tr.Violate(&sim.Violation{Prop: "C02", Oracle: "diff", Sig: fmt.Sprintf("C02/failed-call-changed-record/%s", fn),
			Detail: fmt.Sprintf("chargeable-failed %s left a change in contract record %q", fn, k)})
		break
	}
	feeOn := w.C.ChainConfig.IsFeeEnabled()
	fee := new(big.Int)
	if feeOn {
		fee.SetUint64(uint64(t.Fee))
	}
	for _, a := range accts {
		d := a.BalDelta()
		switch a.ID {
		case t.ClientID:
			if new(big.Int).Neg(d).Cmp(fee) != 0 {
				w.Tr.Violate(&sim.Violation{Prop: "C02", Oracle: "diff", Sig: fmt.Sprintf("C02/failed-call-sender-delta/%s", fn),
					Detail: fmt.Sprintf("sender balance changed by %s, fee is %s", d, fee)})
			}
			var on, nn int64
			if a.Old != nil {
				on = a.Old.Nonce
			}
			if a.New != nil {
				nn = a.New.Nonce
			}
			if nn != on+1 {
				w.Tr.Violate(&sim.Violation{Prop: "C02", Oracle: "diff", Sig: "C02/failed-call-nonce", Detail: fmt.Sprintf("sender nonce %d -> %d", on, nn)})
			}
		case AddrMiner:
			if d.Cmp(fee) != 0 {
				w.Tr.Violate(&sim.Violation{Prop: "C02", Oracle: "diff", Sig: fmt.Sprintf("C02/failed-call-fee-wallet-delta/%s", fn),
					Detail: fmt.Sprintf("miner contract wallet changed by %s, fee is %s", d, fee)})
			}
		default:
			w.Tr.Violate(&sim.Violation{Prop: "C02", Oracle: "diff", Sig: fmt.Sprintf("C02/failed-call-changed-third-account/%s", fn),
				Detail: fmt.Sprintf("account %s changed by %s in a failed call", a.ID, d)})
		}
	}
	// events: exactly one error event; user / unique-address events of the fee transfer are the observable form of fee + nonce
	nerr := 0
	for _, e := range o.Events {
		switch {
		case e.Type == event.TypeError:
			nerr++
		case e.Tag == event.TagAddOrOverwriteUser && (e.Index == t.ClientID || e.Index == AddrMiner):
		case e.Tag == event.TagUniqueAddress:
		default:
			w.Tr.Violate(&sim.Violation{Prop: "C02", Oracle: "events", Sig: fmt.Sprintf("C02/failed-call-left-event/%s/tag%d", fn, int(e.Tag)),
				Detail: fmt.Sprintf("event type=%v tag=%v index=%s survived a failed call", e.Type, e.Tag, e.Index)})
		}
	}
	if nerr != 1 {
		w.Tr.Violate(&sim.Violation{Prop: "C02", Oracle: "events", Sig: "C02/failed-call-error-events", Detail: fmt.Sprintf("%d error events", nerr)})
	}
}

func (OracleC02) AfterBlock(w *World, bc *BlockCtx) {}

// ---- C04: transactions debit only what their sender authorised ------------------------------------

// OracleC04 flags every debit of an account other than the sender and the
// called contract's own wallet unless an authorisation the oracle verified
// itself covers it. Workloads that legitimately produce signed transfers or
// free-storage grants register their verified authorisations in Auth before
// the transaction runs.
type OracleC04 struct {
	// Auth: account id -> maximum authorised debit for the transaction in flight
	Auth map[string]*big.Int
}

func NewOracleC04() *OracleC04 { return &OracleC04{Auth: map[string]*big.Int{}} }

func (c *OracleC04) AfterTxn(w *World, bc *BlockCtx, o *Outcome) {
	defer func() { c.Auth = map[string]*big.Int{} }()
	if o.Class == Rejected {
		return
	}
	t := o.Txn
	fn := t.FunctionName
	accts, _ := w.SplitChanges(o.Changes())
	limit := new(big.Int).SetUint64(uint64(t.Value))
	if w.C.ChainConfig.IsFeeEnabled() {
		limit.Add(limit, new(big.Int).SetUint64(uint64(t.Fee)))
	}
	for _, a := range accts {
		d := a.BalDelta()
		if d.Sign() >= 0 {
			continue
		}
		dec := new(big.Int).Neg(d)
		switch {
		case a.ID == t.ClientID:
			if dec.Cmp(limit) > 0 {
				w.Tr.Violate(&sim.Violation{Prop: "C04", Oracle: "sender", Sig: fmt.Sprintf("C04/sender-debited-more-than-value-plus-fee/type%d/%s", t.TransactionType, fn),
					Detail: fmt.Sprintf("sender lost %s, value+fee is %s", dec, limit)})
			}
		case a.ID == t.ToClientID && isContract(a.ID):
			w.Tr.Probe("contract_wallet_debit")
		default:
			if m, ok := c.Auth[a.ID]; ok && dec.Cmp(m) <= 0 {
				w.Tr.Probe("authorised_third_party_debit")
				continue
			}
			w.Tr.Violate(&sim.Violation{Prop: "C04", Oracle: "third-party", Sig: fmt.Sprintf("C04/unauthorised-debit/type%d/%s", t.TransactionType, fn),
				Detail: fmt.Sprintf("account %s lost %s in a transaction of %s to %s without an authorisation", a.ID, dec, t.ClientID, t.ToClientID)})
		}
	}
}

func (c *OracleC04) AfterBlock(w *World, bc *BlockCtx) {}

func isContract(id string) bool {
	for _, a := range ContractAddrs() {
		if a == id {
			return true
		}
	}
	return false
}

// ---- C07 / C08: cache coherence and canonical serialisation (hook H1) -----------------------------

// canon decodes msgp bytes into a generic value so that comparisons do not
// depend on the encoding order of Go maps.
func canon(b []byte) (any, error) {
	v, rest, err := msgp.ReadIntfBytes(b)
	if err != nil {
		return nil, err
	}
	if len(rest) != 0 {
		return nil, fmt.Errorf("%d trailing bytes", len(rest))
	}
	return normal(v), nil
}

// normal applies the narrow nil-vs-empty tolerance (DESIGN C08).
func normal(v any) any {
	switch x := v.(type) {
	case map[string]any:
		if len(x) == 0 {
			return nil
		}
		for k, e := range x {
			x[k] = normal(e)
		}
		return x
	case []any:
		if len(x) == 0 {
			return nil
		}
		for i, e := range x {
			x[i] = normal(e)
		}
		return x
	case []byte:
		if len(x) == 0 {
			return nil
		}
		return x
	case string:
		return x
	}
	return v
}

func typeName(v any) string {
	t := reflect.TypeOf(v)
	for t != nil && t.Kind() == reflect.Ptr {
		t = t.Elem()
	}
	if t == nil {
		return "nil"
	}
	return t.PkgPath()[max(0, len(t.PkgPath())-24):] + "." + t.Name()
}

func freshLike(v util.MPTSerializable) util.MPTSerializable {
	t := reflect.TypeOf(v)
	if t.Kind() != reflect.Ptr {
		return nil
	}
	f, _ := reflect.New(t.Elem()).Interface().(util.MPTSerializable)
	return f
}

// uncachedRaw reads the value bytes at key through a second trie object with
// an empty cache built over the same node DB and root.
func uncachedRaw(sc *cstate.StateContext, key string) ([]byte, error) {
	st := sc.GetState()
	ref := util.NewMerklePatriciaTrie(st.GetNodeDB(), st.GetVersion(), st.GetRoot(), statecache.NewEmpty())
	return ref.GetNodeValueRaw(util.Path(encryption.Hash(key)))
}

// cacheVsTrie reads key through the cache stack of a scratch context on the
// block under assembly and through an uncached trie view; it reports whether
// they disagree (presence or content).
func cacheVsTrie(w *World, bc *BlockCtx, key string) (bool, string) {
	proto := w.Reg.NewValue(key)
	if proto == nil {
		return false, ""
	}
	sc := w.StateContextOn(bc)
	raw, terr := uncachedRaw(sc, key)
	v1 := freshLike(proto)
	hooks := w.Reg.Hooks
	w.Reg.Hooks = nil
	gerr := sc.GetTrieNode(key, v1)
	w.Reg.Hooks = hooks
	if (gerr == nil) != (terr == nil) {
		return true, fmt.Sprintf("through cache err=%v, trie err=%v", gerr, terr)
	}
	if gerr != nil {
		return false, ""
	}
	if !(&OracleC07{}).same(v1, raw, proto) {
		return true, "cache stack and trie hold different values"
	}
	return false, ""
}

type OracleC07 struct {
	w *World
}

func NewOracleC07(w *World) *OracleC07 {
	o := &OracleC07{w: w}
	w.Reg.Hooks = append(w.Reg.Hooks, o.onAccess)
	return o
}

func (c *OracleC07) onAccess(a *Access) {
	w := c.w
	if a.Op != cstate.VerifOpGetCached || a.V == nil {
		return
	}
	w.Tr.Probe("cached_read")
	raw, err := uncachedRaw(a.SC, a.Key)
	if err != nil {
		w.Tr.Violate(&sim.Violation{Prop: "C07", Oracle: "read", Sig: "C07/cache-serves-value-absent-from-trie/" + typeName(a.V),
			Detail: fmt.Sprintf("key %q served from the cache but the trie says %v", a.Key, err)})
		return
	}
	got, err := a.V.MarshalMsg(nil)
	if err != nil {
		return
	}
	// decode the trie bytes into a fresh value of the same type and re-encode,
	// so both sides went through the same codec
	f := freshLike(a.V)
	if f == nil {
		return
	}
	if _, err := f.UnmarshalMsg(raw); err != nil {
		return
	}
	want, _ := f.MarshalMsg(nil)
	if bytes.Equal(got, want) {
		return
	}
	cg, e1 := canon(got)
	cw, e2 := canon(want)
	if e1 == nil && e2 == nil && reflect.DeepEqual(cg, cw) {
		return
	}
	w.Tr.Violate(&sim.Violation{Prop: "C07", Oracle: "read", Sig: "C07/cached-value-differs-from-trie/" + typeName(a.V),
		Detail: fmt.Sprintf("key %q: cache and trie disagree", a.Key)})
}

// AfterTxn: for every key the transaction touched, a read through the cache
// stack (transaction cache over block cache over shared state cache) must agree
// with an uncached read of the trie — also after failed / rejected
// transactions (no trace) — and mutating a returned value must not change
// what later reads return.
func (c *OracleC07) AfterTxn(w *World, bc *BlockCtx, o *Outcome) {
	seen := map[string]bool{}
	accs := append([]Access(nil), w.Reg.Accesses...)
	for _, a := range accs {
		if seen[a.Key] {
			continue
		}
		seen[a.Key] = true
		proto := w.Reg.NewValue(a.Key)
		if proto == nil {
			continue
		}
		sc := w.StateContextOn(bc)
		raw, terr := uncachedRaw(sc, a.Key)
		v1 := freshLike(proto)
		hooks := w.Reg.Hooks
		w.Reg.Hooks = nil // our own probing reads are not part of the run
		gerr := sc.GetTrieNode(a.Key, v1)
		if (gerr == nil) != (terr == nil) {
			w.Reg.Hooks = hooks
			cls := o.Class
			w.Tr.Violate(&sim.Violation{Prop: "C07", Oracle: "txn-end", Sig: fmt.Sprintf("C07/presence-differs-after-%s-txn/%s", cls, typeName(proto)),
				Detail: fmt.Sprintf("key %q: through cache err=%v, trie err=%v", a.Key, gerr, terr)})
			continue
		}
		if gerr != nil {
			w.Reg.Hooks = hooks
			continue
		}
		if !c.same(v1, raw, proto) {
			w.Reg.Hooks = hooks
			w.Tr.Violate(&sim.Violation{Prop: "C07", Oracle: "txn-end", Sig: fmt.Sprintf("C07/value-differs-after-%s-txn/%s", o.Class, typeName(proto)),
				Detail: fmt.Sprintf("key %q: cache stack and trie disagree after the transaction", a.Key)})
			continue
		}
		// aliasing: scribble over everything reachable from the returned value, read again
		scribble(reflect.ValueOf(v1))
		v2 := freshLike(proto)
		gerr = sc.GetTrieNode(a.Key, v2)
		w.Reg.Hooks = hooks
		if gerr != nil || !c.same(v2, raw, proto) {
			w.Tr.Violate(&sim.Violation{Prop: "C07", Oracle: "alias", Sig: "C07/mutation-of-returned-value-leaks/" + typeName(proto),
				Detail: fmt.Sprintf("key %q: mutating the value returned by a read changed a later read (err=%v)", a.Key, gerr)})
		} else {
			w.Tr.Probe("alias_probe")
		}
	}
}

func (c *OracleC07) same(v util.MPTSerializable, raw []byte, proto util.MPTSerializable) bool {
	got, err := v.MarshalMsg(nil)
	if err != nil {
		return true
	}
	f := freshLike(proto)
	if _, err := f.UnmarshalMsg(raw); err != nil {
		return true
	}
	want, _ := f.MarshalMsg(nil)
	if bytes.Equal(got, want) {
		return true
	}
	cg, e1 := canon(got)
	cw, e2 := canon(want)
	return e1 == nil && e2 == nil && reflect.DeepEqual(cg, cw)
}

func (c *OracleC07) AfterBlock(w *World, bc *BlockCtx) {}

// scribble mutates, in place, all memory reachable from v (slices' elements,
// maps' entries, pointees) without replacing the top-level containers, so that
// anything shared with a cache is visibly damaged.
func scribble(v reflect.Value) {
	scribbleDepth(v, 0)
}

func scribbleDepth(v reflect.Value, d int) {
	if d > 8 || !v.IsValid() {
		return
	}
	switch v.Kind() {
	case reflect.Ptr, reflect.Interface:
		if v.IsNil() {
			return
		}
		scribbleDepth(v.Elem(), d+1)
	case reflect.Struct:
		for i := 0; i < v.NumField(); i++ {
			f := v.Field(i)
			if !f.CanSet() && f.Kind() != reflect.Ptr && f.Kind() != reflect.Map && f.Kind() != reflect.Slice {
				continue
			}
			scribbleDepth(f, d+1)
		}
	case reflect.Slice:
		for i := 0; i < v.Len(); i++ {
			e := v.Index(i)
			scribbleDepth(e, d+1)
			if e.CanSet() {
				switch e.Kind() {
				case reflect.Ptr, reflect.Map, reflect.Slice, reflect.Interface, reflect.Struct:
				default:
					e.Set(reflect.Zero(e.Type()))
				}
			}
		}
	case reflect.Map:
		if v.IsNil() {
			return
		}
		for _, k := range v.MapKeys() {
			scribbleDepth(v.MapIndex(k), d+1)
		}
		for _, k := range v.MapKeys() {
			v.SetMapIndex(k, reflect.Value{}) // delete in place: visible through every alias of this map
		}
	case reflect.Int, reflect.Int8, reflect.Int16, reflect.Int32, reflect.Int64:
		if v.CanSet() {
			v.SetInt(v.Int() + 7777)
		}
	case reflect.Uint, reflect.Uint8, reflect.Uint16, reflect.Uint32, reflect.Uint64:
		if v.CanSet() {
			v.SetUint(v.Uint() + 7777)
		}
	case reflect.String:
		if v.CanSet() {
			v.SetString(v.String() + "~scribbled")
		}
	case reflect.Bool:
		if v.CanSet() {
			v.SetBool(!v.Bool())
		}
	case reflect.Float32, reflect.Float64:
		if v.CanSet() {
			v.SetFloat(v.Float() + 0.5)
		}
	}
}

type OracleC08 struct {
	w    *World
	seen map[string]int
}

func NewOracleC08(w *World) *OracleC08 {
	o := &OracleC08{w: w, seen: map[string]int{}}
	w.Reg.Hooks = append(w.Reg.Hooks, o.onAccess)
	return o
}

func (c *OracleC08) onAccess(a *Access) {
	if a.Op != cstate.VerifOpInsert || a.V == nil {
		return
	}
	w := c.w
	tn := typeName(a.V)
	c.seen[tn]++
	if c.seen[tn] == 1 {
		w.Tr.Probe("type:" + tn)
		c.checkVersions(a.V, tn)
	}
	b1, err := a.V.MarshalMsg(nil)
	if err != nil {
		w.Tr.Violate(&sim.Violation{Prop: "C08", Oracle: "encode", Sig: "C08/encode-error/" + tn, Detail: err.Error()})
		return
	}
	f := freshLike(a.V)
	if f == nil {
		return
	}
	// decoded from a read buffer of its own, which the reader then reuses (a DB iterator, a sync
	// loop): the decoded value must not depend on the buffer it was decoded from
	rbuf := append([]byte(nil), b1...)
	if rest, err := f.UnmarshalMsg(rbuf); err != nil || len(rest) != 0 {
		w.Tr.Violate(&sim.Violation{Prop: "C08", Oracle: "decode", Sig: "C08/stored-value-does-not-decode/" + tn, Detail: fmt.Sprintf("key %q: err=%v trailing=%d", a.Key, err, len(rest))})
		return
	}
	for i := range rbuf {
		rbuf[i] ^= 0xA5
	}
	b2, err := f.MarshalMsg(nil)
	if err != nil {
		w.Tr.Violate(&sim.Violation{Prop: "C08", Oracle: "encode", Sig: "C08/re-encode-error/" + tn, Detail: err.Error()})
		return
	}
	if !bytes.Equal(b1, b2) {
		// distinguish "not canonical" (same content, different bytes) from "lossy"
		c1, e1 := canon(b1)
		c2, e2 := canon(b2)
		if e1 == nil && e2 == nil && reflect.DeepEqual(c1, c2) {
			w.Tr.Violate(&sim.Violation{Prop: "C08", Oracle: "canonical", Sig: "C08/re-encoding-not-byte-identical/" + tn,
				Detail: fmt.Sprintf("key %q: decode+encode changes the bytes (same content)", a.Key)})
		} else {
			w.Tr.Violate(&sim.Violation{Prop: "C08", Oracle: "lossless", Sig: "C08/decode-loses-information/" + tn,
				Detail: fmt.Sprintf("key %q: decode+encode changes the content", a.Key)})
		}
		return
	}
	// a second encode of the same in-memory value must give the same bytes (map order)
	b3, _ := a.V.MarshalMsg(nil)
	if !bytes.Equal(b1, b3) {
		w.Tr.Violate(&sim.Violation{Prop: "C08", Oracle: "canonical", Sig: "C08/encoding-not-deterministic/" + tn,
			Detail: fmt.Sprintf("key %q: two encodings of the same value differ", a.Key)})
	}
}

// AfterTxn: the balance records the transaction wrote (they do not pass the contract hook).
func (c *OracleC08) AfterTxn(w *World, bc *BlockCtx, o *Outcome) {
	if o.Class == Rejected {
		return
	}
	ch := o.Changes()
	for _, p := range SortedKeys(ch) {
		if _, ok := w.Reg.IsContractPath(p); ok || ch[p].New == nil {
			continue
		}
		raw := ch[p].New
		rbuf := append([]byte(nil), raw...)
		st := &state.State{}
		if _, err := st.UnmarshalMsg(rbuf); err != nil {
			w.Tr.Violate(&sim.Violation{Prop: "C08", Oracle: "decode", Sig: "C08/stored-value-does-not-decode/state.State", Detail: fmt.Sprintf("account %s: %v", p, err)})
			return
		}
		for i := range rbuf {
			rbuf[i] ^= 0xA5 // the reader reuses its buffer
		}
		c.seen["state.State"]++
		if b2, _ := st.MarshalMsg(nil); !bytes.Equal(raw, b2) {
			w.Tr.Violate(&sim.Violation{Prop: "C08", Oracle: "lossless", Sig: "C08/decode-loses-information/state.State",
				Detail: fmt.Sprintf("account %s: stored %x, decoded and re-encoded (after the read buffer was reused) %x", p, raw, b2)})
			return
		}
	}
}
func (c *OracleC08) AfterBlock(w *World, bc *BlockCtx)           {}
