package prune

import (
	"bytes"
	"container/ring"
	"context"
	"encoding/binary"
	"fmt"
	"os"
	"runtime"
	"sort"
	"strings"
	"testing/synctest"
	"time"

	"0chain.net/chaincore/block"
	"0chain.net/chaincore/chain"
	"0chain.net/chaincore/round"
	"0chain.net/chaincore/state"
	"0chain.net/chaincore/transaction"
	"0chain.net/core/common"
	"0chain.net/core/datastore"
	"github.com/0chain/common/core/util"
	"github.com/linxGnu/grocksdb"
	"github.com/vmihailenco/msgpack/v5"

	"verif/sim"
	"verif/worlds/ledger"
)

// ---- C27: pruning never deletes state a retained block still needs --------------------------------
//
// A follower chain (own chain.Chain, own PNodeDB on its own simulated disk)
// receives every block the primary assembles, executes it (Block.ComputeState)
// or syncs it (ApplyBlockStateChange), registers it as the notarized block of
// its round and hands the round to the SHIPPED finalisation path:
// Chain.FinalizeRound -> FinalizeRoundWorker -> finalizeRound ->
// FinalizedBlockWorker -> finalizeBlockProcess -> finalizeBlock (SaveChanges,
// RecordDeadNodes(ClientState.GetDeletes(), round), StoreLFBRound) with a sim
// BlockStateHandler / ViewChanger. Pruning is done by the shipped
// PruneClientStateWorker on the bubble clock (pruneClientState ->
// PNodeDB.PruneBelowVersion). The follower's disk crashes at chosen write
// boundaries; the follower then restarts from its disk alone (new PNodeDB, new
// chain, LFB taken from the LFB record the shipped code stores in the state DB)
// and catches up.

const pruneCountKey = "viper:server_chain.state.prune_below_count"

type fblk struct {
	b      *block.Block      // the primary's block
	want   map[string][]byte // model: full state of the block (leaf path -> value bytes), captured at assembly
	saved  bool              // the block's state root is on the follower's disk (its SaveChanges batch was written, on any incarnation)
	have   bool              // delivered to the current incarnation of the follower
	orphan bool              // on a branch the chain abandoned (a sibling block was finalised for its round or an earlier one)
}

type bsh27 struct{ f *follower }

func (h *bsh27) SaveMagicBlock() chain.MagicBlockSaveFunc { return nil }
func (h *bsh27) UpdatePendingBlock(context.Context, *block.Block, []datastore.Entity) {
}

// UpdateFinalizedBlock marks the round finalized the way miner.updateFinalizedBlock does.
func (h *bsh27) UpdateFinalizedBlock(ctx context.Context, b *block.Block) error {
	f := h.f
	c := f.rp.C
	if fr := c.GetRound(b.Round); fr != nil {
		fr.Finalize(b)
	}
	c.DeleteRoundsBelow(b.Round)
	return nil
}

type vc27 struct{}

func (vc27) ViewChange(context.Context, *block.Block) error { return nil }

type follower struct {
	w      *ledger.World
	rp     *ledger.Replica
	tr     *sim.Trace
	count  int64 // configured prune_below_count (statement-level: state of the last count rounds below the LFB is retained)
	blocks []*fblk
	byHash map[string]*fblk

	cancel    context.CancelFunc
	ctx       context.Context
	dead      bool  // disk crashed: the process is gone until restart
	lost      bool  // the follower cannot follow (re-execution differs: not this property); stop
	nextRound int64 // next round to hand to FinalizeRound
	hold      int   // withhold finalisation for this many blocks
	syncNext  int   // sync (instead of executing) this many next blocks
	psyncNext int   // partial state sync of the next state-changing block: store its root and this many - 1 top nodes early
	finalized int

	floor        int64 // blocks at or above this round must be readable (max over prunes)
	afterCrash   bool  // a crash happened since the start: violations carry /after-crash
	lastDead     map[int64]int
	lastSets     map[int64]map[string]bool
	preRoots     map[string]bool  // state roots a partial state sync stored before their block was finalised
	prunedBy     map[string]int64 // node hash -> round of the dead-node record it was pruned under (diagnostics)
	fault        *fault27         // armed disk fault (nil none)
	directPrune  bool
	partialPrune bool // a prune was cut short by a fault: nodes may be gone while their records are still there
	nPrunes      int
	nChecks      int
	restarts     int

	churnModel
}

// churnModel follows the churn keys on the primary (for probes only).
type churnModel struct {
	cur     map[int]int          // key -> value id, -1 absent
	inBlock map[int]map[int]bool // values inserted under key in the block under assembly
	ever    map[int]map[int]bool
	blkRnd  int64
}

func newChurnModel() churnModel {
	return churnModel{cur: map[int]int{}, inBlock: map[int]map[int]bool{}, ever: map[int]map[int]bool{}}
}

// churnOpHandler executes a churn step: one transaction to the churn contract.
func churnOpHandler(w *ledger.World, f *churnModel) func(r *ledger.Runner, st sim.Step) {
	tr := w.Tr
	return func(r *ledger.Runner, st sim.Step) {
		r.EnsureBlock()
		if r.BC.B.Round != f.blkRnd {
			f.blkRnd = r.BC.B.Round
			f.inBlock = map[int]map[int]bool{}
		}
		from, _ := w.Account(st.A)
		var in churnInput
		for i := 0; i+2 < len(st.I); i += 3 {
			in.Ops = append(in.Ops, churnOp{Op: int(st.I[i]) % 2, K: int(st.I[i+1]), V: int(st.I[i+2])})
		}
		t := w.MakeTxn(ledger.TxnSpec{From: from, To: churnAddr, Type: transaction.TxnTypeSmartContract, Name: "churn", Input: in,
			Fee: r.ResolveFee(0, from), Nonce: r.ResolveNonce(0, from)})
		debugChurn(w, r, in)
		o := r.Submit(t)
		if os.Getenv("VERIF_DEBUG_CHURN") != "" {
			dumpCC("BLOCK after", r.BC.State)
		}
		if o.Class != ledger.Success {
			return
		}
		for _, op := range in.Ops {
			if _, ok := f.cur[op.K]; !ok {
				f.cur[op.K] = -1
			}
			if op.Op == 1 {
				if f.cur[op.K] >= 0 {
					tr.Probe("churn-delete")
				}
				f.cur[op.K] = -1
				continue
			}
			if f.inBlock[op.K] == nil {
				f.inBlock[op.K] = map[int]bool{}
			}
			if f.ever[op.K] == nil {
				f.ever[op.K] = map[int]bool{}
			}
			if f.cur[op.K] != op.V {
				if f.inBlock[op.K][op.V] {
					tr.Probe("identical-reinsert-same-block")
				} else if f.ever[op.K][op.V] {
					tr.Probe("identical-reinsert-later-block")
				}
			}
			f.inBlock[op.K][op.V] = true
			f.ever[op.K][op.V] = true
			f.cur[op.K] = op.V
		}
	}
}

// genChurnStep draws one churn transaction step.
func genChurnStep(pl *sim.RNG, nKeys int) sim.Step {
	st := sim.Step{Op: "c27.churn", A: pl.Intn(6)}
	k, v := pl.Intn(nKeys), pl.Intn(4)
	switch pl.Pick([]int{5, 3, 3, 2, 2, 2}) {
	case 0: // insert
		st.I = []int64{0, int64(k), int64(v)}
	case 1: // delete
		st.I = []int64{1, int64(k), 0}
	case 2: // insert, delete, re-insert the identical value in one transaction
		st.I = []int64{0, int64(k), int64(v), 1, int64(k), 0, 0, int64(k), int64(v)}
	case 3: // delete and re-insert
		st.I = []int64{1, int64(k), 0, 0, int64(k), int64(v)}
	case 4: // toggle to another value and back
		st.I = []int64{0, int64(k), int64(v), 0, int64(k), int64((v + 1) % 4), 0, int64(k), int64(v)}
	default: // several keys
		for j := 0; j < 2+pl.Intn(4); j++ {
			st.I = append(st.I, int64(pl.Pick([]int{3, 2})), int64(pl.Intn(nKeys)), int64(pl.Intn(4)))
		}
	}
	return st
}

func (f *follower) viol(oracle, sig, detail string) {
	f.tr.Violate(&sim.Violation{Prop: "C27", Oracle: oracle, Sig: sig, Detail: detail})
}

// ---- dead-node records on the simulated disk -------------------------------------------------------

func deadRecords(d *grocksdb.Disk) map[int64]int {
	out := map[int64]int{}
	for rn, m := range deadRecordSets(d) {
		out[rn] = len(m)
	}
	return out
}

// deadRecordSets decodes the dead-node records: round -> set of node hashes (hex).
func deadRecordSets(d *grocksdb.Disk) map[int64]map[string]bool {
	out := map[int64]map[string]bool{}
	for k, v := range d.Snapshot("dead_nodes") {
		if len(k) != 8 {
			continue
		}
		rn := int64(binary.BigEndian.Uint64([]byte(k)))
		var m map[string]map[string]bool
		set := map[string]bool{}
		if err := msgpack.Unmarshal(v, &m); err == nil {
			for _, mm := range m {
				for h := range mm {
					set[h] = true
				}
			}
		}
		out[rn] = set
	}
	return out
}

// predictPruneVersion mirrors pruneClientState's choice of the version. Used
// only to place crash points safely (never by an oracle).
func predictPruneVersion(c *chain.Chain) (int64, bool) {
	lfb := c.GetLatestFinalizedBlock()
	cnt := c.PruneStateBelowCount()
	if lfb == nil || lfb.Round <= int64(cnt) {
		return 0, false
	}
	var bc *ring.Ring = c.BlockChain
	bc = bc.Move(-cnt)
	for i := 0; i < 10 && bc.Value == nil; i++ {
		bc = bc.Prev()
	}
	var bs *block.BlockSummary
	if bc.Value != nil {
		bs = bc.Value.(*block.BlockSummary)
		for bs.Round%100 != 0 {
			bc = bc.Prev()
			if bc.Value == nil {
				break
			}
			bs = bc.Value.(*block.BlockSummary)
		}
	}
	if bs == nil {
		return 0, false
	}
	if lfb.Round-int64(cnt) < bs.Round {
		return 0, false
	}
	return bs.Round, true
}

type pwrite struct {
	kind string
	safe bool // a failure of this write cannot leave PruneBelowVersion's iterator goroutine blocked on its channel
}

// pruneWrites lists the write batches PruneBelowVersion(v) will issue.
func pruneWrites(recs map[int64]int, v int64) []pwrite {
	var rs []int64
	for r := range recs {
		if r < v {
			rs = append(rs, r)
		}
	}
	sort.Slice(rs, func(i, j int) bool { return rs[i] < rs[j] })
	var out []pwrite
	keys := 0
	for i, r := range rs {
		n := recs[r]
		if n < 0 {
			n = 0
		}
		keys += n
		if keys >= 1000 {
			out = append(out, pwrite{"node-batch", len(rs)-1-i <= 1})
			keys = 0
		}
	}
	if keys > 0 {
		out = append(out, pwrite{"last-node-batch", true})
	}
	out = append(out, pwrite{"dead-record-delete", true})
	return out
}

// ---- follower life cycle ---------------------------------------------------------------------------

func newFollower(w *ledger.World, p *sim.Plan) *follower {
	f := &follower{w: w, tr: w.Tr, byHash: map[string]*fblk{}, count: p.CfgInt(pruneCountKey, 100), churnModel: newChurnModel(), prunedBy: map[string]int64{}, preRoots: map[string]bool{}}
	f.rp = w.NewReplica("fin")
	f.startWorkers()
	f.nextRound = 1
	f.lastDead = deadRecords(f.rp.Disk)
	f.lastSets = deadRecordSets(f.rp.Disk)
	return f
}

func (f *follower) startWorkers() {
	c := f.rp.C
	c.SetViewChanger(vc27{})
	f.ctx, f.cancel = context.WithCancel(f.w.Ctx)
	go c.FinalizeRoundWorker(f.ctx)
	go c.FinalizedBlockWorker(f.ctx, &bsh27{f})
	go c.PruneClientStateWorker(f.ctx)
	synctest.Wait()
}

// deliver hands a primary block to the follower: execute or sync, then register
// it as the notarized block of its round.
func (f *follower) deliver(fb *fblk) bool {
	defer timeSect("deliver")()
	b := fb.b
	rp := f.rp
	var nb *block.Block
	mode := "exec"
	var bsc *block.StateChange
	if f.syncNext > 0 && !bytes.Equal(b.ClientStateHash, b.PrevBlock.ClientStateHash) {
		var err error
		if bsc, err = block.NewBlockStateChange(b); err != nil {
			// the primary cannot publish this block's change set: C28's business
			f.tr.Probe("primary-cannot-publish-change-set")
			bsc = nil
		}
	}
	if bsc != nil {
		f.syncNext--
		mode = "sync"
		var err error
		got, derr, pnc := transmit(bsc, 1)
		if derr != nil || pnc != "" {
			panic(fmt.Sprintf("untampered change set rejected: %v %s", derr, pnc))
		}
		nb, err = ledger.WireCopy(b)
		if err != nil {
			panic(err)
		}
		prev := rp.Blocks[b.PrevHash]
		if prev == nil {
			panic("follower lost its head")
		}
		nb.SetPreviousBlock(prev)
		if err := nb.ApplyBlockStateChange(got, rp.C); err != nil {
			if rp.Disk.Crashed() {
				return false
			}
			// C28's business
			f.tr.Probe("follower-sync-failed")
			f.lost = true
			return false
		}
		rp.Blocks[nb.Hash] = nb
		rp.C.AddBlock(nb)
		f.tr.Probe("follower-synced-block")
	} else {
		var res *ledger.ExecResult
		nb, res = rp.Execute(b, false)
		if rp.Disk.Crashed() {
			return false
		}
		if nb == nil || res.Err != "" || res.Root != util.ToHex(b.ClientStateHash) {
			// re-execution differs from the generator: C06's business, the follower cannot follow
			f.tr.Probe("follower-execution-failed")
			f.tr.Event("c27 follower cannot execute round=%d err=%q", b.Round, res.Err)
			f.lost = true
			return false
		}
	}
	f.watch(fmt.Sprintf("after deliver(%d)", b.Round))
	fb.have = true
	nb.RoundRank = 0
	nb.SetBlockNotarized()
	c := rp.C
	r := round.NewRound(b.Round)
	c.SetRandomSeed(r, b.GetRoundRandomSeed())
	rr := c.AddRound(r)
	rr.AddNotarizedBlock(nb)
	c.SetCurrentRound(b.Round)
	f.tr.Event("c27 deliver round=%d %s root=%x deletes=%d changes=%d", b.Round, mode, short(b.ClientStateHash), len(nb.ClientState.GetDeletes()), nb.ClientState.GetChangeCount())
	if f.psyncNext > 0 && !bytes.Equal(b.ClientStateHash, b.PrevBlock.ClientStateHash) && !f.preRoots[string(b.ClientStateHash)] {
		n := f.psyncNext
		f.psyncNext = 0
		f.partialSync(nb, n)
		if rp.Disk.Crashed() {
			return false
		}
	}
	return true
}

// finalizeRounds hands the rounds up to `upto` to the shipped FinalizeRound, one
// at a time, letting the workers run to quiescence after each.
func (f *follower) finalizeRounds(upto int64) {
	defer timeSect("finalizeRounds")()
	c := f.rp.C
	for ; f.nextRound <= upto && !f.dead; f.nextRound++ {
		r := c.GetRound(f.nextRound)
		if r == nil {
			continue
		}
		before := c.GetLatestFinalizedBlock().Round
		f.watch(fmt.Sprintf("before FinalizeRound(%d)", f.nextRound))
		c.FinalizeRound(r)
		synctest.Wait()
		f.watch(fmt.Sprintf("after FinalizeRound(%d)", f.nextRound))
		if f.rp.Disk.Crashed() {
			// the process is dead: whatever it still did in memory does not count
			f.afterDisk("finalize")
			break
		}
		after := c.GetLatestFinalizedBlock().Round
		if after != before {
			f.finalized += int(after - before)
			f.tr.Event("c27 finalize-round %d lfb %d -> %d", f.nextRound, before, after)
		}
	}
	// new dead-node records were written: refresh the picture before bubble time can pass again
	f.observe(-1)
}

// afterDisk notices a crash of the follower's disk.
func (f *follower) afterDisk(where string) {
	if f.dead || !f.rp.Disk.Crashed() {
		return
	}
	f.dead = true
	f.afterCrash = true
	f.tr.Event("c27 CRASH noticed after %s", where)
	f.fault = nil
	f.cancel()
	synctest.Wait()
}

// observe notices prunes that happened since the last look (dead-node records
// disappeared) and runs the oracle.
func (f *follower) observe(defBefore int) {
	defer timeSect("observe")()
	if f.lost {
		return
	}
	f.afterDisk("sleep") // a fault may have fired while bubble time passed
	if !f.dead {
		f.refreshSaved(f.rp.C.GetStateDB())
	}
	nowSets := deadRecordSets(f.rp.Disk)
	now := map[int64]int{}
	for r, m := range nowSets {
		now[r] = len(m)
	}
	var removed []int64
	for r := range f.lastDead {
		if _, ok := now[r]; !ok {
			removed = append(removed, r)
			for h := range f.lastSets[r] {
				f.prunedBy[h] = r
			}
		}
	}
	f.lastDead = now
	f.lastSets = nowSets
	if f.partialPrune {
		// the version that prune ran at is not observable; what configuration promises is that
		// nothing from LFB - count on is touched
		f.partialPrune = false
		if lo := f.rp.C.GetLatestFinalizedBlock().Round - f.count; lo > f.floor {
			f.floor = lo
		}
		f.tr.Probe("prune-cut-short")
		if len(removed) == 0 && !f.dead {
			f.check(f.rp.C.GetStateDB(), "after-partial-prune")
		}
	}
	if len(removed) == 0 {
		return
	}
	sort.Slice(removed, func(i, j int) bool { return removed[i] < removed[j] })
	maxRemoved := removed[len(removed)-1]
	lfb := f.rp.C.GetLatestFinalizedBlock().Round
	lo := lfb - f.count // promised by configuration: the state of every block from here on is retained
	if maxRemoved+1 < lo {
		lo = maxRemoved + 1
	}
	if lo > f.floor {
		f.floor = lo
	}
	f.nPrunes++
	deleted := -1
	if defBefore >= 0 {
		deleted = defBefore - f.rp.Disk.Len("default")
	}
	src := "worker"
	if f.directPrune {
		src = "direct"
	}
	f.tr.Probe("prune-executed/" + src + "/" + bucketN(deleted))
	f.tr.Fault("prune/" + src)
	f.tr.Event("c27 PRUNE removed-records=%d..%d (%d) lfb=%d count=%d deleted-nodes=%d floor=%d", removed[0], maxRemoved, len(removed), lfb, f.count, deleted, f.floor)
	if !f.dead {
		f.check(f.rp.C.GetStateDB(), "after-prune")
	}
}

func bucketN(n int) string {
	switch {
	case n < 0:
		return "unknown"
	case n == 0:
		return "deleted=0"
	case n < 100:
		return "deleted=1..99"
	case n < 1000:
		return "deleted=100..999"
	default:
		return "deleted>=1000"
	}
}

// refreshSaved marks the blocks whose state root is on the follower's disk. Decided on
// the disk, not on what the finalisation code reported.
func (f *follower) refreshSaved(ndb util.NodeDB) {
	lfb := f.rp.C.GetLatestFinalizedBlock().Round
	fresh := false
	for _, fb := range f.blocks {
		if fb.saved || fb.orphan {
			continue
		}
		// finalised (at or below the LFB of the live process / the LFB the node restarted at) and its root on
		// disk. The root alone being on disk does not count: a partial state sync may have put it there early
		if fb.b.Round > lfb {
			continue
		}
		if _, err := ndb.GetNode(fb.b.ClientStateHash); err == nil {
			fb.saved = true
			if f.preRoots[string(fb.b.ClientStateHash)] {
				fresh = true
			}
		}
	}
	if fresh && !f.dead {
		// a block whose root had been stored early by a partial state sync is finalised now: read it back at once
		f.tr.Probe("pre-rooted-block-finalised")
		f.check(ndb, "after-finalize")
	}
}

// partialSync stores the root node of the block's state and up to n-1 further top nodes created by the block
// in the follower's persistent node DB through the shipped partial-state path (PartialState.ComputeProperties,
// Chain.SyncPartialState -> SavePartialState -> PartialState.SaveState -> util.MergeState), as a state sync of
// the upper part of that state does, before the block is finalised.
func (f *follower) partialSync(nb *block.Block, n int) {
	ndb := nb.ClientState.GetNodeDB()
	root, err := ndb.GetNode(nb.ClientStateHash)
	if err != nil {
		return
	}
	nodes := []util.Node{root}
	for i := 0; i < len(nodes) && len(nodes) < n; i++ {
		var kids []util.Key
		switch x := nodes[i].(type) {
		case *util.FullNode:
			for _, c := range x.Children {
				if c != nil {
					kids = append(kids, c)
				}
			}
		case *util.ExtensionNode:
			kids = append(kids, x.NodeKey)
		}
		for _, k := range kids {
			if len(nodes) >= n {
				break
			}
			if c, err := ndb.GetNode(k); err == nil && int64(c.GetOrigin()) == nb.Round {
				nodes = append(nodes, c)
			}
		}
	}
	ps := &state.PartialState{Hash: append(util.Key(nil), nb.ClientStateHash...), Version: "1.0", Nodes: nodes}
	if err := ps.ComputeProperties(); err != nil {
		panic(fmt.Sprintf("partial state of block %d not valid: %v", nb.Round, err))
	}
	err = f.rp.C.SyncPartialState(f.ctx, ps)
	f.preRoots[string(nb.ClientStateHash)] = true
	f.tr.Fault("partial-state-sync")
	f.tr.Event("c27 partial state sync round=%d nodes=%d err=%v", nb.Round, len(nodes), err != nil)
}

// check is the oracle: every retained block at or above the prune round reads
// back completely from the persistent node DB alone and equals the model.
func (f *follower) check(ndb util.NodeDB, when string) {
	defer timeSect("check")()
	suffix := ""
	if f.afterCrash {
		suffix = "/after-crash"
	}
	n := 0
	for _, fb := range f.blocks {
		if !fb.saved || fb.orphan || fb.b.Round < f.floor {
			continue
		}
		n++
		got, err := ledger.Leaves(ndb, fb.b.ClientStateHash)
		if err != nil {
			f.viol("retained-state", "C27/retained-block-unreadable-after-prune"+suffix,
				fmt.Sprintf("%s: block %d (retained: >= %d, prune_below_count %d, lfb %d) cannot be read from the persistent node DB: %v%s", when, fb.b.Round, f.floor, f.count, f.rp.C.GetLatestFinalizedBlock().Round, err, f.whoPruned(err)))
			return
		}
		if d := diffLeaves(fb.want, got); d != "" {
			f.viol("retained-state", "C27/retained-block-state-differs-after-prune"+suffix,
				fmt.Sprintf("%s: block %d: %s", when, fb.b.Round, d))
			return
		}
	}
	f.nChecks++
	f.tr.Event("c27 check %s floor=%d blocks=%d ok", when, f.floor, n)
	if n > 0 {
		f.tr.Probe("retained-blocks-read-back/" + when)
	}
}

// whoPruned finds the dead-node record a missing node was listed in (diagnostics).
func (f *follower) whoPruned(err error) string {
	msg := err.Error()
	for h, r := range f.prunedBy {
		if len(h) >= 16 && strings.Contains(msg, h) {
			return fmt.Sprintf("; the node was listed in the dead-node record of round %d", r)
		}
	}
	for r, set := range f.lastSets {
		for h := range set {
			if len(h) >= 16 && strings.Contains(msg, h) {
				return fmt.Sprintf("; the node is listed in the (still present) dead-node record of round %d", r)
			}
		}
	}
	return "; the node was in no dead-node record the harness saw"
}

// restart rebuilds the follower from its disk alone.
func (f *follower) restart(why string, forced ...*fblk) {
	defer timeSect("restart(incl)")()
	if f.lost {
		return
	}
	rp := f.rp
	f.cancel()
	synctest.Wait()
	wasDead := f.dead
	rp.Disk.Recover()
	if f.fault != nil {
		f.arm(f.fault) // an armed fault that has not fired yet stays armed across a voluntary restart
	}
	// which block does the node come back at? what the shipped code recorded as LFB in the state DB
	head := rp.Genesis
	if len(forced) > 0 {
		// LFB rollback: the node comes back at an earlier finalised block than the one it had reached
		head = forced[0].b
	} else if lr, err := rp.C.LoadLFBRound(); err == nil {
		if fb := f.byHash[lr.Hash]; fb != nil {
			head = fb.b
		} else if lr.Hash != rp.Genesis.Hash {
			f.viol("restart", "C27/lfb-record-names-unknown-block", fmt.Sprintf("LFB record round %d hash %s", lr.Round, lr.Hash))
			f.lost = true
			return
		}
	}
	if err := rp.Restart(head); err != nil {
		f.viol("restart", "C27/lfb-state-unreadable-after-restart", fmt.Sprintf("%s: restart at the recorded LFB (round %d): %v", why, head.Round, err))
		f.lost = true
		return
	}
	f.restarts++
	f.dead = false
	if wasDead {
		f.tr.Fault("restart-after-crash")
	} else {
		f.tr.Fault("restart")
	}
	c := rp.C
	nb := rp.Blocks[head.Hash]
	nb.RoundRank = 0
	nb.SetBlockNotarized()
	hr := round.NewRound(head.Round)
	if head.Round > 0 {
		c.SetRandomSeed(hr, head.GetRoundRandomSeed())
	}
	hr.AddNotarizedBlock(nb)
	hr.Finalize(nb)
	c.AddRound(hr)
	c.SetCurrentRound(head.Round)
	f.refreshSaved(c.GetStateDB())
	f.startWorkers()
	f.tr.Event("c27 RESTART (%s) at round=%d root=%x", why, head.Round, short(head.ClientStateHash))
	f.lastDead = deadRecords(rp.Disk)
	f.lastSets = deadRecordSets(rp.Disk)
	// everything retained must be readable right after the restart
	f.check(c.GetStateDB(), "after-restart")
	// catch up
	f.nextRound = head.Round + 1
	for _, fb := range f.blocks {
		fb.have = false
	}
	for _, fb := range f.blocks {
		if fb.b.Round <= head.Round || fb.orphan || f.lost || f.dead {
			continue
		}
		sn := f.syncNext
		f.syncNext = 0
		ok := f.deliver(fb)
		f.syncNext = sn
		if !ok {
			f.afterDisk("catch-up")
			break
		}
	}
	if !f.lost && !f.dead && f.hold == 0 && len(f.blocks) > 0 {
		f.finalizeRounds(f.blocks[len(f.blocks)-1].b.Round)
	}
}

// fork re-finalises the round of the follower's LFB with a sibling block: the follower comes back from its
// disk at the block before its LFB (an LFB rollback / a restart before the LFB record was persisted), the
// primary abandons everything from that round on and assembles a sibling on the same parent — with no
// transactions (variant 0: it ends at once) or with whatever transactions the plan brings next — and the chain
// continues on the sibling, which goes through the same shipped finalisation path.
func (f *follower) fork(r *ledger.Runner, variant int) {
	if f.lost {
		return
	}
	f.observe(-1)
	if f.dead {
		f.restart("before-fork")
		if f.lost || f.dead {
			return
		}
	}
	lfb := f.rp.C.GetLatestFinalizedBlock()
	x, p := f.byHash[lfb.Hash], (*fblk)(nil)
	if x == nil || x.orphan || lfb.Round < 2 {
		return
	}
	if p = f.byHash[x.b.PrevHash]; p == nil || p.orphan {
		return
	}
	if _, err := ledger.Leaves(f.rp.C.GetStateDB(), p.b.ClientStateHash); err != nil {
		return // the parent's state is below a prune version already: no node can go back there
	}
	n := 0
	for _, fb := range f.blocks {
		if !fb.orphan && fb.b.Round >= x.b.Round {
			fb.orphan = true
			n++
		}
	}
	f.tr.Fault("fork/sibling-for-finalised-round")
	f.tr.Event("c27 FORK at round=%d (lfb): %d blocks abandoned, back to round=%d, variant=%d", x.b.Round, n, p.b.Round, variant%2)
	f.restart("lfb-rollback", p)
	if f.lost || f.dead {
		return
	}
	// the primary: drop the block under assembly and everything above the parent
	r.BC = f.w.NewBlock(p.b, r.Blocks)
	if variant%2 == 0 {
		f.tr.Probe("fork/empty-sibling")
		r.EndBlock(false)
	} else {
		f.tr.Probe("fork/sibling-with-other-transactions")
	}
}

// tick lets the bubble clock run so that the shipped PruneClientStateWorker fires.
func (f *follower) tick(secs int64) {
	defer timeSect("tick(incl)")()
	if f.lost || f.dead {
		time.Sleep(time.Duration(secs) * time.Second)
		return
	}
	d := f.rp.Disk
	f.observe(-1)
	f.pruneWindow(func() (int64, bool) { return predictPruneVersion(f.rp.C) })
	def := d.Len("default")
	f.watch("before tick")
	time.Sleep(time.Duration(secs) * time.Second)
	synctest.Wait()
	f.watch("after tick")
	f.w.Now = common.Timestamp(time.Now().Unix())
	f.tr.SimTime += float64(secs)
	if d.Crashed() {
		f.afterDisk("tick")
	}
	f.observe(def)
}

// ---- disk faults -----------------------------------------------------------------------------------

// The write sites of the finalise / prune path, recognised on the stack of the
// goroutine that issues the write.
var sites27 = []string{"SaveChanges", "RecordDeadNodes", "StoreLFBRound", "MultiDeleteNode", "multiDeleteDeadNodes"}

type fault27 struct {
	site    string
	nth     int  // fire at the nth write from that site (for MultiDeleteNode: nth batch of one prune)
	ioerr   bool // return an I/O error once instead of crashing
	seen    int
	allowed map[int]bool // MultiDeleteNode only: batches of the coming prune at which a failure is safe
	last    int          // MultiDeleteNode only: number of batches predicted
}

func writeSite() string {
	var pcs [48]uintptr
	n := runtime.Callers(3, pcs[:])
	frames := runtime.CallersFrames(pcs[:n])
	site := ""
	for {
		fr, more := frames.Next()
		fn := fr.Function
		switch {
		case strings.HasSuffix(fn, ".multiDeleteDeadNodes"):
			return "multiDeleteDeadNodes"
		case strings.HasSuffix(fn, ".MultiDeleteNode"):
			return "MultiDeleteNode"
		case strings.HasSuffix(fn, ".RecordDeadNodes"):
			return "RecordDeadNodes"
		case strings.HasSuffix(fn, ".StoreLFBRound"):
			return "StoreLFBRound"
		case strings.HasSuffix(fn, ".MultiPutNode"):
			site = "SaveChanges"
		case strings.HasSuffix(fn, ".MergeState"):
			return "" // the partial state sync's own write, not a finalisation site
		}
		if !more {
			break
		}
	}
	return site
}

// arm installs the fault callback on the follower's disk.
func (f *follower) arm(ft *fault27) {
	f.fault = ft
	d := f.rp.Disk
	d.SetFault(func(_ *grocksdb.Disk, op string, _ uint64) error {
		switch op {
		case "put", "delete", "write", "commit":
		default:
			return nil
		}
		if f.fault != ft || writeSite() != ft.site {
			return nil
		}
		ft.seen++
		if ft.site == "MultiDeleteNode" {
			// only where a failing batch cannot leave PruneBelowVersion's iterator goroutine blocked for ever
			want := ft.nth
			if want > ft.last {
				want = ft.last
			}
			for want < ft.last && !ft.allowed[want] {
				want++
			}
			if ft.seen != want || !ft.allowed[ft.seen] {
				return nil
			}
		} else if ft.seen != ft.nth {
			return nil
		}
		f.fault = nil
		if ft.site == "MultiDeleteNode" || ft.site == "multiDeleteDeadNodes" {
			f.partialPrune = true
		}
		if ft.ioerr {
			f.tr.Fault("io-error/" + ft.site)
			f.tr.Event("c27 IO-ERROR at write #%d of %s", ft.seen, ft.site)
			return grocksdb.ErrInjected
		}
		f.tr.Fault("crash/" + ft.site)
		f.tr.Event("c27 CRASH at write #%d of %s", ft.seen, ft.site)
		f.afterCrash = true
		d.Crash()
		return grocksdb.ErrCrashed
	})
}

// pruneWindow prepares an armed MultiDeleteNode fault for the prune that is about to run.
func (f *follower) pruneWindow(version func() (int64, bool)) {
	ft := f.fault
	if ft == nil || ft.site != "MultiDeleteNode" {
		return
	}
	ft.seen, ft.allowed, ft.last = 0, map[int]bool{}, 0
	v, ok := version()
	if !ok {
		return
	}
	for _, w := range pruneWrites(deadRecords(f.rp.Disk), v) {
		if w.kind == "dead-record-delete" {
			continue
		}
		ft.last++
		if w.safe {
			ft.allowed[ft.last] = true
		}
	}
}

// ---- observer --------------------------------------------------------------------------------------

func (f *follower) AfterTxn(w *ledger.World, bc *ledger.BlockCtx, out *ledger.Outcome) {}

func dbgPanic() {
	if os.Getenv("VERIF_DEBUG_BUBBLE") == "" {
		return
	}
	if r := recover(); r != nil {
		buf := make([]byte, 1<<16)
		n := runtime.Stack(buf, false)
		fmt.Fprintf(os.Stderr, "PANIC in C27 harness: %v\n%s\n", r, buf[:n])
		panic(r)
	}
}

func (f *follower) AfterBlock(w *ledger.World, bc *ledger.BlockCtx) {
	defer dbgPanic()
	b := bc.B
	defer timeSect("AfterBlock(incl)")()
	stop := timeSect("model")
	want, err := ledger.Leaves(bc.State.GetNodeDB(), b.ClientStateHash)
	stop()
	if err != nil {
		panic(fmt.Sprintf("primary state of block %d unreadable: %v", b.Round, err))
	}
	fb := &fblk{b: b, want: want}
	f.blocks = append(f.blocks, fb)
	f.byHash[b.Hash] = fb
	if f.lost || f.dead {
		return
	}
	f.observe(-1)
	if !f.deliver(fb) {
		f.afterDisk("deliver")
		return
	}
	if f.hold > 0 {
		f.hold--
		f.tr.Probe("finalisation-withheld")
		return
	}
	f.finalizeRounds(b.Round)
}

// ---- plan ------------------------------------------------------------------------------------------

func gen27(sc ledger.Scenario) func(seed uint64, tier string) *sim.Plan {
	return func(seed uint64, tier string) *sim.Plan {
		p := sc.Gen(seed, tier)
		root := sim.NewRNG(seed)
		pl := root.Child("plan27")
		dk := root.Child("disk")
		nt := root.Child("net")
		// transaction templates from the base generator
		tmp := &sim.Plan{Cfg: map[string]int64{}}
		ledger.GenBase(root.Child("plan"), tmp, 400, map[string]int{"send": 6, "pour": 3, "call": 2, "data": 1, "replay": 1})
		ti := 0
		baseTxn := func() sim.Step {
			st := tmp.Steps[ti%len(tmp.Steps)]
			ti++
			return st
		}
		shape := pl.Intn(100)
		heavy := shape < 8 // a long run that lets > 1000 dead nodes pile up below round 100: PruneBelowVersion deletes in several batches
		long := shape < 40
		var count, rounds int
		if heavy {
			count = pl.Range(1, 5)
			rounds = 100 + count + pl.Range(4, 14)
		} else if long {
			count = pl.Range(1, 12)
			rounds = 100 + count + pl.Range(4, 24)
		} else {
			count = pl.Range(1, 8)
			rounds = pl.Range(14, 60)
			if tier == "thorough" {
				rounds = pl.Range(14, 90)
			}
		}
		p.Cfg[pruneCountKey] = int64(count)
		p.Cfg["funding"] = 1e13
		p.Cfg["c27_long"] = map[bool]int64{true: 1, false: 0}[long]
		nKeys := pl.Range(2, 24)
		if heavy {
			nKeys = pl.Range(24, 48)
		}
		churn := func() sim.Step { return genChurnStep(pl, nKeys) }
		var out []sim.Step
		busy := 0 // remaining rounds of a churn burst
		restartIn := -1
		forkIn := 0
		for rn := 1; rn <= rounds; rn++ {
			if heavy && rn <= 100+count+3 {
				// quiet phase: nothing that would prune early (no restart, no direct prune, no fault)
				for j := pl.Range(2, 4); j > 0; j-- {
					out = append(out, churn())
				}
				out = append(out, sim.Step{Op: "block", I: []int64{int64(pl.Intn(8)), 0}})
				continue
			}
			// control steps
			if pl.Intn(100) < 6 {
				out = append(out, sim.Step{Op: "c27.hold", I: []int64{int64(pl.Range(1, 8))}})
			}
			if nt.Intn(100) < 12 {
				out = append(out, sim.Step{Op: "c27.sync", I: []int64{int64(nt.Range(1, 3))}})
			}
			if forkIn > 0 {
				if forkIn--; forkIn == 0 {
					// some rounds after a fork: prune as far as configuration allows, and let the worker run
					out = append(out, sim.Step{Op: "c27.prune", I: []int64{0, 1}}, sim.Step{Op: "c27.tick", I: []int64{8}})
				}
			}
			if rn > 6 && nt.Intn(100) < 6 {
				out = append(out, sim.Step{Op: "c27.fork", I: []int64{int64(nt.Pick([]int{3, 2}))}})
				forkIn = count + 5
			}
			if nt.Intn(100) < 12 {
				out = append(out, sim.Step{Op: "c27.psync", I: []int64{int64(nt.Pick([]int{4, 2, 1, 1, 1, 1}))}})
			}
			if dk.Intn(100) < map[bool]int{true: 4, false: 9}[long] || (heavy && dk.Intn(100) < 40) {
				site := dk.Pick([]int{3, 3, 2, 4, 4})
				if heavy {
					site = 3 + dk.Intn(2)
				} // SaveChanges, RecordDeadNodes, StoreLFBRound, MultiDeleteNode, multiDeleteDeadNodes
				ioerr := dk.Pick([]int{3, 1})
				out = append(out, sim.Step{Op: "c27.crash", I: []int64{int64(site), int64(dk.Intn(4)), int64(ioerr)}})
				if site >= 3 {
					out = append(out, sim.Step{Op: "c27.tick", I: []int64{8}})
				}
				if ioerr == 0 {
					restartIn = dk.Range(0, 4)
				}
			}
			if restartIn == 0 || dk.Intn(100) < map[bool]int{true: 2, false: 6}[long] {
				out = append(out, sim.Step{Op: "c27.restart"})
			}
			if restartIn >= 0 {
				restartIn--
			}
			if pl.Intn(100) < 4 {
				out = append(out, sim.Step{Op: "c27.prune", I: []int64{int64(pl.Intn(1 << 16))}})
			}
			pt := 10
			if long && rn > 100+count {
				pt = 45
			}
			if heavy {
				pt = 70
			}
			if !long && rn > count+4 {
				pt = 25
			}
			if pl.Intn(100) < pt {
				out = append(out, sim.Step{Op: "c27.tick", I: []int64{int64(pl.Pick([]int{6, 2, 1})*7 + 8)}})
			}
			// transactions of the round
			if busy == 0 && pl.Intn(100) < 18 {
				busy = pl.Range(1, 4)
			}
			ntx := pl.Pick([]int{5, 5, 2, 1})
			if long && busy == 0 {
				ntx = pl.Pick([]int{7, 3, 1})
			}
			if busy > 0 {
				ntx = pl.Range(2, 6)
				busy--
			}
			for j := 0; j < ntx; j++ {
				if busy > 0 || pl.Intn(100) < 55 {
					out = append(out, churn())
				} else {
					st := baseTxn()
					if st.Op == "clock" {
						continue
					}
					out = append(out, st)
				}
			}
			if pl.Intn(100) < 10 {
				out = append(out, sim.Step{Op: "c27.clock", I: []int64{int64(pl.Pick([]int{3, 2, 1})*0 + []int{1, 10, 40}[pl.Pick([]int{3, 2, 1})])}})
			}
			out = append(out, sim.Step{Op: "block", I: []int64{int64(pl.Intn(8)), 0}})
		}
		out = append(out, sim.Step{Op: "c27.tick", I: []int64{15}})
		p.Steps = out
		return p
	}
}

func setup27(w *ledger.World, r *ledger.Runner) []ledger.Observer {
	profStart()
	registerChurn()
	r.SaveAll = true
	f := newFollower(w, r.Plan)
	tr := w.Tr
	r.Ops["c27.churn"] = churnOpHandler(w, &f.churnModel)
	r.Ops["c27.clock"] = func(r *ledger.Runner, st sim.Step) {
		// the base clock op plus quiescence: a prune-worker timer may fire during the sleep, and the
		// next step must not start before that prune has run to completion
		w.Advance(1 + st.Int(0, 1)%600)
		synctest.Wait()
		f.observe(-1)
	}
	r.Ops["c27.hold"] = func(r *ledger.Runner, st sim.Step) { f.hold = int(st.Int(0, 1)) % 12 }
	r.Ops["c27.fork"] = func(r *ledger.Runner, st sim.Step) {
		defer dbgPanic()
		f.fork(r, int(st.Int(0, 0)))
	}
	r.Ops["c27.psync"] = func(r *ledger.Runner, st sim.Step) { f.psyncNext = 1 + int(st.Int(0, 0))%6 }
	r.Ops["c27.sync"] = func(r *ledger.Runner, st sim.Step) { f.syncNext = int(st.Int(0, 1)) % 6 }
	r.Ops["c27.tick"] = func(r *ledger.Runner, st sim.Step) {
		defer dbgPanic()
		f.observe(-1)
		f.tick(8 + st.Int(0, 8)%120)
	}
	r.Ops["c27.crash"] = func(r *ledger.Runner, st sim.Step) {
		if f.lost || f.dead {
			return
		}
		site := sites27[int(st.Int(0, 0))%len(sites27)]
		// no injected I/O *error* in SaveChanges: util.MerklePatriciaTrie.SaveChanges selects between its
		// error channel and its done channel when both are ready, so whether the error is seen is decided
		// by the Go runtime's unseedable choice (see NOTES.md); a crash there is deterministic
		f.arm(&fault27{site: site, nth: 1 + int(st.Int(1, 0))%4, ioerr: st.Int(2, 0) != 0 && site != "SaveChanges"})
		if site == "multiDeleteDeadNodes" {
			f.fault.nth = 1
		}
	}
	r.Ops["c27.restart"] = func(r *ledger.Runner, st sim.Step) {
		defer dbgPanic()
		f.observe(-1)
		f.restart("plan")
	}
	r.Ops["c27.prune"] = func(r *ledger.Runner, st sim.Step) {
		// additional to the worker: a direct PruneBelowVersion at a seeded version (any version up to the LFB is legitimate)
		defer dbgPanic()
		if f.lost || f.dead {
			return
		}
		f.observe(-1)
		lfb := f.rp.C.GetLatestFinalizedBlock().Round
		if lfb < 2 {
			return
		}
		v := 1 + st.Int(0, 0)%lfb
		if st.Int(1, 0) != 0 {
			// as far as configuration allows: everything below LFB - prune_below_count
			if v = lfb - f.count; v < 1 {
				return
			}
		}
		def := f.rp.Disk.Len("default")
		f.pruneWindow(func() (int64, bool) { return v, true })
		err := f.rp.C.GetStateDB().PruneBelowVersion(util.WithPruneStats(f.ctx), v)
		synctest.Wait()
		tr.Event("c27 direct PruneBelowVersion(%d) lfb=%d err=%v", v, lfb, err != nil)
		tr.Fault("direct-prune")
		if v > f.floor {
			f.floor = v
		}
		f.afterDisk("direct-prune")
		f.directPrune = true
		f.observe(def)
		f.directPrune = false
		if !f.dead {
			f.check(f.rp.C.GetStateDB(), "after-direct-prune")
		}
	}
	return []ledger.Observer{f}
}

func finish27(w *ledger.World, r *ledger.Runner) {
	defer dbgPanic()
	defer profStop()
	var f *follower
	for _, o := range w.Observers() {
		if x, ok := o.(*follower); ok {
			f = x
		}
	}
	if f == nil {
		return
	}
	if f.lost {
		f.cancel()
		return
	}
	f.hold = 0
	if f.dead {
		f.restart("end-of-run")
	} else if len(f.blocks) > 0 {
		f.finalizeRounds(f.blocks[len(f.blocks)-1].b.Round)
	}
	if !f.lost && !f.dead {
		f.tick(15)
	}
	if !f.lost && !f.dead {
		// finally, a restart from disk and a last look
		f.restart("final")
		if !f.lost && !f.dead {
			f.tick(15)
		}
	}
	f.tr.Event("c27 end finalized=%d prunes=%d checks=%d restarts=%d floor=%d", f.finalized, f.nPrunes, f.nChecks, f.restarts, f.floor)
	f.cancel()
	synctest.Wait()
	if os.Getenv("VERIF_DEBUG_BUBBLE") != "" {
		time.Sleep(3 * time.Hour)
		synctest.Wait()
		buf := make([]byte, 1<<22)
		n := runtime.Stack(buf, true)
		os.Stderr.Write(buf[:n])
	}
}

func init() {
	sc := ledger.Scenario{Prop: "C27", Weights: map[string]int{"send": 1}, Lo: 1, Hi: 1, Bubble: true}
	sc.Setup = setup27
	sc.Finish = finish27
	sim.Register(&sim.Check{
		ID: "C27", Title: "Pruning never deletes state that a retained block still needs", World: "ledger",
		Gen: gen27(sc), Exec: func(env *sim.Env, p *sim.Plan) *sim.Result {
			// The root context's Done channel is created lazily by the first Done() call. Process-global
			// worker goroutines started by Boot (outside any bubble) select on it; if code inside the
			// bubble happens to call Done() first, the channel belongs to the bubble and the outside
			// goroutine dies with "select on synctest channel from outside bubble". Create it out here.
			ledger.Boot()
			_ = common.GetRootContext().Done()
			return sc.Exec(env, p)
		},
		Quick: sim.Budget{Runs: 96, WallS: 80}, Thorough: sim.Budget{Runs: 6000, WallS: 1200},
		LevelText: "a follower chain (own chain.Chain and PNodeDB on its own simulated disk) receives every block of the primary (key-churn workload: a sim-owned registered contract inserts, deletes and re-inserts identical and different values under fixed keys through the real StateContext within one transaction, within one block and in later blocks; plus sends, faucet pours and arbitrary contract calls), executes it with Block.ComputeState or syncs it with ApplyBlockStateChange, and finalises it through the shipped workers: Chain.FinalizeRound -> FinalizeRoundWorker -> finalizeRound (ComputeFinalizedBlock, 3-confirmation rule) -> FinalizedBlockWorker -> finalizeBlockProcess -> finalizeBlock (SaveChanges, RecordDeadNodes(ClientState.GetDeletes(), round), StoreLFBRound) with a sim BlockStateHandler/ViewChanger; pruning runs in the shipped PruneClientStateWorker on the fake clock of a synctest bubble (pruneClientState with its ring walk / alignment to rounds divisible by 100 -> PNodeDB.PruneBelowVersion; prune_below_count 1..12 from the plan; runs of 105..140 rounds reach the aligned round 100, shorter runs reach pruning through restarts); the follower's disk crashes at plan-chosen write boundaries inside SaveChanges, RecordDeadNodes, StoreLFBRound, the node-deletion batches and the dead-node-record deletion of PruneBelowVersion (or returns one I/O error there, except in SaveChanges), a partial state sync (Chain.SyncPartialState -> PartialState.SaveState) stores the root and a few top nodes of a block's state before the block is finalised; the round of the LFB is re-finalised with a sibling block (empty or with other transactions) after the follower came back one block earlier; the follower restarts from its disk alone at the LFB record the shipped code stored, re-executes and keeps finalising and pruning. Oracle: after every prune and every restart each finalised block at or above the prune round — at least every block from LFB - prune_below_count on — is walked completely against the persistent node DB alone and must equal the model state captured when the primary assembled it",
		LevelNote: "the real finalize and prune workers run (no fallback); additionally the plan issues direct PNodeDB.PruneBelowVersion calls at seeded versions <= LFB. Consensus facts (one notarized block per round, rank 0) are sim-owned. Crash points inside PruneBelowVersion are placed only where a failing write cannot leave its iterator goroutine blocked on its channel (a goroutine blocked forever would abort the synctest bubble): the last node batch, the dead-record deletion, and 1000-key batches with at most one record left. No I/O errors (only crashes) are injected in SaveChanges: util.MerklePatriciaTrie.SaveChanges selects between its error and its done channel when both are ready, so whether a failed write is reported is decided by the Go runtime's unseedable choice (a failed save reported as success was seen once, not replayable, not claimed). Which blocks count as saved is read off the disk. Power loss (lost unsynced suffix) is not injected: the code never syncs. The MPT change collector and PNodeDB live in github.com/0chain/common (outside /repo): /repo decides which block's deletes are recorded under which round and which version is pruned",
		Technique: "deterministic simulation: key-churn workload, crash/restart and I/O-error faults at disk-write boundaries, fake clock for the shipped workers, full-state read-back oracle against a model",
		DesignRef: "6/C27", Regime: "single-threaded event loop inside a testing/synctest bubble; the shipped worker goroutines run to quiescence (synctest.Wait) after every step",
		Components: sim.Components{
			Real: append(append([]string{}, ledger.W1Components.Real...), "chaincore/chain finalisation and pruning: FinalizeRound(Impl), FinalizeRoundWorker, finalizeRound, ComputeFinalizedBlock, FinalizedBlockWorker, finalizeBlockProcess, finalizeBlock, rebaseState, StoreLFBRound/LoadLFBRound, PruneClientStateWorker, pruneClientState", "chaincore/round.Round", "chaincore/block ApplyBlockStateChange/NewBlockStateChange", "0chain/common PNodeDB.RecordDeadNodes/PruneBelowVersion, MPT change collector"),
			Sim:  append(append([]string{}, ledger.W1Components.Sim...), "churn contract (sim-owned, registered in the contract map)", "consensus facts (notarization, ranks)", "BlockStateHandler, ViewChanger", "crash/restart driver"),
			Stub: ledger.W1Components.Stub,
		},
	})
}
