package prune

import (
	"fmt"
	"os"
	"runtime/pprof"
	"sort"

	"github.com/0chain/common/core/util"

	"verif/worlds/ledger"
)

func dumpCC(tag string, m util.MerklePatriciaTrieI) {
	_, ch, del, start := m.GetChanges()
	var ls []string
	for _, c := range ch {
		o := "nil"
		if c.Old != nil {
			o = fmt.Sprintf("%.8s/%d", c.Old.GetHash(), c.Old.GetOrigin())
		}
		ls = append(ls, fmt.Sprintf("  chg %T %.8s/%d old=%s", c.New, c.New.GetHash(), c.New.GetOrigin(), o))
	}
	for _, d := range del {
		ls = append(ls, fmt.Sprintf("  del %T %.8s/%d", d, d.GetHash(), d.GetOrigin()))
	}
	sort.Strings(ls)
	fmt.Fprintf(os.Stderr, "%s root=%.8x start=%.8x\n", tag, m.GetRoot(), start)
	for _, l := range ls {
		fmt.Fprintln(os.Stderr, l)
	}
}

func debugChurn(w *ledger.World, r *ledger.Runner, in churnInput) {
	if os.Getenv("VERIF_DEBUG_CHURN") == "" {
		return
	}
	dumpCC("BLOCK before", r.BC.State)
	sc := w.StateContextOn(r.BC)
	for _, op := range in.Ops {
		key := churnKey(op.K)
		switch op.Op {
		case 0:
			sc.InsertTrieNode(key, &churnVal{B: churnBytes(op.K, op.V)})
		case 1:
			var cur churnVal
			if err := sc.GetTrieNode(key, &cur); err == nil {
				sc.DeleteTrieNode(key)
			}
		}
		dumpCC(fmt.Sprintf("SCRATCH after op %+v", op), sc.GetState())
	}
}

var profFile *os.File

func profStart() {
	if fn := os.Getenv("VERIF_PROF"); fn != "" && profFile == nil {
		profFile, _ = os.Create(fn)
		pprof.StartCPUProfile(profFile)
	}
}

func profStop() {
	if profFile != nil {
		pprof.StopCPUProfile()
		profFile.Close()
		profFile = nil
	}
}
