package prune

import (
	"fmt"
	"os"
	"syscall"
	"sort"

	"github.com/0chain/common/core/util"

	"verif/worlds/ledger"
)

func dumpCC(tag string, m util.MerklePatriciaTrieI) {
	_, ch, del, start := m.GetChanges()
	var ls []string
	for _, c := range ch {
		o := "nil"
		if c.Old != nil {
			o = fmt.Sprintf("%.8s/%d", c.Old.GetHash(), c.Old.GetOrigin())
		}
		ls = append(ls, fmt.Sprintf("  chg %T %.8s/%d old=%s", c.New, c.New.GetHash(), c.New.GetOrigin(), o))
	}
	for _, d := range del {
		ls = append(ls, fmt.Sprintf("  del %T %.8s/%d", d, d.GetHash(), d.GetOrigin()))
	}
	sort.Strings(ls)
	fmt.Fprintf(os.Stderr, "%s root=%.8x start=%.8x\n", tag, m.GetRoot(), start)
	for _, l := range ls {
		fmt.Fprintln(os.Stderr, l)
	}
}

func debugChurn(w *ledger.World, r *ledger.Runner, in churnInput) {
	if os.Getenv("VERIF_DEBUG_CHURN") == "" {
		return
	}
	dumpCC("BLOCK before", r.BC.State)
	sc := w.StateContextOn(r.BC)
	for _, op := range in.Ops {
		key := churnKey(op.K)
		switch op.Op {
		case 0:
			sc.InsertTrieNode(key, &churnVal{B: churnBytes(op.K, op.V)})
		case 1:
			var cur churnVal
			if err := sc.GetTrieNode(key, &cur); err == nil {
				sc.DeleteTrieNode(key)
			}
		}
		dumpCC(fmt.Sprintf("SCRATCH after op %+v", op), sc.GetState())
	}
}

// real (not bubble) time accounting for development
var sect = map[string]int64{}

func realNow() int64 {
	var tv syscall.Timeval
	syscall.Gettimeofday(&tv)
	return tv.Sec*1e6 + int64(tv.Usec)
}

func timeSect(name string) func() {
	if os.Getenv("VERIF_PROF") == "" {
		return func() {}
	}
	t := realNow()
	return func() { sect[name] += realNow() - t }
}

func profStart() {}

func profStop() {
	if os.Getenv("VERIF_PROF") == "" {
		return
	}
	var ks []string
	for k := range sect {
		ks = append(ks, k)
	}
	sort.Strings(ks)
	for _, k := range ks {
		fmt.Fprintf(os.Stderr, "SECT %-20s %8.1f ms\n", k, float64(sect[k])/1000)
	}
}
