package prune

import (
	"encoding/hex"
	"fmt"
	"os"
	"sort"
	"syscall"

	"github.com/0chain/common/core/util"

	"verif/worlds/ledger"
)

func dumpCC(tag string, m util.MerklePatriciaTrieI) {
	_, ch, del, start := m.GetChanges()
	var ls []string
	for _, c := range ch {
		o := "nil"
		if c.Old != nil {
			o = fmt.Sprintf("%.8s/%d", c.Old.GetHash(), c.Old.GetOrigin())
		}
		ls = append(ls, fmt.Sprintf("  chg %T %.8s/%d old=%s", c.New, c.New.GetHash(), c.New.GetOrigin(), o))
	}
	for _, d := range del {
		ls = append(ls, fmt.Sprintf("  del %T %.8s/%d", d, d.GetHash(), d.GetOrigin()))
	}
	sort.Strings(ls)
	fmt.Fprintf(os.Stderr, "%s root=%.8x start=%.8x\n", tag, m.GetRoot(), start)
	for _, l := range ls {
		fmt.Fprintln(os.Stderr, l)
	}
}

func debugChurn(w *ledger.World, r *ledger.Runner, in churnInput) {
	if os.Getenv("VERIF_DEBUG_CHURN") == "" {
		return
	}
	dumpCC("BLOCK before", r.BC.State)
	sc := w.StateContextOn(r.BC)
	for _, op := range in.Ops {
		key := churnKey(op.K)
		switch op.Op {
		case 0:
			sc.InsertTrieNode(key, &churnVal{B: churnBytes(op.K, op.V)})
		case 1:
			var cur churnVal
			if err := sc.GetTrieNode(key, &cur); err == nil {
				sc.DeleteTrieNode(key)
			}
		}
		dumpCC(fmt.Sprintf("SCRATCH after op %+v", op), sc.GetState())
	}
}

// real (not bubble) time accounting for development
var sect = map[string]int64{}

func realNow() int64 {
	var tv syscall.Timeval
	syscall.Gettimeofday(&tv)
	return tv.Sec*1e6 + int64(tv.Usec)
}

func timeSect(name string) func() {
	if os.Getenv("VERIF_PROF") == "" {
		return func() {}
	}
	t := realNow()
	return func() { sect[name] += realNow() - t }
}

func profStart() {}

func profStop() {
	if os.Getenv("VERIF_PROF") == "" {
		return
	}
	var ks []string
	for k := range sect {
		ks = append(ks, k)
	}
	sort.Strings(ks)
	for _, k := range ks {
		fmt.Fprintf(os.Stderr, "SECT %-20s %8.1f ms\n", k, float64(sect[k])/1000)
	}
}

var watchState = map[string]bool{}

// watch reports (stderr) when a node key appears on / disappears from the follower's disk.
func (f *follower) watch(where string) {
	hx := os.Getenv("VERIF_WATCH")
	if hx == "" {
		return
	}
	key, err := hex.DecodeString(hx)
	if err != nil {
		return
	}
	for r, set := range deadRecordSets(f.rp.Disk) {
		if set[hx] && !watchState[fmt.Sprintf("%s@%d", hx, r)] {
			watchState[fmt.Sprintf("%s@%d", hx, r)] = true
			fmt.Fprintf(os.Stderr, "WATCH %s listed in dead record %d at %s (event %d)\n", hx[:12], r, where, f.tr.N())
		}
	}
	_, on := f.rp.Disk.Snapshot("default")[string(key)]
	if on != watchState[hx] {
		watchState[hx] = on
		fmt.Fprintf(os.Stderr, "WATCH %s present=%v at %s (event %d)\n", hx[:12], on, where, f.tr.N())
	}
}
