package prune

import (
	"bytes"
	"context"
	"encoding/json"
	"fmt"
	"net/url"
	"verif/sim"
	"verif/worlds/ledger"

	cstate "0chain.net/chaincore/chain/state"
	"0chain.net/chaincore/smartcontract"
	"0chain.net/chaincore/transaction"
	"0chain.net/core/encryption"
)

// The churn contract is sim-owned (like the sim-owned clients): a registered
// smart contract whose only function inserts, deletes and re-inserts values
// under fixed keys through the shipped StateContext (InsertTrieNode /
// DeleteTrieNode). Its transactions are ordinary contract transactions: they go
// through Chain.UpdateState on the generator and through Block.ComputeState on
// every replica, and their changes are merged into the block state like any
// other transaction's. Identical values under the same key inserted in the
// same round give identical node hashes (the hash covers the origin round),
// which is the dangerous case for dead-node recording.

var churnAddr = encryption.Hash("verif-sim-churn-contract")

type churnVal struct{ B []byte }

func (v *churnVal) MarshalMsg(b []byte) ([]byte, error) { return append(b, v.B...), nil }
func (v *churnVal) UnmarshalMsg(b []byte) ([]byte, error) {
	v.B = append([]byte(nil), b...)
	return nil, nil
}

func churnKey(k int) string { return fmt.Sprintf("%s:churn:%d", churnAddr, k) }

func churnBytes(k, v int) []byte {
	n := []int{8, 40, 150, 9, 600}[((v%5)+5)%5]
	return bytes.Repeat([]byte{byte('a' + (v % 23)), byte('0' + (k % 10))}, n)
}

type churnOp struct {
	Op int `json:"o"` // 0 insert, 1 delete
	K  int `json:"k"`
	V  int `json:"v"`
}

type churnInput struct {
	Ops []churnOp `json:"ops"`
}

type churnSC struct{}

func (churnSC) Execute(t *transaction.Transaction, fn string, input []byte, balances cstate.StateContextI) (string, error) {
	if fn != "churn" {
		return "", fmt.Errorf("churn contract: unknown function %q", fn)
	}
	var in churnInput
	if err := json.Unmarshal(input, &in); err != nil {
		return "", err
	}
	for _, op := range in.Ops {
		key := churnKey(op.K)
		switch op.Op {
		case 0:
			if _, err := balances.InsertTrieNode(key, &churnVal{B: churnBytes(op.K, op.V)}); err != nil {
				return "", err
			}
		case 1:
			var cur churnVal
			if err := balances.GetTrieNode(key, &cur); err == nil {
				if _, err := balances.DeleteTrieNode(key); err != nil {
					return "", err
				}
			}
		}
	}
	return "churned", nil
}

func (churnSC) GetHandlerStats(ctx context.Context, params url.Values) (interface{}, error) {
	return "", nil
}
func (churnSC) GetExecutionStats() map[string]interface{} { return map[string]interface{}{} }
func (churnSC) GetName() string                           { return "simchurn" }
func (churnSC) GetAddress() string                        { return churnAddr }
func (churnSC) GetCostTable(balances cstate.StateContextI) (map[string]int, error) {
	return map[string]int{"churn": 10}, nil
}

func registerChurn() { smartcontract.ContractMap[churnAddr] = churnSC{} }

// The churn workload is also offered to the core oracles and to C28 (mixed
// workloads): key churn interleaved with the base transactions.
func init() {
	ledger.RegisterWorkload(&ledger.Workload{
		Name: "zz_prune_churn",
		GenExtra: func(r *sim.RNG, p *sim.Plan, tier string) {
			nKeys := r.Range(2, 24)
			var out []sim.Step
			for _, st := range p.Steps {
				for r.Intn(100) < 45 {
					out = append(out, genChurnStep(r, nKeys))
				}
				out = append(out, st)
			}
			p.Steps = out
			if p.Cfg["funding"] < 1e10 {
				p.Cfg["funding"] = 1e13
			}
		},
		Setup: func(w *ledger.World, r *ledger.Runner) {
			registerChurn()
			m := newChurnModel()
			r.Ops["c27.churn"] = churnOpHandler(w, &m)
		},
	})
}
