package prune

import (
	"bytes"
	"fmt"
	"runtime/debug"
	"sort"

	"0chain.net/chaincore/block"
	"0chain.net/core/datastore"
	"0chain.net/core/encryption"
	"github.com/0chain/common/core/util"

	"verif/sim"
	"verif/worlds/ledger"
)

// ---- C28: synced state changes reproduce the computed state ---------------------------------------
//
// Per assembled block the primary publishes block.NewBlockStateChange(b). The
// message travels through the shipped codec (datastore.ToJSON/FromJSON or
// ToMsgpack/FromMsgpack: a fresh StateChange entity on the receiver,
// ComputeProperties as the receiver runs it) over a simulated link that
// delivers it as is or tampered, as the plan says. A lagging replica (own
// chain, own persistent node DB on its own simulated disk) holds the previous
// block and applies the set with the shipped Block.ApplyBlockStateChange on
// its wire copy of the block; afterwards it saves and keeps following,
// alternating between executing and syncing, with restarts from disk.

// delivery modes of a directive
const (
	m28Sync   = 0 // untampered sync
	m28Exec   = 1 // execute instead of syncing
	m28Tamper = 2 // tampered sync first, then catch up (sync or execute)
)

// tamper kinds (symbolic; node indexes are resolved modulo the set at execution)
var kinds28 = []string{
	"drop-node",             // 0 one node removed
	"add-foreign-node",      // 1 a node that does not belong to this change set appended
	"alter-node-bytes",      // 2 one byte of one node's encoding flipped (type byte / origin / body)
	"replace-root",          // 3 declared root replaced
	"wrong-block-hash",      // 4 Block field names another block
	"other-block-set",       // 5 the change set of another block (verbatim or relabelled to this block)
	"duplicate-node",        // 6 one node twice (count mismatch)
	"truncated-list",        // 7 only a prefix of the node list
	"swap-unchanged-node",   // 8 one changed node removed and an unchanged node of the new state added: root, block hash and count all still match
	"truncate-node-bytes",   // 9 one node's encoding cut short
	"alter-version-field",   // 10 the version field of a node encoding (not covered by the node hash): effect-free if accepted
	"live-node-marked-dead", // 11 a node that is live in the new state appended to the dead-node list
}

type dir28 struct {
	mode    int
	kind    int
	codec   int // 0 JSON, 1 msgpack
	a, b    int64
	restart bool
	catchup int  // after a rejected tampered set: 0 sync untampered, 1 execute
	noSave  bool // do not persist this block yet: the next block is stacked on a block that lives in memory only
}

type sent28 struct {
	b   *block.Block
	bsc *block.StateChange // nil when the block did not change the state
}

type oracle28 struct {
	rp      *ledger.Replica
	dir     dir28
	hasDir  bool
	hist    []sent28
	nblk    int
	lost    bool // the replica could not follow any more (after a reported violation)
	lastSet map[string]struct{}
	unsaved []*block.Block // accepted blocks not persisted yet (oldest first)
	deferOK bool           // the directive of the block in hand asks to postpone its save
}

func (o *oracle28) AfterTxn(w *ledger.World, bc *ledger.BlockCtx, out *ledger.Outcome) {}

// rawNode lets the sender put arbitrary bytes on the wire for one node.
type rawNode struct {
	util.Node
	raw []byte
}

func (r rawNode) Encode() []byte { return r.raw }

func cloneBSC(s *block.StateChange) *block.StateChange {
	c := datastore.GetEntityMetadata("block_state_change").Instance().(*block.StateChange)
	c.Block = s.Block
	c.Hash = append(util.Key(nil), s.Hash...)
	c.Version = s.Version
	c.StartRoot = append(util.Key(nil), s.StartRoot...)
	c.Nodes = append([]util.Node(nil), s.Nodes...)
	c.DeadNodes = append([]util.Node(nil), s.DeadNodes...)
	return c
}

// transmit encodes with the shipped codec and decodes into a fresh entity the
// way node.getEntity does (FromJSON / FromMsgpack run ComputeProperties).
func transmit(msg *block.StateChange, codec int) (got *block.StateChange, err error, pnc string) {
	defer func() {
		if r := recover(); r != nil {
			pnc = fmt.Sprintf("%v\n%s", r, debug.Stack())
		}
	}()
	e := datastore.GetEntityMetadata("block_state_change").Instance().(*block.StateChange)
	if codec == 1 {
		buf := datastore.ToMsgpack(msg)
		err = datastore.FromMsgpack(buf.Bytes(), e)
	} else {
		buf := datastore.ToJSON(msg)
		err = datastore.FromJSON(buf.Bytes(), e)
	}
	if err != nil {
		return nil, err, ""
	}
	return e, nil, ""
}

func apply28(nb *block.Block, bsc *block.StateChange, rp *ledger.Replica) (err error, pnc string) {
	defer func() {
		if r := recover(); r != nil {
			pnc = fmt.Sprintf("%v\n%s", r, debug.Stack())
		}
	}()
	return nb.ApplyBlockStateChange(bsc, rp.C), ""
}

// tamper builds the tampered message for the directive. It returns nil when
// the kind does not apply to this set (e.g. nothing to drop).
func (o *oracle28) tamper(w *ledger.World, cur sent28, d dir28) (*block.StateChange, string) {
	t := cloneBSC(cur.bsc)
	// the published node list comes in map-iteration order: symbolic node indexes refer to the list sorted by hash
	sort.Slice(t.Nodes, func(i, j int) bool { return t.Nodes[i].GetHash() < t.Nodes[j].GetHash() })
	n := len(t.Nodes)
	idx := func(x int64) int {
		if x < 0 {
			x = -x
		}
		return int(x % int64(n))
	}
	others := func() []sent28 {
		var out []sent28
		for _, h := range o.hist {
			if h.bsc != nil && h.b.Hash != cur.b.Hash {
				out = append(out, h)
			}
		}
		return out
	}
	kind := kinds28[d.kind%len(kinds28)]
	switch kind {
	case "drop-node":
		i := idx(d.a)
		t.Nodes = append(t.Nodes[:i:i], t.Nodes[i+1:]...)
		if len(t.Nodes) == 0 {
			return nil, kind
		}
	case "add-foreign-node":
		// a node of another block's change set that is not part of the new state, else a made-up leaf
		var foreign util.Node
		if os := others(); len(os) > 0 {
			h := os[idx64(d.a, len(os))]
			cand := h.bsc.Nodes[idx64(d.b, len(h.bsc.Nodes))]
			if _, live := o.lastSet[string(cand.GetHashBytes())]; !live {
				foreign = cand
			}
		}
		if foreign == nil {
			foreign = util.NewLeafNode(util.Path("0"), util.Path("123456"), util.Sequence(cur.b.Round), &util.SecureSerializableValue{Buffer: []byte("foreign")})
		}
		t.Nodes = append(t.Nodes, foreign)
	case "alter-node-bytes", "alter-version-field":
		i := idx(d.a)
		raw := append([]byte(nil), t.Nodes[i].Encode()...)
		if len(raw) < 18 {
			return nil, kind
		}
		var pos int
		if kind == "alter-version-field" {
			pos = 1 + idx64(d.b, 8)
		} else {
			switch d.b % 3 {
			case 0:
				pos, kind = 0, kind+"/type" // node type byte (the high four bits are ignored by the decoder)
			case 1:
				pos, kind = 9+idx64(d.b/3, 8), kind+"/origin"
			default:
				pos, kind = 17+idx64(d.b/3, len(raw)-17), kind+"/body"
			}
		}
		raw[pos] ^= byte(1 << uint(idx64(d.a/7, 8)))
		t.Nodes[i] = rawNode{Node: t.Nodes[i], raw: raw}
	case "truncate-node-bytes":
		i := idx(d.a)
		raw := append([]byte(nil), t.Nodes[i].Encode()...)
		cut := idx64(d.b, len(raw))
		t.Nodes[i] = rawNode{Node: t.Nodes[i], raw: raw[:cut]}
	case "replace-root":
		switch d.a % 3 {
		case 0:
			t.Hash = append(util.Key(nil), cur.b.PrevBlock.ClientStateHash...)
		case 1:
			t.Hash = encryption.RawHash(fmt.Sprintf("root-%d", d.b))
		default:
			h := append(util.Key(nil), t.Hash...)
			h[idx64(d.b, len(h))] ^= 1
			t.Hash = h
		}
	case "wrong-block-hash":
		if os := others(); len(os) > 0 && d.a%2 == 0 {
			t.Block = os[idx64(d.b, len(os))].b.Hash
		} else {
			t.Block = encryption.Hash(fmt.Sprintf("block-%d", d.b))
		}
	case "other-block-set":
		os := others()
		if len(os) == 0 {
			return nil, kind
		}
		// prefer a set with the same node count (so that only the root tells them apart)
		pick := os[idx64(d.b, len(os))]
		for k := range os {
			c := os[(idx64(d.b, len(os))+k)%len(os)]
			if len(c.bsc.Nodes) == len(cur.bsc.Nodes) {
				pick = c
				break
			}
		}
		t = cloneBSC(pick.bsc)
		if d.a%2 == 0 {
			t.Block = cur.b.Hash // relabelled
			kind += "/relabelled"
		} else {
			kind += "/verbatim"
		}
	case "duplicate-node":
		t.Nodes = append(t.Nodes, t.Nodes[idx(d.a)])
	case "truncated-list":
		if n < 2 {
			return nil, kind
		}
		t.Nodes = t.Nodes[:1+idx64(d.a, n-1)]
	case "swap-unchanged-node", "live-node-marked-dead":
		// an unchanged node of the new state: reachable from the new root, not in the change set
		inSet := map[string]bool{}
		for _, nd := range t.Nodes {
			inSet[string(nd.GetHashBytes())] = true
		}
		var cands []util.Node
		ndb := cur.b.ClientState.GetNodeDB()
		for _, nd := range t.Nodes {
			var kids []util.Key
			switch x := nd.(type) {
			case *util.FullNode:
				for _, c := range x.Children {
					if c != nil {
						kids = append(kids, c)
					}
				}
			case *util.ExtensionNode:
				kids = append(kids, x.NodeKey)
			}
			for _, c := range kids {
				if inSet[string(c)] {
					continue
				}
				if cn, err := ndb.GetNode(c); err == nil {
					cands = append(cands, cn)
				}
			}
		}
		if len(cands) == 0 {
			return nil, kind
		}
		live := cands[idx64(d.b, len(cands))]
		if kind == "live-node-marked-dead" {
			t.DeadNodes = append(t.DeadNodes, live)
			break
		}
		// remove a node that is not on the path to the added one (a leaf of the set when possible)
		drop := -1
		for k := 0; k < n; k++ {
			i := (idx(d.a) + k) % n
			if _, isLeaf := t.Nodes[i].(*util.LeafNode); isLeaf {
				drop = i
				break
			}
		}
		if drop < 0 {
			return nil, kind
		}
		t.Nodes[drop] = live
	}
	return t, kind
}

// sameContent reports whether a received message carries exactly the published
// content: same block, root, node set (by hash, with multiplicity) and dead-node
// set. Encodings are malleable in places the node hash does not cover (version
// field, high bits of the type byte, letter case of the child hashes of a full
// node); such an alteration is no tampering in the sense of the statement.
func sameContent(got, pub *block.StateChange) bool {
	if got.Block != pub.Block || !bytes.Equal(got.Hash, pub.Hash) || len(got.Nodes) != len(pub.Nodes) {
		return false
	}
	ms := func(ns []util.Node) map[string]int {
		m := map[string]int{}
		for _, n := range ns {
			if n != nil {
				m[n.GetHash()]++
			}
		}
		return m
	}
	eq := func(a, b map[string]int) bool {
		if len(a) != len(b) {
			return false
		}
		for k, v := range a {
			if b[k] != v {
				return false
			}
		}
		return true
	}
	return eq(ms(got.Nodes), ms(pub.Nodes)) && eq(ms(got.DeadNodes), ms(pub.DeadNodes))
}

func idx64(x int64, n int) int {
	if n <= 0 {
		return 0
	}
	if x < 0 {
		x = -x
	}
	return int(x % int64(n))
}

func (o *oracle28) viol(w *ledger.World, oracle, sig, detail string) {
	w.Tr.Violate(&sim.Violation{Prop: "C28", Oracle: oracle, Sig: sig, Detail: detail})
}

// catchUp lets the replica obtain the block after all (or at all).
func (o *oracle28) AfterBlock(w *ledger.World, bc *ledger.BlockCtx) {
	if o.lost {
		return
	}
	b := bc.B
	tr := w.Tr
	o.nblk++
	d := o.dir
	if !o.hasDir {
		d = dir28{mode: m28Sync, codec: int(b.Round % 2)}
	}
	o.hasDir = false

	// model: the primary's full state of this block
	want, err := ledger.Leaves(bc.State.GetNodeDB(), b.ClientStateHash)
	if err != nil {
		panic(fmt.Sprintf("primary state of block %d unreadable: %v", b.Round, err))
	}
	cur := sent28{b: b}
	changed := !bytes.Equal(b.ClientStateHash, b.PrevBlock.ClientStateHash)
	if changed {
		bsc, err := block.NewBlockStateChange(b)
		if err != nil {
			o.viol(w, "publish", "C28/primary-cannot-publish-its-change-set", fmt.Sprintf("NewBlockStateChange(block %d): %v%s", b.Round, err, orphans(b)))
			tr.Event("c28 round=%d primary cannot publish", b.Round)
		} else {
			cur.bsc = bsc
		}
	}
	defer func() { o.hist = append(o.hist, cur) }()

	// restart of the replica from its disk
	head := o.rp.Blocks[b.PrevHash]
	if head == nil {
		panic("replica lost its head")
	}
	o.deferOK = d.noSave
	if d.restart && head.Round > 0 && !o.flush(w) {
		return
	}
	if d.restart && head.Round > 0 {
		if err := o.rp.Restart(head); err != nil {
			o.viol(w, "restart", "C28/replica-cannot-restart-from-disk", err.Error())
			o.lost = true
			return
		}
		tr.Fault("replica_restart_from_disk")
		head = o.rp.Blocks[b.PrevHash]
	}

	mode := d.mode
	if changed && cur.bsc == nil {
		mode = m28Exec // nothing to sync from: the replica has to execute the block
	}
	if !changed && mode != m28Exec {
		// nothing is published for a block that leaves the state as it is: the shipped
		// GetBlockStateChange derives the state from the previous block without any request
		nb, err := ledger.WireCopy(b)
		if err != nil {
			panic(err)
		}
		nb.SetPreviousBlock(head)
		if err := o.rp.C.GetBlockStateChange(nb); err != nil {
			o.viol(w, "sync", "C28/unchanged-state-block-not-synced", fmt.Sprintf("block %d: %v", b.Round, err))
			o.lost = true
			return
		}
		tr.Probe("block-without-state-change")
		tr.Event("c28 round=%d unchanged-state status=%d", b.Round, nb.GetStateStatus())
		o.accepted(w, b, nb, want, "unchanged")
		return
	}

	if mode == m28Tamper {
		o.tampered(w, cur, d, head)
		if o.lost {
			return
		}
		if d.catchup == 1 {
			mode = m28Exec
		} else {
			mode = m28Sync
		}
	}

	switch mode {
	case m28Exec:
		nb, res := o.rp.Execute(b, false)
		tr.Event("c28 round=%d exec err=%q root=%.12s", b.Round, res.Err, res.Root)
		if res.Err != "" || nb == nil {
			// C06 territory (re-execution differs); the replica cannot follow
			tr.Probe("replica-execution-failed")
			o.lost = true
			return
		}
		tr.Probe("executed")
		o.accepted(w, b, nb, want, "executed")
	default:
		nb, err := ledger.WireCopy(b)
		if err != nil {
			panic(err)
		}
		nb.SetPreviousBlock(head)
		got, derr, pnc := transmit(cur.bsc, d.codec)
		if pnc != "" {
			o.viol(w, "sync", "C28/untampered-panics", fmt.Sprintf("block %d: decoding the published change set panicked: %s", b.Round, pnc))
			o.lost = true
			return
		}
		if derr != nil {
			o.viol(w, "sync", "C28/untampered-rejected/decode", fmt.Sprintf("block %d codec %d: %v", b.Round, d.codec, derr))
			o.lost = true
			return
		}
		aerr, pnc := apply28(nb, got, o.rp)
		if pnc != "" {
			o.viol(w, "sync", "C28/untampered-panics", fmt.Sprintf("block %d: ApplyBlockStateChange panicked: %s", b.Round, pnc))
			o.lost = true
			return
		}
		if aerr != nil {
			o.viol(w, "sync", "C28/untampered-rejected/apply", fmt.Sprintf("block %d codec %d: %v", b.Round, d.codec, aerr))
			o.lost = true
			return
		}
		tr.Event("c28 round=%d sync codec=%d nodes=%d dead=%d status=%d", b.Round, d.codec, len(got.Nodes), len(got.DeadNodes), nb.GetStateStatus())
		tr.Probe("synced-untampered")
		tr.Outcome(fmt.Sprintf("sync/accepted/codec%d", d.codec))
		if nb.GetStateStatus() != block.StateSynched || nb.ClientState == nil {
			o.viol(w, "sync", "C28/accepted-but-state-not-set", fmt.Sprintf("block %d: ApplyBlockStateChange returned nil, state status %d", b.Round, nb.GetStateStatus()))
			o.lost = true
			return
		}
		o.accepted(w, b, nb, want, "synced")
	}
}

// accepted checks the replica's state of the block against the primary's and
// lets the replica keep following (save, register).
func (o *oracle28) accepted(w *ledger.World, b, nb *block.Block, want map[string][]byte, how string) {
	tr := w.Tr
	if nb.ClientState == nil || !bytes.Equal(nb.ClientState.GetRoot(), b.ClientStateHash) || !bytes.Equal(nb.ClientStateHash, b.ClientStateHash) {
		var r util.Key
		if nb.ClientState != nil {
			r = nb.ClientState.GetRoot()
		}
		o.viol(w, "root", "C28/synced-root-differs/"+how, fmt.Sprintf("block %d: declared root %x, replica root %x", b.Round, b.ClientStateHash, r))
		o.lost = true
		return
	}
	// the replica's view before saving (memory layers over its disk)
	got, err := ledger.Leaves(nb.ClientState.GetNodeDB(), nb.ClientState.GetRoot())
	if err != nil {
		o.viol(w, "full-state", "C28/synced-state-differs/"+how, fmt.Sprintf("block %d: replica state unreadable: %v", b.Round, err))
		o.lost = true
		return
	}
	if d := diffLeaves(want, got); d != "" {
		o.viol(w, "full-state", "C28/synced-state-differs/"+how, fmt.Sprintf("block %d: %s", b.Round, d))
		o.lost = true
		return
	}
	// nodes the replica would record as dead at finalisation must not be live in this state
	live, err := reach(nb.ClientState.GetNodeDB(), nb.ClientState.GetRoot())
	if err == nil {
		for _, dn := range nb.ClientState.GetDeletes() {
			if _, ok := live[string(dn.GetHashBytes())]; ok {
				o.viol(w, "dead-nodes", "C28/dead-node-is-live/"+how, fmt.Sprintf("block %d: node %s is listed dead by the replica's state but is reachable from the block's root", b.Round, dn.GetHash()))
				break
			}
		}
		o.lastSet = live
	}
	o.rp.Blocks[nb.Hash] = nb
	o.rp.C.AddBlock(nb)
	if o.deferOK && len(o.unsaved) < 3 {
		// keep it in memory: the next block is synced / executed on top of an unpersisted block
		o.unsaved = append(o.unsaved, nb)
		tr.Probe("save-postponed/" + how)
		tr.Probe("full-state-equal/" + how)
		return
	}
	// save (older postponed blocks first) and read everything back from the persistent node DB alone
	if len(o.unsaved) > 0 {
		tr.Probe("stacked-on-unsaved-block/" + how)
	}
	o.unsaved = append(o.unsaved, nb)
	if !o.flush(w) {
		return
	}
	disk, err := ledger.Leaves(o.rp.C.GetStateDB(), b.ClientStateHash)
	if err != nil {
		o.viol(w, "full-state", "C28/synced-state-differs/"+how+"/persisted", fmt.Sprintf("block %d: state unreadable from the replica's disk after saving: %v", b.Round, err))
		o.lost = true
		return
	}
	if d := diffLeaves(want, disk); d != "" {
		o.viol(w, "full-state", "C28/synced-state-differs/"+how+"/persisted", fmt.Sprintf("block %d: %s", b.Round, d))
		o.lost = true
		return
	}
	tr.Probe("full-state-equal/" + how)
	tr.State(fmt.Sprintf("%s:%x", how, short(b.ClientStateHash)))
}

// flush persists the postponed blocks, oldest first.
func (o *oracle28) flush(w *ledger.World) bool {
	for _, ub := range o.unsaved {
		if err := o.rp.Save(ub); err != nil {
			o.viol(w, "save", "C28/replica-cannot-save", fmt.Sprintf("block %d: %v", ub.Round, err))
			o.lost = true
			return false
		}
	}
	o.unsaved = nil
	return true
}

// tampered delivers a tampered set and demands rejection without any trace.
func (o *oracle28) tampered(w *ledger.World, cur sent28, d dir28, head *block.Block) {
	tr := w.Tr
	b := cur.b
	msg, kind := o.tamper(w, cur, d)
	if msg == nil {
		tr.Outcome("tamper/not-applicable/" + kind)
		return
	}
	nb, err := ledger.WireCopy(b)
	if err != nil {
		panic(err)
	}
	nb.SetPreviousBlock(head)
	digest, writes := o.rp.Disk.Digest(), o.rp.Disk.Writes()
	status := nb.GetStateStatus()
	headRoot := append(util.Key(nil), head.ClientState.GetRoot()...)
	tr.Fault("tamper/" + kind)

	stage := "decode"
	got, derr, pnc := transmit(msg, d.codec)
	var aerr error
	if pnc == "" && derr == nil {
		stage = "apply"
		aerr, pnc = apply28(nb, got, o.rp)
	}
	if pnc != "" {
		tr.Event("c28 round=%d tamper=%s codec=%d -> panic at %s", b.Round, kind, d.codec, stage)
		o.viol(w, "tamper", "C28/tampered-panics/"+kind, fmt.Sprintf("block %d: receiver panicked at %s: %s", b.Round, stage, pnc))
		// a panic is a crash of the receiving process: its memory is gone, its disk must be intact
	}
	rejected := pnc != "" || derr != nil || aerr != nil
	tr.Event("c28 round=%d tamper=%s codec=%d -> rejected=%v stage=%s", b.Round, kind, d.codec, rejected, stage)
	if rejected {
		tr.Outcome("tamper/rejected/" + stage)
		if o.rp.Disk.Digest() != digest || o.rp.Disk.Writes() != writes {
			o.viol(w, "untouched", "C28/rejected-set-touched-disk/"+kind, fmt.Sprintf("block %d: disk writes %d -> %d", b.Round, writes, o.rp.Disk.Writes()))
		}
		if nb.GetStateStatus() != status || nb.ClientState != nil || !bytes.Equal(nb.ClientStateHash, b.ClientStateHash) {
			o.viol(w, "untouched", "C28/rejected-set-touched-block-state/"+kind, fmt.Sprintf("block %d: state status %d -> %d, client state set: %v", b.Round, status, nb.GetStateStatus(), nb.ClientState != nil))
		}
		if !bytes.Equal(head.ClientState.GetRoot(), headRoot) {
			o.viol(w, "untouched", "C28/rejected-set-touched-previous-state/"+kind, fmt.Sprintf("block %d", b.Round))
		}
		tr.Probe("tampered-rejected-untouched")
		return
	}
	// accepted
	tr.Outcome("tamper/accepted")
	if sameContent(got, cur.bsc) {
		// the alteration hit bytes the node hashes do not cover (and the decoder normalises): the
		// set is the published one; it must then give exactly the published state
		tr.Probe("encoding-malleability-accepted")
		want, _ := ledger.Leaves(b.ClientState.GetNodeDB(), b.ClientStateHash)
		gotL, err := ledger.Leaves(nb.ClientState.GetNodeDB(), nb.ClientState.GetRoot())
		if err != nil || diffLeaves(want, gotL) != "" || !bytes.Equal(nb.ClientState.GetRoot(), b.ClientStateHash) {
			o.viol(w, "tamper", "C28/tampered-accepted/"+kind, fmt.Sprintf("block %d: accepted and the state differs (%v)", b.Round, err))
		}
		return
	}
	detail := fmt.Sprintf("block %d (%d nodes, count %d): tampered change set (%s, codec %d) accepted", b.Round, len(cur.bsc.Nodes), b.StateChangesCount, kind, d.codec)
	if nb.ClientState != nil {
		if _, err := ledger.Leaves(nb.ClientState.GetNodeDB(), nb.ClientState.GetRoot()); err != nil {
			detail += "; resulting state unreadable: " + err.Error()
		} else {
			detail += "; resulting state complete"
		}
		live, err := reach(nb.ClientState.GetNodeDB(), nb.ClientState.GetRoot())
		if err == nil {
			for _, dn := range nb.ClientState.GetDeletes() {
				if _, ok := live[string(dn.GetHashBytes())]; ok {
					detail += fmt.Sprintf("; node %.16s would be recorded dead at finalisation although it is live", dn.GetHash())
					break
				}
			}
		}
	}
	o.viol(w, "tamper", "C28/tampered-accepted/"+kind, detail)
}

func gen28(sc ledger.Scenario) func(seed uint64, tier string) *sim.Plan {
	return func(seed uint64, tier string) *sim.Plan {
		p := sc.Gen(seed, tier)
		net := sim.NewRNG(seed).Child("net")
		tam := sim.NewRNG(seed).Child("tamper")
		mk := func() sim.Step {
			mode := []int{m28Sync, m28Exec, m28Tamper}[net.Pick([]int{4, 2, 5})]
			return sim.Step{Op: "c28.dir", I: []int64{
				int64(mode), int64(tam.Intn(len(kinds28))), int64(net.Intn(2)),
				int64(tam.Intn(1 << 20)), int64(tam.Intn(1 << 20)),
				int64(net.Pick([]int{6, 1})), int64(net.Intn(2)), int64(net.Pick([]int{3, 1})),
			}}
		}
		var out []sim.Step
		for _, st := range p.Steps {
			if st.Op == "block" || net.Intn(12) == 0 {
				out = append(out, mk())
			}
			out = append(out, st)
		}
		out = append(out, mk())
		p.Steps = out
		return p
	}
}

func init() {
	sc := ledger.Scenario{Prop: "C28", Weights: map[string]int{"send": 8, "call": 10, "pour": 4, "data": 1, "replay": 1, "block": 7, "clock": 1}, Lo: 20, Hi: 90, Mixed: true}
	sc.Setup = func(w *ledger.World, r *ledger.Runner) []ledger.Observer {
		r.SaveAll = true
		if _, ok := r.Ops["c27.churn"]; !ok {
			// replays of churn findings stay executable whatever workload index the linked binary maps to
			registerChurn()
			m := newChurnModel()
			r.Ops["c27.churn"] = churnOpHandler(w, &m)
		}
		o := &oracle28{rp: w.NewReplica("lag")}
		r.Ops["c28.dir"] = func(r *ledger.Runner, st sim.Step) {
			o.dir = dir28{mode: int(st.Int(0, 0)) % 3, kind: int(st.Int(1, 0)), codec: int(st.Int(2, 0)) % 2, a: st.Int(3, 0), b: st.Int(4, 0), restart: st.Int(5, 0) != 0, catchup: int(st.Int(6, 0)) % 2, noSave: st.Int(7, 0) != 0}
			o.hasDir = true
		}
		return []ledger.Observer{o}
	}
	sim.Register(&sim.Check{
		ID: "C28", Title: "Synced state changes reproduce the computed state", World: "ledger",
		Gen: gen28(sc), Exec: sc.Exec,
		Quick: sim.Budget{Runs: 200, WallS: 80}, Thorough: sim.Budget{Runs: 8000, WallS: 1200},
		LevelText: "per assembled block (mixed ledger workloads, all contracts) the primary publishes block.NewBlockStateChange; the message goes through the shipped codec (datastore.ToJSON/FromJSON or ToMsgpack/FromMsgpack into a fresh StateChange, ComputeProperties as the receiver runs it) over a simulated link that delivers it as published or tampered (12 kinds chosen up front in the plan: node dropped, foreign node added, node bytes altered/truncated, root replaced, wrong block hash, another block's set verbatim or relabelled, duplicate node, truncated list, changed node swapped for an unchanged one with root/hash/count all matching, version field altered, live node added to the dead list); a lagging replica chain (own PNodeDB on its own simulated disk) applies it with the shipped Block.ApplyBlockStateChange on its wire copy of the block, saves, and keeps following, alternating between syncing and executing, sometimes stacking up to three blocks in memory before persisting them, with restarts from disk. Untampered: must be accepted, root == declared root == executed root, and the full state walked from the replica (memory view and disk-only view) equals the primary's. Tampered: must be rejected and the replica's disk (content digest and write counter), the block's state status and the previous state are unchanged",
		LevelNote: "the StateChange request handler closure of chain.getBlockStateChange (same three comparisons as ApplyBlockStateChange) is not reachable without the HTTP layer and is not run; blocks that leave the state unchanged go through the shipped Chain.GetBlockStateChange (no message). Nodes the replica's synced state lists as dead are checked against the block's live node set (what finalisation would record for pruning). The MPT, MemoryNodeDB.ComputeRoot/validate and node decoding live in github.com/0chain/common (outside /repo); the checks of ApplyBlockStateChange, PartialState.ComputeProperties and the codec of the entity are in /repo",
		Technique: "deterministic simulation: byzantine tamper faults on a simulated replica link, full-state equality and disk-untouched oracles",
		DesignRef: "6/C28", Regime: "single-threaded event loop", Components: ledger.W1Components,
	})
}

// orphans describes the nodes of a block's change collector that are not part
// of the block's state (diagnostics for a change set that cannot be published).
func orphans(b *block.Block) string {
	live, err := reach(b.ClientState.GetNodeDB(), b.ClientState.GetRoot())
	if err != nil {
		return "; state unreadable: " + err.Error()
	}
	_, changes, deletes, _ := b.ClientState.GetChanges()
	var out []string
	for _, c := range changes {
		if _, ok := live[string(c.New.GetHashBytes())]; !ok {
			d := fmt.Sprintf("%T %.12s origin %d", c.New, c.New.GetHash(), c.New.GetOrigin())
			if l, ok := c.New.(*util.LeafNode); ok {
				d += fmt.Sprintf(" prefix %s path %s", string(l.Prefix), string(l.Path))
			}
			if c.Old != nil {
				d += fmt.Sprintf(" (old %.12s origin %d)", c.Old.GetHash(), c.Old.GetOrigin())
			}
			out = append(out, d)
		}
	}
	sort.Strings(out)
	return fmt.Sprintf("; %d changes, %d deletes, change-collector nodes that are not in the block's state: %v", len(changes), len(deletes), out)
}
