// Package prune holds the checks about state synchronisation (C28) and state
// pruning (C27) of the ledger world: a lagging / following replica chain with
// its own persistent node DB on its own simulated disk receives the primary's
// blocks, syncs or executes them, finalises them through the shipped
// finalisation workers, prunes through the shipped prune worker, crashes at
// disk-write boundaries and restarts from its disk.
package prune

import (
	"bytes"
	"fmt"
	"sort"

	"github.com/0chain/common/core/util"

	"verif/worlds/ledger"
)

// reach walks the trie rooted at root through ndb and returns the set of node
// keys (raw hash bytes as string) reachable from it. It fails on a missing node.
func reach(ndb util.NodeDB, root util.Key) (map[string]struct{}, error) {
	out := map[string]struct{}{}
	if len(root) == 0 {
		return out, nil
	}
	var rec func(k util.Key) error
	rec = func(k util.Key) error {
		if _, ok := out[string(k)]; ok {
			return nil
		}
		n, err := ndb.GetNode(k)
		if err != nil {
			return fmt.Errorf("node %x: %w", k, err)
		}
		out[string(k)] = struct{}{}
		switch nd := n.(type) {
		case *util.FullNode:
			for _, c := range nd.Children {
				if c != nil {
					if err := rec(c); err != nil {
						return err
					}
				}
			}
		case *util.ExtensionNode:
			return rec(nd.NodeKey)
		}
		return nil
	}
	return out, rec(root)
}

// diffLeaves describes the first few differences between two leaf maps
// (want = model, got = read back); "" when equal.
func diffLeaves(want, got map[string][]byte) string {
	var d []string
	for _, p := range ledger.SortedKeys(want) {
		g, ok := got[p]
		switch {
		case !ok:
			d = append(d, fmt.Sprintf("leaf %s missing", p))
		case !bytes.Equal(g, want[p]):
			d = append(d, fmt.Sprintf("leaf %s differs", p))
		}
		if len(d) >= 4 {
			break
		}
	}
	if len(d) < 4 {
		for _, p := range ledger.SortedKeys(got) {
			if _, ok := want[p]; !ok {
				d = append(d, fmt.Sprintf("leaf %s unexpected", p))
				if len(d) >= 4 {
					break
				}
			}
		}
	}
	if len(d) == 0 {
		return ""
	}
	sort.Strings(d)
	return fmt.Sprintf("%d vs %d leaves: %v", len(want), len(got), d)
}

func short(b []byte) []byte {
	if len(b) > 6 {
		return b[:6]
	}
	return b
}
