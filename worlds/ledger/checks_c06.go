package ledger

import (
	"fmt"
	"strings"
	"time"

	"0chain.net/smartcontract/dbs/event"

	"verif/sim"
)

// OracleC06 re-executes every assembled block on replicas that differ from the
// generator in exactly one source of nondeterminism at a time (fresh map
// iteration order comes for free with every execution): state cache empty vs
// warm, wall clock later than the generator's, restart from disk in between.
type OracleC06 struct {
	reps  []*c06Replica
	nblk  int
	execs int
}

type c06Replica struct {
	rp      *Replica
	variant string
	cold    bool
	skew    time.Duration
	restart int // restart from disk before every n-th block (0 = never)
	last    string
}

var c06Skews = []time.Duration{0, time.Second, time.Hour, 400 * 24 * time.Hour}

func NewOracleC06(w *World, p *sim.Plan) *OracleC06 {
	o := &OracleC06{}
	n := int(p.CfgInt("c06_replicas", 2))
	for i := 0; i < n; i++ {
		r := &c06Replica{rp: w.NewReplica(fmt.Sprintf("r%d", i))}
		switch i % 3 {
		case 0:
			r.variant, r.cold = "cold-cache", true
		case 1:
			r.variant = "warm-cache+clock"
			r.skew = c06Skews[int(p.CfgInt("c06_skew", 1))%len(c06Skews)]
		case 2:
			r.variant, r.restart, r.cold = "restart-from-disk", int(p.CfgInt("c06_restart", 2)), false
		}
		r.last = w.Genesis.Hash
		o.reps = append(o.reps, r)
	}
	return o
}

func (o *OracleC06) AfterTxn(w *World, bc *BlockCtx, out *Outcome) {}

func (o *OracleC06) AfterBlock(w *World, bc *BlockCtx) {
	o.nblk++
	gen := GeneratorResult(bc)
	w.Tr.Event("gen round=%d root=%s changes=%d status=%v", bc.B.Round, gen.Root[:12], gen.ChangeCount, gen.Status)
	for _, r := range o.reps {
		if r.restart > 0 && o.nblk%r.restart == 0 {
			if head := r.rp.Blocks[bc.B.PrevHash]; head != nil && head.Round > 0 {
				if err := r.rp.Restart(head); err != nil {
					w.Tr.Violate(&sim.Violation{Prop: "C06", Oracle: "restart", Sig: "C06/replica-cannot-restart-from-disk", Detail: err.Error()})
					continue
				}
				w.Tr.Fault("restart_from_disk")
			}
		}
		if r.skew > 0 && w.InBubble {
			time.Sleep(r.skew)
			w.Tr.Fault("clock_skew")
		}
		if r.cold {
			w.Tr.Fault("cold_state_cache")
		}
		nb, res := r.rp.Execute(bc.B, r.cold)
		o.execs++
		w.Tr.Event("exec %s round=%d err=%q root=%.12s changes=%d", r.variant, bc.B.Round, res.Err, res.Root, res.ChangeCount)
		o.compare(w, bc, r.variant, gen, res)
		if nb != nil && res.Err == "" {
			if err := r.rp.Save(nb); err != nil {
				w.Tr.Event("replica save error %v", err)
			}
		}
	}
}

func fnOf(bc *BlockCtx, i int) string {
	k := 0
	for _, o := range bc.Outs {
		if o.Class == Rejected {
			continue
		}
		if k == i {
			if o.Txn.FunctionName != "" {
				return o.Txn.FunctionName
			}
			return fmt.Sprintf("type%d", o.Txn.TransactionType)
		}
		k++
	}
	return "?"
}

func (o *OracleC06) compare(w *World, bc *BlockCtx, variant string, gen, res *ExecResult) {
	viol := func(field, fn, detail string) {
		w.Tr.Violate(&sim.Violation{Prop: "C06", Oracle: "re-execution", Sig: fmt.Sprintf("C06/%s-differs/%s/%s", field, variant, fn), Detail: detail})
	}
	for i := range gen.Status {
		if i >= len(res.Status) {
			break
		}
		if gen.Status[i] != res.Status[i] {
			viol("status", fnOf(bc, i), fmt.Sprintf("txn %d: generator status %d, re-execution %d", i, gen.Status[i], res.Status[i]))
			return
		}
		if gen.Outputs[i] != res.Outputs[i] {
			viol("output", fnOf(bc, i), fmt.Sprintf("txn %d: generator output %.200q, re-execution %.200q", i, gen.Outputs[i], res.Outputs[i]))
			return
		}
		if gen.OutHashes[i] != res.OutHashes[i] {
			viol("output-hash", fnOf(bc, i), fmt.Sprintf("txn %d output hash differs", i))
			return
		}
	}
	if res.Err != "" {
		viol("state-root", "block", fmt.Sprintf("re-execution of block %d failed: %s", bc.B.Round, res.Err))
		return
	}
	if gen.Root != res.Root {
		viol("state-root", "block", fmt.Sprintf("block %d: generator root %s, re-execution %s", bc.B.Round, gen.Root, res.Root))
		return
	}
	if gen.ChangeCount != res.ChangeCount {
		viol("change-count", "block", fmt.Sprintf("block %d: generator %d changes, re-execution %d", bc.B.Round, gen.ChangeCount, res.ChangeCount))
		return
	}
	// events: the verifier adds two statistics events per transaction; the rest must match in order
	var ev []string
	stats1 := fmt.Sprintf("%v/%v/", event.TypeStats, event.TagAddTransactions)
	stats2 := fmt.Sprintf("%v/%v/", event.TypeStats, event.TagUpdateUserPayedFees)
	for _, e := range res.Events {
		if strings.HasPrefix(e, stats1) || strings.HasPrefix(e, stats2) {
			continue
		}
		ev = append(ev, e)
	}
	if len(ev) != len(gen.Events) {
		viol("event-list", "block", fmt.Sprintf("block %d: generator emitted %d events, re-execution %d", bc.B.Round, len(gen.Events), len(ev)))
		return
	}
	for i := range ev {
		if ev[i] != gen.Events[i] {
			viol("event-list", "block", fmt.Sprintf("block %d event %d: %.160s vs %.160s", bc.B.Round, i, gen.Events[i], ev[i]))
			return
		}
	}
	w.Tr.Probe("re-execution-equal")
}

func init() {
	sc := Scenario{Prop: "C06", Weights: map[string]int{"send": 5, "call": 14, "pour": 4, "data": 1, "replay": 1, "block": 6, "clock": 2}, Lo: 20, Hi: 100, Mixed: true, Bubble: true}
	sc.Setup = func(w *World, r *Runner) []Observer {
		r.SaveAll = true
		// A verifier sees the whole block when it executes payFees (the contract sums the fees of
		// b.Txns), the assembler only the transactions so far: as an honest generator does, the fee
		// payment is therefore placed after all other transactions of the block.
		for _, op := range []string{"st.payfees"} {
			if orig, ok := r.Ops[op]; ok {
				r.Ops[op] = func(r *Runner, st sim.Step) {
					r.Deferred = append(r.Deferred, func() { orig(r, st) })
				}
			}
		}
		return []Observer{NewOracleC06(w, r.Plan)}
	}
	gen := func(seed uint64, tier string) *sim.Plan {
		p := sc.Gen(seed, tier)
		sw := sim.NewRNG(seed).Child("c06")
		p.Cfg["c06_replicas"] = int64(sw.Range(2, 3))
		p.Cfg["c06_skew"] = int64(sw.Intn(4))
		p.Cfg["c06_restart"] = int64(sw.Range(1, 3))
		return p
	}
	sim.Register(&sim.Check{
		ID: "C06", Title: "Block execution is deterministic", World: "ledger",
		Gen: gen, Exec: sc.Exec, NondeterminismIsTheProperty: true,
		Quick: sim.Budget{Runs: 160, WallS: 100}, Thorough: sim.Budget{Runs: 6000, WallS: 1500},
		LevelText: "every assembled block is re-executed from its wire form through the shipped Block.ComputeState on 2-3 replica chains (own node DB, own cache) that differ in one source of nondeterminism at a time: empty vs warm state cache, a later wall clock (fake clock of a synctest bubble: +1 s, +1 h, +400 d), restart from the simulated disk in between; state root, change count, statuses, outputs, output hashes and the ordered event list must agree with the generator's execution",
		LevelNote: "map iteration order differs between any two executions for free; goroutine scheduling of the inner GetItemsByIDs workers is covered by running the same seeds at GOMAXPROCS 1/4/16 (./run.sh selftest C06: identical event-log hashes, which include roots, statuses and outputs); node-local chain facts (older LFB/LFMB on a replica) are not varied; user-balance events are not emitted because no event DB is attached in this world",
		Technique: "deterministic simulation: replicated re-execution under cache, clock and restart faults (synctest fake clock), observable-equality oracle",
		DesignRef: "6/C06", Regime: "single-threaded event loop inside a testing/synctest bubble", Components: w1Components,
	})
}
