package storage

import (
	"crypto/sha256"
	"encoding/hex"
	"encoding/json"
	"fmt"
	"math"
	"math/big"
	"strings"

	"0chain.net/chaincore/transaction"
	"0chain.net/core/common"
	"0chain.net/core/encryption"

	"verif/sim"
	"verif/worlds/ledger"
)

func (sw *SW) registerOps() {
	ops := map[string]func(st sim.Step){
		"st.hardfork":       sw.opHardfork,
		"st.settings":       sw.opSettings,
		"st.rounds":         sw.opRounds,
		"st.fund":           sw.opFund,
		"st.add_validator":  sw.opAddValidator,
		"st.add_blobber":    sw.opAddBlobber,
		"st.stake":          sw.opStake,
		"st.unstake":        sw.opUnstake,
		"st.health":         sw.opHealth,
		"st.health_all":     sw.opHealthAll,
		"st.new_alloc":      sw.opNewAlloc,
		"st.update_alloc":   sw.opUpdateAlloc,
		"st.wp_lock":        sw.opWritePoolLock,
		"st.rp_lock":        sw.opReadPoolLock,
		"st.rp_unlock":      sw.opReadPoolUnlock,
		"st.commit":         sw.opCommit,
		"st.gen_chal":       sw.opGenChallenge,
		"st.chal_resp":      sw.opChallengeResponse,
		"st.clock_to":       sw.opClockTo,
		"st.finalize":       sw.opFinalize,
		"st.cancel":         sw.opCancel,
		"st.kill":           sw.opKill,
		"st.update_blobber": sw.opUpdateBlobber,
		"st.read":           sw.opRead,
		"st.add_assigner":   sw.opAddAssigner,
		"st.free_alloc":     sw.opFreeAlloc,
		"st.collect":        sw.opCollect,
	}
	for name, h := range ops {
		h := h
		sw.R.Ops[name] = func(r *ledger.Runner, st sim.Step) { h(st) }
	}
}

func pick64(vals []int64, k int64) int64 { return vals[abs(k)%int64(len(vals))] }

// ---- bootstrap / governance -----------------------------------------------------------------------

// st.hardfork I=[level]: the contract owner records hard forks active from the current round on.
func (sw *SW) opHardfork(st sim.Step) {
	sw.R.EnsureBlock()
	round := sw.R.BC.B.Round
	f := map[string]string{}
	if st.Int(0, 0) >= 1 {
		f["demeter"] = fmt.Sprint(round)
	}
	if st.Int(0, 0) >= 2 {
		f["electra"] = fmt.Sprint(round)
	}
	if len(f) == 0 {
		return
	}
	o := sw.callTo(ledger.AddrMiner, sw.W.OwnerID, "", "add_hardfork", map[string]any{"fields": f}, 0)
	if o.Class == ledger.Success {
		sw.probe(fmt.Sprintf("hardfork_level_%d", st.Int(0, 0)))
	}
}

// st.settings S=[k1,v1,k2,v2,...] A=caller (0 = contract owner, else a stranger client).
func (sw *SW) opSettings(st sim.Step) {
	f := map[string]string{}
	for i := 0; i+1 < len(st.S); i += 2 {
		f[st.S[i]] = st.S[i+1]
	}
	from, pk := sw.W.OwnerID, ""
	if st.A != 0 {
		c := sw.client(int64(st.A))
		from, pk = c.ID, c.PK
		sw.W.Tr.Fault("settings_by_stranger")
	}
	o := sw.call(from, pk, "update_settings", map[string]any{"fields": f}, 0)
	if o.Class == ledger.Success {
		sw.call(from, pk, "commit_settings_changes", map[string]any{}, 0)
	}
}

// st.rounds I=[n]: n empty rounds pass (an older chain: challenge rewards are
// booked per reward period of block_reward.trigger_period rounds, and in the
// very first period of a chain no challenge can be passed).
func (sw *SW) opRounds(st sim.Step) {
	for i := int64(0); i < st.Int(0, 1) && i < 200; i++ {
		sw.R.EnsureBlock()
		sw.R.EndBlock(false)
	}
}

// st.fund A=client I=[kind, idx, amountKind]: plain send to a provider / the stranger.
func (sw *SW) opFund(st sim.Step) {
	from := sw.client(int64(st.A))
	var to string
	switch st.Int(0, 0) % 3 {
	case 0:
		to = sw.blobber(st.Int(1, 0)).ID
	case 1:
		to = sw.validator(st.Int(1, 0)).ID
	default:
		to = sw.Stranger.ID
	}
	sw.R.EnsureBlock()
	amt := pick64([]int64{1e9, 1e10, 1e11}, st.Int(2, 0))
	t := sw.W.MakeTxn(ledger.TxnSpec{From: from.ID, To: to, Type: transaction.TxnTypeSend, Value: amt, Fee: sw.fee(from.ID),
		Nonce: sw.R.ResolveNonce(ledger.NExpected, from.ID)})
	sw.R.Submit(t)
}

func spSettings(a *Actor, charge float64) map[string]any {
	return map[string]any{"delegate_wallet": a.Delegate.ID, "num_delegates": 10, "service_charge": charge}
}

// st.add_validator A=validator index
func (sw *SW) opAddValidator(st sim.Step) {
	v := sw.validator(int64(st.A))
	if v == nil {
		return
	}
	in := map[string]any{"id": v.ID, "url": v.URL, "stake_pool_settings": spSettings(v, 0.1)}
	o := sw.call(v.ID, v.PK, "add_validator", in, 0)
	if o.Class == ledger.Success {
		sw.probeFirst("add_validator")
	}
}

// st.add_blobber A=blobber index I=[capacityKind, writePriceKind, readPriceKind, chargeKind]
func (sw *SW) opAddBlobber(st sim.Step) {
	b := sw.blobber(int64(st.A))
	if b == nil {
		return
	}
	cap := pick64([]int64{10*gb + 1, 20 * gb, 100 * gb, 1024 * gb, 10 * gb}, st.Int(0, 1))
	wp := pick64([]int64{1e7, 1e8, 1e9, 5e9, 1e10}, st.Int(1, 2))
	rp := pick64([]int64{0, 1e7, 1e9, 5e9}, st.Int(2, 0))
	charge := []float64{0, 0.1, 0.3, 0.5}[abs(st.Int(3, 1))%4]
	// kind of blobber: 0..5 public, 6 restricted (owners need its auth ticket), 7 enterprise (after the electra fork)
	restricted, enterprise := abs(st.Int(4, 0))%8 == 6, abs(st.Int(4, 0))%8 == 7
	in := map[string]any{"id": b.ID, "url": b.URL, "capacity": cap, "terms": map[string]any{"read_price": rp, "write_price": wp},
		"stake_pool_settings": spSettings(b, charge), "is_restricted": restricted, "is_enterprise": enterprise}
	o := sw.call(b.ID, b.PK, "add_blobber", in, 0)
	if o.Class == ledger.Success {
		sw.probeFirst("add_blobber")
	}
}

// st.stake A=client I=[providerKind(0 blobber,1 validator), index, amountKind]
func (sw *SW) opStake(st sim.Step) {
	c := sw.client(int64(st.A))
	ptype, id := 3, ""
	if st.Int(0, 0)%2 == 0 {
		id = sw.blobber(st.Int(1, 0)).ID
	} else {
		ptype, id = 4, sw.validator(st.Int(1, 0)).ID
	}
	amt := pick64([]int64{1e9, 1e10, 1e11, 5e11, 1e12, 1e7}, st.Int(2, 2))
	o := sw.call(c.ID, c.PK, "stake_pool_lock", map[string]any{"provider_type": ptype, "provider_id": id}, amt)
	if o.Class == ledger.Success {
		sw.probeFirst("stake_pool_lock")
	}
}

// st.unstake A=client I=[providerKind, index]
func (sw *SW) opUnstake(st sim.Step) {
	c := sw.client(int64(st.A))
	ptype, id := 3, ""
	if st.Int(0, 0)%2 == 0 {
		id = sw.blobber(st.Int(1, 0)).ID
	} else {
		ptype, id = 4, sw.validator(st.Int(1, 0)).ID
	}
	o := sw.call(c.ID, c.PK, "stake_pool_unlock", map[string]any{"provider_type": ptype, "provider_id": id}, 0)
	if o.Class == ledger.Success {
		sw.probeFirst("stake_pool_unlock")
	}
}

// st.health I=[kind, index]
func (sw *SW) opHealth(st sim.Step) {
	if st.Int(0, 0)%2 == 0 {
		b := sw.blobber(st.Int(1, 0))
		sw.call(b.ID, b.PK, "blobber_health_check", map[string]any{}, 0)
	} else {
		v := sw.validator(st.Int(1, 0))
		sw.call(v.ID, v.PK, "validator_health_check", map[string]any{}, 0)
	}
}

// st.health_all: every registered, live provider reports in (providers do this continuously in production).
func (sw *SW) opHealthAll(st sim.Step) {
	vw := sw.view()
	for _, b := range sw.Blobbers {
		if bv, ok := vw.Blobbers[b.ID]; ok && bv.Present && !bv.Dead() {
			sw.call(b.ID, b.PK, "blobber_health_check", map[string]any{}, 0)
		}
	}
	for _, v := range sw.Validators {
		if vv, ok := vw.Validators[v.ID]; ok && vv.Present && !vv.Killed && !vv.ShutDown {
			sw.call(v.ID, v.PK, "validator_health_check", map[string]any{}, 0)
		}
	}
}

// ---- allocations ----------------------------------------------------------------------------------

func offerOf(price uint64, size int64) uint64 {
	return uint64(float64(size) / float64(gb) * float64(price))
}

// st.new_alloc A=client I=[data, parity, sizeKind, blobberStart, extra, valueKind, rangeKind, enterprise, duplicateKind]
func (sw *SW) opNewAlloc(st sim.Step) {
	c := sw.client(int64(st.A))
	vw := sw.view()
	regs := sw.registeredBlobbers(vw)
	data := int(1 + abs(st.Int(0, 1))%4)
	parity := int(1 + abs(st.Int(1, 1))%3)
	if abs(st.Int(6, 0))%5 == 3 {
		sw.W.Tr.Fault("alloc_may_want_more_shards_than_blobbers")
	} else {
		// a sensible client asks for no more shards than there are blobbers
		for data+parity > len(regs) && parity > 1 {
			parity--
		}
		for data+parity > len(regs) && data > 1 {
			data--
		}
	}
	n := data + parity + int(abs(st.Int(4, 0))%3)
	var ids []string
	if len(regs) > 0 {
		start := int(abs(st.Int(3, 0)) % int64(len(regs)))
		for i := 0; i < n && i < len(regs); i++ {
			ids = append(ids, regs[(start+i)%len(regs)].ID)
		}
	}
	// fault: the same blobber id named twice in the list (it must never get two shares)
	switch abs(st.Int(8, 0)) % 4 {
	case 1:
		if len(ids) >= 2 {
			ids[1] = ids[0]
			sw.W.Tr.Fault("alloc_duplicate_blobber_id")
		}
	case 2:
		if len(ids) >= 2 {
			ids[len(ids)-1] = ids[0]
			sw.W.Tr.Fault("alloc_duplicate_blobber_id")
		}
	case 3:
		if len(ids) >= 1 {
			ids = append(ids, ids[0])
			sw.W.Tr.Fault("alloc_duplicate_blobber_id")
		}
	}
	// size kinds; "fill" kinds are relative to the first listed blobber's free capacity
	var size int64
	free := int64(0)
	if len(ids) > 0 {
		bv := vw.Blobbers[ids[0]]
		free = bv.Capacity - bv.Allocated
	}
	switch abs(st.Int(2, 0)) % 8 {
	case 0:
		size = mb
	case 1:
		size = 64 * mb
	case 2:
		size = gb
	case 3:
		size = 4 * gb * int64(data)
	case 4:
		size = free * int64(data) // exact fill of the first blobber
		sw.W.Tr.Fault("alloc_fills_capacity")
	case 5:
		size = free*int64(data) + int64(data) // one byte per shard too many
		sw.W.Tr.Fault("alloc_exceeds_capacity")
	case 6:
		size = mb - 1 // below min_alloc_size
	default:
		size = 256 * mb
	}
	if size <= 0 {
		size = mb
	}
	bsz := int64(math.Ceil(float64(size) / float64(data)))
	var est uint64
	for i := 0; i < data+parity && i < len(ids); i++ {
		est += offerOf(vw.Blobbers[ids[i]].WritePrice, bsz)
	}
	var value int64
	switch abs(st.Int(5, 2)) % 6 {
	case 0:
		value = 0
	case 1:
		value = int64(est) - 1
		if est > 0 {
			sw.W.Tr.Fault("alloc_underfunded_by_one") // fails late: after blobbers and stake pools were written
		}
	case 2:
		value = int64(est)
	case 3:
		value = int64(est) * 2
	case 4:
		value = int64(est)*10 + zcn
	default:
		value = int64(est) + zcn
	}
	// every listed blobber hands the owner an auth ticket (its signature over the
	// owner's id); only restricted / enterprise blobbers are asked for it
	tickets := make([]string, len(ids))
	for i, id := range ids {
		if bc := sw.actorByID(id); bc != nil && abs(st.Int(6, 0))%7 != 6 {
			tickets[i], _ = bc.Keys.Sign(c.ID)
		}
	}
	rmax, wmax := uint64(7e10), uint64(7e10)
	if abs(st.Int(6, 0))%5 == 4 {
		wmax = 1e8 // narrow write price range: some blobbers do not match
	}
	in := map[string]any{"data_shards": data, "parity_shards": parity, "size": size, "blobbers": ids, "blobber_auth_tickets": tickets,
		"read_price_range": map[string]any{"min": 0, "max": rmax}, "write_price_range": map[string]any{"min": 0, "max": wmax},
		"owner_id": c.ID, "owner_public_key": c.PK, "is_enterprise": abs(st.Int(7, 0))%16 == 15}
	o := sw.call(c.ID, c.PK, "new_allocation_request", in, value)
	if o.Class == ledger.Success {
		sw.probeFirst("new_allocation")
	}
}

// st.update_alloc A=callerKind I=[alloc, mode, sizeKind, extend, addBlobber(-1 none), removePos(-1 none), valueKind, thirdParty, newOwner(-1 none)]
func (sw *SW) opUpdateAlloc(st sim.Step) {
	vw := sw.view()
	id, av := sw.pickAlloc(vw, st.Int(0, 0), st.Int(1, 0))
	if id == "" {
		return
	}
	from := sw.callerFor(st.A, av, st.Int(5, 0))
	req := map[string]any{"id": id}
	var sizeDelta int64
	switch abs(st.Int(2, 0)) % 5 {
	case 1:
		sizeDelta = mb
	case 2:
		sizeDelta = gb
	case 3:
		sizeDelta = 64 * gb
	}
	if sizeDelta > 0 {
		req["size"] = sizeDelta
	}
	if st.Int(3, 0)%2 == 1 {
		req["extend"] = true
	}
	replacing := false
	if st.Int(4, -1) >= 0 {
		regs := sw.registeredBlobbers(vw)
		// pick a registered blobber that is not yet part of the allocation when there is one
		var add string
		for i := range regs {
			cand := regs[(int(st.Int(4, 0))+i)%len(regs)]
			if av == nil || av.BA(cand.ID) == nil {
				add = cand.ID
				break
			}
		}
		if st.Int(7, 0)%4 == 3 && av != nil && len(av.BAs) > 0 {
			// fault: "add" a blobber that already serves the allocation
			add = av.BAs[abs(st.Int(4, 0))%int64(len(av.BAs))].BlobberID
			sw.W.Tr.Fault("alloc_duplicate_blobber_id")
		}
		if add == "" && len(regs) > 0 {
			add = regs[int(st.Int(4, 0))%len(regs)].ID
		}
		if add != "" {
			req["add_blobber_id"] = add
			if bc := sw.actorByID(add); bc != nil && av != nil {
				req["add_blobber_auth_ticket"], _ = bc.Keys.Sign(av.Owner)
			}
			if st.Int(5, -1) >= 0 && av != nil && len(av.BAs) > 0 {
				rem := av.BAs[st.Int(5, 0)%int64(len(av.BAs))].BlobberID
				req["remove_blobber_id"] = rem
				replacing = true
				if bv := vw.Blobbers[rem]; bv != nil && bv.Dead() {
					sw.W.Tr.Fault("replace_dead_blobber")
				}
			}
		}
	}
	if st.Int(7, 0)%4 == 1 {
		req["set_third_party_extendable"] = true
	}
	if st.Int(8, -1) >= 0 {
		no := sw.client(st.Int(8, 0))
		req["owner_id"] = no.ID
		req["owner_public_key"] = no.PK
	}
	var value int64
	switch abs(st.Int(6, 0)) % 4 {
	case 1:
		value = zcn / 10
	case 2:
		value = 5 * zcn
	case 3:
		value = 100 * zcn
	}
	if av != nil && from.ID != av.Owner {
		sw.W.Tr.Fault("update_alloc_by_non_owner")
	}
	o := sw.call(from.ID, from.PK, "update_allocation_request", req, value)
	if o.Class == ledger.Success {
		sw.probeFirst("update_allocation")
		if replacing {
			sw.probeFirst("replace_blobber")
		} else if _, ok := req["add_blobber_id"]; ok {
			sw.probeFirst("add_blobber_to_allocation")
		}
		if sizeDelta > 0 {
			sw.probeFirst("extend_size")
		}
	}
}

// callerFor resolves a caller kind for an allocation: 0 owner, 1 one of its blobbers, 2 stranger client, 3 sim stranger, 4 contract owner.
func (sw *SW) callerFor(kind int, av *AllocView, pos int64) *ledger.Client {
	switch kind % 5 {
	case 0:
		if av != nil {
			if c := sw.actorByID(av.Owner); c != nil {
				return c
			}
		}
		return sw.client(0)
	case 1:
		if av != nil && len(av.BAs) > 0 {
			if c := sw.actorByID(av.BAs[abs(pos)%int64(len(av.BAs))].BlobberID); c != nil {
				return c
			}
		}
		return sw.blobber(pos).Client
	case 2:
		c := sw.client(pos + 1)
		if av != nil && c.ID == av.Owner {
			c = sw.client(pos + 2)
		}
		return c
	case 3:
		return sw.Stranger
	default:
		return &ledger.Client{ID: sw.W.OwnerID}
	}
}

// st.wp_lock A=callerKind I=[alloc, mode, amountKind]
func (sw *SW) opWritePoolLock(st sim.Step) {
	vw := sw.view()
	id, av := sw.pickAlloc(vw, st.Int(0, 0), st.Int(1, 0))
	if id == "" {
		return
	}
	from := sw.callerFor(st.A, av, 0)
	if st.A%5 == 1 || st.A%5 == 3 || st.A%5 == 4 {
		from = sw.client(int64(st.A))
	}
	amt := pick64([]int64{zcn / 10, zcn, 10 * zcn, zcn/10 - 1, 0}, st.Int(2, 0))
	if av == nil {
		sw.W.Tr.Fault("lock_on_closed_allocation")
	}
	o := sw.call(from.ID, from.PK, "write_pool_lock", map[string]any{"allocation_id": id}, amt)
	if o.Class == ledger.Success {
		sw.probeFirst("write_pool_lock")
	}
}

// st.rp_lock A=client I=[amountKind, target(-1 self)]
func (sw *SW) opReadPoolLock(st sim.Step) {
	c := sw.client(int64(st.A))
	amt := pick64([]int64{zcn, 10 * zcn, zcn / 100, 1, 0}, st.Int(0, 0))
	in := map[string]any{}
	if st.Int(1, -1) >= 0 {
		in["target_id"] = sw.client(st.Int(1, 0)).ID
	}
	o := sw.call(c.ID, c.PK, "read_pool_lock", in, amt)
	if o.Class == ledger.Success {
		sw.probeFirst("read_pool_lock")
	}
}

func (sw *SW) opReadPoolUnlock(st sim.Step) {
	c := sw.client(int64(st.A))
	o := sw.call(c.ID, c.PK, "read_pool_unlock", map[string]any{}, 0)
	if o.Class == ledger.Success {
		sw.probeFirst("read_pool_unlock")
	}
}

// ---- write markers --------------------------------------------------------------------------------

type wmJSON struct {
	Version                string `json:"version,omitempty"`
	AllocationRoot         string `json:"allocation_root"`
	PreviousAllocationRoot string `json:"prev_allocation_root"`
	FileMetaRoot           string `json:"file_meta_root"`
	AllocationID           string `json:"allocation_id"`
	Size                   int64  `json:"size"`
	ChainSize              int64  `json:"chain_size,omitempty"`
	ChainHash              string `json:"chain_hash,omitempty"`
	BlobberID              string `json:"blobber_id"`
	Timestamp              int64  `json:"timestamp"`
	ClientID               string `json:"client_id"`
	Signature              string `json:"signature"`
}

func (m *wmJSON) hashData() string {
	if m.Version == "v2" && m.ChainHash != "" {
		return fmt.Sprintf("%s:%s:%s:%s:%s:%s:%s:%d:%d:%d", m.AllocationRoot, m.PreviousAllocationRoot, m.FileMetaRoot, m.ChainHash,
			m.AllocationID, m.BlobberID, m.ClientID, m.Size, m.ChainSize, m.Timestamp)
	}
	return fmt.Sprintf("%s:%s:%s:%s:%s:%s:%d:%d", m.AllocationRoot, m.PreviousAllocationRoot, m.FileMetaRoot, m.AllocationID,
		m.BlobberID, m.ClientID, m.Size, m.Timestamp)
}

// st.commit I=[alloc, mode, blobberPos, sizeKind, fault, v2]
func (sw *SW) opCommit(st sim.Step) {
	vw := sw.view()
	id, av := sw.pickAlloc(vw, st.Int(0, 0), st.Int(1, 0))
	if id == "" {
		return
	}
	fault := abs(st.Int(4, 0)) % 12
	if fault == 9 && len(sw.lastWM) > 0 {
		// byte-identical replay of an accepted commit
		rp := sw.lastWM[int(abs(st.Int(3, 0)))%len(sw.lastWM)]
		b := sw.Blobbers[rp.blobber]
		sw.W.Tr.Fault("write_marker_replayed")
		sw.call(b.ID, b.PK, "commit_connection", rp.input, 0)
		return
	}
	var ba *BAView
	var owner *ledger.Client
	if av != nil && len(av.BAs) > 0 {
		ba = &av.BAs[abs(st.Int(2, 0))%int64(len(av.BAs))]
		owner = sw.actorByID(av.Owner)
	}
	if av == nil {
		// closed allocation: build a marker against the last known shape
		sw.W.Tr.Fault("commit_on_closed_allocation")
		b := sw.blobber(st.Int(2, 0))
		c := sw.client(0)
		m := wmJSON{AllocationRoot: sw.newRoot(), AllocationID: id, Size: 64 * kb, BlobberID: b.ID, Timestamp: int64(sw.W.Now), ClientID: c.ID, FileMetaRoot: "fm"}
		m.Signature = signData(c.Keys, m.hashData())
		sw.call(b.ID, b.PK, "commit_connection", map[string]any{"allocation_root": m.AllocationRoot, "prev_allocation_root": "", "write_marker": m}, 0)
		return
	}
	if ba == nil || owner == nil {
		return
	}
	bact := sw.actorByID(ba.BlobberID)
	if bact == nil {
		return
	}
	var size int64
	switch abs(st.Int(3, 0)) % 10 {
	case 0:
		size = 64 * kb
	case 1:
		size = mb
	case 2:
		size = ba.Size - ba.UsedSize // fill
	case 3:
		size = ba.Size - ba.UsedSize + 1 // one byte too many
		sw.W.Tr.Fault("write_exceeds_blobber_allocation")
	case 4:
		size = -ba.UsedSize // delete everything
	case 5:
		size = -ba.UsedSize / 2
	case 6:
		size = 0
	case 7:
		size = -(ba.UsedSize + 64*kb) // delete more than was written
		sw.W.Tr.Fault("delete_more_than_written")
	case 8:
		size = 1 // below a chunk
	default:
		size = 16 * mb
	}
	m := wmJSON{AllocationRoot: sw.newRoot(), PreviousAllocationRoot: ba.Root, FileMetaRoot: encryption.Hash("fm" + id), AllocationID: id,
		Size: size, BlobberID: ba.BlobberID, Timestamp: int64(sw.W.Now), ClientID: av.Owner}
	signer := owner
	sender := bact
	switch fault {
	case 1:
		signer = sw.client(int64(owner.Idx + 1))
		if signer.ID == owner.ID {
			signer = sw.Stranger
		}
		sw.W.Tr.Fault("write_marker_wrong_signer")
	case 2:
		for _, b := range sw.Blobbers {
			if b.ID != ba.BlobberID {
				sender = b.Client
				break
			}
		}
		sw.W.Tr.Fault("write_marker_sent_by_other_blobber")
	case 3:
		m.PreviousAllocationRoot = encryption.Hash("stale")
		sw.W.Tr.Fault("write_marker_stale_prev_root")
	case 4:
		m.Timestamp = av.Expiration + 1
		sw.W.Tr.Fault("write_marker_after_expiry")
	case 5:
		m.Timestamp = av.StartTime - 1
		sw.W.Tr.Fault("write_marker_before_start")
	case 6:
		m.ClientID = sw.Stranger.ID
		signer = sw.Stranger
		sw.W.Tr.Fault("write_marker_by_non_owner")
	}
	if st.Int(5, 0)%2 == 1 {
		// chained (v2) marker: size is the difference of chain sizes, the chain hash
		// commits to the previous chain hash (empty after a v1 marker) and the new root
		m.Version = "v2"
		m.ChainSize = ba.ChainSize + size
		h := sha256.New()
		pb, _ := hex.DecodeString(ba.ChainHash)
		h.Write(pb)
		rb, _ := hex.DecodeString(m.AllocationRoot)
		h.Write(rb)
		m.ChainHash = hex.EncodeToString(h.Sum(nil))
	}
	m.Signature = signData(signer.Keys, m.hashData())
	if fault == 7 {
		m.Signature = flipHex(m.Signature)
		sw.W.Tr.Fault("write_marker_bad_signature")
	}
	// an upload that costs more than what is left in the allocation's write pool (size x write price x remaining
	// duration in time units, as the statement of the payment says; at least one chunk is paid)
	short := false
	if size > 0 && !av.Enterprise && vw.Conf.TimeUnitNs > 0 && m.Timestamp <= av.Expiration && size <= ba.Size-ba.UsedSize {
		paid := size
		if paid < 64*kb {
			paid = 64 * kb
		}
		rdtu := float64(av.Expiration-m.Timestamp) * 1e9 / float64(vw.Conf.TimeUnitNs)
		cost := float64(paid) / float64(gb) * float64(ba.WritePrice) * rdtu
		if cost > float64(av.WritePool)+2 {
			short = true
			sw.W.Tr.Fault("upload_cost_exceeds_write_pool")
		}
	}
	in := map[string]any{"allocation_root": m.AllocationRoot, "prev_allocation_root": m.PreviousAllocationRoot, "write_marker": m}
	raw, _ := json.Marshal(in)
	o := sw.call(sender.ID, sender.PK, "commit_connection", string(raw), 0)
	if o.Class == ledger.Success {
		sw.probeFirst("commit_connection")
		if short {
			// accepted: the whole remaining write pool (and no more) went to the challenge pool
			if after := sw.view().Allocs[id]; after != nil && after.WritePool == 0 {
				sw.W.Tr.Probe("upload_capped_at_write_pool")
			}
		}
		if size < 0 {
			sw.probeFirst("commit_connection_delete")
		}
		for i, b := range sw.Blobbers {
			if b.ID == sender.ID {
				sw.lastWM = append(sw.lastWM, wmReplay{i, string(raw)})
			}
		}
	}
}

func flipHex(s string) string {
	if len(s) == 0 {
		return "00"
	}
	b := []byte(s)
	i := len(b) / 2
	if b[i] == '0' {
		b[i] = '1'
	} else {
		b[i] = '0'
	}
	return string(b)
}

// ---- challenges -----------------------------------------------------------------------------------

// st.gen_chal A=miner index: the built-in generate_challenge transaction of the block's generator.
func (sw *SW) opGenChallenge(st sim.Step) {
	sw.R.EnsureBlock()
	m := sw.W.Miners[st.A%len(sw.W.Miners)]
	before := len(sw.view().Challenges)
	o := sw.call(m.ID, m.PK, "generate_challenge", map[string]any{"round": sw.R.BC.B.Round}, 0)
	if o.Class == ledger.Success && len(sw.view().Challenges) > before {
		sw.probeFirst("challenge_generated")
	}
}

type ticketJSON struct {
	ChallengeID  string `json:"challenge_id"`
	BlobberID    string `json:"blobber_id"`
	ValidatorID  string `json:"validator_id"`
	ValidatorKey string `json:"validator_key"`
	Result       bool   `json:"success"`
	Message      string `json:"message"`
	MessageCode  string `json:"message_code"`
	Timestamp    int64  `json:"timestamp"`
	Signature    string `json:"signature"`
}

func (sw *SW) ticket(ch ChallengeView, v *ledger.Client, result bool) *ticketJSON {
	t := &ticketJSON{ChallengeID: ch.ID, BlobberID: ch.BlobberID, ValidatorID: v.ID, ValidatorKey: v.PK, Result: result, Timestamp: int64(sw.W.Now)}
	t.Signature = signData(v.Keys, fmt.Sprintf("%v:%v:%v:%v:%v:%v", t.ChallengeID, t.BlobberID, t.ValidatorID, t.ValidatorKey, t.Result, t.Timestamp))
	return t
}

// st.chal_resp I=[challenge, mode]
func (sw *SW) opChallengeResponse(st sim.Step) {
	vw := sw.view()
	if len(vw.Challenges) == 0 {
		return
	}
	ch := vw.Challenges[abs(st.Int(0, 0))%int64(len(vw.Challenges))]
	sender := sw.actorByID(ch.BlobberID)
	if sender == nil {
		return
	}
	var vals []*ledger.Client
	for _, id := range ch.Validators {
		if c := sw.actorByID(id); c != nil {
			vals = append(vals, c)
		}
	}
	mode := abs(st.Int(1, 0)) % 10
	var tickets []*ticketJSON
	switch mode {
	case 0, 1, 2: // pass: all tickets positive
		for _, v := range vals {
			tickets = append(tickets, sw.ticket(ch, v, true))
		}
	case 3: // fail: all negative
		for _, v := range vals {
			tickets = append(tickets, sw.ticket(ch, v, false))
		}
	case 4: // mixed: only the first positive
		for i, v := range vals {
			tickets = append(tickets, sw.ticket(ch, v, i == 0))
		}
	case 5: // bad signature on one ticket
		for _, v := range vals {
			tickets = append(tickets, sw.ticket(ch, v, true))
		}
		if len(tickets) > 0 {
			tickets[0].Signature = flipHex(tickets[0].Signature)
		}
		sw.W.Tr.Fault("ticket_bad_signature")
	case 6: // sent by another blobber
		for _, v := range vals {
			tickets = append(tickets, sw.ticket(ch, v, true))
		}
		for _, b := range sw.Blobbers {
			if b.ID != ch.BlobberID {
				sender = b.Client
				break
			}
		}
		sw.W.Tr.Fault("challenge_response_by_other_blobber")
	case 7: // duplicate ticket
		for _, v := range vals {
			tickets = append(tickets, sw.ticket(ch, v, true))
		}
		if len(tickets) > 0 {
			tickets = append(tickets, tickets[0])
		}
		sw.W.Tr.Fault("ticket_duplicated")
	case 8: // ticket of a validator that was not selected
		for _, v := range sw.Validators {
			sel := false
			for _, id := range ch.Validators {
				sel = sel || id == v.ID
			}
			if !sel {
				tickets = append(tickets, sw.ticket(ch, v.Client, true))
				break
			}
		}
		for _, v := range vals {
			tickets = append(tickets, sw.ticket(ch, v, true))
		}
		sw.W.Tr.Fault("ticket_of_foreign_validator")
	default: // a single ticket
		if len(vals) > 0 {
			tickets = append(tickets, sw.ticket(ch, vals[0], true))
		}
	}
	late := vw.Conf.MaxChallRounds > 0 && ch.Round+vw.Conf.MaxChallRounds <= sw.R.BC.B.Round
	if late {
		sw.W.Tr.Fault("challenge_response_late")
	}
	o := sw.call(sender.ID, sender.PK, "challenge_response", map[string]any{"challenge_id": ch.ID, "validation_tickets": tickets}, 0)
	if o.Class == ledger.Success {
		out := o.Txn.TransactionOutput
		switch {
		case strings.Contains(out, "passed"):
			sw.probeFirst("challenge_passed")
		case strings.Contains(out, "Failed"):
			sw.probeFirst("challenge_failed")
		}
	} else if late {
		sw.probeFirst("challenge_late_rejected")
	}
}

// ---- clock, close ---------------------------------------------------------------------------------

// st.clock_to I=[alloc, mode(2 = newest open allocation, else by index), offset, eighths]: move the clock to the allocation's
// expiry + offset seconds, or (eighths 1..7) to start + eighths/8 of its duration (never backwards).
func (sw *SW) opClockTo(st sim.Step) {
	vw := sw.view()
	mode := int64(0)
	if st.Int(1, 0)%4 == 2 {
		mode = 2
	}
	_, av := sw.pickAlloc(vw, st.Int(0, 0), mode)
	if av == nil {
		return
	}
	target := common.Timestamp(av.Expiration + st.Int(2, 1))
	if f := st.Int(3, 0); f >= 1 && f <= 7 {
		target = common.Timestamp(av.StartTime + (av.Expiration-av.StartTime)*f/8)
	}
	if target > sw.W.Now {
		sw.W.Advance(int64(target - sw.W.Now))
		sw.W.Tr.Event("clock_to expiry%+d", st.Int(2, 1))
	}
}

// st.finalize A=callerKind I=[alloc, mode, pos]
func (sw *SW) opFinalize(st sim.Step) { sw.closeOp(st, "finalize_allocation") }

// st.cancel A=callerKind I=[alloc, mode, pos]
func (sw *SW) opCancel(st sim.Step) { sw.closeOp(st, "cancel_allocation") }

func (sw *SW) closeOp(st sim.Step, fn string) {
	vw := sw.view()
	id, av := sw.pickAlloc(vw, st.Int(0, 0), st.Int(1, 0))
	if id == "" {
		return
	}
	from := sw.callerFor(st.A, av, st.Int(2, 0))
	if av == nil {
		sw.W.Tr.Fault("close_of_closed_allocation")
	} else {
		expired := int64(sw.W.Now) >= av.Expiration
		if fn == "finalize_allocation" && !expired {
			sw.W.Tr.Fault("finalize_before_expiry")
		}
		if fn == "cancel_allocation" && int64(sw.W.Now) > av.Expiration {
			sw.W.Tr.Fault("cancel_after_expiry")
		}
		if from.ID != av.Owner && !(fn == "finalize_allocation" && av.BA(from.ID) != nil) {
			sw.W.Tr.Fault("close_by_unauthorised_caller")
		}
	}
	o := sw.call(from.ID, from.PK, fn, map[string]any{"allocation_id": id}, 0)
	if o.Class == ledger.Success {
		sw.probeFirst(fn)
		sw.closedIDs = append(sw.closedIDs, id)
	}
}

// ---- provider life cycle --------------------------------------------------------------------------

// st.kill A=callerKind(0 owner,1 delegate,2 stranger) I=[what(0 kill_blobber,1 shutdown_blobber,2 kill_validator,3 shutdown_validator), index]
func (sw *SW) opKill(st sim.Step) {
	what := abs(st.Int(0, 0)) % 4
	fn := []string{"kill_blobber", "shutdown_blobber", "kill_validator", "shutdown_validator"}[what]
	var a *Actor
	if what < 2 {
		a = sw.blobber(st.Int(1, 0))
	} else {
		a = sw.validator(st.Int(1, 0))
	}
	if a == nil {
		return
	}
	var fromID, fromPK string
	switch st.A % 3 {
	case 0:
		fromID = sw.W.OwnerID
	case 1:
		fromID, fromPK = a.Delegate.ID, a.Delegate.PK
	default:
		fromID, fromPK = sw.Stranger.ID, sw.Stranger.PK
		sw.W.Tr.Fault("kill_or_shutdown_by_stranger")
	}
	vw := sw.view()
	already := false
	if what < 2 {
		if bv := vw.Blobbers[a.ID]; bv != nil && bv.Dead() {
			already = true
			sw.W.Tr.Fault("kill_or_shutdown_repeated")
		}
	}
	o := sw.call(fromID, fromPK, fn, map[string]any{"provider_id": a.ID}, 0)
	if o.Class == ledger.Success {
		sw.probeFirst(fn)
		if already {
			sw.probeFirst(fn + "_on_dead_provider")
		}
	}
}

// st.update_blobber A=callerKind(0 delegate, else stranger) I=[index, capacityKind, writePriceKind, readPriceKind, notAvailable]
func (sw *SW) opUpdateBlobber(st sim.Step) {
	b := sw.blobber(st.Int(0, 0))
	if b == nil {
		return
	}
	vw := sw.view()
	bv := vw.Blobbers[b.ID]
	in := map[string]any{"id": b.ID}
	if bv != nil {
		switch abs(st.Int(1, 0)) % 6 {
		case 1:
			in["capacity"] = bv.Capacity + gb
		case 2:
			in["capacity"] = bv.Allocated + 10*gb + 1
		case 3:
			in["capacity"] = 10*gb + 1 // possibly below what is allocated
			sw.W.Tr.Fault("capacity_lowered")
		case 4:
			in["capacity"] = 0
		}
	}
	terms := map[string]any{}
	if k := abs(st.Int(2, 0)) % 5; k > 0 {
		terms["write_price"] = pick64([]int64{1e7, 1e8, 1e9, 2e10}, k)
	}
	if k := abs(st.Int(3, 0)) % 4; k > 0 {
		terms["read_price"] = pick64([]int64{0, 1e8, 1e9}, k)
	}
	if len(terms) > 0 {
		in["terms"] = terms
	}
	if st.Int(4, 0)%4 == 1 {
		in["not_available"] = true
	} else if st.Int(4, 0)%4 == 2 {
		in["not_available"] = false
	}
	from := b.Delegate
	if st.A != 0 {
		from = sw.Stranger
		sw.W.Tr.Fault("blobber_update_by_stranger")
	}
	o := sw.call(from.ID, from.PK, "update_blobber_settings", in, 0)
	if o.Class == ledger.Success {
		sw.probeFirst("update_blobber_settings")
	}
}

// st.collect A=client I=[providerKind, index]
func (sw *SW) opCollect(st sim.Step) {
	c := sw.client(int64(st.A))
	ptype, id := 3, ""
	if st.Int(0, 0)%2 == 0 {
		id = sw.blobber(st.Int(1, 0)).ID
	} else {
		ptype, id = 4, sw.validator(st.Int(1, 0)).ID
	}
	o := sw.call(c.ID, c.PK, "collect_reward", map[string]any{"provider_type": ptype, "provider_id": id}, 0)
	if o.Class == ledger.Success {
		sw.probeFirst("collect_reward")
	}
}

// ---- read markers ---------------------------------------------------------------------------------

type rmJSON struct {
	ClientID        string `json:"client_id"`
	ClientPublicKey string `json:"client_public_key"`
	BlobberID       string `json:"blobber_id"`
	AllocationID    string `json:"allocation_id"`
	OwnerID         string `json:"owner_id"`
	Timestamp       int64  `json:"timestamp"`
	ReadCounter     int64  `json:"counter"`
	Signature       string `json:"signature"`
}

func (m *rmJSON) hashData() string {
	return fmt.Sprintf("%v:%v:%v:%v:%v:%v:%v", m.AllocationID, m.BlobberID, m.ClientID, m.ClientPublicKey, m.OwnerID, m.ReadCounter, m.Timestamp)
}

// st.read A=reader client I=[alloc, mode, blobberPos, counterKind, fault, senderKind, timestampKind]
//
// timestampKind (absent = 0): 0 now; 1 one second before the marker stored for the triple; 2 midway between the
// allocation's start and the stored marker; 3 the allocation's start; 4 an hour ahead of the clock (capped at the
// expiry) so that the next marker signed "now" is the older one. Kinds 1-4 stay inside [start, expiry]: the marker
// is valid, only its timestamp is not monotone with its counter. With fault 9, timestampKind 7 replays the most
// recently redeemed marker (sent by its own blobber) instead of an arbitrary earlier one.
func (sw *SW) opRead(st sim.Step) {
	vw := sw.view()
	fault := abs(st.Int(4, 0)) % 10
	tsKind := abs(st.Int(6, 0)) % 8
	if fault == 9 && len(sw.lastRead) > 0 {
		in := sw.lastRead[int(abs(st.Int(3, 0)))%len(sw.lastRead)]
		b := sw.blobber(st.Int(2, 0)).Client
		sw.W.Tr.Fault("read_marker_replayed")
		if tsKind == 7 {
			in = sw.lastRead[len(sw.lastRead)-1]
			var r struct {
				RM rmJSON `json:"read_marker"`
			}
			_ = json.Unmarshal([]byte(in), &r)
			if c := sw.actorByID(r.RM.BlobberID); c != nil {
				b = c
			}
			sw.W.Tr.Fault("read_marker_last_redeemed_replayed")
		}
		sw.call(b.ID, b.PK, "read_redeem", in, 0)
		return
	}
	id, av := sw.pickAlloc(vw, st.Int(0, 0), st.Int(1, 0))
	if id == "" {
		return
	}
	reader := sw.client(int64(st.A))
	var blobberID string
	if av != nil && len(av.BAs) > 0 {
		blobberID = av.BAs[abs(st.Int(2, 0))%int64(len(av.BAs))].BlobberID
	} else {
		blobberID = sw.blobber(st.Int(2, 0)).ID
		sw.W.Tr.Fault("read_on_closed_allocation")
	}
	cur := vw.ReadCtr[keyReadConn(blobberID, reader.ID, id)]
	var ctr int64
	switch abs(st.Int(3, 0)) % 8 {
	case 0:
		ctr = cur + 1
	case 1:
		ctr = cur + 100
	case 2:
		ctr = cur + 16384 // one GB worth of chunks
	case 3:
		ctr = cur // equal: nothing new was read
		sw.W.Tr.Fault("read_counter_equal")
	case 4:
		ctr = cur - 1
		sw.W.Tr.Fault("read_counter_lower")
	case 5:
		ctr = 0
	case 6:
		ctr = cur + 1<<40 // far more than the read pool can pay
		sw.W.Tr.Fault("read_exceeds_read_pool")
	default:
		ctr = cur + 7
	}
	m := rmJSON{ClientID: reader.ID, ClientPublicKey: reader.PK, BlobberID: blobberID, AllocationID: id, Timestamp: int64(sw.W.Now), ReadCounter: ctr}
	storedTS := vw.ReadTS[keyReadConn(blobberID, reader.ID, id)]
	if av != nil {
		m.OwnerID = av.Owner
		ts := m.Timestamp
		switch tsKind {
		case 1:
			if storedTS > 0 {
				ts = storedTS - 1
			}
		case 2:
			if storedTS > 0 {
				ts = av.StartTime + (storedTS-av.StartTime)/2
			}
		case 3:
			ts = av.StartTime
		case 4:
			ts = m.Timestamp + 3600
		}
		if ts > av.Expiration {
			ts = av.Expiration
		}
		if ts >= av.StartTime && ts > 0 {
			m.Timestamp = ts
		}
	}
	signer := reader
	switch fault {
	case 1: // signed by somebody else, claiming the reader's identity
		signer = sw.client(int64(st.A) + 1)
		if signer.ID == reader.ID {
			signer = sw.Stranger
		}
		sw.W.Tr.Fault("read_marker_wrong_signer")
	case 2: // signer's own key, victim's client id
		signer = sw.Stranger
		m.ClientPublicKey = sw.Stranger.PK
		sw.W.Tr.Fault("read_marker_foreign_key_for_client_id")
	case 3:
		if av != nil {
			m.Timestamp = av.Expiration + 1
			sw.W.Tr.Fault("read_marker_after_expiry")
		}
	case 4:
		if av != nil {
			m.Timestamp = av.StartTime - 1
			sw.W.Tr.Fault("read_marker_before_start")
		}
	}
	olderTS := av != nil && storedTS > 0 && m.Timestamp < storedTS && m.Timestamp >= av.StartTime && m.Timestamp <= av.Expiration
	if olderTS {
		// a valid marker the client signed *before* the one already redeemed
		sw.W.Tr.Fault("read_marker_older_timestamp")
		if ctr > cur {
			sw.W.Tr.Fault("read_marker_older_timestamp_higher_counter")
		}
	}
	m.Signature = signData(signer.Keys, m.hashData())
	if fault == 5 {
		m.Signature = flipHex(m.Signature)
		sw.W.Tr.Fault("read_marker_bad_signature")
	}
	if fault == 6 {
		// counter altered after signing
		m.ReadCounter = ctr + 5
		sw.W.Tr.Fault("read_marker_counter_tampered")
	}
	raw, _ := json.Marshal(map[string]any{"read_marker": m})
	var fromID, fromPK string
	switch abs(st.Int(5, 0)) % 4 {
	case 3:
		fromID, fromPK = sw.Stranger.ID, sw.Stranger.PK
	default:
		if c := sw.actorByID(blobberID); c != nil {
			fromID, fromPK = c.ID, c.PK
		} else {
			fromID, fromPK = sw.Stranger.ID, sw.Stranger.PK
		}
	}
	o := sw.call(fromID, fromPK, "read_redeem", string(raw), 0)
	if o.Class == ledger.Success {
		sw.probeFirst("read_redeem")
		if ctr > cur {
			sw.probeFirst("read_redeem_charged")
		}
		if olderTS && m.ReadCounter > cur {
			sw.W.Tr.Probe("read_redeem_older_timestamp_higher_counter")
		}
		sw.lastRead = append(sw.lastRead, string(raw))
	}
}

// ---- free storage ---------------------------------------------------------------------------------

// st.add_assigner A=callerKind(0 contract owner, else stranger) I=[assigner, individualKind, totalKind, keyKind]
//
// keyKind (absent = 0): 0 the assigner's first key, 1 its second key, 2 the key that is *not* registered now (rotation K1->K2 / K2->K1),
// 3 the key registered now (limits-only update). A re-registration under another key must keep the name's redeemed amount and nonces.
func (sw *SW) opAddAssigner(st sim.Step) {
	if len(sw.Assigners) == 0 {
		return
	}
	a := sw.Assigners[abs(st.Int(0, 0))%int64(len(sw.Assigners))]
	ind := []float64{1, 5, 100, 101, 0.5}[abs(st.Int(1, 1))%5]
	tot := []float64{5, 20, 10000, 10001, 2}[abs(st.Int(2, 1))%5]
	av := sw.view().Assigners[a.Name]
	key := a.PK
	switch abs(st.Int(3, 0)) % 4 {
	case 1:
		key = a.PK2
	case 2:
		if av != nil {
			key, _ = a.otherThan(av.PublicKey)
		}
	case 3:
		if av != nil && (av.PublicKey == a.PK || av.PublicKey == a.PK2) {
			key = av.PublicKey
		}
	}
	from, pk := sw.W.OwnerID, ""
	if st.A != 0 {
		from, pk = sw.Stranger.ID, sw.Stranger.PK
		sw.W.Tr.Fault("assigner_added_by_stranger")
	}
	rotated := st.A == 0 && av != nil && av.PublicKey != key
	used := rotated && (av.Redeemed > 0 || len(av.Nonces) > 0)
	if rotated {
		sw.W.Tr.Fault("assigner_key_rotated")
	}
	if used {
		sw.W.Tr.Fault("assigner_key_rotated_after_redemptions")
	}
	o := sw.call(from, pk, "add_free_storage_assigner", map[string]any{"name": a.Name, "public_key": key, "individual_limit": ind, "total_limit": tot}, 0)
	if o.Class == ledger.Success {
		sw.probeFirst("add_free_storage_assigner")
		if rotated {
			sw.rotGen[a.Name]++
		}
		if used {
			sw.W.Tr.Probe("assigner_key_rotated_after_redemptions")
		}
	}
}

type freeMarkerJSON struct {
	Assigner   string   `json:"assigner"`
	Recipient  string   `json:"recipient"`
	FreeTokens float64  `json:"free_tokens"`
	Nonce      int64    `json:"nonce"`
	Signature  string   `json:"signature"`
	Blobbers   []string `json:"blobbers"`
}

func (m *freeMarkerJSON) signed() string {
	ids := strings.Join(m.Blobbers, "")
	return hex.EncodeToString([]byte(fmt.Sprintf("%s:%f:%d:%s", m.Recipient, m.FreeTokens, m.Nonce, ids)))
}

// st.free_alloc A=recipient client I=[assigner, tokensKind, fault, blobberStart, replayIdx]
func (sw *SW) opFreeAlloc(st sim.Step) {
	if len(sw.Assigners) == 0 {
		return
	}
	vw := sw.view()
	a := sw.Assigners[abs(st.Int(0, 0))%int64(len(sw.Assigners))]
	rec := sw.client(int64(st.A))
	fault := abs(st.Int(2, 0)) % 12
	if fault == 2 && len(sw.redeemed[a.Name]) > 0 {
		// byte-identical replay of a redeemed marker by its recipient
		rs := sw.redeemed[a.Name]
		in := rs[int(abs(st.Int(4, 0)))%len(rs)]
		var inp struct {
			Marker string `json:"marker"`
		}
		_ = json.Unmarshal([]byte(in), &inp)
		var mk freeMarkerJSON
		_ = json.Unmarshal([]byte(inp.Marker), &mk)
		if c := sw.actorByID(mk.Recipient); c != nil {
			sw.W.Tr.Fault("free_marker_replayed")
			if at, ok := sw.redeemedAt[in]; ok && sw.rotGen[a.Name] > at.gen {
				// redeemed under an earlier registration of the name
				sw.W.Tr.Fault("free_marker_replayed_after_key_rotation")
				if av := vw.Assigners[a.Name]; av != nil && av.PublicKey == at.key {
					sw.W.Tr.Fault("free_marker_replayed_after_key_rotated_back") // its signature verifies again
				}
			}
			sw.call(c.ID, c.PK, "free_allocation_request", in, 0)
		}
		return
	}
	regs := sw.registeredBlobbers(vw)
	need := vw.Conf.FreeData + vw.Conf.FreeParity
	var ids []string
	if len(regs) > 0 {
		start := int(abs(st.Int(3, 0)) % int64(len(regs)))
		for i := 0; i < need+1 && i < len(regs); i++ {
			ids = append(ids, regs[(start+i)%len(regs)].ID)
		}
	}
	av := vw.Assigners[a.Name]
	tokens := []float64{0.5, 1, 2, 0.05, 4}[abs(st.Int(1, 0))%5]
	sw.nonceCtr[a.Name]++
	m := freeMarkerJSON{Assigner: a.Name, Recipient: rec.ID, FreeTokens: tokens, Nonce: sw.nonceCtr[a.Name], Blobbers: ids}
	signKeys := a.Keys
	if av != nil {
		signKeys = a.keysFor(av.PublicKey) // the assigner signs with the key the owner registered last
	}
	sender := rec
	valid := av != nil
	switch fault {
	case 1: // forged: signed with a key that is not the assigner's
		signKeys = sw.Stranger.Keys
		valid = false
		sw.W.Tr.Fault("free_marker_forged")
	case 3: // above the individual limit
		if av != nil {
			m.FreeTokens = float64(av.Individual)/1e10 + 0.5
			valid = false
			sw.W.Tr.Fault("free_marker_over_individual_limit")
		}
	case 4: // would exceed the total limit
		if av != nil && av.Total >= av.Redeemed {
			m.FreeTokens = float64(av.Total-av.Redeemed)/1e10 + 0.25
			valid = false
			sw.W.Tr.Fault("free_marker_over_total_limit")
		}
	case 5: // redeemed by somebody else than the named recipient
		sender = sw.client(int64(st.A) + 1)
		if sender.ID == rec.ID {
			sender = sw.Stranger
		}
		valid = false
		sw.W.Tr.Fault("free_marker_wrong_recipient")
	case 7: // assigner that was never registered
		m.Assigner = "nobody"
		valid = false
		sw.W.Tr.Fault("free_marker_unknown_assigner")
	case 11: // signed with the assigner's other key (rotated out, or never registered)
		if av != nil {
			_, signKeys = a.otherThan(av.PublicKey)
			valid = false
			sw.W.Tr.Fault("free_marker_signed_with_other_key")
		}
	case 9: // nonce of an earlier redeemed marker, freshly signed otherwise
		if av != nil && len(av.Nonces) > 0 {
			m.Nonce = av.Nonces[int(abs(st.Int(4, 0)))%len(av.Nonces)]
			valid = false
			sw.W.Tr.Fault("free_marker_nonce_reused")
		}
	}
	sig, _ := signKeys.Sign(m.signed())
	m.Signature = sig
	switch fault {
	case 6: // amount raised after signing
		m.FreeTokens += 1
		valid = false
		sw.W.Tr.Fault("free_marker_amount_tampered")
	case 8: // blobber list altered after signing
		if len(m.Blobbers) > 1 {
			m.Blobbers = append([]string{m.Blobbers[1], m.Blobbers[0]}, m.Blobbers[2:]...)
			valid = false
			sw.W.Tr.Fault("free_marker_blobbers_tampered")
		}
	case 10: // recipient altered after signing, sent by the new recipient
		sender = sw.client(int64(st.A) + 1)
		if sender.ID != rec.ID {
			m.Recipient = sender.ID
			valid = false
			sw.W.Tr.Fault("free_marker_recipient_tampered")
		}
	}
	mk, _ := json.Marshal(m)
	raw, _ := json.Marshal(map[string]any{"recipient_public_key": sender.PK, "marker": string(mk), "blobbers": m.Blobbers})
	if valid {
		// the marker was built by the registered assigner's key for this sender: a
		// grant may debit the configured storage owner by at most the granted amount.
		// Tell the debit-authorisation oracle (attached in check C04 only), after
		// re-verifying the signature with the shipped scheme.
		if c04 := sw.W.FindC04(); c04 != nil && sw.verifyFree(&m, av.PublicKey) {
			c04.Auth[sw.W.OwnerID] = new(big.Int).SetUint64(uint64(m.FreeTokens * 1e10))
		}
	}
	o := sw.call(sender.ID, sender.PK, "free_allocation_request", string(raw), 0)
	if o.Class == ledger.Success {
		sw.probeFirst("free_allocation")
		sw.redeemed[m.Assigner] = append(sw.redeemed[m.Assigner], string(raw))
		if av != nil && m.Assigner == a.Name {
			sw.redeemedAt[string(raw)] = redeemInfo{av.PublicKey, sw.rotGen[a.Name]}
			if sw.rotGen[a.Name] > 0 {
				sw.W.Tr.Probe("free_grant_after_key_rotation")
			}
		}
	}
}

func (sw *SW) verifyFree(m *freeMarkerJSON, pk string) bool {
	var ss encryption.SignatureScheme
	if sw.W.Cfg.Scheme == "ed25519" {
		ss = encryption.NewED25519Scheme()
	} else {
		ss = encryption.NewBLS0ChainScheme()
	}
	if err := ss.SetPublicKey(pk); err != nil {
		return false
	}
	ok, err := ss.Verify(m.Signature, m.signed())
	return ok && err == nil
}
