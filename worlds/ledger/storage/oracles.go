package storage

import (
	"encoding/hex"
	"encoding/json"
	"fmt"
	"math"
	"math/big"

	"0chain.net/chaincore/transaction"
	"0chain.net/core/encryption"
	"github.com/0chain/common/core/currency"

	"verif/sim"
	"verif/worlds/ledger"
)

// viewObs maintains Viewer.Prev / Viewer.Cur: the decoded storage records
// before and after the last applied transaction. It must be attached before
// the oracles that read them.
type viewObs struct{ sw *SW }

func (o viewObs) AfterTxn(w *ledger.World, bc *ledger.BlockCtx, out *ledger.Outcome) {
	if out.Class == ledger.Rejected {
		return
	}
	v := o.sw.V
	v.Prev = v.Cur
	v.Cur = v.At(bc)
}
func (o viewObs) AfterBlock(w *ledger.World, bc *ledger.BlockCtx) {}

func txnInput(t *transaction.Transaction) (fn string, input []byte) {
	if t.TransactionType != transaction.TxnTypeSmartContract {
		return "", nil
	}
	var d transaction.SmartContractData
	if err := json.Unmarshal([]byte(t.TransactionData), &d); err != nil {
		return t.FunctionName, nil
	}
	return d.FunctionName, d.InputData
}

func isStorage(t *transaction.Transaction) bool { return t.ToClientID == ledger.AddrStorage }

func liveness(b *BlobberView) string {
	if b == nil || !b.Present {
		return "absent"
	}
	if b.Dead() {
		return "dead"
	}
	return "live"
}

func fnOf(t *transaction.Transaction) string {
	fn, _ := txnInput(t)
	if fn == "" {
		return fmt.Sprintf("type%d", t.TransactionType)
	}
	return fn
}

// ---- C13: blobber capacity and offers track the open allocations ----------------------------------

type OracleC13 struct {
	sw    *SW
	discA map[string]int64 // blobber -> Allocated - sum of sizes over open allocations (last seen)
	discO map[string]int64 // blobber -> TotalOffers - sum of offers (last seen)
	pairs map[string]bool  // allocation|blobber pairs present after the previous transaction
	gone  map[string]bool
}

func NewOracleC13(sw *SW) *OracleC13 {
	return &OracleC13{sw: sw, discA: map[string]int64{}, discO: map[string]int64{}, pairs: map[string]bool{}, gone: map[string]bool{}}
}

func (c *OracleC13) AfterBlock(w *ledger.World, bc *ledger.BlockCtx) {}

func (c *OracleC13) AfterTxn(w *ledger.World, bc *ledger.BlockCtx, o *ledger.Outcome) {
	if o.Class == ledger.Rejected {
		return
	}
	cur := c.sw.V.Cur
	fn := fnOf(o.Txn)
	sumSize := map[string]int64{}
	sumOffer := map[string]uint64{}
	pairs := map[string]bool{}
	newly := map[string]bool{}
	for _, id := range c.sw.V.OpenAllocIDs(cur) {
		a := cur.Allocs[id]
		if a.Finalized || a.Canceled {
			continue
		}
		for _, ba := range a.BAs {
			sumSize[ba.BlobberID] += ba.Size
			sumOffer[ba.BlobberID] += ba.Offer
			k := id + "|" + ba.BlobberID
			pairs[k] = true
			if !c.pairs[k] {
				newly[ba.BlobberID] = true
			}
		}
	}
	c.pairs = pairs
	ids := map[string]bool{}
	for id := range cur.Blobbers {
		ids[id] = true
	}
	for id := range sumSize {
		ids[id] = true
	}
	for _, id := range sortedKeys(ids) {
		b := cur.Blobbers[id]
		if b == nil || !b.Present || !b.SP.Present {
			if sumSize[id] > 0 && !c.gone[id] {
				c.gone[id] = true
				w.Tr.Violate(&sim.Violation{Prop: "C13", Oracle: "records", Sig: "C13/blobber-or-stake-pool-record-missing-for-open-allocation/" + fn,
					Detail: fmt.Sprintf("blobber %s serves open allocations (%d bytes) but its provider or stake-pool record is absent after %s", short(id), sumSize[id], fn)})
			}
			continue
		}
		dA := b.Allocated - sumSize[id]
		dO := int64(b.SP.TotalOffers) - int64(sumOffer[id])
		if dA != c.discA[id] {
			step := dA - c.discA[id]
			c.discA[id] = dA
			if dA != 0 {
				// a drift of a few bytes (ceil(size/shards) rounding) is a different class than a missing booking
				class := ""
				if step >= -64 && step <= 64 {
					class = "/off-by-rounding"
				}
				w.Tr.Violate(&sim.Violation{Prop: "C13", Oracle: "allocated", Sig: fmt.Sprintf("C13/allocated-differs-from-open-allocations/%s/%s-blobber%s", fn, liveness(b), class),
					Detail: fmt.Sprintf("after %s blobber %s (%s) has Allocated=%d but its blobber allocations in open allocations sum to %d (%s)", fn, short(id), liveness(b), b.Allocated, sumSize[id], sign(dA))})
			}
		}
		if dO != c.discO[id] {
			c.discO[id] = dO
			if dO != 0 {
				w.Tr.Violate(&sim.Violation{Prop: "C13", Oracle: "offers", Sig: fmt.Sprintf("C13/total-offers-differ-from-open-allocations/%s/%s-blobber", fn, liveness(b)),
					Detail: fmt.Sprintf("after %s blobber %s (%s) has stake pool TotalOffers=%d but the offers of its open allocations sum to %d (%s)", fn, short(id), liveness(b), b.SP.TotalOffers, sumOffer[id], sign(dO))})
			}
		}
		if newly[id] {
			w.Tr.Probe("allocation_assigned_to_blobber")
			if b.Allocated > b.Capacity {
				w.Tr.Violate(&sim.Violation{Prop: "C13", Oracle: "capacity", Sig: "C13/allocated-exceeds-capacity-on-assignment/" + fn,
					Detail: fmt.Sprintf("%s assigned an allocation to blobber %s: Allocated=%d > Capacity=%d", fn, short(id), b.Allocated, b.Capacity)})
			}
			if b.Allocated == b.Capacity {
				w.Tr.Probe("assignment_fills_capacity_exactly")
			}
		}
	}
}

func sign(d int64) string {
	if d > 0 {
		return "too-high"
	}
	return "too-low"
}

func short(id string) string {
	if len(id) > 8 {
		return id[:8]
	}
	return id
}

// ---- C12: challenge pool equals the blobbers' outstanding values -----------------------------------

type OracleC12 struct {
	sw     *SW
	disc   map[string]int64
	orphan map[string]bool
}

func NewOracleC12(sw *SW) *OracleC12 {
	return &OracleC12{sw: sw, disc: map[string]int64{}, orphan: map[string]bool{}}
}

func (c *OracleC12) AfterBlock(w *ledger.World, bc *ledger.BlockCtx) {}

func (c *OracleC12) AfterTxn(w *ledger.World, bc *ledger.BlockCtx, o *ledger.Outcome) {
	if o.Class == ledger.Rejected {
		return
	}
	cur, prev := c.sw.V.Cur, c.sw.V.Prev
	fn := fnOf(o.Txn)
	for _, id := range c.sw.V.OpenAllocIDs(cur) {
		a := cur.Allocs[id]
		var sum uint64
		for _, ba := range a.BAs {
			sum += ba.Integral
		}
		bal, has := cur.CP[id]
		if a.Enterprise {
			// enterprise allocations have no challenge pool by construction
			if has || sum != 0 {
				if c.disc[id] != -1 {
					c.disc[id] = -1
					w.Tr.Violate(&sim.Violation{Prop: "C12", Oracle: "pool", Sig: "C12/enterprise-allocation-has-challenge-value/" + fn,
						Detail: fmt.Sprintf("enterprise allocation %s: pool present=%v, outstanding values %d", short(id), has, sum)})
				}
			}
			continue
		}
		if !has {
			if c.disc[id] != math.MinInt64 {
				c.disc[id] = math.MinInt64
				w.Tr.Violate(&sim.Violation{Prop: "C12", Oracle: "pool", Sig: "C12/challenge-pool-missing-for-open-allocation/" + fn,
					Detail: fmt.Sprintf("open allocation %s has no challenge pool record after %s", short(id), fn)})
			}
			continue
		}
		d := int64(bal) - int64(sum)
		if d != c.disc[id] {
			c.disc[id] = d
			if d != 0 {
				dir := "pool-exceeds-values"
				if d < 0 {
					dir = "values-exceed-pool"
				}
				// context: did a dead blobber leave the allocation in this transaction?
				if prev != nil && prev.Allocs[id] != nil {
					for _, pba := range prev.Allocs[id].BAs {
						if a.BA(pba.BlobberID) == nil {
							if pb := prev.Blobbers[pba.BlobberID]; pb != nil && pb.Dead() {
								dir += "/dead-blobber-removed"
							}
						}
					}
				}
				w.Tr.Violate(&sim.Violation{Prop: "C12", Oracle: "balance", Sig: fmt.Sprintf("C12/challenge-pool-differs-from-outstanding-values/%s/%s", fn, dir),
					Detail: fmt.Sprintf("after %s allocation %s: challenge pool balance %d, sum of blobbers' ChallengePoolIntegralValue %d", fn, short(id), bal, sum)})
			}
		}
		if sum > 0 {
			w.Tr.Probe("challenge_pool_nonzero")
		}
		if prev != nil {
			if pb, ok := prev.CP[id]; ok && pb != bal {
				// which operations really moved the pool (and were checked)
				if bal > pb {
					w.Tr.Probe("pool_grew/" + fn)
				} else {
					w.Tr.Probe("pool_shrank/" + fn)
				}
			}
		}
	}
	// after close: the pool record is gone
	for _, id := range sortedKeys(cur.CP) {
		if cur.Allocs[id] == nil && !c.orphan[id] {
			c.orphan[id] = true
			closedNow := prev != nil && prev.Allocs[id] != nil
			sig := "C12/challenge-pool-without-allocation/" + fn
			if closedNow {
				sig = "C12/challenge-pool-remains-after-close/" + fn
			}
			w.Tr.Violate(&sim.Violation{Prop: "C12", Oracle: "close", Sig: sig,
				Detail: fmt.Sprintf("challenge pool of allocation %s (balance %d) exists while the allocation record is absent", short(id), cur.CP[id])})
		}
	}
	if prev != nil {
		for id := range prev.Allocs {
			if cur.Allocs[id] == nil {
				w.Tr.Probe("allocation_closed_pool_checked")
			}
		}
	}
}

// ---- C14: closing an allocation refunds the rest exactly once --------------------------------------

type OracleC14 struct {
	sw     *SW
	closes map[string]int
	closed map[string]bool
	risen  map[string]bool
}

func NewOracleC14(sw *SW) *OracleC14 {
	return &OracleC14{sw: sw, closes: map[string]int{}, closed: map[string]bool{}, risen: map[string]bool{}}
}

func (c *OracleC14) AfterBlock(w *ledger.World, bc *ledger.BlockCtx) {}

// allocRef extracts the allocation id a storage call refers to.
func allocRef(fn string, in []byte) string {
	switch fn {
	case "write_pool_lock", "finalize_allocation", "cancel_allocation":
		var r struct {
			ID string `json:"allocation_id"`
		}
		_ = json.Unmarshal(in, &r)
		return r.ID
	case "update_allocation_request":
		var r struct {
			ID string `json:"id"`
		}
		_ = json.Unmarshal(in, &r)
		return r.ID
	case "commit_connection":
		var r struct {
			WM struct {
				ID string `json:"allocation_id"`
			} `json:"write_marker"`
		}
		_ = json.Unmarshal(in, &r)
		return r.WM.ID
	case "read_redeem":
		var r struct {
			RM struct {
				ID string `json:"allocation_id"`
			} `json:"read_marker"`
		}
		_ = json.Unmarshal(in, &r)
		return r.RM.ID
	}
	return ""
}

func accountDelta(w *ledger.World, o *ledger.Outcome, id string) *big.Int {
	accts, _ := w.SplitChanges(o.Changes())
	for _, a := range accts {
		if a.ID == id {
			return a.BalDelta()
		}
	}
	return new(big.Int)
}

func (c *OracleC14) AfterTxn(w *ledger.World, bc *ledger.BlockCtx, o *ledger.Outcome) {
	if o.Class == ledger.Rejected {
		return
	}
	cur, prev := c.sw.V.Cur, c.sw.V.Prev
	t := o.Txn
	fn, in := txnInput(t)
	// nothing may bring a closed allocation (or its pool) back
	for id := range c.closed {
		if (cur.Allocs[id] != nil || hasCP(cur, id)) && !c.risen[id] {
			c.risen[id] = true
			w.Tr.Violate(&sim.Violation{Prop: "C14", Oracle: "removed", Sig: "C14/closed-allocation-record-reappeared/" + fn,
				Detail: fmt.Sprintf("allocation %s was closed but its record or challenge pool exists again after %s", short(id), fn)})
		}
	}
	if !isStorage(t) || o.Class != ledger.Success {
		return
	}
	ref := allocRef(fn, in)
	if fn != "finalize_allocation" && fn != "cancel_allocation" {
		if ref != "" && c.closed[ref] {
			w.Tr.Violate(&sim.Violation{Prop: "C14", Oracle: "after-close", Sig: "C14/operation-succeeded-on-closed-allocation/" + fn,
				Detail: fmt.Sprintf("%s on closed allocation %s succeeded", fn, short(ref))})
		}
		return
	}
	// a successful close
	id := ref
	c.closes[id]++
	var pre *AllocView
	if prev != nil {
		pre = prev.Allocs[id]
	}
	if c.closes[id] > 1 || c.closed[id] {
		w.Tr.Violate(&sim.Violation{Prop: "C14", Oracle: "once", Sig: "C14/allocation-closed-twice/" + fn,
			Detail: fmt.Sprintf("allocation %s closed %d times", short(id), c.closes[id])})
	}
	if pre == nil {
		w.Tr.Violate(&sim.Violation{Prop: "C14", Oracle: "once", Sig: "C14/close-succeeded-without-open-allocation/" + fn,
			Detail: fmt.Sprintf("%s of %s succeeded although no open allocation record existed", fn, short(id))})
		c.closed[id] = true
		return
	}
	c.closed[id] = true
	w.Tr.Probe("close_checked")
	if cur.Allocs[id] != nil {
		w.Tr.Violate(&sim.Violation{Prop: "C14", Oracle: "removed", Sig: "C14/allocation-record-remains-after-close/" + fn,
			Detail: fmt.Sprintf("allocation %s still present after a successful %s", short(id), fn)})
	}
	if hasCP(cur, id) {
		w.Tr.Violate(&sim.Violation{Prop: "C14", Oracle: "removed", Sig: "C14/challenge-pool-remains-after-close/" + fn,
			Detail: fmt.Sprintf("challenge pool of %s still present after a successful %s", short(id), fn)})
	}
	// who and when (clock = transaction time)
	now := int64(t.CreationDate)
	if fn == "finalize_allocation" {
		if now < pre.Expiration {
			w.Tr.Violate(&sim.Violation{Prop: "C14", Oracle: "when", Sig: "C14/finalized-before-expiry",
				Detail: fmt.Sprintf("finalized at %d, expiration %d", now, pre.Expiration)})
		}
		if t.ClientID != pre.Owner && pre.BA(t.ClientID) == nil {
			w.Tr.Violate(&sim.Violation{Prop: "C14", Oracle: "who", Sig: "C14/finalized-by-unauthorised-caller",
				Detail: fmt.Sprintf("finalized by %s who is neither the owner nor one of its blobbers", short(t.ClientID))})
		}
	} else {
		if now > pre.Expiration {
			w.Tr.Violate(&sim.Violation{Prop: "C14", Oracle: "when", Sig: "C14/cancelled-after-expiry",
				Detail: fmt.Sprintf("cancelled at %d, expiration %d", now, pre.Expiration)})
		}
		if t.ClientID != pre.Owner {
			w.Tr.Violate(&sim.Violation{Prop: "C14", Oracle: "who", Sig: "C14/cancelled-by-non-owner",
				Detail: fmt.Sprintf("cancelled by %s, owner is %s", short(t.ClientID), short(pre.Owner))})
		}
	}
	// payments
	cpPre := prev.CP[id]
	var cost float64
	for _, ba := range pre.BAs {
		cost += float64(uint64(float64(ba.WritePrice) * (float64(ba.Size) / float64(gb))))
	}
	charge := uint64(math.Ceil(cost*cur.Conf.CancellationCharge)) + 1
	var credited uint64
	for _, ba := range pre.BAs {
		var before, after uint64
		if b := prev.Blobbers[ba.BlobberID]; b != nil {
			before = b.SP.Credited()
		}
		if b := cur.Blobbers[ba.BlobberID]; b != nil {
			after = b.SP.Credited()
		}
		var got uint64
		if after > before {
			got = after - before
		}
		credited += got
		if debugOut {
			pb, cb := prev.Blobbers[ba.BlobberID], cur.Blobbers[ba.BlobberID]
			w.Tr.Event("    close: blobber %s credited %d (rewards %d -> %d, stake %d -> %d, killed %v) integral %d", short(ba.BlobberID), got, before, after, pb.SP.Stake(), cb.SP.Stake(), pb.SP.Killed, ba.Integral)
		}
		if pre.Enterprise {
			// enterprise allocations pay the blobbers for the used time at close (no
			// challenge pool); the statement's bound speaks of challenge rewards only
			continue
		}
		if got > ba.Integral+charge {
			w.Tr.Violate(&sim.Violation{Prop: "C14", Oracle: "blobber-pay", Sig: "C14/blobber-paid-more-than-earned-plus-charge/" + fn,
				Detail: fmt.Sprintf("blobber %s credited %d on close, outstanding challenge value %d, configured cancellation charge %d", short(ba.BlobberID), got, ba.Integral, charge)})
		}
	}
	if pre.Enterprise {
		w.Tr.Probe("enterprise_close_checked")
	}
	if credited > cpPre+charge && !pre.Enterprise {
		w.Tr.Violate(&sim.Violation{Prop: "C14", Oracle: "blobber-pay", Sig: "C14/blobbers-paid-more-than-pool-plus-charge/" + fn,
			Detail: fmt.Sprintf("blobbers credited %d on close, challenge pool %d, configured cancellation charge %d", credited, cpPre, charge)})
	}
	if credited > 0 {
		w.Tr.Probe("close_paid_blobbers")
	}
	// the owner receives every remaining token: write pool + what is left of the challenge pool - what the blobbers actually got
	got := accountDelta(w, o, pre.Owner)
	if t.ClientID == pre.Owner && w.C.ChainConfig.IsFeeEnabled() {
		got.Add(got, new(big.Int).SetUint64(uint64(t.Fee)))
	}
	want := new(big.Int).SetUint64(pre.WritePool)
	want.Add(want, new(big.Int).SetUint64(cpPre))
	want.Sub(want, new(big.Int).SetUint64(credited))
	if got.Cmp(want) != 0 {
		dir := "short"
		if got.Cmp(want) > 0 {
			dir = "excess"
		}
		// context: is there a blobber whose stake pool takes no rewards at all
		// (killed / shut down, or staked below the pool's minimum after a slash)?
		dead := "all-stake-pools-take-rewards"
		for _, ba := range pre.BAs {
			pb, cb := prev.Blobbers[ba.BlobberID], cur.Blobbers[ba.BlobberID]
			if pb == nil || pb.Dead() || pb.SP.Rewardless() || (cb != nil && cb.SP.Rewardless()) {
				dead = "with-rewardless-stake-pool"
			}
		}
		w.Tr.Violate(&sim.Violation{Prop: "C14", Oracle: "refund", Sig: fmt.Sprintf("C14/owner-refund-differs-from-remaining-pools/%s/%s/%s", fn, dir, dead),
			Detail: fmt.Sprintf("owner received %s; write pool %d + challenge pool %d - paid to blobbers %d = %s", got, pre.WritePool, cpPre, credited, want)})
	}
}

func hasCP(v *View, id string) bool { _, ok := v.CP[id]; return ok }

// ---- C15: read markers charge each read exactly once -----------------------------------------------

type OracleC15 struct {
	sw  *SW
	max map[string]int64 // read connection key -> highest accepted counter (model)
}

func NewOracleC15(sw *SW) *OracleC15 { return &OracleC15{sw: sw, max: map[string]int64{}} }

func (c *OracleC15) AfterBlock(w *ledger.World, bc *ledger.BlockCtx) {}

func newScheme(w *ledger.World) encryption.SignatureScheme {
	if w.Cfg.Scheme == "ed25519" {
		return encryption.NewED25519Scheme()
	}
	return encryption.NewBLS0ChainScheme()
}

func verifySig(w *ledger.World, pk, sig, hash string) bool {
	ss := newScheme(w)
	if err := ss.SetPublicKey(pk); err != nil {
		return false
	}
	ok, err := ss.Verify(sig, hash)
	return ok && err == nil
}

func (c *OracleC15) AfterTxn(w *ledger.World, bc *ledger.BlockCtx, o *ledger.Outcome) {
	if o.Class == ledger.Rejected {
		return
	}
	cur, prev := c.sw.V.Cur, c.sw.V.Prev
	if prev == nil {
		return
	}
	t := o.Txn
	fn, in := txnInput(t)
	isRedeem := isStorage(t) && fn == "read_redeem" && o.Class == ledger.Success
	var m rmJSON
	var key string
	if isRedeem {
		var r struct {
			RM rmJSON `json:"read_marker"`
		}
		_ = json.Unmarshal(in, &r)
		m = r.RM
		key = keyReadConn(m.BlobberID, m.ClientID, m.AllocationID)
	}
	// counters in state never decrease; they move only through an accepted marker of that triple
	for _, k := range sortedKeys(prev.ReadCtr) {
		nv, ok := cur.ReadCtr[k]
		if !ok || nv < prev.ReadCtr[k] {
			w.Tr.Violate(&sim.Violation{Prop: "C15", Oracle: "monotone", Sig: "C15/read-counter-decreased/" + fn,
				Detail: fmt.Sprintf("read counter %d -> %d (present=%v) after %s", prev.ReadCtr[k], nv, ok, fn)})
		}
	}
	for _, k := range sortedKeys(cur.ReadCtr) {
		if cur.ReadCtr[k] != prev.ReadCtr[k] && !(isRedeem && k == key) {
			w.Tr.Violate(&sim.Violation{Prop: "C15", Oracle: "monotone", Sig: "C15/read-counter-changed-without-its-marker/" + fn,
				Detail: fmt.Sprintf("read counter %d -> %d after %s", prev.ReadCtr[k], cur.ReadCtr[k], fn)})
		}
	}
	// read pools are debited only by an accepted marker of that client (or emptied by their owner's unlock)
	for _, cl := range sortedKeys(prev.ReadPools) {
		if cur.ReadPools[cl] < prev.ReadPools[cl] {
			if isRedeem && cl == m.ClientID {
				continue
			}
			if isStorage(t) && fn == "read_pool_unlock" && t.ClientID == cl {
				continue
			}
			w.Tr.Violate(&sim.Violation{Prop: "C15", Oracle: "debit", Sig: "C15/read-pool-debited-without-marker-of-its-client/" + fn,
				Detail: fmt.Sprintf("read pool of %s went %d -> %d after %s", short(cl), prev.ReadPools[cl], cur.ReadPools[cl], fn)})
		}
	}
	if !isRedeem {
		return
	}
	w.Tr.Probe("read_marker_accepted")
	// signer: the marker must be signed by the key whose hash is the client id
	pkb, err := hex.DecodeString(m.ClientPublicKey)
	if err != nil || encryption.Hash(pkb) != m.ClientID || !verifySig(w, m.ClientPublicKey, m.Signature, encryption.Hash(m.hashData())) {
		w.Tr.Violate(&sim.Violation{Prop: "C15", Oracle: "signer", Sig: "C15/marker-not-signed-by-client-accepted",
			Detail: fmt.Sprintf("read marker for client %s accepted although its signature does not verify under the client's key", short(m.ClientID))})
	}
	old, now := prev.ReadCtr[key], cur.ReadCtr[key]
	if now != m.ReadCounter {
		w.Tr.Violate(&sim.Violation{Prop: "C15", Oracle: "counter", Sig: "C15/stored-counter-differs-from-accepted-marker",
			Detail: fmt.Sprintf("marker counter %d accepted, state holds %d", m.ReadCounter, now)})
	}
	if old != c.max[key] {
		w.Tr.Violate(&sim.Violation{Prop: "C15", Oracle: "counter", Sig: "C15/stored-counter-differs-from-highest-redeemed",
			Detail: fmt.Sprintf("state held %d before the marker, the highest redeemed counter is %d", old, c.max[key])})
	}
	if now > c.max[key] {
		c.max[key] = now
	}
	var price uint64
	if a := prev.Allocs[m.AllocationID]; a != nil {
		if ba := a.BA(m.BlobberID); ba != nil {
			price = ba.ReadPrice
		}
	}
	delta := now - old
	if delta < 0 {
		delta = 0
	}
	// price is per GB, a counter unit is one 64 KB chunk: price * delta / 16384
	want := new(big.Int).Mul(new(big.Int).SetUint64(price), big.NewInt(delta))
	want.Div(want, big.NewInt(16384))
	debit := new(big.Int).Sub(new(big.Int).SetUint64(prev.ReadPools[m.ClientID]), new(big.Int).SetUint64(cur.ReadPools[m.ClientID]))
	diff := new(big.Int).Sub(debit, want)
	tol := new(big.Int).Rsh(want, 48) // float64 arithmetic of the contract on very large amounts
	tol.Add(tol, big.NewInt(1))
	if diff.CmpAbs(tol) > 0 {
		kind := "new-reads"
		if now <= old {
			kind = "replayed-or-older-marker"
		}
		dir := "overcharged"
		if diff.Sign() < 0 {
			dir = "undercharged"
		}
		w.Tr.Violate(&sim.Violation{Prop: "C15", Oracle: "charge", Sig: fmt.Sprintf("C15/read-pool-debit-differs-from-price-times-new-reads/%s/%s", kind, dir),
			Detail: fmt.Sprintf("counter %d -> %d at read price %d: expected debit %s, read pool debited %s", old, now, price, want, debit)})
	}
	if delta > 0 && want.Sign() > 0 {
		w.Tr.Probe("read_charged")
	}
	if delta == 0 {
		w.Tr.Probe("read_marker_equal_counter_accepted_free")
	}
}

// ---- C24: free-storage grants stay within assigner limits and redeem once --------------------------

type OracleC24 struct {
	sw    *SW
	reg   map[string]string // assigner name -> public key registered by the contract owner (model)
	used  map[string]map[int64]bool
	total map[string]uint64
}

func NewOracleC24(sw *SW) *OracleC24 {
	return &OracleC24{sw: sw, reg: map[string]string{}, used: map[string]map[int64]bool{}, total: map[string]uint64{}}
}

func (c *OracleC24) AfterBlock(w *ledger.World, bc *ledger.BlockCtx) {}

func sameNonces(a, b []int64) bool {
	if len(a) != len(b) {
		return false
	}
	for i := range a {
		if a[i] != b[i] {
			return false
		}
	}
	return true
}

func (c *OracleC24) AfterTxn(w *ledger.World, bc *ledger.BlockCtx, o *ledger.Outcome) {
	if o.Class == ledger.Rejected {
		return
	}
	cur, prev := c.sw.V.Cur, c.sw.V.Prev
	if prev == nil {
		return
	}
	t := o.Txn
	fn, in := txnInput(t)
	ok := isStorage(t) && o.Class == ledger.Success
	isGrant := ok && fn == "free_allocation_request"
	isReg := ok && fn == "add_free_storage_assigner"
	var m freeMarkerJSON
	if isGrant {
		var inp struct {
			Marker string `json:"marker"`
		}
		_ = json.Unmarshal(in, &inp)
		_ = json.Unmarshal([]byte(inp.Marker), &m)
	}
	// assigner records change only by the owner's registration or by a redemption under that assigner
	for _, n := range sortedKeys(cur.Assigners) {
		a, p := cur.Assigners[n], prev.Assigners[n]
		regChanged := p == nil || p.PublicKey != a.PublicKey || p.Individual != a.Individual || p.Total != a.Total
		if regChanged {
			if !isReg || t.ClientID != w.OwnerID {
				w.Tr.Violate(&sim.Violation{Prop: "C24", Oracle: "registration", Sig: "C24/assigner-registered-or-changed-without-owner/" + fn,
					Detail: fmt.Sprintf("assigner %q key/limits changed by %s of %s", n, fn, short(t.ClientID))})
			} else {
				c.reg[n] = a.PublicKey
				w.Tr.Probe("assigner_registered")
			}
		}
		var pr uint64
		var pn []int64
		if p != nil {
			pr, pn = p.Redeemed, p.Nonces
		}
		if (a.Redeemed != pr || !sameNonces(a.Nonces, pn)) && !(isGrant && m.Assigner == n) {
			w.Tr.Violate(&sim.Violation{Prop: "C24", Oracle: "redeemed", Sig: "C24/redeemed-amount-or-nonces-changed-without-redemption/" + fn,
				Detail: fmt.Sprintf("assigner %q redeemed %d -> %d after %s", n, pr, a.Redeemed, fn)})
		}
	}
	if !isGrant {
		return
	}
	w.Tr.Probe("free_grant_accepted")
	// exactly one new allocation, owned by the named recipient, requested by the named recipient
	var created []*AllocView
	for _, id := range c.sw.V.OpenAllocIDs(cur) {
		if prev.Allocs[id] == nil {
			created = append(created, cur.Allocs[id])
		}
	}
	if len(created) != 1 {
		w.Tr.Violate(&sim.Violation{Prop: "C24", Oracle: "grant", Sig: "C24/grant-created-wrong-number-of-allocations",
			Detail: fmt.Sprintf("a successful free_allocation_request created %d allocations", len(created))})
	}
	if t.ClientID != m.Recipient {
		w.Tr.Violate(&sim.Violation{Prop: "C24", Oracle: "recipient", Sig: "C24/marker-redeemed-by-other-than-recipient",
			Detail: fmt.Sprintf("marker for %s redeemed by %s", short(m.Recipient), short(t.ClientID))})
	}
	for _, a := range created {
		if a.Owner != m.Recipient {
			w.Tr.Violate(&sim.Violation{Prop: "C24", Oracle: "recipient", Sig: "C24/allocation-created-for-other-than-recipient",
				Detail: fmt.Sprintf("marker names %s, the allocation belongs to %s", short(m.Recipient), short(a.Owner))})
		}
	}
	// valid signature of a registered assigner
	pa := prev.Assigners[m.Assigner]
	pk, registered := c.reg[m.Assigner]
	if pa == nil || !registered {
		w.Tr.Violate(&sim.Violation{Prop: "C24", Oracle: "assigner", Sig: "C24/grant-under-unregistered-assigner",
			Detail: fmt.Sprintf("assigner %q is not registered", m.Assigner)})
		return
	}
	if !verifySig(w, pk, m.Signature, m.signed()) {
		w.Tr.Violate(&sim.Violation{Prop: "C24", Oracle: "signature", Sig: "C24/marker-without-valid-assigner-signature-accepted",
			Detail: fmt.Sprintf("marker (recipient %s, %f tokens, nonce %d) does not verify under the key registered for %q", short(m.Recipient), m.FreeTokens, m.Nonce, m.Assigner)})
	}
	// once per nonce
	if c.used[m.Assigner] == nil {
		c.used[m.Assigner] = map[int64]bool{}
	}
	if c.used[m.Assigner][m.Nonce] {
		w.Tr.Violate(&sim.Violation{Prop: "C24", Oracle: "nonce", Sig: "C24/marker-nonce-redeemed-twice",
			Detail: fmt.Sprintf("nonce %d of assigner %q redeemed again", m.Nonce, m.Assigner)})
	}
	c.used[m.Assigner][m.Nonce] = true
	// limits
	val, err := currency.ParseZCN(m.FreeTokens)
	if err != nil {
		w.Tr.Violate(&sim.Violation{Prop: "C24", Oracle: "limits", Sig: "C24/grant-of-unparsable-amount-accepted", Detail: err.Error()})
		return
	}
	v := uint64(val)
	if v > pa.Individual {
		w.Tr.Violate(&sim.Violation{Prop: "C24", Oracle: "limits", Sig: "C24/grant-exceeds-individual-limit",
			Detail: fmt.Sprintf("grant %d, individual limit %d", v, pa.Individual)})
	}
	c.total[m.Assigner] += v
	if c.total[m.Assigner] > pa.Total {
		w.Tr.Violate(&sim.Violation{Prop: "C24", Oracle: "limits", Sig: "C24/redeemed-total-exceeds-total-limit",
			Detail: fmt.Sprintf("total redeemed %d, total limit %d", c.total[m.Assigner], pa.Total)})
	}
	if ca := cur.Assigners[m.Assigner]; ca == nil || ca.Redeemed != pa.Redeemed+v || ca.Redeemed != c.total[m.Assigner] {
		var have uint64
		if ca != nil {
			have = ca.Redeemed
		}
		w.Tr.Violate(&sim.Violation{Prop: "C24", Oracle: "limits", Sig: "C24/recorded-redeemed-amount-differs-from-grants",
			Detail: fmt.Sprintf("state records %d redeemed, grants sum to %d", have, c.total[m.Assigner])})
	}
	// the grant is paid by the configured storage owner: never more than the marker's amount
	d := accountDelta(w, o, w.OwnerID)
	if d.Sign() < 0 && new(big.Int).Neg(d).Cmp(new(big.Int).SetUint64(v)) > 0 {
		w.Tr.Violate(&sim.Violation{Prop: "C24", Oracle: "limits", Sig: "C24/grant-debits-owner-more-than-marker-amount",
			Detail: fmt.Sprintf("owner wallet changed by %s for a grant of %d", d, v)})
	}
}
