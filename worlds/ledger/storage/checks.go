package storage

import (
	"verif/sim"
	"verif/worlds/ledger"
)

var stWeights = map[string]int{"send": 3, "call": 2, "pour": 1, "data": 0, "replay": 2, "block": 4, "clock": 1}

func scenario(prop string, prof *profile, mk func(sw *SW) ledger.Observer) ledger.Scenario {
	return ledger.Scenario{
		Prop: prop, Weights: stWeights, Lo: 4, Hi: 24,
		GenExtra: func(r *sim.RNG, p *sim.Plan, tier string) { genStorage(r, p, tier, prof) },
		Setup: func(w *ledger.World, r *ledger.Runner) []ledger.Observer {
			sw := NewSW(w, r)
			return []ledger.Observer{viewObs{sw}, mk(sw)}
		},
	}
}

var components = sim.Components{
	Real: append(append([]string{}, ledger.W1Components.Real...),
		"smartcontract/storagesc: add_validator, add_blobber, stake_pool_lock/unlock, new_allocation_request, update_allocation_request (extend, add/replace blobber), write_pool_lock, read_pool_lock/unlock, commit_connection (v1 and chained v2 write markers), generate_challenge, challenge_response, finalize_allocation, cancel_allocation, kill/shutdown blobber and validator, update_blobber_settings, read_redeem, add_free_storage_assigner, free_allocation_request, update_settings/commit_settings_changes, health checks, collect_reward",
		"smartcontract/stakepool, smartcontract/partitions, smartcontract/provider", "minersc add_hardfork (demeter / electra activation)"),
	Sim: append(append([]string{}, ledger.W1Components.Sim...),
		"blobbers, validators, free-storage assigners, allocation owners and readers (seeded keys; they sign real write markers, read markers, validation tickets and free-storage markers)"),
	Stub: ledger.W1Components.Stub,
}

const technique = "deterministic simulation: seeded storage histories (bootstrap through real transactions, symbolic plans, clock steps) with fault injection (forged / replayed / stale markers, wrong callers, early / late by clock, chargeable late failures, repeated kills), oracle on the records decoded from the real trie after every transaction"

const decodeNote = "records are read from the block's real MPT after every applied transaction: allocations and blobbers with the contract's exported wrapper types, stake pools / challenge pools / read pools / assigners generically by msgp field name; the set of record keys comes from hook H1"

func init() {
	ledger.RegisterWorkload(&ledger.Workload{
		Name:     "storage",
		GenExtra: func(r *sim.RNG, p *sim.Plan, tier string) { genStorage(r, p, tier, profMixed) },
		Setup:    func(w *ledger.World, r *ledger.Runner) { NewSW(w, r) },
	})

	c12 := scenario("C12", profC12, func(sw *SW) ledger.Observer { return NewOracleC12(sw) })
	sim.Register(&sim.Check{
		ID: "C12", Title: "An allocation's challenge pool equals its blobbers' outstanding values", World: "ledger",
		Gen: c12.Gen, Exec: c12.Exec,
		Quick: sim.Budget{Runs: 256, WallS: 70}, Thorough: sim.Budget{Runs: 12000, WallS: 1300}, RunsPerProc: 16,
		LevelText: "seeded search over storage histories: allocations, client-signed write markers of positive and negative size (v1 and chained v2) committed by blobbers, generated challenges answered with validator tickets (pass / fail / late / malformed), size extensions, blobber replacement incl. killed blobbers, finalize / cancel; after every applied transaction every open allocation's challenge pool balance must equal the sum of its blobbers' ChallengePoolIntegralValue, and no pool record may exist without its allocation",
		LevelNote: decodeNote + "; enterprise allocations (no challenge pool by construction) are only checked for having no pool and no outstanding value",
		Technique: technique, DesignRef: "6/C12", Regime: "single-threaded event loop", Components: components,
	})

	c13 := scenario("C13", profC13, func(sw *SW) ledger.Observer { return NewOracleC13(sw) })
	sim.Register(&sim.Check{
		ID: "C13", Title: "Blobber capacity and offers track the open allocations", World: "ledger",
		Gen: c13.Gen, Exec: c13.Exec,
		Quick: sim.Budget{Runs: 256, WallS: 70}, Thorough: sim.Budget{Runs: 12000, WallS: 1300}, RunsPerProc: 16,
		LevelText: "seeded search over histories of allocation create / extend / add and replace blobber / finalize / cancel and blobber settings updates, kills and shutdowns (repeated, by owner, delegate and strangers); after every applied transaction, for every blobber (dead ones included): Allocated == sum of its blobber-allocation sizes over open allocations, stake pool TotalOffers == sum of the same allocations' Offer(), and Allocated <= Capacity whenever an allocation was newly assigned to it in that transaction",
		LevelNote: decodeNote + "; a discrepancy is reported once, on the transaction that changes it; Offer() is the shipped method evaluated on the decoded record",
		Technique: technique, DesignRef: "6/C13, 8", Regime: "single-threaded event loop", Components: components,
	})

	c14 := scenario("C14", profC14, func(sw *SW) ledger.Observer { return NewOracleC14(sw) })
	sim.Register(&sim.Check{
		ID: "C14", Title: "Closing an allocation refunds the rest exactly once", World: "ledger",
		Gen: c14.Gen, Exec: c14.Exec,
		Quick: sim.Budget{Runs: 256, WallS: 70}, Thorough: sim.Budget{Runs: 12000, WallS: 1300}, RunsPerProc: 16,
		LevelText: "seeded search over allocation histories with repeated finalize / cancel by owner, blobbers, strangers and the contract owner, before / at / after expiry (clock steps relative to each allocation's expiry), and locks, markers and updates after closing; on every successful close: first and only close of that id, caller and time as the statement demands, allocation and challenge-pool records gone, each blobber credited at most its outstanding challenge value plus the configured cancellation charge, the owner's wallet credited exactly write pool + challenge pool - what the blobbers were credited; no later operation on the id succeeds",
		LevelNote: decodeNote + "; 'credited' is the increase of the reward counters in the blobbers' stake pools; the configured charge is cancellation_charge x allocation cost recomputed from the decoded terms (+1 token rounding)",
		Technique: technique, DesignRef: "6/C14", Regime: "single-threaded event loop", Components: components,
	})

	c15 := scenario("C15", profC15, func(sw *SW) ledger.Observer { return NewOracleC15(sw) })
	sim.Register(&sim.Check{
		ID: "C15", Title: "Read markers charge each read exactly once", World: "ledger",
		Gen: c15.Gen, Exec: c15.Exec,
		Quick: sim.Budget{Runs: 256, WallS: 70}, Thorough: sim.Budget{Runs: 12000, WallS: 1300}, RunsPerProc: 16,
		LevelText: "seeded search over sequences of client-signed read markers per (blobber, client, allocation) with counters up / equal / down / zero / beyond the read pool, byte-identical replays, wrong signers, foreign keys, tampered counters, timestamps outside the allocation, redeemed by blobbers or strangers in any order; for every accepted marker the oracle re-verifies the signature itself, the read pool of that client is debited by read price x (new - old counter) x 64 KB and nothing else, counters in state never decrease and equal the highest redeemed counter",
		LevelNote: decodeNote + "; tolerance of the charge: 1 token + 2^-48 relative (the contract computes in float64); with an ed25519 chain every marker is rejected by the contract's BLS-only client-id check (runs counted, nothing to compare)",
		Technique: technique, DesignRef: "6/C15", Regime: "single-threaded event loop", Components: components,
	})

	c24 := scenario("C24", profC24, func(sw *SW) ledger.Observer { return NewOracleC24(sw) })
	sim.Register(&sim.Check{
		ID: "C24", Title: "Free-storage grants stay within assigner limits and redeem once", World: "ledger",
		Gen: c24.Gen, Exec: c24.Exec,
		Quick: sim.Budget{Runs: 256, WallS: 70}, Thorough: sim.Budget{Runs: 12000, WallS: 1300}, RunsPerProc: 16,
		LevelText: "seeded search over redemption sequences across several assigners: valid, forged, byte-identically replayed, re-signed with a used nonce, over the individual limit, over the total limit, redeemed by someone else than the recipient, amount / blobbers / recipient altered after signing, unknown assigner, assigner registration by strangers; for every accepted grant the oracle re-verifies the assigner signature itself against the key the contract owner registered, checks recipient == sender == owner of the single new allocation, first use of the nonce, amount <= individual limit, running total <= total limit and == the recorded redeemed amount, owner wallet debit <= amount",
		LevelNote: decodeNote,
		Technique: technique, DesignRef: "6/C24", Regime: "single-threaded event loop", Components: components,
	})
}
