package storage

import (
	"fmt"

	"verif/sim"
)

// profile biases the storage workload towards the operations a property cares about.
type profile struct {
	name   string
	w      map[string]int
	lo, hi int
}

// base weights of the storage operations and idioms (idioms expand to several steps)
var baseW = map[string]int{
	"st.new_alloc": 6, "st.update_alloc": 5, "st.wp_lock": 3, "st.rp_lock": 2, "st.rp_unlock": 1,
	"st.commit": 10, "st.gen_chal": 4, "st.chal_resp": 4, "st.finalize": 3, "st.cancel": 3, "st.clock_to": 2,
	"st.kill": 2, "st.update_blobber": 2, "st.read": 4, "st.add_assigner": 1, "st.free_alloc": 3, "st.collect": 1,
	"st.stake": 2, "st.unstake": 1, "st.health_all": 2, "st.health": 1, "st.add_blobber": 1, "st.add_validator": 1,
	"block": 8, "clock": 3,
	"i.write": 4, "i.challenge": 4, "i.late": 1, "i.expire": 3, "i.killreplace": 2, "i.reads": 2, "i.free": 1, "i.postclose": 2,
}

func mkProfile(name string, lo, hi int, mult map[string]int) *profile {
	w := map[string]int{}
	for k, v := range baseW {
		w[k] = v
	}
	for k, m := range mult {
		w[k] = baseW[k] * m
		if baseW[k] == 0 {
			w[k] = m
		}
	}
	return &profile{name: name, w: w, lo: lo, hi: hi}
}

var (
	profMixed = mkProfile("mixed", 30, 90, nil)
	profC12   = mkProfile("C12", 40, 110, map[string]int{"i.drain": 8, "st.commit": 2, "i.write": 3, "i.challenge": 3, "i.late": 3, "st.gen_chal": 2, "st.chal_resp": 2, "st.update_alloc": 2, "i.killreplace": 2, "st.read": 0, "st.free_alloc": 0, "i.reads": 0, "i.free": 0})
	profC13   = mkProfile("C13", 40, 110, map[string]int{"st.new_alloc": 2, "st.update_alloc": 3, "st.kill": 3, "i.killreplace": 4, "st.update_blobber": 3, "i.expire": 2, "st.read": 0, "i.reads": 0, "st.stake": 2, "st.unstake": 2})
	profC14   = mkProfile("C14", 40, 110, map[string]int{"st.finalize": 3, "st.cancel": 3, "i.expire": 4, "i.postclose": 4, "st.wp_lock": 2, "i.write": 2, "i.challenge": 2, "st.read": 0, "i.reads": 0, "st.kill": 2})
	profC15   = mkProfile("C15", 40, 110, map[string]int{"st.read": 6, "i.reads": 6, "i.reads_ts": 10, "st.rp_lock": 3, "st.rp_unlock": 2, "st.commit": 0, "i.write": 0, "i.challenge": 0, "i.late": 0, "st.gen_chal": 0, "st.chal_resp": 0, "st.free_alloc": 0, "i.free": 0, "i.killreplace": 0})
	profC24   = mkProfile("C24", 30, 90, map[string]int{"i.rotate": 8, "st.free_alloc": 8, "i.free": 8, "st.add_assigner": 4, "st.commit": 0, "i.write": 0, "i.challenge": 0, "i.late": 0, "st.gen_chal": 0, "st.chal_resp": 0, "st.read": 0, "i.reads": 0, "i.killreplace": 0})
)

func ri(r *sim.RNG, n int) int64 { return int64(r.Intn(n)) }

// mode: mostly "open allocations", sometimes "any allocation ever created"
func allocMode(r *sim.RNG) int64 {
	if r.Intn(8) == 0 {
		return 1
	}
	return 0
}

func callerKind(r *sim.RNG) int { return r.Pick([]int{12, 3, 2, 1, 1}) }

func optIdx(r *sim.RNG, pNone int, n int) int64 {
	if r.Intn(100) < pNone {
		return -1
	}
	return ri(r, n)
}

// genStep draws the symbolic arguments of one storage step.
func genStep(r *sim.RNG, op string) sim.Step {
	st := sim.Step{Op: op}
	switch op {
	case "st.new_alloc":
		st.A = r.Intn(8)
		st.I = []int64{int64(r.Pick([]int{3, 4, 2, 1})), int64(r.Pick([]int{5, 3, 1})), int64(r.Pick([]int{4, 4, 4, 2, 2, 2, 1, 3})), ri(r, 8), int64(r.Pick([]int{5, 2, 1})),
			int64(r.Pick([]int{1, 2, 4, 4, 3, 4})), ri(r, 5), ri(r, 16), int64(r.Pick([]int{14, 2, 1, 1}))}
	case "st.update_alloc":
		st.A = callerKind(r)
		st.I = []int64{ri(r, 8), allocMode(r), int64(r.Pick([]int{5, 2, 3, 1, 0})), ri(r, 2), optIdx(r, 45, 8), optIdx(r, 35, 8), int64(r.Pick([]int{3, 2, 3, 2})), ri(r, 4), optIdx(r, 92, 6)}
	case "st.wp_lock":
		st.A = callerKind(r)
		st.I = []int64{ri(r, 8), allocMode(r), int64(r.Pick([]int{3, 4, 2, 1, 1}))}
	case "st.rp_lock":
		st.A = r.Intn(8)
		st.I = []int64{int64(r.Pick([]int{4, 3, 2, 1, 1})), optIdx(r, 85, 6)}
	case "st.rp_unlock":
		st.A = r.Intn(8)
	case "st.commit":
		st.I = []int64{ri(r, 8), allocMode(r), ri(r, 8), int64(r.Pick([]int{5, 6, 2, 2, 2, 3, 1, 2, 1, 4})), int64(r.Pick([]int{30, 1, 1, 1, 1, 1, 1, 1, 0, 2, 0, 0})), int64(r.Pick([]int{3, 2}))}
	case "st.gen_chal":
		st.A = r.Intn(4)
	case "st.chal_resp":
		st.I = []int64{ri(r, 16), int64(r.Pick([]int{5, 3, 2, 4, 2, 1, 1, 1, 1, 1}))}
	case "st.clock_to":
		st.I = []int64{ri(r, 8), 0, []int64{1, 0, -1, 3600, -3600, 86400}[r.Pick([]int{5, 2, 2, 2, 2, 1})]}
	case "st.finalize", "st.cancel":
		st.A = callerKind(r)
		st.I = []int64{ri(r, 8), allocMode(r), ri(r, 8)}
	case "st.kill":
		st.A = r.Pick([]int{8, 2, 2})
		st.I = []int64{int64(r.Pick([]int{6, 4, 1, 1})), ri(r, 8)}
	case "st.update_blobber":
		st.A = r.Pick([]int{9, 1})
		st.I = []int64{ri(r, 8), int64(r.Pick([]int{4, 2, 2, 2, 1, 0})), int64(r.Pick([]int{5, 1, 1, 1, 1})), int64(r.Pick([]int{5, 1, 1, 1})), int64(r.Pick([]int{6, 1, 1, 0}))}
	case "st.read":
		st.A = r.Intn(8)
		st.I = []int64{ri(r, 8), allocMode(r), ri(r, 8), int64(r.Pick([]int{6, 4, 2, 2, 2, 1, 1, 3})), int64(r.Pick([]int{30, 2, 2, 1, 1, 2, 2, 0, 0, 3})), int64(r.Pick([]int{5, 1, 1, 1}))}
		// timestampKind from a child stream (Child does not advance r): the plans of checks that never read stay as they were
		st.I = append(st.I, int64(r.Child("read-ts").Pick([]int{14, 2, 1, 1, 2, 0, 0, 2})))
	case "st.add_assigner":
		st.A = r.Pick([]int{9, 1})
		st.I = []int64{ri(r, 4), int64(r.Pick([]int{2, 4, 2, 1, 1})), int64(r.Pick([]int{3, 3, 2, 1, 2}))}
		// keyKind from a child stream (Child does not advance r): all other arguments of every plan stay as they were
		st.I = append(st.I, int64(r.Child("assigner-key").Pick([]int{8, 2, 4, 2})))
	case "st.free_alloc":
		st.A = r.Intn(8)
		st.I = []int64{ri(r, 4), int64(r.Pick([]int{4, 3, 2, 2, 1})), int64(r.Pick([]int{24, 2, 3, 2, 2, 2, 2, 1, 1, 2, 2, 0})), ri(r, 8), ri(r, 8)}
	case "st.collect", "st.unstake":
		st.A = r.Intn(8)
		st.I = []int64{ri(r, 2), ri(r, 8)}
	case "st.stake":
		st.A = r.Intn(8)
		st.I = []int64{int64(r.Pick([]int{4, 1})), ri(r, 8), int64(r.Pick([]int{1, 3, 4, 2, 1, 1}))}
	case "st.health":
		st.I = []int64{ri(r, 2), ri(r, 8)}
	case "st.add_blobber":
		st.A = r.Intn(8)
		st.I = []int64{int64(r.Pick([]int{1, 3, 3, 1, 1})), int64(r.Pick([]int{1, 3, 4, 1, 1})), int64(r.Pick([]int{3, 2, 3, 1})), ri(r, 4), int64(r.Pick([]int{14, 0, 0, 0, 0, 0, 1, 1}))}
	case "st.add_validator":
		st.A = r.Intn(8)
	case "block":
		st.I = []int64{ri(r, 8), ri(r, 2)}
	case "clock":
		st.I = []int64{[]int64{1, 10, 3600, 86400, 86400 * 10}[r.Pick([]int{4, 3, 3, 2, 1})]}
	}
	return st
}

func withI(st sim.Step, k int, v int64) sim.Step {
	for len(st.I) <= k {
		st.I = append(st.I, 0)
	}
	st.I[k] = v
	return st
}

// expand turns an idiom into its steps.
func expand(r *sim.RNG, op string, mccr int) []sim.Step {
	switch op {
	case "i.write": // a client uploads: every blobber of one allocation commits
		a := ri(r, 8)
		n := 1 + r.Intn(4)
		var out []sim.Step
		for i := 0; i < n; i++ {
			s := genStep(r, "st.commit")
			s = withI(withI(withI(s, 0, a), 1, 0), 2, int64(i))
			out = append(out, s)
		}
		return out
	case "i.drain":
		// an exactly funded allocation is partly written, time passes, the owner extends it without locking anything
		// (write pool + challenge pool still cover the cost, but the extension moves the price of the added time for
		// the stored data into the challenge pool), then every blobber is filled: the last uploads cost more than
		// what is left in the write pool. Deletes afterwards move tokens back.
		data, parity := ri(r, 2), int64(r.Intn(2))
		nb := int(data+1) + int(parity+1)
		c := r.Intn(8)
		out := []sim.Step{{Op: "st.new_alloc", A: c, I: []int64{data, parity, 1, ri(r, 8), 0, 2, 0, 0, 0}}}
		first := []int64{9, 9, 1, 0}[r.Intn(4)]
		for i := 0; i < nb; i++ {
			out = append(out, sim.Step{Op: "st.commit", I: []int64{0, 2, int64(i), first, 0, int64(r.Intn(2))}})
		}
		if r.Intn(3) == 0 {
			out = append(out, genStep(r, "block"))
		}
		out = append(out, sim.Step{Op: "st.clock_to", I: []int64{0, 2, 0, int64(1 + r.Intn(6))}}, sim.Step{Op: "st.health_all"})
		out = append(out, sim.Step{Op: "st.update_alloc", A: 0, I: []int64{0, 2, 0, 1, -1, -1, 0, 0, -1}})
		for i := 0; i < nb; i++ {
			out = append(out, sim.Step{Op: "st.commit", I: []int64{0, 2, int64(i), 2, 0, int64(r.Intn(2))}})
		}
		for i := 0; i < 1+r.Intn(2); i++ {
			out = append(out, sim.Step{Op: "st.commit", I: []int64{0, 2, int64(nb - 1 - i), []int64{4, 5}[r.Intn(2)], 0, int64(r.Intn(2))}})
		}
		return out
	case "i.challenge":
		var out []sim.Step
		if r.Intn(3) != 0 {
			// time passes between the upload and the challenge (the reward is proportional to it)
			out = append(out, sim.Step{Op: "clock", I: []int64{[]int64{60, 3600, 86400}[r.Intn(3)]}}, sim.Step{Op: "st.health_all"})
		}
		out = append(out, genStep(r, "st.gen_chal"))
		if r.Intn(3) == 0 {
			out = append(out, genStep(r, "block"))
		}
		return append(out, genStep(r, "st.chal_resp"))
	case "i.late": // the response comes after the completion window
		out := []sim.Step{genStep(r, "st.gen_chal")}
		for i := 0; i <= mccr; i++ {
			out = append(out, sim.Step{Op: "block", I: []int64{0, 0}})
		}
		out = append(out, withI(genStep(r, "st.chal_resp"), 1, 0))
		if r.Intn(2) == 0 {
			out = append(out, genStep(r, "st.gen_chal"))
		}
		return out
	case "i.expire": // run an allocation to (around) its expiry and close it
		a := ri(r, 8)
		out := []sim.Step{withI(genStep(r, "st.clock_to"), 0, a), {Op: "st.health_all"}}
		cl := "st.finalize"
		if r.Intn(4) == 0 {
			cl = "st.cancel"
		}
		out = append(out, withI(withI(genStep(r, cl), 0, a), 1, 0))
		if r.Intn(3) == 0 {
			out = append(out, withI(withI(genStep(r, cl), 0, a), 1, 1)) // again
		}
		return out
	case "i.killreplace":
		b := ri(r, 8)
		out := []sim.Step{withI(genStep(r, "st.kill"), 1, b)}
		out[0].A = 0
		if r.Intn(2) == 0 {
			k2 := withI(genStep(r, "st.kill"), 1, b)
			out = append(out, k2)
		}
		u := genStep(r, "st.update_alloc")
		u.A = 0
		u = withI(withI(u, 4, ri(r, 8)), 5, ri(r, 8))
		return append(out, u)
	case "i.reads":
		a, b, c := ri(r, 8), ri(r, 8), r.Intn(8)
		var out []sim.Step
		for i := 0; i < 2+r.Intn(3); i++ {
			s := genStep(r, "st.read")
			s.A = c
			out = append(out, withI(withI(withI(s, 0, a), 1, 0), 2, b))
		}
		return out
	case "i.reads_ts":
		// markers of one (client, blobber, allocation) whose timestamps are not monotone with their counters: a marker
		// signed later (or ahead of the clock) is redeemed first, then a higher counter under an older, still valid
		// timestamp, then the last redeemed marker again (and again)
		a, b, c := ri(r, 8), ri(r, 8), r.Intn(8)
		rd := func(ctrKind, fault, tsKind int64) sim.Step {
			return sim.Step{Op: "st.read", A: c, I: []int64{a, 0, b, ctrKind, fault, 0, tsKind}}
		}
		var out []sim.Step
		if r.Intn(3) == 0 {
			out = append(out, sim.Step{Op: "st.rp_lock", A: c, I: []int64{int64(r.Intn(2)), -1}})
		}
		up := []int64{0, 1, 2, 7}
		out = append(out, rd(up[r.Intn(4)], 0, []int64{4, 4, 0}[r.Intn(3)]))
		switch r.Intn(4) {
		case 0:
			out = append(out, sim.Step{Op: "clock", I: []int64{[]int64{1, 10, 3600}[r.Intn(3)]}})
		case 1:
			out = append(out, sim.Step{Op: "block", I: []int64{ri(r, 8), ri(r, 2)}})
		}
		for i := 0; i < 1+r.Intn(2); i++ {
			out = append(out, rd(up[r.Intn(4)], 0, []int64{0, 1, 2, 3}[r.Intn(4)]))
		}
		for i := 0; i < 1+r.Intn(3); i++ {
			if r.Intn(4) == 0 {
				out = append(out, sim.Step{Op: "block", I: []int64{ri(r, 8), ri(r, 2)}})
			}
			out = append(out, rd(0, 9, 7))
		}
		return out
	case "i.free":
		a := ri(r, 4)
		out := []sim.Step{withI(withI(genStep(r, "st.free_alloc"), 0, a), 2, 0)}
		out = append(out, withI(withI(genStep(r, "st.free_alloc"), 0, a), 2, 2))
		return out
	case "i.rotate":
		// grants under key K1, the owner re-registers the name under K2 (limits same or changed), replays of the K1 markers, a marker
		// still signed with K1, more grants (towards / across the total limit), rotation back to K1, replays again (their signatures
		// verify again), a reused nonce, a grant over what is left of the total limit
		a := ri(r, 4)
		fa := func(tokens, fault int64) sim.Step {
			return sim.Step{Op: "st.free_alloc", A: r.Intn(8), I: []int64{a, tokens, fault, ri(r, 8), ri(r, 8)}}
		}
		reg := func(keyKind int64) sim.Step {
			return sim.Step{Op: "st.add_assigner", A: 0, I: []int64{a, int64(r.Pick([]int{3, 3, 1, 0, 1})), int64(r.Pick([]int{4, 3, 2, 0, 2})), keyKind}}
		}
		var out []sim.Step
		if r.Intn(2) == 0 {
			out = append(out, reg(3))
		}
		for i := 0; i < 1+r.Intn(2); i++ {
			out = append(out, fa(int64(r.Pick([]int{2, 3, 2, 1, 0})), 0))
		}
		out = append(out, reg(2), fa(0, 2))
		if r.Intn(2) == 0 {
			out = append(out, fa(1, 11))
		}
		for i := 0; i < 1+r.Intn(3); i++ {
			out = append(out, fa(int64(r.Pick([]int{1, 3, 3, 0, 1})), 0))
		}
		if r.Intn(2) == 0 {
			out = append(out, fa(0, 4))
		}
		if r.Intn(3) == 0 {
			out = append(out, genStep(r, "block"))
		}
		out = append(out, reg(2), fa(0, 2), fa(0, 2))
		if r.Intn(2) == 0 {
			out = append(out, fa(1, 9))
		}
		out = append(out, fa(int64(r.Pick([]int{1, 3, 3, 0, 1})), 0), fa(0, 4))
		return out
	case "i.postclose": // operations on an allocation that may already be closed
		a := ri(r, 8)
		ops := []string{"st.wp_lock", "st.commit", "st.finalize", "st.cancel", "st.update_alloc", "st.read"}
		var out []sim.Step
		for i := 0; i < 2; i++ {
			s := genStep(r, ops[r.Intn(len(ops))])
			out = append(out, withI(withI(s, 0, a), 1, 1))
		}
		return out
	}
	return []sim.Step{genStep(r, op)}
}

// genStorage writes the storage swarm knobs into p.Cfg, prepends the bootstrap
// (all real transactions, each its own deletable step) and interleaves the
// storage steps with the base steps already in the plan.
func genStorage(r *sim.RNG, p *sim.Plan, tier string, prof *profile) {
	sw := r.Child("st-swarm")
	p.Cfg["funding"] = []int64{1e13, 1e14}[sw.Intn(2)]
	if p.Cfg["clients"] < 3 {
		p.Cfg["clients"] = int64(sw.Range(3, 6))
	}
	p.Cfg["ed25519"] = int64(sw.Pick([]int{11, 1}))
	nb := sw.Range(2, 8)
	nv := sw.Range(1, 5)
	na := sw.Range(1, 2)
	nc := int(p.Cfg["clients"])
	p.Cfg["st_blobbers"], p.Cfg["st_validators"], p.Cfg["st_assigners"] = int64(nb), int64(nv), int64(na)
	forks := sw.Pick([]int{2, 1, 5})
	p.Cfg["st_forks"] = int64(forks)
	mccr := []int{2, 3, 5, 1200}[sw.Pick([]int{3, 3, 2, 1})]
	vpc := sw.Range(1, 3)
	if vpc > nv {
		vpc = nv
	}
	p.Cfg["st_mccr"] = int64(mccr)
	// enterprise world (after the electra fork): enterprise blobbers and allocations, no challenge pools
	enterprise := forks == 2 && sw.Intn(9) == 0
	if enterprise {
		p.Cfg["st_enterprise"] = 1
	}

	g := r.Child("st-plan")
	var boot []sim.Step
	if forks > 0 {
		boot = append(boot, sim.Step{Op: "st.hardfork", I: []int64{int64(forks)}})
	}
	set := []string{"max_challenge_completion_rounds", fmt.Sprint(mccr), "validators_per_challenge", fmt.Sprint(vpc),
		"free_allocation_settings.data_shards", fmt.Sprint(sw.Range(1, 3)), "free_allocation_settings.parity_shards", fmt.Sprint(sw.Range(1, 2)),
		"free_allocation_settings.read_price_range.max", "7", "free_allocation_settings.write_price_range.max", "7"}
	if sw.Intn(2) == 0 {
		set = append(set, "time_unit", []string{"24h", "1h", "2160h"}[sw.Intn(3)])
	}
	if sw.Intn(2) == 0 {
		set = append(set, "cancellation_charge", []string{"0", "0.5", "1", "0.05"}[sw.Intn(4)])
	}
	if sw.Intn(3) == 0 {
		set = append(set, "free_allocation_settings.read_pool_fraction", []string{"0.2", "0.5", "1"}[sw.Intn(3)])
	}
	if sw.Intn(3) == 0 {
		set = append(set, "blobber_slash", []string{"0", "0.5", "1"}[sw.Intn(3)])
	}
	if sw.Intn(4) == 0 {
		set = append(set, "validator_reward", []string{"0", "0.3", "1"}[sw.Intn(3)])
	}
	boot = append(boot, sim.Step{Op: "st.settings", S: set})
	if age := []int{0, 30, 31, 45}[sw.Pick([]int{2, 3, 3, 1})]; age > 0 {
		boot = append(boot, sim.Step{Op: "st.rounds", I: []int64{int64(age)}})
	}
	if p.Cfg["fees"] != 0 {
		for i := 0; i < nb; i++ {
			boot = append(boot, sim.Step{Op: "st.fund", A: i % nc, I: []int64{0, int64(i), 1}})
		}
		for i := 0; i < nv; i++ {
			boot = append(boot, sim.Step{Op: "st.fund", A: i % nc, I: []int64{1, int64(i), 1}})
		}
		boot = append(boot, sim.Step{Op: "st.fund", A: 0, I: []int64{2, 0, 1}})
	}
	for i := 0; i < nv; i++ {
		boot = append(boot, sim.Step{Op: "st.add_validator", A: i})
		boot = append(boot, sim.Step{Op: "st.stake", A: g.Intn(nc), I: []int64{1, int64(i), int64(g.Pick([]int{1, 4, 2}))}})
	}
	for i := 0; i < nb; i++ {
		s := genStep(g, "st.add_blobber")
		s.A = i
		if enterprise {
			s = withI(s, 4, 7)
		}
		boot = append(boot, s)
		for k := 0; k < 1+g.Intn(2); k++ {
			boot = append(boot, sim.Step{Op: "st.stake", A: g.Intn(nc), I: []int64{0, int64(i), int64(1 + g.Pick([]int{2, 4, 3, 2}))}})
		}
	}
	for i := 0; i < na; i++ {
		boot = append(boot, sim.Step{Op: "st.add_assigner", A: 0, I: []int64{int64(i), int64(g.Pick([]int{2, 4, 2})), int64(g.Pick([]int{3, 3, 2}))}})
	}
	for i := 0; i < nc; i++ {
		if g.Intn(2) == 0 {
			boot = append(boot, sim.Step{Op: "st.rp_lock", A: i, I: []int64{int64(g.Intn(2)), -1}})
		}
	}
	boot = append(boot, sim.Step{Op: "block", I: []int64{0, 1}})
	for i := 0; i < 1+g.Intn(2); i++ {
		s := genStep(g, "st.new_alloc")
		s = withI(withI(withI(s, 2, int64(g.Pick([]int{2, 3, 3, 1, 0, 0, 0, 2}))), 5, int64(2+g.Intn(4))), 8, 0)
		boot = append(boot, s)
	}

	// main part
	n := g.Range(prof.lo, prof.hi)
	if tier == "thorough" {
		n = g.Range(prof.lo, prof.hi*3)
	}
	names := make([]string, 0, len(prof.w))
	for _, k := range sortedKeys(prof.w) {
		names = append(names, k)
	}
	ws := make([]int, len(names))
	for i, k := range names {
		ws[i] = prof.w[k]
	}
	var main []sim.Step
	for len(main) < n {
		op := names[g.Pick(ws)]
		main = append(main, expand(g, op, minInt(mccr, 6))...)
	}
	if enterprise {
		for i := range boot {
			if boot[i].Op == "st.new_alloc" {
				boot[i] = withI(boot[i], 7, 15)
			}
		}
		for i := range main {
			if main[i].Op == "st.new_alloc" && g.Intn(8) != 0 {
				main[i] = withI(main[i], 7, 15)
			}
		}
	}
	// interleave with the base steps of the plan (both orders preserved)
	base := p.Steps
	merged := make([]sim.Step, 0, len(base)+len(main))
	i, j := 0, 0
	for i < len(base) || j < len(main) {
		if j >= len(main) || (i < len(base) && g.Intn(len(base)+len(main)) < len(base)) {
			merged = append(merged, base[i])
			i++
		} else {
			merged = append(merged, main[j])
			j++
		}
	}
	p.Steps = append(boot, merged...)
}

func minInt(a, b int) int {
	if a < b {
		return a
	}
	return b
}
