// Package storage is the storage-contract workload and its oracles (C12, C13,
// C14, C15, C24) on top of the ledger world W1.
package storage
