package storage

import (
	"fmt"
	"reflect"
	"sort"
	"strings"

	cstate "0chain.net/chaincore/chain/state"
	"0chain.net/core/encryption"
	"0chain.net/smartcontract/storagesc"
	"github.com/0chain/common/core/util"
	"github.com/tinylib/msgp/msgp"

	"verif/worlds/ledger"
)

// ---- keys of the storage contract's records (the contract's own key layout) -----------------------

const scAddr = storagesc.ADDRESS

func keyAlloc(id string) string           { return storagesc.GetAllocKey(scAddr, id) }
func keyProvider(id string) string        { return "provider:" + id }
func keyBlobberSP(id string) string       { return "blobber:stakepool:" + id }
func keyValidatorSP(id string) string     { return "validator:stakepool:" + id }
func keyChallengePool(id string) string   { return scAddr + ":challengepool:" + id }
func keyReadPool(client string) string    { return scAddr + ":readpool:" + client }
func keyAssigner(name string) string      { return scAddr + ":freestorageredeemed:" + name }
func keyAllocChallenges(id string) string { return scAddr + ":allocation_challenges:" + id }
func keyChallenge(id string) string       { return scAddr + "storage_challenge:" + id }
func keyConfig() string                   { return scAddr + encryption.Hash("storagesc_config") }
func keyReadConn(blobber, client, alloc string) string {
	return scAddr + encryption.Hash(blobber+client+alloc)
}

// ---- raw access to the real trie ------------------------------------------------------------------

// rawAt reads the value bytes stored under a contract key in the state of the
// block under assembly (nil,false when absent). It does not go through the
// contract StateContext, so hook H1 does not see these reads.
func rawAt(bc *ledger.BlockCtx, key string) ([]byte, bool) {
	b, err := bc.State.GetNodeValueRaw(util.Path(encryption.Hash(key)))
	if err != nil {
		if err == util.ErrValueNotPresent || err == util.ErrNodeNotFound {
			return nil, false
		}
		panic(fmt.Sprintf("storage view: reading %q: %v", key, err))
	}
	if len(b) == 0 {
		return nil, false
	}
	return b, true
}

// generic msgp decoding (for the contract's unexported record types)

func gdecode(b []byte) map[string]any {
	v, _, err := msgp.ReadIntfBytes(b)
	if err != nil {
		panic(fmt.Sprintf("storage view: msgp decode: %v", err))
	}
	m, _ := v.(map[string]any)
	return m
}

func gmap(v any) map[string]any {
	m, _ := v.(map[string]any)
	return m
}

func gslice(v any) []any {
	s, _ := v.([]any)
	return s
}

func gstr(v any) string {
	switch x := v.(type) {
	case string:
		return x
	case []byte:
		return string(x)
	}
	return ""
}

func gbool(v any) bool { b, _ := v.(bool); return b }

func gu64(v any) uint64 {
	switch x := v.(type) {
	case uint64:
		return x
	case int64:
		return uint64(x)
	case int:
		return uint64(x)
	case uint32:
		return uint64(x)
	case int32:
		return uint64(x)
	case uint8:
		return uint64(x)
	case int8:
		return uint64(x)
	case uint16:
		return uint64(x)
	case int16:
		return uint64(x)
	case float64:
		return uint64(x)
	case float32:
		return uint64(x)
	}
	return 0
}

func gi64(v any) int64 { return int64(gu64(v)) }

// ---- typed snapshot -------------------------------------------------------------------------------

type BAView struct {
	BlobberID   string
	Size        int64
	WritePrice  uint64
	ReadPrice   uint64
	Integral    uint64 // ChallengePoolIntegralValue
	Offer       uint64 // BlobberAllocation.Offer() computed by the shipped method
	UsedSize    int64
	Root        string // AllocationRoot
	LWMTime     int64
	LWMSize     int64
	LWMPrevRoot string
	LWMVersion  string
	ChainSize   int64
	ChainHash   string
	ChallReward uint64
	OpenChall   int64
	LatestFinal int64
}

type AllocView struct {
	ID           string
	Owner        string
	OwnerPK      string
	Expiration   int64
	StartTime    int64
	WritePool    uint64
	Size         int64
	DataShards   int
	ParityShards int
	Finalized    bool
	Canceled     bool
	Enterprise   bool
	ThirdParty   bool
	MovedToCh    uint64
	MovedBack    uint64
	UsedSize     int64
	Version      string
	BAs          []BAView
}

func (a *AllocView) BA(blobber string) *BAView {
	for i := range a.BAs {
		if a.BAs[i].BlobberID == blobber {
			return &a.BAs[i]
		}
	}
	return nil
}

type PoolView struct {
	Balance uint64
	Reward  uint64
	Status  int64
}

type SPView struct {
	Present     bool
	TotalOffers uint64
	Reward      uint64
	Killed      bool
	Delegate    string
	MinStake    uint64
	Pools       map[string]PoolView
}

// Rewardless reports whether StakePool.DistributeRewards credits nothing to
// this pool (killed, or staked below the pool's minimum).
func (s *SPView) Rewardless() bool { return s.Killed || s.Stake() < s.MinStake }

func (s *SPView) Stake() uint64 {
	var t uint64
	for _, p := range s.Pools {
		t += p.Balance
	}
	return t
}

// Credited is the sum of all reward counters (provider + delegates).
func (s *SPView) Credited() uint64 {
	t := s.Reward
	for _, p := range s.Pools {
		t += p.Reward
	}
	return t
}

type BlobberView struct {
	ID         string
	Present    bool // provider record present
	Allocated  int64
	Capacity   int64
	SavedData  int64
	WritePrice uint64
	ReadPrice  uint64
	Killed     bool
	ShutDown   bool
	NotAvail   bool
	LastHealth int64
	Version    string
	SP         SPView
}

func (b *BlobberView) Dead() bool { return b.Killed || b.ShutDown }

type ValidatorView struct {
	ID       string
	Present  bool
	Killed   bool
	ShutDown bool
	SP       SPView
}

type AssignerView struct {
	Name       string
	PublicKey  string
	Individual uint64
	Total      uint64
	Redeemed   uint64
	Nonces     []int64
}

type ChallengeView struct {
	ID         string
	AllocID    string
	BlobberID  string
	Round      int64
	Created    int64
	Validators []string
	HasRecord  bool
}

type ConfView struct {
	TimeUnitNs         int64
	CancellationCharge float64
	MaxChallRounds     int64
	ValidatorsPerChall int
	FreeData           int
	FreeParity         int
	FreeSize           int64
	MaxIndividualFree  uint64
	MaxTotalFree       uint64
	MinAllocSize       int64
	MinBlobberCapacity int64
}

// View is a decoded snapshot of every storage record the run knows about.
type View struct {
	Root       string
	Allocs     map[string]*AllocView
	Blobbers   map[string]*BlobberView
	Validators map[string]*ValidatorView
	CP         map[string]uint64 // challenge pool balance of allocation id (present only)
	ReadPools  map[string]uint64 // client -> balance (present only)
	ReadCtr    map[string]int64  // read connection key -> counter (present only)
	ReadTS     map[string]int64  // read connection key -> timestamp of the stored marker (workload only; no oracle reads it)
	Assigners  map[string]*AssignerView
	Challenges []ChallengeView // open challenges (from the allocation challenge lists), stable order
	Conf       ConfView
}

// Viewer learns the keys of interest from hook H1 and decodes snapshots on demand.
type Viewer struct {
	w         *ledger.World
	allocIDs  []string // in order of first insertion
	allocSeen map[string]bool
	blobIDs   []string
	blobSeen  map[string]bool
	valIDs    []string
	valSeen   map[string]bool
	rpClients map[string]bool
	readConns map[string]bool
	assigners map[string]bool
	cache     *View
	Prev, Cur *View // maintained by the observer: before / after the last applied transaction
}

func NewViewer(w *ledger.World) *Viewer {
	v := &Viewer{w: w, allocSeen: map[string]bool{}, blobSeen: map[string]bool{}, valSeen: map[string]bool{},
		rpClients: map[string]bool{}, readConns: map[string]bool{}, assigners: map[string]bool{}}
	w.Reg.Hooks = append(w.Reg.Hooks, v.onAccess)
	return v
}

var (
	tAlloc    = reflect.TypeOf(&storagesc.StorageAllocation{})
	tNode     = reflect.TypeOf(&storagesc.StorageNode{})
	tValid    = reflect.TypeOf(&storagesc.ValidationNode{})
	tReadConn = reflect.TypeOf(&storagesc.ReadConnection{})
)

func (v *Viewer) onAccess(a *ledger.Access) {
	if a.Op != cstate.VerifOpInsert || a.V == nil {
		return
	}
	k := a.Key
	switch reflect.TypeOf(a.V) {
	case tAlloc:
		if strings.HasPrefix(k, scAddr) {
			id := k[len(scAddr):]
			if !v.allocSeen[id] {
				v.allocSeen[id] = true
				v.allocIDs = append(v.allocIDs, id)
			}
		}
	case tNode:
		if strings.HasPrefix(k, "provider:") {
			id := k[len("provider:"):]
			if !v.blobSeen[id] {
				v.blobSeen[id] = true
				v.blobIDs = append(v.blobIDs, id)
			}
		}
	case tValid:
		if strings.HasPrefix(k, "provider:") {
			id := k[len("provider:"):]
			if !v.valSeen[id] {
				v.valSeen[id] = true
				v.valIDs = append(v.valIDs, id)
			}
		}
	case tReadConn:
		v.readConns[k] = true
	default:
		switch {
		case strings.HasPrefix(k, scAddr+":readpool:"):
			v.rpClients[k[len(scAddr+":readpool:"):]] = true
		case strings.HasPrefix(k, scAddr+":freestorageredeemed:"):
			v.assigners[k[len(scAddr+":freestorageredeemed:"):]] = true
		}
	}
}

// AllocIDs returns every allocation id ever inserted (creation order).
func (v *Viewer) AllocIDs() []string { return v.allocIDs }

// At decodes the snapshot of the block under assembly (cached by state root).
func (v *Viewer) At(bc *ledger.BlockCtx) *View {
	root := string(bc.State.GetRoot())
	if v.cache != nil && v.cache.Root == root {
		return v.cache
	}
	vw := &View{Root: root, Allocs: map[string]*AllocView{}, Blobbers: map[string]*BlobberView{}, Validators: map[string]*ValidatorView{},
		CP: map[string]uint64{}, ReadPools: map[string]uint64{}, ReadCtr: map[string]int64{}, ReadTS: map[string]int64{}, Assigners: map[string]*AssignerView{}}
	for _, id := range v.allocIDs {
		if raw, ok := rawAt(bc, keyAlloc(id)); ok {
			if av := decodeAlloc(raw); av != nil {
				vw.Allocs[id] = av
			}
		}
		if raw, ok := rawAt(bc, keyChallengePool(id)); ok {
			vw.CP[id] = decodeChallengePool(raw)
		}
		if raw, ok := rawAt(bc, keyAllocChallenges(id)); ok {
			m := gdecode(raw)
			for _, oc := range gslice(m["OpenChallenges"]) {
				om := gmap(oc)
				cv := ChallengeView{ID: gstr(om["ID"]), AllocID: id, BlobberID: gstr(om["BlobberID"]), Round: gi64(om["RoundCreatedAt"]), Created: gi64(om["CreatedAt"])}
				if craw, ok := rawAt(bc, keyChallenge(cv.ID)); ok {
					cm := gdecode(craw)
					cv.HasRecord = true
					for _, x := range gslice(cm["ValidatorIDs"]) {
						cv.Validators = append(cv.Validators, gstr(x))
					}
				}
				vw.Challenges = append(vw.Challenges, cv)
			}
		}
	}
	for _, id := range v.blobIDs {
		bv := &BlobberView{ID: id}
		if raw, ok := rawAt(bc, keyProvider(id)); ok {
			decodeBlobber(raw, bv)
		}
		if raw, ok := rawAt(bc, keyBlobberSP(id)); ok {
			bv.SP = decodeSP(raw)
		}
		if bv.Present || bv.SP.Present {
			vw.Blobbers[id] = bv
		}
	}
	for _, id := range v.valIDs {
		vv := &ValidatorView{ID: id}
		if raw, ok := rawAt(bc, keyProvider(id)); ok {
			m := gdecode(raw)
			pm := gmap(m["Provider"])
			if gi64(pm["ProviderType"]) == 4 {
				vv.Present = true
				vv.Killed = gbool(pm["HasBeenKilled"])
				vv.ShutDown = gbool(pm["HasBeenShutDown"])
			}
		}
		if raw, ok := rawAt(bc, keyValidatorSP(id)); ok {
			vv.SP = decodeSP(raw)
		}
		if vv.Present || vv.SP.Present {
			vw.Validators[id] = vv
		}
	}
	for c := range v.rpClients {
		if raw, ok := rawAt(bc, keyReadPool(c)); ok {
			vw.ReadPools[c] = gu64(gdecode(raw)["Balance"])
		}
	}
	for k := range v.readConns {
		if raw, ok := rawAt(bc, k); ok {
			rm := gmap(gdecode(raw)["ReadMarker"])
			vw.ReadCtr[k] = gi64(rm["ReadCounter"])
			vw.ReadTS[k] = gi64(rm["Timestamp"])
		}
	}
	for n := range v.assigners {
		if raw, ok := rawAt(bc, keyAssigner(n)); ok {
			m := gdecode(raw)
			av := &AssignerView{Name: n, PublicKey: gstr(m["PublicKey"]), Individual: gu64(m["IndividualLimit"]), Total: gu64(m["TotalLimit"]), Redeemed: gu64(m["CurrentRedeemed"])}
			for _, x := range gslice(m["RedeemedNonces"]) {
				av.Nonces = append(av.Nonces, gi64(x))
			}
			vw.Assigners[n] = av
		}
	}
	if raw, ok := rawAt(bc, keyConfig()); ok {
		conf := &storagesc.Config{}
		if _, err := conf.UnmarshalMsg(raw); err == nil {
			vw.Conf = ConfView{TimeUnitNs: int64(conf.TimeUnit), CancellationCharge: conf.CancellationCharge, MaxChallRounds: conf.MaxChallengeCompletionRounds,
				ValidatorsPerChall: conf.ValidatorsPerChallenge, FreeData: conf.FreeAllocationSettings.DataShards, FreeParity: conf.FreeAllocationSettings.ParityShards,
				FreeSize: conf.FreeAllocationSettings.Size, MaxIndividualFree: uint64(conf.MaxIndividualFreeAllocation), MaxTotalFree: uint64(conf.MaxTotalFreeAllocation),
				MinAllocSize: conf.MinAllocSize, MinBlobberCapacity: conf.MinBlobberCapacity}
		}
	}
	v.cache = vw
	return vw
}

func decodeChallengePool(raw []byte) uint64 {
	m := gdecode(raw)
	z := gmap(m["ZcnPool"])
	if z == nil {
		return 0
	}
	if tp := gmap(z["TokenPool"]); tp != nil {
		return gu64(tp["Balance"])
	}
	return gu64(z["Balance"])
}

func decodeSP(raw []byte) SPView {
	m := gdecode(raw)
	sp := SPView{Present: true, TotalOffers: gu64(m["TotalOffers"]), Pools: map[string]PoolView{}}
	inner := gmap(m["StakePool"])
	sp.Reward = gu64(inner["Reward"])
	sp.Killed = gbool(inner["HasBeenKilled"])
	sp.Delegate = gstr(gmap(inner["Settings"])["DelegateWallet"])
	sp.MinStake = gu64(gmap(inner["Settings"])["MinStake"])
	for id, p := range gmap(inner["Pools"]) {
		pm := gmap(p)
		sp.Pools[id] = PoolView{Balance: gu64(pm["Balance"]), Reward: gu64(pm["Reward"]), Status: gi64(pm["Status"])}
	}
	return sp
}

func fieldI64(v reflect.Value, name string) int64 {
	f := v.FieldByName(name)
	if !f.IsValid() {
		return 0
	}
	switch f.Kind() {
	case reflect.Int, reflect.Int64, reflect.Int32, reflect.Int16, reflect.Int8:
		return f.Int()
	case reflect.Uint, reflect.Uint64, reflect.Uint32, reflect.Uint16, reflect.Uint8:
		return int64(f.Uint())
	}
	return 0
}

func fieldStr(v reflect.Value, name string) string {
	f := v.FieldByName(name)
	if !f.IsValid() || f.Kind() != reflect.String {
		return ""
	}
	return f.String()
}

func fieldBool(v reflect.Value, name string) bool {
	f := v.FieldByName(name)
	if !f.IsValid() {
		return false
	}
	if f.Kind() == reflect.Ptr {
		if f.IsNil() {
			return false
		}
		f = f.Elem()
	}
	if f.Kind() != reflect.Bool {
		return false
	}
	return f.Bool()
}

// decodeAlloc decodes an allocation with the contract's own exported wrapper
// type and reads the (unexported) base struct through reflection.
func decodeAlloc(raw []byte) *AllocView {
	sa := &storagesc.StorageAllocation{}
	if _, err := sa.UnmarshalMsg(raw); err != nil {
		panic(fmt.Sprintf("storage view: allocation does not decode: %v", err))
	}
	b := reflect.ValueOf(sa.Base()).Elem()
	av := &AllocView{
		ID: fieldStr(b, "ID"), Owner: fieldStr(b, "Owner"), OwnerPK: fieldStr(b, "OwnerPublicKey"),
		Expiration: fieldI64(b, "Expiration"), StartTime: fieldI64(b, "StartTime"), WritePool: uint64(fieldI64(b, "WritePool")),
		Size: fieldI64(b, "Size"), DataShards: int(fieldI64(b, "DataShards")), ParityShards: int(fieldI64(b, "ParityShards")),
		Finalized: fieldBool(b, "Finalized"), Canceled: fieldBool(b, "Canceled"), ThirdParty: fieldBool(b, "ThirdPartyExtendable"),
		MovedToCh: uint64(fieldI64(b, "MovedToChallenge")), MovedBack: uint64(fieldI64(b, "MovedBack")),
		Version: sa.Entity().GetVersion(),
	}
	ent := reflect.ValueOf(sa.Entity()).Elem()
	av.Enterprise = fieldBool(ent, "IsEnterprise")
	if st := b.FieldByName("Stats"); st.IsValid() && !st.IsNil() {
		av.UsedSize = st.Elem().FieldByName("UsedSize").Int()
	}
	bas, _ := b.FieldByName("BlobberAllocs").Interface().([]*storagesc.BlobberAllocation)
	for _, ba := range bas {
		if ba == nil {
			continue
		}
		x := BAView{BlobberID: ba.BlobberID, Size: ba.Size, WritePrice: uint64(ba.Terms.WritePrice), ReadPrice: uint64(ba.Terms.ReadPrice),
			Integral: uint64(ba.ChallengePoolIntegralValue), Offer: uint64(ba.Offer()), Root: ba.AllocationRoot, ChallReward: uint64(ba.ChallengeReward),
			LatestFinal: int64(ba.LatestFinalizedChallCreatedAt)}
		if ba.Stats != nil {
			x.UsedSize = ba.Stats.UsedSize
			x.OpenChall = ba.Stats.OpenChallenges
		}
		if ba.LastWriteMarker != nil && ba.LastWriteMarker.Entity() != nil {
			wb := reflect.ValueOf(ba.LastWriteMarker.Base()).Elem()
			x.LWMTime = fieldI64(wb, "Timestamp")
			x.LWMSize = fieldI64(wb, "Size")
			x.LWMPrevRoot = fieldStr(wb, "PreviousAllocationRoot")
			x.LWMVersion = ba.LastWriteMarker.GetVersion()
			we := reflect.ValueOf(ba.LastWriteMarker.Entity()).Elem()
			x.ChainSize = fieldI64(we, "ChainSize")
			x.ChainHash = fieldStr(we, "ChainHash")
		}
		av.BAs = append(av.BAs, x)
	}
	return av
}

func decodeBlobber(raw []byte, bv *BlobberView) {
	sn := &storagesc.StorageNode{}
	if _, err := sn.UnmarshalMsg(raw); err != nil {
		// a validator record lives under the same key space; not a blobber
		return
	}
	b := reflect.ValueOf(sn.Base()).Elem()
	pv := b.FieldByName("Provider")
	if fieldI64(pv, "ProviderType") != 3 {
		return
	}
	bv.Present = true
	bv.Allocated = fieldI64(b, "Allocated")
	bv.Capacity = fieldI64(b, "Capacity")
	bv.SavedData = fieldI64(b, "SavedData")
	t := b.FieldByName("Terms")
	bv.WritePrice = uint64(fieldI64(t, "WritePrice"))
	bv.ReadPrice = uint64(fieldI64(t, "ReadPrice"))
	bv.Killed = sn.IsKilled()
	bv.ShutDown = sn.IsShutDown()
	bv.NotAvail = fieldBool(b, "NotAvailable")
	bv.LastHealth = fieldI64(pv, "LastHealthCheck")
	bv.Version = sn.Entity().GetVersion()
}

// OpenAllocIDs returns the ids of allocation records present in the view, in creation order.
func (v *Viewer) OpenAllocIDs(vw *View) []string {
	var out []string
	for _, id := range v.allocIDs {
		if _, ok := vw.Allocs[id]; ok {
			out = append(out, id)
		}
	}
	return out
}

func sortedKeys[V any](m map[string]V) []string {
	ks := make([]string, 0, len(m))
	for k := range m {
		ks = append(ks, k)
	}
	sort.Strings(ks)
	return ks
}
