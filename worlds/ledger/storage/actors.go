package storage

import (
	"encoding/hex"
	"fmt"
	"os"

	"0chain.net/chaincore/transaction"
	"0chain.net/core/encryption"

	"verif/sim"
	"verif/worlds/ledger"
	"verif/worlds/wkit"
)

// debugOut (development only): log contract outputs into the event log.
var debugOut = os.Getenv("VERIF_ST_DEBUG") != ""

const (
	zcn = int64(1e10)
	kb  = int64(1024)
	mb  = 1024 * kb
	gb  = 1024 * mb
)

// Actor is a sim-owned provider identity (blobber or validator).
type Actor struct {
	*ledger.Client
	Delegate *ledger.Client // delegate wallet: one of the world's clients
	URL      string
}

// Assigner is a sim-owned free-storage assigner key.
type Assigner struct {
	Name string
	PK   string
	Keys encryption.SignatureScheme
	// second key of the same assigner name: the owner may re-register the name under it (key rotation) and back
	PK2   string
	Keys2 encryption.SignatureScheme
}

// keysFor returns the signing key whose public key is pk (the one currently registered), the first key otherwise.
func (a *Assigner) keysFor(pk string) encryption.SignatureScheme {
	if pk != "" && pk == a.PK2 {
		return a.Keys2
	}
	return a.Keys
}

// otherThan returns the key pair that is not pk.
func (a *Assigner) otherThan(pk string) (string, encryption.SignatureScheme) {
	if pk == a.PK2 {
		return a.PK, a.Keys
	}
	return a.PK2, a.Keys2
}

// SW is the storage workload state of one run: sim-owned identities and the
// bookkeeping needed to resolve symbolic step arguments. Oracles never read it.
type SW struct {
	W          *ledger.World
	R          *ledger.Runner
	V          *Viewer
	Blobbers   []*Actor
	Validators []*Actor
	Assigners  []*Assigner
	Stranger   *ledger.Client

	rootCtr    int
	nonceCtr   map[string]int64      // next fresh marker nonce per assigner
	redeemed   map[string][]string   // assigner -> raw marker inputs that were redeemed (replay faults)
	rotGen     map[string]int        // assigner -> number of accepted re-registrations under another key
	redeemedAt map[string]redeemInfo // raw redeemed input -> key and rotation count at redemption
	lastRead   []string              // raw inputs of accepted read markers (replay faults)
	lastWM     []wmReplay            // accepted commit_connection inputs (replay faults)
	probed     map[string]bool
	closedIDs  []string // allocation ids closed so far (for post-close faults)
}

type redeemInfo struct {
	key string
	gen int
}

type wmReplay struct {
	blobber int
	input   string
}

func newClient(scheme string, rng *sim.RNG, idx int) *ledger.Client {
	ks := wkit.NewKeys(scheme, rng)
	pkb, err := hex.DecodeString(ks.GetPublicKey())
	if err != nil {
		panic(err)
	}
	return &ledger.Client{Idx: idx, ID: encryption.Hash(pkb), PK: ks.GetPublicKey(), Keys: ks}
}

// NewSW derives the sim-owned identities of the storage workload from the
// run's seed and registers the step handlers.
func NewSW(w *ledger.World, r *ledger.Runner) *SW {
	sw := &SW{W: w, R: r, nonceCtr: map[string]int64{}, redeemed: map[string][]string{}, rotGen: map[string]int{}, redeemedAt: map[string]redeemInfo{}, probed: map[string]bool{}}
	sw.V = NewViewer(w)
	keys := sim.NewRNG(w.Seed).Child("keys")
	p := r.Plan
	nb := int(p.CfgInt("st_blobbers", 4))
	nv := int(p.CfgInt("st_validators", 3))
	na := int(p.CfgInt("st_assigners", 1))
	nc := len(w.Clients)
	for i := 0; i < nb; i++ {
		c := newClient(w.Cfg.Scheme, keys.Child(fmt.Sprintf("st/blobber/%d", i)), i)
		sw.Blobbers = append(sw.Blobbers, &Actor{Client: c, Delegate: w.Clients[i%nc], URL: fmt.Sprintf("https://blobber%d.sim", i)})
	}
	for i := 0; i < nv; i++ {
		c := newClient(w.Cfg.Scheme, keys.Child(fmt.Sprintf("st/validator/%d", i)), i)
		sw.Validators = append(sw.Validators, &Actor{Client: c, Delegate: w.Clients[(i+1)%nc], URL: fmt.Sprintf("https://validator%d.sim", i)})
	}
	for i := 0; i < na; i++ {
		ks := wkit.NewKeys(w.Cfg.Scheme, keys.Child(fmt.Sprintf("st/assigner/%d", i)))
		ks2 := wkit.NewKeys(w.Cfg.Scheme, keys.Child(fmt.Sprintf("st/assigner/%d/rotated", i)))
		sw.Assigners = append(sw.Assigners, &Assigner{Name: fmt.Sprintf("assigner-%d", i), PK: ks.GetPublicKey(), Keys: ks, PK2: ks2.GetPublicKey(), Keys2: ks2})
	}
	sw.Stranger = newClient(w.Cfg.Scheme, keys.Child("st/stranger"), 0)
	sw.registerOps()
	// the state before the first transaction (genesis: no storage objects yet)
	r.EnsureBlock()
	sw.V.Cur = sw.V.At(r.BC)
	sw.V.Prev = sw.V.Cur
	return sw
}

func (sw *SW) view() *View {
	sw.R.EnsureBlock()
	return sw.V.At(sw.R.BC)
}

func (sw *SW) blobber(i int64) *Actor {
	if len(sw.Blobbers) == 0 {
		return nil
	}
	return sw.Blobbers[abs(i)%int64(len(sw.Blobbers))]
}

func (sw *SW) validator(i int64) *Actor {
	if len(sw.Validators) == 0 {
		return nil
	}
	return sw.Validators[abs(i)%int64(len(sw.Validators))]
}

func (sw *SW) client(i int64) *ledger.Client {
	return sw.W.Clients[abs(i)%int64(len(sw.W.Clients))]
}

func (sw *SW) actorByID(id string) *ledger.Client {
	for _, b := range sw.Blobbers {
		if b.ID == id {
			return b.Client
		}
	}
	for _, v := range sw.Validators {
		if v.ID == id {
			return v.Client
		}
	}
	for _, c := range sw.W.Clients {
		if c.ID == id {
			return c
		}
	}
	return nil
}

func abs(i int64) int64 {
	if i < 0 {
		return -i
	}
	return i
}

// fee picks a fee the account can pay (0 when fees are disabled or it is broke).
func (sw *SW) fee(id string) int64 {
	if !sw.W.Cfg.Fees {
		return 0
	}
	bal, _, _ := ledger.Balance(sw.R.BC.State, id)
	if int64(bal) >= 1e8 {
		return 1e7
	}
	return 0
}

// call submits a storage-contract call with the sender's next nonce.
func (sw *SW) call(fromID, fromPK, fn string, input any, value int64) *ledger.Outcome {
	return sw.callTo(ledger.AddrStorage, fromID, fromPK, fn, input, value)
}

func (sw *SW) callTo(to, fromID, fromPK, fn string, input any, value int64) *ledger.Outcome {
	r, w := sw.R, sw.W
	r.EnsureBlock()
	if value < 0 {
		value = 0
	}
	spec := ledger.TxnSpec{From: fromID, To: to, Type: transaction.TxnTypeSmartContract, Name: fn,
		Value: value, Nonce: r.ResolveNonce(ledger.NExpected, fromID)}
	if s, ok := input.(string); ok {
		spec.Raw = s
	} else {
		spec.Input = input
	}
	bal, _, _ := ledger.Balance(r.BC.State, fromID)
	spec.Fee = sw.fee(fromID)
	if int64(bal) < value+spec.Fee {
		spec.Fee = 0
	}
	t := w.MakeTxn(spec)
	t.PublicKey = fromPK
	o := r.Submit(t)
	w.Tr.Outcome("st/" + fn + "/" + o.Class)
	if debugOut {
		w.Tr.Event("    %s by %s -> %s: %.300s %v", fn, short(fromID), o.Class, t.TransactionOutput, o.Err)
	}
	return o
}

func (sw *SW) probe(name string) {
	sw.W.Tr.Probe(name)
}

// probeFirst records a probe the first time the named branch is reached in this run.
func (sw *SW) probeFirst(name string) {
	if !sw.probed[name] {
		sw.probed[name] = true
		sw.W.Tr.Probe("first_" + name)
	}
	sw.W.Tr.Probe(name)
}

func signData(ks encryption.SignatureScheme, data string) string {
	sig, err := ks.Sign(encryption.Hash(data))
	if err != nil {
		return ""
	}
	return sig
}

func (sw *SW) newRoot() string {
	sw.rootCtr++
	return encryption.Hash(fmt.Sprintf("root-%d-%d", sw.W.Seed, sw.rootCtr))
}

// registeredBlobbers returns the sim blobbers whose provider record is present, in actor order.
func (sw *SW) registeredBlobbers(vw *View) []*Actor {
	var out []*Actor
	for _, b := range sw.Blobbers {
		if bv, ok := vw.Blobbers[b.ID]; ok && bv.Present {
			out = append(out, b)
		}
	}
	return out
}

// pickAlloc resolves "allocation #k": among the open allocations (mode 0) or
// among all ever created, closed ones included (mode 1).
func (sw *SW) pickAlloc(vw *View, k int64, mode int64) (string, *AllocView) {
	ids := sw.V.OpenAllocIDs(vw)
	if mode%4 == 1 {
		ids = sw.V.AllocIDs()
	}
	if len(ids) == 0 {
		return "", nil
	}
	if mode%4 == 2 {
		// the most recently created open allocation (ids are kept in creation order)
		id := ids[len(ids)-1]
		return id, vw.Allocs[id]
	}
	id := ids[abs(k)%int64(len(ids))]
	return id, vw.Allocs[id]
}
