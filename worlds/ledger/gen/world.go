// Package gen is the C45 scenario of the ledger world: the REAL miner block
// generator (miner.Chain.GenerateRoundBlock -> GenerateBlock -> generateBlock)
// builds blocks from a transaction pool held in the in-memory datastore.Store,
// and the REAL verifier (miner.Chain.VerifyRoundBlock -> VerifyBlock ->
// ValidateTransactions / ComputeState) checks the block, decoded from its wire
// form, on a second chain instance holding the same previous state.
//
// The miner singleton (miner.GetMinerChain()), node.Self and chain.ServerChain
// are process globals: generator and verifier are never active at the same
// time; the scenario re-points the globals (exported setters) between the two
// identities after the bubble has come to a standstill.
package gen

import (
	"bytes"
	"context"
	"fmt"
	"sort"
	"sync"
	"testing/synctest"
	"time"

	"0chain.net/chaincore/block"
	"0chain.net/chaincore/chain"
	"0chain.net/chaincore/node"
	"0chain.net/chaincore/round"
	"0chain.net/chaincore/transaction"
	"0chain.net/core/datastore"
	"0chain.net/core/viper"
	"0chain.net/miner"

	"verif/sim"
	"verif/worlds/ledger"
	"verif/worlds/wkit"
)

const prop = "C45"

// ptxn is one transaction the sim submitted to the pool.
type ptxn struct {
	T        *transaction.Transaction // as signed by the client (ClientID, PublicKey, Signature)
	Cl       *ledger.Client
	Class    string // what the plan intended: next/past/gap/far/dup/...
	Mode     string // ingest | direct
	Accepted bool   // reached the pool store
	Included int64  // round of the adopted block that includes it (0 = none)
}

// genBlock is what the sim remembers about an adopted block.
type genBlock struct {
	B      *block.Block // generator's copy
	V      *block.Block // verifier's copy
	Hashes []string
}

// G is the per-run state of the scenario.
type G struct {
	W  *ledger.World
	R  *ledger.Runner
	Tr *sim.Trace
	P  *sim.Plan

	Ver *ledger.Replica // verifier chain
	Rec *ledger.Replica // clean recomputation chain (executes copies that carry no outputs)
	recBlocks map[string]*block.Block // executed on Rec, adopted or not

	head, vhead *block.Block
	chain       []*genBlock        // adopted blocks, by round order
	seenIn      map[string]int64   // txn hash -> round of the adopted block including it
	subs        []*ptxn            // every submission, in order
	byHash      map[string]*ptxn   // first submission per hash
	lastQueued  map[string]int64   // client id -> last consecutive nonce handed out
	lfbRound    int64              // generator finalized up to
	vlfbRound   int64              // verifier finalized up to

	mu   sync.Mutex
	sent []datastore.Entity // blocks handed to VerifyBlockSender

	// fault state
	failLeft  int    // MemStore.Fail: fail the next n matching ops
	failOp    string // op kind to fail ("" = any)
	slowAt    int    // sleep at the k-th contract state access of the generation (0 = off)
	slowFor   time.Duration
	accessCnt int
	inGen     bool
	roundFault int

	curChain *chain.Chain // what the process globals currently point to
	curMiner int

	genErrs, verFaultErrs int
}

var bootOnce sync.Once

func boot() {
	bootOnce.Do(func() {
		wkit.FakeRedisPool("txndb")
		miner.SetupNotarizationEntity()
	})
}

// newG prepares the miner singleton over the world's primary chain and a verifier replica.
func newG(w *ledger.World, r *ledger.Runner) *G {
	boot()
	g := &G{W: w, R: r, Tr: w.Tr, P: r.Plan, seenIn: map[string]int64{}, byHash: map[string]*ptxn{}, lastQueued: map[string]int64{}}
	transaction.SetTxnTimeout(r.Plan.CfgInt("txn_timeout", 600))
	g.Ver = w.NewReplica("verifier")
	g.Rec = w.NewReplica("recompute")
	g.recBlocks = map[string]*block.Block{}
	g.head = w.Genesis
	g.vhead = g.Ver.Genesis

	// outgoing traffic of the generator: the block proposal is captured
	miner.VerifyBlockSender = func(e datastore.Entity) node.SendHandler {
		return func(ctx context.Context, n *node.Node) bool {
			g.mu.Lock()
			g.sent = append(g.sent, e)
			g.mu.Unlock()
			return true
		}
	}
	nop := func(e datastore.Entity) node.SendHandler {
		return func(ctx context.Context, n *node.Node) bool { return true }
	}
	miner.VerificationTicketSender = nop
	miner.BlockNotarizationSender = nop
	miner.MinerNotarizedBlockSender = nop
	miner.NotarizedBlockSender = nop
	miner.FinalizedBlockSender = nop
	miner.NotarizedBlockForcePushSender = nop
	chain.LFBTicketSender = nop

	// slow-generator fault: the pool iteration takes simulated time before its
	// k-th entity, so that the proposal deadline (BlockProposalMaxWaitTime)
	// expires in the middle of the collection
	ledger.Store.IterHook = func(ctx context.Context, coll string, i int) {
		if !g.inGen || g.slowAt == 0 {
			return
		}
		g.accessCnt++
		if g.accessCnt == g.slowAt {
			mc := miner.GetMinerChain()
			switch g.roundFault {
			case 1:
				g.Tr.Fault("round_timeout_during_collection")
				mc.IncrementRoundTimeoutCount()
			default:
				g.Tr.Fault("slow_generation")
				time.Sleep(g.slowFor)
			}
		}
	}
	ledger.Store.Fail = func(op, name string) error {
		if g.failLeft <= 0 {
			return nil
		}
		if g.failOp != "" && g.failOp != op {
			return nil
		}
		g.failLeft--
		g.Tr.Fault("store_error:" + op + ":" + name)
		return fmt.Errorf("simulated store failure (%s %s)", op, name)
	}
	// what the miner's main() applies to its chain from the configuration file
	for _, c := range []*chain.Chain{w.C, g.Ver.C, g.Rec.C} {
		c.SetGenerationTimeout(viper.GetInt("server_chain.block.generation.timeout"))
		c.SetRetryWaitTime(viper.GetInt("server_chain.block.generation.retry_wait_time"))
		c.SetSyncStateTimeout(viper.GetDuration("server_chain.state.sync.timeout") * time.Second)
	}
	g.become(w.C, 0)
	return g
}

// become re-points the process globals to one node: its chain, its identity.
func (g *G) become(c *chain.Chain, mi int) *miner.Chain {
	if g.W.InBubble {
		synctest.Wait()
	}
	mi %= len(g.W.Miners)
	if g.curChain == c && g.curMiner == mi {
		return miner.GetMinerChain()
	}
	g.curChain, g.curMiner = c, mi
	m := g.W.Miners[mi]
	self := &node.SelfNode{}
	self.Node = m.N
	self.SetSignatureScheme(m.Keys)
	node.Self = self
	chain.SetServerChain(c)
	miner.SetupMinerChain(c)
	return miner.GetMinerChain()
}

// roundOn returns the miner round object n of the chain the singleton points to.
func (g *G) roundOn(mc *miner.Chain, n int64) *miner.Round {
	if r := mc.GetMinerRound(n); r != nil {
		return r
	}
	mr := mc.CreateRound(round.NewRound(n))
	ri := mc.AddRound(mr)
	if got, ok := ri.(*miner.Round); ok {
		mr = got
	}
	mc.SetRandomSeed(mr, g.seedOf(n))
	return mr
}

func (g *G) seedOf(n int64) int64 {
	return int64(sim.Hash64(fmt.Sprintf("rrs-%d-%d", g.W.Seed, n))>>2) | 1
}

// quiesce lets every goroutine the node started come to a standstill.
func (g *G) quiesce() {
	if g.W.InBubble {
		synctest.Wait()
	}
}

// ---- pool ----------------------------------------------------------------------------------------

// poolKeys returns the hashes currently in the pool store.
func (g *G) poolKeys() []string { return ledger.Store.Keys("txn") }

func (g *G) inPool(hash string) bool {
	ks := g.poolKeys()
	i := sort.SearchStrings(ks, hash)
	return i < len(ks) && ks[i] == hash
}

// wireTxn encodes a client's transaction as the JSON document a wallet posts
// and decodes it the way the node's handler does (ComputeProperties included).
func wireTxn(t *transaction.Transaction) (*transaction.Transaction, error) {
	buf := datastore.ToJSON(t)
	nt := datastore.GetEntityMetadata("txn").Instance().(*transaction.Transaction)
	if err := datastore.FromJSON(bytes.NewReader(buf.Bytes()), nt); err != nil {
		return nil, err
	}
	return nt, nil
}

// ingest submits through the shipped put-transaction handler logic
// (chain.PutTransaction: validation against the latest finalized state, then
// transaction.PutTransaction -> store write).
func (g *G) ingest(t *transaction.Transaction) error {
	nt, err := wireTxn(t)
	if err != nil {
		return err
	}
	nt.CollectionScore = 0
	if _, err := chain.PutTransaction(g.W.Ctx, nt); err != nil {
		return err
	}
	g.rescore(nt)
	return nil
}

// direct writes the entity to the pool store without the admission checks
// (the pool of an honest node holds such transactions whenever the state moved
// on after admission: used nonces, fees below a raised minimum, drained balances).
func (g *G) direct(t *transaction.Transaction) error {
	nt, err := wireTxn(t)
	if err != nil {
		return err
	}
	nt.CollectionScore = 0
	if _, err := transaction.PutTransaction(g.W.Ctx, nt); err != nil {
		return err
	}
	g.rescore(nt)
	return nil
}

// rescore gives the pool member the collection score the shipped redis store
// computes on write (memorystore.writeAux): the entity's GetScore() — the fee
// when fees are enabled — and, when that is zero, the negated write time in ms.
func (g *G) rescore(nt *transaction.Transaction) {
	if sc, err := nt.GetScore(); err == nil && sc != 0 {
		nt.SetCollectionScore(sc)
	} else {
		nt.InitCollectionScore()
	}
	_ = ledger.Store.AddToCollection(g.W.Ctx, nt)
}
