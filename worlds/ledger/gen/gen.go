package gen

import (
	"0chain.net/core/common"
	"0chain.net/core/config"

	"verif/sim"
	"verif/worlds/ledger"
)

// plan knobs applied to the node configuration (viper) before the chain is created
var viperKnobs = map[string]string{
	"max_block_cost": "viper:server_chain.block.max_block_cost",
	"transfer_cost":  "viper:server_chain.transaction.transfer_cost",
	"batch_size":     "viper:server_chain.block.validation.batch_size",
	"min_block_size": "viper:server_chain.block.min_block_size",
	"min_generators": "viper:server_chain.block.min_generators",
	"future_nonce":   "viper:server_chain.transaction.future_nonce",
	"proposal_wait":  "viper:server_chain.block.proposal.max_wait_time", // nanoseconds
}

func genPlan(seed uint64, tier string) *sim.Plan {
	root := sim.NewRNG(seed)
	sw := root.Child("swarm")
	miners := sw.Range(2, 4)
	p := &sim.Plan{Cfg: map[string]int64{
		"clients":  int64(sw.Range(2, 5)),
		"miners":   int64(miners),
		"sharders": int64(sw.Range(1, 2)),
		"fees":     1,
		"funding":  []int64{1e13, 3e10, 1e17}[sw.Pick([]int{6, 2, 1})],
		"ed25519":  0, // the miners' built-in transactions are signed with node (BLS) keys; see LevelNote
		"txn_timeout": []int64{600, 30}[sw.Pick([]int{3, 1})],
		// swarm: storage contract periods of the built-in transactions
		"sc_challenge_gap": int64(sw.Range(1, 3)),
		"sc_reward_period": int64(sw.Range(2, 7)),
	}}
	p.Cfg[viperKnobs["max_block_cost"]] = []int64{10000, 3000, 2900}[sw.Pick([]int{2, 3, 1})]
	p.Cfg[viperKnobs["transfer_cost"]] = []int64{10, 150, 400}[sw.Pick([]int{2, 2, 1})]
	p.Cfg[viperKnobs["batch_size"]] = []int64{1000, 1, 2, 3, 7}[sw.Pick([]int{2, 2, 2, 2, 1})]
	p.Cfg[viperKnobs["min_block_size"]] = []int64{1, 1, 3}[sw.Intn(3)]
	p.Cfg[viperKnobs["min_generators"]] = int64(miners) // every miner is a generator of every round
	p.Cfg[viperKnobs["future_nonce"]] = []int64{10, 3}[sw.Pick([]int{2, 1})]
	p.Cfg[viperKnobs["proposal_wait"]] = 180e6
	p.Cfg["viper:server_chain.block.max_byte_size"] = []int64{1638400, 700}[sw.Pick([]int{4, 1})]
	p.Cfg["viper:server_chain.smart_contract.setting_update_period"] = []int64{200, 5}[sw.Pick([]int{1, 1})]

	r := root.Child("plan")
	rounds := r.Range(3, 10)
	if tier == "thorough" {
		rounds = r.Range(4, 30)
	}
	for i := 0; i < rounds; i++ {
		// pool activity before the round
		n := r.Pick([]int{2, 3, 4, 4, 3, 2, 1, 1}) // 0..7 submissions
		for k := 0; k < n; k++ {
			p.Steps = append(p.Steps, genPut(r))
		}
		switch r.Pick([]int{10, 2, 2, 2, 1}) {
		case 1:
			p.Steps = append(p.Steps, sim.Step{Op: "resub", I: []int64{int64(r.Intn(1000)), int64(r.Intn(2))}})
		case 2:
			p.Steps = append(p.Steps, sim.Step{Op: "flood", A: r.Intn(8), I: []int64{int64(r.Range(3, 25)), int64(r.Pick([]int{1, 0, 2}))}})
		case 3:
			p.Steps = append(p.Steps, sim.Step{Op: "clock", I: []int64{[]int64{1, 5, 28, 300, 650}[r.Pick([]int{4, 3, 2, 1, 1})]}})
		case 4:
			p.Steps = append(p.Steps, sim.Step{Op: "resub", I: []int64{int64(r.Intn(1000)), int64(r.Intn(2))}})
			p.Steps = append(p.Steps, sim.Step{Op: "resub", I: []int64{int64(r.Intn(1000)), int64(r.Intn(2))}})
		}
		rs := sim.Step{Op: "round", A: r.Intn(4), I: []int64{int64(r.Intn(3)), int64(r.Intn(64)), int64(r.Pick([]int{4, 4, 3, 2, 1, 1})), 0, 0, int64(r.Intn(3)), 0}}
		if r.Bool(0.15) {
			rs.I[3] = int64(r.Range(1, 12)) // slow generation before the k-th pool entity
		}
		if r.Bool(0.12) {
			rs.I[4] = int64(r.Range(1, 4)) // pool store error
		}
		if r.Bool(0.05) {
			rs.I[6] = int64(r.Range(1, 4)) // round timeout / next round during the collection
		}
		p.Steps = append(p.Steps, rs)
		if r.Bool(0.45) {
			p.Steps = append(p.Steps, sim.Step{Op: "fin", I: []int64{int64(r.Pick([]int{3, 2, 1, 1})), int64(r.Intn(5)), int64(r.Pick([]int{3, 1, 1}))}})
		}
	}
	return p
}

func genPut(r *sim.RNG) sim.Step {
	kind := r.Pick([]int{8, 3, 5, 2, 1})
	return sim.Step{Op: "put", A: r.Intn(8), I: []int64{
		int64(kind),
		int64(r.Pick([]int{12, 2, 3, 1, 3, 1})), // nonce kind
		int64(r.Pick([]int{8, 3, 2, 2, 1})),     // fee kind
		int64(r.Pick([]int{2, 2, 6, 1, 1, 1})),  // value kind
		int64(r.Intn(600)),                      // target
		int64(r.Pick([]int{12, 2, 1, 1})),       // time kind
		int64(r.Intn(3)),                        // mode
		int64(r.Intn(5)),
	}}
}

var scenario = ledger.Scenario{
	Prop:   prop,
	Bubble: true,
	Early: func(w *ledger.World) []ledger.Observer {
		// storage-contract periods of the built-in transactions (read by the contract's
		// InitConfig during genesis); re-applied on every run
		return nil
	},
	Setup: func(w *ledger.World, r *ledger.Runner) []ledger.Observer {
		g := newG(w, r)
		r.Ops["put"] = func(_ *ledger.Runner, st sim.Step) { g.opPut(st) }
		r.Ops["resub"] = func(_ *ledger.Runner, st sim.Step) { g.opResub(st) }
		r.Ops["flood"] = func(_ *ledger.Runner, st sim.Step) { g.opFlood(st) }
		r.Ops["round"] = func(_ *ledger.Runner, st sim.Step) { g.opRound(st) }
		r.Ops["fin"] = func(_ *ledger.Runner, st sim.Step) { g.opFin(st) }
		return nil
	},
}

func exec(env *sim.Env, p *sim.Plan) *sim.Result {
	// contract configuration knobs are process globals read at genesis: set them from the plan
	ledger.Boot()
	// The root context is created by Boot outside any bubble and goroutines outside
	// the bubble select on it; its Done channel is made lazily by the first caller,
	// which must not be a goroutine inside a bubble (the miner derives contexts from it).
	_ = common.GetRootContext().Done()
	config.SmartContractConfig.Set("smart_contracts.storagesc.challenge_generation_gap", p.CfgInt("sc_challenge_gap", 3))
	config.SmartContractConfig.Set("smart_contracts.storagesc.block_reward.trigger_period", p.CfgInt("sc_reward_period", 30))
	return scenario.Exec(env, p)
}

func init() {
	sim.Register(&sim.Check{
		ID: prop, Title: "Blocks built by an honest generator pass honest verification", World: "ledger",
		Gen: genPlan, Exec: exec,
		Quick: sim.Budget{Runs: 320, WallS: 80}, Thorough: sim.Budget{Runs: 12000, WallS: 1200},
		LevelText:  "TODO",
		LevelNote:  "TODO",
		Technique:  "deterministic simulation: seeded pool histories with store, clock, cache and slow-generation faults; real generator against real verifier on a second chain instance; statement oracles on the block as received",
		DesignRef:  "6/C45",
		Regime:     "single-threaded event loop inside a testing/synctest bubble (generator and verifier take turns; inner ValidateTransactions batch goroutines run to quiescence)",
		Components: ledger.W1Components,
	})
}
